(* Model of the symbol tables of zygo/environment.go: MakeSymbol, GenSymbol, Duplicate, Clone
   over a family of interpreters sharing symtable/revsymtable, each with its own nextsymbol;
   compareSymbol of zygo/comparisons.go; and the injective-table specification.
   Executable definitions only. *)
From Coq Require Import ZArith Bool List Decimal.
Import ListNotations.
Open Scope Z_scope.

(* a name is the byte string of the Go string *)
Definition name := list Z.

Fixpoint name_eqb (a b : name) : bool :=
  match a, b with
  | [], [] => true
  | x :: a', y :: b' => (x =? y) && name_eqb a' b'
  | _, _ => false
  end.

(* ---- strconv.Itoa: decimal rendering, through the standard library's Z.to_int ---- *)
Fixpoint digits (d : uint) : list Z :=
  match d with
  | Nil => []
  | D0 d => 48 :: digits d | D1 d => 49 :: digits d | D2 d => 50 :: digits d
  | D3 d => 51 :: digits d | D4 d => 52 :: digits d | D5 d => 53 :: digits d
  | D6 d => 54 :: digits d | D7 d => 55 :: digits d | D8 d => 56 :: digits d
  | D9 d => 57 :: digits d
  end.
Definition itoa (z : Z) : name :=
  match Z.to_int z with
  | Pos d => digits d
  | Neg d => 45 :: digits d
  end.

(* ---- the two Go maps: map[string]int and map[int]string.  A write `m[k] = v` is a cons and
        a read is the first match, which is the Go map semantics for reads ---- *)
Definition symtab := list (name * Z).
Definition revtab := list (Z * name).

Fixpoint lookup_name (nm : name) (t : symtab) : option Z :=
  match t with
  | [] => None
  | (n, k) :: t' => if name_eqb nm n then Some k else lookup_name nm t'
  end.
Fixpoint lookup_num (k : Z) (t : revtab) : option name :=
  match t with
  | [] => None
  | (j, n) :: t' => if k =? j then Some n else lookup_num k t'
  end.

(* the family: shared tables, one nextsymbol counter per member (environment.go: Zlisp) *)
Record state := mkState {
  symtable : symtab;
  revsymtable : revtab;
  nexts : list Z
}.

Inductive op :=
| MkSym (i : nat) (nm : name)      (* member i: env.MakeSymbol(nm) *)
| GenSym (i : nat) (prefix : name) (* member i: env.GenSymbol(prefix) *)
| Dup (i : nat)                    (* member i: env.Duplicate(), the new member is appended *)
| Clone (i : nat).                 (* member i: env.Clone() *)

Inductive out :=
| OSym (nm : name) (num : Z)  (* the *SexpSymbol returned: name, number *)
| ONone                       (* Duplicate / Clone *)
| OBadMember                  (* no such member (never produced by the harness) *)
| OFuel.                      (* a search loop ran out of fuel (proved unreachable) *)

Fixpoint set_nth (i : nat) (v : Z) (l : list Z) : list Z :=
  match l, i with
  | [], _ => []
  | _ :: l', O => v :: l'
  | x :: l', S i' => x :: set_nth i' v l'
  end.

(* environment.go: MakeSymbol, `for { _, used := env.revsymtable[env.nextsymbol]; if !used {break}; env.nextsymbol++ }` *)
Fixpoint skip_used (fuel : nat) (rev : revtab) (c : Z) : option Z :=
  match fuel with
  | O => None
  | S f => match lookup_num c rev with
           | None => Some c
           | Some _ => skip_used f rev (c + 1)
           end
  end.

(* environment.go: MakeSymbol *)
Definition make_symbol (st : state) (i : nat) (nm : name) : state * out :=
  match nth_error (nexts st) i with
  | None => (st, OBadMember)
  | Some c =>
    match lookup_name nm (symtable st) with
    | Some k => (st, OSym nm k)
    | None =>
      match skip_used (S (length (revsymtable st))) (revsymtable st) c with
      | None => (st, OFuel)
      | Some k =>
        (mkState ((nm, k) :: symtable st) ((k, nm) :: revsymtable st) (set_nth i (k + 1) (nexts st)),
         OSym nm k)
      end
    end
  end.

(* environment.go: GenSymbol, `for { if _, used := env.symtable[symname]; !used {break}; n++; symname = prefix + strconv.Itoa(n) }` *)
Fixpoint gen_search (fuel : nat) (tab : symtab) (prefix : name) (n : Z) : option name :=
  match fuel with
  | O => None
  | S f => let nm := prefix ++ itoa n in
           match lookup_name nm tab with
           | None => Some nm
           | Some _ => gen_search f tab prefix (n + 1)
           end
  end.

(* environment.go: GenSymbol *)
Definition gen_symbol (st : state) (i : nat) (prefix : name) : state * out :=
  match nth_error (nexts st) i with
  | None => (st, OBadMember)
  | Some c =>
    match gen_search (S (length (symtable st))) (symtable st) prefix c with
    | None => (st, OFuel)
    | Some nm => make_symbol st i nm
    end
  end.

(* environment.go: Duplicate and Clone: same tables, the counter is copied *)
Definition duplicate (st : state) (i : nat) : state * out :=
  match nth_error (nexts st) i with
  | None => (st, OBadMember)
  | Some c => (mkState (symtable st) (revsymtable st) (nexts st ++ [c]), ONone)
  end.

Definition step (st : state) (o : op) : state * out :=
  match o with
  | MkSym i nm => make_symbol st i nm
  | GenSym i p => gen_symbol st i p
  | Dup i => duplicate st i
  | Clone i => duplicate st i
  end.

(* a history: any interleaving of operations over the members *)
Fixpoint run (st : state) (ops : list op) : state * list out :=
  match ops with
  | [] => (st, [])
  | o :: ops' =>
    let (st1, r) := step st o in
    let (st2, rs) := run st1 ops' in
    (st2, r :: rs)
  end.

(* comparisons.go: compareSymbol = signumInt(int64(sym.number - e.number)) *)
Definition compare_symbol (a b : Z) : Z :=
  let d := a - b in if d >? 0 then 1 else if d <? 0 then -1 else 0.

(* comparisons.go: compareArray (and comparePair on proper lists) restricted to sequences of symbols:
   element by element, the first non-zero result decides; then the sign of the length difference *)
Fixpoint compare_symbols (a b : list Z) : Z :=
  match a, b with
  | [], [] => 0
  | [], _ :: _ => -1
  | _ :: _, [] => 1
  | x :: a', y :: b' => let c := compare_symbol x y in if c =? 0 then compare_symbols a' b' else c
  end.

(* hashutils.go: hashHelper on a symbol is its number *)
Definition hash_symbol (a : Z) : Z := a.

(* decidable form of the invariant, run on the model state after each history *)
Definition inv_check (st : state) : bool :=
  forallb (fun e => match lookup_num (snd e) (revsymtable st) with
                    | Some n => name_eqb n (fst e) | None => false end) (symtable st)
  && forallb (fun e => match lookup_name (snd e) (symtable st) with
                       | Some k => k =? fst e | None => false end) (revsymtable st).

(* ---------- the specification: an injective table, no counters, no search ----------
   `known` is every (name, number) association that exists so far.  An observed answer
   to an operation is accepted when
     MakeSymbol nm : the answer carries nm; if nm is known its number is the known one,
                     otherwise its number is not the number of any known symbol;
     GenSymbol p   : the answer's name starts with p, is NOT known, and its number is not the
                     number of any known symbol;
     Duplicate/Clone: no symbol. *)
Fixpoint is_prefix (p nm : name) : bool :=
  match p, nm with
  | [], _ => true
  | x :: p', y :: nm' => (x =? y) && is_prefix p' nm'
  | _ :: _, [] => false
  end.

Definition num_known (k : Z) (known : symtab) : bool :=
  existsb (fun e => snd e =? k) known.

Inductive verdict := VOk (known : symtab) | VBad.

Definition spec_step (known : symtab) (o : op) (r : out) : verdict :=
  match o, r with
  | MkSym _ nm, OSym n k =>
    if name_eqb n nm then
      match lookup_name nm known with
      | Some k0 => if k =? k0 then VOk known else VBad
      | None => if num_known k known then VBad else VOk ((nm, k) :: known)
      end
    else VBad
  | GenSym _ p, OSym n k =>
    if is_prefix p n then
      match lookup_name n known with
      | Some _ => VBad
      | None => if num_known k known then VBad else VOk ((n, k) :: known)
      end
    else VBad
  | Dup _, ONone => VOk known
  | Clone _, ONone => VOk known
  | _, _ => VBad
  end.

(* index of the first rejected answer, or None when the whole history is accepted *)
Fixpoint spec_check (known : symtab) (obs : list (op * out)) (idx : nat) : option nat :=
  match obs with
  | [] => None
  | (o, r) :: obs' =>
    match spec_step known o r with
    | VBad => Some idx
    | VOk known' => spec_check known' obs' (S idx)
    end
  end.

Definition spec_accepts (known : symtab) (obs : list (op * out)) : bool :=
  match spec_check known obs O with None => true | Some _ => false end.
