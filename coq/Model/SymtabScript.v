(* Script-level layer of the C19 model: the routes by which PROGRAMS intern and generate symbols,
   compiled to the table operations of Model/Symtab.v.  Executable definitions only.

   Mirrors (zygo/):
     environment.go NewZlispWithFuncs   env.parser = env.NewParser()  (parser.env = the root)
     environment.go Duplicate / Clone   dupenv.parser = env.parser; tables shared; counter copied;
                                        dupenv.linearstack.Push(env.linearstack.elements[0]) (global scope shared)
     parser.go                          every atom of a text is interned by parser.env.MakeSymbol
     functions.go GensymFunction        env.GenSymbol("__gensym") / env.GenSymbol(t.S)
     functions.go Str2SymFunction       env.MakeSymbol(s)
     func.go FuncBuilder, generator.go buildSexpFun      env.GenSymbol("__anon")
     generator.go GenerateForLoop       GenSymbol("__loop") / GenSymbol("__loop_" + label + "_")
     generator.go GeneratePackage       GenSymbol(pkgName)
     pratt.go lowerRangeFor             GenSymbol("__range_src"), ("__range_len"), ("__range_i")
     pratt.go lowerRangeBinding         GenSymbol("__range_pair")  (k, v = range, two targets, no define)
     generator.go GenerateCallBySymbol / GenerateMacexpand, builders.go ExpectErrorBuilder,
     functions.go OldEvalFunction, source.go SimpleSourceFunction
                                        the form runs in an internal env.Duplicate()
     scope lookups                      the global scope is a map keyed by the symbol NUMBER *)
From Coq Require Import ZArith Bool List.
From ZV Require Import Model.Symtab Generated.GensymSites.
Import ListNotations.
Open Scope Z_scope.

(* the literal prefixes of the code *)
Definition p_gensym : name := [95; 95; 103; 101; 110; 115; 121; 109].
Definition p_anon : name := [95; 95; 97; 110; 111; 110].
Definition p_loop : name := [95; 95; 108; 111; 111; 112].
Definition p_loop_ : name := [95; 95; 108; 111; 111; 112; 95].
Definition p_us : name := [95].
Definition p_range_src : name := [95; 95; 114; 97; 110; 103; 101; 95; 115; 114; 99].
Definition p_range_len : name := [95; 95; 114; 97; 110; 103; 101; 95; 108; 101; 110].
Definition p_range_i : name := [95; 95; 114; 97; 110; 103; 101; 95; 105].
Definition p_range_pair : name := [95; 95; 114; 97; 110; 103; 101; 95; 112; 97; 105; 114].

(* a generating construct of the language: which GenSymbol calls its compilation makes, in order *)
Inductive gsite :=
| GsNone                    (* a text that generates nothing *)
| GsGensym                  (* (gensym) *)
| GsGensymP (p : name)      (* (gensym "p") *)
| GsAnonFn                  (* (fn [..] ..) *)
| GsLoop                    (* (for [..] ..) *)
| GsLabelLoop (lbl : name)  (* (for lbl: [..] ..) *)
| GsPackage (nm : name)     (* (package nm ..) *)
| GsRangeDef                (* infix for k, v := range x {..}: expansion only *)
| GsRangeSet                (* infix for k, v = range x {..}: expansion only *)
| GsRunRangeDef             (* the same, compiled and run: the lowered (for ..) generates its loop name *)
| GsRunRangeSet.

Definition site_prefixes (s : gsite) : list name :=
  match s with
  | GsNone => []
  | GsGensym => [p_gensym]
  | GsGensymP p => [p]
  | GsAnonFn => [p_anon]
  | GsLoop => [p_loop]
  | GsLabelLoop lbl => [p_loop_ ++ lbl ++ p_us]
  | GsPackage nm => [nm]
  | GsRangeDef => [p_range_src; p_range_len; p_range_i]
  | GsRangeSet => [p_range_src; p_range_len; p_range_i; p_range_pair]
  | GsRunRangeDef => [p_range_src; p_range_len; p_range_i; p_loop]
  | GsRunRangeSet => [p_range_src; p_range_len; p_range_i; p_range_pair; p_loop]
  end.

(* what a member can do at script level *)
Inductive construct :=
| KStr2sym (nm : name)                     (* (str2sym "nm"): MakeSymbol by the member itself *)
| KForm (reads : list name) (s : gsite)    (* a text: its new atoms are interned through the shared parser's
                                              interpreter, then the member compiles it *)
| KInDup (reads : list name) (s : gsite)   (* the same, but the generating form runs in an internal Duplicate()
                                              of the member (macro call, macexpand, expectError, source) *)
| KDef (nm : name) (v : Z)                 (* (def nm v) at top level: bind in the shared global scope *)
| KGet (nm : name)                         (* nm at top level: look up in the shared global scope *)
| KDup                                     (* env.Duplicate() *)
| KClone.                                  (* env.Clone() *)

(* layout of the family: for each member, the member its parser interns through
   (Duplicate/Clone copy the parser pointer) *)
Definition layout := list nat.

(* table operations of one construct of member i; the new layout *)
Definition expand (lay : layout) (i : nat) (k : construct) : list op * layout :=
  let own := nth i lay i in
  match k with
  | KStr2sym nm => ([MkSym i nm], lay)
  | KForm reads s => (map (MkSym own) reads ++ map (GenSym i) (site_prefixes s), lay)
  | KInDup reads s =>
      (map (MkSym own) reads ++ Dup i :: map (GenSym (length lay)) (site_prefixes s), lay ++ [own])
  | KDef nm _ => ([MkSym own nm], lay)
  | KGet nm => ([MkSym own nm], lay)
  | KDup => ([Dup i], lay ++ [own])
  | KClone => ([Clone i], lay ++ [own])
  end.

Fixpoint script_ops (lay : layout) (ks : list (nat * construct)) : list op :=
  match ks with
  | [] => []
  | (i, k) :: ks' => let (ops, lay') := expand lay i k in ops ++ script_ops lay' ks'
  end.

Fixpoint script_layout (lay : layout) (ks : list (nat * construct)) : layout :=
  match ks with
  | [] => lay
  | (i, k) :: ks' => script_layout (snd (expand lay i k)) ks'
  end.

(* a script history over a family: the table history it compiles to *)
Definition script_run (st : state) (lay : layout) (ks : list (nat * construct)) : state * list out :=
  run st (script_ops lay ks).

(* every acting member exists when it acts *)
Fixpoint members_valid (lay : layout) (ks : list (nat * construct)) : bool :=
  match ks with
  | [] => true
  | (i, k) :: ks' => (Nat.ltb i (length lay)) && members_valid (snd (expand lay i k)) ks'
  end.

Definition layout_ok (lay : layout) : bool := forallb (fun o => Nat.ltb o (length lay)) lay.

(* ---------- the shared global scope: a Go map keyed by the symbol number ---------- *)
Definition scope := list (Z * Z).
Fixpoint scope_get (k : Z) (g : scope) : option Z :=
  match g with
  | [] => None
  | (j, v) :: g' => if k =? j then Some v else scope_get k g'
  end.

(* observation of a Def/Get: the value found *)
Inductive gobs := GNone | GVal (v : option Z) | GStuck.

(* one construct over table state, layout and global scope *)
Definition scope_step (st : state) (lay : layout) (g : scope) (i : nat) (k : construct)
  : state * layout * scope * gobs :=
  let (ops, lay') := expand lay i k in
  let (st', outs) := run st ops in
  match k, outs with
  | KDef _ v, [OSym _ num] => (st', lay', (num, v) :: g, GVal (Some v))
  | KGet _, [OSym _ num] => (st', lay', g, GVal (scope_get num g))
  | KDef _ _, _ => (st', lay', g, GStuck)
  | KGet _, _ => (st', lay', g, GStuck)
  | _, _ => (st', lay', g, GNone)
  end.

Fixpoint scope_run (st : state) (lay : layout) (g : scope) (ks : list (nat * construct))
  : state * layout * scope * list gobs :=
  match ks with
  | [] => (st, lay, g, [])
  | (i, k) :: ks' =>
    match scope_step st lay g i k with
    | (st1, lay1, g1, o) =>
      match scope_run st1 lay1 g1 ks' with
      | (st2, lay2, g2, os) => (st2, lay2, g2, o :: os)
      end
    end
  end.

(* the specification of the global scope: a map keyed by NAMES, no numbers *)
Definition nscope := list (name * Z).
Fixpoint nscope_get (nm : name) (g : nscope) : option Z :=
  match g with
  | [] => None
  | (n, v) :: g' => if name_eqb nm n then Some v else nscope_get nm g'
  end.

Fixpoint nscope_run (g : nscope) (ks : list (nat * construct)) : list gobs :=
  match ks with
  | [] => []
  | (_, KDef nm v) :: ks' => GVal (Some v) :: nscope_run ((nm, v) :: g) ks'
  | (_, KGet nm) :: ks' => GVal (nscope_get nm g) :: nscope_run g ks'
  | _ :: ks' => GNone :: nscope_run g ks'
  end.

(* ---------- tie T: every call site of GenSymbol / Duplicate in the source is a modelled construct ---------- *)
Definition shape_modelled (sh : prefix_shape) : bool :=
  match sh with
  | PLit p => existsb (fun s => existsb (name_eqb p) (site_prefixes s))
                [GsGensym; GsAnonFn; GsLoop; GsRangeDef; GsRangeSet]
  | PWrap pre post => name_eqb pre p_loop_ && name_eqb post p_us   (* GsLabelLoop *)
  | PDyn => true                                                    (* GsGensymP / GsPackage: any prefix *)
  end.

Definition func_name (s : list Z * list Z * prefix_shape) : list Z := snd (fst s).

(* functions that call GenSymbol, as the model knows them *)
Definition f_FuncBuilder : name := [70; 117; 110; 99; 66; 117; 105; 108; 100; 101; 114].
Definition f_GensymFunction : name := [71; 101; 110; 115; 121; 109; 70; 117; 110; 99; 116; 105; 111; 110].
Definition f_buildSexpFun : name := [98; 117; 105; 108; 100; 83; 101; 120; 112; 70; 117; 110].
Definition f_GenerateForLoop : name := [71; 101; 110; 101; 114; 97; 116; 101; 70; 111; 114; 76; 111; 111; 112].
Definition f_GeneratePackage : name := [71; 101; 110; 101; 114; 97; 116; 101; 80; 97; 99; 107; 97; 103; 101].
Definition f_lowerRangeBinding : name := [108; 111; 119; 101; 114; 82; 97; 110; 103; 101; 66; 105; 110; 100; 105; 110; 103].
Definition f_lowerRangeFor : name := [108; 111; 119; 101; 114; 82; 97; 110; 103; 101; 70; 111; 114].
Definition modelled_gensym_functions : list name :=
  [f_FuncBuilder; f_GensymFunction; f_buildSexpFun; f_GenerateForLoop; f_GeneratePackage; f_lowerRangeBinding; f_lowerRangeFor].

Definition f_ExpectErrorBuilder : name := [69; 120; 112; 101; 99; 116; 69; 114; 114; 111; 114; 66; 117; 105; 108; 100; 101; 114].
Definition f_OldEvalFunction : name := [79; 108; 100; 69; 118; 97; 108; 70; 117; 110; 99; 116; 105; 111; 110].
Definition f_GenerateMacexpand : name := [71; 101; 110; 101; 114; 97; 116; 101; 77; 97; 99; 101; 120; 112; 97; 110; 100].
Definition f_GenerateCallBySymbol : name := [71; 101; 110; 101; 114; 97; 116; 101; 67; 97; 108; 108; 66; 121; 83; 121; 109; 98; 111; 108].
Definition f_SimpleSourceFunction : name := [83; 105; 109; 112; 108; 101; 83; 111; 117; 114; 99; 101; 70; 117; 110; 99; 116; 105; 111; 110].
Definition modelled_dup_functions : list name :=
  [f_ExpectErrorBuilder; f_OldEvalFunction; f_GenerateMacexpand; f_GenerateCallBySymbol; f_SimpleSourceFunction].

Definition is_lit (p : name) (s : list Z * list Z * prefix_shape) : bool :=
  match snd s with PLit q => name_eqb p q | _ => false end.
Definition modelled_literals : list name :=
  [p_gensym; p_anon; p_loop; p_range_src; p_range_len; p_range_i; p_range_pair].

Definition sites_modelled : bool :=
  forallb (fun p => existsb (is_lit p) gensym_sites) modelled_literals &&
  forallb (fun s => shape_modelled (snd s) && existsb (name_eqb (func_name s)) modelled_gensym_functions) gensym_sites
  && forallb (fun f => existsb (fun s => name_eqb f (func_name s)) gensym_sites) modelled_gensym_functions
  && forallb (fun s => negb (snd s) && existsb (name_eqb (snd (fst s))) modelled_dup_functions) family_sites
  && forallb (fun f => existsb (fun s => name_eqb f (snd (fst s))) family_sites) modelled_dup_functions.
