(* C09, compile-time side of the optimisation, for ALL forms of the generator.

   coq/Generated/TailSites.v (translator/cmd/tailsites, regenerated from zygo/*.go on every run) lists, for
   every place where a Generate* function of generator.go hands a sub-form to the compiler, which values
   the generator's Tail flag can have there when the function was entered with Tail = false / true.

   This file holds: the table types; `chain_of`, the hand-written mirror of HOW each sub-form position of
   each special form reaches the compiler (generator.go: Generate -> GenerateCall -> GenerateCallBySymbol
   -> Generate<Form> -> Generate, named site by site); `tail_pos`, the property's own list of tail
   positions; `path_flag`, the flag that arrives at the end of an arbitrary nesting of positions; and the
   boolean `table_ok`.  Proofs: coq/Proofs/TailSitesProofs.v.  The mirror is tied to the real code by the
   harness (family `site`): for every position, and every pair of positions, a self call placed there is a
   `goto 0` in the real bytecode iff `path_flag` says so. *)
From Coq Require Import String List Bool Arith.
Import ListNotations.
Open Scope string_scope.

(* possible values of the flag: none (unreachable), only false, only true, both *)
Inductive fset := SNone | SF | ST | SBoth.

Record site := mkSite { s_fn : string; s_callee : string; s_arg : string; s_ord : nat; s_in0 : fset; s_in1 : fset }.
Record fexit := mkExit { e_fn : string; e_in0 : fset; e_in1 : fset }.
Record fgoto := mkGoto { g_fn : string; g_in0 : bool; g_in1 : bool }.

Definition fset_eqb (a b : fset) : bool :=
  match a, b with SNone, SNone | SF, SF | ST, ST | SBoth, SBoth => true | _, _ => false end.

Definition fs_has (x : fset) (b : bool) : bool :=
  match x, b with SBoth, _ => true | SF, false => true | ST, true => true | _, _ => false end.

Definition fset_union (a b : fset) : fset :=
  match a, b with
  | SNone, x | x, SNone => x
  | SBoth, _ | _, SBoth => SBoth
  | SF, SF => SF | ST, ST => ST
  | SF, ST | ST, SF => SBoth
  end.

(* a site of the table: function, callee, argument text, ordinal among equal texts *)
Inductive link := L (fn callee arg : string) (ord : nat).

Definition site_matches (l : link) (s : site) : bool :=
  match l with L f c a o => String.eqb f (s_fn s) && String.eqb c (s_callee s) && String.eqb a (s_arg s) && Nat.eqb o (s_ord s) end.

Definition find_site (tbl : list site) (l : link) : option site := find (site_matches l) tbl.

(* the flags the callee can be entered with, when the caller was entered with a flag in x *)
Definition step_set (s : site) (x : fset) : fset :=
  fset_union (if fs_has x false then s_in0 s else SNone) (if fs_has x true then s_in1 s else SNone).

Fixpoint chain_set (tbl : list site) (c : list link) (x : fset) : option fset :=
  match c with
  | [] => Some x
  | l :: r => match find_site tbl l with Some s => chain_set tbl r (step_set s x) | None => None end
  end.

(* ---- positions: (special form, which sub-form) *)
Inductive pos :=
| PBodyNonLast | PBodyLast                 (* forms of the function body itself (buildSexpFun -> GenerateBegin) *)
| PBeginNonLast | PBeginLast
| PAndNonLast | PAndLast | POrNonLast | POrLast
| PCondTest | PCondArm | PCondDefault
| PLetInit | PLetBodyNonLast | PLetBodyLast
| PLetseqInit | PLetseqBodyNonLast | PLetseqBodyLast
| PScopeNonLast | PScopeLast
| PPkgNonLast | PPkgLast
| PDefRhs | PSetRhs | PMdefRhs | PAssignRhs
| PDefLhs | PSetLhs                         (* a call as the target of def / set (cleared since 0c81737) *)
| PAssert
| PForInit | PForTest | PForStep | PForBodyNonLast | PForBodyLast
| PSqUnquote | PSqUnquoteInList | PSqSpliceInList | PSqUnquoteInArray
| PArrayElem
| PInfixNonLast | PInfixLast
| PCallArg                                  (* argument of an ordinary call: compiled at run time (CallExprInstr) *)
| PSelfArg                                  (* argument of a self tail call: compiled inline *)
| PFnBody                                   (* body of a nested fn / defn: another function *)
| PMacroExpansion                           (* the expansion of a user macro stands where the macro call stood *)
| PIncludeLastFile | PIncludeNonLastFile.   (* last form of a file named by (include f1 .. fk): never a tail context since 9d37ebd *)

Definition all_pos : list pos :=
  [PBodyNonLast; PBodyLast; PBeginNonLast; PBeginLast; PAndNonLast; PAndLast; POrNonLast; POrLast;
   PCondTest; PCondArm; PCondDefault; PLetInit; PLetBodyNonLast; PLetBodyLast;
   PLetseqInit; PLetseqBodyNonLast; PLetseqBodyLast; PScopeNonLast; PScopeLast; PPkgNonLast; PPkgLast;
   PDefRhs; PSetRhs; PMdefRhs; PAssignRhs; PDefLhs; PSetLhs; PAssert;
   PForInit; PForTest; PForStep; PForBodyNonLast; PForBodyLast;
   PSqUnquote; PSqUnquoteInList; PSqSpliceInList; PSqUnquoteInArray; PArrayElem;
   PInfixNonLast; PInfixLast; PCallArg; PSelfArg; PFnBody; PMacroExpansion;
   PIncludeLastFile; PIncludeNonLastFile].

Definition pos_eqb (a b : pos) : bool :=
  match a, b with
  | PBodyNonLast, PBodyNonLast | PBodyLast, PBodyLast | PBeginNonLast, PBeginNonLast | PBeginLast, PBeginLast
  | PAndNonLast, PAndNonLast | PAndLast, PAndLast | POrNonLast, POrNonLast | POrLast, POrLast
  | PCondTest, PCondTest | PCondArm, PCondArm | PCondDefault, PCondDefault
  | PLetInit, PLetInit | PLetBodyNonLast, PLetBodyNonLast | PLetBodyLast, PLetBodyLast
  | PLetseqInit, PLetseqInit | PLetseqBodyNonLast, PLetseqBodyNonLast | PLetseqBodyLast, PLetseqBodyLast
  | PScopeNonLast, PScopeNonLast | PScopeLast, PScopeLast | PPkgNonLast, PPkgNonLast | PPkgLast, PPkgLast
  | PDefRhs, PDefRhs | PSetRhs, PSetRhs | PMdefRhs, PMdefRhs | PAssignRhs, PAssignRhs
  | PDefLhs, PDefLhs | PSetLhs, PSetLhs | PAssert, PAssert
  | PForInit, PForInit | PForTest, PForTest | PForStep, PForStep | PForBodyNonLast, PForBodyNonLast | PForBodyLast, PForBodyLast
  | PSqUnquote, PSqUnquote | PSqUnquoteInList, PSqUnquoteInList | PSqSpliceInList, PSqSpliceInList
  | PSqUnquoteInArray, PSqUnquoteInArray | PArrayElem, PArrayElem
  | PInfixNonLast, PInfixNonLast | PInfixLast, PInfixLast | PCallArg, PCallArg | PSelfArg, PSelfArg
  | PFnBody, PFnBody | PMacroExpansion, PMacroExpansion
  | PIncludeLastFile, PIncludeLastFile | PIncludeNonLastFile, PIncludeNonLastFile => true
  | _, _ => false
  end.

(* ---- the property's list of tail positions (properties.jsonl C09: "directly, or as the last form of cond
   arms, begin, let, letseq, newScope bodies or the last arm of and/or, nested in any combination"; the last
   statement of an infix block and the expansion of a macro are the same forms in other clothes; an included
   file is no tail context: GenerateInclude compiles the files one by one without knowing which is last) *)
Definition tail_pos (q : pos) : bool :=
  match q with
  | PBodyLast | PBeginLast | PAndLast | POrLast | PCondArm | PCondDefault
  | PLetBodyLast | PLetseqBodyLast | PScopeLast | PInfixLast | PMacroExpansion => true
  | _ => false
  end.

(* ---- generator.go, site by site *)
Definition gen_call : list link :=   (* Generate: case *SexpPair -> GenerateCall -> GenerateCallBySymbol *)
  [L "Generate" "GenerateCall" "e" 0; L "GenerateCall" "GenerateCallBySymbol" "head, arr, expr" 0].
Definition special (callee arg : string) : list link := gen_call ++ [L "GenerateCallBySymbol" callee arg 0].
Definition begin_nonlast := L "GenerateBegin" "Generate" "expr" 0.
Definition begin_last := L "GenerateBegin" "Generate" "expressions[size-1]" 0.
Definition sq_list : list link :=     (* GenerateSyntaxQuote -> generateSyntaxQuoteList *)
  special "GenerateSyntaxQuote" "args" ++ [L "GenerateSyntaxQuote" "generateSyntaxQuoteList" "arg" 0].
Definition sq_elem : list link :=     (* ... -> GenerateSyntaxQuote([]Sexp{expr}) -> generateSyntaxQuoteList *)
  [L "generateSyntaxQuoteList" "GenerateSyntaxQuote" "[]Sexp{expr}" 0; L "GenerateSyntaxQuote" "generateSyntaxQuoteList" "arg" 0].

Definition chain_of (q : pos) : list link :=
  match q with
  | PBodyNonLast => [begin_nonlast]
  | PBodyLast => [begin_last]
  | PBeginNonLast => special "GenerateBegin" "args" ++ [begin_nonlast]
  | PBeginLast => special "GenerateBegin" "args" ++ [begin_last]
  | PAndNonLast => special "GenerateShortCircuit" "false, args" ++ [L "GenerateShortCircuit" "Generate" "args[i]" 0]
  | PAndLast => special "GenerateShortCircuit" "false, args" ++ [L "GenerateShortCircuit" "Generate" "args[size-1]" 0]
  | POrNonLast => special "GenerateShortCircuit" "true, args" ++ [L "GenerateShortCircuit" "Generate" "args[i]" 0]
  | POrLast => special "GenerateShortCircuit" "true, args" ++ [L "GenerateShortCircuit" "Generate" "args[size-1]" 0]
  | PCondTest => special "GenerateCond" "args" ++ [L "GenerateCond" "Generate" "args[2*i]" 0]
  | PCondArm => special "GenerateCond" "args" ++ [L "GenerateCond" "Generate" "args[2*i+1]" 0]
  | PCondDefault => special "GenerateCond" "args" ++ [L "GenerateCond" "Generate" "args[len(args)-1]" 0]
  | PLetInit => special "GenerateLet" """let"", args" ++ [L "GenerateLet" "Generate" "rs" 1]
  | PLetBodyNonLast => special "GenerateLet" """let"", args" ++ [L "GenerateLet" "GenerateBegin" "args[1:]" 0; begin_nonlast]
  | PLetBodyLast => special "GenerateLet" """let"", args" ++ [L "GenerateLet" "GenerateBegin" "args[1:]" 0; begin_last]
  | PLetseqInit => special "GenerateLet" """letseq"", args" ++ [L "GenerateLet" "Generate" "rs" 0]
  | PLetseqBodyNonLast => special "GenerateLet" """letseq"", args" ++ [L "GenerateLet" "GenerateBegin" "args[1:]" 0; begin_nonlast]
  | PLetseqBodyLast => special "GenerateLet" """letseq"", args" ++ [L "GenerateLet" "GenerateBegin" "args[1:]" 0; begin_last]
  | PScopeNonLast => special "GenerateNewScope" "args" ++ [L "GenerateNewScope" "Generate" "expr" 0]
  | PScopeLast => special "GenerateNewScope" "args" ++ [L "GenerateNewScope" "Generate" "expressions[size-1]" 0]
  | PPkgNonLast => special "GeneratePackage" "args" ++ [L "GeneratePackage" "Generate" "expr" 0]
  | PPkgLast => special "GeneratePackage" "args" ++ [L "GeneratePackage" "Generate" "expressions[size-1]" 0]
  | PDefRhs => special "GenerateDef" "args, ""def""" ++ [L "GenerateDef" "Generate" "args[1]" 0]
  | PSetRhs => special "GenerateDef" "args, ""set""" ++ [L "GenerateDef" "Generate" "args[1]" 0]
  | PDefLhs => special "GenerateDef" "args, ""def""" ++ [L "GenerateDef" "Generate" "args[0]" 0]
  | PSetLhs => special "GenerateDef" "args, ""set""" ++ [L "GenerateDef" "Generate" "args[0]" 0]
  | PMdefRhs => special "GenerateMultiDef" "args" ++ [L "GenerateMultiDef" "Generate" "args[lastpos]" 0]
  | PAssignRhs => [L "Generate" "GenerateAssignment" "e, pos" 0;
                   L "GenerateAssignment" "GenerateDef" "[]Sexp{lhs[i], rhs[i]}, ""def""" 0;
                   L "GenerateDef" "Generate" "args[1]" 0]
  | PAssert => special "GenerateAssert" "args" ++ [L "GenerateAssert" "Generate" "args[0]" 0]
  | PForInit => special "GenerateForLoop" "args" ++ [L "GenerateForLoop" "Generate" "controlargs.Val[0]" 0]
  | PForTest => special "GenerateForLoop" "args" ++ [L "GenerateForLoop" "Generate" "controlargs.Val[1]" 0]
  | PForStep => special "GenerateForLoop" "args" ++ [L "GenerateForLoop" "Generate" "controlargs.Val[2]" 0]
  | PForBodyNonLast => special "GenerateForLoop" "args" ++ [L "GenerateForLoop" "GenerateBegin" "args[startgen:]" 0; begin_nonlast]
  | PForBodyLast => special "GenerateForLoop" "args" ++ [L "GenerateForLoop" "GenerateBegin" "args[startgen:]" 0; begin_last]
  | PSqUnquote => sq_list ++ [L "generateSyntaxQuoteList" "Generate" "quotebody[1]" 0]
  | PSqUnquoteInList => sq_list ++ sq_elem ++ [L "generateSyntaxQuoteList" "Generate" "quotebody[1]" 0]
  | PSqSpliceInList => sq_list ++ sq_elem ++ [L "generateSyntaxQuoteList" "Generate" "quotebody[1]" 1]
  | PSqUnquoteInArray => special "GenerateSyntaxQuote" "args" ++
        [L "GenerateSyntaxQuote" "generateSyntaxQuoteArray" "aaa" 0;
         L "generateSyntaxQuoteArray" "GenerateSyntaxQuote" "[]Sexp{expr}" 0;
         L "GenerateSyntaxQuote" "generateSyntaxQuoteList" "arg" 0;
         L "generateSyntaxQuoteList" "Generate" "quotebody[1]" 0]
  | PArrayElem => [L "Generate" "GenerateArray" "e" 0; L "GenerateArray" "GenerateAll" "arr.Val" 0; L "GenerateAll" "Generate" "expr" 0]
  | PInfixNonLast => [L "Generate" "GenerateCall" "e" 0; L "GenerateCall" "GenerateInfix" "arr" 0;
                      L "GenerateInfix" "GenerateBegin" "xs" 0; begin_nonlast]
  | PInfixLast => [L "Generate" "GenerateCall" "e" 0; L "GenerateCall" "GenerateInfix" "arr" 0;
                   L "GenerateInfix" "GenerateBegin" "xs" 0; begin_last]
  | PCallArg => [L "Zlisp.EvalCallExpression" "Generate" "expr" 0]   (* CallExprInstr: a new generator at run time *)
  | PSelfArg => gen_call ++ [L "GenerateCallBySymbol" "GenerateCallArgsForFunction" "gen.LookupKnownFunction(sym), args" 0;
                             L "GenerateCallArgsForFunction" "Generate" "expr" 0]
  | PFnBody => []                                                    (* see pos_step *)
  | PMacroExpansion => gen_call ++ [L "GenerateCallBySymbol" "Generate" "expr" 0]
  | PIncludeLastFile | PIncludeNonLastFile =>
      special "GenerateInclude" "args" ++ [L "GenerateInclude" "GenerateBegin" "exps" 0; begin_last]
  end.

(* the body of a nested fn / defn is compiled by buildSexpFun with a NEW generator whose funcname is the
   new function's: whatever its flag, it is not a tail position of the enclosing function *)
Definition pos_step (tbl : list site) (q : pos) (x : fset) : option fset :=
  match q with
  | PFnBody => Some (match x with SNone => SNone | _ => SF end)
  | _ => chain_set tbl (chain_of q) x
  end.

Fixpoint path_flag (tbl : list site) (p : list pos) (x : fset) : option fset :=
  match p with
  | [] => Some x
  | q :: r => match pos_step tbl q x with Some y => path_flag tbl r y | None => None end
  end.

(* ---- the specification of one step and of a path *)
Definition spec_step (q : pos) (x : fset) : fset :=
  match x with
  | SNone => SNone
  | ST => if tail_pos q then ST else SF
  | SF => match q with PSelfArg => SNone | _ => SF end     (* no self tail call without the flag: nothing is compiled inline *)
  | SBoth => SBoth
  end.

Definition spec_path (p : list pos) (x : fset) : fset := fold_left (fun x q => spec_step q x) p x.

Definition opt_fset_eqb (a : option fset) (b : fset) : bool :=
  match a with Some y => fset_eqb y b | None => false end.

Definition pos_ok (tbl : list site) (q : pos) : bool :=
  opt_fset_eqb (pos_step tbl q ST) (spec_step q ST) &&
  opt_fset_eqb (pos_step tbl q SF) (spec_step q SF) &&
  opt_fset_eqb (pos_step tbl q SNone) SNone.

Definition mem_pos (q : pos) (l : list pos) : bool := existsb (pos_eqb q) l.

(* every compiling method leaves the flag as it found it or cleared (the promise the translator relies on) *)
Definition exit_ok (e : fexit) : bool :=
  fset_eqb (e_in0 e) SF && negb (fset_eqb (e_in1 e) SNone).

(* a GotoInstr{0} is emitted by GenerateCallBySymbol only, and never when it was entered without the flag *)
Definition goto_ok (g : fgoto) : bool := String.eqb (g_fn g) "GenerateCallBySymbol" && negb (g_in0 g) && g_in1 g.

(* a function body starts with the flag set (buildSexpFun, FuncBuilder); every other entry into the compiler
   starts without it *)
Definition entry_ok (tbl : list site) : bool :=
  forallb (fun s =>
    if String.eqb (s_fn s) "buildSexpFun" || String.eqb (s_fn s) "FuncBuilder"
    then fset_eqb (s_in0 s) ST && fset_eqb (s_in1 s) ST
    else if String.eqb (s_fn s) "Zlisp.EvalCallExpression" || String.eqb (s_fn s) "Zlisp.LoadExpressions" ||
            String.eqb (s_fn s) "SexpLazyArg.Force" || String.eqb (s_fn s) "EvalFunction" || String.eqb (s_fn s) "Zlisp.SourceExpressions"
    then fset_eqb (s_in0 s) SF && fset_eqb (s_in1 s) SF
    else true) tbl &&
  existsb (fun s => String.eqb (s_fn s) "buildSexpFun") tbl &&
  existsb (fun s => String.eqb (s_fn s) "FuncBuilder") tbl.

Definition table_ok (leaks : list pos) (tbl : list site) (exits : list fexit) (gotos : list fgoto) : bool :=
  forallb (fun q => mem_pos q leaks || pos_ok tbl q) all_pos &&
  forallb exit_ok exits && negb (Nat.eqb (length exits) 0) &&
  forallb goto_ok gotos && Nat.eqb (length gotos) 1 &&
  entry_ok tbl.

(* positions where the unchanged code hands the flag to a form that is not in tail position (findings):
   none now; PDefLhs, PSetLhs (repaired in 0c81737) and PIncludeNonLastFile (9d37ebd) were found with this table *)
Definition known_leaks : list pos := [].

(* number of `goto 0` instructions the generator emits for a program that consists of nested positions with
   ONE self call at the end: the call itself if the flag arrives, plus the enclosing self calls whose
   arguments the path runs through (PSelfArg), when THEY had the flag *)
Fixpoint jumps (tbl : list site) (p : list pos) (x : fset) : option nat :=
  match p with
  | [] => Some (match x with ST => 1 | _ => 0 end)
  | q :: r =>
      match pos_step tbl q x with
      | Some y => match jumps tbl r y with
                  | Some k => Some (match q, x with PSelfArg, ST => S k | _, _ => k end)
                  | None => None end
      | None => None
      end
  end.

Definition spec_jumps (p : list pos) (x : fset) : nat :=
  (fix go (p : list pos) (x : fset) : nat :=
     match p with
     | [] => match x with ST => 1 | _ => 0 end
     | q :: r => (match q, x with PSelfArg, ST => 1 | _, _ => 0 end) + go r (spec_step q x)
     end) p x.
