(* C09: a string-free, precomputed form of `pos_step tail_sites` for extraction (the runner links with
   ocaml/common/zutil.ml, where the extracted Coq type `string` would hide OCaml's).  Equality with the
   original: Proofs/TailSitesProofs.v is not needed for it, see `gen_step_eq` in Proofs/TailSitesRunProofs.v. *)
From Coq Require Import List Bool.
Require Import ZV.Model.TailSites ZV.Generated.TailSites.
Import ListNotations.

Definition step_row (q : pos) : pos * (option fset * option fset * option fset * option fset) :=
  (q, (pos_step tail_sites q SNone, pos_step tail_sites q SF, pos_step tail_sites q ST, pos_step tail_sites q SBoth)).

Definition gen_steps : list (pos * (option fset * option fset * option fset * option fset)) :=
  Eval vm_compute in map step_row all_pos.

Definition gen_step (q : pos) (x : fset) : option fset :=
  match find (fun r => pos_eqb q (fst r)) gen_steps with
  | Some (_, (a, b, c, d)) => match x with SNone => a | SF => b | ST => c | SBoth => d end
  | None => None
  end.

Fixpoint jumps_run (p : list pos) (x : fset) : option nat :=
  match p with
  | [] => Some (match x with ST => 1 | _ => 0 end)
  | q :: r =>
      match gen_step q x with
      | Some y => match jumps_run r y with
                  | Some k => Some (match q, x with PSelfArg, ST => S k | _, _ => k end)
                  | None => None end
      | None => None
      end
  end.
