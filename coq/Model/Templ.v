(* C15 — syntax-quote templates and macro expansion: executable model and specification.
   Executable Gallina only (proofs are in Proofs/TemplProofs.v).

   Mirrors (zygo/generator.go) GenerateSyntaxQuote, generateSyntaxQuoteList,
   generateSyntaxQuoteArray, generateSyntaxQuoteHash, the macro branch of GenerateCallBySymbol,
   and (zygo/vm.go) PushInstr, ExplodeInstr, SquashInstr, VectorizeInstr, HashizeInstr,
   (zygo/hashutils.go) MakeHash/HashSet as far as Hashize needs them.

   Abstraction: the code that gen.Generate(e) emits for an unquoted expression e is one
   pseudo instruction [IEval e] that pushes exactly one value [rho e] or fails. *)
From Coq Require Import ZArith List Bool.
Import ListNotations.
Open Scope Z_scope.

(* ---------------------------------------------------------------- values (Sexp) *)
(* VList is a proper list (VList [] is SexpNull); improper pairs, floats, bools, functions are
   opaque (VOpq): the template code only ever pushes them literally. Symbols and strings are
   numbered by the runner. A hash is its key/value pairs in KeyOrder plus its TypeName. *)
Inductive value :=
| VInt (z : Z)
| VSym (s : Z)
| VStr (s : Z)
| VOpq (z : Z)
| VList (l : list value)
| VArr (l : list value)
| VHash (tn : Z) (kv : list (value * value)).

Definition sym_unquote : Z := 0.
Definition sym_splice : Z := 1.

Section ListEqb.
  Context {A : Type}.
  Variable f : A -> A -> bool.
  Fixpoint list_eqb (a b : list A) : bool :=
    match a, b with
    | [], [] => true
    | x :: a', y :: b' => f x y && list_eqb a' b'
    | _, _ => false
    end.
End ListEqb.

Fixpoint value_eqb (a b : value) {struct a} : bool :=
  match a, b with
  | VInt x, VInt y => Z.eqb x y
  | VSym x, VSym y => Z.eqb x y
  | VStr x, VStr y => Z.eqb x y
  | VOpq x, VOpq y => Z.eqb x y
  | VList l, VList m => list_eqb value_eqb l m
  | VArr l, VArr m => list_eqb value_eqb l m
  | VHash t kv, VHash u kw =>
      Z.eqb t u &&
      (fix go (p q : list (value * value)) : bool :=
         match p, q with
         | [], [] => true
         | (k1, v1) :: p', (k2, v2) :: q' => value_eqb k1 k2 && value_eqb v1 v2 && go p' q'
         | _, _ => false
         end) kv kw
  | _, _ => false
  end.

(* ---------------------------------------------------------------- data stack and instructions *)
(* SexpMarker is a Go package variable that no program text can denote; it is therefore a
   separate kind of stack item and not a value. Head of the list = top of the stack. *)
Inductive item := IMark | IVal (v : value).
Definition stack := list item.

Inductive instr :=
| IPush (v : value)          (* PushInstr{literal} *)
| IPushMarker                (* PushInstr{SexpMarker} *)
| IEval (e : value)          (* the code of gen.Generate(e), abstracted *)
| IExplode
| ISquash
| IVectorize
| IHashize (n : nat) (tn : Z).

Inductive outcome := Done (s : stack) | Fail.

(* pop until the marker; values in pop order (top first). Empty stack: PopExpr error. *)
Fixpoint pop_to_marker (s : stack) : option (list value * stack) :=
  match s with
  | [] => None
  | IMark :: r => Some ([], r)
  | IVal v :: r =>
      match pop_to_marker r with
      | Some (vs, r') => Some (v :: vs, r')
      | None => None
      end
  end.

(* hashutils.go HashSet: a one-element array key stands for its element; int, char, symbol,
   string and array keys hash, anything else is an error (HashExpression with a nil env). *)
Definition norm_key (k : value) : value :=
  match k with VArr [x] => x | _ => k end.
Definition hashable (k : value) : bool :=
  match k with VInt _ | VSym _ | VStr _ | VArr _ => true | _ => false end.

(* an existing key keeps its position and gets the new value; a new key goes last *)
Fixpoint hset (kv : list (value * value)) (k v : value) : list (value * value) :=
  match kv with
  | [] => [(k, v)]
  | (k', v') :: r => if value_eqb k' k then (k', v) :: r else (k', v') :: hset r k v
  end.

Fixpoint mk_pairs (a : list value) (acc : list (value * value)) : option (list (value * value)) :=
  match a with
  | [] => Some acc
  | k :: v :: r =>
      let k' := norm_key k in
      if hashable k' then mk_pairs r (hset acc k' v) else None
  | [_] => None                        (* "hash requires even number of arguments" *)
  end.

(* hashutils.go MakeHash on the popped operands [k0 v0 k1 v1 ..] *)
Definition make_hash (tn : Z) (a : list value) : option value :=
  match mk_pairs a [] with Some kv => Some (VHash tn kv) | None => None end.

Section Machine.
  (* value of the code generated for an unquoted expression; None = that code fails *)
  Variable rho : value -> option value.

  Definition exec (i : instr) (s : stack) : outcome :=
    match i with
    | IPush v => Done (IVal v :: s)
    | IPushMarker => Done (IMark :: s)
    | IEval e => match rho e with Some v => Done (IVal v :: s) | None => Fail end
    | IExplode =>                                   (* vm.go ExplodeInstr.Execute *)
        match s with
        | IVal (VList l) :: r => Done (rev (map IVal l) ++ r)
        | _ => Fail                                 (* empty stack / not a list *)
        end
    | ISquash =>                                    (* vm.go SquashInstr.Execute *)
        match pop_to_marker s with
        | Some (vs, r) => Done (IVal (VList (rev vs)) :: r)
        | None => Fail
        end
    | IVectorize =>                                 (* vm.go VectorizeInstr.Execute *)
        match pop_to_marker s with
        | Some (vs, r) => Done (IVal (VArr (rev vs)) :: r)
        | None => Fail
        end
    | IHashize _ tn =>                              (* vm.go HashizeInstr.Execute (HashLen unused) *)
        match pop_to_marker s with
        | Some (vs, r) =>
            match make_hash tn vs with
            | Some h => Done (IVal h :: r)
            | None => Fail
            end
        | None => Fail
        end
    end.

  Fixpoint run (c : list instr) (s : stack) : outcome :=
    match c with
    | [] => Done s
    | i :: c' => match exec i s with Done s' => run c' s' | Fail => Fail end
    end.
End Machine.

(* ---------------------------------------------------------------- the generator *)
Inductive uform := UQ (e : value) | SP (e : value).

(* generateSyntaxQuoteList: a list of length exactly 2 whose head is the symbol unquote /
   unquote-splicing *)
Definition unq_form (l : list value) : option uform :=
  match l with
  | [VSym s; e] =>
      if Z.eqb s sym_unquote then Some (UQ e)
      else if Z.eqb s sym_splice then Some (SP e) else None
  | _ => None
  end.

(* the marker .. squash explode bracket of generateSyntaxQuoteArray/Hash *)
Definition wrap (c : list instr) : list instr := IPushMarker :: c ++ [ISquash; IExplode].

Fixpoint gen_sq (v : value) : list instr :=
  match v with
  | VArr l =>                                        (* generateSyntaxQuoteArray *)
      IPushMarker :: flat_map (fun x => wrap (gen_sq x)) l ++ [IVectorize]
  | VList l =>
      match unq_form l with
      | Some (UQ e) => [IEval e]
      | Some (SP e) => [IEval e; IExplode]
      | None =>
          match l with
          | [] => [IPush (VList [])]                 (* SexpNull is not a *SexpPair *)
          | _ => IPushMarker :: flat_map gen_sq l ++ [ISquash]   (* generateSyntaxQuoteList *)
          end
      end
  | VHash tn kv =>                                   (* generateSyntaxQuoteHash: keys in reverse
                                                        order, value before key *)
      IPushMarker ::
      concat (rev (map (fun p => wrap (gen_sq (snd p)) ++ wrap (gen_sq (fst p))) kv))
      ++ [IHashize (length kv) tn]
  | _ => [IPush v]
  end.

(* The tail flag each unquoted expression is compiled with (in generation order).
   generator.go GenerateSyntaxQuote clears gen.Tail on entry for the whole template and restores it
   on return; every nested call of GenerateSyntaxQuote does the same.  The abstraction [IEval]
   ("pushes exactly one value") is only right for code that is NOT compiled as a tail call: a self
   tail call jumps to the start of the function with the template's markers still on the stack. *)
Fixpoint unq_tails (tail : bool) (v : value) : list bool :=
  let tail' := false in
  match v with
  | VArr l => flat_map (unq_tails tail') l
  | VList l =>
      match unq_form l with
      | Some _ => [tail']
      | None => flat_map (unq_tails tail') l
      end
  | VHash _ kv => concat (rev (map (fun p => unq_tails tail' (snd p) ++ unq_tails tail' (fst p)) kv))
  | _ => []
  end.

(* what an evaluation of (syntaxQuote v) leaves: Some (top value, number of extra operands
   left below it) or None for an error *)
Definition sq_model (rho : value -> option value) (v : value) : option (value * nat) :=
  match run rho (gen_sq v) [] with
  | Done (IVal x :: r) => Some (x, length r)
  | Done [] => Some (VList [], 0%nat)      (* Run() returns nil when nothing was pushed *)
  | _ => None
  end.

(* ---------------------------------------------------------------- the specification *)
(* Templates as abstract syntax: unquote and splice are constructors, not lists that happen
   to start with a certain symbol. *)
Inductive tmpl :=
| TLit (v : value)
| TUnq (e : value)
| TSpl (e : value)
| TList (l : list tmpl)
| TArr (l : list tmpl)
| THash (tn : Z) (kv : list (tmpl * tmpl)).

Inductive res (A : Type) := Ok (a : A) | Err.
Arguments Ok {A} a.
Arguments Err {A}.

Fixpoint cat_all (l : list (res (list value))) : res (list value) :=
  match l with
  | [] => Ok []
  | Err :: _ => Err
  | Ok a :: r => match cat_all r with Ok b => Ok (a ++ b) | Err => Err end
  end.

Definition app_res (a b : res (list value)) : res (list value) := cat_all [a; b].

Section Spec.
  Variable rho : value -> option value.

  (* the values a template contributes to the container it stands in *)
  Fixpoint elems (t : tmpl) : res (list value) :=
    match t with
    | TLit v => Ok [v]
    | TUnq e => match rho e with Some v => Ok [v] | None => Err end
    | TSpl e => match rho e with Some (VList l) => Ok l | _ => Err end
    | TList l =>
        match cat_all (map elems l) with Ok vs => Ok [VList vs] | Err => Err end
    | TArr l =>
        match cat_all (map elems l) with Ok vs => Ok [VArr vs] | Err => Err end
    | THash tn kv =>
        match cat_all (map (fun p => app_res (elems (fst p)) (elems (snd p))) kv) with
        | Ok vs => match make_hash tn vs with Some h => Ok [h] | None => Err end
        | Err => Err
        end
    end.

  (* exact substitution: the value of a template that is not itself a bare splice *)
  Definition subst (t : tmpl) : res value :=
    match elems t with Ok [v] => Ok v | _ => Err end.
End Spec.

Definition is_splice (t : tmpl) : bool := match t with TSpl _ => true | _ => false end.

(* how the reader represents a template *)
Fixpoint reify (t : tmpl) : value :=
  match t with
  | TLit v => v
  | TUnq e => VList [VSym sym_unquote; e]
  | TSpl e => VList [VSym sym_splice; e]
  | TList l => VList (map reify l)
  | TArr l => VArr (map reify l)
  | THash tn kv => VHash tn (map (fun p => (reify (fst p), reify (snd p))) kv)
  end.

(* literal leaves are atoms or the empty list *)
Definition plain (v : value) : bool :=
  match v with
  | VInt _ | VSym _ | VStr _ | VOpq _ => true
  | VList [] => true
  | _ => false
  end.

(* well-formed abstract syntax: a TList is not accidentally an unquote form *)
Fixpoint wf (t : tmpl) : bool :=
  match t with
  | TLit v => plain v
  | TUnq _ | TSpl _ => true
  | TList l =>
      match unq_form (map reify l) with Some _ => false | None => true end
      && forallb wf l
  | TArr l => forallb wf l
  | THash _ kv => forallb (fun p => wf (fst p) && wf (snd p)) kv
  end.

(* every value is the representation of a well-formed template: the reading *)
Fixpoint view (v : value) : tmpl :=
  match v with
  | VList l =>
      match unq_form l with
      | Some (UQ e) => TUnq e
      | Some (SP e) => TSpl e
      | None => match l with [] => TLit (VList []) | _ => TList (map view l) end
      end
  | VArr l => TArr (map view l)
  | VHash tn kv => THash tn (map (fun p => (view (fst p), view (snd p))) kv)
  | _ => TLit v
  end.

(* a splice standing directly in a key or value slot of a hash contributes at most one
   element (see hash_splice_refuted: longer splices come out reversed) *)
Section Short.
  Variable rho : value -> option value.
  Definition slot_short (t : tmpl) : bool :=
    match t with
    | TSpl e => match rho e with Some (VList (_ :: _ :: _)) => false | _ => true end
    | _ => true
    end.
  Fixpoint hshort (t : tmpl) : bool :=
    match t with
    | TList l | TArr l => forallb hshort l
    | THash _ kv =>
        forallb (fun p => slot_short (fst p) && slot_short (snd p) && hshort (fst p) && hshort (snd p)) kv
    | _ => true
    end.
End Short.

(* ---------------------------------------------------------------- the loader's comment filter *)
(* comment.go FilterAny / FilterArray / FilterList with RemoveCommentsFilter, run by
   LoadExpressions over every loaded form: a comment written inside a form (the reader keeps it
   as a *SexpComment element) is removed from lists and arrays at any depth -- whatever the head
   of the list is; hashes are returned as they are (FilterHash).  A comment is the opaque value
   [VOpq comment_code]. *)
Definition comment_code : Z := -1.
Definition is_comment (v : value) : bool :=
  match v with VOpq z => Z.eqb z comment_code | _ => false end.

Fixpoint strip (v : value) : value :=
  match v with
  | VList l => VList (flat_map (fun x => if is_comment x then [] else [strip x]) l)
  | VArr l => VArr (flat_map (fun x => if is_comment x then [] else [strip x]) l)
  | _ => v
  end.

(* no comment element in any list or array (hashes are not entered, as in the filter) *)
Fixpoint clean (v : value) : bool :=
  match v with
  | VList l | VArr l => forallb (fun x => negb (is_comment x) && clean x) l
  | _ => true
  end.

(* ---------------------------------------------------------------- macros *)
(* A macro whose body is a template: (defmac name [p1 .. pn] ^body). *)
Record macro := { m_params : list Z; m_body : tmpl }.

Definition scope := list (Z * value).
Fixpoint lookup (s : Z) (sc : scope) : option value :=
  match sc with
  | [] => None
  | (k, v) :: r => if Z.eqb k s then Some v else lookup s r
  end.

(* the caller's interpreter state as far as the expansion could touch it *)
Record cstate := {
  c_data : stack;
  c_scopes : list scope;      (* innermost first; the last one is the global scope *)
  c_addr : nat;
  c_loop : nat }.

Definition global_of (st : cstate) : scope := last (c_scopes st) [].

(* environment.go Duplicate: fresh stacks, only the global scope is shared *)
Definition duplicate (st : cstate) : cstate :=
  {| c_data := []; c_scopes := [global_of st]; c_addr := 0; c_loop := 0 |}.

Section Macro.
  (* evaluation of an unquoted expression in a scope chain (abstract but for symbols) *)
  (* ... by the duplicate, which SHARES the caller's macro table (environment.go Duplicate:
     dupenv.macros = env.macros): code compiled while the body runs -- call arguments are
     compiled at run time -- sees the same macros as the caller, also those defined later *)
  Variable eval_in : (Z -> option macro) -> scope -> value -> option value.
  (* the rest of the code generator (not modelled): code for a form, or a compile error, in a
     generator context [gctx] = everything the Generator object carries at the call site
     (scopes to leave for break/continue/tail jumps, Tail, funcname, knownFunctions, the loop
     being compiled ..) *)
  Variable gctx : Type.
  Variable generate : gctx -> value -> option (list Z).
  Variable other_call : gctx -> Z -> list value -> option (list Z).

  (* Apply(macro, args) in the duplicate: parameters bound to the UNEVALUATED argument forms
     in a function scope above the global scope, then the body's template code runs on the
     duplicate's empty data stack. *)
  Definition expand_in (mt : Z -> option macro) (dup : cstate) (m : macro) (args : list value) : option value :=
    if Nat.eqb (length args) (length (m_params m)) then
      let sc := combine (m_params m) args ++ global_of dup in
      match run (eval_in mt sc) (gen_sq (reify (m_body m))) (c_data dup) with
      | Done (IVal x :: _) => Some x
      | _ => None
      end
    else None.

  (* generator.go GenerateCallBySymbol, macro branch: returns the caller state (untouched:
     the expansion ran in the duplicate) and the code.  The macro body is RUN at every call
     (nothing is remembered from earlier calls) against the caller's current global scope, and
     the expansion is handed to the SAME generator (gen.Generate(expr)): same context. *)
  Definition gen_call (macros : Z -> option macro) (ctx : gctx) (st : cstate) (sym : Z) (args : list value)
    : cstate * option (list Z) :=
    match macros sym with
    | Some m =>
        match expand_in macros (duplicate st) m args with
        | Some e => (st, generate ctx e)
        | None => (st, None)
        end
    | None => (st, other_call ctx sym args)
    end.
End Macro.

(* the expansion of a template-bodied macro, for the runner: parameters are symbols *)
Definition macro_expand (glob : value -> option value) (params : list Z) (args : list value)
    (body : value) : option value :=
  let sc := combine params args in
  let rho := fun e => match e with
                      | VSym s => match lookup s sc with Some v => Some v | None => glob e end
                      | _ => glob e
                      end in
  match sq_model rho body with Some (x, _) => Some x | None => None end.
