(* Token-level scanners, independent of the reader (executable definitions only):
   - wstep / wrun: the shape of the lexer's token stream the parser relies on;
   - tstep / trun / tfinal / sunf: an independent reading of "unfinished prefix" over tokens. *)
From Coq Require Import ZArith List Bool.
From ZV Require Import Model.Regex Generated.LexTables Model.Lexer Model.Reader.
Import ListNotations.
Open Scope Z_scope.

Inductive wfa : Type := WFree | WBlock | WRaw.

Definition wstep (a : wfa) (t : token) : option wfa :=
  match a with
  | WBlock => if kind_is t TComment then Some WBlock else if kind_is t TEndBlockComment then Some WFree else None
  | WRaw => if kind_is t TBacktickString then Some WFree else None
  | WFree => if kind_is t TBeginBlockComment then Some WBlock
             else if kind_is t TBeginBacktickString then Some WRaw
             else if kind_is t TUint64 && (length (t_str t) <? 3)%nat then None
             else Some WFree
  end.

Fixpoint wrun (a : wfa) (l : list token) : option wfa :=
  match l with
  | [] => Some a
  | t :: r => match wstep a t with Some a' => wrun a' r | None => None end
  end.


(* scanner state: depth, automaton, reader prefix pending, last token is the symbol - or + *)
Definition tstate : Type := (Z * wfa * bool * bool)%type.

Definition is_sign (t : token) : bool :=
  kind_is t TSymbol && (list_eqb (t_str t) [45] || list_eqb (t_str t) [43]).

Definition tstep (st : tstate) (t : token) : option tstate :=
  let '(d, a, p, sg) := st in
  match a with
  | WBlock => if kind_is t TComment then Some (d, WBlock, p, false)
              else if kind_is t TEndBlockComment then Some (d, WFree, p, false) else None
  | WRaw => if kind_is t TBacktickString then Some (d, WFree, false, false) else None
  | WFree =>
      match t_kind t with
      | TLParen | TLSquare | TLCurly => Some (d + 1, WFree, false, false)
      | TRParen | TRSquare | TRCurly => Some (d - 1, WFree, false, false)
      | TQuote | TCaret | TTilde | TTildeAt => Some (d, WFree, true, false)
      | TBeginBlockComment => Some (d, WBlock, p, false)   (* a reader prefix keeps waiting across comments *)
      | TComment => Some (d, WFree, p, false)
      | TBeginBacktickString => Some (d, WRaw, false, false)
      | TEndBlockComment => None
      | _ => Some (d, WFree, false, is_sign t)
      end
  end.

Fixpoint trun (st : tstate) (l : list token) : option tstate :=
  match l with
  | [] => Some st
  | t :: r => match tstep st t with Some st' => trun st' r | None => None end
  end.

Definition tfinal (st : tstate) : bool :=
  let '(d, a, p, sg) := st in (d =? 0) && match a with WFree => true | _ => false end && negb p.

(* unfinished, or the sign-symbol exception *)
Definition sunf (st : tstate) : bool :=
  let '(d, a, p, sg) := st in (0 <? d) || match a with WFree => false | _ => true end || p || sg.

Definition comment_like (t : token) : bool := kind_is t TBeginBlockComment || kind_is t TComment.

(* side condition: no '{' is directly followed by a comment (then the '{' look-ahead skips nothing) *)
Fixpoint curly_plain (l : list token) : bool :=
  match l with
  | [] => true
  | t :: r => (if kind_is t TLCurly then match r with t2 :: _ => negb (comment_like t2) | [] => true end else true)
              && curly_plain r
  end.


Definition st0 : tstate := (0, WFree, false, false).

(* the token scanner's verdict: Some true = unfinished (or ends in a sign symbol) *)
Definition tok_verdict (toks : list token) : option (bool * bool) :=
  match trun st0 toks with Some st => Some (tfinal st, sunf st) | None => None end.

Definition text_tokens (text : list Z) : list token := l_tokens (lres_state (lex_all init_lstate (text ++ nl))).

(* every BeginBlockComment token is directly followed by a Comment token (if anything follows):
   the lexer emits the comment text before it can emit anything else *)
Fixpoint bc_ok (l : list token) : bool :=
  match l with
  | [] => true
  | t :: r => (if kind_is t TBeginBlockComment then match r with t2 :: _ => kind_is t2 TComment | [] => true end else true)
              && bc_ok r
  end.

Definition ends_begin (l : list token) : bool := kind_is (last l empty_token) TBeginBlockComment.
