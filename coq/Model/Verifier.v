(* C04 — the value-free abstract machine of one compiled function and the certificate
   checker for stack / scope balance.  Executable definitions only (proofs: Proofs/VerifierProofs.v).

   Concrete side ("aexec"): a state is (pc, shape of the data stack top first, depth of the
   scope stack, depth of the address stack, depth of the loop stack).  One instruction =
   the micro-operations of Bytecode.eff run by [crun_dops] + one of the successor pcs of
   Bytecode.targets.  [effect_ok] decides whether an observed transition of the real VM is
   such a step (trace conformance).  A call instruction is the atomic summary "arguments
   (and callee) popped, one result pushed, the other stacks as before".

   Abstract side: an annotation gives, for every pc, a finite SET of abstract states
   (data-stack shape RELATIVE to the function's entry, extra scope depth relative to entry).
   [check_fn] checks that the set at pc 0 contains the entry state and that every state of
   every set flows, through the same micro-operations, into the sets of all successor pcs;
   Return demands the shape [one value] and extra scope depth 0.  The annotation is computed
   outside Coq (untrusted worklist in ocaml/c04/run.ml). *)
From Coq Require Import List ZArith Bool Arith.
Require Import ZV.Model.Bytecode.
Import ListNotations.

(* ---------- concrete machine ---------- *)

Record cstate := mkc { pc : nat; data : list item; sc : nat; ad : nat; lp : nat }.

Definition item_eqb (a b : item) : bool :=
  match a, b with
  | Val, Val | Marker, Marker => true
  | Mark m, Mark n => Nat.eqb m n
  | _, _ => false
  end.

Fixpoint items_eqb (a b : list item) : bool :=
  match a, b with
  | [], [] => true
  | x :: r, y :: s => item_eqb x y && items_eqb r s
  | _, _ => false
  end.

(* SquashInstr / VectorizeInstr / HashizeInstr: pop until SexpMarker (inclusive) *)
Fixpoint cpop_marker (d : list item) : option (list item) :=
  match d with
  | [] => None
  | Marker :: r => Some r
  | _ :: r => cpop_marker r
  end.

(* PopUntilStackmarkInstr / ClearStackmarkInstr: pop until the stack mark m (inclusive) *)
Fixpoint cpop_mark (m : nat) (d : list item) : option (list item) :=
  match d with
  | [] => None
  | Mark n :: r => if Nat.eqb m n then Some r else cpop_mark m r
  | _ :: r => cpop_mark m r
  end.

(* n = how many values an Explode pushes (the only free choice) *)
Definition crun_dop (n : nat) (op : dop) (st : list item * nat) : option (list item * nat) :=
  let (d, s) := st in
  match op with
  | DPush it => Some (it :: d, s)
  | DPop => match d with x :: r => Some (r, s) | [] => None end
  | DPopTol => match d with x :: r => Some (r, s) | [] => Some ([], s) end
  | DDup => match d with x :: r => Some (x :: x :: r, s) | [] => None end
  | DExplode => Some (rep n Val ++ d, s)
  | DPopToMarker => match cpop_marker d with Some r => Some (r, s) | None => None end
  | DPopToMark m => match cpop_mark m d with Some r => Some (r, s) | None => None end
  | DScopeUp => Some (d, S s)
  | DScopeDown => match s with S k => Some (d, k) | 0 => None end
  end.

Fixpoint crun_dops (n : nat) (ops : list dop) (st : list item * nat) : option (list item * nat) :=
  match ops with
  | [] => Some st
  | op :: r => match crun_dop n op st with Some st' => crun_dops n r st' | None => None end
  end.

(* is (s -> s') a step of the abstract machine?  (the Explode count is read off s') *)
Definition effect_ok (code : list instr) (fi : finfo) (s s' : cstate) : bool :=
  match nth_error code (pc s) with
  | None => false
  | Some i =>
    match eff fi i with
    | None => false
    | Some (ops, c) =>
      match targets code (pc s) c with
      | None => false
      | Some ts =>
        let n := (length (data s') + 1) - length (data s) in
        match crun_dops n ops (data s, sc s) with
        | None => false
        | Some (d', k') =>
          items_eqb d' (data s') && Nat.eqb k' (sc s') && Nat.eqb (ad s) (ad s')
          && Nat.eqb (lp s) (lp s') && existsb (Nat.eqb (pc s')) ts
        end
      end
    end
  end.

(* ReturnInstr{nil}: env.ReturnFromFunction pops one address, nothing else *)
Definition return_ok (s s' : cstate) : bool :=
  items_eqb (data s) (data s') && Nat.eqb (sc s) (sc s') && Nat.eqb (ad s) (S (ad s')) && Nat.eqb (lp s) (lp s').

(* entering a compiled function with np formals from a call instruction
   (CallFunction after the arity check / wrangleOptargs): the callee finds its np
   arguments on top of what the caller keeps, one address pushed *)
Definition call_pops (i : instr) : option nat :=
  match i with
  | ICallExpr _ => Some 0
  | ICall n => Some n
  | IDispatch n => Some (S n)
  | _ => None
  end.

Definition enter_ok (i : instr) (np : nat) (s s' : cstate) : bool :=
  match call_pops i with
  | None => false
  | Some m =>
    items_eqb (data s') (rep np Val ++ skipn m (data s)) && (m <=? length (data s))
    && Nat.eqb (sc s) (sc s') && Nat.eqb (S (ad s)) (ad s') && Nat.eqb (lp s) (lp s') && Nat.eqb (pc s') 0
  end.

(* ---------- abstract states and the checker ---------- *)

Inductive aitem :=
| AVal
| AMarker
| AMark (m : nat)
| AMany.              (* zero or more values (after Explode) *)

Definition astate := (list aitem * nat)%type.    (* relative shape top first, extra scopes *)
Definition annot := list (list astate).

Definition inj (it : item) : aitem :=
  match it with Val => AVal | Marker => AMarker | Mark m => AMark m end.

Definition aitem_eqb (a b : aitem) : bool :=
  match a, b with
  | AVal, AVal | AMarker, AMarker | AMany, AMany => true
  | AMark m, AMark n => Nat.eqb m n
  | _, _ => false
  end.

Fixpoint aitems_eqb (a b : list aitem) : bool :=
  match a, b with
  | [], [] => true
  | x :: r, y :: s => aitem_eqb x y && aitems_eqb r s
  | _, _ => false
  end.

Definition astate_eqb (a b : astate) : bool :=
  aitems_eqb (fst a) (fst b) && Nat.eqb (snd a) (snd b).

Definition mem (st : astate) (l : list astate) : bool := existsb (astate_eqb st) l.

Definition is_many (a : aitem) : bool := match a with AMany => true | _ => false end.

Fixpoint apop_marker (ab : list aitem) : option (list aitem) :=
  match ab with
  | [] => None
  | AMarker :: r => Some r
  | AVal :: r | AMany :: r => apop_marker r
  | AMark _ :: _ => None
  end.

Fixpoint apop_mark (m : nat) (ab : list aitem) : option (list aitem) :=
  match ab with
  | [] => None
  | AMark n :: r => if Nat.eqb m n then Some r else apop_mark m r
  | _ :: r => apop_mark m r
  end.

(* is_main: the top-level chunk starts from the interpreter at rest, so nothing lies below
   its own operands and the tolerant PopInstr on an empty relative stack pops nothing *)
Definition arun_dop (is_main : bool) (op : dop) (st : astate) : option astate :=
  let (ab, k) := st in
  match op with
  | DPush it => Some (inj it :: ab, k)
  | DPop => match ab with x :: r => if is_many x then None else Some (r, k) | [] => None end
  | DPopTol => match ab with x :: r => if is_many x then None else Some (r, k)
               | [] => if is_main then Some ([], k) else None end
  | DDup => match ab with x :: r => if is_many x then None else Some (x :: x :: r, k) | [] => None end
  | DExplode => Some (AMany :: ab, k)
  | DPopToMarker => match apop_marker ab with Some r => Some (r, k) | None => None end
  | DPopToMark m => match apop_mark m ab with Some r => Some (r, k) | None => None end
  | DScopeUp => Some (ab, S k)
  | DScopeDown => match k with S j => Some (ab, j) | 0 => None end
  end.

Fixpoint arun_dops (is_main : bool) (ops : list dop) (st : astate) : option astate :=
  match ops with
  | [] => Some st
  | op :: r => match arun_dop is_main op st with Some st' => arun_dops is_main r st' | None => None end
  end.

Definition known (i : instr) : bool := match i with IUnknown => false | _ => true end.

Inductive sres :=
| SReject                                  (* underflow / marker not found / bad jump / unknown *)
| SVacuous                                 (* the instruction has no successful execution *)
| SHalt (st : astate)                      (* Return reached with this state *)
| SNext (ts : list nat) (st : astate).     (* successor pcs, state after the instruction *)

(* abstract successor of one state at one pc (also used by the untrusted annotation inference) *)
Definition asucc (code : list instr) (fi : finfo) (is_main : bool) (p : nat) (st : astate) : sres :=
  match nth_error code p with
  | None => SReject
  | Some i =>
    if known i then
      match eff fi i with
      | None => SVacuous
      | Some (ops, c) =>
        match arun_dops is_main ops st with
        | None => SReject
        | Some st' =>
          if ctl_wf code p c then
            match c with
            | CHalt => SHalt st'
            | _ => match targets code p c with None => SVacuous | Some ts => SNext ts st' end
            end
          else SReject
        end
      end
    else SReject
  end.

Definition ret_state : astate := ([AVal], 0).
Definition final_main (st : astate) : bool :=
  Nat.eqb (snd st) 0 && match fst st with [] => true | [AVal] => true | _ => false end.

Definition flows (a : annot) (len : nat) (is_main : bool) (t : nat) (st : astate) : bool :=
  if t <? len then mem st (nth t a []) else is_main && final_main st.

Definition check_state (code : list instr) (fi : finfo) (is_main : bool) (a : annot) (p : nat) (st : astate) : bool :=
  match asucc code fi is_main p st with
  | SReject => false
  | SVacuous => true
  | SHalt st' => astate_eqb st' ret_state
  | SNext ts st' => forallb (fun t => flows a (length code) is_main t st') ts
  end.

Fixpoint check_from (code : list instr) (fi : finfo) (is_main : bool) (a : annot) (p : nat) (rest : annot) : bool :=
  match rest with
  | [] => true
  | sts :: r => forallb (check_state code fi is_main a p) sts && check_from code fi is_main a (S p) r
  end.

Definition entry_state (np : nat) : astate := (rep np AVal, 0).

(* the certificate checker *)
Definition check_fn (code : list instr) (fi : finfo) (is_main : bool) (np : nat) (a : annot) : bool :=
  match code with
  | [] => is_main && Nat.eqb np 0
  | _ => mem (entry_state np) (nth 0 a []) && check_from code fi is_main a 0 a
  end.

(* the annotation at pc 0 is the single state "np arguments on the data stack, no extra scope":
   together with check_fn this makes every self tail call
       RemoveScope x (extra scopes + 1); PrepareCall; Goto 0
   (generator.go GenerateCallBySymbol) re-enter the function through AddFuncScope with exactly
   the stack depths of the first entry *)
Definition tail_entry_unique (np : nat) (a : annot) : bool :=
  match nth 0 a [] with
  | [st] => astate_eqb st (entry_state np)
  | _ => false
  end.

(* ---------- top level ---------- *)

(* the interpreter at rest: data 0, scope 1 (global), addr 0, loop 0 *)
Definition rest_depths : nat * nat * nat * nat := (0, 1, 0, 0).
Definition at_rest (s : cstate) : bool :=
  match data s with [] => Nat.eqb (sc s) 1 && Nat.eqb (ad s) 0 && Nat.eqb (lp s) 0 | _ => false end.

(* Zlisp.Run after the last instruction: push Null when the data stack is empty, pop the result *)
Definition run_finish (s : cstate) : cstate :=
  match data s with
  | [] => s
  | _ :: r => mkc (pc s) r (sc s) (ad s) (lp s)
  end.
