(* C04 — real bytecode (dumped from the real generator by harness/cmd/c04 --replay, rendered by
   ocaml/c04/run.ml with C04_DUMP_NAMES) and the annotations inferred for it, as Coq data for the
   non-vacuity Examples of Properties/C04.v.  Data only.
     (defn sumto [n acc] (cond (<= n 0) acc (let [t (+ acc n)] (sumto (- n 1) t))))
     (defn brk [a] (for lp: [(def i 0) (< i 5) (set i (+ i 1))]
                      (let [k 1] (newScope (cond (== i a) (break lp:) (== i 1) (continue lp:) 0)))) a)
     (defn sq [x & r] ^(1 ~x ~@r [2 ~x]))
     code_e5: what FuncBuilder emitted for (func e6 [] [a:int64]) before fix 78df25e (two values at Return): rejected *)
From Coq Require Import List ZArith.
Require Import ZV.Model.Bytecode ZV.Model.Verifier.
Import ListNotations.

Definition code_sumto : list instr :=
  [IAddFuncScope; IPopStackPutEnv; IPopStackPutEnv; (ICallExpr 2); (IBranch 3%Z); IEnvToStack; (IJump 11%Z); IAddScope; (ICallExpr 2); IPopStackPutEnv; (ICallExpr 2); IEnvToStack; IRemoveScope; IRemoveScope; (IPrepareCall 2); (IGoto 0%Z); IRemoveScope; IRemoveScope; IReturn].
Definition annot_sumto : annot :=
  [[([AVal; AVal], 0)];
   [([AVal; AVal], 1)];
   [([AVal], 1)];
   [([], 1)];
   [([AVal], 1)];
   [([], 1)];
   [([AVal], 1)];
   [([], 1)];
   [([], 2)];
   [([AVal], 2)];
   [([], 2)];
   [([AVal], 2)];
   [([AVal; AVal], 2)];
   [([AVal; AVal], 1)];
   [([AVal; AVal], 0)];
   [([AVal; AVal], 0)];
   [];
   [([AVal], 1)];
   [([AVal], 0)]].

Definition code_brk : list instr :=
  [IAddFuncScope; IPopStackPutEnv; (ILoopStart 1); IAddScope; (IPushStackmark 1); ILabel; IPush; IDup; IPopStackPutEnv; (IPopUntilStackmark 1); (IJump 6%Z); ILabel; (ICallExpr 2); IDup; IUpdate; (IPopUntilStackmark 1); ILabel; (ICallExpr 2); (IBranch 19%Z); ILabel; IAddScope; IPush; IPopStackPutEnv; IAddScope; (ICallExpr 2); (IBranch 3%Z); (IBreak 1 36%Z 2); (IJump 6%Z); (ICallExpr 2); (IBranch 3%Z); (IContinue 1 9%Z 2); (IJump 2%Z); IPush; IRemoveScope; IRemoveScope; (IPopUntilStackmark 1); (IJump (-25)%Z); ILabel; (IClearStackmark 1); IRemoveScope; IPush; IPop; IEnvToStack; IRemoveScope; IReturn].
Definition annot_brk : annot :=
  [[([AVal], 0)];
   [([AVal], 1)];
   [([], 1)];
   [([], 1)];
   [([], 2)];
   [([AMark 1], 2)];
   [([AMark 1], 2)];
   [([AVal; AMark 1], 2)];
   [([AVal; AVal; AMark 1], 2)];
   [([AVal; AMark 1], 2)];
   [([AMark 1], 2)];
   [([AMark 1], 2)];
   [([AMark 1], 2)];
   [([AVal; AMark 1], 2)];
   [([AVal; AVal; AMark 1], 2)];
   [([AVal; AMark 1], 2)];
   [([AMark 1], 2)];
   [([AMark 1], 2)];
   [([AVal; AMark 1], 2)];
   [([AMark 1], 2)];
   [([AMark 1], 2)];
   [([AMark 1], 3)];
   [([AVal; AMark 1], 3)];
   [([AMark 1], 3)];
   [([AMark 1], 4)];
   [([AVal; AMark 1], 4)];
   [([AMark 1], 4)];
   [];
   [([AMark 1], 4)];
   [([AVal; AMark 1], 4)];
   [([AMark 1], 4)];
   [];
   [([AMark 1], 4)];
   [([AVal; AMark 1], 4)];
   [([AVal; AMark 1], 3)];
   [([AVal; AMark 1], 2)];
   [([AMark 1], 2)];
   [([AMark 1], 2)];
   [([AMark 1], 2)];
   [([], 2)];
   [([], 1)];
   [([AVal], 1)];
   [([], 1)];
   [([AVal], 1)];
   [([AVal], 0)]].

Definition code_sq : list instr :=
  [IAddFuncScope; IPopStackPutEnv; IPopStackPutEnv; IPushMarker; IPush; IEnvToStack; IEnvToStack; IExplode; IPushMarker; IPushMarker; IPush; ISquash; IExplode; IPushMarker; IEnvToStack; ISquash; IExplode; IVectorize; ISquash; IRemoveScope; IReturn].
Definition annot_sq : annot :=
  [[([AVal; AVal], 0)];
   [([AVal; AVal], 1)];
   [([AVal], 1)];
   [([], 1)];
   [([AMarker], 1)];
   [([AVal; AMarker], 1)];
   [([AVal; AVal; AMarker], 1)];
   [([AVal; AVal; AVal; AMarker], 1)];
   [([AMany; AVal; AVal; AMarker], 1)];
   [([AMarker; AMany; AVal; AVal; AMarker], 1)];
   [([AMarker; AMarker; AMany; AVal; AVal; AMarker], 1)];
   [([AVal; AMarker; AMarker; AMany; AVal; AVal; AMarker], 1)];
   [([AVal; AMarker; AMany; AVal; AVal; AMarker], 1)];
   [([AMany; AMarker; AMany; AVal; AVal; AMarker], 1)];
   [([AMarker; AMany; AMarker; AMany; AVal; AVal; AMarker], 1)];
   [([AVal; AMarker; AMany; AMarker; AMany; AVal; AVal; AMarker], 1)];
   [([AVal; AMany; AMarker; AMany; AVal; AVal; AMarker], 1)];
   [([AMany; AMany; AMarker; AMany; AVal; AVal; AMarker], 1)];
   [([AVal; AMany; AVal; AVal; AMarker], 1)];
   [([AVal], 1)];
   [([AVal], 0)]].

Definition code_e5 : list instr := [IAddFuncScope; IPush; IPush; IRemoveScope; IReturn].
Definition annot_e5 : annot := [[([], 0)]; [([], 1)]; [([AVal], 1)]; [([AVal; AVal], 1)]; [([AVal; AVal], 0)]].
(* (defn sq0 [] (set %y 10)) on the current tree: AssignInstr pops rhs and lhs and pushes the value *)
Definition code_sq0 : list instr := [IAddFuncScope; IPush; IPush; IAssign; IRemoveScope; IReturn].
Definition annot_sq0 : annot := [[([], 0)]; [([], 1)]; [([AVal], 1)]; [([AVal; AVal], 1)]; [([AVal], 1)]; [([AVal], 0)]].
