(* Laws of the pure builtin model coq/Model/Builtins.v, proved for ALL values (property C02). *)
From Coq Require Import ZArith Bool List Lia.
From Flocq Require Import IEEE754.Binary IEEE754.Bits.
Require Import ZV.Model.Num ZV.Model.Builtins ZV.Proofs.NumProofs.
Import ListNotations.
Open Scope Z_scope.

(* ------------------------------------------------------------------ lists *)
Lemma list_to_array_make_list : forall l, list_to_array (make_list l) = Some l.
Proof. induction l as [|x l IH]; cbn; [reflexivity|]. rewrite IH. reflexivity. Qed.

Lemma is_list_make_list : forall l, is_list (make_list l) = true.
Proof. induction l; cbn; auto. Qed.

Lemma zlen_cons : forall A (x : A) l, zlen (x :: l) = 1 + zlen l.
Proof. intros. unfold zlen. cbn [length]. lia. Qed.

Lemma zlen_app : forall A (a b : list A), zlen (a ++ b) = zlen a + zlen b.
Proof. intros. unfold zlen. rewrite app_length. lia. Qed.

Lemma zlen_nonneg : forall A (l : list A), 0 <= zlen l.
Proof. intros. unfold zlen. lia. Qed.

Lemma list_len_make_list : forall l, list_len (make_list l) = Some (zlen l).
Proof.
  induction l as [|x l IH]; [reflexivity|].
  cbn [make_list list_len]. rewrite IH, zlen_cons. reflexivity.
Qed.

Lemma is_list_iff_make_list : forall v, is_list v = true <-> exists l, v = make_list l.
Proof.
  split.
  - induction v; cbn; intro H; try discriminate.
    + exists []. reflexivity.
    + destruct (IHv2 H) as [l ->]. exists (v1 :: l). reflexivity.
  - intros [l ->]. apply is_list_make_list.
Qed.

Lemma len_make_list : forall l, b_len (make_list l) = Val (VInt (zlen l)).
Proof.
  destruct l as [|x l]; [reflexivity|].
  cbn [make_list b_len]. change (VPair x (make_list l)) with (make_list (x :: l)).
  rewrite list_len_make_list. reflexivity.
Qed.

Lemma list_len_improper : forall t, is_list t = false -> list_len t = None.
Proof.
  induction t; cbn; intro H; try reflexivity; try discriminate.
  rewrite IHt2 by assumption. reflexivity.
Qed.

Lemma len_improper_fails : forall h t, is_list t = false -> b_len (VPair h t) = Fail.
Proof.
  intros h t H. cbn [b_len list_len]. rewrite list_len_improper by assumption. reflexivity.
Qed.

(* first / rest / second of a cons, for every nesting depth n of the applicator *)
Lemma apply_n_fo : forall n f args, f <> FMap -> f <> FApply -> apply_n n f args = apply_fo f args.
Proof. intros n f args H1 H2. destruct n, f; try reflexivity; congruence. Qed.

Ltac fo := repeat (rewrite apply_n_fo by discriminate; cbn [apply_fo bind b_first b_rest b_second make_list]).

Lemma first_cons : forall n x l, bind (apply_n n FCons [x; l]) (fun p => apply_n n FFirst [p]) = Val x.
Proof. intros. fo. reflexivity. Qed.
Lemma rest_cons : forall n x l, bind (apply_n n FCons [x; l]) (fun p => apply_n n FRest [p]) = Val l.
Proof. intros. fo. reflexivity. Qed.
Lemma second_cons_cons : forall n x y l,
  bind (apply_n n FCons [y; l]) (fun p => bind (apply_n n FCons [x; p]) (fun q => apply_n n FSecond [q])) = Val y.
Proof. intros. fo. reflexivity. Qed.
Lemma first_list : forall n x l, bind (apply_n n FList (x :: l)) (fun p => apply_n n FFirst [p]) = Val x.
Proof. intros. fo. reflexivity. Qed.
Lemma rest_list : forall n x l, bind (apply_n n FList (x :: l)) (fun p => apply_n n FRest [p]) = apply_n n FList l.
Proof. intros. fo. reflexivity. Qed.

(* ------------------------------------------------------------------ concat *)
Definition snoc_list (t : list val) (b : val) : val := fold_right VPair b t.

Lemma snoc_make_list : forall t m, snoc_list t (make_list m) = make_list (t ++ m).
Proof. induction t as [|x t IH]; intro m; cbn; [reflexivity|]. rewrite <- IH. reflexivity. Qed.

Lemma concat_two_make_list : forall t h b,
  concat_two h (make_list t) b = Some (VPair h (snoc_list t b)).
Proof.
  induction t as [|x t IH]; intros h b; cbn [make_list concat_two]; [reflexivity|].
  rewrite IH. reflexivity.
Qed.

Lemma concat_two_improper : forall t h b, is_list t = false -> concat_two h t b = None.
Proof.
  induction t; intros h0 b0 H0; cbn in *; try reflexivity; try discriminate.
  rewrite IHt2 by assumption. reflexivity.
Qed.

Lemma concat_lists_spec : forall (ls : list (list val)) x a,
  concat_lists x (make_list a) (List.map make_list ls) = Val (make_list (x :: a ++ List.concat ls)).
Proof.
  induction ls as [|m ls IH]; intros x a; cbn [List.map concat_lists List.concat].
  - rewrite app_nil_r. reflexivity.
  - rewrite is_list_make_list, concat_two_make_list, snoc_make_list.
    rewrite IH. rewrite app_assoc. reflexivity.
Qed.

(* (concat l1 l2 .. ln) of proper lists, the first one non-empty = the list of all elements in order *)
Theorem concat_lists_is_app : forall x a (ls : list (list val)),
  b_concat (List.map make_list ((x :: a) :: ls)) = Val (make_list ((x :: a) ++ List.concat ls)).
Proof. intros. cbn [List.map make_list b_concat]. apply concat_lists_spec. Qed.

Theorem concat_lists_rejects_nonlist : forall h t b rest,
  is_list b = false -> b_concat (VPair h t :: b :: rest) = Fail.
Proof. intros h t b rest H. cbn. rewrite H. reflexivity. Qed.

Theorem concat_lists_rejects_improper_first : forall h t b rest,
  is_list t = false -> b_concat (VPair h t :: b :: rest) = Fail.
Proof.
  intros h t b rest H. cbn. destruct (is_list b); [|reflexivity].
  rewrite concat_two_improper by assumption. reflexivity.
Qed.

Lemma concat_arr_spec : forall (ls : list (list val)) a,
  concat_arr a (List.map VArr ls) = Val (VArr (a ++ List.concat ls)).
Proof.
  induction ls as [|m ls IH]; intro a; cbn [List.map concat_arr List.concat].
  - rewrite app_nil_r. reflexivity.
  - rewrite IH, app_assoc. reflexivity.
Qed.

Theorem concat_arrays_is_app : forall a (ls : list (list val)),
  b_concat (List.map VArr (a :: ls)) = Val (VArr (a ++ List.concat ls)).
Proof. intros. cbn [List.map b_concat]. apply concat_arr_spec. Qed.

Theorem concat_arrays_rejects : forall a pre x post,
  (forall l, x <> VArr l) -> b_concat (VArr a :: List.map VArr pre ++ x :: post) = Fail.
Proof.
  intros a pre x post H. cbn [b_concat]. revert a.
  induction pre as [|p pre IH]; intro a; cbn.
  - destruct x; try reflexivity. exfalso. eapply H. reflexivity.
  - apply IH.
Qed.

(* strings: every further argument is a string (its bytes) or a char (its UTF-8 encoding) *)
Lemma concat_str_spec : forall xs ps a,
  List.map str_piece xs = List.map Some ps ->
  concat_str a xs = Val (VStr (a ++ List.concat ps)).
Proof.
  induction xs as [|x xs IH]; intros ps a H; destruct ps as [|p ps]; try discriminate; cbn.
  - rewrite app_nil_r. reflexivity.
  - cbn in H. injection H as H1 H2. rewrite H1. rewrite (IH ps) by assumption.
    rewrite app_assoc. reflexivity.
Qed.

Theorem concat_strings_is_utf8_app : forall a xs ps,
  List.map str_piece xs = List.map Some ps ->
  b_concat (VStr a :: xs) = Val (VStr (a ++ List.concat ps)).
Proof. intros. cbn [b_concat]. apply concat_str_spec. assumption. Qed.

Theorem concat_strings_plain : forall a (ls : list (list Z)),
  b_concat (List.map VStr (a :: ls)) = Val (VStr (a ++ List.concat ls)).
Proof.
  intros. cbn [List.map]. apply concat_strings_is_utf8_app.
  induction ls; cbn; [reflexivity|]. f_equal. assumption.
Qed.

Theorem concat_strings_rejects : forall a x rest,
  str_piece x = None -> b_concat (VStr a :: x :: rest) = Fail.
Proof. intros a x rest H. cbn. rewrite H. reflexivity. Qed.

Definition zsum (l : list Z) : Z := fold_right Z.add 0 l.
Lemma zlen_concat : forall A (ls : list (list A)), zlen (List.concat ls) = zsum (List.map (@zlen A) ls).
Proof. induction ls as [|a ls IH]; [reflexivity|]. cbn [List.concat List.map zsum fold_right]. rewrite zlen_app, IH. reflexivity. Qed.

(* len (concat a b ..) = len a + len b + .. for the three kinds of sequences *)
Theorem len_concat_arrays : forall a ls,
  bind (b_concat (List.map VArr (a :: ls))) b_len = Val (VInt (zlen a + zsum (List.map (@zlen val) ls))).
Proof. intros. rewrite concat_arrays_is_app. cbn [bind b_len]. rewrite zlen_app, zlen_concat. reflexivity. Qed.
Theorem len_concat_strings : forall a ls,
  bind (b_concat (List.map VStr (a :: ls))) b_len = Val (VInt (zlen a + zsum (List.map (@zlen Z) ls))).
Proof. intros. rewrite concat_strings_plain. cbn [bind b_len]. rewrite zlen_app, zlen_concat. reflexivity. Qed.
Theorem len_concat_lists : forall x a ls,
  bind (b_concat (List.map make_list ((x :: a) :: ls))) b_len
  = Val (VInt (zlen (x :: a) + zsum (List.map (@zlen val) ls))).
Proof. intros. rewrite concat_lists_is_app. cbn [bind]. rewrite len_make_list, zlen_app, zlen_concat. reflexivity. Qed.

(* associativity and identity *)
Theorem concat_assoc_arrays : forall a b c,
  bind (b_concat [VArr a; VArr b]) (fun ab => b_concat [ab; VArr c])
  = bind (b_concat [VArr b; VArr c]) (fun bc => b_concat [VArr a; bc]).
Proof. intros. cbn. rewrite ?app_nil_r, ?app_assoc. reflexivity. Qed.
Theorem concat_assoc_strings : forall a b c,
  bind (b_concat [VStr a; VStr b]) (fun ab => b_concat [ab; VStr c])
  = bind (b_concat [VStr b; VStr c]) (fun bc => b_concat [VStr a; bc]).
Proof. intros. cbn. rewrite ?app_nil_r, ?app_assoc. reflexivity. Qed.
Theorem concat_assoc_lists : forall x a y b c,
  bind (b_concat [make_list (x :: a); make_list (y :: b)]) (fun ab => b_concat [ab; make_list c])
  = bind (b_concat [make_list (y :: b); make_list c]) (fun bc => b_concat [make_list (x :: a); bc]).
Proof.
  intros.
  pose proof (concat_lists_is_app x a [y :: b]) as H1. cbn [List.map] in H1. rewrite H1.
  pose proof (concat_lists_is_app y b [c]) as H2. cbn [List.map] in H2. rewrite H2.
  cbn [bind List.concat]. rewrite !app_nil_r.
  pose proof (concat_lists_is_app x (a ++ y :: b) [c]) as H3. cbn [List.map List.concat] in H3.
  rewrite app_nil_r in H3. change ((x :: a) ++ y :: b) with (x :: (a ++ y :: b)). rewrite H3.
  pose proof (concat_lists_is_app x a [(y :: b) ++ c]) as H4. cbn [List.map List.concat] in H4.
  rewrite app_nil_r in H4. rewrite H4. f_equal. f_equal.
  cbn. rewrite <- !app_assoc. reflexivity.
Qed.
Theorem concat_identity : forall a s x l,
  b_concat [VArr a; VArr []] = Val (VArr a) /\ b_concat [VArr []; VArr a] = Val (VArr a) /\
  b_concat [VStr s; VStr []] = Val (VStr s) /\ b_concat [VStr []; VStr s] = Val (VStr s) /\
  b_concat [make_list (x :: l); VNil] = Val (make_list (x :: l)) /\
  b_concat [VArr a] = Val (VArr a) /\ b_concat [VStr s] = Val (VStr s) /\
  b_concat [make_list (x :: l)] = Val (make_list (x :: l)).
Proof.
  intros. cbn. rewrite ?app_nil_r. repeat split; try reflexivity.
  rewrite concat_two_make_list. change VNil with (make_list []). rewrite snoc_make_list, app_nil_r. reflexivity.
Qed.

(* ------------------------------------------------------------------ append / aget / slice *)
Theorem append_array : forall l x,
  b_append false (VArr l) x = Val (VArr (l ++ [x])) /\
  bind (b_append false (VArr l) x) b_len = Val (VInt (zlen l + 1)).
Proof. intros. cbn. rewrite zlen_app. split; reflexivity. Qed.

Lemma aget_in : forall l k d, 0 <= k < zlen l ->
  b_aget (VArr l :: VInt k :: d) = match d with [] | [_] => match nth_error l (Z.to_nat k) with Some x => Val x | None => Fail end | _ => Fail end.
Proof.
  intros l k d H. cbn [b_aget idx_of].
  assert (E : ((0 <=? k) && (k <? zlen l)) = true) by (apply andb_true_iff; split; [apply Z.leb_le|apply Z.ltb_lt]; lia).
  rewrite E. destruct d as [|? [|? ?]]; reflexivity.
Qed.

(* the appended element sits at index len, every old index reads what it read before *)
Theorem aget_append : forall l x,
  b_aget [VArr (l ++ [x]); VInt (zlen l)] = Val x /\
  (forall k, 0 <= k < zlen l -> b_aget [VArr (l ++ [x]); VInt k] = b_aget [VArr l; VInt k]).
Proof.
  intros l x. split.
  - rewrite aget_in by (rewrite zlen_app; unfold zlen; cbn; lia).
    unfold zlen. rewrite Nat2Z.id, nth_error_app2 by lia. rewrite Nat.sub_diag. reflexivity.
  - intros k H. rewrite !aget_in by (try rewrite zlen_app; unfold zlen in *; cbn; lia).
    rewrite nth_error_app1 by (unfold zlen in H; lia). reflexivity.
Qed.

Theorem aget_out_of_range : forall l k d, k < 0 \/ zlen l <= k ->
  b_aget [VArr l; VInt k] = Fail /\ b_aget [VArr l; VInt k; d] = Val d.
Proof.
  intros l k d H. cbn [b_aget idx_of].
  assert (E : ((0 <=? k) && (k <? zlen l)) = false).
  { apply andb_false_iff. destruct H; [left; apply Z.leb_gt|right; apply Z.ltb_ge]; lia. }
  rewrite E. split; reflexivity.
Qed.

Lemma sub_length : forall A (l : list A) i j, 0 <= i <= j -> j <= zlen l -> zlen (sub l i j) = j - i.
Proof.
  intros A l i j H1 H2. unfold sub, zlen in *. rewrite firstn_length, skipn_length. lia.
Qed.
Lemma sub_full : forall A (l : list A), sub l 0 (zlen l) = l.
Proof.
  intros. unfold sub, zlen. cbn [Z.to_nat skipn]. rewrite Z.sub_0_r, Nat2Z.id. apply firstn_all.
Qed.

Theorem slice_array : forall l i j, 0 <= i <= j -> j <= zlen l ->
  b_slice (VArr l) (VInt i) (VInt j) = Val (VArr (sub l i j)) /\ zlen (sub l i j) = j - i.
Proof.
  intros l i j H1 H2. split; [|apply sub_length; assumption].
  cbn [b_slice idx_of].
  replace ((i <? 0) || (j <? i)) with false
    by (symmetry; apply orb_false_iff; split; apply Z.ltb_ge; lia).
  replace (zlen l <? j) with false by (symmetry; apply Z.ltb_ge; lia). reflexivity.
Qed.
Theorem slice_string : forall s i j, 0 <= i <= j -> j <= zlen s ->
  b_slice (VStr s) (VInt i) (VInt j) = Val (VStr (sub s i j)) /\ zlen (sub s i j) = j - i.
Proof.
  intros s i j H1 H2. split; [|apply sub_length; assumption].
  cbn [b_slice idx_of].
  replace ((0 <=? i) && (i <=? j) && (j <=? zlen s)) with true; [reflexivity|].
  symmetry. rewrite !andb_true_iff. repeat split; apply Z.leb_le; lia.
Qed.
Theorem slice_whole : forall l s,
  b_slice (VArr l) (VInt 0) (VInt (zlen l)) = Val (VArr l) /\
  b_slice (VStr s) (VInt 0) (VInt (zlen s)) = Val (VStr s).
Proof.
  intros. pose proof (zlen_nonneg _ l). pose proof (zlen_nonneg _ s). split.
  - destruct (slice_array l 0 (zlen l)) as [E _]; try lia. rewrite E, sub_full. reflexivity.
  - destruct (slice_string s 0 (zlen s)) as [E _]; try lia. rewrite E, sub_full. reflexivity.
Qed.
Theorem slice_bad_bounds_fail : forall l s i j, i < 0 \/ j < i ->
  b_slice (VArr l) (VInt i) (VInt j) = Fail /\ b_slice (VStr s) (VInt i) (VInt j) = Fail.
Proof.
  intros l s i j H. cbn [b_slice idx_of]. split.
  - replace ((i <? 0) || (j <? i)) with true; [reflexivity|].
    symmetry. apply orb_true_iff. destruct H; [left|right]; apply Z.ltb_lt; lia.
  - replace ((0 <=? i) && (i <=? j) && (j <=? zlen s)) with false; [reflexivity|].
    symmetry. destruct H.
    + replace (0 <=? i) with false by (symmetry; apply Z.leb_gt; lia). reflexivity.
    + replace (i <=? j) with false by (symmetry; apply Z.leb_gt; lia). rewrite andb_false_r. reflexivity.
Qed.

(* ------------------------------------------------------------------ map *)
Fixpoint seq_out (l : list (out val)) : out (list val) :=
  match l with
  | [] => Val []
  | o :: r => bind o (fun x => bind (seq_out r) (fun xs => Val (x :: xs)))
  end.

(* MapArray / MapList apply the function to the elements head first, one call per element, and stop at
   the first call that does not return a value *)
Lemma map_arr_is_seq : forall ap l, map_arr ap l = seq_out (List.map ap l).
Proof. induction l as [|x l IH]; cbn; [reflexivity|]. rewrite IH. reflexivity. Qed.

Lemma map_list_make_list : forall ap l,
  map_list ap (make_list l) = bind (map_arr ap l) (fun r => Val (make_list r)).
Proof.
  induction l as [|x l IH]; cbn; [reflexivity|].
  destruct (ap x); cbn; try reflexivity. rewrite IH. destruct (map_arr ap l); reflexivity.
Qed.

Lemma seq_out_all : forall (f : val -> val) ap l,
  (forall x, In x l -> ap x = Val (f x)) -> seq_out (List.map ap l) = Val (List.map f l).
Proof.
  induction l as [|x l IH]; intro H; cbn; [reflexivity|].
  rewrite (H x) by (left; reflexivity). cbn. rewrite IH by (intros; apply H; right; assumption). reflexivity.
Qed.

Lemma seq_out_first_failure : forall (ap : val -> out val) pre x post (vs : list val),
  List.map ap pre = List.map Val vs -> ap x = Fail ->
  seq_out (List.map ap (pre ++ x :: post)) = Fail.
Proof.
  induction pre as [|p pre IH]; intros x post vs H1 H2; cbn.
  - rewrite H2. reflexivity.
  - destruct vs as [|v vs]; [discriminate|]. cbn in H1. injection H1 as Hp Hr.
    rewrite Hp. cbn. rewrite (IH x post vs) by assumption. reflexivity.
Qed.

Theorem map_list_in_order : forall n g x l,
  apply_n (S n) FMap [VFun g; make_list (x :: l)]
  = bind (seq_out (List.map (fun y => apply_n n g [y]) (x :: l))) (fun r => Val (make_list r)).
Proof.
  intros. cbn [apply_n make_list].
  change (VPair x (make_list l)) with (make_list (x :: l)).
  rewrite map_list_make_list, map_arr_is_seq. reflexivity.
Qed.
Theorem map_array_in_order : forall n g l,
  apply_n (S n) FMap [VFun g; VArr l]
  = bind (seq_out (List.map (fun y => apply_n n g [y]) l)) (fun r => Val (VArr r)).
Proof. intros. cbn [apply_n]. rewrite map_arr_is_seq. reflexivity. Qed.

Theorem map_list_total : forall n g (f : val -> val) x l,
  (forall y, In y (x :: l) -> apply_n n g [y] = Val (f y)) ->
  apply_n (S n) FMap [VFun g; make_list (x :: l)] = Val (make_list (List.map f (x :: l))).
Proof. intros. rewrite map_list_in_order, (seq_out_all f) by assumption. reflexivity. Qed.

Theorem map_stops_at_first_failure : forall n g pre x post vs,
  List.map (fun y => apply_n n g [y]) pre = List.map Val vs -> apply_n n g [x] = Fail ->
  apply_n (S n) FMap [VFun g; VArr (pre ++ x :: post)] = Fail /\
  (forall p0 v0, apply_n n g [p0] = Val v0 ->
     apply_n (S n) FMap [VFun g; make_list (p0 :: pre ++ x :: post)] = Fail).
Proof.
  intros n g pre x post vs H1 H2. split.
  - rewrite map_array_in_order.
    rewrite (seq_out_first_failure (fun y => apply_n n g [y]) pre x post vs) by assumption. reflexivity.
  - intros p0 v0 E. rewrite map_list_in_order. rewrite app_comm_cons.
    rewrite (seq_out_first_failure (fun y => apply_n n g [y]) (p0 :: pre) x post (v0 :: vs)); [reflexivity| |assumption].
    cbn [List.map]. rewrite E, H1. reflexivity.
Qed.

Theorem map_rejects : forall n g v,
  (forall l, v <> VArr l) -> (forall h t, v <> VPair h t) -> apply_n (S n) FMap [VFun g; v] = Fail.
Proof.
  intros n g v H1 H2. cbn [apply_n].
  destruct v; try reflexivity; exfalso; [eapply H2|eapply H1]; reflexivity.
Qed.

Theorem apply_spreads : forall n g l x r,
  apply_n (S n) FApply [VFun g; VArr l] = apply_n n g l /\
  apply_n (S n) FApply [VFun g; make_list (x :: r)] = apply_n n g (x :: r).
Proof.
  intros. split; [reflexivity|]. cbn [apply_n make_list].
  change (VPair x (make_list r)) with (make_list (x :: r)). rewrite list_to_array_make_list. reflexivity.
Qed.

(* ------------------------------------------------------------------ truthiness *)
Theorem truthiness_table : forall v,
  is_truthy v = false <-> v = VBool false \/ v = VInt 0 \/ v = VChar 0 \/ v = VNil.
Proof.
  intro v. split.
  - destruct v; cbn; intro H; try discriminate.
    + right. left. apply negb_false_iff, Z.eqb_eq in H. subst. reflexivity.
    + right. right. left. apply negb_false_iff, Z.eqb_eq in H. subst. reflexivity.
    + left. subst. reflexivity.
    + right. right. right. reflexivity.
  - intros [-> | [-> | [-> | ->]]]; reflexivity.
Qed.

Theorem float_string_seq_are_true : forall f s n h t l g,
  is_truthy (VFlt f) = true /\ is_truthy (VStr s) = true /\ is_truthy (VSym n) = true /\
  is_truthy (VPair h t) = true /\ is_truthy (VArr l) = true /\ is_truthy (VFun g) = true.
Proof. intros. repeat split. Qed.

Theorem not_is_negation : forall n v, apply_n n FNot [v] = Val (VBool (negb (is_truthy v))).
Proof. intros. rewrite apply_n_fo by discriminate. reflexivity. Qed.

Theorem if_selects : forall env c a b v, beval env c = Val v ->
  beval env (BIf c a b) = if is_truthy v then beval env a else beval env b.
Proof. intros env c a b v H. cbn [beval]. rewrite H. reflexivity. Qed.

(* ------------------------------------------------------------------ numbers *)
Lemma wrap64_add_l : forall x y, wrap64 (wrap64 x + y) = wrap64 (x + y).
Proof.
  intros. unfold wrap64. f_equal.
  replace ((x + two63) mod two64 - two63 + y + two63) with ((x + two63) mod two64 + y) by lia.
  replace (x + y + two63) with ((x + two63) + y) by lia.
  rewrite Zplus_mod_idemp_l. reflexivity.
Qed.
Lemma wrap64_mul_l : forall x y, wrap64 (wrap64 x * y) = wrap64 (x * y).
Proof.
  intros. unfold wrap64. f_equal.
  pose proof two64_pos as P.
  rewrite <- (Zplus_mod_idemp_l (((x + two63) mod two64 - two63) * y)).
  rewrite <- (Zplus_mod_idemp_l (x * y)). f_equal. f_equal.
  rewrite <- Zmult_mod_idemp_l. rewrite <- Zminus_mod_idemp_l. rewrite Zmod_mod.
  rewrite Zminus_mod_idemp_l. rewrite Zmult_mod_idemp_l. f_equal. ring.
Qed.

(* (+ a b c ..) on ints = the mathematical sum wrapped to int64 once; same for * *)
Theorem add_ints_is_wrapped_sum : forall l a,
  arith_fold OpAdd (VInt a) (List.map VInt l) = Val (VInt (fold_left Z.add l a)) \/
  arith_fold OpAdd (VInt a) (List.map VInt l) = Val (VInt (wrap64 (fold_left Z.add l a))).
Proof.
  intros l a.
  assert (G : forall l a s, wrap64 s = wrap64 a ->
              arith_fold OpAdd (VInt (wrap64 a)) (List.map VInt l) = Val (VInt (wrap64 (fold_left Z.add l s)))).
  { induction l0 as [|x l0 IH]; intros a0 s E; cbn [List.map arith_fold fold_left].
    - rewrite E. reflexivity.
    - cbn [to_num numeric_do int_do lift_num of_num bind]. apply IH.
      rewrite wrap64_add_l. rewrite <- (wrap64_add_l s), E, wrap64_add_l. reflexivity. }
  destruct l as [|x l]; [left; reflexivity|right].
  cbn [List.map arith_fold to_num numeric_do int_do lift_num of_num bind fold_left].
  apply G. reflexivity.
Qed.

Theorem mul_ints_is_wrapped_product : forall l a,
  l <> [] ->
  arith_fold OpMul (VInt a) (List.map VInt l) = Val (VInt (wrap64 (fold_left Z.mul l a))).
Proof.
  intros l a Hne.
  assert (G : forall l a s, wrap64 s = wrap64 a ->
              arith_fold OpMul (VInt (wrap64 a)) (List.map VInt l) = Val (VInt (wrap64 (fold_left Z.mul l s)))).
  { induction l0 as [|x l0 IH]; intros a0 s E; cbn [List.map arith_fold fold_left].
    - rewrite E. reflexivity.
    - cbn [to_num numeric_do int_do lift_num of_num bind]. apply IH.
      rewrite wrap64_mul_l. rewrite <- (wrap64_mul_l s), E, wrap64_mul_l. reflexivity. }
  destruct l as [|x l]; [congruence|].
  cbn [List.map arith_fold to_num numeric_do int_do lift_num of_num bind fold_left].
  apply G. reflexivity.
Qed.

(* integer division: exact quotient when the remainder is zero, the float quotient otherwise,
   an error for a zero divisor *)
Theorem int_division : forall a b,
  (b = 0 -> b_arith OpDiv [VInt a; VInt b] = Fail) /\
  (b <> 0 -> Z.rem a b = 0 -> b_arith OpDiv [VInt a; VInt b] = Val (VInt (wrap64 (Z.quot a b)))) /\
  (b <> 0 -> Z.rem a b <> 0 -> b_arith OpDiv [VInt a; VInt b] = Val (VFlt (fdiv (of_Z a) (of_Z b)))).
Proof.
  intros a b. cbn [b_arith arith_fold to_num numeric_do int_do]. repeat split.
  - intros ->. reflexivity.
  - intros Hb Hr. apply Z.eqb_neq in Hb. rewrite Hb. apply Z.eqb_eq in Hr. rewrite Hr. reflexivity.
  - intros Hb Hr. apply Z.eqb_neq in Hb. rewrite Hb. apply Z.eqb_neq in Hr. rewrite Hr. reflexivity.
Qed.

Theorem exact_division_inverts_multiplication : forall a b,
  in_i64 a = true -> b <> 0 -> Z.rem a b = 0 ->
  bind (b_arith OpDiv [VInt a; VInt b]) (fun q => b_arith OpMul [q; VInt b]) = Val (VInt a).
Proof.
  intros a b Ha Hb Hr.
  destruct (int_division a b) as (_ & E & _). rewrite E by assumption.
  cbn [bind b_arith arith_fold to_num numeric_do int_do lift_num of_num].
  rewrite wrap64_mul_l.
  assert (Q : Z.quot a b * b = a).
  { pose proof (Z.quot_rem' a b) as H. rewrite Hr in H. lia. }
  rewrite Q, wrap64_id by assumption. reflexivity.
Qed.

Theorem arith_single_argument : forall op v, op <> OpMul -> b_arith op [v] = Val v.
Proof. intros op v H. destruct op; try reflexivity. congruence. Qed.

Theorem arith_rejects_non_numbers : forall op a x rest,
  to_num x = None -> b_arith op (a :: x :: rest) = Fail.
Proof. intros op a x rest H. cbn. destruct (to_num a); rewrite ?H; reflexivity. Qed.

(* char arithmetic stays a char (wrapped to a rune), char with float gives a float *)
Theorem char_plus_int : forall c i,
  b_arith OpAdd [VChar c; VInt i] = Val (VChar (wrap32 (wrap64 (c + i)))).
Proof. reflexivity. Qed.

(* ------------------------------------------------------------------ symbols and strings *)
Theorem sym_str_round_trip : forall n s k,
  bind (apply_n k FSym2Str [VSym n]) (fun x => apply_n k FStr2Sym [x]) = Val (VSym n) /\
  bind (apply_n k FStr2Sym [VStr s]) (fun x => apply_n k FSym2Str [x]) = Val (VStr s).
Proof. intros. fo. split; reflexivity. Qed.

Theorem append_string : forall s t c,
  b_append false (VStr s) (VStr t) = Val (VStr (s ++ t)) /\
  b_append false (VStr s) (VChar c) = Val (VStr (s ++ utf8 c)) /\
  b_append true (VStr s) (VStr t) = Val (VStr (s ++ t)).
Proof. intros. repeat split. Qed.

Lemma utf8_ascii : forall r, 0 <= r < 128 -> utf8 r = [r].
Proof.
  intros r H. unfold utf8.
  replace (r <? 0) with false by (symmetry; apply Z.ltb_ge; lia).
  replace (1114111 <? r) with false by (symmetry; apply Z.ltb_ge; lia).
  replace (55296 <=? r) with false by (symmetry; apply Z.leb_gt; lia).
  cbn [orb andb]. replace (r <? 128) with true by (symmetry; apply Z.ltb_lt; lia). reflexivity.
Qed.

Theorem utf8_shape : forall r,
  (1 <= zlen (utf8 r) <= 4) /\ Forall (fun b => 0 <= b < 256) (utf8 r).
Proof.
  intro r. unfold utf8.
  destruct ((r <? 0) || (1114111 <? r) || ((55296 <=? r) && (r <=? 57343))) eqn:E.
  - split; [unfold zlen; cbn; lia|]. repeat constructor; lia.
  - apply orb_false_iff in E. destruct E as [E E3]. apply orb_false_iff in E. destruct E as [E1 E2].
    apply Z.ltb_ge in E1. apply Z.ltb_ge in E2.
    destruct (r <? 128) eqn:C1; [apply Z.ltb_lt in C1; split; [unfold zlen; cbn; lia|repeat constructor; lia]|].
    apply Z.ltb_ge in C1.
    destruct (r <? 2048) eqn:C2.
    { apply Z.ltb_lt in C2. split; [unfold zlen; cbn; lia|].
      pose proof (Z.mod_pos_bound r 64). pose proof (Z.div_pos r 64).
      assert (r / 64 < 32) by (apply Z.div_lt_upper_bound; lia).
      repeat constructor; lia. }
    apply Z.ltb_ge in C2.
    destruct (r <? 65536) eqn:C3.
    { apply Z.ltb_lt in C3. split; [unfold zlen; cbn; lia|].
      pose proof (Z.mod_pos_bound r 64). pose proof (Z.mod_pos_bound (r / 64) 64). pose proof (Z.div_pos r 4096).
      assert (r / 4096 < 16) by (apply Z.div_lt_upper_bound; lia).
      repeat constructor; lia. }
    apply Z.ltb_ge in C3. split; [unfold zlen; cbn; lia|].
    pose proof (Z.mod_pos_bound r 64). pose proof (Z.mod_pos_bound (r / 64) 64).
    pose proof (Z.mod_pos_bound (r / 4096) 64). pose proof (Z.div_pos r 262144).
    assert (r / 262144 < 8) by (apply Z.div_lt_upper_bound; lia).
    repeat constructor; lia.
Qed.

(* ------------------------------------------------------------------ flatten *)
Lemma flat_tail_make_list : forall l, flat_tail (make_list l) = flat_args l.
Proof.
  induction l as [|x l IH]; [reflexivity|]. cbn [make_list flat_tail flat_args]. rewrite IH. reflexivity.
Qed.

(* a nested proper list is flattened in place: (flatten (list a b ..)) = (flatten a b ..) *)
Theorem flatten_nested_list : forall x l, b_flatten [make_list (x :: l)] = b_flatten (x :: l).
Proof.
  intros. unfold b_flatten. cbn [flat_args make_list flat1].
  rewrite flat_tail_make_list. cbn [flat_args].
  destruct (flat1 x); [|reflexivity]. destruct (flat_args l); [|reflexivity].
  rewrite app_nil_r. reflexivity.
Qed.

Lemma split_sp_no_space : forall w, Forall (fun c => c <> 32) w -> split_sp w = [w].
Proof.
  induction w as [|c w IH]; intro H; [reflexivity|]. inversion H as [|? ? Hc Hw]; subst.
  cbn [split_sp]. apply Z.eqb_neq in Hc. rewrite Hc, IH by assumption. reflexivity.
Qed.

Theorem flatten_words : forall ws, ws <> [] ->
  Forall (fun w => Forall (fun c => c <> 32) w) ws ->
  b_flatten (List.map VStr ws) = Val (VArr (List.map VStr ws)).
Proof.
  intros ws Hne H. unfold b_flatten.
  assert (E : flat_args (List.map VStr ws) = Some ws).
  { clear Hne. induction H as [|w ws Hw Hws IH]; [reflexivity|]. cbn [List.map flat_args flat1].
    rewrite IH. rewrite (split_sp_no_space w Hw). reflexivity. }
  rewrite E. destruct ws; [congruence|]. reflexivity.
Qed.

Lemma split_sp_app : forall a b, Forall (fun c => c <> 32) a ->
  split_sp (a ++ 32 :: b) = a :: split_sp b.
Proof.
  induction a as [|c a IH]; intros b H; [reflexivity|]. inversion H as [|? ? Hc Ha]; subst.
  cbn [app split_sp]. apply Z.eqb_neq in Hc. rewrite Hc, IH by assumption. reflexivity.
Qed.

(* ------------------------------------------------------------------ evaluation of call trees *)
Fixpoint eval_args (env : list val) (l : list bexp) : out (list val) :=
  match l with
  | [] => Val []
  | x :: r => bind (beval env x) (fun v => bind (eval_args env r) (fun vs => Val (v :: vs)))
  end.

Lemma beval_call : forall env f args, beval env (BCall f args) = bind (eval_args env args) (apply_n depth f).
Proof.
  intros. cbn [beval]. f_equal. induction args as [|x r IH]; [reflexivity|].
  cbn [eval_args]. rewrite IH. reflexivity.
Qed.

(* every argument is evaluated to a value, then the builtin is applied to the values *)
Theorem call_applies_to_argument_values : forall env f args vs,
  Forall2 (fun e v => beval env e = Val v) args vs ->
  beval env (BCall f args) = apply_n depth f vs.
Proof.
  intros env f args vs H. rewrite beval_call.
  assert (E : eval_args env args = Val vs).
  { induction H as [|e v args vs He Hr IH]; [reflexivity|]. cbn [eval_args]. rewrite He, IH. reflexivity. }
  rewrite E. reflexivity.
Qed.

(* the first argument that fails makes the call fail; the builtin is not applied *)
Theorem call_fails_with_first_failing_argument : forall env f pre x post vs,
  Forall2 (fun e v => beval env e = Val v) pre vs -> beval env x = Fail ->
  beval env (BCall f (pre ++ x :: post)) = Fail.
Proof.
  intros env f pre x post vs H Hx. rewrite beval_call.
  assert (E : eval_args env (pre ++ x :: post) = Fail).
  { induction H as [|e v pre vs He Hr IH]; cbn [app eval_args]; [rewrite Hx; reflexivity|].
    rewrite He. cbn [bind]. rewrite IH. reflexivity. }
  rewrite E. reflexivity.
Qed.

(* a let-bound value is the value itself wherever it is used: no builtin can change it *)
Theorem let_binds_the_value : forall env e b v, beval env e = Val v ->
  beval env (BLet e b) = beval (v :: env) b.
Proof. intros env e b v H. cbn [beval]. rewrite H. reflexivity. Qed.

Theorem argument_survives_call : forall env e v f args r,
  beval env e = Val v -> beval (v :: env) (BCall f args) = Val r ->
  beval env (BLet e (BCall FList [BCall f args; BVar 0])) = Val (make_list [r; v]).
Proof.
  intros env e v f args r He Hc.
  rewrite (let_binds_the_value env e _ v He).
  rewrite (call_applies_to_argument_values (v :: env) FList _ [r; v]); [reflexivity|].
  repeat constructor. assumption.
Qed.

Theorem beval_first_cons : forall env a b va vb,
  beval env a = Val va -> beval env b = Val vb ->
  beval env (BCall FFirst [BCall FCons [a; b]]) = Val va /\
  beval env (BCall FRest [BCall FCons [a; b]]) = Val vb.
Proof.
  intros env a b va vb Ha Hb.
  assert (Hc : beval env (BCall FCons [a; b]) = Val (VPair va vb)).
  { rewrite (call_applies_to_argument_values env FCons _ [va; vb]); [reflexivity|]. repeat constructor; assumption. }
  split.
  - rewrite (call_applies_to_argument_values env FFirst _ [VPair va vb]); [reflexivity|]. repeat constructor; assumption.
  - rewrite (call_applies_to_argument_values env FRest _ [VPair va vb]); [reflexivity|]. repeat constructor; assumption.
Qed.

(* ------------------------------------------------------------------ comparison *)
Section ValInd.
  Variable P : val -> Prop.
  Hypothesis HInt : forall z, P (VInt z).
  Hypothesis HFlt : forall f, P (VFlt f).
  Hypothesis HChar : forall c, P (VChar c).
  Hypothesis HStr : forall s, P (VStr s).
  Hypothesis HSym : forall n, P (VSym n).
  Hypothesis HBool : forall b, P (VBool b).
  Hypothesis HNil : P VNil.
  Hypothesis HPair : forall h t, P h -> P t -> P (VPair h t).
  Hypothesis HArr : forall l, Forall P l -> P (VArr l).
  Hypothesis HFun : forall f, P (VFun f).
  Fixpoint val_ind2 (v : val) : P v :=
    match v with
    | VInt z => HInt z | VFlt f => HFlt f | VChar c => HChar c | VStr s => HStr s | VSym n => HSym n
    | VBool b => HBool b | VNil => HNil
    | VPair h t => HPair h t (val_ind2 h) (val_ind2 t)
    | VArr l => HArr l ((fix go (l : list val) : Forall P l :=
                           match l with
                           | [] => Forall_nil P
                           | x :: r => Forall_cons x (val_ind2 x) (go r)
                           end) l)
    | VFun f => HFun f
    end.
End ValInd.

(* data without floats and functions *)
Fixpoint plain_data (v : val) : bool :=
  match v with
  | VFlt _ | VFun _ => false
  | VPair h t => plain_data h && plain_data t
  | VArr l => forallb plain_data l
  | _ => true
  end.

Lemma bytes_compare_refl : forall s, bytes_compare s s = 0.
Proof. induction s as [|c s IH]; [reflexivity|]. cbn. rewrite Z.ltb_irrefl. assumption. Qed.
Lemma bytes_eqb_refl : forall s, bytes_eqb s s = true.
Proof. induction s as [|c s IH]; [reflexivity|]. cbn. rewrite Z.eqb_refl. assumption. Qed.
Lemma cmp_z_refl : forall z, cmp_z z z = 0.
Proof. intro z. rewrite cmp_z_spec, Z.compare_refl. reflexivity. Qed.

(* == is reflexive on all data without floats and functions, whatever the nesting (and so are <= >=) *)
Theorem cmp_val_refl : forall v, plain_data v = true -> cmp_val v v = Val 0.
Proof.
  induction v as [z|f|c|s|n|b| |h t IHh IHt|l HF|f] using val_ind2; intro Hp; cbn in Hp; try discriminate.
  - cbn. rewrite cmp_z_refl. reflexivity.
  - cbn. rewrite cmp_z_refl. reflexivity.
  - cbn [cmp_val]. rewrite bytes_compare_refl. reflexivity.
  - cbn [cmp_val]. rewrite bytes_eqb_refl. reflexivity.
  - destruct b; reflexivity.
  - reflexivity.
  - apply andb_true_iff in Hp. destruct Hp as [H1 H2].
    cbn [cmp_val]. rewrite (IHh H1). exact (IHt H2).
  - cbn [cmp_val]. induction HF as [|x l Hx Hl IH]; [reflexivity|].
    cbn [forallb] in Hp. apply andb_true_iff in Hp. destruct Hp as [H1 H2].
    rewrite (Hx H1). exact (IH H2).
Qed.

Theorem eq_reflexive_on_plain_data : forall n v, plain_data v = true ->
  apply_n n (FCmp OpEq) [v; v] = Val (VBool true) /\ apply_n n (FCmp OpNe) [v; v] = Val (VBool false) /\
  apply_n n (FCmp OpLe) [v; v] = Val (VBool true) /\ apply_n n (FCmp OpLt) [v; v] = Val (VBool false).
Proof.
  intros n v H. rewrite !apply_n_fo by discriminate. cbn [apply_fo]. unfold b_cmp.
  rewrite (cmp_val_refl v H). repeat split.
Qed.

(* nil is below everything and equal only to itself (comparisons.go: the SexpSentinel case) *)
Theorem nil_compares_lowest : forall v, cmp_val VNil v = Val (match v with VNil => 0 | _ => -1 end).
Proof. destruct v; reflexivity. Qed.

(* comparing across kinds (other than int/char/float among themselves, or nil on the left) is an error *)
Theorem cmp_kind_mismatch_fails : forall s b n l h t z,
  cmp_val (VStr s) (VInt z) = Fail /\ cmp_val (VInt z) (VStr s) = Fail /\ cmp_val (VBool b) (VInt z) = Fail /\
  cmp_val (VSym n) (VStr s) = Fail /\ cmp_val (VArr l) (VPair h t) = Fail /\ cmp_val (VPair h t) VNil = Fail /\
  cmp_val (VInt z) VNil = Fail.
Proof. intros. repeat split. Qed.
