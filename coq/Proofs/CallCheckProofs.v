(* FunctionCallNameTypeCheck never dereferences an unfilled argument slot. *)
From Coq Require Import List Bool Arith Lia.
Import ListNotations.
Require Import ZV.Model.CallCheck.

Lemma has_name_In : forall n l, has_name n l = true <-> In n l.
Proof.
  intros n l. unfold has_name. rewrite existsb_exists. split.
  - intros [x [Hx E]]. apply Nat.eqb_eq in E. subst. exact Hx.
  - intros H. exists n. split. exact H. apply Nat.eqb_refl.
Qed.

Lemma NoDup_app_one : forall (l : list nat) x, NoDup l -> ~ In x l -> NoDup (l ++ [x]).
Proof.
  induction l as [|a r IH]; intros x ND NI; simpl. constructor. intros []. constructor.
  inversion ND; subst. constructor.
  - intro H. apply in_app_or in H. destruct H as [H|[H|[]]]. contradiction. subst. apply NI. left; reflexivity.
  - apply IH. assumption. intro H. apply NI. right; exact H.
Qed.

Lemma scan_inv : forall ps args sub sub',
  scan ps args sub = Some sub' ->
  NoDup (map fst sub) -> incl (map fst sub) (map fst ps) ->
  NoDup (map fst sub') /\ incl (map fst sub') (map fst ps).
Proof.
  intros ps args. remember (length args) as n eqn:Hn. revert args Hn.
  induction n as [n IH] using lt_wf_ind. intros args Hn sub sub' H ND INC.
  destruct args as [|a rest]; simpl in H.
  - inversion H; subst. split; assumption.
  - destruct a as [m|t].
    + destruct (has_name m (map fst ps)) eqn:Hp; simpl in H; try discriminate.
      destruct rest as [|v rest']; try discriminate.
      destruct (has_name m (map fst sub)) eqn:Hs; try discriminate.
      eapply (IH (length rest')); [simpl in Hn; lia | reflexivity | exact H | |].
      * rewrite map_app. simpl. apply NoDup_app_one.
        -- exact ND.
        -- intro Hin. apply has_name_In in Hin. congruence.
      * rewrite map_app. simpl. intros x Hx. apply in_app_or in Hx. destruct Hx as [Hx|[Hx|[]]].
        -- apply INC; exact Hx.
        -- subst x. apply has_name_In. exact Hp.
    + eapply (IH (length rest)); [simpl in Hn; lia | reflexivity | exact H | exact ND | exact INC].
Qed.

Lemma assoc_some : forall n l, In n (map fst l) -> exists v, assoc n l = Some v.
Proof.
  induction l as [|[k v] r IH]; simpl; intros H. contradiction.
  destruct (k =? n) eqn:E. eexists; reflexivity.
  destruct H as [H|H]. apply Nat.eqb_neq in E. simpl in H. congruence. apply IH; exact H.
Qed.

Lemma typecheck_no_crash : forall final ps, Forall (fun x => x <> None) final -> typecheck ps final <> CCrashNil.
Proof.
  induction final as [|x fr IH]; intros ps HF.
  - destruct ps; simpl; discriminate.
  - inversion HF; subst. destruct ps as [|[k t] pr].
    + destruct x; simpl; discriminate.
    + destruct x as [a|]. 2: congruence.
      simpl. destruct (ty_eqb t (type_of a)). apply IH; assumption. discriminate.
Qed.

Theorem call_check_no_crash : forall ps args, NoDup (map fst ps) -> call_check ps args <> CCrashNil.
Proof.
  intros ps args NDP. unfold call_check. destruct (scan ps args []) as [sub|] eqn:S. 2: discriminate.
  destruct (scan_inv ps args [] sub S) as [ND INC]. constructor. intros x [].
  destruct (0 <? length sub).
  - destruct (length sub =? length ps) eqn:E; simpl. 2: discriminate.
    apply Nat.eqb_eq in E. apply typecheck_no_crash.
    assert (FULL : incl (map fst ps) (map fst sub)).
    { apply NoDup_length_incl. exact ND. rewrite !map_length. lia. exact INC. }
    unfold fill. apply Forall_forall. intros x Hx. apply in_map_iff in Hx. destruct Hx as [p [Hp Hin]].
    destruct (assoc_some (fst p) sub) as [v Hv]. apply FULL. apply in_map. exact Hin. congruence.
  - pose proof (typecheck_no_crash (map Some args) ps) as T.
    destruct (typecheck ps (map Some args)) eqn:TC; try discriminate.
    + destruct (length args =? length ps); discriminate.
    + exfalso. apply T. 2: reflexivity. apply Forall_forall. intros x Hx. apply in_map_iff in Hx. destruct Hx as [y [Hy _]]. congruence.
Qed.
