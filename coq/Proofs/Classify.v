(* C12: DecodeAtom classifies every well-formed spelling of each numeric notation (over the regexes
   GENERATED from lexer.go).  Positive facts by derivations (Proofs/RegexSem.v, D_complete), negative facts
   (the regexes tried earlier in the cascade do not match) by reflective certificates. *)
From Coq Require Import ZArith List Bool Lia.
From ZV Require Import Model.Regex Generated.LexTables Model.Lexer Model.Reader Model.Printer
  Proofs.LexerProofs Proofs.PrinterLex Proofs.RegexSem.
Import ListNotations.
Open Scope Z_scope.

(* ---- character classes ---- *)
Definition dig_ (c : Z) : Prop := digit c \/ c = 95.
Definition hexd (c : Z) : Prop := (48 <= c <= 57) \/ (65 <= c <= 70) \/ (97 <= c <= 102).
Definition octd (c : Z) : Prop := 48 <= c <= 55.
Definition bind (c : Z) : Prop := c = 48 \/ c = 49.

Definition Dg : list (Z * Z) := [(48, 57)].
Definition Du : list (Z * Z) := [(48, 57); (95, 95)].
Definition Hx : list (Z * Z) := [(48, 57); (65, 70); (97, 102)].

Ltac cls_tac := unfold in_cls; repeat rewrite orb_false_r;
  repeat (apply orb_true_iff; (left + right));
  apply andb_true_iff; split; apply Z.leb_le; lia.

Lemma in_Dg : forall c, digit c -> in_cls c Dg = true.
Proof. intros c H. unfold digit in H. unfold Dg, in_cls. rewrite orb_false_r. apply andb_true_iff; split; apply Z.leb_le; lia. Qed.
Lemma in_Du : forall c, dig_ c -> in_cls c Du = true.
Proof.
  intros c [H|H]; unfold Du, in_cls; rewrite orb_false_r; apply orb_true_iff.
  - left. unfold digit in H. apply andb_true_iff; split; apply Z.leb_le; lia.
  - right. subst. reflexivity.
Qed.
Lemma in_Hx : forall c, hexd c -> in_cls c Hx = true.
Proof.
  intros c H. unfold Hx, in_cls. rewrite orb_false_r. destruct H as [H|[H|H]].
  - apply orb_true_iff; left. apply andb_true_iff; split; apply Z.leb_le; lia.
  - apply orb_true_iff; right. apply orb_true_iff; left. apply andb_true_iff; split; apply Z.leb_le; lia.
  - apply orb_true_iff; right. apply orb_true_iff; right. apply andb_true_iff; split; apply Z.leb_le; lia.
Qed.

Lemma Forall_cls : forall (P : Z -> Prop) rs w, (forall c, P c -> in_cls c rs = true) -> Forall P w ->
  Forall (fun c => in_cls c rs = true) w.
Proof. intros P rs w H F. eapply Forall_impl; [|exact F]. exact H. Qed.

(* ---- generic derivations ---- *)
Lemma D1 : forall rs c, in_cls c rs = true -> forall f l, D f l (Cls rs) [c].
Proof. intros; constructor; assumption. Qed.

Lemma Dcat : forall a b u v, (forall f l, D f l a u) -> (forall f l, D f l b v) -> forall f l, D f l (Cat a b) (u ++ v).
Proof. intros; constructor; auto. Qed.

Lemma Dplus : forall rs c w, in_cls c rs = true -> Forall (fun x => in_cls x rs = true) w ->
  forall f l, D f l (Cat (Cls rs) (Star (Cls rs))) (c :: w).
Proof. intros. change (c :: w) with ([c] ++ w). apply Dcat; intros; [apply D1; assumption|apply D_star_cls; assumption]. Qed.

Lemma Dstar : forall rs w, Forall (fun x => in_cls x rs = true) w -> forall f l, D f l (Star (Cls rs)) w.
Proof. intros. apply D_star_cls; assumption. Qed.

Lemma Dopt_some : forall a u, (forall f l, D f l a u) -> forall f l, D f l (Alt a Eps) u.
Proof. intros. apply D_altl; auto. Qed.
Lemma Dopt_none : forall a, forall f l, D f l (Alt a Eps) [].
Proof. intros. apply D_altr; constructor. Qed.

Lemma D_anch2 : forall a b u v, (forall f l, D f l a u) -> (forall f l, D f l b v) ->
  D true true (Cat Bol (Cat a (Cat b Eol))) (u ++ v).
Proof.
  intros a b u v Ha Hb. apply (D_cat' _ _ _ _ [] (u ++ v)); [reflexivity|constructor|].
  apply (D_cat' _ _ _ _ u v); [reflexivity|apply Ha|].
  apply (D_cat' _ _ _ _ v []); [rewrite app_nil_r; reflexivity|apply Hb|constructor].
Qed.

Lemma D_anch3 : forall a b c u v x, (forall f l, D f l a u) -> (forall f l, D f l b v) -> (forall f l, D f l c x) ->
  D true true (Cat Bol (Cat a (Cat b (Cat c Eol)))) (u ++ v ++ x).
Proof.
  intros a b c u v x Ha Hb Hc. apply (D_cat' _ _ _ _ [] (u ++ v ++ x)); [reflexivity|constructor|].
  apply (D_cat' _ _ _ _ u (v ++ x)); [reflexivity|apply Ha|].
  apply (D_cat' _ _ _ _ v x); [reflexivity|apply Hb|].
  apply (D_cat' _ _ _ _ x []); [rewrite app_nil_r; reflexivity|apply Hc|constructor].
Qed.

(* optional minus sign *)
Definition sign_ok (sg : list Z) : Prop := sg = [] \/ sg = [45].
Lemma Dsign : forall sg, sign_ok sg -> forall f l, D f l (Alt (Cls [(45, 45)]) Eps) sg.
Proof. intros sg [H|H]; subst; intros; [apply Dopt_none|apply Dopt_some; intros; apply D1; reflexivity]. Qed.

(* ---- the three float forms ---- *)

(* digits then digits-or-underscores: [0-9]+[0-9_]* on c :: ip *)
Lemma Dint : forall c ip X rest, digit c -> Forall dig_ ip -> (forall f l, D f l X rest) ->
  forall f l, D f l (Cat (Cat (Cls Dg) (Star (Cls Dg))) (Cat (Star (Cls Du)) X)) (c :: ip ++ rest).
Proof.
  intros c ip X rest Hc Hip HX. change (c :: ip ++ rest) with ([c] ++ (ip ++ rest)).
  apply Dcat; [intros; apply Dplus; [apply in_Dg; assumption|constructor]|].
  apply Dcat; [intros; apply Dstar; apply (Forall_cls dig_); [exact in_Du|assumption]|exact HX].
Qed.

Lemma Dfrac : forall fp, Forall dig_ fp -> forall f l, D f l (Cat (Cls [(46, 46)]) (Star (Cls Du))) (46 :: fp).
Proof.
  intros fp H. change (46 :: fp) with ([46] ++ fp).
  apply Dcat; [intros; apply D1; reflexivity|intros; apply Dstar; apply (Forall_cls dig_); [exact in_Du|assumption]].
Qed.

Definition esign_ok (sg : list Z) : Prop := sg = [] \/ sg = [43] \/ sg = [45].

Lemma Dexp : forall e esg x xp, (e = 101 \/ e = 69) -> esign_ok esg -> digit x -> Forall dig_ xp ->
  forall f l, D f l (Cat (Cls [(69, 69); (101, 101)]) (Cat (Alt (Cls [(43, 43); (45, 45)]) Eps)
                      (Cat (Cat (Cls Dg) (Star (Cls Dg))) (Star (Cls Du))))) (e :: esg ++ x :: xp).
Proof.
  intros e esg x xp He Hs Hx Hxp. change (e :: esg ++ x :: xp) with ([e] ++ (esg ++ ([x] ++ xp))).
  apply Dcat; [intros; apply D1; destruct He; subst; reflexivity|].
  apply Dcat.
  - destruct Hs as [H|[H|H]]; subst; intros; [apply Dopt_none|apply Dopt_some; intros; apply D1; reflexivity|apply Dopt_some; intros; apply D1; reflexivity].
  - apply Dcat; [intros; apply Dplus; [apply in_Dg; assumption|constructor]|].
    intros; apply Dstar; apply (Forall_cls dig_); [exact in_Du|assumption].
Qed.

(* form A: -?[0-9]+[0-9_]*\.[0-9_]*   form B: -?\.[0-9]+[0-9_]*   form C: mantissa [eE][-+]?[0-9]+[0-9_]* *)
Definition formA (sg : list Z) (c : Z) (ip fp : list Z) : list Z := sg ++ c :: ip ++ 46 :: fp.
Definition formB (sg : list Z) (c : Z) (fp : list Z) : list Z := sg ++ 46 :: c :: fp.
Definition formC (sg : list Z) (c : Z) (ip fr : list Z) (e : Z) (esg : list Z) (x : Z) (xp : list Z) : list Z :=
  sg ++ c :: ip ++ fr ++ e :: esg ++ x :: xp.
Definition frac_ok (fr : list Z) : Prop := fr = [] \/ exists fp, fr = 46 :: fp /\ Forall dig_ fp.

Lemma float_A : forall sg c ip fp, sign_ok sg -> digit c -> Forall dig_ ip -> Forall dig_ fp ->
  re_match re_FloatRegex (formA sg c ip fp) = true.
Proof.
  intros sg c ip fp Hs Hc Hi Hf. apply D_complete. unfold re_FloatRegex. apply D_altl.
  apply D_anch2; [apply Dsign; assumption|]. apply Dint; try assumption. apply Dfrac; assumption.
Qed.

Lemma float_B : forall sg c fp, sign_ok sg -> digit c -> Forall dig_ fp ->
  re_match re_FloatRegex (formB sg c fp) = true.
Proof.
  intros sg c fp Hs Hc Hf. apply D_complete. unfold re_FloatRegex. apply D_altr, D_altl.
  apply D_anch2; [apply Dsign; assumption|].
  change (46 :: c :: fp) with ([46] ++ (([c] ++ []) ++ fp)).
  apply Dcat; [intros; apply D1; reflexivity|].
  apply Dcat; [intros; apply Dplus; [apply in_Dg; assumption|constructor]|].
  intros; apply Dstar; apply (Forall_cls dig_); [exact in_Du|assumption].
Qed.

Lemma float_C : forall sg c ip fr e esg x xp, sign_ok sg -> digit c -> Forall dig_ ip -> frac_ok fr ->
  (e = 101 \/ e = 69) -> esign_ok esg -> digit x -> Forall dig_ xp ->
  re_match re_FloatRegex (formC sg c ip fr e esg x xp) = true.
Proof.
  intros sg c ip fr e esg x xp Hs Hc Hi Hfr He Hes Hx Hxp. apply D_complete. unfold re_FloatRegex. apply D_altr, D_altr.
  apply D_anch2; [apply Dsign; assumption|]. apply Dint; try assumption.
  apply Dcat; [|apply Dexp; assumption].
  destruct Hfr as [H|[fp [H F]]]; subst; intros; [apply Dopt_none|apply Dopt_some; apply Dfrac; assumption].
Qed.

(* ---- negative facts for the regexes tried before FloatRegex ---- *)
Definition digits10 : list Z := [48; 49; 50; 51; 52; 53; 54; 55; 56; 57].
Definition alphaF : list Z := digits10 ++ [95; 46; 101; 69; 43; 45].
Definition alphaK : list Z := digits10 ++ [95; 45].

Lemma cert_bool_F : no_match_cert re_BoolRegex (states_of re_BoolRegex alphaF 3) alphaF = true.
Proof. vm_compute. reflexivity. Qed.
Lemma cert_u64_F : no_match_cert re_Uint64Regex (states_of re_Uint64Regex alphaF 3) alphaF = true.
Proof. vm_compute. reflexivity. Qed.
Lemma cert_hex_F : no_match_cert re_HexRegex (states_of re_HexRegex alphaF 3) alphaF = true.
Proof. vm_compute. reflexivity. Qed.
Lemma cert_oct_F : no_match_cert re_OctRegex (states_of re_OctRegex alphaF 3) alphaF = true.
Proof. vm_compute. reflexivity. Qed.
Lemma cert_bin_F : no_match_cert re_BinaryRegex (states_of re_BinaryRegex alphaF 3) alphaF = true.
Proof. vm_compute. reflexivity. Qed.
Lemma cert_dec_kill : kill_cert re_DecimalRegex (states_of re_DecimalRegex alphaK 3) alphaK [46; 101; 69] = true.
Proof. vm_compute. reflexivity. Qed.

Lemma digit_in10 : forall c, digit c -> In c digits10.
Proof. intros c H. digit_cases c H; simpl; tauto. Qed.
Lemma digit_inF : forall c, digit c -> In c alphaF.
Proof. intros c H. apply in_or_app. left. apply digit_in10; assumption. Qed.
Lemma dig__inF : forall c, dig_ c -> In c alphaF.
Proof. intros c [H|H]; [apply digit_inF; assumption|subst; apply in_or_app; right; simpl; tauto]. Qed.
Lemma dig__inK : forall c, dig_ c -> In c alphaK.
Proof. intros c [H|H]; apply in_or_app; [left; apply digit_in10; assumption|right; subst; simpl; tauto]. Qed.
Lemma sign_inF : forall sg, sign_ok sg -> Forall (fun c => In c alphaF) sg.
Proof. intros sg [H|H]; subst; [constructor|constructor; [apply in_or_app; right; simpl; tauto|constructor]]. Qed.
Lemma sign_inK : forall sg, sign_ok sg -> Forall (fun c => In c alphaK) sg.
Proof. intros sg [H|H]; subst; [constructor|constructor; [apply in_or_app; right; simpl; tauto|constructor]]. Qed.

Lemma Forall_dig_F : forall w, Forall dig_ w -> Forall (fun c => In c alphaF) w.
Proof. intros w F. eapply Forall_impl; [|exact F]. exact dig__inF. Qed.
Lemma Forall_dig_K : forall w, Forall dig_ w -> Forall (fun c => In c alphaK) w.
Proof. intros w F. eapply Forall_impl; [|exact F]. exact dig__inK. Qed.

(* DecodeAtom on an atom over the float alphabet that FloatRegex accepts and DecimalRegex does not *)
Lemma decode_float_gen : forall a, a <> [] -> Forall (fun c => In c alphaF) a ->
  re_match re_DecimalRegex a = false -> re_match re_FloatRegex a = true ->
  decode_atom a = Some (mkTok TFloat a).
Proof.
  intros a Hne F Hd Hf. unfold decode_atom.
  assert (forall k, ~ In k alphaF -> last_rune a =? k = false) as Hlast.
  { intros k Hk. apply Z.eqb_neq. intros E. apply Hk. rewrite <- E. unfold last_rune.
    apply (Forall_last (fun c => In c alphaF)); assumption. }
  rewrite (Hlast 58) by (simpl; intros H; repeat (destruct H as [H|H]; [discriminate|]); exact H).
  cbv beta zeta iota.
  destruct a as [|c a']; [congruence|]. inversion F as [|x l Hc F']; subst.
  assert (forall k, ~ In k alphaF -> c =? k = false) as Hc1.
  { intros k Hk. apply Z.eqb_neq. intros E. apply Hk. rewrite <- E. exact Hc. }
  cbn [list_eqb].
  rewrite (Hc1 38), (Hc1 92) by (simpl; intros H; repeat (destruct H as [H|H]; [discriminate|]); exact H). cbn [andb].
  rewrite (no_match _ _ _ cert_bool_F) by exact F.
  rewrite (no_match _ _ _ cert_u64_F) by exact F.
  rewrite Hd.
  rewrite (no_match _ _ _ cert_hex_F) by exact F.
  rewrite (no_match _ _ _ cert_oct_F) by exact F.
  rewrite (no_match _ _ _ cert_bin_F) by exact F.
  rewrite Hf. reflexivity.
Qed.

Lemma in46 : In 46 alphaF. Proof. apply in_or_app; right; simpl; tauto. Qed.
Lemma ine : forall e, (e = 101 \/ e = 69) -> In e alphaF. Proof. intros e [H|H]; subst; apply in_or_app; right; simpl; tauto. Qed.
Lemma esign_inF : forall sg, esign_ok sg -> Forall (fun c => In c alphaF) sg.
Proof. intros sg [H|[H|H]]; subst; [constructor|constructor; [apply in_or_app; right; simpl; tauto|constructor]|constructor; [apply in_or_app; right; simpl; tauto|constructor]]. Qed.

Theorem classify_float_A : forall sg c ip fp, sign_ok sg -> digit c -> Forall dig_ ip -> Forall dig_ fp ->
  decode_atom (formA sg c ip fp) = Some (mkTok TFloat (formA sg c ip fp)).
Proof.
  intros sg c ip fp Hs Hc Hi Hf. apply decode_float_gen.
  - unfold formA. destruct sg; discriminate.
  - unfold formA. apply Forall_app; split; [apply sign_inF; assumption|]. constructor; [apply digit_inF; assumption|].
    apply Forall_app; split; [apply Forall_dig_F; assumption|]. constructor; [exact in46|apply Forall_dig_F; assumption].
  - unfold formA. replace (sg ++ c :: ip ++ 46 :: fp) with ((sg ++ c :: ip) ++ 46 :: fp) by (rewrite <- app_assoc; reflexivity).
    apply (killed _ _ _ _ cert_dec_kill); [|simpl; tauto].
    apply Forall_app; split; [apply sign_inK; assumption|]. constructor; [apply dig__inK; left; assumption|apply Forall_dig_K; assumption].
  - apply float_A; assumption.
Qed.

Theorem classify_float_B : forall sg c fp, sign_ok sg -> digit c -> Forall dig_ fp ->
  decode_atom (formB sg c fp) = Some (mkTok TFloat (formB sg c fp)).
Proof.
  intros sg c fp Hs Hc Hf. apply decode_float_gen.
  - unfold formB. destruct sg; discriminate.
  - unfold formB. apply Forall_app; split; [apply sign_inF; assumption|]. constructor; [exact in46|].
    constructor; [apply digit_inF; assumption|apply Forall_dig_F; assumption].
  - unfold formB. apply (killed _ _ _ _ cert_dec_kill); [apply sign_inK; assumption|simpl; tauto].
  - apply float_B; assumption.
Qed.

Theorem classify_float_C : forall sg c ip fr e esg x xp, sign_ok sg -> digit c -> Forall dig_ ip -> frac_ok fr ->
  (e = 101 \/ e = 69) -> esign_ok esg -> digit x -> Forall dig_ xp ->
  decode_atom (formC sg c ip fr e esg x xp) = Some (mkTok TFloat (formC sg c ip fr e esg x xp)).
Proof.
  intros sg c ip fr e esg x xp Hs Hc Hi Hfr He Hes Hx Hxp. apply decode_float_gen.
  - unfold formC. destruct sg; discriminate.
  - unfold formC. apply Forall_app; split; [apply sign_inF; assumption|]. constructor; [apply digit_inF; assumption|].
    apply Forall_app; split; [apply Forall_dig_F; assumption|].
    apply Forall_app; split.
    + destruct Hfr as [H|[fp [H F]]]; subst; [constructor|constructor; [exact in46|apply Forall_dig_F; assumption]].
    + constructor; [apply ine; assumption|]. apply Forall_app; split; [apply esign_inF; assumption|].
      constructor; [apply digit_inF; assumption|apply Forall_dig_F; assumption].
  - unfold formC. destruct Hfr as [H|[fp [H F]]]; subst.
    + replace (sg ++ c :: ip ++ [] ++ e :: esg ++ x :: xp) with ((sg ++ c :: ip) ++ e :: (esg ++ x :: xp))
        by (rewrite <- app_assoc; reflexivity).
      apply (killed _ _ _ _ cert_dec_kill); [|destruct He; subst; simpl; tauto].
      apply Forall_app; split; [apply sign_inK; assumption|]. constructor; [apply dig__inK; left; assumption|apply Forall_dig_K; assumption].
    + replace (sg ++ c :: ip ++ (46 :: fp) ++ e :: esg ++ x :: xp) with ((sg ++ c :: ip) ++ 46 :: (fp ++ e :: esg ++ x :: xp))
        by (rewrite <- !app_assoc; reflexivity).
      apply (killed _ _ _ _ cert_dec_kill); [|simpl; tauto].
      apply Forall_app; split; [apply sign_inK; assumption|]. constructor; [apply dig__inK; left; assumption|apply Forall_dig_K; assumption].
  - apply float_C; assumption.
Qed.

(* decimal with underscores: -?[0-9][_0-9]* *)
Lemma dec_U : forall sg c ip, sign_ok sg -> digit c -> Forall dig_ ip -> re_match re_DecimalRegex (sg ++ c :: ip) = true.
Proof.
  intros sg c ip Hs Hc Hi. apply D_complete. unfold re_DecimalRegex.
  change (sg ++ c :: ip) with (sg ++ [c] ++ ip).
  apply D_anch3; [apply Dsign; assumption|intros; apply D1; apply in_Dg; assumption|].
  intros; apply Dstar. apply (Forall_cls dig_); [exact in_Du|assumption].
Qed.
