(* C12: DecodeAtom classifies every well-formed spelling of each numeric notation (over the regexes
   GENERATED from lexer.go).  Positive facts by derivations (Proofs/RegexSem.v, D_complete), negative facts
   (the regexes tried earlier in the cascade do not match) by reflective certificates. *)
From Coq Require Import ZArith List Bool Lia.
From ZV Require Import Model.Regex Generated.LexTables Model.Lexer Model.Reader Model.Printer
  Proofs.LexerProofs Proofs.PrinterLex Proofs.RegexSem.
Import ListNotations.
Open Scope Z_scope.

(* ---- character classes ---- *)
Definition dig_ (c : Z) : Prop := digit c \/ c = 95.
Definition hexd (c : Z) : Prop := (48 <= c <= 57) \/ (65 <= c <= 70) \/ (97 <= c <= 102).
Definition octd (c : Z) : Prop := 48 <= c <= 55.
Definition bind (c : Z) : Prop := c = 48 \/ c = 49.

Definition Dg : list (Z * Z) := [(48, 57)].
Definition Du : list (Z * Z) := [(48, 57); (95, 95)].
Definition Hx : list (Z * Z) := [(48, 57); (65, 70); (97, 102)].

Ltac cls_tac := unfold in_cls; repeat rewrite orb_false_r;
  repeat (apply orb_true_iff; (left + right));
  apply andb_true_iff; split; apply Z.leb_le; lia.

Lemma in_Dg : forall c, digit c -> in_cls c Dg = true.
Proof. intros c H. unfold digit in H. unfold Dg, in_cls. rewrite orb_false_r. apply andb_true_iff; split; apply Z.leb_le; lia. Qed.
Lemma in_Du : forall c, dig_ c -> in_cls c Du = true.
Proof.
  intros c [H|H]; unfold Du, in_cls; rewrite orb_false_r; apply orb_true_iff.
  - left. unfold digit in H. apply andb_true_iff; split; apply Z.leb_le; lia.
  - right. subst. reflexivity.
Qed.
Lemma in_Hx : forall c, hexd c -> in_cls c Hx = true.
Proof.
  intros c H. unfold Hx, in_cls. rewrite orb_false_r. destruct H as [H|[H|H]].
  - apply orb_true_iff; left. apply andb_true_iff; split; apply Z.leb_le; lia.
  - apply orb_true_iff; right. apply orb_true_iff; left. apply andb_true_iff; split; apply Z.leb_le; lia.
  - apply orb_true_iff; right. apply orb_true_iff; right. apply andb_true_iff; split; apply Z.leb_le; lia.
Qed.

Lemma Forall_cls : forall (P : Z -> Prop) rs w, (forall c, P c -> in_cls c rs = true) -> Forall P w ->
  Forall (fun c => in_cls c rs = true) w.
Proof. intros P rs w H F. eapply Forall_impl; [|exact F]. exact H. Qed.

(* ---- generic derivations ---- *)
Lemma D1 : forall rs c, in_cls c rs = true -> forall f l, D f l (Cls rs) [c].
Proof. intros; constructor; assumption. Qed.

Lemma Dcat : forall a b u v, (forall f l, D f l a u) -> (forall f l, D f l b v) -> forall f l, D f l (Cat a b) (u ++ v).
Proof. intros; constructor; auto. Qed.

Lemma Dplus : forall rs c w, in_cls c rs = true -> Forall (fun x => in_cls x rs = true) w ->
  forall f l, D f l (Cat (Cls rs) (Star (Cls rs))) (c :: w).
Proof. intros. change (c :: w) with ([c] ++ w). apply Dcat; intros; [apply D1; assumption|apply D_star_cls; assumption]. Qed.

Lemma Dstar : forall rs w, Forall (fun x => in_cls x rs = true) w -> forall f l, D f l (Star (Cls rs)) w.
Proof. intros. apply D_star_cls; assumption. Qed.

Lemma Dopt_some : forall a u, (forall f l, D f l a u) -> forall f l, D f l (Alt a Eps) u.
Proof. intros. apply D_altl; auto. Qed.
Lemma Dopt_none : forall a, forall f l, D f l (Alt a Eps) [].
Proof. intros. apply D_altr; constructor. Qed.

Lemma D_anch2 : forall a b u v, (forall f l, D f l a u) -> (forall f l, D f l b v) ->
  D true true (Cat Bol (Cat a (Cat b Eol))) (u ++ v).
Proof.
  intros a b u v Ha Hb. apply (D_cat' _ _ _ _ [] (u ++ v)); [reflexivity|constructor|].
  apply (D_cat' _ _ _ _ u v); [reflexivity|apply Ha|].
  apply (D_cat' _ _ _ _ v []); [rewrite app_nil_r; reflexivity|apply Hb|constructor].
Qed.

Lemma D_anch3 : forall a b c u v x, (forall f l, D f l a u) -> (forall f l, D f l b v) -> (forall f l, D f l c x) ->
  D true true (Cat Bol (Cat a (Cat b (Cat c Eol)))) (u ++ v ++ x).
Proof.
  intros a b c u v x Ha Hb Hc. apply (D_cat' _ _ _ _ [] (u ++ v ++ x)); [reflexivity|constructor|].
  apply (D_cat' _ _ _ _ u (v ++ x)); [reflexivity|apply Ha|].
  apply (D_cat' _ _ _ _ v x); [reflexivity|apply Hb|].
  apply (D_cat' _ _ _ _ x []); [rewrite app_nil_r; reflexivity|apply Hc|constructor].
Qed.

(* optional minus sign *)
Definition sign_ok (sg : list Z) : Prop := sg = [] \/ sg = [45].
Lemma Dsign : forall sg, sign_ok sg -> forall f l, D f l (Alt (Cls [(45, 45)]) Eps) sg.
Proof. intros sg [H|H]; subst; intros; [apply Dopt_none|apply Dopt_some; intros; apply D1; reflexivity]. Qed.

(* ---- the three float forms ---- *)

(* digits then digits-or-underscores: [0-9]+[0-9_]* on c :: ip *)
Lemma Dint : forall c ip X rest, digit c -> Forall dig_ ip -> (forall f l, D f l X rest) ->
  forall f l, D f l (Cat (Cat (Cls Dg) (Star (Cls Dg))) (Cat (Star (Cls Du)) X)) (c :: ip ++ rest).
Proof.
  intros c ip X rest Hc Hip HX. change (c :: ip ++ rest) with ([c] ++ (ip ++ rest)).
  apply Dcat; [intros; apply Dplus; [apply in_Dg; assumption|constructor]|].
  apply Dcat; [intros; apply Dstar; apply (Forall_cls dig_); [exact in_Du|assumption]|exact HX].
Qed.

Lemma Dfrac : forall fp, Forall dig_ fp -> forall f l, D f l (Cat (Cls [(46, 46)]) (Star (Cls Du))) (46 :: fp).
Proof.
  intros fp H. change (46 :: fp) with ([46] ++ fp).
  apply Dcat; [intros; apply D1; reflexivity|intros; apply Dstar; apply (Forall_cls dig_); [exact in_Du|assumption]].
Qed.

Definition esign_ok (sg : list Z) : Prop := sg = [] \/ sg = [43] \/ sg = [45].

Lemma Dexp : forall e esg x xp, (e = 101 \/ e = 69) -> esign_ok esg -> digit x -> Forall dig_ xp ->
  forall f l, D f l (Cat (Cls [(69, 69); (101, 101)]) (Cat (Alt (Cls [(43, 43); (45, 45)]) Eps)
                      (Cat (Cat (Cls Dg) (Star (Cls Dg))) (Star (Cls Du))))) (e :: esg ++ x :: xp).
Proof.
  intros e esg x xp He Hs Hx Hxp. change (e :: esg ++ x :: xp) with ([e] ++ (esg ++ ([x] ++ xp))).
  apply Dcat; [intros; apply D1; destruct He; subst; reflexivity|].
  apply Dcat.
  - destruct Hs as [H|[H|H]]; subst; intros; [apply Dopt_none|apply Dopt_some; intros; apply D1; reflexivity|apply Dopt_some; intros; apply D1; reflexivity].
  - apply Dcat; [intros; apply Dplus; [apply in_Dg; assumption|constructor]|].
    intros; apply Dstar; apply (Forall_cls dig_); [exact in_Du|assumption].
Qed.

(* form A: -?[0-9]+[0-9_]*\.[0-9_]*   form B: -?\.[0-9]+[0-9_]*   form C: mantissa [eE][-+]?[0-9]+[0-9_]* *)
Definition formA (sg : list Z) (c : Z) (ip fp : list Z) : list Z := sg ++ c :: ip ++ 46 :: fp.
Definition formB (sg : list Z) (c : Z) (fp : list Z) : list Z := sg ++ 46 :: c :: fp.
Definition formC (sg : list Z) (c : Z) (ip fr : list Z) (e : Z) (esg : list Z) (x : Z) (xp : list Z) : list Z :=
  sg ++ c :: ip ++ fr ++ e :: esg ++ x :: xp.
Definition frac_ok (fr : list Z) : Prop := fr = [] \/ exists fp, fr = 46 :: fp /\ Forall dig_ fp.

Lemma float_A : forall sg c ip fp, sign_ok sg -> digit c -> Forall dig_ ip -> Forall dig_ fp ->
  re_match re_FloatRegex (formA sg c ip fp) = true.
Proof.
  intros sg c ip fp Hs Hc Hi Hf. apply D_complete. unfold re_FloatRegex. apply D_altl.
  apply D_anch2; [apply Dsign; assumption|]. apply Dint; try assumption. apply Dfrac; assumption.
Qed.

Lemma float_B : forall sg c fp, sign_ok sg -> digit c -> Forall dig_ fp ->
  re_match re_FloatRegex (formB sg c fp) = true.
Proof.
  intros sg c fp Hs Hc Hf. apply D_complete. unfold re_FloatRegex. apply D_altr, D_altl.
  apply D_anch2; [apply Dsign; assumption|].
  change (46 :: c :: fp) with ([46] ++ (([c] ++ []) ++ fp)).
  apply Dcat; [intros; apply D1; reflexivity|].
  apply Dcat; [intros; apply Dplus; [apply in_Dg; assumption|constructor]|].
  intros; apply Dstar; apply (Forall_cls dig_); [exact in_Du|assumption].
Qed.

Lemma float_C : forall sg c ip fr e esg x xp, sign_ok sg -> digit c -> Forall dig_ ip -> frac_ok fr ->
  (e = 101 \/ e = 69) -> esign_ok esg -> digit x -> Forall dig_ xp ->
  re_match re_FloatRegex (formC sg c ip fr e esg x xp) = true.
Proof.
  intros sg c ip fr e esg x xp Hs Hc Hi Hfr He Hes Hx Hxp. apply D_complete. unfold re_FloatRegex. apply D_altr, D_altr.
  apply D_anch2; [apply Dsign; assumption|]. apply Dint; try assumption.
  apply Dcat; [|apply Dexp; assumption].
  destruct Hfr as [H|[fp [H F]]]; subst; intros; [apply Dopt_none|apply Dopt_some; apply Dfrac; assumption].
Qed.

(* ---- negative facts for the regexes tried before FloatRegex ---- *)
Definition digits10 : list Z := [48; 49; 50; 51; 52; 53; 54; 55; 56; 57].
Definition alphaF : list Z := digits10 ++ [95; 46; 101; 69; 43; 45].
Definition alphaK : list Z := digits10 ++ [95; 45].

Lemma cert_bool_F : no_match_cert re_BoolRegex (states_of re_BoolRegex alphaF 3) alphaF = true.
Proof. vm_compute. reflexivity. Qed.
Lemma cert_u64_F : no_match_cert re_Uint64Regex (states_of re_Uint64Regex alphaF 3) alphaF = true.
Proof. vm_compute. reflexivity. Qed.
Lemma cert_hex_F : no_match_cert re_HexRegex (states_of re_HexRegex alphaF 3) alphaF = true.
Proof. vm_compute. reflexivity. Qed.
Lemma cert_oct_F : no_match_cert re_OctRegex (states_of re_OctRegex alphaF 3) alphaF = true.
Proof. vm_compute. reflexivity. Qed.
Lemma cert_bin_F : no_match_cert re_BinaryRegex (states_of re_BinaryRegex alphaF 3) alphaF = true.
Proof. vm_compute. reflexivity. Qed.
Lemma cert_dec_kill : kill_cert re_DecimalRegex (states_of re_DecimalRegex alphaK 3) alphaK [46; 101; 69] = true.
Proof. vm_compute. reflexivity. Qed.

Lemma digit_in10 : forall c, digit c -> In c digits10.
Proof. intros c H. digit_cases c H; simpl; tauto. Qed.
Lemma digit_inF : forall c, digit c -> In c alphaF.
Proof. intros c H. apply in_or_app. left. apply digit_in10; assumption. Qed.
Lemma dig__inF : forall c, dig_ c -> In c alphaF.
Proof. intros c [H|H]; [apply digit_inF; assumption|subst; apply in_or_app; right; simpl; tauto]. Qed.
Lemma dig__inK : forall c, dig_ c -> In c alphaK.
Proof. intros c [H|H]; apply in_or_app; [left; apply digit_in10; assumption|right; subst; simpl; tauto]. Qed.
Lemma sign_inF : forall sg, sign_ok sg -> Forall (fun c => In c alphaF) sg.
Proof. intros sg [H|H]; subst; [constructor|constructor; [apply in_or_app; right; simpl; tauto|constructor]]. Qed.
Lemma sign_inK : forall sg, sign_ok sg -> Forall (fun c => In c alphaK) sg.
Proof. intros sg [H|H]; subst; [constructor|constructor; [apply in_or_app; right; simpl; tauto|constructor]]. Qed.

Lemma Forall_dig_F : forall w, Forall dig_ w -> Forall (fun c => In c alphaF) w.
Proof. intros w F. eapply Forall_impl; [|exact F]. exact dig__inF. Qed.
Lemma Forall_dig_K : forall w, Forall dig_ w -> Forall (fun c => In c alphaK) w.
Proof. intros w F. eapply Forall_impl; [|exact F]. exact dig__inK. Qed.

(* DecodeAtom on an atom over the float alphabet that FloatRegex accepts and DecimalRegex does not *)
Lemma decode_float_gen : forall a, a <> [] -> Forall (fun c => In c alphaF) a ->
  re_match re_DecimalRegex a = false -> re_match re_FloatRegex a = true ->
  decode_atom a = Some (mkTok TFloat a).
Proof.
  intros a Hne F Hd Hf. unfold decode_atom.
  assert (forall k, ~ In k alphaF -> last_rune a =? k = false) as Hlast.
  { intros k Hk. apply Z.eqb_neq. intros E. apply Hk. rewrite <- E. unfold last_rune.
    apply (Forall_last (fun c => In c alphaF)); assumption. }
  rewrite (Hlast 58) by (simpl; intros H; repeat (destruct H as [H|H]; [discriminate|]); exact H).
  cbv beta zeta iota.
  destruct a as [|c a']; [congruence|]. inversion F as [|x l Hc F']; subst.
  assert (forall k, ~ In k alphaF -> c =? k = false) as Hc1.
  { intros k Hk. apply Z.eqb_neq. intros E. apply Hk. rewrite <- E. exact Hc. }
  cbn [list_eqb].
  rewrite (Hc1 38), (Hc1 92) by (simpl; intros H; repeat (destruct H as [H|H]; [discriminate|]); exact H). cbn [andb].
  rewrite (no_match _ _ _ cert_bool_F) by exact F.
  rewrite (no_match _ _ _ cert_u64_F) by exact F.
  rewrite Hd.
  rewrite (no_match _ _ _ cert_hex_F) by exact F.
  rewrite (no_match _ _ _ cert_oct_F) by exact F.
  rewrite (no_match _ _ _ cert_bin_F) by exact F.
  rewrite Hf. reflexivity.
Qed.

Lemma in46 : In 46 alphaF. Proof. apply in_or_app; right; simpl; tauto. Qed.
Lemma ine : forall e, (e = 101 \/ e = 69) -> In e alphaF. Proof. intros e [H|H]; subst; apply in_or_app; right; simpl; tauto. Qed.
Lemma esign_inF : forall sg, esign_ok sg -> Forall (fun c => In c alphaF) sg.
Proof. intros sg [H|[H|H]]; subst; [constructor|constructor; [apply in_or_app; right; simpl; tauto|constructor]|constructor; [apply in_or_app; right; simpl; tauto|constructor]]. Qed.

Theorem classify_float_A : forall sg c ip fp, sign_ok sg -> digit c -> Forall dig_ ip -> Forall dig_ fp ->
  decode_atom (formA sg c ip fp) = Some (mkTok TFloat (formA sg c ip fp)).
Proof.
  intros sg c ip fp Hs Hc Hi Hf. apply decode_float_gen.
  - unfold formA. destruct sg; discriminate.
  - unfold formA. apply Forall_app; split; [apply sign_inF; assumption|]. constructor; [apply digit_inF; assumption|].
    apply Forall_app; split; [apply Forall_dig_F; assumption|]. constructor; [exact in46|apply Forall_dig_F; assumption].
  - unfold formA. replace (sg ++ c :: ip ++ 46 :: fp) with ((sg ++ c :: ip) ++ 46 :: fp) by (rewrite <- app_assoc; reflexivity).
    apply (killed _ _ _ _ cert_dec_kill); [|simpl; tauto].
    apply Forall_app; split; [apply sign_inK; assumption|]. constructor; [apply dig__inK; left; assumption|apply Forall_dig_K; assumption].
  - apply float_A; assumption.
Qed.

Theorem classify_float_B : forall sg c fp, sign_ok sg -> digit c -> Forall dig_ fp ->
  decode_atom (formB sg c fp) = Some (mkTok TFloat (formB sg c fp)).
Proof.
  intros sg c fp Hs Hc Hf. apply decode_float_gen.
  - unfold formB. destruct sg; discriminate.
  - unfold formB. apply Forall_app; split; [apply sign_inF; assumption|]. constructor; [exact in46|].
    constructor; [apply digit_inF; assumption|apply Forall_dig_F; assumption].
  - unfold formB. apply (killed _ _ _ _ cert_dec_kill); [apply sign_inK; assumption|simpl; tauto].
  - apply float_B; assumption.
Qed.

Theorem classify_float_C : forall sg c ip fr e esg x xp, sign_ok sg -> digit c -> Forall dig_ ip -> frac_ok fr ->
  (e = 101 \/ e = 69) -> esign_ok esg -> digit x -> Forall dig_ xp ->
  decode_atom (formC sg c ip fr e esg x xp) = Some (mkTok TFloat (formC sg c ip fr e esg x xp)).
Proof.
  intros sg c ip fr e esg x xp Hs Hc Hi Hfr He Hes Hx Hxp. apply decode_float_gen.
  - unfold formC. destruct sg; discriminate.
  - unfold formC. apply Forall_app; split; [apply sign_inF; assumption|]. constructor; [apply digit_inF; assumption|].
    apply Forall_app; split; [apply Forall_dig_F; assumption|].
    apply Forall_app; split.
    + destruct Hfr as [H|[fp [H F]]]; subst; [constructor|constructor; [exact in46|apply Forall_dig_F; assumption]].
    + constructor; [apply ine; assumption|]. apply Forall_app; split; [apply esign_inF; assumption|].
      constructor; [apply digit_inF; assumption|apply Forall_dig_F; assumption].
  - unfold formC. destruct Hfr as [H|[fp [H F]]]; subst.
    + replace (sg ++ c :: ip ++ [] ++ e :: esg ++ x :: xp) with ((sg ++ c :: ip) ++ e :: (esg ++ x :: xp))
        by (rewrite <- app_assoc; reflexivity).
      apply (killed _ _ _ _ cert_dec_kill); [|destruct He; subst; simpl; tauto].
      apply Forall_app; split; [apply sign_inK; assumption|]. constructor; [apply dig__inK; left; assumption|apply Forall_dig_K; assumption].
    + replace (sg ++ c :: ip ++ (46 :: fp) ++ e :: esg ++ x :: xp) with ((sg ++ c :: ip) ++ 46 :: (fp ++ e :: esg ++ x :: xp))
        by (rewrite <- !app_assoc; reflexivity).
      apply (killed _ _ _ _ cert_dec_kill); [|simpl; tauto].
      apply Forall_app; split; [apply sign_inK; assumption|]. constructor; [apply dig__inK; left; assumption|apply Forall_dig_K; assumption].
  - apply float_C; assumption.
Qed.

(* decimal with underscores: -?[0-9][_0-9]* *)
Lemma dec_U : forall sg c ip, sign_ok sg -> digit c -> Forall dig_ ip -> re_match re_DecimalRegex (sg ++ c :: ip) = true.
Proof.
  intros sg c ip Hs Hc Hi. apply D_complete. unfold re_DecimalRegex.
  change (sg ++ c :: ip) with (sg ++ [c] ++ ip).
  apply D_anch3; [apply Dsign; assumption|intros; apply D1; apply in_Dg; assumption|].
  intros; apply Dstar. apply (Forall_cls dig_); [exact in_Du|assumption].
Qed.

(* ======== the other notations ======== *)

Lemma last_in : forall (alpha : list Z) a, a <> [] -> Forall (fun c => In c alpha) a -> In (last_rune a) alpha.
Proof. intros. unfold last_rune. apply (Forall_last (fun c => In c alpha)); assumption. Qed.

(* the head of DecodeAtom for an atom over an alphabet without : & \ that BoolRegex rejects *)
Lemma decode_head : forall alpha a, a <> [] -> Forall (fun c => In c alpha) a ->
  ~ In 58 alpha -> ~ In 38 alpha -> ~ In 92 alpha -> re_match re_BoolRegex a = false ->
  (re_match re_Uint64Regex a || re_match re_DecimalRegex a || re_match re_HexRegex a || re_match re_OctRegex a ||
   re_match re_BinaryRegex a || re_match re_FloatRegex a = true) ->
  decode_atom a =
    if re_match re_Uint64Regex a then Some (mkTok TUint64 a)
    else if re_match re_DecimalRegex a then Some (mkTok TDecimal a)
    else if re_match re_HexRegex a then Some (mkTok THex (skipn 2 a))
    else if re_match re_OctRegex a then Some (mkTok TOct (skipn 2 a))
    else if re_match re_BinaryRegex a then Some (mkTok TBinary (skipn 2 a))
    else if re_match re_FloatRegex a then Some (mkTok TFloat a)
    else None.
Proof.
  intros alpha a Hne F N58 N38 N92 Hb Hsome. unfold decode_atom.
  assert (last_rune a =? 58 = false) as Hl.
  { apply Z.eqb_neq. intros E. apply N58. rewrite <- E. apply last_in; assumption. }
  rewrite Hl. cbv beta zeta iota. destruct a as [|c a']; [congruence|]. inversion F; subst.
  cbn [list_eqb].
  replace (c =? 38) with false by (symmetry; apply Z.eqb_neq; intros E; apply N38; rewrite <- E; assumption).
  replace (c =? 92) with false by (symmetry; apply Z.eqb_neq; intros E; apply N92; rewrite <- E; assumption).
  cbn [andb]. rewrite Hb.
  destruct (re_match re_Uint64Regex (c :: a')); [reflexivity|].
  destruct (re_match re_DecimalRegex (c :: a')); [reflexivity|].
  destruct (re_match re_HexRegex (c :: a')); [reflexivity|].
  destruct (re_match re_OctRegex (c :: a')); [reflexivity|].
  destruct (re_match re_BinaryRegex (c :: a')); [reflexivity|].
  destruct (re_match re_FloatRegex (c :: a')); [reflexivity|]. discriminate Hsome.
Qed.

Ltac notin := simpl; intros HH; repeat (destruct HH as [HH|HH]; [discriminate HH|]); exact HH.

(* -- decimal with sign and underscores -- *)
Lemma cert_bool_K : no_match_cert re_BoolRegex (states_of re_BoolRegex alphaK 3) alphaK = true.
Proof. vm_compute. reflexivity. Qed.
Lemma cert_u64_K : no_match_cert re_Uint64Regex (states_of re_Uint64Regex alphaK 3) alphaK = true.
Proof. vm_compute. reflexivity. Qed.

Theorem classify_dec : forall sg c ip, sign_ok sg -> digit c -> Forall dig_ ip ->
  decode_atom (sg ++ c :: ip) = Some (mkTok TDecimal (sg ++ c :: ip)).
Proof.
  intros sg c ip Hs Hc Hi.
  assert (Forall (fun x => In x alphaK) (sg ++ c :: ip)) as F
    by (apply Forall_app; split; [apply sign_inK; assumption|constructor; [apply dig__inK; left; assumption|apply Forall_dig_K; assumption]]).
  assert (sg ++ c :: ip <> []) as Hne by (destruct sg; discriminate).
  assert (re_match re_DecimalRegex (sg ++ c :: ip) = true) as Hx by (apply dec_U; assumption).
  rewrite (decode_head alphaK) by (try assumption; try notin; try (apply (no_match _ _ _ cert_bool_K); assumption); rewrite Hx, !orb_true_r; reflexivity).
  rewrite (no_match _ _ _ cert_u64_K) by assumption. rewrite Hx. reflexivity.
Qed.

(* -- hex / octal / binary -- *)
Definition alphaH : list Z := digits10 ++ [65; 66; 67; 68; 69; 70; 97; 98; 99; 100; 101; 102; 120; 111; 85; 76].

Lemma hexd_inH : forall c, hexd c -> In c alphaH.
Proof.
  intros c [H|[H|H]].
  - apply in_or_app; left. apply digit_in10. exact H.
  - apply in_or_app; right.
    assert (c = 65 \/ c = 66 \/ c = 67 \/ c = 68 \/ c = 69 \/ c = 70) as HH by lia.
    repeat (destruct HH as [HH|HH]); subst; simpl; tauto.
  - apply in_or_app; right.
    assert (c = 97 \/ c = 98 \/ c = 99 \/ c = 100 \/ c = 101 \/ c = 102) as HH by lia.
    repeat (destruct HH as [HH|HH]); subst; simpl; tauto.
Qed.
Lemma Forall_hexd_H : forall w, Forall hexd w -> Forall (fun c => In c alphaH) w.
Proof. intros w F. eapply Forall_impl; [|exact F]. exact hexd_inH. Qed.

Lemma cert_bool_H : no_match_cert re_BoolRegex (states_of re_BoolRegex alphaH 5) alphaH = true.
Proof. vm_compute. reflexivity. Qed.

Lemma two_kill : forall R a b w, deriv false b (deriv true a R) = Empty -> re_match R (a :: b :: w) = false.
Proof. intros R a b w H. rewrite re_match_cons, matches_cons, H. apply matches_Empty. Qed.

(* Uint64Regex needs the suffix ULL: nothing that ends in a hex digit matches *)
Definition alphaHx : list Z := digits10 ++ [65; 66; 67; 68; 69; 70; 97; 98; 99; 100; 101; 102; 120; 111].
Lemma cert_u64_Hx : no_match_cert re_Uint64Regex (states_of re_Uint64Regex alphaHx 4) alphaHx = true.
Proof. vm_compute. reflexivity. Qed.
Lemma hexd_inHx : forall c, hexd c -> In c alphaHx.
Proof.
  intros c [H|[H|H]].
  - apply in_or_app; left. apply digit_in10. exact H.
  - apply in_or_app; right.
    assert (c = 65 \/ c = 66 \/ c = 67 \/ c = 68 \/ c = 69 \/ c = 70) as HH by lia.
    repeat (destruct HH as [HH|HH]); subst; simpl; tauto.
  - apply in_or_app; right.
    assert (c = 97 \/ c = 98 \/ c = 99 \/ c = 100 \/ c = 101 \/ c = 102) as HH by lia.
    repeat (destruct HH as [HH|HH]); subst; simpl; tauto.
Qed.

Lemma in_H : forall x, In x [120; 111; 85; 76] -> In x alphaH.
Proof. intros x H. apply in_or_app; right. simpl in *. tauto. Qed.

Lemma prefixed_common : forall p hs, (p = 120 \/ p = 111 \/ p = 98) -> hs <> [] -> Forall hexd hs ->
  let a := 48 :: p :: hs in
  a <> [] /\ Forall (fun c => In c alphaH) a /\ re_match re_BoolRegex a = false /\ re_match re_Uint64Regex a = false /\
  re_match re_DecimalRegex a = false.
Proof.
  intros p hs Hp Hne F a.
  assert (In p alphaH) as Hpin by (destruct Hp as [H|[H|H]]; subst; apply in_or_app; right; simpl; tauto).
  assert (Forall (fun c => In c alphaH) a) as Fa
    by (constructor; [apply in_or_app; left; simpl; tauto|constructor; [exact Hpin|apply Forall_hexd_H; exact F]]).
  split; [discriminate|]. split; [exact Fa|]. split; [apply (no_match _ _ _ cert_bool_H); exact Fa|].
  split.
  - apply (no_match _ _ _ cert_u64_Hx). constructor; [apply in_or_app; left; simpl; tauto|].
    constructor; [destruct Hp as [H|[H|H]]; subst; apply in_or_app; right; simpl; tauto|].
    eapply Forall_impl; [|exact F]. exact hexd_inHx.
  - apply two_kill. destruct Hp as [H|[H|H]]; subst; vm_compute; reflexivity.
Qed.

Theorem classify_hex : forall h hs, hexd h -> Forall hexd hs ->
  decode_atom (48 :: 120 :: h :: hs) = Some (mkTok THex (h :: hs)).
Proof.
  intros h hs Hh F.
  destruct (prefixed_common 120 (h :: hs)) as [Hne [Fa [Hb [Hu Hd]]]]; [auto|discriminate|constructor; assumption|].
  assert (re_match re_HexRegex (48 :: 120 :: h :: hs) = true) as Hx.
  { apply D_complete. unfold re_HexRegex. change (48 :: 120 :: h :: hs) with (([48] ++ [120]) ++ (h :: hs)).
    apply D_anch2; [apply Dcat; intros; apply D1; reflexivity|].
    apply Dplus; [apply in_Hx; assumption|apply (Forall_cls hexd); [exact in_Hx|assumption]]. }
  rewrite (decode_head alphaH) by (try assumption; try notin; rewrite Hx, !orb_true_r; reflexivity). rewrite Hu, Hd.
  rewrite Hx. reflexivity.
Qed.

Lemma octd_hexd : forall c, octd c -> hexd c. Proof. intros c H. left. unfold octd in H. lia. Qed.
Lemma bind_hexd : forall c, bind c -> hexd c. Proof. intros c [H|H]; left; lia. Qed.

Theorem classify_oct : forall h hs, octd h -> Forall octd hs ->
  decode_atom (48 :: 111 :: h :: hs) = Some (mkTok TOct (h :: hs)).
Proof.
  intros h hs Hh F.
  assert (Forall hexd (h :: hs)) as Fh by (constructor; [apply octd_hexd; assumption|eapply Forall_impl; [|exact F]; exact octd_hexd]).
  destruct (prefixed_common 111 (h :: hs)) as [Hne [Fa [Hb [Hu Hd]]]]; [auto|discriminate|exact Fh|].
  assert (forall c, octd c -> in_cls c [(48, 55)] = true) as Hin
    by (intros c Hc; unfold octd in Hc; unfold in_cls; rewrite orb_false_r; apply andb_true_iff; split; apply Z.leb_le; lia).
  assert (re_match re_OctRegex (48 :: 111 :: h :: hs) = true) as Hx.
  { apply D_complete. unfold re_OctRegex. change (48 :: 111 :: h :: hs) with (([48] ++ [111]) ++ (h :: hs)).
    apply D_anch2; [apply Dcat; intros; apply D1; reflexivity|].
    apply Dplus; [apply Hin; assumption|apply (Forall_cls octd); [exact Hin|assumption]]. }
  rewrite (decode_head alphaH) by (try assumption; try notin; rewrite Hx, !orb_true_r; reflexivity). rewrite Hu, Hd.
  rewrite (two_kill re_HexRegex 48 111) by (vm_compute; reflexivity).
  rewrite Hx. reflexivity.
Qed.

Theorem classify_bin : forall h hs, bind h -> Forall bind hs ->
  decode_atom (48 :: 98 :: h :: hs) = Some (mkTok TBinary (h :: hs)).
Proof.
  intros h hs Hh F.
  assert (Forall hexd (h :: hs)) as Fh by (constructor; [apply bind_hexd; assumption|eapply Forall_impl; [|exact F]; exact bind_hexd]).
  destruct (prefixed_common 98 (h :: hs)) as [Hne [Fa [Hb [Hu Hd]]]]; [auto|discriminate|exact Fh|].
  assert (forall c, bind c -> in_cls c [(48, 49)] = true) as Hin
    by (intros c [Hc|Hc]; subst; reflexivity).
  assert (re_match re_BinaryRegex (48 :: 98 :: h :: hs) = true) as Hx.
  { apply D_complete. unfold re_BinaryRegex. change (48 :: 98 :: h :: hs) with (([48] ++ [98]) ++ (h :: hs)).
    apply D_anch2; [apply Dcat; intros; apply D1; reflexivity|].
    apply Dplus; [apply Hin; assumption|apply (Forall_cls bind); [exact Hin|assumption]]. }
  rewrite (decode_head alphaH) by (try assumption; try notin; rewrite Hx, !orb_true_r; reflexivity). rewrite Hu, Hd.
  rewrite (two_kill re_HexRegex 48 98) by (vm_compute; reflexivity).
  rewrite (two_kill re_OctRegex 48 98) by (vm_compute; reflexivity).
  rewrite Hx. reflexivity.
Qed.

(* -- the ULL suffix, with an optional 0x / 0o prefix -- *)
Definition upre_ok (pre : list Z) : Prop := pre = [] \/ pre = [48; 120] \/ pre = [48; 111].

Theorem classify_ull : forall pre h hs, upre_ok pre -> hexd h -> Forall hexd hs ->
  decode_atom (pre ++ (h :: hs) ++ str_ULL) = Some (mkTok TUint64 (pre ++ (h :: hs) ++ str_ULL)).
Proof.
  intros pre h hs Hp Hh F.
  assert (Forall (fun c => In c alphaH) (pre ++ (h :: hs) ++ str_ULL)) as Fa.
  { apply Forall_app; split.
    - destruct Hp as [H|[H|H]]; subst; repeat constructor; try (apply in_or_app; left; simpl; tauto); apply in_H; simpl; tauto.
    - apply Forall_app; split; [constructor; [apply hexd_inH; assumption|apply Forall_hexd_H; assumption]|].
      repeat constructor; apply in_H; simpl; tauto. }
  assert (pre ++ (h :: hs) ++ str_ULL <> []) as Hne by (destruct pre; discriminate).
  assert (re_match re_Uint64Regex (pre ++ (h :: hs) ++ str_ULL) = true) as Hx.
  { apply D_complete. unfold re_Uint64Regex. apply D_anch3.
    - destruct Hp as [H|[H|H]]; subst; intros; [apply Dopt_none| |];
        (apply Dopt_some; change [48; 120] with ([48] ++ [120]); change [48; 111] with ([48] ++ [111]);
         apply Dcat; intros; apply D1; reflexivity).
    - apply Dplus; [apply in_Hx; assumption|apply (Forall_cls hexd); [exact in_Hx|assumption]].
    - change str_ULL with ([85] ++ ([76] ++ [76])). apply Dcat; [intros; apply D1; reflexivity|].
      apply Dcat; intros; apply D1; reflexivity. }
  rewrite (decode_head alphaH) by (try assumption; try notin; try (apply (no_match _ _ _ cert_bool_H); assumption); rewrite Hx; reflexivity).
  rewrite Hx. reflexivity.
Qed.
