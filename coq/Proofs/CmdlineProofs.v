From Coq Require Import List Bool.
Require Import ZV.Model.Cmdline.
Import ListNotations.

Lemma scan_flags_sb : forall pre s tail, forallb is_flag pre = true ->
  exists s', scan s (pre ++ tail) = scan s' tail /\ sandboxed_flag s' = last_sandbox (sandboxed_flag s) pre.
Proof.
  induction pre as [|a pre IH]; intros s tail H; simpl in *.
  - exists s. split; reflexivity.
  - apply andb_prop in H. destruct H as [Ha H].
    destruct a as [v|b|b| |[]|[]| | |]; simpl in Ha; try discriminate; simpl;
      match goal with |- exists s', scan ?s0 _ = _ /\ _ => destruct (IH s0 tail H) as [s' [E1 E2]]; exists s'; split; [exact E1 | exact E2] end.
Qed.

(* a command line whose flag part ends up with the sandbox flag on runs sandboxed, whatever follows *)
Theorem sandbox_flag_decides : forall pre post, forallb is_flag pre = true ->
  run_cmdline (pre ++ APlain :: post) = (if last_sandbox false pre then OSandboxed else OOpen) /\
  run_cmdline (pre ++ ADashDash :: post) = (if last_sandbox false pre then OSandboxed else OOpen) /\
  run_cmdline pre = (if last_sandbox false pre then OSandboxed else OOpen).
Proof.
  intros pre post H. unfold run_cmdline, kind_of. repeat split.
  - destruct (scan_flags_sb pre st0 (APlain :: post) H) as [s' [E1 E2]]. rewrite E1. simpl. rewrite E2. reflexivity.
  - destruct (scan_flags_sb pre st0 (ADashDash :: post) H) as [s' [E1 E2]]. rewrite E1. simpl. rewrite E2. reflexivity.
  - destruct (scan_flags_sb pre st0 [] H) as [s' [E1 E2]]. rewrite app_nil_r in E1. rewrite E1. simpl. rewrite E2. reflexivity.
Qed.

(* whatever follows the script name (or "--") cannot change the outcome *)
Theorem args_after_script_irrelevant : forall pre post post', forallb is_flag pre = true ->
  run_cmdline (pre ++ APlain :: post) = run_cmdline (pre ++ APlain :: post') /\
  run_cmdline (pre ++ ADashDash :: post) = run_cmdline (pre ++ ADashDash :: post').
Proof.
  intros pre post post' H.
  destruct (sandbox_flag_decides pre post H) as [A [B _]].
  destruct (sandbox_flag_decides pre post' H) as [A' [B' _]].
  split; congruence.
Qed.

(* a flag that takes its value from the next argument swallows it, even if it looks like -sandbox=false *)
Theorem value_is_not_a_flag : forall pre a post, forallb is_flag pre = true ->
  run_cmdline (pre ++ AStr false :: a :: post) = run_cmdline (pre ++ post).
Proof.
  intros pre a post H. unfold run_cmdline.
  assert (G : forall s tail1 tail2, (forall s', scan s' tail1 = scan s' tail2) -> scan s (pre ++ tail1) = scan s (pre ++ tail2)).
  { clear a post. induction pre as [|x pre IH]; intros s t1 t2 E; simpl; [apply E|].
    simpl in H. apply andb_prop in H. destruct H as [Hx H].
    destruct x as [v|b|b| |[]|[]| | |]; simpl in Hx; try discriminate; apply (IH H); exact E. }
  rewrite (G st0 (AStr false :: a :: post) post); [reflexivity|]. intros s'. reflexivity.
Qed.

(* an undefined flag in the flag part rejects the command line: nothing runs *)
Theorem bad_flag_rejects : forall pre post, forallb is_flag pre = true ->
  run_cmdline (pre ++ ABad :: post) = ORejected.
Proof.
  intros pre post H. unfold run_cmdline.
  destruct (scan_flags_sb pre st0 (ABad :: post) H) as [s' [E1 _]]. rewrite E1. reflexivity.
Qed.

(* EVERY phase of a session -- the command, the script, the repl a failed script drops into, the repl after
   -i, the plain repl -- runs on an interpreter of the kind the command line asked for *)
Theorem session_one_interpreter : forall l fails phs ph k,
  session l fails = Some phs -> In (ph, k) phs -> k = run_cmdline l.
Proof.
  intros l fails phs ph k H Hin. unfold session in H. unfold run_cmdline.
  destruct (scan st0 l) as [|s rest]; [discriminate|]. inversion H; subst phs. clear H.
  apply in_map_iff in Hin. destruct Hin as [x [E _]]. inversion E. reflexivity.
Qed.

Theorem session_sandboxed : forall pre post fails phs ph k, forallb is_flag pre = true ->
  last_sandbox false pre = true ->
  session (pre ++ APlain :: post) fails = Some phs -> In (ph, k) phs -> k = OSandboxed.
Proof.
  intros pre post fails phs ph k H Hl Hs Hin.
  rewrite (session_one_interpreter _ _ _ _ _ Hs Hin).
  destruct (sandbox_flag_decides pre post H) as [A _]. rewrite A, Hl. reflexivity.
Qed.

(* a script that fails without -exitonfail is followed by a repl; the session says so (non-vacuity of the phase) *)
Example failed_script_drops_into_repl :
  session [ASandbox None; ABool; APlain] true = Some [(PhScript, OSandboxed); (PhReplAfterFailedScript, OSandboxed)].
Proof. reflexivity. Qed.
