From Coq Require Import List Bool.
Require Import ZV.Model.Cmdline.
Import ListNotations.

Lemma scan_flags : forall pre s tail, forallb is_flag pre = true ->
  scan s (pre ++ tail) = scan {| sandboxed_flag := last_sandbox (sandboxed_flag s) pre |} tail.
Proof.
  induction pre as [|a pre IH]; intros s tail H; simpl in *.
  - destruct s. reflexivity.
  - apply andb_prop in H. destruct H as [Ha H].
    destruct a as [v| |[]| | |]; simpl in Ha; try discriminate; simpl.
    + rewrite (IH _ tail H). reflexivity.
    + rewrite (IH s tail H). reflexivity.
    + rewrite (IH s tail H). reflexivity.
Qed.

(* whatever follows the script name (or "--") cannot change the outcome *)
Theorem args_after_script_irrelevant : forall pre post post', forallb is_flag pre = true ->
  run_cmdline (pre ++ APlain :: post) = run_cmdline (pre ++ APlain :: post') /\
  run_cmdline (pre ++ ADashDash :: post) = run_cmdline (pre ++ ADashDash :: post').
Proof.
  intros pre post post' H. unfold run_cmdline. split; rewrite !(scan_flags pre _ _ H); reflexivity.
Qed.

(* a command line whose flag part ends up with the sandbox flag on runs sandboxed, whatever follows *)
Theorem sandbox_flag_decides : forall pre post, forallb is_flag pre = true ->
  run_cmdline (pre ++ APlain :: post) = (if last_sandbox false pre then OSandboxed else OOpen) /\
  run_cmdline (pre ++ ADashDash :: post) = (if last_sandbox false pre then OSandboxed else OOpen) /\
  run_cmdline pre = (if last_sandbox false pre then OSandboxed else OOpen).
Proof.
  intros pre post H. unfold run_cmdline. repeat split.
  - rewrite (scan_flags pre _ _ H). reflexivity.
  - rewrite (scan_flags pre _ _ H). reflexivity.
  - rewrite <- (app_nil_r pre) at 1. rewrite (scan_flags pre _ _ H). reflexivity.
Qed.

(* a flag that takes its value from the next argument swallows it, even if it looks like -sandbox=false *)
Theorem value_is_not_a_flag : forall pre a post, forallb is_flag pre = true ->
  run_cmdline (pre ++ AStr false :: a :: post) = run_cmdline (pre ++ post).
Proof.
  intros pre a post H. unfold run_cmdline. rewrite !(scan_flags pre _ _ H). reflexivity.
Qed.

(* an undefined flag in the flag part rejects the command line: nothing runs *)
Theorem bad_flag_rejects : forall pre post, forallb is_flag pre = true ->
  run_cmdline (pre ++ ABad :: post) = ORejected.
Proof.
  intros pre post H. unfold run_cmdline. rewrite (scan_flags pre _ _ H). reflexivity.
Qed.
