(* Proofs about the abstract control-state machine of Model/CtrlState.v (C05, part 4):
   after an error at ANY nesting depth of re-entries the control state is the one of the
   top-level entry (stack contents, current function, loop depth; pc parked at the end). *)
From Coq Require Import ZArith Bool List Lia.
Require Import ZV.Model.CtrlState.
Import ListNotations.

(* ---- nested induction principle for act ---- *)
Section ActInd.
  Variable P : act -> Prop.
  Hypothesis Hpush : forall k x, P (APush k x).
  Hypothesis Hpop : forall k, P (APop k).
  Hypothesis Hjump : forall f p, P (AJump f p).
  Hypothesis Hfail : P AFail.
  Hypothesis Hre : forall k c body, Forall P body -> P (AReenter k c body).
  Hypothesis Hgen : forall body, Forall P body -> P (AGenLoop body).

  Fixpoint act_ind2 (a : act) : P a :=
    match a with
    | APush k x => Hpush k x
    | APop k => Hpop k
    | AJump f p => Hjump f p
    | AFail => Hfail
    | AReenter k c body =>
      Hre k c body ((fix go (l : list act) : Forall P l :=
                       match l with
                       | [] => Forall_nil P
                       | x :: r => Forall_cons x (act_ind2 x) (go r)
                       end) body)
    | AGenLoop body =>
      Hgen body ((fix go (l : list act) : Forall P l :=
                    match l with
                    | [] => Forall_nil P
                    | x :: r => Forall_cons x (act_ind2 x) (go r)
                    end) body)
    end.
End ActInd.

(* the list evaluator nested inside exec is exec_list *)
Lemma inner_exec_list : forall l base c,
  (fix exec_list (base : saved) (l : list act) (c : ctrl) {struct l} : out :=
     match l with
     | [] => OK c
     | a :: r => match exec base a c with
                 | OK c1 => exec_list base r c1
                 | o => o
                 end
     end) base l c = exec_list base l c.
Proof.
  intros l base c. reflexivity.
Qed.

(* ---- truncation ---- *)
Lemma trunc_app : forall (e b : list Z), trunc (length b) (e ++ b) = b.
Proof.
  intros e b. unfold trunc. rewrite app_length.
  replace (length e + length b - length b)%nat with (length e) by lia.
  rewrite skipn_app, skipn_all, Nat.sub_diag. reflexivity.
Qed.

Lemma trunc_app_cons : forall (e b : list Z) x, trunc (length b) (e ++ x :: b) = b.
Proof.
  intros e b x. change (e ++ x :: b) with (e ++ [x] ++ b). rewrite app_assoc. apply trunc_app.
Qed.

Lemma trunc_cons : forall (b : list Z) x, trunc (length b) (x :: b) = b.
Proof. intros b x. apply (trunc_app_cons [] b x). Qed.

Lemma trunc_self : forall b : list Z, trunc (length b) b = b.
Proof. intros b. apply (trunc_app [] b). Qed.

(* ---- the invariant: the stacks of c extend those of c0; loop depth equal ---- *)
Definition above (c0 c : ctrl) : Prop :=
  exists ed es ea, dstk c = ed ++ dstk c0 /\ sstk c = es ++ sstk c0 /\ astk c = ea ++ astk c0.

Definition same_stacks (c0 c : ctrl) : Prop :=
  dstk c = dstk c0 /\ sstk c = sstk c0 /\ astk c = astk c0.

Lemma above_refl : forall c, above c c.
Proof. intros c. exists [], [], []. auto. Qed.

Lemma above_trans : forall a b c, above a b -> above b c -> above a c.
Proof.
  intros a b c (d1 & s1 & a1 & H1 & H2 & H3) (d2 & s2 & a2 & H4 & H5 & H6).
  exists (d2 ++ d1), (s2 ++ s1), (a2 ++ a1).
  rewrite H4, H5, H6, H1, H2, H3, !app_assoc. auto.
Qed.

Lemma same_above : forall c0 c c', same_stacks c c' -> above c0 c -> above c0 c'.
Proof.
  intros c0 c c' (H1 & H2 & H3) (d & s & a & H4 & H5 & H6).
  exists d, s, a. rewrite H1, H2, H3. auto.
Qed.

Lemma restore_above : forall c1 c2, above c1 c2 -> same_stacks c1 (restore (capture c1) c2).
Proof.
  intros c1 c2 (d & s & a & H1 & H2 & H3). unfold same_stacks, restore, capture. simpl.
  rewrite H1, H2, H3, !trunc_app. auto.
Qed.

Definition sizes_of (base : saved) (c0 : ctrl) : Prop :=
  v_d base = length (dstk c0) /\ v_s base = length (sstk c0) /\ v_a base = length (astk c0).

Lemma sizes_capture : forall c, sizes_of (capture c) c.
Proof. intros c. unfold sizes_of, capture. simpl. auto. Qed.

(* what one step guarantees *)
Definition good (base : saved) (c0 c : ctrl) (o : out) : Prop :=
  match o with
  | OK c' | Err c' => above c0 c' /\ ldepth c' = ldepth c
  | Crash => True
  end.

Definition step_ok (a : act) : Prop :=
  forall base c0 c, sizes_of base c0 -> above c0 c -> good base c0 c (exec base a c).

Lemma exec_list_ok : forall l, Forall step_ok l ->
  forall base c0 c, sizes_of base c0 -> above c0 c -> good base c0 c (exec_list base l c).
Proof.
  induction l as [|a r IH]; intros HF base c0 c Hs Ha; simpl.
  - split; [assumption|reflexivity].
  - inversion HF as [|x y Hx Hy]; subst.
    specialize (Hx base c0 c Hs Ha). destruct (exec base a c) as [c1|c1|]; simpl in *; try assumption.
    destruct Hx as [Ha1 Hl1].
    specialize (IH Hy base c0 c1 Hs Ha1).
    destruct (exec_list base r c1); simpl in *; try assumption; destruct IH; split; congruence.
Qed.

(* a Run frame entered at c1: on error everything is as at c1 (pc parked), on success above c1 *)
Lemma run_frame : forall body, Forall step_ok body -> forall c1,
  match exec_list (capture c1) body c1 with
  | OK c2 => above c1 c2 /\ ldepth c2 = ldepth c1
  | Err c2 => same_stacks c1 (restore (capture c1) c2) /\ ldepth c2 = ldepth c1
  | Crash => True
  end.
Proof.
  intros body HF c1.
  pose proof (exec_list_ok body HF (capture c1) c1 c1 (sizes_capture c1) (above_refl c1)) as H.
  destruct (exec_list (capture c1) body c1); simpl in *; try assumption.
  destruct H as [Ha Hl]. split; [apply restore_above; assumption|assumption].
Qed.

Lemma pop_above : forall k base c0 c, sizes_of base c0 -> above c0 c ->
  Nat.leb (length (get k c)) (size_of k base) = false -> above c0 (put k (tl (get k c)) c).
Proof.
  intros k base c0 c (Sd & Ss & Sa) (d & s & a & H1 & H2 & H3) Hlt.
  apply Nat.leb_gt in Hlt.
  destruct k; simpl in *.
  - rewrite H1, Sd, app_length in Hlt. destruct d as [|x d]; simpl in *; [lia|].
    exists d, s, a. simpl. rewrite H1. simpl. auto.
  - rewrite H2, Ss, app_length in Hlt. destruct s as [|x s]; simpl in *; [lia|].
    exists d, s, a. simpl. rewrite H2. simpl. auto.
  - rewrite H3, Sa, app_length in Hlt. destruct a as [|x a]; simpl in *; [lia|].
    exists d, s, a. simpl. rewrite H3. simpl. auto.
Qed.

Lemma push_above : forall k x c0 c, above c0 c -> above c0 (put k (x :: get k c) c).
Proof.
  intros k x c0 c (d & s & a & H1 & H2 & H3). destruct k; simpl.
  - exists (x :: d), s, a. simpl. rewrite H1. auto.
  - exists d, (x :: s), a. simpl. rewrite H2. auto.
  - exists d, s, (x :: a). simpl. rewrite H3. auto.
Qed.

Lemma put_ldepth : forall k l c, ldepth (put k l c) = ldepth c.
Proof. destruct k; reflexivity. Qed.

(* the state a re-entry of kind KCaptured / KUser hands back on error: exactly the state at its entry *)
Definition same_ctrl (c c' : ctrl) : Prop :=
  same_stacks c c' /\ cur c' = cur c /\ pc c' = pc c /\ ldepth c' = ldepth c.

Lemma restore_outer : forall c c1 c2, astk c1 = (pc c + 1)%Z :: astk c -> dstk c1 = dstk c -> sstk c1 = sstk c ->
  same_stacks c1 c2 -> same_stacks c (restore (capture c) c2).
Proof.
  intros c c1 c2 Ha Hd Hs (H1 & H2 & H3). unfold same_stacks, restore, capture. simpl.
  rewrite H1, H2, H3, Hd, Hs, Ha, !trunc_self.
  split; [reflexivity|split; [reflexivity|]].
  apply trunc_cons.
Qed.

Theorem all_steps_ok : forall a, step_ok a.
Proof.
  apply act_ind2; unfold step_ok.
  - intros k x base c0 c Hs Ha. simpl. split; [apply push_above; assumption|apply put_ldepth].
  - intros k base c0 c Hs Ha. simpl.
    destruct (Nat.leb (length (get k c)) (size_of k base)) eqn:E; simpl; [exact I|].
    split; [eapply pop_above; eassumption|apply put_ldepth].
  - intros f p base c0 c Hs Ha. simpl. split; [|reflexivity].
    destruct Ha as (d & s & a & H1 & H2 & H3). exists d, s, a. simpl. auto.
  - intros base c0 c Hs Ha. simpl. split; [assumption|reflexivity].
  - (* AReenter *)
    intros k catch body HF base c0 c Hs Ha.
    destruct k; simpl; rewrite !inner_exec_list.
    + (* KCaptured *)
      set (c1 := call_function 7 (jump (cur c) (-2) c)).
      pose proof (run_frame body HF c1) as HR.
      destruct (exec_list (capture c1) body c1) as [c2|c2|]; simpl.
      * destruct HR as [Hab Hl]. split.
        -- apply same_above with (c := c); [|assumption].
           destruct Hab as (d & s & a & H1 & H2 & H3).
           unfold same_stacks, restore, capture. simpl. rewrite H1, H2, H3. subst c1. simpl.
           rewrite !trunc_app. split; [reflexivity|split; [reflexivity|]].
           apply trunc_app_cons.
        -- simpl. rewrite Hl. reflexivity.
      * destruct HR as [Hss Hl].
        assert (Hsame : same_stacks c (restore (capture c) (jump (v_cur (capture c1)) fsize (restore (capture c1) c2)))).
        { destruct Hss as (H1 & H2 & H3). unfold same_stacks, restore, capture, jump in *. simpl in *.
          rewrite H1, H2, H3. subst c1. simpl. rewrite !trunc_self.
          split; [reflexivity|split; [reflexivity|]].
          apply trunc_cons. }
        destruct catch; simpl; (split; [eapply same_above; eassumption|simpl; rewrite Hl; reflexivity]).
      * destruct catch; exact I.
    + (* KUser *)
      set (c1 := jump 8 (-1) (mkCtrl (dstk c) (sstk c) ((pc c + 1)%Z :: astk c) (ldepth c) (cur c) (pc c))).
      pose proof (exec_list_ok body HF (capture c1) c1 c1 (sizes_capture c1) (above_refl c1)) as HR.
      unfold good in HR.
      destruct (exec_list (capture c1) body c1) as [c2|c2|]; simpl; cbv beta iota in HR.
      * destruct HR as [Hab Hl]. split; [|simpl; rewrite Hl; reflexivity].
        apply same_above with (c := c); [|assumption].
        destruct Hab as (d & s & a & H1 & H2 & H3).
        unfold same_stacks, restore, capture, jump. simpl. rewrite H1, H2, H3. subst c1. simpl.
        rewrite !trunc_app. split; [reflexivity|split; [reflexivity|]].
        apply trunc_app_cons.
      * destruct HR as [Hab Hl].
        assert (Hsame : same_stacks c (restore (capture c) c2)).
        { destruct Hab as (d & s & a & H1 & H2 & H3).
          unfold same_stacks, restore, capture. simpl. rewrite H1, H2, H3. subst c1. simpl.
          rewrite !trunc_app. split; [reflexivity|split; [reflexivity|]].
          apply trunc_app_cons. }
        destruct catch; simpl; (split; [eapply same_above; eassumption|simpl; rewrite Hl; reflexivity]).
      * destruct catch; exact I.
    + (* KEvalFn: capture; CallFunction; Run; restore on error *)
      set (c1 := call_function 9 c).
      pose proof (run_frame body HF c1) as HR.
      assert (Hc1 : above c0 c1).
      { apply above_trans with (b := c); [assumption|]. exists [], [], [(pc c + 1)%Z]. subst c1. simpl. auto. }
      destruct (exec_list (capture c1) body c1) as [c2|c2|]; simpl.
      * destruct HR as [Hab Hl]. split; [|simpl; rewrite Hl; reflexivity].
        pose proof (above_trans _ _ _ Hc1 Hab) as (d & s & a & H1 & H2 & H3). exists d, s, a. simpl. auto.
      * destruct HR as [Hss Hl].
        assert (Hsame : same_stacks c (restore (capture c) (jump (v_cur (capture c1)) fsize (restore (capture c1) c2)))).
        { destruct Hss as (H1 & H2 & H3). unfold same_stacks, restore, capture, jump in *. simpl in *.
          rewrite H1, H2, H3. subst c1. simpl. rewrite !trunc_self.
          split; [reflexivity|split; [reflexivity|]].
          apply trunc_cons. }
        destruct catch; simpl; (split; [eapply same_above; eassumption|simpl; rewrite Hl; reflexivity]).
      * destruct catch; exact I.
    + (* KSource: Run restores the stacks by itself (nothing is pushed before it); the defer puts cur / pc back *)
      set (c1 := jump 10 0 c).
      pose proof (run_frame body HF c1) as HR.
      assert (Hc1 : above c0 c1).
      { destruct Ha as (d & s & a & H1 & H2 & H3). exists d, s, a. subst c1. simpl. auto. }
      destruct (exec_list (capture c1) body c1) as [c2|c2|]; simpl.
      * destruct HR as [Hab Hl]. split; [|simpl; rewrite Hl; reflexivity].
        pose proof (above_trans _ _ _ Hc1 Hab) as (d & s & a & H1 & H2 & H3).
        exists (0%Z :: d), s, a. simpl. rewrite H1, H2, H3. auto.
      * destruct HR as [Hss Hl].
        assert (Hab : above c0 (jump (cur c) (pc c) (jump (v_cur (capture c1)) fsize (restore (capture c1) c2)))).
        { destruct Hss as (H1 & H2 & H3). destruct Hc1 as (d & s & a & H4 & H5 & H6).
          exists d, s, a. simpl in *. rewrite H1, H2, H3. auto. }
        destruct catch; simpl; (split; [assumption|simpl; rewrite Hl; reflexivity]).
      * destruct catch; exact I.
  - (* AGenLoop *)
    intros body HF base c0 c Hs Ha. simpl. rewrite inner_exec_list.
    set (c1 := mkCtrl (dstk c) (sstk c) (astk c) (S (ldepth c)) (cur c) (pc c)).
    assert (Ha1 : above c0 c1) by (destruct Ha as (d & s & a & H1 & H2 & H3); exists d, s, a; auto).
    pose proof (exec_list_ok body HF base c0 c1 Hs Ha1) as HR.
    destruct (exec_list base body c1) as [c2|c2|]; simpl in *; try exact I;
      destruct HR as [(d & s & a & H1 & H2 & H3) Hl]; (split; [exists d, s, a; auto|simpl; rewrite Hl; reflexivity]).
Qed.

Lemma all_ok_list : forall l, Forall step_ok l.
Proof. induction l; constructor; [apply all_steps_ok|assumption]. Qed.

(* (4) after an error at any nesting depth, the control state is the one of the top-level entry *)
Theorem rest_after_error_proof : forall body c c',
  run_top body c = Err c' ->
  dstk c' = dstk c /\ sstk c' = sstk c /\ astk c' = astk c /\ ldepth c' = ldepth c
  /\ cur c' = cur c /\ pc c' = fsize.
Proof.
  intros body c c' H. unfold run_top in H.
  pose proof (run_frame body (all_ok_list body) c) as HR.
  destruct (exec_list (capture c) body c) as [c2|c2|]; try discriminate.
  inversion H; subst; clear H. destruct HR as [(H1 & H2 & H3) Hl]. simpl in *.
  repeat split; assumption.
Qed.

(* depths only: the four numbers env.VerifDepths() reports *)
Corollary depths_after_error_proof : forall body c c',
  run_top body c = Err c' ->
  (length (dstk c'), length (sstk c'), length (astk c'), ldepth c')
  = (length (dstk c), length (sstk c), length (astk c), ldepth c).
Proof.
  intros body c c' H. destruct (rest_after_error_proof body c c' H) as (H1 & H2 & H3 & H4 & _).
  rewrite H1, H2, H3, H4. reflexivity.
Qed.

(* the local contract of EVERY re-entry: on error the caller gets back exactly the state it had *)
Theorem reentry_restores_proof : forall k body base c c',
  exec base (AReenter k false body) c = Err c' -> same_ctrl c c'.
Proof.
  intros k body base c c' H. destruct k; simpl in H; rewrite !inner_exec_list in H.
  - set (c1 := call_function 7 (jump (cur c) (-2) c)) in *.
    pose proof (run_frame body (all_ok_list body) c1) as HR.
    destruct (exec_list (capture c1) body c1) as [c2|c2|]; try discriminate.
    inversion H; subst c'; clear H. destruct HR as [(H1 & H2 & H3) Hl].
    unfold same_ctrl, same_stacks, restore, capture, jump in *. simpl in *.
    rewrite H1, H2, H3. subst c1. simpl. rewrite !trunc_self.
    repeat split; try assumption. apply trunc_cons.
  - set (c1 := jump 8 (-1) (mkCtrl (dstk c) (sstk c) ((pc c + 1)%Z :: astk c) (ldepth c) (cur c) (pc c))) in *.
    pose proof (exec_list_ok body (all_ok_list body) (capture c1) c1 c1 (sizes_capture c1) (above_refl c1)) as HR.
    unfold good in HR.
    destruct (exec_list (capture c1) body c1) as [c2|c2|]; try discriminate.
    inversion H; subst c'; clear H. cbv beta iota in HR. destruct HR as [(d & s & a & H1 & H2 & H3) Hl].
    unfold same_ctrl, same_stacks, restore, capture. simpl. rewrite H1, H2, H3. subst c1. simpl in *.
    rewrite !trunc_app. repeat split; try assumption.
    apply trunc_app_cons.
  - set (c1 := call_function 9 c) in *.
    pose proof (run_frame body (all_ok_list body) c1) as HR.
    destruct (exec_list (capture c1) body c1) as [c2|c2|]; try discriminate.
    inversion H; subst c'; clear H. destruct HR as [(H1 & H2 & H3) Hl].
    unfold same_ctrl, same_stacks, restore, capture, jump in *. simpl in *.
    rewrite H1, H2, H3. subst c1. simpl. rewrite !trunc_self.
    repeat split; try assumption. apply trunc_cons.
  - set (c1 := jump 10 0 c) in *.
    pose proof (run_frame body (all_ok_list body) c1) as HR.
    destruct (exec_list (capture c1) body c1) as [c2|c2|]; try discriminate.
    inversion H; subst c'; clear H. destruct HR as [(H1 & H2 & H3) Hl].
    unfold same_ctrl, same_stacks, restore, capture, jump in *. simpl in *.
    rewrite H1, H2, H3. subst c1. simpl. repeat split; try assumption.
Qed.

Lemma catch_false : forall r, catch_out false r = r.
Proof. destruct r; reflexivity. Qed.

Lemma reenter_unfold : forall k catch body base c,
  exec base (AReenter k catch body) c = catch_out catch (exec base (AReenter k false body) c).
Proof.
  intros k catch body base c. destruct k; simpl;
    match goal with |- catch_out _ ?r = _ => destruct r end; reflexivity.
Qed.

(* a host that catches the error of a re-entry continues from the state it had *)
Corollary caught_reentry_invisible_proof : forall k body base c c',
  exec base (AReenter k true body) c = OK c' ->
  (exec base (AReenter k false body) c = Err c' /\ same_ctrl c c')
  \/ exec base (AReenter k false body) c = OK c'.
Proof.
  intros k body base c c' H. rewrite reenter_unfold in H.
  destruct (exec base (AReenter k false body) c) as [c2|c2|] eqn:E; simpl in H.
  - right. assumption.
  - left. inversion H; subst. split; [reflexivity|]. eapply reentry_restores_proof; eassumption.
  - discriminate.
Qed.

Definition c_rest : ctrl := mkCtrl [] [0%Z] [] 0 1%Z 5%Z.

(* regression witness of the former finding evalfunction-no-restore (fixed in /repo by 4b37dbf):
   a failed EvalFunction now hands back the state it was entered with *)
(* SourceExpressions called at rest by the host (SourceStream / SourceFile): a failed load leaves the
   interpreter exactly as it was, pc included *)
Example source_at_rest_witness :
  exec (capture c_rest) (AReenter KSource false [APush SScope 3; APush SData 4; AJump 10 7; AFail]) c_rest = Err c_rest.
Proof. vm_compute. reflexivity. Qed.

Example evalfn_restores_witness :
  exec (capture c_rest) (AReenter KEvalFn false [AFail]) c_rest = Err c_rest.
Proof. vm_compute. reflexivity. Qed.
