(* The multiple-assignment and bindlist instructions never index the value sequence past its end,
   and when they succeed every target got the value at its own position. *)
From Coq Require Import List Bool Arith Lia.
Import ListNotations.
Require Import ZV.Model.Destructure.

Lemma assign_loop_no_crash : forall lhs rhs i acc, i + length lhs <= length rhs -> assign_loop lhs rhs i acc <> DCrash.
Proof.
  induction lhs as [|t r IH]; intros rhs i acc H; simpl. discriminate.
  destruct t. 2: discriminate.
  destruct (nth_error rhs i) eqn:E.
  - apply IH. simpl in H. lia.
  - apply nth_error_None in E. simpl in H. lia.
Qed.

Theorem assign_arrays_no_crash : forall lhs rhs, assign_arrays lhs rhs <> DCrash.
Proof.
  intros. unfold assign_arrays. destruct (length rhs =? length lhs) eqn:E; simpl. 2: discriminate.
  apply Nat.eqb_eq in E. apply assign_loop_no_crash. lia.
Qed.

Lemma bind_loop_no_crash : forall syms arr i acc, i + length syms <= length arr -> bind_loop syms arr i acc <> DCrash.
Proof.
  induction syms as [|s r IH]; intros arr i acc H; simpl. discriminate.
  destruct (nth_error arr i) eqn:E.
  - apply IH. simpl in H. lia.
  - apply nth_error_None in E. simpl in H. lia.
Qed.

Theorem bindlist_no_crash : forall syms arr, bindlist syms arr <> DCrash.
Proof.
  intros. unfold bindlist. destruct (length arr <? length syms) eqn:E. discriminate.
  apply Nat.ltb_ge in E. apply bind_loop_no_crash. lia.
Qed.

(* success binds position by position *)
Lemma assign_loop_positions : forall lhs rhs i acc b,
  assign_loop lhs rhs i acc = DOk b ->
  exists tail, b = acc ++ tail /\ length tail = length lhs /\
    forall k s v, nth_error tail k = Some (s, v) -> nth_error lhs k = Some (TSym s) /\ nth_error rhs (i + k) = Some v.
Proof.
  induction lhs as [|t r IH]; intros rhs i acc b H; simpl in H.
  - inversion H; subst. exists []. rewrite app_nil_r. split; [reflexivity | split; [reflexivity |]].
    intros k s v Hk. destruct k; discriminate.
  - destruct t as [s0|]. 2: discriminate.
    destruct (nth_error rhs i) as [v0|] eqn:E. 2: discriminate.
    destruct (IH rhs (S i) (acc ++ [(s0, v0)]) b H) as [tail [Hb [Hl Hp]]].
    exists ((s0, v0) :: tail). split; [| split].
    + rewrite Hb. rewrite <- app_assoc. reflexivity.
    + simpl. lia.
    + intros k s v Hk. destruct k; simpl in Hk.
      * inversion Hk; subst. split. reflexivity. rewrite Nat.add_0_r. exact E.
      * destruct (Hp k s v Hk) as [Hs Hv]. split. exact Hs.
        replace (i + S k) with (S i + k) by lia. exact Hv.
Qed.

Theorem assign_arrays_ok_iff : forall lhs rhs,
  (exists b, assign_arrays lhs rhs = DOk b) <->
  (length rhs = length lhs /\ Forall (fun t => t <> TNotSym) lhs).
Proof.
  intros lhs rhs. unfold assign_arrays. split.
  - intros [b H]. destruct (length rhs =? length lhs) eqn:E; simpl in H. 2: discriminate.
    apply Nat.eqb_eq in E. split. exact E.
    clear E. revert H. generalize 0 as i. generalize (@nil (nat * nat)) as acc. revert b.
    induction lhs as [|t r IH]; intros b acc i H. constructor.
    simpl in H. destruct t as [s|]. 2: discriminate.
    destruct (nth_error rhs i); try discriminate. constructor. discriminate. eapply IH; exact H.
  - intros [E F]. rewrite E, Nat.eqb_refl. simpl.
    assert (G : forall l i acc, i + length l <= length rhs -> Forall (fun t => t <> TNotSym) l -> exists b, assign_loop l rhs i acc = DOk b).
    { induction l as [|t r IH]; intros i acc Hl HF; simpl. eexists; reflexivity.
      inversion HF; subst. destruct t as [s|]. 2: congruence.
      destruct (nth_error rhs i) eqn:N. apply IH. simpl in Hl. lia. assumption.
      apply nth_error_None in N. simpl in Hl. lia. }
    apply G. lia. exact F.
Qed.
