(* Proofs for C05 over the reference evaluator (Model/RefSem.v) and its sessions (Model/ErrCont.v).

   1. fk: the failure-injection invariant.  For every evaluation, for every threshold k = fail_at:
      the counter only grows, and if it crosses k during the evaluation then the evaluation's
      result is the injected error and the counter stopped exactly at k (nothing ran afterwards
      that could call failk again).  Induction on fuel; the structure follows the `pres`
      development of Proofs/RefSemProofs.v.
   2. propagation by construct: a signal of a sub-evaluation in evaluation position is the
      result of the enclosing expression, WITH THE SAME STORE.
   3. sessions: a failed text leaves the store of the failure; later texts are evaluated from it
      (twin_equiv), every binding made before the failure is still there. *)
From Coq Require Import ZArith Bool List Lia.
Require Import ZV.Model.Num ZV.Model.RefSem ZV.Model.ErrCont ZV.Proofs.RefSemProofs.
Import ListNotations.

Arguments type_of : simpl never.
Arguments cmp_val : simpl never.
Arguments snap : simpl never.

(* ------------------------------------------------------------------ 1. the invariant *)

Definition fkr {A} (s : store) (r : res A) (s' : store) : Prop :=
  fail_at s' = fail_at s /\ (fail_ctr s <= fail_ctr s')%nat /\
  ((fail_ctr s < fail_at s)%nat -> (fail_at s <= fail_ctr s')%nat ->
   fail_ctr s' = fail_at s /\ r = Sig (SErr EUser)).

Definition fk {A} (m : M A) : Prop := forall s r s', m s = (r, s') -> fkr s r s'.

Lemma fkr_same : forall A s (r : res A) s',
  fail_at s' = fail_at s -> fail_ctr s' = fail_ctr s -> fkr s r s'.
Proof. intros A s r s' H1 H2. unfold fkr. rewrite H1, H2. repeat split; auto; intros; lia. Qed.

Lemma fkr_refl : forall A s (r : res A), fkr s r s.
Proof. intros. apply fkr_same; reflexivity. Qed.

(* sequencing after a result that is not the injected error *)
Lemma fkr_trans : forall A B s (r1 : res A) s1 (r : res B) s',
  fkr s r1 s1 -> r1 <> Sig (SErr EUser) -> fkr s1 r s' -> fkr s r s'.
Proof.
  intros A B s r1 s1 r s' (A1 & C1 & F1) Hne (A2 & C2 & F2). unfold fkr.
  split; [congruence|]. split; [lia|]. intros Hlt Hge.
  destruct (Nat.lt_ge_cases (fail_ctr s1) (fail_at s)) as [Hl|Hg].
  - rewrite A1 in F2. destruct (F2 Hl Hge) as [E1 E2]. split; [assumption|assumption].
  - destruct (F1 Hlt Hg) as [_ E]. contradiction.
Qed.

(* replacing a result that is not the injected error by any other result, same store *)
Lemma fkr_change : forall A B s (r1 : res A) s1 (r2 : res B),
  fkr s r1 s1 -> r1 <> Sig (SErr EUser) -> fkr s r2 s1.
Proof.
  intros A B s r1 s1 r2 (A1 & C1 & F1) Hne. unfold fkr. split; [assumption|]. split; [assumption|].
  intros Hlt Hge. destruct (F1 Hlt Hge) as [_ E]. contradiction.
Qed.

Lemma fk_silent : forall A (m : M A),
  (forall s r s', m s = (r, s') -> fail_at s' = fail_at s /\ fail_ctr s' = fail_ctr s) -> fk m.
Proof. intros A m H s r s' E. destruct (H s r s' E). apply fkr_same; assumption. Qed.

Lemma fk_ret : forall A (a : A), fk (ret a).
Proof. unfold fk, ret. intros. inversion H; subst. apply fkr_refl. Qed.
Lemma fk_raise : forall A e, fk (@raise A e).
Proof. unfold fk, raise. intros. inversion H; subst. apply fkr_refl. Qed.

Lemma fk_bind : forall A B (m : M A) (k : A -> M B), fk m -> (forall a, fk (k a)) -> fk (bindM m k).
Proof.
  unfold fk, bindM. intros A B m k Hm Hk s r s' H.
  destruct (m s) as [[a|g|] s1] eqn:E.
  - eapply fkr_trans; [eapply Hm; eauto|discriminate|eapply Hk; eauto].
  - inversion H; subst. specialize (Hm _ _ _ E). destruct Hm as (A1 & C1 & F1).
    repeat split; auto. + apply F1; assumption. + destruct (F1 H0 H1) as [_ X]. inversion X; reflexivity.
  - inversion H; subst. specialize (Hm _ _ _ E). destruct Hm as (A1 & C1 & F1).
    repeat split; auto. + apply F1; assumption. + destruct (F1 H0 H1) as [_ X]. inversion X.
Qed.

Lemma fk_no_loop_sig : forall A e (m : M A), fk m -> fk (no_loop_sig e m).
Proof.
  unfold fk, no_loop_sig. intros A e m Hm s r s' H.
  destruct (m s) as [[a|[l|l|e0]|] s1] eqn:E; inversion H; subst; specialize (Hm _ _ _ E);
    try assumption; (eapply fkr_change; [exact Hm|discriminate]).
Qed.

Lemma upd_frame_ctr : forall f x v s,
  fail_at (upd_frame f x v s) = fail_at s /\ fail_ctr (upd_frame f x v s) = fail_ctr s.
Proof. intros. unfold upd_frame. destruct (nth_error (frames s) f); simpl; auto. Qed.

Lemma fk_bind_frame : forall f x v, fk (bind f x v).
Proof.
  intros f x v. apply fk_silent. unfold bind. intros s r s' H.
  destruct (nth_error (frames s) f) as [fr|]; [|inversion H; subst; auto].
  destruct (assoc x fr) as [cur|].
  - destruct (type_of depth_limit (arrays s) cur) as [lt ars1].
    destruct (type_of depth_limit ars1 v) as [rt ars2].
    destruct lt as [a|]; destruct rt as [b|]; try (destruct (ty_eqb a b));
      inversion H; subst; simpl; auto;
      match goal with |- context [upd_frame ?f ?x ?v ?s0] => destruct (upd_frame_ctr f x v s0) as [U1 U2]; rewrite U1, U2; simpl; auto end.
  - inversion H; subst. apply upd_frame_ctr.
Qed.

Lemma fk_bind_all : forall f xs, fk (bind_all f xs).
Proof.
  induction xs as [|[x v] r IH]; simpl; [apply fk_ret|].
  apply fk_bind; [apply fk_bind_frame|]. intros _. apply IH.
Qed.

Lemma fk_push : forall A (k : nat -> M A), (forall f, fk (k f)) ->
  fk (fun s => let '(f, s1) := push_frame s in k f s1).
Proof.
  unfold fk. intros A k H s r s' E. unfold push_frame in E.
  specialize (H _ _ _ _ E). destruct H as (A1 & C1 & F1). simpl in *.
  split; [assumption|split; [assumption|exact F1]].
Qed.

Lemma fk_alloc_arr : forall vs t, fk (alloc_arr vs t).
Proof. intros. apply fk_silent. unfold alloc_arr. intros s r s' H. inversion H; subst. auto. Qed.

Lemma fk_get_arr : forall a, fk (get_arr a).
Proof.
  intros. apply fk_silent. unfold get_arr. intros s r s' H.
  destruct (nth_error (arrays s) a); inversion H; subst; auto.
Qed.

Section FkOpen.
  Variable ev : list nat -> expr -> M value.
  Variable ap : value -> list value -> M value.
  Hypothesis Hev : forall env e, fk (ev env e).
  Hypothesis Hap : forall f args, fk (ap f args).

  Lemma fk_ev_list : forall env es, fk (ev_list ev env es).
  Proof.
    induction es as [|e r IH]; simpl; [apply fk_ret|].
    apply fk_bind; [apply Hev|]. intros v. apply fk_bind; [apply IH|]. intros; apply fk_ret.
  Qed.

  Lemma fk_ev_begin : forall env es, fk (ev_begin ev env es).
  Proof.
    induction es as [|e r IH]; simpl; [apply fk_ret|].
    destruct r as [|e2 r]; [apply Hev|]. apply fk_bind; [apply Hev|]. intros _. apply IH.
  Qed.

  Lemma fk_ev_cond : forall env arms d, fk (ev_cond ev env arms d).
  Proof.
    induction arms as [|[c b] r IH]; simpl; intros d; [apply Hev|].
    apply fk_bind; [apply Hev|]. intros v. destruct (truthy v); [apply Hev|apply IH].
  Qed.

  Lemma fk_ev_and : forall env es, fk (ev_and ev env es).
  Proof.
    induction es as [|e r IH]; simpl; [apply fk_raise|].
    destruct r as [|e2 r]; [apply Hev|].
    apply fk_bind; [apply Hev|]. intros v. destruct (truthy v); [apply IH|apply fk_ret].
  Qed.

  Lemma fk_ev_or : forall env es, fk (ev_or ev env es).
  Proof.
    induction es as [|e r IH]; simpl; [apply fk_raise|].
    destruct r as [|e2 r]; [apply Hev|].
    apply fk_bind; [apply Hev|]. intros v. destruct (truthy v); [apply fk_ret|apply IH].
  Qed.

  Lemma fk_ev_args : forall env es, fk (ev_args ev env es).
  Proof.
    induction es as [|e r IH]; simpl; [apply fk_ret|].
    destruct (cc [] e); [|apply fk_raise].
    apply fk_bind; [apply Hev|]. intros v. apply fk_bind; [apply IH|]. intros; apply fk_ret.
  Qed.

  Lemma fk_ev_letseq : forall f env bs, fk (ev_letseq ev f env bs).
  Proof.
    induction bs as [|[x e] r IH]; simpl; [apply fk_ret|].
    apply fk_bind; [apply Hev|]. intros v. apply fk_bind; [apply fk_bind_frame|]. intros _. apply IH.
  Qed.

  Lemma fk_for_loop : forall k env lbl test step body, fk (for_loop ev k env lbl test step body).
  Proof.
    induction k as [|k IH]; intros env lbl test step body; simpl.
    - unfold fk. intros s r s' H. inversion H; subst. apply fkr_refl.
    - apply fk_bind; [apply fk_no_loop_sig; apply Hev|]. intros t.
      destruct (truthy t); [|apply fk_ret].
      assert (Hnext : fk (_ <- no_loop_sig EUnspec (ev env step) ;; for_loop ev k env lbl test step body)).
      { apply fk_bind; [apply fk_no_loop_sig; apply Hev|]. intros _. apply IH. }
      unfold fk. intros s r s' H.
      pose proof (fk_ev_begin env body s) as PB.
      destruct (ev_begin ev env body s) as [[v|[l|l|e]|] s1] eqn:E; specialize (PB _ _ eq_refl).
      + eapply fkr_trans; [exact PB|discriminate|eapply Hnext; eauto].
      + destruct (hits l lbl); inversion H; subst; [eapply fkr_change; [exact PB|discriminate]|assumption].
      + destruct (hits l lbl); [eapply fkr_trans; [exact PB|discriminate|eapply Hnext; eauto]|inversion H; subst; assumption].
      + inversion H; subst; assumption.
      + inversion H; subst; assumption.
  Qed.

  Lemma fk_call_expr : forall env f args, fk (call_expr ev ap env f args).
  Proof.
    intros env f args. unfold call_expr. apply fk_bind.
    - destruct f; try apply Hev; destruct (cc [] _); try apply Hev; apply fk_raise.
    - intros fv. destruct fv; try apply fk_raise;
        try (destruct args; [apply fk_ret|apply fk_raise]);
        (apply fk_bind; [apply fk_ev_args|intros vs; apply Hap]).
  Qed.

  Lemma fk_arith : forall op r acc, fk (arith op acc r).
  Proof.
    induction r as [|b r IH]; simpl; intros acc; [destruct acc; first [apply fk_ret|apply fk_raise]|].
    destruct acc; try apply fk_raise; destruct b; try apply fk_raise. apply IH.
  Qed.

  Lemma fk_divide : forall r acc, fk (divide acc r).
  Proof.
    induction r as [|b r IH]; simpl; intros acc; [apply fk_ret|].
    destruct acc; try apply fk_raise. destruct b; try apply fk_raise.
    destruct (_ =? 0); [apply fk_raise|]. destruct (_ =? 0); [apply IH|].
    destruct (flt_of_f64 _); [apply IH|apply fk_raise].
  Qed.

  Lemma fk_compare_prim : forall test args, fk (compare_prim test args).
  Proof.
    intros test args. unfold compare_prim.
    destruct args as [|a [|b [|? ?]]]; try apply fk_raise.
    unfold fk. intros s r s' H. destruct (cmp_val _ _ _ _); inversion H; subst; apply fkr_refl.
  Qed.

  Lemma fk_map_arr : forall f xs t, fk (map_arr ap f xs t).
  Proof.
    induction xs as [|x r IH]; simpl; intros t; [apply fk_ret|].
    apply fk_bind; [apply Hap|]. intros y. apply fk_bind.
    - destruct t; [apply fk_ret|]. apply fk_silent. intros s r0 s' H.
      destruct (type_of depth_limit (arrays s) y) as [ty1 ars1]. inversion H; subst. auto.
    - intros t1. apply fk_bind; [apply IH|]. intros; apply fk_ret.
  Qed.

  Lemma fk_map_pairs : forall f v, fk (map_pairs ap f v).
  Proof.
    induction v; simpl; try apply fk_raise; try apply fk_ret.
    apply fk_bind; [apply Hap|]. intros h'. apply fk_bind; [apply IHv2|]. intros; apply fk_ret.
  Qed.

  Lemma fk_aset_write : forall a i v o,
    fk (fun s => (Done VNil, with_arrays s (set_nth a (mkArr (set_nth (Z.to_nat i) v (a_elems o)) (a_ty o)) (arrays s)))).
  Proof. intros. apply fk_silent. intros s r s' H. inversion H; subst. auto. Qed.

  Lemma fk_cat_arrs : forall rest acc, fk (cat_arrs acc rest).
  Proof.
    induction rest as [|b r IH]; simpl; intros acc; [apply fk_ret|].
    destruct b; try apply fk_raise. apply fk_bind; [apply fk_get_arr|]. intros o. apply IH.
  Qed.

  Ltac fk_auto :=
    repeat first
      [ apply fk_ret | apply fk_raise | apply fk_alloc_arr | apply fk_aset_write
      | apply fk_compare_prim | apply fk_arith | apply fk_divide | apply Hap | apply fk_map_pairs | apply fk_cat_arrs
      | apply fk_bind; [first [apply fk_get_arr | apply fk_map_arr | apply fk_cat_arrs]|intros ?]
      | match goal with |- fk (match ?x with _ => _ end) => destruct x end
      | match goal with |- fk (if ?x then _ else _) => destruct x end ].

  Lemma fk_prim_apply : forall p args, fk (prim_apply ap p args).
  Proof.
    intros p args. destruct p; simpl; try (solve [fk_auto]).
    - (* PTrace *) apply fk_silent. intros s r s' H. inversion H; subst. auto.
    - (* PFailK: the only place where the counter moves *)
      unfold fk. intros s r s' H.
      change (match fail_at s with 0%nat => false | S m' => Nat.eqb (fail_ctr s) m' end)
        with (Nat.eqb (S (fail_ctr s)) (fail_at s)) in H.
      destruct (Nat.eqb (S (fail_ctr s)) (fail_at s)) eqn:E; inversion H; subst; unfold fkr; cbn [fail_at fail_ctr].
      + apply Nat.eqb_eq in E. split; [reflexivity|]. split; [lia|]. intros _ _. split; [assumption|reflexivity].
      + apply Nat.eqb_neq in E. split; [reflexivity|]. split; [lia|]. intros H1 H2. exfalso. lia.
  Qed.
End FkOpen.

Lemma eval_apply_fk : forall n,
  (forall env e, fk (eval n env e)) /\ (forall f args, fk (apply n f args)).
Proof.
  induction n as [|n [IHe IHa]].
  - split; intros; unfold fk; simpl; intros s r s' H; inversion H; subst; apply fkr_refl.
  - split.
    + intros env e. destruct e; simpl; try apply fk_ret.
      * unfold fk. intros s r s' H. destruct (lookup_chain _ _ _) as [[? ?]|]; inversion H; subst; apply fkr_refl.
      * apply fk_bind; [apply fk_ev_list; assumption|]. intros; apply fk_alloc_arr.
      * apply fk_call_expr; assumption.
      * apply fk_ev_begin; assumption.
      * apply fk_ev_cond; assumption.
      * apply fk_ev_and; assumption.
      * apply fk_ev_or; assumption.
      * apply fk_bind; [apply IHe|]. intros v. apply fk_bind; [apply fk_bind_frame|]. intros; apply fk_ret.
      * apply fk_bind; [apply IHe|]. intros v. unfold fk. intros s r s' H.
        destruct (lookup_chain _ _ _) as [[f ?]|].
        -- inversion H; subst. destruct (upd_frame_ctr f x v s) as [U1 U2]. apply fkr_same; assumption.
        -- revert H. apply (fk_bind _ _ (bind (hd 0%nat env) x v) (fun _ => ret v)); [apply fk_bind_frame|intros; apply fk_ret].
      * destruct seq.
        -- apply (fk_push _ (fun f => _ <- ev_letseq (eval n) f (f :: env) bs ;; ev_begin (eval n) (f :: env) body)).
           intros f. apply fk_bind; [apply fk_ev_letseq; assumption|]. intros _. apply fk_ev_begin; assumption.
        -- apply (fk_push _ (fun f => vs <- ev_list (eval n) (f :: env) (map snd bs) ;;
                                     _ <- bind_all f (rev (combine (map fst bs) vs)) ;; ev_begin (eval n) (f :: env) body)).
           intros f. apply fk_bind; [apply fk_ev_list; assumption|]. intros vs.
           apply fk_bind; [apply fk_bind_all|]. intros _. apply fk_ev_begin; assumption.
      * apply (fk_push _ (fun f => ev_begin (eval n) (f :: env) es)). intros f. apply fk_ev_begin; assumption.
      * apply (fk_push _ (fun f => _ <- no_loop_sig EUnspec (eval n (f :: env) e1) ;;
                                   for_loop (eval n) n (f :: env) lbl e2 e3 body)).
        intros f. apply fk_bind; [apply fk_no_loop_sig; apply IHe|]. intros _. apply fk_for_loop; assumption.
      * unfold fk. intros s r s' H. inversion H; subst. apply fkr_refl.
      * unfold fk. intros s r s' H. inversion H; subst. apply fkr_refl.
      * apply fk_bind; [apply fk_bind_frame|]. intros; apply fk_ret.
    + intros f args. destruct f; simpl; try apply fk_raise.
      * destruct (zip_params ps rest args []) as [binds|]; [|apply fk_raise].
        apply (fk_push _ (fun fid => _ <- bind_all fid binds ;; no_loop_sig ELoop (ev_begin (eval n) (fid :: env) body))).
        intros fid. apply fk_bind; [apply fk_bind_all|]. intros _. apply fk_no_loop_sig. apply fk_ev_begin; assumption.
      * apply fk_prim_apply; assumption.
Qed.

(* (1) if the raising call of failk is reached during the evaluation of an expression, the
   injected error is the outcome of that expression, whatever the expression is: no construct
   of the core language turns it into a value, into another error, or goes on evaluating *)
Theorem eval_error_not_swallowed : forall n env e s r s',
  eval n env e s = (r, s') ->
  (fail_ctr s < fail_at s)%nat -> (fail_at s <= fail_ctr s')%nat ->
  r = Sig (SErr EUser) /\ fail_ctr s' = fail_at s.
Proof.
  intros n env e s r s' H Hlt Hge.
  destruct (proj1 (eval_apply_fk n) env e s r s' H) as (_ & _ & F). destruct (F Hlt Hge). auto.
Qed.

Theorem apply_error_not_swallowed : forall n f args s r s',
  apply n f args s = (r, s') ->
  (fail_ctr s < fail_at s)%nat -> (fail_at s <= fail_ctr s')%nat ->
  r = Sig (SErr EUser) /\ fail_ctr s' = fail_at s.
Proof.
  intros n f args s r s' H Hlt Hge.
  destruct (proj2 (eval_apply_fk n) f args s r s' H) as (_ & _ & F). destruct (F Hlt Hge). auto.
Qed.

Lemma eval_text_fk : forall n t, fk (eval_text n t).
Proof.
  intros n t. destruct t as [forms|]; unfold eval_text.
  - destruct (forallb (cc []) forms).
    + apply fk_ev_begin. apply (proj1 (eval_apply_fk n)).
    + unfold fk. intros s r s' H. inversion H; subst. apply fkr_refl.
  - unfold fk. intros s r s' H. inversion H; subst. apply fkr_refl.
Qed.

(* the top-level form of (1): the host sees the injected error as the outcome of the text *)
Theorem text_error_not_swallowed : forall n t s,
  (fail_ctr s < fail_at s)%nat -> (fail_at s <= fail_ctr (snd (eval_text n t s)))%nat ->
  observe (eval_text n t s) = Sig (SErr EUser) /\ fail_ctr (snd (eval_text n t s)) = fail_at s.
Proof.
  intros n t s Hlt Hge. destruct (eval_text n t s) as [r s'] eqn:E. simpl in *.
  destruct (eval_text_fk n t s r s' E) as (_ & _ & F). destruct (F Hlt Hge) as [E1 E2].
  subst r. unfold observe. simpl. auto.
Qed.

(* ------------------------------------------------------------------ 2. propagation by construct *)

(* the monad: a signal of the first computation is the result, with its store *)
Lemma bind_sig : forall A B (m : M A) (k : A -> M B) s g s1,
  m s = (Sig g, s1) -> bindM m k s = (Sig g, s1).
Proof. intros. unfold bindM. rewrite H. reflexivity. Qed.

Lemma bind_done : forall A B (m : M A) (k : A -> M B) s a s1,
  m s = (Done a, s1) -> bindM m k s = k a s1.
Proof. intros. unfold bindM. rewrite H. reflexivity. Qed.

Section Propagate.
  Variable ev : list nat -> expr -> M value.
  Variable ap : value -> list value -> M value.

  (* element i of an array literal / of the initialisers of a let, after the elements before it *)
  Lemma ev_list_sig : forall env pre e post s vs s1 g s2,
    ev_list ev env pre s = (Done vs, s1) -> ev env e s1 = (Sig g, s2) ->
    ev_list ev env (pre ++ e :: post) s = (Sig g, s2).
  Proof.
    induction pre as [|p pre IH]; intros e post s vs s1 g s2 Hp He; simpl in *.
    - inversion Hp; subst. apply bind_sig. assumption.
    - unfold bindM in Hp |- *. destruct (ev env p s) as [[v|g0|] s0]; try discriminate.
      fold (bindM (ev_list ev env pre) (fun vs0 => ret (v :: vs0))) in Hp.
      destruct (ev_list ev env pre s0) as [[vs0|g0|] s3] eqn:E; try discriminate.
      inversion Hp; subst. erewrite IH; eauto.
  Qed.

  (* form i of a begin / a body *)
  Lemma ev_begin_sig : forall env pre e post s vs s1 g s2,
    ev_list ev env pre s = (Done vs, s1) -> ev env e s1 = (Sig g, s2) ->
    ev_begin ev env (pre ++ e :: post) s = (Sig g, s2).
  Proof.
    induction pre as [|p pre IH]; intros e post s vs s1 g s2 Hp He.
    - simpl in Hp. inversion Hp; subst. simpl. destruct post; [assumption|apply bind_sig; assumption].
    - simpl in Hp. unfold bindM in Hp. destruct (ev env p s) as [[v|g0|] s0] eqn:Ep; try discriminate.
      destruct (ev_list ev env pre s0) as [[vs0|g0|] s3] eqn:E; try discriminate.
      inversion Hp; subst.
      assert (Hne : exists x xs, pre ++ e :: post = x :: xs) by (destruct pre; simpl; eauto).
      destruct Hne as (x & xs & Ex).
      change ((p :: pre) ++ e :: post) with (p :: (pre ++ e :: post)). rewrite Ex.
      change (ev_begin ev env (p :: x :: xs) s) with (bindM (ev env p) (fun _ => ev_begin ev env (x :: xs)) s).
      rewrite (bind_done _ _ _ _ _ _ _ Ep). rewrite <- Ex. eapply IH; eauto.
  Qed.

  (* argument i of a call *)
  Lemma ev_args_sig : forall env pre e post s vs s1 g s2,
    ev_args ev env pre s = (Done vs, s1) -> cc [] e = true -> ev env e s1 = (Sig g, s2) ->
    ev_args ev env (pre ++ e :: post) s = (Sig g, s2).
  Proof.
    induction pre as [|p pre IH]; intros e post s vs s1 g s2 Hp Hc He; simpl in *.
    - inversion Hp; subst. rewrite Hc. apply bind_sig. assumption.
    - destruct (cc [] p); [|discriminate]. unfold bindM in Hp |- *.
      destruct (ev env p s) as [[v|g0|] s0]; try discriminate.
      destruct (ev_args ev env pre s0) as [[vs0|g0|] s3] eqn:E; try discriminate.
      inversion Hp; subst. erewrite IH; eauto.
  Qed.

  (* cond: a failing test; a failing arm; skipping an arm whose test is false *)
  Lemma ev_cond_test_sig : forall env c b r d s g s1,
    ev env c s = (Sig g, s1) -> ev_cond ev env ((c, b) :: r) d s = (Sig g, s1).
  Proof. intros. simpl. apply bind_sig. assumption. Qed.
  Lemma ev_cond_arm : forall env c b r d s v s1,
    ev env c s = (Done v, s1) -> truthy v = true -> ev_cond ev env ((c, b) :: r) d s = ev env b s1.
  Proof. intros. simpl. rewrite (bind_done _ _ _ _ _ _ _ H). rewrite H0. reflexivity. Qed.
  Lemma ev_cond_skip : forall env c b r d s v s1,
    ev env c s = (Done v, s1) -> truthy v = false -> ev_cond ev env ((c, b) :: r) d s = ev_cond ev env r d s1.
  Proof. intros. simpl. rewrite (bind_done _ _ _ _ _ _ _ H). rewrite H0. reflexivity. Qed.

  (* and / or: a failing operand; going on to the next operand *)
  Lemma ev_and_sig : forall env e r s g s1,
    ev env e s = (Sig g, s1) -> ev_and ev env (e :: r) s = (Sig g, s1).
  Proof. intros. simpl. destruct r; [assumption|apply bind_sig; assumption]. Qed.
  Lemma ev_and_next : forall env e e2 r s v s1,
    ev env e s = (Done v, s1) -> truthy v = true -> ev_and ev env (e :: e2 :: r) s = ev_and ev env (e2 :: r) s1.
  Proof. intros. simpl. rewrite (bind_done _ _ _ _ _ _ _ H). rewrite H0. reflexivity. Qed.
  Lemma ev_or_sig : forall env e r s g s1,
    ev env e s = (Sig g, s1) -> ev_or ev env (e :: r) s = (Sig g, s1).
  Proof. intros. simpl. destruct r; [assumption|apply bind_sig; assumption]. Qed.
  Lemma ev_or_next : forall env e e2 r s v s1,
    ev env e s = (Done v, s1) -> truthy v = false -> ev_or ev env (e :: e2 :: r) s = ev_or ev env (e2 :: r) s1.
  Proof. intros. simpl. rewrite (bind_done _ _ _ _ _ _ _ H). rewrite H0. reflexivity. Qed.

  (* letseq: initialiser i *)
  Lemma ev_letseq_sig : forall f env x e r s g s1,
    ev env e s = (Sig g, s1) -> ev_letseq ev f env ((x, e) :: r) s = (Sig g, s1).
  Proof. intros. simpl. apply bind_sig. assumption. Qed.

  (* for: an error in the test, in the body, in the step of an iteration ends the loop with that error *)
  Lemma for_test_err : forall k env lbl test step body s e s1,
    ev env test s = (Sig (SErr e), s1) ->
    for_loop ev (S k) env lbl test step body s = (Sig (SErr e), s1).
  Proof. intros. simpl. apply bind_sig. unfold no_loop_sig. rewrite H. reflexivity. Qed.
  Lemma for_body_err : forall k env lbl test step body s t s1 e s2,
    ev env test s = (Done t, s1) -> truthy t = true ->
    ev_begin ev env body s1 = (Sig (SErr e), s2) ->
    for_loop ev (S k) env lbl test step body s = (Sig (SErr e), s2).
  Proof.
    intros. simpl. unfold bindM at 1. unfold no_loop_sig at 1. rewrite H. rewrite H0. rewrite H1. reflexivity.
  Qed.
  Lemma for_step_err : forall k env lbl test step body s t s1 v s2 e s3,
    ev env test s = (Done t, s1) -> truthy t = true ->
    ev_begin ev env body s1 = (Done v, s2) ->
    ev env step s2 = (Sig (SErr e), s3) ->
    for_loop ev (S k) env lbl test step body s = (Sig (SErr e), s3).
  Proof.
    intros. simpl. unfold bindM at 1. unfold no_loop_sig at 1. rewrite H. rewrite H0. rewrite H1.
    apply bind_sig. unfold no_loop_sig. rewrite H2. reflexivity.
  Qed.

  (* call: the callee; the arguments; the applied function *)
  Lemma call_callee_sig : forall env x args s g s1,
    ev env (EVar x) s = (Sig g, s1) -> call_expr ev ap env (EVar x) args s = (Sig g, s1).
  Proof. intros. unfold call_expr. apply bind_sig. assumption. Qed.
  Lemma call_args_sig : forall env x args s fv s1 g s2,
    ev env (EVar x) s = (Done fv, s1) -> is_fn fv = true ->
    ev_args ev env args s1 = (Sig g, s2) -> call_expr ev ap env (EVar x) args s = (Sig g, s2).
  Proof.
    intros. unfold call_expr. rewrite (bind_done _ _ _ _ _ _ _ H).
    destruct fv; try discriminate; apply bind_sig; assumption.
  Qed.
  Lemma call_apply_result : forall env x args s fv s1 vs s2,
    ev env (EVar x) s = (Done fv, s1) -> is_fn fv = true ->
    ev_args ev env args s1 = (Done vs, s2) -> call_expr ev ap env (EVar x) args s = ap fv vs s2.
  Proof.
    intros. unfold call_expr. rewrite (bind_done _ _ _ _ _ _ _ H).
    destruct fv; try discriminate; rewrite (bind_done _ _ _ _ _ _ _ H1); reflexivity.
  Qed.

  (* map / apply: an error of the callback is the result of the builtin (first element; the
     later ones follow by the same lemma after bind_done) *)
  Lemma map_arr_sig : forall f x r t s g s1,
    ap f [x] s = (Sig g, s1) -> map_arr ap f (x :: r) t s = (Sig g, s1).
  Proof. intros. simpl. apply bind_sig. assumption. Qed.
  Lemma map_pairs_sig : forall f h t s g s1,
    ap f [h] s = (Sig g, s1) -> map_pairs ap f (VPair h t) s = (Sig g, s1).
  Proof. intros. simpl. apply bind_sig. assumption. Qed.
End Propagate.

(* the constructs whose sub-expression is evaluated directly by eval *)
Lemma def_sig : forall n env x e s g s1,
  eval n env e s = (Sig g, s1) -> eval (S n) env (EDef x e) s = (Sig g, s1).
Proof. intros. simpl. apply bind_sig. assumption. Qed.
Lemma set_sig : forall n env x e s g s1,
  eval n env e s = (Sig g, s1) -> eval (S n) env (ESet x e) s = (Sig g, s1).
Proof. intros. simpl. apply bind_sig. assumption. Qed.
Lemma for_init_err : forall n env lbl i t st body s e s1,
  eval n (length (frames s) :: env) i (with_frames s (frames s ++ [[]])) = (Sig (SErr e), s1) ->
  eval (S n) env (EFor lbl i t st body) s = (Sig (SErr e), s1).
Proof.
  intros. cbn [eval]. unfold push_frame. apply bind_sig. unfold no_loop_sig. rewrite H. reflexivity.
Qed.
(* a closure body: an error inside the called function is the result of the application *)
Lemma closure_body_err : forall n nm ps rest body cenv args s binds e s1,
  zip_params ps rest args [] = Some binds ->
  (_ <- bind_all (length (frames s)) binds ;;
   ev_begin (eval n) (length (frames s) :: cenv) body) (with_frames s (frames s ++ [[]])) = (Sig (SErr e), s1) ->
  apply (S n) (VClos nm ps rest body cenv) args s = (Sig (SErr e), s1).
Proof.
  intros. cbn [apply]. rewrite H. unfold push_frame. unfold bindM in *.
  destruct (bind_all (length (frames s)) binds (with_frames s (frames s ++ [[]]))) as [[u|g|] s0]; try discriminate.
  - unfold no_loop_sig. rewrite H0. reflexivity.
  - assumption.
Qed.

(* ------------------------------------------------------------------ 3. sessions *)

(* (2) nothing is rolled back: whatever the outcome of a text (value, error, out of fuel),
   every frame, every binding, every array that existed before it still exists and the trace
   was only extended *)
Theorem text_keeps_effects : forall n t s, ext s (snd (eval_text n t s)).
Proof.
  intros n t s. destruct t as [forms|]; simpl.
  - destruct (forallb (cc []) forms); [|apply ext_refl].
    destruct (ev_begin (eval n) [0%nat] forms s) as [r s'] eqn:E. simpl.
    eapply (pres_ev_begin (eval n)); [|exact E]. apply (proj1 (eval_apply_pres n)).
  - apply ext_refl.
Qed.

(* sessions compose: the texts after a prefix are evaluated from the store the prefix left,
   whether or not a text of the prefix failed *)
Theorem session_app : forall n ts later s,
  fst (eval_session n (ts ++ later) s)
  = fst (eval_session n ts s) ++ fst (eval_session n later (snd (eval_session n ts s))).
Proof.
  induction ts as [|t r IH]; intros later s; simpl.
  - destruct (eval_session n later s); reflexivity.
  - specialize (IH later (snd (eval_text n t s))).
    destruct (eval_session n (r ++ later) (snd (eval_text n t s))) as [os1 s1].
    destruct (eval_session n r (snd (eval_text n t s))) as [os2 s2]. simpl in *.
    rewrite IH. reflexivity.
Qed.

Lemma session_app_store : forall n ts later s,
  snd (eval_session n (ts ++ later) s) = snd (eval_session n later (snd (eval_session n ts s))).
Proof.
  induction ts as [|t r IH]; intros later s; simpl.
  - reflexivity.
  - specialize (IH later (snd (eval_text n t s))).
    destruct (eval_session n (r ++ later) (snd (eval_text n t s))) as [os1 s1].
    destruct (eval_session n r (snd (eval_text n t s))) as [os2 s2]. simpl in *. assumption.
Qed.

(* (3) twin equivalence.  Take any session `before ++ [failing]`, any continuation `later`.
   The outcomes of `later` in the interpreter that suffered the failure are exactly the outcomes
   of `later` in a twin that is started from store_at_failure = the store component of the
   failed text's result; and (with (1)) that failed text reported the injected error. *)
Definition store_at_failure (n : nat) (before : list text) (failing : text) (s : store) : store :=
  snd (eval_text n failing (snd (eval_session n before s))).

Theorem twin_equiv_proof : forall n before failing later s,
  fst (eval_session n (before ++ failing :: later) s)
  = fst (eval_session n before s)
    ++ observe (eval_text n failing (snd (eval_session n before s)))
    :: fst (eval_session n later (store_at_failure n before failing s)).
Proof.
  intros n before failing later s.
  rewrite (session_app n before (failing :: later) s). f_equal. simpl. unfold store_at_failure.
  destruct (eval_session n later (snd (eval_text n failing (snd (eval_session n before s))))); reflexivity.
Qed.

(* ... and if failk's raising call happens inside `failing`, its outcome is that error, the
   counter is frozen at k, and every binding made before or during the failing text is still
   in the twin's store *)
Theorem failing_text_proof : forall n before failing s,
  let s0 := snd (eval_session n before s) in
  (fail_ctr s0 < fail_at s0)%nat -> (fail_at s0 <= fail_ctr (store_at_failure n before failing s))%nat ->
  observe (eval_text n failing s0) = Sig (SErr EUser)
  /\ fail_ctr (store_at_failure n before failing s) = fail_at s0
  /\ ext s0 (store_at_failure n before failing s).
Proof.
  intros n before failing s s0 Hlt Hge. unfold store_at_failure in *. fold s0 in Hge |- *.
  destruct (text_error_not_swallowed n failing s0 Hlt Hge) as [E1 E2].
  split; [assumption|]. split; [assumption|]. apply text_keeps_effects.
Qed.

(* determinism across fuel: a twin with more fuel agrees wherever this one did not run out *)
Theorem eval_text_fuel_mono : forall n n' t s r s',
  (n <= n')%nat -> eval_text n t s = (r, s') -> r <> Fuel -> eval_text n' t s = (r, s').
Proof.
  intros n n' t s r s' Hle H Hnf. destruct t as [forms|]; simpl in *; [|assumption].
  destruct (forallb (cc []) forms); [|assumption].
  assert (L : le_M (ev_begin (eval n) [0%nat] forms) (ev_begin (eval n') [0%nat] forms)).
  { apply le_ev_begin. intros env e s0 r0 s0' H0 Hr0. eapply eval_fuel_mono; eauto. }
  apply L; assumption.
Qed.
