(* C12: the evaluated route for JSON-like values.  [eval_json_like] (Model/Printer.v) is the small model of what
   evaluating the expression read from a printed JSON-like value does: literals evaluate to themselves, an array
   literal to the array of its evaluated elements, (hash k: v "s" : v ...) to the hash MakeHash builds from its
   arguments.  Theorem: evaluating what the reader returns for print v gives back v (as the evaluation sees it). *)
From Coq Require Import ZArith List Bool Lia.
From ZV Require Import Model.Regex Generated.LexTables Model.Lexer Model.Reader Model.Printer
  Proofs.PrinterLex Proofs.Classify Proofs.PrinterProofs.
Import ListNotations.
Open Scope Z_scope.

Section EvalJson.
Variable pf : list Z -> option Z.

Definition pinf_bits : Z := 9218868437227405312.
Definition minf_bits : Z := 18442240474082181120.

(* JSON-like: numbers, strings, booleans, nil, arrays, hashes with pairwise different symbol / string keys.
   Floats: the parse oracle returns the float for the printed text (the formatter contract). *)
Fixpoint jl (v : value) : Prop :=
  match v with
  | VInt _ | VUint _ | VBool _ | VNil | VStr _ | VBStr _ => True
  | VFloat b sci c =>
      match c with
      | FNaN => True
      | FInf neg => b = (if neg then minf_bits else pinf_bits)
      | FFin t => ftok_ok t sci /\ parse_float_text pf (float_text c sci) = Some b
      end
  | VArr l => (fix all (l : list value) : Prop := match l with [] => True | x :: r => jl x /\ all r end) l
  | VHash kvs =>
      (fix allp (l : list (value * value)) : Prop :=
         match l with
         | [] => True
         | (k, x) :: r =>
             (match k with VSym _ | VStr _ => True | _ => False end) /\ jl x /\
             Forall (fun kv => jkey_eqb (jk_of (fst kv)) (jk_of k) = false) r /\ allp r
         end) kvs
  | _ => False
  end.

Lemma jset_fresh : forall k v acc, Forall (fun kv => jkey_eqb k (fst kv) = false) acc -> jset k v acc = acc ++ [(k, v)].
Proof.
  intros k v acc F. induction F as [|[k' v'] r H F IH]; [reflexivity|]. cbn [jset fst] in *. rewrite H, IH. reflexivity.
Qed.

Definition E2 (v : value) : Prop := jl v -> eval_json_like pf (to_sexp v) = Some (jv_of v).

Lemma eval_to_sexp_all : forall v, E2 v.
Proof.
  apply value_ind2; unfold E2.
  - intros; reflexivity.
  - intros; reflexivity.
  - (* floats *) intros b sci c J. destruct c as [|neg|t]; cbn [jl] in J.
    + reflexivity.
    + subst b. destruct neg; reflexivity.
    + destruct J as [Ht Hp]. cbn [to_sexp eval_json_like jv_of].
      destruct (float_text_head t sci Ht) as [h [r [Eh Hh]]].
      assert (list_eqb (float_text (FFin t) sci) str_NaN = false) as En.
      { rewrite Eh. cbn [list_eqb str_NaN]. replace (h =? 78) with false; [reflexivity|].
        symmetry. apply Z.eqb_neq. destruct Hh as [Hh|Hh]; [subst; discriminate|unfold digit in Hh; lia]. }
      rewrite En, Hp. reflexivity.
  - intros; reflexivity.
  - intros; reflexivity.
  - intros c J; destruct J.
  - intros; reflexivity.
  - intros n J; destruct J.
  - (* pairs are not JSON-like *) intros h t _ _ J. destruct J.
  - (* arrays *) intros l F J. cbn [to_sexp eval_json_like jv_of].
    assert ((fix elems (l0 : list sexp) : option (list jvalue) :=
               match l0 with
               | [] => Some []
               | x :: r => match eval_json_like pf x, elems r with
                           | Some jx, Some jr => Some (jx :: jr)
                           | _, _ => None
                           end
               end) (map to_sexp l) = Some (map jv_of l)) as H.
    { induction F as [|x r Hx F IH]; [reflexivity|]. destruct J as [Jx Jr]. cbn [map]. rewrite (Hx Jx), (IH Jr). reflexivity. }
    rewrite H. reflexivity.
  - (* hashes *) intros kvs F J. destruct kvs as [|kv0 r0]; [reflexivity|].
    set (kvs := kv0 :: r0) in *.
    assert (forall acc,
      Forall (fun kv => Forall (fun old => jkey_eqb (jk_of (fst kv)) (fst old) = false) acc) kvs ->
      (fix pairs (it : sexp) (acc : list (jkey * jvalue)) : option (list (jkey * jvalue)) :=
         match it with
         | SNull => Some acc
         | SPair (SSym true false n) (SPair x rest) =>
             match eval_json_like pf x with
             | Some jx => pairs rest (jset (JKSym n) jx acc)
             | None => None
             end
         | SPair (SStr _ s) (SPair (SSym false false c) (SPair x rest)) =>
             if list_eqb c [58] then
               match eval_json_like pf x with
               | Some jx => pairs rest (jset (JKStr s) jx acc)
               | None => None
               end
             else None
         | _ => None
         end)
        ((fix items (l : list (value * value)) : sexp :=
            match l with
            | [] => SNull
            | (k, x) :: r =>
                match k with
                | VSym n => SPair (SSym true false n) (SPair (to_sexp x) (items r))
                | VStr s => SPair (SStr false (map item_rune s)) (SPair (sym [58]) (SPair (to_sexp x) (items r)))
                | _ => SPair (to_sexp k) (SPair (sym [58]) (SPair (to_sexp x) (items r)))
                end
            end) kvs) acc
      = Some (acc ++ map (fun kv => (jk_of (fst kv), jv_of (snd kv))) kvs)) as H.
    { clearbody kvs. clear kv0 r0. induction F as [|[k x] r [_ Hx] F IH]; intros acc Hacc.
      - cbn [map]. rewrite app_nil_r. reflexivity.
      - cbn [snd] in Hx. destruct J as [Jk [Jx [Jd Jr]]]. inversion Hacc as [|kv l Hk Hacc']; subst. cbn [fst] in Hk.
        assert (forall acc', acc' = acc ++ [(jk_of k, jv_of x)] ->
                Forall (fun kv => Forall (fun old => jkey_eqb (jk_of (fst kv)) (fst old) = false) acc') r) as Hnext.
        { intros acc' ->. rewrite Forall_forall in *. intros kv Hin. apply Forall_app. split; [apply Hacc'; exact Hin|].
          constructor; [|constructor]. cbn [fst]. apply Jd. exact Hin. }
        destruct k; try contradiction.
        + cbn [map fst snd jk_of]. cbn [jk_of] in Hk. rewrite (Hx Jx).
          change (list_eqb [58] [58]) with true. cbv iota.
          rewrite (jset_fresh _ _ _ Hk).
          etransitivity; [apply (IH Jr); apply Hnext; reflexivity|rewrite <- app_assoc; reflexivity].
        + cbn [map fst snd jk_of]. cbn [jk_of] in Hk. rewrite (Hx Jx).
          rewrite (jset_fresh _ _ _ Hk).
          etransitivity; [apply (IH Jr); apply Hnext; reflexivity|rewrite <- app_assoc; reflexivity]. }
    change (to_sexp (VHash kvs)) with (SPair (sym str_hash) ((fix items (l : list (value * value)) : sexp :=
            match l with
            | [] => SNull
            | (k, x) :: r =>
                match k with
                | VSym n => SPair (SSym true false n) (SPair (to_sexp x) (items r))
                | VStr s => SPair (SStr false (map item_rune s)) (SPair (sym [58]) (SPair (to_sexp x) (items r)))
                | _ => SPair (to_sexp k) (SPair (sym [58]) (SPair (to_sexp x) (items r)))
                end
            end) kvs)).
    cbn [eval_json_like sym]. change (list_eqb str_hash str_hash) with true. cbv iota.
    rewrite (H []); [reflexivity|]. apply Forall_forall. intros; constructor.
  - intros; reflexivity.
Qed.

(* eval_read_print_jsonlike: evaluating what the reader returns for the printed text gives the value back *)
Theorem eval_read_print_jsonlike : forall is_print v fuel, dat is_print false v -> jl v -> (vsize v + 3 <= fuel)%nat ->
  match observe (parse_whole true false fuel (print is_print v)) with
  | (StDone, [e]) => eval_json_like pf e
  | _ => None
  end = Some (jv_of v).
Proof.
  intros ip v fuel D J Hf. rewrite (read_print_data ip v fuel D Hf). apply eval_to_sexp_all. exact J.
Qed.

End EvalJson.
