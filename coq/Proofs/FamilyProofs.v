(* C08: proofs about the interpreter family (Model/Family.v): an invariant preserved by every family
   operation, hence true after ANY history (fold_left over any list of operations). *)
From Coq Require Import String List Bool Arith Lia.
Require Import ZV.Generated.SandboxTables ZV.Model.Sandbox ZV.Proofs.SandboxProofs ZV.Model.Cmdline ZV.Model.Family.
Import ListNotations.
Open Scope string_scope.
Open Scope list_scope.

(* ---- list helpers ---- *)
Lemma nth_error_app_some : forall (A : Type) (l l' : list A) k x,
  nth_error l k = Some x -> nth_error (l ++ l') k = Some x.
Proof.
  intros A l l' k x H. rewrite nth_error_app1; [exact H|].
  apply nth_error_Some. rewrite H. discriminate.
Qed.

Lemma nth_error_app_last : forall (A : Type) (l : list A) x, nth_error (l ++ [x]) (length l) = Some x.
Proof. intros A l x. rewrite nth_error_app2 by lia. rewrite Nat.sub_diag. reflexivity. Qed.

Lemma upd_nth_Forall : forall (A : Type) (P : A -> Prop) (l : list A) k g,
  Forall P l -> (forall x, nth_error l k = Some x -> P x -> P (g x)) -> Forall P (upd_nth l k g).
Proof.
  intros A P l. induction l as [|a r IH]; intros k g Hl Hg; simpl; [constructor|].
  inversion Hl as [|a' r' Ha Hr]; subst. destruct k as [|k].
  - constructor; [apply Hg; [reflexivity | exact Ha] | exact Hr].
  - constructor; [exact Ha|]. apply IH; [exact Hr|]. intros x Hx. apply Hg. exact Hx.
Qed.

Lemma nth_error_upd_nth : forall (A : Type) (l : list A) k g j x,
  nth_error l j = Some x -> exists y, nth_error (upd_nth l k g) j = Some y /\ (y = x \/ y = g x).
Proof.
  intros A l. induction l as [|a r IH]; intros k g j x H.
  - destruct j; discriminate H.
  - destruct k as [|k]; destruct j as [|j]; simpl in *.
    + inversion H; subst. exists (g x). split; [reflexivity | right; reflexivity].
    + exists x. split; [exact H | left; reflexivity].
    + inversion H; subst. exists x. split; [reflexivity | left; reflexivity].
    + apply IH. exact H.
Qed.

(* ---- purity depends on the flag and the Go function only ---- *)
Definition SB : ctx := {| cflag := true; cbind := []; cmac := [] |}.

Lemma pure_flag : forall (c c' : ctx) f, cflag c = cflag c' -> pure c f = pure c' f.
Proof. intros c c' f H. unfold pure, effect_of, sandboxed. rewrite H. reflexivity. Qed.

Lemma binding_pure_flag : forall (c c' : ctx) b, cflag c = cflag c' -> binding_pure c b = binding_pure c' b.
Proof. intros c c' [[n k] f] H. unfold binding_pure. rewrite (pure_flag c c' f H). reflexivity. Qed.

Lemma forallb_flag : forall (A : Type) (F : ctx -> A -> bool) (c c' : ctx) l,
  (forall a, F c a = F c' a) -> forallb (F c) l = forallb (F c') l.
Proof. intros A F c c' l H. induction l as [|a r IH]; simpl; [reflexivity|]. rewrite H, IH. reflexivity. Qed.

(* a context with flag on and pure bindings passes tables_ok (the other tables are those of the bare sandbox) *)
Lemma tables_ok_sb : forall (c : ctx), cflag c = true -> forallb (binding_pure SB) (cbind c) = true -> tables_ok c = true.
Proof.
  intros c Hf Hb. pose proof tables_ok_bare as HB. unfold tables_ok in *.
  apply andb_prop in HB. destruct HB as [_ HB]. apply andb_prop in HB. destruct HB as [H2 HB].
  apply andb_prop in HB. destruct HB as [H3 H4].
  assert (E : cflag c = cflag (ctx_of Bare)) by (rewrite Hf; reflexivity).
  assert (E' : cflag c = cflag SB) by (rewrite Hf; reflexivity).
  unfold bindings.
  rewrite (forallb_flag _ binding_pure c SB (cbind c) (fun b => binding_pure_flag c SB b E')), Hb.
  rewrite (forallb_flag _ special_pure c (ctx_of Bare) special_forms (fun s => pure_flag c (ctx_of Bare) (snd s) E)), H2.
  rewrite (forallb_flag _ binding_pure c (ctx_of Bare) implicit_prims (fun b => binding_pure_flag c (ctx_of Bare) b E)), H3.
  rewrite (forallb_flag _ pure c (ctx_of Bare) vm_core (fun f => pure_flag c (ctx_of Bare) f E)), H4.
  reflexivity.
Qed.

(* ---- the GENERATED registration tables are pure for a sandboxed interpreter (closed by vm_compute) ---- *)
Lemma ctor_sandbox_pure : forallb (binding_pure SB) ctor_sandbox = true. Proof. vm_compute. reflexivity. Qed.
Lemma std_regs_sb_pure : forallb (binding_pure SB) std_regs_sb = true. Proof. vm_compute. reflexivity. Qed.
Lemma demo_regs_sb_pure : forallb (binding_pure SB) demo_regs_sb = true. Proof. vm_compute. reflexivity. Qed.
Lemma dup_copies : duplicate_copies_flag = true. Proof. reflexivity. Qed.
Lemma clone_copies : clone_copies_flag = true. Proof. reflexivity. Qed.
Lemma dup_clone_share : andb duplicate_shares_tables clone_shares_tables = true. Proof. reflexivity. Qed.

(* the fixed configurations ARE family members (tie between the two presentations of the tables) *)
Lemma bare_is_ctor : bindings_bare = ctor_sandbox. Proof. vm_compute. reflexivity. Qed.
Lemma std_is_composed : bindings_std = ctor_sandbox ++ std_regs_sb. Proof. vm_compute. reflexivity. Qed.
Lemma full_is_composed : bindings_full = ctor_full ++ std_regs_open. Proof. vm_compute. reflexivity. Qed.

Lemma alias_regs_pure : forall c n m bs, forallb (binding_pure c) bs = true -> forallb (binding_pure c) (alias_regs n m bs) = true.
Proof.
  intros c n m bs. induction bs as [|[[m' k] f] r IH]; intros H; simpl; [reflexivity|].
  simpl in H. apply andb_prop in H. destruct H as [Hb Hr].
  destruct (andb (String.eqb m m') (negb (is_value k))); simpl; [|exact (IH Hr)].
  rewrite (IH Hr). unfold binding_pure in *. rewrite Hb. reflexivity.
Qed.

(* ---- the invariant ---- *)
Definition known_op (op : fop) : Prop := match op with FUnknown _ => False | _ => True end.

Definition world_ok (w : world) : Prop := worigin w = true -> forallb (binding_pure SB) (wbind w) = true.

Definition interp_ok (ws : list world) (it : interp) : Prop :=
  iflag it = iorigin it /\ exists w, nth_error ws (iworld it) = Some w /\ worigin w = iorigin it.

Definition FInv (st : fstate) : Prop := Forall world_ok (worlds st) /\ Forall (interp_ok (worlds st)) (interps st).

Lemma interp_ok_app : forall ws w it, interp_ok ws it -> interp_ok (ws ++ [w]) it.
Proof.
  intros ws w it [Hf [w0 [Hn Ho]]]. split; [exact Hf|]. exists w0. split; [|exact Ho].
  apply nth_error_app_some. exact Hn.
Qed.

Lemma interp_ok_upd : forall ws k g it, (forall w, worigin (g w) = worigin w) -> interp_ok ws it -> interp_ok (upd_nth ws k g) it.
Proof.
  intros ws k g it Hg [Hf [w0 [Hn Ho]]]. split; [exact Hf|].
  destruct (nth_error_upd_nth _ ws k g _ _ Hn) as [y [Hy [E|E]]]; exists y; (split; [exact Hy|]); subst y;
    [exact Ho | rewrite Hg; exact Ho].
Qed.

(* registering bs into the world of interpreter it keeps the invariant when bs is pure whenever it is sandboxed *)
Lemma reg_inv : forall st it (g : world -> world),
  FInv st -> In it (interps st) ->
  (forall w, worigin (g w) = worigin w) ->
  (forall w, iflag it = true -> forallb (binding_pure SB) (wbind w) = true -> forallb (binding_pure SB) (wbind (g w)) = true) ->
  FInv {| worlds := upd_nth (worlds st) (iworld it) g; interps := interps st |}.
Proof.
  intros st it g [HW HI] Hin Hg Hp. split; simpl.
  - apply upd_nth_Forall; [exact HW|]. intros w Hn Hw Ho. rewrite Hg in Ho.
    rewrite Forall_forall in HI. destruct (HI it Hin) as [Hf [w0 [Hn0 Ho0]]].
    rewrite Hn in Hn0. inversion Hn0; subst w0.
    apply Hp; [rewrite Hf, <- Ho0; exact Ho | exact (Hw Ho)].
  - rewrite Forall_forall in *. intros x Hx. apply interp_ok_upd; [exact Hg | exact (HI x Hx)].
Qed.

Lemma add_regs_pure : forall bs ms w, forallb (binding_pure SB) bs = true ->
  forallb (binding_pure SB) (wbind w) = true -> forallb (binding_pure SB) (wbind (add_regs bs ms w)) = true.
Proof. intros bs ms w Hb Hw. unfold add_regs. cbn [wbind]. rewrite forallb_app. apply andb_true_intro. split; assumption. Qed.

Lemma derive_inv : forall st it, FInv st -> In it (interps st) ->
  FInv {| worlds := worlds st; interps := interps st ++ [derive true it] |}.
Proof.
  intros st it [HW HI] Hin. split; simpl; [exact HW|].
  apply Forall_app. split; [exact HI|]. constructor; [|constructor].
  rewrite Forall_forall in HI. destruct (HI it Hin) as [Hf [w0 [Hn Ho]]].
  split; simpl; [exact Hf | exists w0; split; assumption].
Qed.

Theorem fstep_inv : forall st op, known_op op -> FInv st -> FInv (fstep st op).
Proof.
  intros st op Hk Hinv. pose proof Hinv as [HW HI].
  destruct op as [| |i|i|i|i|i n|i n m|i]; simpl in Hk; try contradiction; unfold fstep.
  - (* NewZlispSandbox *) split; simpl.
    + apply Forall_app. split; [exact HW|]. constructor; [|constructor]. intros _. exact ctor_sandbox_pure.
    + apply Forall_app. split.
      * rewrite Forall_forall in *. intros x Hx. apply interp_ok_app. exact (HI x Hx).
      * constructor; [|constructor]. split; [reflexivity|]. simpl.
        eexists. split; [apply nth_error_app_last | reflexivity].
  - (* NewZlisp *) split; simpl.
    + apply Forall_app. split; [exact HW|]. constructor; [|constructor]. intros H. discriminate H.
    + apply Forall_app. split.
      * rewrite Forall_forall in *. intros x Hx. apply interp_ok_app. exact (HI x Hx).
      * constructor; [|constructor]. split; [reflexivity|]. simpl.
        eexists. split; [apply nth_error_app_last | reflexivity].
  - (* StandardSetup *) destruct (nth_error (interps st) i) as [it|] eqn:E; [|exact Hinv].
    apply reg_inv; [exact Hinv | exact (nth_error_In _ _ E) | reflexivity |].
    intros w Hf Hw. rewrite Hf. apply add_regs_pure; [exact std_regs_sb_pure | exact Hw].
  - (* ImportDemoData *) destruct (nth_error (interps st) i) as [it|] eqn:E; [|exact Hinv].
    apply reg_inv; [exact Hinv | exact (nth_error_In _ _ E) | reflexivity |].
    intros w Hf Hw. rewrite Hf. apply add_regs_pure; [exact demo_regs_sb_pure | exact Hw].
  - (* Duplicate *) destruct (nth_error (interps st) i) as [it|] eqn:E; [|exact Hinv].
    rewrite dup_copies. apply derive_inv; [exact Hinv | exact (nth_error_In _ _ E)].
  - (* Clone *) destruct (nth_error (interps st) i) as [it|] eqn:E; [|exact Hinv].
    rewrite clone_copies. apply derive_inv; [exact Hinv | exact (nth_error_In _ _ E)].
  - (* def of a value *) destruct (nth_error (interps st) i) as [it|] eqn:E; [|exact Hinv].
    apply reg_inv; [exact Hinv | exact (nth_error_In _ _ E) | reflexivity |].
    intros w _ Hw. apply add_regs_pure; [reflexivity | exact Hw].
  - (* def of an alias *) destruct (nth_error (interps st) i) as [it|] eqn:E; [|exact Hinv].
    apply reg_inv; [exact Hinv | exact (nth_error_In _ _ E) | reflexivity |].
    intros w _ Hw. apply add_regs_pure; [apply alias_regs_pure; exact Hw | exact Hw].
Qed.

Lemma fold_inv : forall ops st, Forall known_op ops -> FInv st -> FInv (fold_left fstep ops st).
Proof.
  intros ops. induction ops as [|op r IH]; intros st Hk Hinv; simpl; [exact Hinv|].
  inversion Hk as [|o r' Ho Hr]; subst. apply IH; [exact Hr | apply fstep_inv; assumption].
Qed.

Lemma FInv0 : FInv fstate0.
Proof. split; constructor. Qed.

(* THE FAMILY INVARIANT: after any history of family operations *)
Theorem family_invariant : forall ops, Forall known_op ops -> FInv (run_family ops).
Proof. intros ops Hk. apply fold_inv; [exact Hk | exact FInv0]. Qed.

(* the sandboxed field of every member equals "its root constructor was NewZlispSandbox":
   never lost along Duplicate / Clone chains, never gained *)
Theorem family_flag_is_origin : forall ops i it, Forall known_op ops ->
  nth_error (interps (run_family ops)) i = Some it -> iflag it = iorigin it.
Proof.
  intros ops i it Hk Hn. destruct (family_invariant ops Hk) as [_ HI].
  rewrite Forall_forall in HI. exact (proj1 (HI it (nth_error_In _ _ Hn))).
Qed.

Lemma member_tables_ok : forall st it, FInv st -> In it (interps st) -> iorigin it = true ->
  tables_ok (ctx_of_interp st it) = true.
Proof.
  intros st it [HW HI] Hin Ho. rewrite Forall_forall in HI. destruct (HI it Hin) as [Hf [w [Hn Hwo]]].
  unfold ctx_of_interp. rewrite Hn. apply tables_ok_sb; simpl.
  - rewrite Hf. exact Ho.
  - rewrite Forall_forall in HW. apply (HW w (nth_error_In _ _ Hn)). rewrite Hwo. exact Ho.
Qed.

(* THE PROPERTY for the whole family: no program has any effect in any member that descends from a sandbox *)
Theorem family_no_effect : forall ops it p, Forall known_op ops ->
  In it (interps (run_family ops)) -> iorigin it = true ->
  effects_of (ctx_of_interp (run_family ops) it) (run_abs (ctx_of_interp (run_family ops) it) p) = [].
Proof.
  intros ops it p Hk Hin Ho. apply ctx_no_effect.
  exact (member_tables_ok _ it (family_invariant ops Hk) Hin Ho).
Qed.

(* ---- ReplMain: every assignment of the flags its construction depends on ---- *)
Definition known_step (s : string) : bool := orb (String.eqb s "Zlisp.StandardSetup") (String.eqb s "Zlisp.ImportDemoData").

Definition plan_row_ok (r : list bool * (bool * list string)) : bool :=
  implb (flag_value "Sandboxed" replmain_flags (fst r)) (andb (fst (snd r)) (forallb known_step (snd (snd r)))).

Lemma plans_ok : forallb plan_row_ok replmain_plans = true. Proof. vm_compute. reflexivity. Qed.

Lemma plans_total : forallb (fun v => match find_plan v replmain_plans with Some _ => true | None => false end)
  (all_vecs (length replmain_flags)) = true.
Proof. vm_compute. reflexivity. Qed.

Theorem replmain_total : forall v, In v (all_vecs (length replmain_flags)) -> exists p, find_plan v replmain_plans = Some p.
Proof.
  intros v Hv. pose proof plans_total as H. rewrite forallb_forall in H. specialize (H v Hv).
  destruct (find_plan v replmain_plans) as [p|]; [exists p; reflexivity | discriminate H].
Qed.

Lemma find_plan_in : forall v l p, find_plan v l = Some p -> exists v', In (v', p) l /\ vec_eqb v v' = true.
Proof.
  intros v l. induction l as [|[v' q] r IH]; intros p H; simpl in H; [discriminate H|].
  destruct (vec_eqb v v') eqn:E.
  - inversion H; subst. exists v'. split; [left; reflexivity | exact E].
  - destruct (IH p H) as [v'' [Hin Hv]]. exists v''. split; [right; exact Hin | exact Hv].
Qed.

Lemma vec_eqb_eq : forall a b, vec_eqb a b = true -> a = b.
Proof.
  intros a. induction a as [|x r IH]; intros [|y s] H; simpl in H; try discriminate H; [reflexivity|].
  apply andb_prop in H. destruct H as [Hx Hr]. apply eqb_prop in Hx. subst y. rewrite (IH s Hr). reflexivity.
Qed.

Lemma known_step_op : forall s, known_step s = true -> known_op (step_op s).
Proof.
  intros s H. unfold step_op, known_step in *.
  destruct (String.eqb s "Zlisp.StandardSetup"); [exact I|].
  destruct (String.eqb s "Zlisp.ImportDemoData"); [exact I | discriminate H].
Qed.

Lemma sandbox_plan : forall v p, find_plan v replmain_plans = Some p ->
  flag_value "Sandboxed" replmain_flags v = true -> fst p = true /\ Forall known_op (plan_ops p).
Proof.
  intros v p Hf Hs. destruct (find_plan_in _ _ _ Hf) as [v' [Hin Hv]]. apply vec_eqb_eq in Hv. subst v'.
  pose proof plans_ok as H. rewrite forallb_forall in H. specialize (H _ Hin). unfold plan_row_ok in H. cbn [fst snd] in H.
  rewrite Hs in H. cbn [implb] in H. apply andb_prop in H. destruct H as [H1 H2]. split; [exact H1|].
  unfold plan_ops. rewrite H1. constructor; [exact I|].
  rewrite forallb_forall in H2. apply Forall_forall. intros op Hop. apply in_map_iff in Hop.
  destruct Hop as [s [Es Hs']]. subst op. apply known_step_op. exact (H2 s Hs').
Qed.

(* the origin of a world never changes *)
Lemma world_origin_step : forall st op k w, nth_error (worlds st) k = Some w ->
  exists w', nth_error (worlds (fstep st op)) k = Some w' /\ worigin w' = worigin w.
Proof.
  intros st op k w Hn.
  assert (Hsame : exists w', nth_error (worlds st) k = Some w' /\ worigin w' = worigin w) by (exists w; split; [exact Hn | reflexivity]).
  assert (Hupd : forall j g, (forall x, worigin (g x) = worigin x) ->
            exists w', nth_error (upd_nth (worlds st) j g) k = Some w' /\ worigin w' = worigin w).
  { intros j g Hg. destruct (nth_error_upd_nth _ (worlds st) j g k w Hn) as [y [Hy [E|E]]]; exists y; (split; [exact Hy|]); subst y;
      [reflexivity | apply Hg]. }
  destruct op as [| |i|i|i|i|i n|i n m|i]; unfold fstep; simpl;
    try (exists w; split; [apply nth_error_app_some; exact Hn | reflexivity]);
    destruct (nth_error (interps st) i) as [it|]; simpl; try exact Hsame; try (apply Hupd; reflexivity).
Qed.

Lemma world_origin_fold : forall ops st k w, nth_error (worlds st) k = Some w ->
  exists w', nth_error (worlds (fold_left fstep ops st)) k = Some w' /\ worigin w' = worigin w.
Proof.
  intros ops. induction ops as [|op r IH]; intros st k w Hn; simpl; [exists w; split; [exact Hn | reflexivity]|].
  destruct (world_origin_step st op k w Hn) as [w1 [H1 E1]].
  destruct (IH (fstep st op) k w1 H1) as [w2 [H2 E2]]. exists w2. split; [exact H2 | rewrite E2; exact E1].
Qed.

(* cmd/zygo under any flag assignment with the sandbox flag on: the interpreter ReplMain builds (world 0), and
   every interpreter later derived from it (macro expansion, expectError ...) whatever else happens in the process,
   has the flag set and no program has an effect in it *)
Theorem replmain_sandboxed : forall v pl more it p,
  find_plan v replmain_plans = Some pl -> flag_value "Sandboxed" replmain_flags v = true ->
  Forall known_op more ->
  In it (interps (run_family (plan_ops pl ++ more))) -> iworld it = 0 ->
  iflag it = true /\
  effects_of (ctx_of_interp (run_family (plan_ops pl ++ more)) it) (run_abs (ctx_of_interp (run_family (plan_ops pl ++ more)) it) p) = [].
Proof.
  intros v pl more it p Hf Hs Hm Hin H0.
  destruct (sandbox_plan v pl Hf Hs) as [Hc Hk].
  assert (Hall : Forall known_op (plan_ops pl ++ more)) by (apply Forall_app; split; assumption).
  pose proof (family_invariant _ Hall) as Hinv.
  assert (Ho : iorigin it = true).
  { destruct Hinv as [_ HI]. rewrite Forall_forall in HI. destruct (HI it Hin) as [_ [w [Hn Hwo]]].
    assert (Hrf : run_family (plan_ops pl ++ more) = fold_left fstep (map step_op (snd pl) ++ more) (fstep fstate0 FNewSandbox)).
    { unfold run_family, plan_ops. rewrite Hc. reflexivity. }
    rewrite H0, Hrf in Hn.
    destruct (world_origin_fold (map step_op (snd pl) ++ more) (fstep fstate0 FNewSandbox) 0
                {| worigin := true; wbind := ctor_sandbox; wmac := ctor_sandbox_macros |} eq_refl) as [w' [Hn' E']].
    rewrite Hn in Hn'. inversion Hn'; subst w'. rewrite <- Hwo. exact E'. }
  split.
  - destruct Hinv as [_ HI]. rewrite Forall_forall in HI. rewrite (proj1 (HI it Hin)). exact Ho.
  - exact (family_no_effect _ it p Hall Hin Ho).
Qed.

(* link to the command line (Model/Cmdline.v): a parsed flag part with the sandbox flag on always has a plan,
   and the plan constructs with NewZlispSandbox -- with or without -demo, with or without -c *)
Theorem cmdline_construction_sandboxed : forall (s : st) demo, sandboxed_flag s = true ->
  exists pl, construction s demo = Some (plan_ops pl) /\ fst pl = true /\ Forall known_op (plan_ops pl).
Proof.
  intros [sb i e c] demo H. simpl in H. subst sb. unfold construction. simpl sandboxed_flag. simpl command.
  destruct (find_plan (vec_of true demo c) replmain_plans) as [pl|] eqn:E.
  - exists pl. split; [reflexivity|]. apply (sandbox_plan _ pl E). destruct demo, c; vm_compute; reflexivity.
  - exfalso. destruct demo, c; vm_compute in E; discriminate E.
Qed.
