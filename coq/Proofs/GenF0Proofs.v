(* Proofs about Model/GenF0.v: the code generated for the fragment F0 (mirror of generator.go:
   GenerateBegin / GenerateCond / GenerateShortCircuit / GenerateDef / GenerateLet /
   GenerateNewScope with their relative jump offsets and pops), run by the VM step function,
   computes exactly what the reference evaluator computes, for all nestings. *)
From Coq Require Import ZArith Bool List Lia.
From ZV Require Import Model.Num Model.RefSem Model.GenF0 Proofs.RefSemProofs.
Import ListNotations.
Open Scope Z_scope.

Arguments type_of : simpl never.
Arguments call_expr : simpl never.
Arguments bind : simpl never.

(* the code c sits at position p of the whole code *)
Definition code_at (code : list instr) (p : nat) (c : list instr) : Prop :=
  exists pre post, code = pre ++ c ++ post /\ length pre = p.

Lemma code_at_app : forall code p c1 c2, code_at code p (c1 ++ c2) ->
  code_at code p c1 /\ code_at code (p + length c1) c2.
Proof.
  intros code p c1 c2 (pre & post & E & L). split.
  - exists pre, (c2 ++ post). rewrite E, <- app_assoc. auto.
  - exists (pre ++ c1), post. rewrite E, <- !app_assoc. split; [reflexivity|].
    rewrite app_length. lia.
Qed.

Lemma code_at_head : forall code p i c, code_at code p (i :: c) -> nth_error code p = Some i.
Proof.
  intros code p i c (pre & post & E & L). subst. rewrite nth_error_app2 by lia.
  rewrite Nat.sub_diag. reflexivity.
Qed.

Lemma code_at_cons : forall code p i c, code_at code p (i :: c) -> code_at code (S p) c.
Proof.
  intros code p i c H. change (i :: c) with ([i] ++ c) in H.
  apply code_at_app in H. destruct H as [_ H]. simpl in H. rewrite Nat.add_1_r in H. exact H.
Qed.

Section Sim.
  Variable n : nat.                    (* fuel of the delegated calls *)
  Variable code : list instr.

  Inductive star : vmstate -> vmstate -> Prop :=
  | star_refl : forall s, star s s
  | star_step : forall s s1 s2, step n code s = Next s1 -> star s1 s2 -> star s s2.

  Lemma star_trans : forall a b c, star a b -> star b c -> star a c.
  Proof. intros a b c H. induction H; intros; [assumption|]. econstructor; eauto. Qed.

  Lemma star_one : forall a b, step n code a = Next b -> star a b.
  Proof. intros. econstructor; [eassumption|constructor]. Qed.

  (* running from pc p with stack stk0 simulates the outcome (r, s') of the evaluator and ends at pc q *)
  Definition sim (p q : nat) (stk0 : list value) (env : list nat) (s : store) (r : res value) (s' : store) : Prop :=
    match r with
    | Done v => star (mkVm p stk0 env s) (mkVm q (v :: stk0) env s')
    | Sig g => exists m, star (mkVm p stk0 env s) m /\ step n code m = Abort g s'
    | Fuel => True
    end.

  Lemma sim_prefix : forall p p1 q stk0 env s s1 r s',
    star (mkVm p stk0 env s) (mkVm p1 stk0 env s1) -> sim p1 q stk0 env s1 r s' -> sim p q stk0 env s r s'.
  Proof.
    intros p p1 q stk0 env s s1 r s' H S. destruct r as [v|g|]; simpl in *; auto.
    - eapply star_trans; eauto.
    - destruct S as (m & Hm & Ha). exists m. split; [eapply star_trans; eauto|assumption].
  Qed.

  (* the induction hypothesis: every F0 expression, placed anywhere, is simulated *)
  Definition IHexpr (m : nat) : Prop :=
    forall e, f0 e = true -> forall p stk0 env s r s',
      code_at code p (gen e) -> eval m env e s = (r, s') ->
      sim p (p + length (gen e)) stk0 env s r s'.

  Section Lists.
    Variable m : nat.
    Hypothesis IH : IHexpr m.

    (* generator.go:GenerateBegin: pops between the forms, the last value stays *)
    Lemma sim_begin : forall es, es <> [] -> forallb (fun x => f0 x && has_code x) es = true ->
      forall p stk0 env s r s', code_at code p (gen_begin gen es) ->
      ev_begin (eval m) env es s = (r, s') ->
      sim p (p + length (gen_begin gen es)) stk0 env s r s'.
    Proof.
      induction es as [|e rest IHes]; intros Hne Hf p stk0 env s r s' Hc He; [congruence|].
      simpl in Hf. apply andb_prop in Hf. destruct Hf as [Hfe Hfr]. apply andb_prop in Hfe. destruct Hfe as [Hfe Hce].
      destruct rest as [|e2 rest].
      - simpl in *. eapply IH; eauto.
      - change (gen_begin gen (e :: e2 :: rest)) with
          ((match gen e with [] => [] | _ => gen e ++ [IPop] end) ++ gen_begin gen (e2 :: rest)) in *.
        unfold has_code in Hce. destruct (gen e) as [|i0 c0] eqn:Eg; [discriminate|]. rewrite <- Eg in *.
        rewrite app_length. rewrite app_length. simpl length at 2.
        apply code_at_app in Hc. destruct Hc as [Hc1 Hc2].
        apply code_at_app in Hc1. destruct Hc1 as [Hce1 Hpop].
        rewrite ev_begin_cons in He by discriminate. unfold bindM in He.
        destruct (eval m env e s) as [[v|g|] s1] eqn:Ee.
        + pose proof (IH e Hfe p stk0 env s _ _ Hce1 Ee) as S1. simpl in S1.
          eapply sim_prefix.
          * eapply star_trans; [exact S1|]. apply star_one. unfold step; cbn [pc stk scopes st].
            rewrite (code_at_head _ _ _ _ Hpop). reflexivity.
          * rewrite app_length in Hc2. simpl in Hc2.
            replace (p + (length (gen e) + 1 + length (gen_begin gen (e2 :: rest))))%nat
              with ((p + (length (gen e) + 1)) + length (gen_begin gen (e2 :: rest)))%nat by lia.
            replace (S (p + length (gen e))) with (p + (length (gen e) + 1))%nat by lia.
            apply IHes; auto. discriminate.
        + inversion He; subst. pose proof (IH e Hfe p stk0 env s _ _ Hce1 Ee) as S1. exact S1.
        + inversion He; subst. exact I.
    Qed.

    (* generator.go:GenerateNewScope body: unconditional pops *)
    Lemma sim_scope_body : forall es, es <> [] -> forallb f0 es = true ->
      forall p stk0 env s r s', code_at code p (gen_scope_body gen es) ->
      ev_begin (eval m) env es s = (r, s') ->
      sim p (p + length (gen_scope_body gen es)) stk0 env s r s'.
    Proof.
      induction es as [|e rest IHes]; intros Hne Hf p stk0 env s r s' Hc He; [congruence|].
      simpl in Hf. apply andb_prop in Hf. destruct Hf as [Hfe Hfr].
      destruct rest as [|e2 rest].
      - simpl in *. eapply IH; eauto.
      - change (gen_scope_body gen (e :: e2 :: rest)) with
          (gen e ++ [IPop] ++ gen_scope_body gen (e2 :: rest)) in *.
        rewrite app_length. rewrite app_length. simpl length at 2.
        apply code_at_app in Hc. destruct Hc as [Hce1 Hc2].
        apply code_at_app in Hc2. destruct Hc2 as [Hpop Hc2]. simpl in Hc2.
        rewrite ev_begin_cons in He by discriminate. unfold bindM in He.
        destruct (eval m env e s) as [[v|g|] s1] eqn:Ee.
        + pose proof (IH e Hfe p stk0 env s _ _ Hce1 Ee) as S1. simpl in S1.
          eapply sim_prefix.
          * eapply star_trans; [exact S1|]. apply star_one. unfold step; cbn [pc stk scopes st].
            rewrite (code_at_head _ _ _ _ Hpop). reflexivity.
          * replace (p + (length (gen e) + (1 + length (gen_scope_body gen (e2 :: rest)))))%nat
              with ((p + length (gen e) + 1) + length (gen_scope_body gen (e2 :: rest)))%nat by lia.
            replace (S (p + length (gen e))) with (p + length (gen e) + 1)%nat by lia.
            apply IHes; auto. discriminate.
        + inversion He; subst. exact (IH e Hfe p stk0 env s _ _ Hce1 Ee).
        + inversion He; subst. exact I.
    Qed.

    (* generator.go:GenerateCond: brn jumps over body and jump; jump lands after the rest *)
    Lemma sim_cond : forall arms d, forallb (fun cb => f0 (fst cb) && f0 (snd cb)) arms = true -> f0 d = true ->
      forall p stk0 env s r s', code_at code p (gen_cond gen arms (gen d)) ->
      ev_cond (eval m) env arms d s = (r, s') ->
      sim p (p + length (gen_cond gen arms (gen d))) stk0 env s r s'.
    Proof.
      induction arms as [|[c b] rest IHa]; intros d Hf Hd p stk0 env s r s' Hc He.
      - simpl in *. eapply IH; eauto.
      - simpl in Hf. apply andb_prop in Hf. destruct Hf as [Hcb Hfr]. apply andb_prop in Hcb. destruct Hcb as [Hfc Hfb].
        simpl in Hc, He |- *. unfold bindM in He.
        set (restc := gen_cond gen rest (gen d)) in *.
        apply code_at_app in Hc. destruct Hc as [Hcc Hc].
        pose proof (code_at_head _ _ _ _ Hc) as Hbr. apply code_at_cons in Hc.
        apply code_at_app in Hc. destruct Hc as [Hcbody Hc].
        pose proof (code_at_head _ _ _ _ Hc) as Hjmp. apply code_at_cons in Hc.
        rewrite !app_length. simpl length. rewrite !app_length. simpl length.
        destruct (eval m env c s) as [[v|g|] s1] eqn:Ec.
        + pose proof (IH c Hfc p stk0 env s _ _ Hcc Ec) as S1. simpl in S1.
          destruct (truthy v) eqn:Ht.
          * (* test true: fall through into the body, then jump over the rest *)
            pose proof (IH b Hfb (S (p + length (gen c))) stk0 env s1 _ _ Hcbody He) as S2.
            eapply sim_prefix.
            -- eapply star_trans; [exact S1|]. apply star_one. unfold step; cbn [pc stk scopes st]. rewrite Hbr. simpl.
               rewrite Ht. simpl. reflexivity.
            -- destruct r as [w|g|]; simpl in S2 |- *; auto.
               eapply star_trans; [exact S2|]. apply star_one. unfold step; cbn [pc stk scopes st].
               rewrite Nat.add_succ_l in Hjmp. rewrite Hjmp.
               f_equal. f_equal. lia.
          * (* test false: brn jumps to the first instruction of the rest *)
            eapply sim_prefix.
            -- eapply star_trans; [exact S1|]. apply star_one. unfold step; cbn [pc stk scopes st]. rewrite Hbr. simpl.
               rewrite Ht. simpl. reflexivity.
            -- replace (p + length (gen c) + (length (gen b) + 2))%nat
                 with (S (S (p + length (gen c)) + length (gen b))) by lia.
               replace (p + (length (gen c) + S (length (gen b) + S (length restc))))%nat
                 with (S (S (p + length (gen c)) + length (gen b)) + length restc)%nat by lia.
               apply IHa; auto.
        + inversion He; subst. exact (IH c Hfc p stk0 env s _ _ Hcc Ec).
        + inversion He; subst. exact I.
    Qed.

    (* generator.go:GenerateShortCircuit: dup; br; pop *)
    Lemma sim_sc : forall (or : bool) es, es <> [] -> forallb f0 es = true ->
      forall p stk0 env s r s', code_at code p (gen_sc gen or es) ->
      (if or then ev_or (eval m) env es s else ev_and (eval m) env es s) = (r, s') ->
      sim p (p + length (gen_sc gen or es)) stk0 env s r s'.
    Proof.
      intros or. induction es as [|e rest IHes]; intros Hne Hf p stk0 env s r s' Hc He; [congruence|].
      simpl in Hf. apply andb_prop in Hf. destruct Hf as [Hfe Hfr].
      destruct rest as [|e2 rest].
      - simpl in *. destruct or; eapply IH; eauto.
      - change (gen_sc gen or (e :: e2 :: rest)) with
          (gen e ++ [IDup; IBranch or (length (gen_sc gen or (e2 :: rest)) + 2); IPop] ++ gen_sc gen or (e2 :: rest)) in *.
        set (restc := gen_sc gen or (e2 :: rest)) in *.
        apply code_at_app in Hc. destruct Hc as [Hce Hc].
        pose proof (code_at_head _ _ _ _ Hc) as Hdup. apply code_at_cons in Hc.
        pose proof (code_at_head _ _ _ _ Hc) as Hbr. apply code_at_cons in Hc.
        pose proof (code_at_head _ _ _ _ Hc) as Hpop. apply code_at_cons in Hc.
        rewrite !app_length. simpl length.
        assert (He' : (v <- eval m env e ;;
                       if truthy v then (if or then ret v else (if or then ev_or (eval m) env (e2 :: rest) else ev_and (eval m) env (e2 :: rest)))
                       else (if or then (if or then ev_or (eval m) env (e2 :: rest) else ev_and (eval m) env (e2 :: rest)) else ret v)) s = (r, s')).
        { destruct or; exact He. }
        clear He. unfold bindM in He'.
        destruct (eval m env e s) as [[v|g|] s1] eqn:Ee.
        + pose proof (IH e Hfe p stk0 env s _ _ Hce Ee) as S1. simpl in S1.
          assert (Sdup : star (mkVm p stk0 env s) (mkVm (S (p + length (gen e))) (v :: v :: stk0) env s1)).
          { eapply star_trans; [exact S1|]. apply star_one. unfold step; cbn [pc stk scopes st]. rewrite Hdup. reflexivity. }
          destruct (Bool.eqb or (truthy v)) eqn:Edir.
          * (* short circuit: the branch is taken, the duplicate is the value *)
            assert (Ev : (r, s') = (Done v, s1)).
            { destruct or; destruct (truthy v); simpl in Edir; try discriminate; unfold ret in He'; congruence. }
            inversion Ev; subst. simpl.
            eapply star_trans; [exact Sdup|]. apply star_one. unfold step; cbn [pc stk scopes st]. rewrite Hbr. simpl.
            rewrite Edir. f_equal. f_equal. lia.
          * (* continue: branch not taken, pop the duplicate, run the rest *)
            eapply sim_prefix.
            -- eapply star_trans; [exact Sdup|]. eapply star_step.
               ++ unfold step; cbn [pc stk scopes st]. rewrite Hbr. simpl. rewrite Edir. reflexivity.
               ++ apply star_one. unfold step; cbn [pc stk scopes st]. rewrite Hpop. reflexivity.
            -- match goal with |- sim _ ?q _ _ _ _ _ =>
                 replace q with (S (S (S (p + length (gen e)))) + length restc)%nat by lia end.
               apply IHes; auto; [discriminate|].
               destruct or; destruct (truthy v); simpl in Edir; try discriminate; exact He'.
        + inversion He'; subst. exact (IH e Hfe p stk0 env s _ _ Hce Ee).
        + inversion He'; subst. exact I.
    Qed.

    (* let: the initialisers leave their values on the stack, last on top *)
    Lemma sim_inits : forall bs, forallb (fun xb => f0 (snd xb)) bs = true ->
      forall p stk0 env s r s', code_at code p (gen_inits gen bs) ->
      ev_list (eval m) env (map snd bs) s = (r, s') ->
      match r with
      | Done vs => star (mkVm p stk0 env s) (mkVm (p + length (gen_inits gen bs)) (rev vs ++ stk0) env s') /\
                   length vs = length bs
      | Sig g => exists st1, star (mkVm p stk0 env s) st1 /\ step n code st1 = Abort g s'
      | Fuel => True
      end.
    Proof.
      induction bs as [|[x e] rest IHb]; intros Hf p stk0 env s r s' Hc He.
      - simpl in *. unfold ret in He. inversion He; subst. simpl. rewrite Nat.add_0_r. split; [constructor|reflexivity].
      - simpl in Hf. apply andb_prop in Hf. destruct Hf as [Hfe Hfr].
        simpl in Hc, He. unfold bindM in He. apply code_at_app in Hc. destruct Hc as [Hce Hcr].
        destruct (eval m env e s) as [[v|g|] s1] eqn:Ee.
        + pose proof (IH e Hfe p stk0 env s _ _ Hce Ee) as S1. simpl in S1.
          destruct (ev_list (eval m) env (map snd rest) s1) as [[vs|g|] s2] eqn:Er.
          * unfold ret in He. inversion He; subst.
            destruct (IHb Hfr _ (v :: stk0) env s1 _ _ Hcr Er) as [S2 L].
            split; [|simpl; congruence].
            simpl gen_inits. rewrite app_length, Nat.add_assoc. simpl rev. rewrite <- app_assoc. simpl.
            eapply star_trans; eauto.
          * inversion He; subst.
            destruct (IHb Hfr _ (v :: stk0) env s1 _ _ Hcr Er) as (st1 & S2 & A).
            exists st1. split; [eapply star_trans; eauto|assumption].
          * inversion He; subst. exact I.
        + inversion He; subst. exact (IH e Hfe p stk0 env s _ _ Hce Ee).
        + inversion He; subst. exact I.
    Qed.

    (* the PopStackPutEnv run that binds them *)
    Lemma sim_putenvs : forall ps p stk0 f env s r s',
      code_at code p (map IPutEnv (map fst ps)) ->
      bind_all f ps s = (r, s') ->
      match r with
      | Done _ => star (mkVm p (map snd ps ++ stk0) (f :: env) s) (mkVm (p + length ps) stk0 (f :: env) s')
      | Sig g => exists st1, star (mkVm p (map snd ps ++ stk0) (f :: env) s) st1 /\ step n code st1 = Abort g s'
      | Fuel => True
      end.
    Proof.
      induction ps as [|[x v] rest IHp]; intros p stk0 f env s r s' Hc He.
      - simpl in *. unfold ret in He. inversion He; subst. rewrite Nat.add_0_r. constructor.
      - simpl in Hc, He. unfold bindM in He.
        pose proof (code_at_head _ _ _ _ Hc) as Hi. apply code_at_cons in Hc.
        destruct (bind f x v s) as [[u|g|] s1] eqn:Eb.
        + assert (St : step n code (mkVm p (map snd ((x, v) :: rest) ++ stk0) (f :: env) s) =
                       Next (mkVm (S p) (map snd rest ++ stk0) (f :: env) s1)).
          { unfold step; cbn [pc stk scopes st]. rewrite Hi. simpl. rewrite Eb. reflexivity. }
          specialize (IHp (S p) stk0 f env s1 r s' Hc He).
          destruct r as [w|g|]; auto.
          * simpl length. replace (p + S (length rest))%nat with (S p + length rest)%nat by lia.
            econstructor; eauto.
          * destruct IHp as (st1 & S2 & A). exists st1. split; [econstructor; eauto|assumption].
        + inversion He; subst. eexists. split; [constructor|].
          unfold step; cbn [pc stk scopes st]. rewrite Hi. simpl. rewrite Eb. reflexivity.
        + inversion He; subst. exact I.
    Qed.

    (* letseq: initialiser, bind, initialiser, bind, .. *)
    Lemma sim_letseq : forall bs, forallb (fun xb => f0 (snd xb)) bs = true ->
      forall p stk0 f env s r s', code_at code p (gen_letseq gen bs) ->
      ev_letseq (eval m) f (f :: env) bs s = (r, s') ->
      match r with
      | Done _ => star (mkVm p stk0 (f :: env) s) (mkVm (p + length (gen_letseq gen bs)) stk0 (f :: env) s')
      | Sig g => exists st1, star (mkVm p stk0 (f :: env) s) st1 /\ step n code st1 = Abort g s'
      | Fuel => True
      end.
    Proof.
      induction bs as [|[x e] rest IHb]; intros Hf p stk0 f env s r s' Hc He.
      - simpl in *. unfold ret in He. inversion He; subst. rewrite Nat.add_0_r. constructor.
      - simpl in Hf. apply andb_prop in Hf. destruct Hf as [Hfe Hfr].
        simpl in Hc, He. unfold bindM in He. apply code_at_app in Hc. destruct Hc as [Hce Hc].
        pose proof (code_at_head _ _ _ _ Hc) as Hi. apply code_at_cons in Hc.
        destruct (eval m (f :: env) e s) as [[v|g|] s1] eqn:Ee.
        + pose proof (IH e Hfe p stk0 (f :: env) s _ _ Hce Ee) as S1. simpl in S1.
          destruct (bind f x v s1) as [[u|g|] s2] eqn:Eb.
          * assert (St : step n code (mkVm (p + length (gen e)) (v :: stk0) (f :: env) s1) =
                         Next (mkVm (S (p + length (gen e))) stk0 (f :: env) s2)).
            { unfold step; cbn [pc stk scopes st]. rewrite Hi. simpl. rewrite Eb. reflexivity. }
            specialize (IHb Hfr (S (p + length (gen e))) stk0 f env s2 r s' Hc He).
            simpl gen_letseq. rewrite app_length. simpl length.
            destruct r as [w|g|]; auto.
            -- replace (p + (length (gen e) + S (length (gen_letseq gen rest))))%nat
                 with (S (p + length (gen e)) + length (gen_letseq gen rest))%nat by lia.
               eapply star_trans; [exact S1|]. econstructor; eauto.
            -- destruct IHb as (st1 & S2 & A). exists st1. split; [|assumption].
               eapply star_trans; [exact S1|]. econstructor; eauto.
          * inversion He; subst. eexists. split; [exact S1|].
            unfold step; cbn [pc stk scopes st]. rewrite Hi. simpl. rewrite Eb. reflexivity.
          * inversion He; subst. exact I.
        + inversion He; subst. exact (IH e Hfe p stk0 (f :: env) s _ _ Hce Ee).
        + inversion He; subst. exact I.
    Qed.
  End Lists.
End Sim.

(* ---- the simulation theorem ---- *)

Lemma combine_rev_fst : forall (xs : list ident) (vs : list value), length vs = length xs ->
  map fst (rev (combine xs vs)) = rev xs /\ map snd (rev (combine xs vs)) = rev vs.
Proof.
  intros xs vs L. rewrite !map_rev. split; f_equal.
  - revert vs L. induction xs; intros [|v vs] L; simpl in *; try lia; auto. f_equal. apply IHxs. lia.
  - revert vs L. induction xs; intros [|v vs] L; simpl in *; try lia; auto. f_equal. apply IHxs. lia.
Qed.

Lemma call_mono : forall m n env f args s r s', (m <= n)%nat ->
  call_expr (eval m) (apply m) env f args s = (r, s') -> r <> Fuel ->
  call_expr (eval n) (apply n) env f args s = (r, s').
Proof.
  intros m n env f args s r s' L H Hr.
  eapply (le_call_expr (eval m) (eval n) (apply m) (apply n)); eauto.
  - intros env0 e s0 r0 s0' H0 Hr0. eapply eval_fuel_mono; eauto.
  - intros f0 a0 s0 r0 s0' H0 Hr0. eapply apply_fuel_mono; eauto.
Qed.

Ltac fetch H :=
  match type of H with
  | nth_error ?c ?p0 = _ =>
    match goal with |- context [nth_error c ?q] => replace q with p0 by lia end
  end; rewrite H.

Theorem gen_sim : forall n code m, (m <= n)%nat -> IHexpr n code m.
Proof.
  intros n code. induction m as [|m IHm]; intros Hle.
  - intros e Hf p stk0 env s r s' Hc He. simpl in He. inversion He; subst. exact I.
  - assert (IH : IHexpr n code m) by (apply IHm; lia). clear IHm.
    intros e Hf p stk0 env s r s' Hc He.
    destruct e; simpl in Hf; try discriminate.
    + (* EInt *) simpl in He. unfold ret in He. inversion He; subst. simpl. rewrite Nat.add_1_r.
      apply star_one. unfold step; cbn [pc stk scopes st]. rewrite (code_at_head _ _ _ _ Hc). reflexivity.
    + (* EBool *) simpl in He. unfold ret in He. inversion He; subst. simpl. rewrite Nat.add_1_r.
      apply star_one. unfold step; cbn [pc stk scopes st]. rewrite (code_at_head _ _ _ _ Hc). reflexivity.
    + (* ENil *) simpl in He. unfold ret in He. inversion He; subst. simpl. rewrite Nat.add_1_r.
      apply star_one. unfold step; cbn [pc stk scopes st]. rewrite (code_at_head _ _ _ _ Hc). reflexivity.
    + (* EStr *) simpl in He. unfold ret in He. inversion He; subst. simpl. rewrite Nat.add_1_r.
      apply star_one. unfold step; cbn [pc stk scopes st]. rewrite (code_at_head _ _ _ _ Hc). reflexivity.
    + (* EVar *) simpl in He. simpl gen in *. pose proof (code_at_head _ _ _ _ Hc) as Hi.
      destruct (lookup_chain (frames s) env x) as [[f v]|] eqn:El; inversion He; subst; simpl.
      * rewrite Nat.add_1_r. apply star_one. unfold step; cbn [pc stk scopes st]. rewrite Hi, El. reflexivity.
      * eexists. split; [constructor|]. unfold step; cbn [pc stk scopes st]. rewrite Hi, El. reflexivity.
    + (* ECall *) simpl gen in *. pose proof (code_at_head _ _ _ _ Hc) as Hi.
      change (eval (S m) env (ECall e args) s) with (call_expr (eval m) (apply m) env e args s) in He.
      destruct r as [v|g|]; [| |exact I].
      * apply (call_mono m n) in He; [|lia|discriminate]. simpl. rewrite Nat.add_1_r.
        apply star_one. unfold step; cbn [pc stk scopes st]. rewrite Hi, He. reflexivity.
      * apply (call_mono m n) in He; [|lia|discriminate]. simpl.
        eexists. split; [constructor|]. unfold step; cbn [pc stk scopes st]. rewrite Hi, He. reflexivity.
    + (* EBegin *) apply andb_prop in Hf. destruct Hf as [Hne Hall].
      apply (sim_begin n code m IH); auto. destruct es; [discriminate|congruence].
    + (* ECond *) apply andb_prop in Hf. destruct Hf as [Ha Hd].
      apply (sim_cond n code m IH); auto.
    + (* EAnd *) apply andb_prop in Hf. destruct Hf as [Hne Hall].
      apply (sim_sc n code m IH false); auto. destruct es; [discriminate|congruence].
    + (* EOr *) apply andb_prop in Hf. destruct Hf as [Hne Hall].
      apply (sim_sc n code m IH true); auto. destruct es; [discriminate|congruence].
    + (* EDef *) simpl gen in *. apply code_at_app in Hc. destruct Hc as [Hce Hc].
      pose proof (code_at_head _ _ _ _ Hc) as Hdup. apply code_at_cons in Hc.
      pose proof (code_at_head _ _ _ _ Hc) as Hput.
      rewrite app_length. simpl length.
      simpl in He. unfold bindM in He.
      destruct (eval m env e s) as [[v|g|] s1] eqn:Ee.
      * pose proof (IH e Hf p stk0 env s _ _ Hce Ee) as S1. simpl in S1.
        assert (Sdup : star n code (mkVm p stk0 env s) (mkVm (S (p + length (gen e))) (v :: v :: stk0) env s1)).
        { eapply star_trans; [exact S1|]. apply star_one. unfold step; cbn [pc stk scopes st]. rewrite Hdup. reflexivity. }
        destruct (bind (hd 0%nat env) x v s1) as [[u|g|] s2] eqn:Eb; unfold ret in He; inversion He; subst; simpl.
        -- replace (p + (length (gen e) + 2))%nat with (S (S (p + length (gen e)))) by lia.
           eapply star_trans; [exact Sdup|]. apply star_one. unfold step; cbn [pc stk scopes st]. rewrite Hput. simpl. rewrite Eb. reflexivity.
        -- eexists. split; [exact Sdup|]. unfold step; cbn [pc stk scopes st]. rewrite Hput. simpl. rewrite Eb. reflexivity.
        -- exact I.
      * inversion He; subst. exact (IH e Hf p stk0 env s _ _ Hce Ee).
      * inversion He; subst. exact I.
    + (* ESet *) simpl gen in *. apply code_at_app in Hc. destruct Hc as [Hce Hc].
      pose proof (code_at_head _ _ _ _ Hc) as Hdup. apply code_at_cons in Hc.
      pose proof (code_at_head _ _ _ _ Hc) as Hput.
      rewrite app_length. simpl length.
      simpl in He. unfold bindM in He.
      destruct (eval m env e s) as [[v|g|] s1] eqn:Ee.
      * pose proof (IH e Hf p stk0 env s _ _ Hce Ee) as S1. simpl in S1.
        assert (Sdup : star n code (mkVm p stk0 env s) (mkVm (S (p + length (gen e))) (v :: v :: stk0) env s1)).
        { eapply star_trans; [exact S1|]. apply star_one. unfold step; cbn [pc stk scopes st]. rewrite Hdup. reflexivity. }
        destruct (lookup_chain (frames s1) env x) as [[f w]|] eqn:El.
        -- inversion He; subst. simpl.
           replace (p + (length (gen e) + 2))%nat with (S (S (p + length (gen e)))) by lia.
           eapply star_trans; [exact Sdup|]. apply star_one. unfold step; cbn [pc stk scopes st]. rewrite Hput. simpl. rewrite El. reflexivity.
        -- destruct (bind (hd 0%nat env) x v s1) as [[u|g|] s2] eqn:Eb; unfold ret in He; inversion He; subst; simpl.
           ++ replace (p + (length (gen e) + 2))%nat with (S (S (p + length (gen e)))) by lia.
              eapply star_trans; [exact Sdup|]. apply star_one. unfold step; cbn [pc stk scopes st]. rewrite Hput. simpl. rewrite El, Eb. reflexivity.
           ++ eexists. split; [exact Sdup|]. unfold step; cbn [pc stk scopes st]. rewrite Hput. simpl. rewrite El, Eb. reflexivity.
           ++ exact I.
      * inversion He; subst. exact (IH e Hf p stk0 env s _ _ Hce Ee).
      * inversion He; subst. exact I.
    + (* ELet *)
      apply andb_prop in Hf. destruct Hf as [Hf Hbody]. apply andb_prop in Hf. destruct Hf as [Hbs Hne].
      assert (Hbne : body <> []) by (destruct body; [discriminate|congruence]).
      destruct seq.
      * (* letseq *)
        simpl gen in Hc. pose proof (code_at_head _ _ _ _ Hc) as Hadd. apply code_at_cons in Hc.
        apply code_at_app in Hc. destruct Hc as [Hcl Hc]. apply code_at_app in Hc. destruct Hc as [Hcb Hc].
        pose proof (code_at_head _ _ _ _ Hc) as Hrem.
        rewrite letseq_fresh in He. set (f := length (frames s)) in *. set (s0 := snd (push_frame s)) in *.
        assert (Ep : push_frame s = (f, s0)) by reflexivity. unfold bindM in He.
        assert (Sadd : star n code (mkVm p stk0 env s) (mkVm (S p) stk0 (f :: env) s0)).
        { apply star_one. unfold step; cbn [pc stk scopes st]. rewrite Hadd, Ep. reflexivity. }
        simpl gen. simpl length. rewrite !app_length. simpl length.
        destruct (ev_letseq (eval m) f (f :: env) bs s0) as [[u|g|] s1] eqn:El.
        -- pose proof (sim_letseq n code m IH bs Hbs (S p) stk0 f env s0 _ _ Hcl El) as S1. simpl in S1.
           pose proof (sim_begin n code m IH body Hbne Hbody _ stk0 (f :: env) s1 _ _ Hcb He) as S2.
           destruct r as [v|g|]; simpl in S2 |- *; auto.
           ++ eapply star_trans; [exact Sadd|]. eapply star_trans; [exact S1|]. eapply star_trans; [exact S2|].
              apply star_one. unfold step; cbn [pc stk scopes st]. fetch Hrem. f_equal. f_equal. lia.
           ++ destruct S2 as (st1 & S2 & A). exists st1. split; [|assumption].
              eapply star_trans; [exact Sadd|]. eapply star_trans; [exact S1|]. exact S2.
        -- inversion He; subst.
           destruct (sim_letseq n code m IH bs Hbs (S p) stk0 f env s0 _ _ Hcl El) as (st1 & S1 & A).
           exists st1. split; [eapply star_trans; eauto|assumption].
        -- inversion He; subst. exact I.
      * (* let *)
        simpl gen in Hc. pose proof (code_at_head _ _ _ _ Hc) as Hadd. apply code_at_cons in Hc.
        apply code_at_app in Hc. destruct Hc as [Hci Hc]. apply code_at_app in Hc. destruct Hc as [Hcp Hc].
        apply code_at_app in Hc. destruct Hc as [Hcb Hc].
        pose proof (code_at_head _ _ _ _ Hc) as Hrem.
        rewrite let_fresh in He. set (f := length (frames s)) in *. set (s0 := snd (push_frame s)) in *.
        assert (Ep : push_frame s = (f, s0)) by reflexivity. unfold bindM in He.
        assert (Sadd : star n code (mkVm p stk0 env s) (mkVm (S p) stk0 (f :: env) s0)).
        { apply star_one. unfold step; cbn [pc stk scopes st]. rewrite Hadd, Ep. reflexivity. }
        simpl gen. simpl length. rewrite !app_length. simpl length. rewrite map_length, rev_length, map_length.
        rewrite map_length, rev_length, map_length in Hc, Hcb, Hrem.
        destruct (ev_list (eval m) (f :: env) (map snd bs) s0) as [[vs|g|] s1] eqn:Ei.
        -- destruct (sim_inits n code m IH bs Hbs (S p) stk0 (f :: env) s0 _ _ Hci Ei) as [S1 Lv].
           assert (Lv' : length vs = length (map fst bs)) by (rewrite map_length; exact Lv).
           destruct (combine_rev_fst (map fst bs) vs Lv') as [Efst Esnd].
           destruct (bind_all f (rev (combine (map fst bs) vs)) s1) as [[u|g|] s2] eqn:Eb.
           ++ rewrite <- Efst in Hcp.
              pose proof (sim_putenvs n code (rev (combine (map fst bs) vs)) _ stk0 f env s1 _ _ Hcp Eb) as S2.
              simpl in S2. rewrite Esnd in S2. rewrite rev_length, combine_length, map_length, Lv, Nat.min_id in S2.
              pose proof (sim_begin n code m IH body Hbne Hbody _ stk0 (f :: env) s2 _ _ Hcb He) as S3.
              destruct r as [v|g|]; simpl in S3 |- *; auto.
              ** eapply star_trans; [exact Sadd|]. eapply star_trans; [exact S1|]. eapply star_trans; [exact S2|].
                 eapply star_trans; [exact S3|].
                 apply star_one. unfold step; cbn [pc stk scopes st]. fetch Hrem. f_equal. f_equal. lia.
              ** destruct S3 as (st1 & S3 & A). exists st1. split; [|assumption].
                 eapply star_trans; [exact Sadd|]. eapply star_trans; [exact S1|]. eapply star_trans; [exact S2|]. exact S3.
           ++ inversion He; subst. rewrite <- Efst in Hcp.
              destruct (sim_putenvs n code (rev (combine (map fst bs) vs)) _ stk0 f env s1 _ _ Hcp Eb) as (st1 & S2 & A).
              rewrite Esnd in S2. exists st1. split; [|assumption].
              eapply star_trans; [exact Sadd|]. eapply star_trans; [exact S1|]. exact S2.
           ++ inversion He; subst. exact I.
        -- inversion He; subst.
           destruct (sim_inits n code m IH bs Hbs (S p) stk0 (f :: env) s0 _ _ Hci Ei) as (st1 & S1 & A).
           exists st1. split; [eapply star_trans; eauto|assumption].
        -- inversion He; subst. exact I.
    + (* EScope *)
      apply andb_prop in Hf. destruct Hf as [Hne Hall].
      assert (Hes : es <> []) by (destruct es; [discriminate|congruence]).
      simpl gen in Hc. pose proof (code_at_head _ _ _ _ Hc) as Hadd. apply code_at_cons in Hc.
      apply code_at_app in Hc. destruct Hc as [Hcb Hc]. pose proof (code_at_head _ _ _ _ Hc) as Hrem.
      rewrite scope_fresh in He. set (f := length (frames s)) in *. set (s0 := snd (push_frame s)) in *.
      assert (Ep : push_frame s = (f, s0)) by reflexivity.
      assert (Sadd : star n code (mkVm p stk0 env s) (mkVm (S p) stk0 (f :: env) s0)).
      { apply star_one. unfold step; cbn [pc stk scopes st]. rewrite Hadd, Ep. reflexivity. }
      simpl gen. simpl length. rewrite !app_length. simpl length.
      pose proof (sim_scope_body n code m IH es Hes Hall _ stk0 (f :: env) s0 _ _ Hcb He) as S2.
      destruct r as [v|g|]; simpl in S2 |- *; auto.
      * eapply star_trans; [exact Sadd|]. eapply star_trans; [exact S2|].
        apply star_one. unfold step; cbn [pc stk scopes st]. fetch Hrem. f_equal. f_equal. lia.
      * destruct S2 as (st1 & S2 & A). exists st1. split; [|assumption].
        eapply star_trans; [exact Sadd|]. exact S2.
Qed.

(* star and the bounded run function *)
Lemma star_run : forall n code a b, star n code a b ->
  forall k r s', run n code k b = (r, s') -> r <> Fuel -> exists k', run n code k' a = (r, s').
Proof.
  intros n code a b H. induction H; intros k r s' Hr Hn.
  - exists k. assumption.
  - destruct (IHstar k r s' Hr Hn) as [k' E]. exists (S k'). simpl. rewrite H. assumption.
Qed.

(* The whole-expression statement: if the reference evaluator finishes on an F0 expression, then
   the VM run on the generated code finishes with the same value (on top of an empty stack),
   or the same error signal, and the same store (hence the same trace), when given enough steps. *)
Theorem vm_refines_ref_F0 : forall n e env s r s',
  f0 e = true -> eval n env e s = (r, s') -> r <> Fuel ->
  exists k, run n (gen e) k (mkVm 0 [] env s) = (r, s').
Proof.
  intros n e env s r s' Hf He Hr.
  assert (Hc : code_at (gen e) 0 (gen e)). { exists [], []. rewrite app_nil_r. auto. }
  pose proof (gen_sim n (gen e) n (le_n n) e Hf 0%nat [] env s r s' Hc He) as S.
  destruct r as [v|g|]; [| |congruence]; simpl in S.
  - eapply (star_run _ _ _ _ S 1%nat). 2: discriminate.
    simpl. unfold step; cbn [pc stk scopes st].
    assert (E : nth_error (gen e) (length (gen e)) = None) by (apply nth_error_None; lia).
    rewrite E. reflexivity.
  - destruct S as (st1 & S & A). eapply (star_run _ _ _ _ S 1%nat). 2: discriminate.
    simpl. rewrite A. reflexivity.
Qed.
