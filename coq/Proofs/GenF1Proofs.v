(* Proofs about Model/GenF1.v: the code generated for the fragment F1 (F0 + for loops with plain and
   labelled break/continue; mirror of generator.go:GenerateForLoop / GenerateBreak / GenerateContinue
   and of the loop / stack-mark instructions of vm.go), run by the VM step function, computes what
   the reference evaluator computes, for all nestings.  Induction on the evaluator's fuel; the
   iterations of a loop by induction on the loop fuel of RefSem.for_loop. *)
From Coq Require Import ZArith Bool List Lia.
From ZV Require Import Model.Num Model.RefSem Model.GenF1 Proofs.RefSemProofs.
Import ListNotations.
Open Scope Z_scope.

Arguments type_of : simpl never.
Arguments call_expr : simpl never.
Arguments bind : simpl never.

Definition code_at (code : list instr) (p : nat) (c : list instr) : Prop :=
  exists pre post, code = pre ++ c ++ post /\ length pre = p.

Lemma code_at_app : forall code p c1 c2, code_at code p (c1 ++ c2) ->
  code_at code p c1 /\ code_at code (p + length c1) c2.
Proof.
  intros code p c1 c2 (pre & post & E & L). split.
  - exists pre, (c2 ++ post). rewrite E, <- app_assoc. auto.
  - exists (pre ++ c1), post. rewrite E, <- !app_assoc. split; [reflexivity|].
    rewrite app_length. lia.
Qed.

Lemma code_at_head : forall code p i c, code_at code p (i :: c) -> nth_error code p = Some i.
Proof.
  intros code p i c (pre & post & E & L). subst. rewrite nth_error_app2 by lia.
  rewrite Nat.sub_diag. reflexivity.
Qed.

Lemma code_at_cons : forall code p i c, code_at code p (i :: c) -> code_at code (S p) c.
Proof.
  intros code p i c H. change (i :: c) with ([i] ++ c) in H.
  apply code_at_app in H. destruct H as [_ H]. simpl in H. rewrite Nat.add_1_r in H. exact H.
Qed.

(* runtime view of an enclosing loop of the compile unit *)
Record rl := mkRl {
  rl_lbl : option ident; rl_id : nat; rl_depth : nat;     (* what the generator knows (cloop) *)
  rl_pos : nat; rl_bo : nat; rl_co : nat;                 (* where its LoopStart is, its offsets *)
  rl_env : list nat;                                      (* scope chain at the loop's own level *)
  rl_below : list selem                                   (* data stack below the loop's mark *)
}.
Definition cl_of (l : rl) : cloop := (rl_lbl l, rl_id l, rl_depth l).

Definition marks_gt (b : nat) (s : list selem) : Prop :=
  Forall (fun x => match x with SM i => (b < i)%nat | SV _ => True end) s.

Lemma pop_until_found : forall id above rest, marks_gt id above ->
  pop_until id (above ++ SM id :: rest) = Some (SM id :: rest).
Proof.
  induction above as [|x a IH]; intros rest H; simpl.
  - rewrite Nat.eqb_refl. reflexivity.
  - inversion H; subst. destruct x as [v|i].
    + apply IH. assumption.
    + destruct (Nat.eqb id i) eqn:E; [apply Nat.eqb_eq in E; lia|]. apply IH. assumption.
Qed.

Lemma marks_gt_weaken : forall a b s, (a <= b)%nat -> marks_gt b s -> marks_gt a s.
Proof.
  intros a b s L H. unfold marks_gt in *. rewrite Forall_forall in *. intros x Hx.
  specialize (H x Hx). destruct x; auto. lia.
Qed.

Lemma find_cl : forall lb L, find (cl_hits lb) (map cl_of L) =
  match find (fun l => hits lb (rl_lbl l)) L with Some l => Some (cl_of l) | None => None end.
Proof.
  intros lb L. induction L as [|l r IH]; simpl; [reflexivity|].
  unfold cl_hits at 1. simpl. destruct (hits lb (rl_lbl l)); [reflexivity|apply IH].
Qed.

Ltac fetch H :=
  match type of H with
  | nth_error ?c ?p0 = _ =>
    match goal with |- context [nth_error c ?q] => replace q with p0 by lia end
  end; rewrite H.

Section Sim.
  Variable n : nat.
  Variable code : list instr.

  Inductive star : vmstate -> vmstate -> Prop :=
  | star_refl : forall s, star s s
  | star_step : forall s s1 s2, step n code s = Next s1 -> star s1 s2 -> star s s2.

  Lemma star_trans : forall a b c, star a b -> star b c -> star a c.
  Proof. intros a b c H. induction H; intros; [assumption|]. econstructor; eauto. Qed.

  Lemma star_one : forall a b, step n code a = Next b -> star a b.
  Proof. intros. econstructor; [eassumption|constructor]. Qed.

  (* the invariant that ties the running state to an enclosing loop *)
  Definition linv (sc : nat) (env : list nat) (stk0 : list selem) (l : rl) : Prop :=
    find_loop code (rl_id l) O = Some (rl_pos l, rl_bo l, rl_co l) /\
    exists extra above, env = extra ++ rl_env l /\ (length extra + rl_depth l = sc)%nat /\
                        stk0 = above ++ SM (rl_id l) :: rl_below l /\ marks_gt (rl_id l) above.
  Definition inv (L : list rl) (sc : nat) (env : list nat) (stk0 : list selem) : Prop :=
    Forall (linv sc env stk0) L.

  Lemma inv_push : forall L sc env stk0 v, inv L sc env stk0 -> inv L sc env (SV v :: stk0).
  Proof.
    unfold inv. intros L sc env stk0 v H. rewrite Forall_forall in *. intros l Hl.
    destruct (H l Hl) as (F & extra & above & E1 & E2 & E3 & E4). split; [assumption|].
    exists extra, (SV v :: above). repeat split; auto. - rewrite E3. reflexivity. - constructor; auto.
  Qed.

  Lemma inv_scope : forall L sc env stk0 f, inv L sc env stk0 -> inv L (S sc) (f :: env) stk0.
  Proof.
    unfold inv. intros L sc env stk0 f H. rewrite Forall_forall in *. intros l Hl.
    destruct (H l Hl) as (F & extra & above & E1 & E2 & E3 & E4). split; [assumption|].
    exists (f :: extra), above. repeat split; auto. - rewrite E1. reflexivity. - simpl. lia.
  Qed.

  (* where a break (use_bo) / continue lands: at the exit / increment position of the innermost
     loop it addresses, with that loop's scope chain, and only junk above that loop's mark *)
  Definition exits (L : list rl) (lb : option ident) (use_bo : bool)
             (a : vmstate) (s' : store) : Prop :=
    match find (fun l => hits lb (rl_lbl l)) L with
    | Some l => exists above, marks_gt (rl_id l) above /\
                  star a (mkVm (rl_pos l + (if use_bo then rl_bo l else rl_co l))
                               (above ++ SM (rl_id l) :: rl_below l) (rl_env l) s')
    | None => True
    end.

  (* the outcome (r, s') of the evaluator is simulated from state a; a value ends at pc q with the
     value on top of stk0 and the scope chain env *)
  Definition simS (L : list rl) (a : vmstate) (q : nat) (stk0 : list selem) (env : list nat)
             (r : res value) (s' : store) : Prop :=
    match r with
    | Done v => star a (mkVm q (SV v :: stk0) env s')
    | Sig (SErr e) => exists m, star a m /\ step n code m = Abort (SErr e) s'
    | Sig (SBreak lb) => exits L lb true a s'
    | Sig (SCont lb) => exits L lb false a s'
    | Fuel => True
    end.

  Definition sim (L : list rl) (p q : nat) (stk0 : list selem) (env : list nat) (s : store)
             (r : res value) (s' : store) : Prop :=
    simS L (mkVm p stk0 env s) q stk0 env r s'.

  Lemma exits_prefix : forall L lb b a a1 s', star a a1 -> exits L lb b a1 s' -> exits L lb b a s'.
  Proof.
    unfold exits. intros L lb b a a1 s' H E. destruct (find _ L); auto.
    destruct E as (above & M & S). exists above. split; [assumption|eapply star_trans; eauto].
  Qed.

  Lemma simS_prefix : forall L a a1 q stk0 env r s',
    star a a1 -> simS L a1 q stk0 env r s' -> simS L a q stk0 env r s'.
  Proof.
    intros L a a1 q stk0 env r s' H S. destruct r as [v|[lb|lb|e]|]; simpl in *; auto.
    - eapply star_trans; eauto.
    - eapply exits_prefix; eauto.
    - eapply exits_prefix; eauto.
    - destruct S as (m & Hm & Ha). exists m. split; [eapply star_trans; eauto|assumption].
  Qed.

  (* a signal does not depend on where the form ends, nor on what is below it *)
  Lemma simS_sig : forall L a q stk0 env q' stk1 env1 g s',
    simS L a q stk0 env (Sig g) s' -> simS L a q' stk1 env1 (Sig g) s'.
  Proof. intros. destruct g; exact H. Qed.

  (* a signal of a sub-form, reached after some steps, is the signal of the whole form *)
  Lemma sim_sig_prefix : forall L p q stk0 env s p1 q1 stk1 env1 s1 g s',
    star (mkVm p stk0 env s) (mkVm p1 stk1 env1 s1) ->
    sim L p1 q1 stk1 env1 s1 (Sig g) s' -> sim L p q stk0 env s (Sig g) s'.
  Proof.
    intros. unfold sim in *. eapply simS_prefix; [eassumption|]. eapply simS_sig. eassumption.
  Qed.

  Lemma sim_prefix : forall L p p1 q stk0 env s s1 r s',
    star (mkVm p stk0 env s) (mkVm p1 stk0 env s1) -> sim L p1 q stk0 env s1 r s' -> sim L p q stk0 env s r s'.
  Proof. intros. unfold sim in *. eapply simS_prefix; eauto. Qed.

  Lemma sim_sig_q : forall L p q q' stk0 env s g s',
    sim L p q stk0 env s (Sig g) s' -> sim L p q' stk0 env s (Sig g) s'.
  Proof. intros. destruct g; exact H. Qed.

  Definition IHexpr (m : nat) : Prop :=
    forall e, f1 e = true -> forall c nid L p stk0 env s r s',
      c_loops c = map cl_of L -> Forall (fun l => (rl_id l < nid)%nat) L ->
      inv L (c_scopes c) env stk0 ->
      code_at code p (gen c nid e) -> eval m env e s = (r, s') ->
      sim L p (p + length (gen c nid e)) stk0 env s r s'.

  Lemma ne_code : forall c nid e, ne e = true -> gen c nid e <> [].
  Proof.
    intros c nid e H. destruct e; simpl in H |- *; try discriminate.
    - destruct arms as [|[t b] r]; [discriminate|]. simpl. intros C. apply app_eq_nil in C. destruct C as [_ C]. discriminate.
    - destruct es as [|a [|b r]]; try discriminate. simpl. intros C. apply app_eq_nil in C. destruct C as [_ C]. discriminate.
    - destruct es as [|a [|b r]]; try discriminate. simpl. intros C. apply app_eq_nil in C. destruct C as [_ C]. discriminate.
    - intros C. apply app_eq_nil in C. destruct C as [_ C]. discriminate.
    - intros C. apply app_eq_nil in C. destruct C as [_ C]. discriminate.
    - destruct seq; discriminate.
  Qed.

  Lemma Forall_lt_mono : forall (L : list rl) a b, (a <= b)%nat ->
    Forall (fun l => (rl_id l < a)%nat) L -> Forall (fun l => (rl_id l < b)%nat) L.
  Proof. intros L a b H F. rewrite Forall_forall in *. intros l Hl. specialize (F l Hl). lia. Qed.

  Section Lists.
    Variable m : nat.
    Hypothesis IH : IHexpr m.

    Lemma sim_begin : forall es, forallb f1 es = true -> init_ne es = true ->
      forall c nid L p stk0 env s r s',
      c_loops c = map cl_of L -> Forall (fun l => (rl_id l < nid)%nat) L -> inv L (c_scopes c) env stk0 ->
      code_at code p (gen_begin gen nloops c nid es) ->
      ev_begin (eval m) env es s = (r, s') ->
      sim L p (p + length (gen_begin gen nloops c nid es)) stk0 env s r s'.
    Proof.
      induction es as [|e rest IHes]; intros Hf Hn c nid L p stk0 env s r s' HL Hid Hinv Hc He.
      - simpl in *. unfold ret in He. inversion He; subst. simpl. rewrite Nat.add_1_r.
        apply star_one. unfold step; cbn [pc stk scopes st]. rewrite (code_at_head _ _ _ _ Hc). reflexivity.
      - simpl in Hf. apply andb_prop in Hf. destruct Hf as [Hfe Hfr].
        destruct rest as [|e2 rest].
        + simpl in *. eapply IH; eauto.
        + change (init_ne (e :: e2 :: rest)) with (ne e && init_ne (e2 :: rest)) in Hn.
          apply andb_prop in Hn. destruct Hn as [Hne Hnr].
          change (gen_begin gen nloops c nid (e :: e2 :: rest)) with
            ((match gen c nid e with [] => [] | _ => gen c nid e ++ [IPop] end) ++
             gen_begin gen nloops c (nid + nloops e) (e2 :: rest)) in *.
          pose proof (ne_code c nid e Hne) as Hcode.
          destruct (gen c nid e) as [|i0 c0] eqn:Eg; [congruence|]. rewrite <- Eg in *.
          rewrite app_length. rewrite app_length. simpl length at 2.
          apply code_at_app in Hc. destruct Hc as [Hc1 Hc2].
          apply code_at_app in Hc1. destruct Hc1 as [Hce1 Hpop].
          rewrite ev_begin_cons in He by discriminate. unfold bindM in He.
          destruct (eval m env e s) as [[v|g|] s1] eqn:Ee.
          * pose proof (IH e Hfe c nid L p stk0 env s _ _ HL Hid Hinv Hce1 Ee) as S1. simpl in S1.
            eapply sim_prefix.
            -- eapply star_trans; [exact S1|]. apply star_one. unfold step; cbn [pc stk scopes st].
               rewrite (code_at_head _ _ _ _ Hpop). reflexivity.
            -- rewrite app_length in Hc2. simpl in Hc2.
               match goal with |- sim _ _ ?q _ _ _ _ _ =>
                 replace q with ((p + (length (gen c nid e) + 1)) + length (gen_begin gen nloops c (nid + nloops e) (e2 :: rest)))%nat by lia end.
               replace (S (p + length (gen c nid e))) with (p + (length (gen c nid e) + 1))%nat by lia.
               apply IHes; auto. eapply Forall_lt_mono; [|exact Hid]. lia.
          * inversion He; subst. eapply sim_sig_q. exact (IH e Hfe c nid L p stk0 env s _ _ HL Hid Hinv Hce1 Ee).
          * inversion He; subst. exact I.
    Qed.

    Lemma sim_scope_body : forall es, es <> [] -> forallb f1 es = true ->
      forall c nid L p stk0 env s r s',
      c_loops c = map cl_of L -> Forall (fun l => (rl_id l < nid)%nat) L -> inv L (c_scopes c) env stk0 ->
      code_at code p (gen_scope_body gen nloops c nid es) ->
      ev_begin (eval m) env es s = (r, s') ->
      sim L p (p + length (gen_scope_body gen nloops c nid es)) stk0 env s r s'.
    Proof.
      induction es as [|e rest IHes]; intros Hne Hf c nid L p stk0 env s r s' HL Hid Hinv Hc He; [congruence|].
      simpl in Hf. apply andb_prop in Hf. destruct Hf as [Hfe Hfr].
      destruct rest as [|e2 rest].
      - simpl in *. eapply IH; eauto.
      - change (gen_scope_body gen nloops c nid (e :: e2 :: rest)) with
          (gen c nid e ++ [IPop] ++ gen_scope_body gen nloops c (nid + nloops e) (e2 :: rest)) in *.
        rewrite app_length. rewrite app_length. simpl length at 2.
        apply code_at_app in Hc. destruct Hc as [Hce1 Hc2].
        apply code_at_app in Hc2. destruct Hc2 as [Hpop Hc2]. simpl in Hc2.
        rewrite ev_begin_cons in He by discriminate. unfold bindM in He.
        destruct (eval m env e s) as [[v|g|] s1] eqn:Ee.
        + pose proof (IH e Hfe c nid L p stk0 env s _ _ HL Hid Hinv Hce1 Ee) as S1. simpl in S1.
          eapply sim_prefix.
          * eapply star_trans; [exact S1|]. apply star_one. unfold step; cbn [pc stk scopes st].
            rewrite (code_at_head _ _ _ _ Hpop). reflexivity.
          * match goal with |- sim _ _ ?q _ _ _ _ _ =>
              replace q with ((p + length (gen c nid e) + 1) + length (gen_scope_body gen nloops c (nid + nloops e) (e2 :: rest)))%nat by lia end.
            replace (S (p + length (gen c nid e))) with (p + length (gen c nid e) + 1)%nat by lia.
            apply IHes; auto; [discriminate|]. eapply Forall_lt_mono; [|exact Hid]. lia.
        + inversion He; subst. eapply sim_sig_q. exact (IH e Hfe c nid L p stk0 env s _ _ HL Hid Hinv Hce1 Ee).
        + inversion He; subst. exact I.
    Qed.

    Lemma sim_cond : forall arms d, forallb (fun cb => f1 (fst cb) && f1 (snd cb)) arms = true -> f1 d = true ->
      forall c nid L p stk0 env s r s',
      c_loops c = map cl_of L -> Forall (fun l => (rl_id l < nid)%nat) L -> inv L (c_scopes c) env stk0 ->
      code_at code p (gen_cond gen nloops c nid arms (fun n' => gen c n' d)) ->
      ev_cond (eval m) env arms d s = (r, s') ->
      sim L p (p + length (gen_cond gen nloops c nid arms (fun n' => gen c n' d))) stk0 env s r s'.
    Proof.
      induction arms as [|[t b] rest IHa]; intros d Hf Hd c nid L p stk0 env s r s' HL Hid Hinv Hc He.
      - simpl in *. eapply IH; eauto.
      - simpl in Hf. apply andb_prop in Hf. destruct Hf as [Hcb Hfr]. apply andb_prop in Hcb. destruct Hcb as [Hft Hfb].
        simpl in Hc, He |- *. unfold bindM in He.
        set (restc := gen_cond gen nloops c (nid + nloops t + nloops b) rest (fun n' => gen c n' d)) in *.
        apply code_at_app in Hc. destruct Hc as [Hcc Hc].
        pose proof (code_at_head _ _ _ _ Hc) as Hbr. apply code_at_cons in Hc.
        apply code_at_app in Hc. destruct Hc as [Hcbody Hc].
        pose proof (code_at_head _ _ _ _ Hc) as Hjmp. apply code_at_cons in Hc.
        rewrite !app_length. simpl length. rewrite !app_length. simpl length.
        assert (Hid1 : Forall (fun l => (rl_id l < nid + nloops t)%nat) L) by (eapply Forall_lt_mono; [|exact Hid]; lia).
        assert (Hid2 : Forall (fun l => (rl_id l < nid + nloops t + nloops b)%nat) L) by (eapply Forall_lt_mono; [|exact Hid]; lia).
        destruct (eval m env t s) as [[v|g|] s1] eqn:Ec.
        + pose proof (IH t Hft c nid L p stk0 env s _ _ HL Hid Hinv Hcc Ec) as S1. simpl in S1.
          destruct (truthy v) eqn:Ht.
          * pose proof (IH b Hfb c _ L (S (p + length (gen c nid t))) stk0 env s1 _ _ HL Hid1 Hinv Hcbody He) as S2.
            eapply sim_prefix.
            -- eapply star_trans; [exact S1|]. apply star_one. unfold step; cbn [pc stk scopes st]. rewrite Hbr. simpl.
               rewrite Ht. simpl. reflexivity.
            -- destruct r as [w|g|]; [| |exact I].
               ++ simpl in S2 |- *. eapply star_trans; [exact S2|]. apply star_one. unfold step; cbn [pc stk scopes st].
                  rewrite Nat.add_succ_l in Hjmp. rewrite Hjmp. f_equal. f_equal. lia.
               ++ eapply sim_sig_q. exact S2.
          * eapply sim_prefix.
            -- eapply star_trans; [exact S1|]. apply star_one. unfold step; cbn [pc stk scopes st]. rewrite Hbr. simpl.
               rewrite Ht. simpl. reflexivity.
            -- match goal with |- sim _ ?a ?q _ _ _ _ _ =>
                 replace a with (S (S (p + length (gen c nid t)) + length (gen c (nid + nloops t) b))) by lia;
                 replace q with (S (S (p + length (gen c nid t)) + length (gen c (nid + nloops t) b)) + length restc)%nat by lia end.
               apply IHa; auto.
        + inversion He; subst. eapply sim_sig_q. exact (IH t Hft c nid L p stk0 env s _ _ HL Hid Hinv Hcc Ec).
        + inversion He; subst. exact I.
    Qed.

    Lemma sim_sc : forall (or : bool) es, es <> [] -> forallb f1 es = true ->
      forall c nid L p stk0 env s r s',
      c_loops c = map cl_of L -> Forall (fun l => (rl_id l < nid)%nat) L -> inv L (c_scopes c) env stk0 ->
      code_at code p (gen_sc gen nloops c nid or es) ->
      (if or then ev_or (eval m) env es s else ev_and (eval m) env es s) = (r, s') ->
      sim L p (p + length (gen_sc gen nloops c nid or es)) stk0 env s r s'.
    Proof.
      intros or. induction es as [|e rest IHes]; intros Hne Hf c nid L p stk0 env s r s' HL Hid Hinv Hc He; [congruence|].
      simpl in Hf. apply andb_prop in Hf. destruct Hf as [Hfe Hfr].
      destruct rest as [|e2 rest].
      - simpl in *. destruct or; eapply IH; eauto.
      - change (gen_sc gen nloops c nid or (e :: e2 :: rest)) with
          (gen c nid e ++ [IDup; IBranch or (length (gen_sc gen nloops c (nid + nloops e) or (e2 :: rest)) + 2); IPop] ++
           gen_sc gen nloops c (nid + nloops e) or (e2 :: rest)) in *.
        set (restc := gen_sc gen nloops c (nid + nloops e) or (e2 :: rest)) in *.
        apply code_at_app in Hc. destruct Hc as [Hce Hc].
        pose proof (code_at_head _ _ _ _ Hc) as Hdup. apply code_at_cons in Hc.
        pose proof (code_at_head _ _ _ _ Hc) as Hbr. apply code_at_cons in Hc.
        pose proof (code_at_head _ _ _ _ Hc) as Hpop. apply code_at_cons in Hc.
        rewrite !app_length. simpl length.
        assert (He' : (v <- eval m env e ;;
                       if truthy v then (if or then ret v else (if or then ev_or (eval m) env (e2 :: rest) else ev_and (eval m) env (e2 :: rest)))
                       else (if or then (if or then ev_or (eval m) env (e2 :: rest) else ev_and (eval m) env (e2 :: rest)) else ret v)) s = (r, s')).
        { destruct or; exact He. }
        clear He. unfold bindM in He'.
        destruct (eval m env e s) as [[v|g|] s1] eqn:Ee.
        + pose proof (IH e Hfe c nid L p stk0 env s _ _ HL Hid Hinv Hce Ee) as S1. simpl in S1.
          assert (Sdup : star (mkVm p stk0 env s) (mkVm (S (p + length (gen c nid e))) (SV v :: SV v :: stk0) env s1)).
          { eapply star_trans; [exact S1|]. apply star_one. unfold step; cbn [pc stk scopes st]. rewrite Hdup. reflexivity. }
          destruct (Bool.eqb or (truthy v)) eqn:Edir.
          * assert (Ev : (r, s') = (Done v, s1)).
            { destruct or; destruct (truthy v); simpl in Edir; try discriminate; unfold ret in He'; congruence. }
            inversion Ev; subst. simpl.
            eapply star_trans; [exact Sdup|]. apply star_one. unfold step; cbn [pc stk scopes st]. rewrite Hbr. simpl.
            rewrite Edir. f_equal. f_equal. lia.
          * eapply sim_prefix.
            -- eapply star_trans; [exact Sdup|]. eapply star_step.
               ++ unfold step; cbn [pc stk scopes st]. rewrite Hbr. simpl. rewrite Edir. reflexivity.
               ++ apply star_one. unfold step; cbn [pc stk scopes st]. rewrite Hpop. reflexivity.
            -- match goal with |- sim _ _ ?q _ _ _ _ _ =>
                 replace q with (S (S (S (p + length (gen c nid e)))) + length restc)%nat by lia end.
               apply IHes; auto; [discriminate|eapply Forall_lt_mono; [|exact Hid]; lia|].
               destruct or; destruct (truthy v); simpl in Edir; try discriminate; exact He'.
        + inversion He'; subst. eapply sim_sig_q. exact (IH e Hfe c nid L p stk0 env s _ _ HL Hid Hinv Hce Ee).
        + inversion He'; subst. exact I.
    Qed.
    Lemma sim_inits : forall bs, forallb (fun xb => f1 (snd xb)) bs = true ->
      forall c nid L p stk0 env s r s',
      c_loops c = map cl_of L -> Forall (fun l => (rl_id l < nid)%nat) L -> inv L (c_scopes c) env stk0 ->
      code_at code p (gen_inits gen nloops c nid bs) ->
      ev_list (eval m) env (map snd bs) s = (r, s') ->
      match r with
      | Done vs => star (mkVm p stk0 env s)
                        (mkVm (p + length (gen_inits gen nloops c nid bs)) (map SV (rev vs) ++ stk0) env s') /\
                   length vs = length bs
      | Sig g => sim L p 0 stk0 env s (Sig g) s'
      | Fuel => True
      end.
    Proof.
      induction bs as [|[x e] rest IHb]; intros Hf c nid L p stk0 env s r s' HL Hid Hinv Hc He.
      - simpl in *. unfold ret in He. inversion He; subst. simpl. rewrite Nat.add_0_r. split; [constructor|reflexivity].
      - simpl in Hf. apply andb_prop in Hf. destruct Hf as [Hfe Hfr].
        simpl in Hc, He. unfold bindM in He. apply code_at_app in Hc. destruct Hc as [Hce Hcr].
        destruct (eval m env e s) as [[v|g|] s1] eqn:Ee.
        + pose proof (IH e Hfe c nid L p stk0 env s _ _ HL Hid Hinv Hce Ee) as S1. simpl in S1.
          assert (Hid' : Forall (fun l => (rl_id l < nid + nloops e)%nat) L) by (eapply Forall_lt_mono; [|exact Hid]; lia).
          pose proof (IHb Hfr c (nid + nloops e)%nat L (p + length (gen c nid e))%nat (SV v :: stk0) env s1) as IHb'.
          destruct (ev_list (eval m) env (map snd rest) s1) as [[vs|g|] s2] eqn:Er.
          * unfold ret in He. inversion He; subst.
            destruct (IHb' _ _ HL Hid' (inv_push _ _ _ _ v Hinv) Hcr eq_refl) as [S2 Lv].
            split; [|simpl; congruence].
            simpl gen_inits. rewrite app_length, Nat.add_assoc. simpl rev. rewrite map_app, <- app_assoc. simpl.
            eapply star_trans; eauto.
          * inversion He; subst.
            pose proof (IHb' _ _ HL Hid' (inv_push _ _ _ _ v Hinv) Hcr eq_refl) as S2.
            eapply sim_sig_prefix; [exact S1|exact S2].
          * inversion He; subst. exact I.
        + inversion He; subst. eapply sim_sig_q. exact (IH e Hfe c nid L p stk0 env s _ _ HL Hid Hinv Hce Ee).
        + inversion He; subst. exact I.
    Qed.

    Lemma sim_putenvs : forall ps L p stk0 f env s r s',
      code_at code p (map IPutEnv (map fst ps)) ->
      bind_all f ps s = (r, s') ->
      match r with
      | Done _ => star (mkVm p (map SV (map snd ps) ++ stk0) (f :: env) s) (mkVm (p + length ps) stk0 (f :: env) s')
      | Sig g => simS L (mkVm p (map SV (map snd ps) ++ stk0) (f :: env) s) 0 stk0 env (Sig g) s'
      | Fuel => True
      end.
    Proof.
      induction ps as [|[x v] rest IHp]; intros L p stk0 f env s r s' Hc He.
      - simpl in *. unfold ret in He. inversion He; subst. rewrite Nat.add_0_r. constructor.
      - simpl in Hc, He. unfold bindM in He.
        pose proof (code_at_head _ _ _ _ Hc) as Hi. apply code_at_cons in Hc.
        pose proof (quiet_bind_frame f x v s) as Q.
        destruct (bind f x v s) as [[u|g|] s1] eqn:Eb.
        + assert (St : step n code (mkVm p (map SV (map snd ((x, v) :: rest)) ++ stk0) (f :: env) s) =
                       Next (mkVm (S p) (map SV (map snd rest) ++ stk0) (f :: env) s1)).
          { unfold step; cbn [pc stk scopes st]. rewrite Hi. simpl. rewrite Eb. reflexivity. }
          specialize (IHp L (S p) stk0 f env s1 r s' Hc He).
          destruct r as [w|g|]; auto.
          * simpl length. replace (p + S (length rest))%nat with (S p + length rest)%nat by lia.
            econstructor; eauto.
          * eapply simS_prefix; [apply star_one; exact St|exact IHp].
        + inversion He; subst. destruct (Q _ _ eq_refl) as [Qb Qc].
          destruct g as [lb|lb|e]; [exfalso; eapply Qb; reflexivity|exfalso; eapply Qc; reflexivity|].
          simpl. eexists. split; [constructor|].
          unfold step; cbn [pc stk scopes st]. rewrite Hi. simpl. rewrite Eb. reflexivity.
        + inversion He; subst. exact I.
    Qed.

    Lemma sim_letseq : forall bs, forallb (fun xb => f1 (snd xb)) bs = true ->
      forall c nid L p stk0 f env s r s',
      c_loops c = map cl_of L -> Forall (fun l => (rl_id l < nid)%nat) L -> inv L (c_scopes c) (f :: env) stk0 ->
      code_at code p (gen_letseq gen nloops c nid bs) ->
      ev_letseq (eval m) f (f :: env) bs s = (r, s') ->
      match r with
      | Done _ => star (mkVm p stk0 (f :: env) s) (mkVm (p + length (gen_letseq gen nloops c nid bs)) stk0 (f :: env) s')
      | Sig g => sim L p 0 stk0 (f :: env) s (Sig g) s'
      | Fuel => True
      end.
    Proof.
      induction bs as [|[x e] rest IHb]; intros Hf c nid L p stk0 f env s r s' HL Hid Hinv Hc He.
      - simpl in *. unfold ret in He. inversion He; subst. rewrite Nat.add_0_r. constructor.
      - simpl in Hf. apply andb_prop in Hf. destruct Hf as [Hfe Hfr].
        simpl in Hc, He. unfold bindM in He. apply code_at_app in Hc. destruct Hc as [Hce Hc].
        pose proof (code_at_head _ _ _ _ Hc) as Hi. apply code_at_cons in Hc.
        assert (Hid' : Forall (fun l => (rl_id l < nid + nloops e)%nat) L) by (eapply Forall_lt_mono; [|exact Hid]; lia).
        destruct (eval m (f :: env) e s) as [[v|g|] s1] eqn:Ee.
        + pose proof (IH e Hfe c nid L p stk0 (f :: env) s _ _ HL Hid Hinv Hce Ee) as S1. simpl in S1.
          pose proof (quiet_bind_frame f x v s1) as Q.
          destruct (bind f x v s1) as [[u|g|] s2] eqn:Eb.
          * assert (St : step n code (mkVm (p + length (gen c nid e)) (SV v :: stk0) (f :: env) s1) =
                         Next (mkVm (S (p + length (gen c nid e))) stk0 (f :: env) s2)).
            { unfold step; cbn [pc stk scopes st]. rewrite Hi. simpl. rewrite Eb. reflexivity. }
            specialize (IHb Hfr c _ L (S (p + length (gen c nid e))) stk0 f env s2 r s' HL Hid' Hinv Hc He).
            simpl gen_letseq. rewrite app_length. simpl length.
            destruct r as [w|g|]; auto.
            -- replace (p + (length (gen c nid e) + S (length (gen_letseq gen nloops c (nid + nloops e) rest))))%nat
                 with (S (p + length (gen c nid e)) + length (gen_letseq gen nloops c (nid + nloops e) rest))%nat by lia.
               eapply star_trans; [exact S1|]. econstructor; eauto.
            -- eapply sim_sig_prefix; [|exact IHb]. eapply star_trans; [exact S1|]. apply star_one. exact St.
          * inversion He; subst. destruct (Q _ _ eq_refl) as [Qb Qc].
            destruct g as [lb|lb|e0]; [exfalso; eapply Qb; reflexivity|exfalso; eapply Qc; reflexivity|].
            simpl. eexists. split; [exact S1|].
            unfold step; cbn [pc stk scopes st]. rewrite Hi. simpl. rewrite Eb. reflexivity.
          * inversion He; subst. exact I.
        + inversion He; subst. eapply sim_sig_q. exact (IH e Hfe c nid L p stk0 (f :: env) s _ _ HL Hid Hinv Hce Ee).
        + inversion He; subst. exact I.
    Qed.
    Lemma quiet_eval : forall E env e s r s', cc [] e = true -> eval m env e s = (r, s') ->
      no_loop_sig E (eval m env e) s = (r, s').
    Proof.
      intros E env e s r s' Hc He. unfold no_loop_sig. rewrite He.
      destruct (toplevel_has_no_stray_signal _ _ _ _ _ _ Hc He) as [Hb Hcn].
      destruct r as [v|[lb|lb|e0]|]; try reflexivity; [exfalso; eapply Hb|exfalso; eapply Hcn]; reflexivity.
    Qed.

    Lemma inv_loop : forall L sc env stk0 f lbl id P bo co above,
      inv L sc env stk0 -> Forall (fun l => (rl_id l < id)%nat) L ->
      find_loop code id O = Some (P, bo, co) -> marks_gt id above ->
      inv (mkRl lbl id (S sc) P bo co (f :: env) stk0 :: L) (S sc) (f :: env) (above ++ SM id :: stk0).
    Proof.
      intros L sc env stk0 f lbl id P bo co above Hinv Hid Hfind Hab. constructor.
      - split; [exact Hfind|]. exists [], above. simpl. repeat split; auto.
      - unfold inv in *. rewrite Forall_forall in *. intros l Hl.
        destruct (Hinv l Hl) as (F & extra & ab & E1 & E2 & E3 & E4). specialize (Hid l Hl). split; [assumption|].
        exists (f :: extra), (above ++ SM id :: ab). repeat split.
        + rewrite E1. reflexivity.
        + simpl. lia.
        + rewrite E3, <- app_assoc. reflexivity.
        + unfold marks_gt in *. apply Forall_app. split.
          * eapply marks_gt_weaken; [|exact Hab]. lia.
          * constructor; [assumption|exact E4].
    Qed.

    (* ---- the iterations of a for loop (generator.go:GenerateForLoop layout) ---- *)
    Section For.
      Variables (c : cctx) (nid : nat) (L : list rl) (lbl : option ident) (tx sx : expr) (body : list expr).
      Variables (P bo co : nat) (f : nat) (env : list nat) (stk0 : list selem).
      Variables (nst nt nb : nat).
      Let c1 := inner c lbl nid.
      Let L1 := mkRl lbl nid (S (c_scopes c)) P bo co (f :: env) stk0 :: L.
      Let incr := gen c1 nst sx.
      Let test := gen c1 nt tx.
      Let bodyc := gen_begin gen nloops c1 nb body.
      Let Pinc := (P + co)%nat.
      Let Ptest := (S (S Pinc + length incr)).
      Let Pbody := (Ptest + 3 + length test)%nat.

      Hypothesis HL : c_loops c = map cl_of L.
      Hypothesis Hid : Forall (fun l => (rl_id l < nid)%nat) L.
      Hypothesis Hnst : (nid < nst)%nat.
      Hypothesis Hnt : (nid < nt)%nat.
      Hypothesis Hnb : (nid < nb)%nat.
      Hypothesis Hinv : inv L (c_scopes c) env stk0.
      Hypothesis Hfind : find_loop code nid O = Some (P, bo, co).
      Hypothesis Hft : f1 tx = true.
      Hypothesis Hfst : f1 sx = true.
      Hypothesis Hcct : cc [] tx = true.
      Hypothesis Hccst : cc [] sx = true.
      Hypothesis Hfb : forallb f1 body = true.
      Hypothesis Hneb : init_ne body = true.
      Hypothesis Cinc_lbl : nth_error code Pinc = Some ILabel.
      Hypothesis Cinc : code_at code (S Pinc) incr.
      Hypothesis Cinc_pop : nth_error code (S Pinc + length incr) = Some (IPopUntilMark nid).
      Hypothesis Ctest_lbl : nth_error code Ptest = Some ILabel.
      Hypothesis Ctest : code_at code (S Ptest) test.
      Hypothesis Cbr : nth_error code (S Ptest + length test) = Some (IBranch false (length bodyc + 1 + 3)).
      Hypothesis Cbody_lbl : nth_error code (Ptest + 2 + length test) = Some ILabel.
      Hypothesis Cbody : code_at code Pbody bodyc.
      Hypothesis Cbody_pop : nth_error code (Pbody + length bodyc) = Some (IPopUntilMark nid).
      Hypothesis Cback : nth_error code (Pbody + length bodyc + 1) = Some (IJumpBack (Pbody + length bodyc + 1 - Pinc)).
      Hypothesis Cend_lbl : nth_error code (Pbody + length bodyc + 2) = Some ILabel.
      Hypothesis Hbo : (P + bo = Pbody + length bodyc + 3)%nat.
      Hypothesis Cclear : nth_error code (P + bo) = Some (IClearMark nid).
      Hypothesis Crem : nth_error code (P + bo + 1) = Some IRemoveScope.
      Hypothesis Cnil : nth_error code (P + bo + 2) = Some (IPush ENil).

      Lemma L1_loops : c_loops c1 = map cl_of L1.
      Proof. unfold c1, L1, inner. simpl. rewrite HL. reflexivity. Qed.

      Lemma L1_ids : forall k, (nid < k)%nat -> Forall (fun l => (rl_id l < k)%nat) L1.
      Proof.
        intros k Hk. constructor; [simpl; lia|]. eapply Forall_lt_mono; [|exact Hid]. lia.
      Qed.

      Lemma L1_inv : forall above, marks_gt nid above -> inv L1 (c_scopes c1) (f :: env) (above ++ SM nid :: stk0).
      Proof. intros. unfold L1, c1, inner. simpl. apply inv_loop; auto. Qed.

      (* leaving the loop: ClearStackmark, RemoveScope, Push nil *)
      Lemma for_exit : forall above s, marks_gt nid above ->
        star (mkVm (P + bo) (above ++ SM nid :: stk0) (f :: env) s) (mkVm (P + bo + 3) (SV VNil :: stk0) env s).
      Proof.
        intros above s Hab. unfold Ptest, Pbody, Pinc in *. eapply star_step.
        - unfold step; cbn [pc stk scopes st]. fetch Cclear. unfold clear_mark.
          rewrite (pop_until_found _ _ _ Hab). reflexivity.
        - eapply star_step.
          + unfold step; cbn [pc stk scopes st]. fetch Crem. reflexivity.
          + apply star_one. unfold step; cbn [pc stk scopes st]. fetch Cnil. simpl. f_equal. f_equal. lia.
      Qed.

      (* a signal that escapes the body and does not address this loop is the signal of the loop *)
      Lemma exits_outer : forall lb b a s', hits lb lbl = false -> exits L1 lb b a s' -> exits L lb b a s'.
      Proof. intros lb b a s' Hh E. unfold exits, L1 in E. simpl in E. rewrite Hh in E. exact E. Qed.

      Definition at_test (k : nat) : Prop := forall s r s',
        for_loop (eval m) k (f :: env) lbl tx sx body s = (r, s') ->
        simS L (mkVm Ptest (SM nid :: stk0) (f :: env) s) (P + bo + 3) stk0 env r s'.

      Definition at_inc (k : nat) : Prop := forall above s r s', marks_gt nid above ->
        (_ <- no_loop_sig EUnspec (eval m (f :: env) sx) ;; for_loop (eval m) k (f :: env) lbl tx sx body) s = (r, s') ->
        simS L (mkVm Pinc (above ++ SM nid :: stk0) (f :: env) s) (P + bo + 3) stk0 env r s'.

      Lemma inc_of_test : forall k, at_test k -> at_inc k.
      Proof.
        intros k HT above s r s' Hab He. unfold at_test in HT. unfold Ptest, Pbody, Pinc in *. unfold bindM in He.
        destruct (eval m (f :: env) sx s) as [rs s1] eqn:Est.
        rewrite (quiet_eval EUnspec _ _ _ _ _ Hccst Est) in He.
        assert (S0 : star (mkVm Pinc (above ++ SM nid :: stk0) (f :: env) s) (mkVm (S Pinc) (above ++ SM nid :: stk0) (f :: env) s)).
        { apply star_one. unfold step; cbn [pc stk scopes st]. fetch Cinc_lbl. reflexivity. }
        pose proof (IH sx Hfst c1 nst L1 (S Pinc) (above ++ SM nid :: stk0) (f :: env) s _ _
                       L1_loops (L1_ids _ Hnst) (L1_inv _ Hab) Cinc Est) as S1.
        destruct rs as [v|g|].
        - simpl in S1. fold incr in S1.
          eapply simS_prefix; [|eapply HT; exact He].
          eapply star_trans; [exact S0|]. eapply star_trans; [exact S1|]. eapply star_step.
          + unfold step; cbn [pc stk scopes st]. fetch Cinc_pop.
            change (SV v :: above ++ SM nid :: stk0) with ((SV v :: above) ++ SM nid :: stk0).
            rewrite pop_until_found by (constructor; auto). reflexivity.
          + constructor.
        - inversion He; subst.
          destruct (toplevel_has_no_stray_signal _ _ _ _ _ _ Hccst Est) as [Hb Hc].
          destruct g as [lb|lb|e0]; [exfalso; eapply Hb; reflexivity|exfalso; eapply Hc; reflexivity|].
          eapply simS_prefix; [exact S0|]. exact S1.
        - inversion He; subst. exact I.
      Qed.

      Lemma test_of_inc : forall k, at_inc k -> at_test (S k).
      Proof.
        intros k HI s r s' He. unfold at_inc in HI. unfold Ptest, Pbody, Pinc in *. simpl in He. unfold bindM in He.
        destruct (eval m (f :: env) tx s) as [rt s1] eqn:Et.
        rewrite (quiet_eval EUnspec _ _ _ _ _ Hcct Et) in He.
        assert (S0 : star (mkVm Ptest (SM nid :: stk0) (f :: env) s) (mkVm (S Ptest) (SM nid :: stk0) (f :: env) s)).
        { apply star_one. unfold step; cbn [pc stk scopes st]. fetch Ctest_lbl. reflexivity. }
        assert (Hm0 : marks_gt nid []) by constructor.
        pose proof (IH tx Hft c1 nt L1 (S Ptest) (SM nid :: stk0) (f :: env) s _ _
                       L1_loops (L1_ids _ Hnt) (L1_inv [] Hm0) Ctest Et) as S1.
        destruct rt as [v|g|].
        - simpl in S1. fold test in S1.
          assert (Sv : star (mkVm Ptest (SM nid :: stk0) (f :: env) s) (mkVm (S Ptest + length test) (SV v :: SM nid :: stk0) (f :: env) s1))
            by (eapply star_trans; [exact S0|exact S1]).
          destruct (truthy v) eqn:Htv.
          + (* run the body *)
            assert (Sb : star (mkVm Ptest (SM nid :: stk0) (f :: env) s) (mkVm Pbody (SM nid :: stk0) (f :: env) s1)).
            { eapply star_trans; [exact Sv|]. eapply star_step.
              - unfold step; cbn [pc stk scopes st]. fetch Cbr. simpl. rewrite Htv. simpl. reflexivity.
              - apply star_one. unfold step; cbn [pc stk scopes st].
                fetch Cbody_lbl. f_equal. f_equal. lia. }
            pose proof (sim_begin body Hfb Hneb c1 nb L1 Pbody (SM nid :: stk0) (f :: env) s1) as SB.
            destruct (ev_begin (eval m) (f :: env) body s1) as [rb s2] eqn:Eb.
            specialize (SB _ _ L1_loops (L1_ids _ Hnb) (L1_inv [] Hm0) Cbody eq_refl). fold bodyc in SB.
            assert (Hback : forall above s3, marks_gt nid above ->
                      simS L (mkVm Pinc (above ++ SM nid :: stk0) (f :: env) s3) (P + bo + 3) stk0 env r s' ->
                      star (mkVm Ptest (SM nid :: stk0) (f :: env) s) (mkVm Pinc (above ++ SM nid :: stk0) (f :: env) s3) ->
                      simS L (mkVm Ptest (SM nid :: stk0) (f :: env) s) (P + bo + 3) stk0 env r s').
            { intros above s3 _ Hs Hst. eapply simS_prefix; eauto. }
            destruct rb as [w|[lb|lb|e0]|].
            * (* the body returns: pop until the mark, jump back to the increment *)
              simpl in SB.
              eapply (Hback [] s2 Hm0); [eapply HI; [exact Hm0|exact He]|].
              eapply star_trans; [exact Sb|]. eapply star_trans; [exact SB|]. eapply star_step.
              -- unfold step; cbn [pc stk scopes st]. fetch Cbody_pop.
                 change (SV w :: SM nid :: stk0) with ([SV w] ++ SM nid :: stk0).
                 rewrite pop_until_found by (constructor; [exact I|constructor]). reflexivity.
              -- apply star_one. unfold step; cbn [pc stk scopes st].
                 fetch Cback. cbn [pc stk scopes st]. f_equal. f_equal. lia.
            * (* break *)
              destruct (hits lb lbl) eqn:Hh.
              -- inversion He; subst. simpl in SB. unfold exits, L1 in SB. simpl in SB. rewrite Hh in SB.
                 destruct SB as (above & Hab & SB). simpl in SB. simpl.
                 eapply star_trans; [exact Sb|]. eapply star_trans; [exact SB|]. apply for_exit. exact Hab.
              -- inversion He; subst. simpl. eapply exits_prefix; [exact Sb|]. apply exits_outer; assumption.
            * (* continue *)
              destruct (hits lb lbl) eqn:Hh.
              -- simpl in SB. unfold exits, L1 in SB. simpl in SB. rewrite Hh in SB.
                 destruct SB as (above & Hab & SB). simpl in SB.
                 eapply (Hback above s2 Hab); [eapply HI; [exact Hab|exact He]|].
                 eapply star_trans; [exact Sb|exact SB].
              -- inversion He; subst. simpl. eapply exits_prefix; [exact Sb|]. apply exits_outer; assumption.
            * inversion He; subst. simpl. simpl in SB. destruct SB as (m0 & Sm & A).
              exists m0. split; [eapply star_trans; eauto|assumption].
            * inversion He; subst. exact I.
          + (* the test fails: branch to the end label, leave *)
            unfold ret in He. inversion He; subst. simpl.
            eapply star_trans; [exact Sv|]. eapply star_step.
            * unfold step; cbn [pc stk scopes st]. fetch Cbr. simpl. rewrite Htv. simpl. reflexivity.
            * eapply star_step.
              -- unfold step; cbn [pc stk scopes st].
                 fetch Cend_lbl. reflexivity.
              -- match goal with |- star (mkVm ?a _ _ _) _ => replace a with (P + bo)%nat by lia end.
                 apply (for_exit [] s'). constructor.
        - inversion He; subst.
          destruct (toplevel_has_no_stray_signal _ _ _ _ _ _ Hcct Et) as [Hb Hc].
          destruct g as [lb|lb|e0]; [exfalso; eapply Hb; reflexivity|exfalso; eapply Hc; reflexivity|].
          eapply simS_prefix; [exact S0|]. exact S1.
        - inversion He; subst. exact I.
      Qed.

      Lemma for_iterations : forall k, at_test k.
      Proof.
        induction k as [|k IHk].
        - intros s r s' He. simpl in He. inversion He; subst. exact I.
        - apply test_of_inc. apply inc_of_test. exact IHk.
      Qed.
    End For.
  End Lists.
End Sim.

(* ---- the simulation theorem for F1 ---- *)

Lemma combine_rev_fst : forall (xs : list ident) (vs : list value), length vs = length xs ->
  map fst (rev (combine xs vs)) = rev xs /\ map snd (rev (combine xs vs)) = rev vs.
Proof.
  intros xs vs L. rewrite !map_rev. split; f_equal.
  - revert vs L. induction xs; intros [|v vs] L; simpl in *; try lia; auto. f_equal. apply IHxs. lia.
  - revert vs L. induction xs; intros [|v vs] L; simpl in *; try lia; auto. f_equal. apply IHxs. lia.
Qed.

Lemma call_mono : forall m n env f args s r s', (m <= n)%nat ->
  call_expr (eval m) (apply m) env f args s = (r, s') -> r <> Fuel ->
  call_expr (eval n) (apply n) env f args s = (r, s').
Proof.
  intros m n env f args s r s' L H Hr.
  eapply (le_call_expr (eval m) (eval n) (apply m) (apply n)); eauto.
  - intros env0 e s0 r0 s0' H0 Hr0. eapply eval_fuel_mono; eauto.
  - intros f0 a0 s0 r0 s0' H0 Hr0. eapply apply_fuel_mono; eauto.
Qed.

(* every LoopStart of the code is the first one carrying its loop number *)
Definition loops_unique (code : list instr) : Prop :=
  forall p id bo co, nth_error code p = Some (ILoopStart id bo co) -> find_loop code id O = Some (p, bo, co).

Ltac shift :=
  match goal with
  | |- nth_error ?c ?a = Some ?x =>
    match goal with H : nth_error c ?b = Some x |- _ => replace a with b by lia; exact H end
  | |- code_at ?c ?a ?cc =>
    match goal with H : code_at c ?b cc |- _ => replace a with b by lia; exact H end
  end.

Theorem gen_sim : forall n code, loops_unique code -> forall m, (m <= n)%nat -> IHexpr n code m.
Proof.
  intros n code Huniq. induction m as [|m IHm]; intros Hle.
  - intros e Hf c nid L p stk0 env s r s' HL Hid Hinv Hc He. simpl in He. inversion He; subst. exact I.
  - assert (IH : IHexpr n code m) by (apply IHm; lia). clear IHm.
    intros e Hf c nid L p stk0 env s r s' HL Hid Hinv Hc He.
    destruct e; simpl in Hf; try discriminate.
    + (* EInt *) simpl in He. unfold ret in He. inversion He; subst. simpl. rewrite Nat.add_1_r.
      apply star_one. unfold step; cbn [pc stk scopes st]. rewrite (code_at_head _ _ _ _ Hc). reflexivity.
    + simpl in He. unfold ret in He. inversion He; subst. simpl. rewrite Nat.add_1_r.
      apply star_one. unfold step; cbn [pc stk scopes st]. rewrite (code_at_head _ _ _ _ Hc). reflexivity.
    + simpl in He. unfold ret in He. inversion He; subst. simpl. rewrite Nat.add_1_r.
      apply star_one. unfold step; cbn [pc stk scopes st]. rewrite (code_at_head _ _ _ _ Hc). reflexivity.
    + simpl in He. unfold ret in He. inversion He; subst. simpl. rewrite Nat.add_1_r.
      apply star_one. unfold step; cbn [pc stk scopes st]. rewrite (code_at_head _ _ _ _ Hc). reflexivity.
    + (* EVar *) simpl in He. simpl gen in *. pose proof (code_at_head _ _ _ _ Hc) as Hi.
      destruct (lookup_chain (frames s) env x) as [[f v]|] eqn:El; inversion He; subst; simpl.
      * rewrite Nat.add_1_r. apply star_one. unfold step; cbn [pc stk scopes st]. rewrite Hi, El. reflexivity.
      * eexists. split; [constructor|]. unfold step; cbn [pc stk scopes st]. rewrite Hi, El. reflexivity.
    + (* ECall: delegated; nothing but a value or an error comes out of it *)
      simpl gen in *. pose proof (code_at_head _ _ _ _ Hc) as Hi.
      change (eval (S m) env (ECall e args) s) with (call_expr (eval m) (apply m) env e args s) in He.
      assert (Q : quiet (call_expr (eval m) (apply m) env e args)).
      { apply quiet_call_expr.
        - intros loops env0 e0 Hcc. apply (proj1 (eval_apply_scoped m)). assumption.
        - apply (proj2 (eval_apply_scoped m)). }
      destruct (Q _ _ _ He) as [Qb Qc].
      destruct r as [v|[lb|lb|e0]|]; [| exfalso; eapply Qb; reflexivity | exfalso; eapply Qc; reflexivity | |exact I].
      * apply (call_mono m n) in He; [|lia|discriminate]. simpl. rewrite Nat.add_1_r.
        apply star_one. unfold step; cbn [pc stk scopes st]. rewrite Hi, He. reflexivity.
      * apply (call_mono m n) in He; [|lia|discriminate]. simpl.
        eexists. split; [constructor|]. unfold step; cbn [pc stk scopes st]. rewrite Hi, He. reflexivity.
    + (* EBegin *) apply andb_prop in Hf. destruct Hf as [Hf Hin]. apply andb_prop in Hf. destruct Hf as [Hne Hall].
      apply (sim_begin n code m IH); auto.
    + (* ECond *) apply andb_prop in Hf. destruct Hf as [Ha Hd].
      apply (sim_cond n code m IH); auto.
    + (* EAnd *) apply andb_prop in Hf. destruct Hf as [Hne Hall].
      apply (sim_sc n code m IH false); auto. destruct es; [discriminate|congruence].
    + (* EOr *) apply andb_prop in Hf. destruct Hf as [Hne Hall].
      apply (sim_sc n code m IH true); auto. destruct es; [discriminate|congruence].
    + (* EDef *) simpl gen in *. apply code_at_app in Hc. destruct Hc as [Hce Hc].
      pose proof (code_at_head _ _ _ _ Hc) as Hdup. apply code_at_cons in Hc.
      pose proof (code_at_head _ _ _ _ Hc) as Hput.
      rewrite app_length. simpl length.
      simpl in He. unfold bindM in He.
      destruct (eval m env e s) as [[v|g|] s1] eqn:Ee.
      * pose proof (IH e Hf c nid L p stk0 env s _ _ HL Hid Hinv Hce Ee) as S1. simpl in S1.
        assert (Sdup : star n code (mkVm p stk0 env s) (mkVm (S (p + length (gen c nid e))) (SV v :: SV v :: stk0) env s1)).
        { eapply star_trans; [exact S1|]. apply star_one. unfold step; cbn [pc stk scopes st]. rewrite Hdup. reflexivity. }
        pose proof (quiet_bind_frame (hd 0%nat env) x v s1) as Q.
        destruct (bind (hd 0%nat env) x v s1) as [[u|g|] s2] eqn:Eb; unfold ret in He; inversion He; subst.
        -- simpl. replace (p + (length (gen c nid e) + 2))%nat with (S (S (p + length (gen c nid e)))) by lia.
           eapply star_trans; [exact Sdup|]. apply star_one. unfold step; cbn [pc stk scopes st]. rewrite Hput. simpl. rewrite Eb. reflexivity.
        -- destruct (Q _ _ eq_refl) as [Qb Qc].
           destruct g as [lb|lb|e0]; [exfalso; eapply Qb; reflexivity|exfalso; eapply Qc; reflexivity|].
           simpl. eexists. split; [exact Sdup|]. unfold step; cbn [pc stk scopes st]. rewrite Hput. simpl. rewrite Eb. reflexivity.
        -- exact I.
      * inversion He; subst. eapply sim_sig_q. exact (IH e Hf c nid L p stk0 env s _ _ HL Hid Hinv Hce Ee).
      * inversion He; subst. exact I.
    + (* ESet *) simpl gen in *. apply code_at_app in Hc. destruct Hc as [Hce Hc].
      pose proof (code_at_head _ _ _ _ Hc) as Hdup. apply code_at_cons in Hc.
      pose proof (code_at_head _ _ _ _ Hc) as Hput.
      rewrite app_length. simpl length.
      simpl in He. unfold bindM in He.
      destruct (eval m env e s) as [[v|g|] s1] eqn:Ee.
      * pose proof (IH e Hf c nid L p stk0 env s _ _ HL Hid Hinv Hce Ee) as S1. simpl in S1.
        assert (Sdup : star n code (mkVm p stk0 env s) (mkVm (S (p + length (gen c nid e))) (SV v :: SV v :: stk0) env s1)).
        { eapply star_trans; [exact S1|]. apply star_one. unfold step; cbn [pc stk scopes st]. rewrite Hdup. reflexivity. }
        destruct (lookup_chain (frames s1) env x) as [[f w]|] eqn:El.
        -- inversion He; subst. simpl.
           replace (p + (length (gen c nid e) + 2))%nat with (S (S (p + length (gen c nid e)))) by lia.
           eapply star_trans; [exact Sdup|]. apply star_one. unfold step; cbn [pc stk scopes st]. rewrite Hput. simpl. rewrite El. reflexivity.
        -- pose proof (quiet_bind_frame (hd 0%nat env) x v s1) as Q.
           destruct (bind (hd 0%nat env) x v s1) as [[u|g|] s2] eqn:Eb; unfold ret in He; inversion He; subst.
           ++ simpl. replace (p + (length (gen c nid e) + 2))%nat with (S (S (p + length (gen c nid e)))) by lia.
              eapply star_trans; [exact Sdup|]. apply star_one. unfold step; cbn [pc stk scopes st]. rewrite Hput. simpl. rewrite El, Eb. reflexivity.
           ++ destruct (Q _ _ eq_refl) as [Qb Qc].
              destruct g as [lb|lb|e0]; [exfalso; eapply Qb; reflexivity|exfalso; eapply Qc; reflexivity|].
              simpl. eexists. split; [exact Sdup|]. unfold step; cbn [pc stk scopes st]. rewrite Hput. simpl. rewrite El, Eb. reflexivity.
           ++ exact I.
      * inversion He; subst. eapply sim_sig_q. exact (IH e Hf c nid L p stk0 env s _ _ HL Hid Hinv Hce Ee).
      * inversion He; subst. exact I.
    + (* ELet *)
      apply andb_prop in Hf. destruct Hf as [Hf Hin]. apply andb_prop in Hf. destruct Hf as [Hf Hbody].
      apply andb_prop in Hf. destruct Hf as [Hbs Hne].
      set (c1 := mkCctx (S (c_scopes c)) (c_loops c)) in *.
      assert (Hid2 : Forall (fun l => (rl_id l < nid + nl_binds nloops bs)%nat) L) by (eapply Forall_lt_mono; [|exact Hid]; lia).
      destruct seq.
      * (* letseq *)
        simpl gen in Hc. fold c1 in Hc. pose proof (code_at_head _ _ _ _ Hc) as Hadd. apply code_at_cons in Hc.
        apply code_at_app in Hc. destruct Hc as [Hcl Hc]. apply code_at_app in Hc. destruct Hc as [Hcb Hc].
        pose proof (code_at_head _ _ _ _ Hc) as Hrem.
        rewrite letseq_fresh in He. set (f := length (frames s)) in *. set (s0 := snd (push_frame s)) in *.
        assert (Ep : push_frame s = (f, s0)) by reflexivity. unfold bindM in He.
        assert (Sadd : star n code (mkVm p stk0 env s) (mkVm (S p) stk0 (f :: env) s0)).
        { apply star_one. unfold step; cbn [pc stk scopes st]. rewrite Hadd, Ep. reflexivity. }
        assert (Hinv1 : inv code L (c_scopes c1) (f :: env) stk0) by (apply inv_scope; exact Hinv).
        simpl gen. fold c1. simpl length. rewrite !app_length. simpl length.
        destruct (ev_letseq (eval m) f (f :: env) bs s0) as [[u|g|] s1] eqn:El.
        -- pose proof (sim_letseq n code m IH bs Hbs c1 nid L (S p) stk0 f env s0 _ _ HL Hid Hinv1 Hcl El) as S1. simpl in S1.
           pose proof (sim_begin n code m IH body Hbody Hin c1 _ L _ stk0 (f :: env) s1 _ _ HL Hid2 Hinv1 Hcb He) as S2.
           destruct r as [v|g|]; [| |exact I].
           ++ simpl in S2 |- *. eapply star_trans; [exact Sadd|]. eapply star_trans; [exact S1|]. eapply star_trans; [exact S2|].
              apply star_one. unfold step; cbn [pc stk scopes st]. fetch Hrem. f_equal. f_equal. lia.
           ++ eapply sim_sig_prefix; [|exact S2]. eapply star_trans; [exact Sadd|exact S1].
        -- inversion He; subst.
           pose proof (sim_letseq n code m IH bs Hbs c1 nid L (S p) stk0 f env s0 _ _ HL Hid Hinv1 Hcl El) as S1.
           eapply sim_sig_prefix; [exact Sadd|exact S1].
        -- inversion He; subst. exact I.
      * (* let *)
        simpl gen in Hc. fold c1 in Hc. pose proof (code_at_head _ _ _ _ Hc) as Hadd. apply code_at_cons in Hc.
        apply code_at_app in Hc. destruct Hc as [Hci Hc]. apply code_at_app in Hc. destruct Hc as [Hcp Hc].
        apply code_at_app in Hc. destruct Hc as [Hcb Hc].
        pose proof (code_at_head _ _ _ _ Hc) as Hrem.
        rewrite let_fresh in He. set (f := length (frames s)) in *. set (s0 := snd (push_frame s)) in *.
        assert (Ep : push_frame s = (f, s0)) by reflexivity. unfold bindM in He.
        assert (Sadd : star n code (mkVm p stk0 env s) (mkVm (S p) stk0 (f :: env) s0)).
        { apply star_one. unfold step; cbn [pc stk scopes st]. rewrite Hadd, Ep. reflexivity. }
        assert (Hinv1 : inv code L (c_scopes c1) (f :: env) stk0) by (apply inv_scope; exact Hinv).
        simpl gen. fold c1. simpl length. rewrite !app_length. simpl length. rewrite map_length, rev_length, map_length.
        rewrite map_length, rev_length, map_length in Hc, Hcb, Hrem.
        pose proof (sim_inits n code m IH bs Hbs c1 nid L (S p) stk0 (f :: env) s0) as SI.
        destruct (ev_list (eval m) (f :: env) (map snd bs) s0) as [[vs|g|] s1] eqn:Ei.
        -- destruct (SI _ _ HL Hid Hinv1 Hci eq_refl) as [S1 Lv].
           assert (Lv' : length vs = length (map fst bs)) by (rewrite map_length; exact Lv).
           destruct (combine_rev_fst (map fst bs) vs Lv') as [Efst Esnd].
           rewrite <- Efst in Hcp.
           pose proof (sim_putenvs n code (rev (combine (map fst bs) vs)) L (S p + length (gen_inits gen nloops c1 nid bs))%nat stk0 f env s1) as SP.
           destruct (bind_all f (rev (combine (map fst bs) vs)) s1) as [[u|g|] s2] eqn:Eb.
           ++ specialize (SP _ _ Hcp eq_refl). simpl in SP. rewrite Esnd in SP.
              rewrite rev_length, combine_length, map_length, Lv, Nat.min_id in SP.
              pose proof (sim_begin n code m IH body Hbody Hin c1 _ L _ stk0 (f :: env) s2 _ _ HL Hid2 Hinv1 Hcb He) as S3.
              destruct r as [v|g|]; [| |exact I].
              ** simpl in S3 |- *. eapply star_trans; [exact Sadd|]. eapply star_trans; [exact S1|]. eapply star_trans; [exact SP|].
                 eapply star_trans; [exact S3|].
                 apply star_one. unfold step; cbn [pc stk scopes st]. fetch Hrem. f_equal. f_equal. lia.
              ** eapply sim_sig_prefix; [|exact S3].
                 eapply star_trans; [exact Sadd|]. eapply star_trans; [exact S1|]. exact SP.
           ++ inversion He; subst. specialize (SP _ _ Hcp eq_refl). rewrite Esnd in SP.
              unfold sim. eapply simS_prefix; [eapply star_trans; [exact Sadd|exact S1]|]. eapply simS_sig. exact SP.
           ++ inversion He; subst. exact I.
        -- inversion He; subst. specialize (SI _ _ HL Hid Hinv1 Hci eq_refl).
           eapply sim_sig_prefix; [exact Sadd|exact SI].
        -- inversion He; subst. exact I.
    + (* EScope *)
      apply andb_prop in Hf. destruct Hf as [Hne Hall].
      assert (Hes : es <> []) by (destruct es; [discriminate|congruence]).
      set (c1 := mkCctx (S (c_scopes c)) (c_loops c)) in *.
      simpl gen in Hc. fold c1 in Hc. pose proof (code_at_head _ _ _ _ Hc) as Hadd. apply code_at_cons in Hc.
      apply code_at_app in Hc. destruct Hc as [Hcb Hc]. pose proof (code_at_head _ _ _ _ Hc) as Hrem.
      rewrite scope_fresh in He. set (f := length (frames s)) in *. set (s0 := snd (push_frame s)) in *.
      assert (Ep : push_frame s = (f, s0)) by reflexivity.
      assert (Sadd : star n code (mkVm p stk0 env s) (mkVm (S p) stk0 (f :: env) s0)).
      { apply star_one. unfold step; cbn [pc stk scopes st]. rewrite Hadd, Ep. reflexivity. }
      assert (Hinv1 : inv code L (c_scopes c1) (f :: env) stk0) by (apply inv_scope; exact Hinv).
      simpl gen. fold c1. simpl length. rewrite !app_length. simpl length.
      pose proof (sim_scope_body n code m IH es Hes Hall c1 nid L _ stk0 (f :: env) s0 _ _ HL Hid Hinv1 Hcb He) as S2.
      destruct r as [v|g|]; [| |exact I].
      * simpl in S2 |- *. eapply star_trans; [exact Sadd|]. eapply star_trans; [exact S2|].
        apply star_one. unfold step; cbn [pc stk scopes st]. fetch Hrem. f_equal. f_equal. lia.
      * eapply sim_sig_prefix; [exact Sadd|exact S2].
    + (* EFor *)
      apply andb_prop in Hf. destruct Hf as [Hf Hneb]. apply andb_prop in Hf. destruct Hf as [Hf Hfb].
      apply andb_prop in Hf. destruct Hf as [Hf Hccst]. apply andb_prop in Hf. destruct Hf as [Hf Hcct].
      apply andb_prop in Hf. destruct Hf as [Hf Hcci]. apply andb_prop in Hf. destruct Hf as [Hf Hfst].
      apply andb_prop in Hf. destruct Hf as [Hfi Hft].
      simpl gen in Hc |- *.
      set (c1 := inner c lbl nid) in *.
      set (Ic := gen c1 (S nid) e1) in *.
      set (incr := gen c1 (S (nid + nloops e1)) e3) in *.
      set (test := gen c1 (S (nid + nloops e1 + nloops e3)) e2) in *.
      set (bodyc := gen_begin gen nloops c1 (S (nid + nloops e1 + nloops e3 + nloops e2)) body) in *.
      rewrite !app_length in *. simpl length in *. rewrite !app_length in *. simpl length in *.
      set (co := (length Ic + 1 + 5)%nat) in *.
      set (back := (length incr + 1 + length test + (length bodyc + 1) + 4)%nat) in *.
      set (bo := (co + back + 2)%nat) in *.
      (* the pieces of the layout *)
      pose proof (code_at_head _ _ _ _ Hc) as Hls. apply code_at_cons in Hc.
      pose proof (code_at_head _ _ _ _ Hc) as Hadd. apply code_at_cons in Hc.
      pose proof (code_at_head _ _ _ _ Hc) as Hmark. apply code_at_cons in Hc.
      pose proof (code_at_head _ _ _ _ Hc) as Hl0. apply code_at_cons in Hc.
      apply code_at_app in Hc. destruct Hc as [HcI Hc]. apply code_at_app in HcI. destruct HcI as [HcI HpopI].
      apply code_at_head in HpopI.
      pose proof (code_at_head _ _ _ _ Hc) as Hjmp. apply code_at_cons in Hc.
      pose proof (code_at_head _ _ _ _ Hc) as Hlinc. apply code_at_cons in Hc.
      apply code_at_app in Hc. destruct Hc as [Hcinc Hc]. apply code_at_app in Hcinc. destruct Hcinc as [Hcinc Hpopinc].
      apply code_at_head in Hpopinc.
      pose proof (code_at_head _ _ _ _ Hc) as Hltest. apply code_at_cons in Hc.
      apply code_at_app in Hc. destruct Hc as [Hctest Hc].
      pose proof (code_at_head _ _ _ _ Hc) as Hbr. apply code_at_cons in Hc.
      pose proof (code_at_head _ _ _ _ Hc) as Hlbody. apply code_at_cons in Hc.
      apply code_at_app in Hc. destruct Hc as [Hcbody Hc]. apply code_at_app in Hcbody. destruct Hcbody as [Hcbody Hpopbody].
      apply code_at_head in Hpopbody.
      pose proof (code_at_head _ _ _ _ Hc) as Hback. apply code_at_cons in Hc.
      pose proof (code_at_head _ _ _ _ Hc) as Hlend. apply code_at_cons in Hc.
      pose proof (code_at_head _ _ _ _ Hc) as Hclear. apply code_at_cons in Hc.
      pose proof (code_at_head _ _ _ _ Hc) as Hrem. apply code_at_cons in Hc.
      pose proof (code_at_head _ _ _ _ Hc) as Hnil. clear Hc.
      rewrite !app_length in *. simpl length in *.
      assert (Hfind : find_loop code nid 0 = Some (p, bo, co)) by (apply Huniq; exact Hls).
      (* entering the loop *)
      rewrite for_fresh in He. set (f := length (frames s)) in *. set (s0 := snd (push_frame s)) in *.
      assert (Ep : push_frame s = (f, s0)) by reflexivity. unfold bindM in He.
      assert (Sin : star n code (mkVm p stk0 env s) (mkVm (S (S (S (S p)))) (SM nid :: stk0) (f :: env) s0)).
      { eapply star_step; [unfold step; cbn [pc stk scopes st]; rewrite Hls; reflexivity|].
        eapply star_step; [unfold step; cbn [pc stk scopes st]; rewrite Hadd, Ep; reflexivity|].
        eapply star_step; [unfold step; cbn [pc stk scopes st]; rewrite Hmark; reflexivity|].
        apply star_one. unfold step; cbn [pc stk scopes st]. rewrite Hl0. reflexivity. }
      set (L1 := mkRl lbl nid (S (c_scopes c)) p bo co (f :: env) stk0 :: L).
      assert (HL1 : c_loops c1 = map cl_of L1) by (unfold c1, L1, inner; simpl; rewrite HL; reflexivity).
      assert (Hid1 : forall k, (nid < k)%nat -> Forall (fun l => (rl_id l < k)%nat) L1).
      { intros k Hk. constructor; [simpl; lia|]. eapply Forall_lt_mono; [|exact Hid]. lia. }
      assert (Hinv1 : inv code L1 (c_scopes c1) (f :: env) (SM nid :: stk0)).
      { unfold L1, c1, inner. simpl. apply (inv_loop code L (c_scopes c) env stk0 f lbl nid p bo co []); auto. constructor. }
      destruct (eval m (f :: env) e1 s0) as [ri s1] eqn:Ei.
      rewrite (quiet_eval m EUnspec _ _ _ _ _ Hcci Ei) in He.
      pose proof (IH e1 Hfi c1 (S nid) L1 (S (S (S (S p)))) (SM nid :: stk0) (f :: env) s0 _ _ HL1 (Hid1 _ (Nat.lt_succ_diag_r nid)) Hinv1 HcI Ei) as S1.
      destruct ri as [v|g|].
      * simpl in S1. fold Ic in S1.
        assert (Stest : star n code (mkVm p stk0 env s)
                          (mkVm (S (S (p + co) + length incr)) (SM nid :: stk0) (f :: env) s1)).
        { eapply star_trans; [exact Sin|]. eapply star_trans; [exact S1|]. eapply star_step.
          - unfold step; cbn [pc stk scopes st]. fetch HpopI.
            change (SV v :: SM nid :: stk0) with ([SV v] ++ SM nid :: stk0).
            rewrite pop_until_found by (constructor; [exact I|constructor]). reflexivity.
          - apply star_one. unfold step; cbn [pc stk scopes st]. fetch Hjmp. f_equal. f_equal. unfold co. lia. }
        unfold sim. eapply simS_prefix; [exact Stest|].
        repeat (rewrite !app_length; simpl length).
        match goal with |- simS _ _ _ _ ?q _ _ _ _ => replace q with (p + bo + 3)%nat by (unfold bo, back, co; lia) end.
        eapply (for_iterations n code m IH c nid L lbl e2 e3 body p bo co f env stk0
                  (S (nid + nloops e1)) (S (nid + nloops e1 + nloops e3)) (S (nid + nloops e1 + nloops e3 + nloops e2)));
          try assumption; try lia; try exact He; fold c1; fold incr; fold test; fold bodyc;
          try (unfold bo, back, co in *; shift).
        -- match goal with |- nth_error _ ?a = Some (IJumpBack ?y) =>
             match type of Hback with nth_error _ ?b = Some (IJumpBack ?z) =>
               replace y with z by (unfold back, co; lia); replace a with b by (unfold co; lia); exact Hback end end.
        -- unfold bo, back, co. lia.
      * inversion He; subst.
        destruct (toplevel_has_no_stray_signal _ _ _ _ _ _ Hcci Ei) as [Hb Hcn].
        destruct g as [lb|lb|e0]; [exfalso; eapply Hb; reflexivity|exfalso; eapply Hcn; reflexivity|].
        unfold sim. eapply simS_prefix; [exact Sin|]. exact S1.
      * inversion He; subst. exact I.
    + (* EBreak *)
      simpl in He. inversion He; subst. simpl gen in Hc |- *. rewrite HL, find_cl in Hc |- *.
      unfold sim, simS, exits. destruct (find (fun l => hits lbl (rl_lbl l)) L) as [l|] eqn:Ef; [|exact I].
      unfold cl_of in Hc. simpl in Hc.
      pose proof (code_at_head _ _ _ _ Hc) as Hi.
      apply find_some in Ef. destruct Ef as [Hin _].
      unfold inv in Hinv. rewrite Forall_forall in Hinv. destruct (Hinv l Hin) as (F & extra & above & E1 & E2 & E3 & E4).
      exists above. split; [exact E4|]. apply star_one. unfold step; cbn [pc stk scopes st]. rewrite Hi. rewrite F.
      assert (K : (c_scopes c - rl_depth l = length extra)%nat) by lia. rewrite K. subst env stk0.
      rewrite app_length. replace (Nat.leb (length extra) (length extra + length (rl_env l))) with true
        by (symmetry; apply Nat.leb_le; lia).
      rewrite skipn_app, skipn_all, Nat.sub_diag. reflexivity.
    + (* ECont *)
      simpl in He. inversion He; subst. simpl gen in Hc |- *. rewrite HL, find_cl in Hc |- *.
      unfold sim, simS, exits. destruct (find (fun l => hits lbl (rl_lbl l)) L) as [l|] eqn:Ef; [|exact I].
      unfold cl_of in Hc. simpl in Hc.
      pose proof (code_at_head _ _ _ _ Hc) as Hi.
      apply find_some in Ef. destruct Ef as [Hin _].
      unfold inv in Hinv. rewrite Forall_forall in Hinv. destruct (Hinv l Hin) as (F & extra & above & E1 & E2 & E3 & E4).
      exists above. split; [exact E4|]. apply star_one. unfold step; cbn [pc stk scopes st]. rewrite Hi. rewrite F.
      assert (K : (c_scopes c - rl_depth l = length extra)%nat) by lia. rewrite K. subst env stk0.
      rewrite app_length. replace (Nat.leb (length extra) (length extra + length (rl_env l))) with true
        by (symmetry; apply Nat.leb_le; lia).
      rewrite skipn_app, skipn_all, Nat.sub_diag. reflexivity.
Qed.

Lemma star_run : forall n code a b, star n code a b ->
  forall k r s', run n code k b = (r, s') -> r <> Fuel -> exists k', run n code k' a = (r, s').
Proof.
  intros n code a b H. induction H; intros k r s' Hr Hn.
  - exists k. assumption.
  - destruct (IHstar k r s' Hr Hn) as [k' E]. exists (S k'). simpl. rewrite H. assumption.
Qed.

(* a decidable form of loops_unique: the loop numbers of the LoopStart instructions are pairwise distinct *)
Fixpoint ls_ids (code : list instr) : list nat :=
  match code with
  | [] => []
  | ILoopStart id _ _ :: r => id :: ls_ids r
  | _ :: r => ls_ids r
  end.

Fixpoint nodupb (l : list nat) : bool :=
  match l with [] => true | x :: r => negb (existsb (Nat.eqb x) r) && nodupb r end.

Lemma find_loop_shift : forall code id pos, find_loop code id (S pos) =
  match find_loop code id pos with Some (p, bo, co) => Some (S p, bo, co) | None => None end.
Proof.
  induction code as [|i r IH]; intros id pos; simpl; [reflexivity|].
  destruct i; try apply IH. destruct (Nat.eqb id id0); [reflexivity|apply IH].
Qed.

Lemma find_loop_none : forall code id pos, existsb (Nat.eqb id) (ls_ids code) = false -> find_loop code id pos = None.
Proof.
  induction code as [|i r IH]; intros id pos H; simpl in *; [reflexivity|].
  destruct i; try (apply IH; exact H). simpl in H. apply orb_false_iff in H. destruct H as [H1 H2].
  rewrite H1. apply IH. exact H2.
Qed.

Lemma nodup_unique : forall code, nodupb (ls_ids code) = true -> loops_unique code.
Proof.
  unfold loops_unique. induction code as [|i r IH]; intros Hn p id bo co Hp.
  - destruct p; discriminate.
  - destruct p as [|p]; simpl in Hp.
    + inversion Hp; subst. simpl. rewrite Nat.eqb_refl. reflexivity.
    + assert (Hr : nodupb (ls_ids r) = true).
      { destruct i; simpl in Hn; try exact Hn. apply andb_prop in Hn. apply Hn. }
      specialize (IH Hr p id bo co Hp).
      destruct i; simpl; try (rewrite find_loop_shift, IH; reflexivity).
      simpl in Hn. apply andb_prop in Hn. destruct Hn as [Hx _]. apply negb_true_iff in Hx.
      destruct (Nat.eqb id id0) eqn:E.
      * apply Nat.eqb_eq in E. subst id0. exfalso.
        (* id occurs again in r: contradiction with Hx *)
        assert (Hin : existsb (Nat.eqb id) (ls_ids r) = true).
        { clear - Hp. revert p Hp. induction r as [|j r IHr]; intros p Hp; [destruct p; discriminate|].
          destruct p as [|p]; simpl in Hp.
          - inversion Hp; subst. simpl. rewrite Nat.eqb_refl. reflexivity.
          - specialize (IHr p Hp). destruct j; simpl; auto. rewrite IHr. apply orb_true_r. }
        congruence.
      * rewrite find_loop_shift, IH. reflexivity.
Qed.

(* The whole-expression statement for F1: if the reference evaluator finishes on an F1 expression
   (break/continue all find their loop: cc []), the VM run on the generated code finishes with the
   same value or the same error, and the same store (hence the same trace). *)
Theorem vm_refines_ref_F1 : forall n e env s r s',
  f1 e = true -> cc [] e = true -> nodupb (ls_ids (gen top 0 e)) = true ->
  eval n env e s = (r, s') -> r <> Fuel ->
  exists k, run n (gen top 0 e) k (mkVm 0 [] env s) = (r, s').
Proof.
  intros n e env s r s' Hf Hcc Hnd He Hr.
  assert (Hc : code_at (gen top 0 e) 0 (gen top 0 e)). { exists [], []. rewrite app_nil_r. auto. }
  pose proof (gen_sim n (gen top 0 e) (nodup_unique _ Hnd) n (le_n n) e Hf top 0%nat [] 0%nat [] env s r s'
                eq_refl (Forall_nil _) (Forall_nil _) Hc He) as S.
  destruct (toplevel_has_no_stray_signal _ _ _ _ _ _ Hcc He) as [Hb Hcn].
  destruct r as [v|[lb|lb|e0]|]; [|exfalso; eapply Hb; reflexivity|exfalso; eapply Hcn; reflexivity| |congruence];
    unfold sim in S; simpl in S.
  - eapply (star_run _ _ _ _ S 1%nat). 2: discriminate.
    simpl. unfold step; cbn [pc stk scopes st].
    assert (E : nth_error (gen top 0 e) (length (gen top 0 e)) = None) by (apply nth_error_None; lia).
    rewrite E. reflexivity.
  - destruct S as (st1 & S & A). eapply (star_run _ _ _ _ S 1%nat). 2: discriminate.
    simpl. rewrite A. reflexivity.
Qed.

(* ---- the loop numbers in generated code are pairwise distinct ---- *)

Section ExprInd.
  Variable P : expr -> Prop.
  Hypothesis HInt : forall z, P (EInt z).
  Hypothesis HBool : forall b, P (EBool b).
  Hypothesis HNil : P ENil.
  Hypothesis HStr : forall s, P (EStr s).
  Hypothesis HQuote : forall d, P (EQuote d).
  Hypothesis HVar : forall x, P (EVar x).
  Hypothesis HArr : forall es, Forall P es -> P (EArr es).
  Hypothesis HCall : forall f args, P f -> Forall P args -> P (ECall f args).
  Hypothesis HBegin : forall es, Forall P es -> P (EBegin es).
  Hypothesis HCond : forall arms d, Forall (fun cb => P (fst cb) /\ P (snd cb)) arms -> P d -> P (ECond arms d).
  Hypothesis HAnd : forall es, Forall P es -> P (EAnd es).
  Hypothesis HOr : forall es, Forall P es -> P (EOr es).
  Hypothesis HDef : forall x e, P e -> P (EDef x e).
  Hypothesis HSet : forall x e, P e -> P (ESet x e).
  Hypothesis HLet : forall seq bs body, Forall (fun xb => P (snd xb)) bs -> Forall P body -> P (ELet seq bs body).
  Hypothesis HScope : forall es, Forall P es -> P (EScope es).
  Hypothesis HFor : forall l i t st body, P i -> P t -> P st -> Forall P body -> P (EFor l i t st body).
  Hypothesis HBreak : forall l, P (EBreak l).
  Hypothesis HCont : forall l, P (ECont l).
  Hypothesis HFn : forall ps r body, Forall P body -> P (EFn ps r body).
  Hypothesis HDefn : forall nm ps r body, Forall P body -> P (EDefn nm ps r body).

  Fixpoint expr_ind_nested (e : expr) : P e :=
    let go := fix go (l : list expr) : Forall P l :=
                match l with [] => Forall_nil _ | x :: r => Forall_cons _ (expr_ind_nested x) (go r) end in
    match e with
    | EInt z => HInt z
    | EBool b => HBool b
    | ENil => HNil
    | EStr s => HStr s
    | EQuote d => HQuote d
    | EVar x => HVar x
    | EArr es => HArr es (go es)
    | ECall f args => HCall f args (expr_ind_nested f) (go args)
    | EBegin es => HBegin es (go es)
    | ECond arms d =>
      HCond arms d
            ((fix ga (l : list (expr * expr)) : Forall (fun cb => P (fst cb) /\ P (snd cb)) l :=
                match l with
                | [] => Forall_nil _
                | (c, b) :: r => @Forall_cons _ (fun cb => P (fst cb) /\ P (snd cb)) (c, b) r (conj (expr_ind_nested c) (expr_ind_nested b)) (ga r)
                end) arms) (expr_ind_nested d)
    | EAnd es => HAnd es (go es)
    | EOr es => HOr es (go es)
    | EDef x e1 => HDef x e1 (expr_ind_nested e1)
    | ESet x e1 => HSet x e1 (expr_ind_nested e1)
    | ELet seq bs body =>
      HLet seq bs body
           ((fix gb (l : list (ident * expr)) : Forall (fun xb => P (snd xb)) l :=
               match l with
               | [] => Forall_nil _
               | (x, e1) :: r => @Forall_cons _ (fun xb => P (snd xb)) (x, e1) r (expr_ind_nested e1) (gb r)
               end) bs) (go body)
    | EScope es => HScope es (go es)
    | EFor l i t st body => HFor l i t st body (expr_ind_nested i) (expr_ind_nested t) (expr_ind_nested st) (go body)
    | EBreak l => HBreak l
    | ECont l => HCont l
    | EFn ps r body => HFn ps r body (go body)
    | EDefn nm ps r body => HDefn nm ps r body (go body)
    end.
End ExprInd.

Lemma ls_ids_app : forall a b, ls_ids (a ++ b) = ls_ids a ++ ls_ids b.
Proof.
  induction a as [|i a IH]; intros b; simpl; [reflexivity|]. destruct i; simpl; rewrite ?IH; reflexivity.
Qed.

Definition ids_ok (e : expr) : Prop := forall c n, ls_ids (gen c n e) = seq n (nloops e).

Lemma ids_begin : forall es, Forall ids_ok es -> forall c n,
  ls_ids (gen_begin gen nloops c n es) = seq n (nl_list nloops es).
Proof.
  induction es as [|e r IH]; intros H c n; [reflexivity|]. inversion H; subst.
  destruct r as [|e2 r].
  - simpl. rewrite Nat.add_0_r. apply H2.
  - change (gen_begin gen nloops c n (e :: e2 :: r)) with
      ((match gen c n e with [] => [] | _ => gen c n e ++ [IPop] end) ++ gen_begin gen nloops c (n + nloops e) (e2 :: r)).
    change (nl_list nloops (e :: e2 :: r)) with (nloops e + nl_list nloops (e2 :: r))%nat.
    rewrite ls_ids_app, seq_app, (IH H3). f_equal.
    pose proof (H2 c n) as E. destruct (gen c n e) eqn:G; [exact E|]. rewrite ls_ids_app, E. simpl. apply app_nil_r.
Qed.

Lemma ids_scope_body : forall es, Forall ids_ok es -> forall c n,
  ls_ids (gen_scope_body gen nloops c n es) = seq n (nl_list nloops es).
Proof.
  induction es as [|e r IH]; intros H c n; [reflexivity|]. inversion H; subst.
  destruct r as [|e2 r].
  - simpl. rewrite Nat.add_0_r. apply H2.
  - change (gen_scope_body gen nloops c n (e :: e2 :: r)) with
      (gen c n e ++ [IPop] ++ gen_scope_body gen nloops c (n + nloops e) (e2 :: r)).
    change (nl_list nloops (e :: e2 :: r)) with (nloops e + nl_list nloops (e2 :: r))%nat.
    rewrite ls_ids_app, seq_app, (H2 c n). f_equal. simpl. apply (IH H3).
Qed.

Lemma ids_sc : forall or es, Forall ids_ok es -> forall c n,
  ls_ids (gen_sc gen nloops c n or es) = seq n (nl_list nloops es).
Proof.
  intros or. induction es as [|e r IH]; intros H c n; [reflexivity|]. inversion H; subst.
  destruct r as [|e2 r].
  - simpl. rewrite Nat.add_0_r. apply H2.
  - change (gen_sc gen nloops c n or (e :: e2 :: r)) with
      (gen c n e ++ [IDup; IBranch or (length (gen_sc gen nloops c (n + nloops e) or (e2 :: r)) + 2); IPop] ++
       gen_sc gen nloops c (n + nloops e) or (e2 :: r)).
    change (nl_list nloops (e :: e2 :: r)) with (nloops e + nl_list nloops (e2 :: r))%nat.
    rewrite ls_ids_app, seq_app, (H2 c n). f_equal. simpl. apply (IH H3).
Qed.

Lemma ids_cond : forall arms d, Forall (fun cb => ids_ok (fst cb) /\ ids_ok (snd cb)) arms -> ids_ok d ->
  forall c n, ls_ids (gen_cond gen nloops c n arms (fun n' => gen c n' d)) = seq n (nl_arms nloops arms + nloops d).
Proof.
  induction arms as [|[t b] r IH]; intros d H Hd c n; [apply Hd|]. inversion H; subst. destruct H2 as [Ht Hb]. simpl in Ht, Hb. unfold ids_ok in Ht, Hb.
  simpl. rewrite !ls_ids_app. simpl. rewrite ls_ids_app. simpl. rewrite (Ht c n), (Hb c (n + nloops t)%nat), (IH d H3 Hd).
  rewrite <- !seq_app. f_equal. lia.
Qed.

Lemma ids_inits : forall bs, Forall (fun xb => ids_ok (snd xb)) bs -> forall c n,
  ls_ids (gen_inits gen nloops c n bs) = seq n (nl_binds nloops bs).
Proof.
  induction bs as [|[x e] r IH]; intros H c n; [reflexivity|]. inversion H; subst. simpl in *.
  rewrite ls_ids_app, seq_app, (H2 c n), (IH H3). reflexivity.
Qed.

Lemma ids_letseq : forall bs, Forall (fun xb => ids_ok (snd xb)) bs -> forall c n,
  ls_ids (gen_letseq gen nloops c n bs) = seq n (nl_binds nloops bs).
Proof.
  induction bs as [|[x e] r IH]; intros H c n; [reflexivity|]. inversion H; subst. simpl in *.
  rewrite ls_ids_app, seq_app, (H2 c n). simpl. rewrite (IH H3). reflexivity.
Qed.

Lemma ids_putenvs : forall xs, ls_ids (map IPutEnv xs) = [].
Proof. induction xs; simpl; auto. Qed.

Lemma gen_ids : forall e, ids_ok e.
Proof.
  induction e using expr_ind_nested; unfold ids_ok; intros c n; try reflexivity.
  - (* EBegin *) simpl. apply ids_begin. assumption.
  - (* ECond *) simpl. apply ids_cond; assumption.
  - simpl. apply ids_sc. assumption.
  - simpl. apply ids_sc. assumption.
  - (* EDef *) simpl. rewrite ls_ids_app. simpl. rewrite app_nil_r. apply IHe.
  - simpl. rewrite ls_ids_app. simpl. rewrite app_nil_r. apply IHe.
  - (* ELet *)
    destruct seq; simpl; repeat (rewrite ?ls_ids_app; simpl); rewrite ?app_nil_r, ?ids_putenvs; simpl.
    + rewrite ids_letseq by assumption. rewrite ids_begin by assumption. rewrite <- seq_app. reflexivity.
    + rewrite ids_inits by assumption. rewrite ids_begin by assumption. rewrite <- seq_app. reflexivity.
  - (* EScope *) simpl. rewrite ls_ids_app. simpl. rewrite app_nil_r. apply ids_scope_body. assumption.
  - (* EFor *)
    simpl. f_equal. repeat (rewrite ?ls_ids_app; simpl). rewrite ?app_nil_r.
    rewrite (IHe1 _ _), (IHe3 _ _), (IHe2 _ _). rewrite ids_begin by assumption.
    replace (S (n + nloops e1)) with (S n + nloops e1)%nat by lia.
    replace (S (n + nloops e1 + nloops e3)) with (S n + nloops e1 + nloops e3)%nat by lia.
    replace (S (n + nloops e1 + nloops e3 + nloops e2)) with (S n + nloops e1 + nloops e3 + nloops e2)%nat by lia.
    rewrite <- !seq_app. f_equal. lia.
  - (* EBreak *) simpl. destruct (find _ _) as [[[? ?] ?]|]; reflexivity.
  - simpl. destruct (find _ _) as [[[? ?] ?]|]; reflexivity.
Qed.

Lemma nodupb_seq : forall k n, nodupb (seq n k) = true.
Proof.
  induction k as [|k IH]; intros n; simpl; [reflexivity|]. rewrite IH, andb_true_r. apply negb_true_iff.
  assert (G : forall j a, (n < a)%nat -> existsb (Nat.eqb n) (seq a j) = false).
  { induction j as [|j IHj]; intros a Ha; simpl; [reflexivity|].
    destruct (Nat.eqb n a) eqn:E; [apply Nat.eqb_eq in E; lia|]. apply IHj. lia. }
  apply G. lia.
Qed.

Theorem gen_loop_numbers_unique : forall c n e, nodupb (ls_ids (gen c n e)) = true.
Proof. intros c n e. rewrite (gen_ids e c n). apply nodupb_seq. Qed.

(* vm_refines_ref_F1 without the side condition *)
Theorem vm_refines_ref_F1_closed : forall n e env s r s',
  f1 e = true -> cc [] e = true -> eval n env e s = (r, s') -> r <> Fuel ->
  exists k, run n (gen top 0 e) k (mkVm 0 [] env s) = (r, s').
Proof. intros. eapply vm_refines_ref_F1; eauto. apply gen_loop_numbers_unique. Qed.

(* ---- F2 (partial): the code of a function body (generator.go:buildSexpFun) ---- *)

Lemma zip_params_spec : forall ps args acc b, length args = length ps ->
  zip_params ps None args acc = Some b -> b = rev (combine ps args) ++ acc.
Proof.
  induction ps as [|p ps IH]; intros args acc b L H; destruct args as [|a args]; simpl in *; try lia.
  - inversion H; subst. reflexivity.
  - rewrite (IH args ((p, a) :: acc) b) by (try lia; assumption). rewrite <- app_assoc. reflexivity.
Qed.

Lemma zip_params_some : forall ps args acc, length args = length ps ->
  exists b, zip_params ps None args acc = Some b.
Proof.
  induction ps as [|p ps IH]; intros args acc L; destruct args as [|a args]; simpl in *; try lia; eauto.
Qed.

(* A function without a rest parameter whose body is in F1, breaks nothing outside itself (cc []) and
   has no self tail call: the code buildSexpFun emits -- AddFuncScope, PopStackPutEnv of the formals
   last to first, the body, RemoveScope, Return -- started with the arguments on the data stack and
   the closure's static chain as scope chain, returns what `apply` of the closure returns.
   NOT covered (vm_refines_ref_F2 in full): the self tail call (RemoveScope x (scopes+1); PrepareCall;
   Goto 0 -- equal to the reference call only while the function's name still resolves to the running
   closure, the tco-by-name caveat), calls compiled into a shared VM with an address stack instead of
   delegated, closures created inside the body, `& rest`. *)
Theorem vm_refines_ref_F2_partial : forall n nm ps body cenv args s r s',
  forallb f1 body = true -> init_ne body = true -> forallb (cc []) body = true ->
  length args = length ps ->
  apply (S n) (VClos nm ps None body cenv) args s = (r, s') -> r <> Fuel ->
  exists k, run n (fun_code ps body) k (mkVm 0 (map SV (rev args)) cenv s) = (r, s').
Proof.
  intros n nm ps body cenv args s r s' Hf Hne Hcc Hlen Ha Hr.
  remember (fun_code ps body) as code eqn:Ecode.
  assert (Huniq : loops_unique code).
  { apply nodup_unique. rewrite Ecode. unfold fun_code. rewrite !ls_ids_app. simpl. rewrite ids_putenvs. simpl.
    rewrite app_nil_r. rewrite ids_begin; [apply nodupb_seq|]. rewrite Forall_forall. intros e _. apply gen_ids. }
  assert (Hc : code_at code 0 (fun_code ps body)). { exists [], []. rewrite app_nil_r. auto. }
  unfold fun_code in Hc.
  pose proof (code_at_head _ _ _ _ Hc) as Hadd. apply code_at_cons in Hc.
  apply code_at_app in Hc. destruct Hc as [Hcp Hc]. apply code_at_app in Hc. destruct Hc as [Hcb Hc].
  pose proof (code_at_head _ _ _ _ Hc) as Hrem. apply code_at_cons in Hc. pose proof (code_at_head _ _ _ _ Hc) as Hret.
  rewrite map_length, rev_length in *.
  destruct (zip_params_some ps args [] Hlen) as [binds Hz].
  rewrite (apply_closure_fresh n nm ps None body cenv args s binds Hz) in Ha.
  pose proof (zip_params_spec _ _ _ _ Hlen Hz) as Eb. rewrite app_nil_r in Eb.
  assert (Lc : length args = length ps) by exact Hlen.
  destruct (combine_rev_fst ps args Lc) as [Efst Esnd]. rewrite <- Eb in Efst, Esnd.
  set (fid := length (frames s)) in *. set (s1 := snd (push_frame s)) in *.
  assert (Ep : push_frame s = (fid, s1)) by reflexivity.
  unfold bindM in Ha.
  assert (Sadd : star n code (mkVm 0 (map SV (rev args)) cenv s) (mkVm 1 (map SV (rev args)) (fid :: cenv) s1)).
  { apply star_one. unfold step; cbn [pc stk scopes st]. rewrite Hadd, Ep. reflexivity. }
  rewrite <- Efst in Hcp.
  pose proof (sim_putenvs n code binds [] 1%nat [] fid cenv s1) as SP.
  destruct (bind_all fid binds s1) as [[u|g|] s2] eqn:Ebind.
  - specialize (SP _ _ Hcp eq_refl). simpl in SP. rewrite Esnd, app_nil_r in SP.
    assert (Lb : length binds = length ps).
    { rewrite Eb, rev_length, combine_length, Hlen. apply Nat.min_id. }
    rewrite Lb in SP.
    assert (Q : quiet (ev_begin (eval n) (fid :: cenv) body)).
    { apply scoped_nil_quiet. apply scoped_ev_begin; [|assumption].
      intros loops env0 e0 Hcc0. apply (proj1 (eval_apply_scoped n)). assumption. }
    unfold no_loop_sig in Ha.
    destruct (ev_begin (eval n) (fid :: cenv) body s2) as [rb s3] eqn:Ebody.
    destruct (Q _ _ _ Ebody) as [Qb Qc].
    assert (Ha' : (rb, s3) = (r, s')).
    { destruct rb as [v|[lb|lb|e0]|]; simpl in Ha; try exact Ha.
      - exfalso. eapply Qb. reflexivity.
      - exfalso. eapply Qc. reflexivity. }
    inversion Ha'; subst rb s3. clear Ha'.
    pose proof (sim_begin n code n (gen_sim n code Huniq n (le_n n)) body Hf Hne top 0%nat [] (1 + length ps)%nat []
                  (fid :: cenv) s2 _ _ eq_refl (Forall_nil _) (Forall_nil _) Hcb Ebody) as SB.
    destruct r as [v|[lb|lb|e0]|]; [|exfalso; eapply Qb; reflexivity|exfalso; eapply Qc; reflexivity| |congruence];
      unfold sim in SB; simpl in SB.
    + assert (Send : star n code (mkVm 0 (map SV (rev args)) cenv s)
                       (mkVm (1 + length ps + length (gen_begin gen nloops top 0 body) + 1) [SV v] cenv s')).
      { eapply star_trans; [exact Sadd|]. eapply star_trans; [exact SP|]. eapply star_trans; [exact SB|].
        apply star_one. unfold step; cbn [pc stk scopes st]. fetch Hrem. f_equal. f_equal. lia. }
      eapply (star_run _ _ _ _ Send 1%nat). 2: discriminate.
      simpl. unfold step; cbn [pc stk scopes st]. fetch Hret. reflexivity.
    + destruct SB as (m0 & Sm & A).
      assert (Sall : star n code (mkVm 0 (map SV (rev args)) cenv s) m0).
      { eapply star_trans; [exact Sadd|]. eapply star_trans; [exact SP|]. exact Sm. }
      eapply (star_run _ _ _ _ Sall 1%nat). 2: discriminate. simpl. rewrite A. reflexivity.
  - assert (Hrs : r = Sig g /\ s' = s2) by (inversion Ha; auto). destruct Hrs as [-> ->].
    specialize (SP _ _ Hcp eq_refl). rewrite Esnd, app_nil_r in SP.
    pose proof (quiet_bind_all fid binds s1 _ _ Ebind) as [Qb Qc].
    destruct g as [lb|lb|e0]; [exfalso; eapply Qb; reflexivity|exfalso; eapply Qc; reflexivity|].
    simpl in SP. destruct SP as (m0 & Sm & A).
    assert (Sall : star n code (mkVm 0 (map SV (rev args)) cenv s) m0) by (eapply star_trans; [exact Sadd|exact Sm]).
    eapply (star_run _ _ _ _ Sall 1%nat). 2: discriminate. simpl. rewrite A. reflexivity.
  - inversion Ha. congruence.
Qed.
