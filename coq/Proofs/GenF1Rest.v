(* C04 x C02 — for / break / continue inside the proved fragment, semantically.

   C02 proves (Proofs/GenF1Proofs.v, gen_sim) that the VM model of Model/GenF1.v, run on the code that
   the Gallina model of the real generator emits for ANY expression of F1 (F0 + for, break, continue,
   labelled or not, in every nesting), simulates the reference evaluator.  The simulation relation
   carries the whole machine state, so it says what C04 needs: when the evaluation returns a value the
   run ends exactly at the end of the code with that ONE value on the data stack and the scope chain of
   entry — the stack marks of the loops, the junk a break / continue jumps away from (values and marks
   of inner loops), and the scopes opened inside the loops are all gone, for every number of
   iterations.  Projected to the value-free state of Model/Verifier.v that is at_rest. *)
From Coq Require Import ZArith Bool List Arith Lia.
Require Import ZV.Model.Num ZV.Model.RefSem ZV.Model.GenF1 ZV.Proofs.GenF1Proofs.
Require ZV.Model.Bytecode ZV.Model.Verifier.
Import ListNotations.

(* the value-free view of a VM state of Model/GenF1.v *)
Definition pitem (x : selem) : Bytecode.item :=
  match x with SV _ => Bytecode.Val | SM id => Bytecode.Mark id end.
Definition proj (s : vmstate) : Verifier.cstate :=
  Verifier.mkc (pc s) (map pitem (stk s)) (length (scopes s)) 0 0.

Theorem f1_value_run_lemma : forall n e env s v s',
  f1 e = true -> cc [] e = true -> eval n env e s = (Done v, s') ->
  star n (gen top 0 e) (mkVm 0 [] env s) (mkVm (length (gen top 0 e)) [SV v] env s').
Proof.
  intros n e env s v s' Hf Hcc He.
  assert (Hc : code_at (gen top 0 e) 0 (gen top 0 e)). { exists [], []. rewrite app_nil_r. auto. }
  pose proof (gen_sim n (gen top 0 e) (nodup_unique _ (gen_loop_numbers_unique top 0%nat e)) n (le_n n) e Hf top 0%nat [] 0%nat [] env s
                (Done v) s' eq_refl (Forall_nil _) (Forall_nil _) Hc He) as S.
  exact S.
Qed.

(* from an interpreter at rest (one scope: the global one) the run of an F1 program that returns a
   value ends at rest once Run has popped the result *)
Theorem f1_leaves_nothing_behind_lemma : forall n e g s v s',
  f1 e = true -> cc [] e = true -> eval n [g] e s = (Done v, s') ->
  exists final,
    star n (gen top 0 e) (mkVm 0 [] [g] s) final /\
    pc final = length (gen top 0 e) /\ st final = s' /\
    Verifier.at_rest (proj (mkVm 0 [] [g] s)) = true /\
    Verifier.at_rest (Verifier.run_finish (proj final)) = true.
Proof.
  intros n e g s v s' Hf Hcc He.
  exists (mkVm (length (gen top 0 e)) [SV v] [g] s').
  split; [now apply f1_value_run_lemma|]. repeat split; reflexivity.
Qed.

(* ---- the VM model of C02 (values) is abstracted by the value-free machine of C04 ----
   every step of GenF1.step that stays inside the code is a step of VerifierProofs.astep on the same
   code mapped by GenAnnot.to_bytecode, between the projected states *)
Require Import ZV.Model.GenAnnot ZV.Proofs.VerifierProofs.
From Coq Require Import Relations.
Import Bytecode Verifier.
Local Open Scope nat_scope.

Lemma bc_find_loop_from : forall (offs : nat -> nat * nat) code id pos p bo co,
  GenF1.find_loop code id pos = Some (p, bo, co) ->
  Bytecode.find_loop_from (map (tb offs) code) id pos = Some p.
Proof.
  intros offs code. induction code as [|i r IH]; intros id pos p bo co H; simpl in *; [discriminate|].
  destruct i; simpl; try (eapply IH; eassumption).
  destruct (Nat.eqb id id0); [now inversion H|]. eapply IH; eassumption.
Qed.

Lemma pop_until_mark : forall id stk r, GenF1.pop_until id stk = Some r ->
  exists r', r = SM id :: r' /\ cpop_mark id (map pitem stk) = Some (map pitem r').
Proof.
  intros id stk. induction stk as [|x t IH]; intros r H; simpl in *; [discriminate|].
  destruct x as [v|id']; simpl.
  - now apply IH.
  - destruct (Nat.eqb id id') eqn:E.
    + apply Nat.eqb_eq in E. subst id'. inversion H; subst. exists t. split; reflexivity.
    + now apply IH.
Qed.

Lemma crun_scope_down : forall n k d sc0, k <= sc0 ->
  crun_dops n (rep k DScopeDown) (d, sc0) = Some (d, sc0 - k).
Proof.
  intros n k. induction k as [|k IH]; intros d sc0 H; simpl.
  - now rewrite Nat.sub_0_r.
  - destruct sc0 as [|j]; [lia|]. simpl. rewrite IH by lia. reflexivity.
Qed.

Lemma zpc_in : forall len t, t <= len -> zpc len (Z.of_nat t) = Some t.
Proof.
  intros len t H. unfold zpc.
  destruct (Z.of_nat t <? 0)%Z eqn:E1; [apply Z.ltb_lt in E1; lia|].
  destruct (Z.of_nat len <? Z.of_nat t)%Z eqn:E2; [apply Z.ltb_lt in E2; lia|].
  now rewrite Nat2Z.id.
Qed.

Ltac astep_ex i ops c ts d k :=
  exists i, ops, c, 0, ts, d, k.

(* backward jumps stay inside the code (the model's pc is a natural number: pc - off saturates at 0
   where the real JumpInstr would leave the code) *)
Definition back_ok (code : list GenF1.instr) : Prop :=
  forall p off, nth_error code p = Some (IJumpBack off) -> off <= p.

Fixpoint back_okb_from (p : nat) (code : list GenF1.instr) : bool :=
  match code with
  | [] => true
  | IJumpBack off :: r => Nat.leb off p && back_okb_from (S p) r
  | _ :: r => back_okb_from (S p) r
  end.
Definition back_okb (code : list GenF1.instr) : bool := back_okb_from 0 code.

Lemma back_okb_from_sound : forall code p0, back_okb_from p0 code = true ->
  forall p off, nth_error code p = Some (IJumpBack off) -> off <= p0 + p.
Proof.
  induction code as [|i r IH]; intros p0 H p off Hn; [destruct p; discriminate|].
  destruct p as [|p].
  - simpl in Hn. inversion Hn; subst i. simpl in H. apply andb_prop in H as [H _].
    apply Nat.leb_le in H. lia.
  - simpl in Hn. assert (Hr : back_okb_from (S p0) r = true).
    { destruct i; simpl in H; try exact H. now apply andb_prop in H as [_ H]. }
    specialize (IH (S p0) Hr p off Hn). lia.
Qed.
Lemma back_okb_sound : forall code, back_okb code = true -> back_ok code.
Proof. intros code H p off Hn. exact (back_okb_from_sound code 0 H p off Hn). Qed.

Theorem step_is_astep_lemma : forall n code fi s s', back_ok code ->
  GenF1.step n code s = Next s' -> GenF1.pc s' <= length code ->
  astep (to_bytecode code) fi (proj s) (proj s').
Proof.
  intros n code fi s s' Hback H Hle. unfold GenF1.step in H.
  destruct (nth_error code (GenF1.pc s)) as [i|] eqn:Hi; [|discriminate].
  assert (HW : nth_error (to_bytecode code) (GenF1.pc s) = Some (tb (offs_of code) i))
    by (unfold to_bytecode; now apply map_nth_error).
  assert (Hlen : length (to_bytecode code) = length code) by (unfold to_bytecode; apply map_length).
  unfold astep, proj. cbn [Verifier.pc Verifier.data Verifier.sc Verifier.ad Verifier.lp].
  destruct i; cbn [tb] in HW.
  - (* IPush *) inversion H; subst; clear H. cbn.
    astep_ex IPush [DPush Val] CNext [S (GenF1.pc s)] (Val :: map pitem (stk s)) (length (scopes s)).
    repeat split; auto. now left.
  - (* IEnvToStack *)
    destruct (lookup_chain (frames (st s)) (scopes s) x) as [[f v]|]; [|discriminate].
    inversion H; subst; clear H. cbn.
    astep_ex IEnvToStack [DPush Val] CNext [S (GenF1.pc s)] (Val :: map pitem (stk s)) (length (scopes s)).
    repeat split; auto. now left.
  - (* IPop *)
    destruct (stk s) as [|x r] eqn:Es; inversion H; subst; clear H; cbn.
    + astep_ex IPop [DPopTol] CNext [S (GenF1.pc s)] (@nil item) (length (scopes s)).
      repeat split; auto. now left.
    + astep_ex IPop [DPopTol] CNext [S (GenF1.pc s)] (map pitem r) (length (scopes s)).
      repeat split; auto. now left.
  - (* IDup *)
    destruct (stk s) as [|x r] eqn:Es; [discriminate|]. inversion H; subst; clear H. cbn.
    astep_ex IDup [DDup] CNext [S (GenF1.pc s)] (pitem x :: pitem x :: map pitem r) (length (scopes s)).
    repeat split; auto. now left.
  - (* IBranch *)
    destruct (stk s) as [|[v|m] r] eqn:Es; try discriminate.
    destruct (Bool.eqb dir (truthy v)); inversion H; subst; clear H; cbn in *.
    + astep_ex (IBranch (Z.of_nat off)) [DPop] (CBranch (Z.of_nat off)) [GenF1.pc s + off; S (GenF1.pc s)]
               (map pitem r) (length (scopes s)).
      repeat split; auto.
      * cbn. rewrite <- Nat2Z.inj_add, Hlen, zpc_in by exact Hle. reflexivity.
      * now left.
    + destruct (zpc (length (to_bytecode code)) (Z.of_nat (GenF1.pc s) + Z.of_nat off)) as [t|] eqn:Ez.
      * astep_ex (IBranch (Z.of_nat off)) [DPop] (CBranch (Z.of_nat off)) [t; S (GenF1.pc s)]
                 (map pitem r) (length (scopes s)).
        repeat split; auto. -- cbn. now rewrite Ez. -- right. now left.
      * astep_ex (IBranch (Z.of_nat off)) [DPop] (CBranch (Z.of_nat off)) [S (GenF1.pc s)]
                 (map pitem r) (length (scopes s)).
        repeat split; auto. -- cbn. now rewrite Ez. -- now left.
  - (* IJump *)
    inversion H; subst; clear H. cbn in *.
    astep_ex (IJump (Z.of_nat off)) (@nil dop) (CJump (Z.of_nat off)) [GenF1.pc s + off]
             (map pitem (stk s)) (length (scopes s)).
    repeat split; auto.
    + cbn. rewrite <- Nat2Z.inj_add, Hlen, zpc_in by exact Hle. reflexivity.
    + now left.
  - (* IJumpBack *)
    inversion H; subst; clear H. cbn in *.
    assert (Hp : GenF1.pc s < length code) by (apply nth_error_Some; congruence).
    pose proof (Hback _ _ Hi) as El.
    + astep_ex (IJump (- Z.of_nat off)%Z) (@nil dop) (CJump (- Z.of_nat off)%Z) [GenF1.pc s - off]
               (map pitem (stk s)) (length (scopes s)).
      repeat split; auto.
      * cbn. replace (Z.of_nat (GenF1.pc s) + - Z.of_nat off)%Z with (Z.of_nat (GenF1.pc s - off)) by lia.
        rewrite Hlen, zpc_in by lia. reflexivity.
      * now left.
  - (* IPutEnv *)
    destruct (stk s) as [|[v|m] r] eqn:Es; try discriminate.
    destruct (bind (hd 0 (scopes s)) x v (st s)) as [[u|g|] st']; try discriminate.
    inversion H; subst; clear H. cbn.
    astep_ex IPopStackPutEnv [DPop] CNext [S (GenF1.pc s)] (map pitem r) (length (scopes s)).
    repeat split; auto. now left.
  - (* IUpdate *)
    destruct (stk s) as [|[v|m] r] eqn:Es; try discriminate.
    destruct (lookup_chain (frames (st s)) (scopes s) x) as [[f w]|].
    + inversion H; subst; clear H. cbn.
      astep_ex IUpdate [DPop] CNext [S (GenF1.pc s)] (map pitem r) (length (scopes s)).
      repeat split; auto. now left.
    + destruct (bind (hd 0 (scopes s)) x v (st s)) as [[u|g|] st']; try discriminate.
      inversion H; subst; clear H. cbn.
      astep_ex IUpdate [DPop] CNext [S (GenF1.pc s)] (map pitem r) (length (scopes s)).
      repeat split; auto. now left.
  - (* IAddScope *)
    destruct (push_frame (st s)) as [f st']. inversion H; subst; clear H. cbn.
    astep_ex IAddScope [DScopeUp] CNext [S (GenF1.pc s)] (map pitem (stk s)) (S (length (scopes s))).
    repeat split; auto. now left.
  - (* IRemoveScope *)
    destruct (scopes s) as [|f r] eqn:Es; [discriminate|]. inversion H; subst; clear H. cbn.
    astep_ex IRemoveScope [DScopeDown] CNext [S (GenF1.pc s)] (map pitem (stk s)) (length r).
    repeat split; auto. now left.
  - (* ICallExpr *)
    destruct (call_expr (eval n) (apply n) (scopes s) f args (st s)) as [[v|g|] st']; try discriminate.
    inversion H; subst; clear H. cbn.
    astep_ex (ICallExpr (length args)) [DPush Val] CNext [S (GenF1.pc s)] (Val :: map pitem (stk s)) (length (scopes s)).
    repeat split; auto. now left.
  - (* ILoopStart *)
    inversion H; subst; clear H. cbn.
    astep_ex (ILoopStart id) (@nil dop) CNext [S (GenF1.pc s)] (map pitem (stk s)) (length (scopes s)).
    repeat split; auto. now left.
  - (* ILabel *)
    inversion H; subst; clear H. cbn.
    astep_ex ILabel (@nil dop) CNext [S (GenF1.pc s)] (map pitem (stk s)) (length (scopes s)).
    repeat split; auto. now left.
  - (* IPushMark *)
    inversion H; subst; clear H. cbn.
    astep_ex (IPushStackmark id) [DPush (Mark id)] CNext [S (GenF1.pc s)] (Mark id :: map pitem (stk s)) (length (scopes s)).
    repeat split; auto. now left.
  - (* IPopUntilMark *)
    destruct (pop_until id (stk s)) as [r|] eqn:Ep; [|discriminate].
    inversion H; subst; clear H. cbn.
    destruct (pop_until_mark _ _ _ Ep) as (r' & -> & Hc).
    astep_ex (IPopUntilStackmark id) [DPopToMark id; DPush (Mark id)] CNext [S (GenF1.pc s)]
             (Mark id :: map pitem r') (length (scopes s)).
    repeat split; auto. + cbn. now rewrite Hc. + now left.
  - (* IClearMark *)
    unfold clear_mark in H. destruct (pop_until id (stk s)) as [r|] eqn:Ep; [|discriminate].
    destruct (pop_until_mark _ _ _ Ep) as (r' & -> & Hc).
    inversion H; subst; clear H. cbn.
    astep_ex (IClearStackmark id) [DPopToMark id] CNext [S (GenF1.pc s)] (map pitem r') (length (scopes s)).
    repeat split; auto. + cbn. now rewrite Hc. + now left.
  - (* IBreak *)
    destruct (GenF1.find_loop code id 0) as [[[pos bo] co]|] eqn:Ef; [|discriminate].
    destruct (Nat.leb k (length (scopes s))) eqn:Ek; [|discriminate]. apply Nat.leb_le in Ek.
    inversion H; subst; clear H. cbn in *.
    assert (Eo : offs_of code id = (bo, co)) by (unfold offs_of; now rewrite Ef).
    rewrite Eo in HW. cbn in HW.
    astep_ex (IBreak id (Z.of_nat bo) k) (rep k DScopeDown) (CLoop id (Z.of_nat bo)) [pos + bo]
             (map pitem (stk s)) (length (scopes s) - k).
    repeat split; auto.
    + apply crun_scope_down. exact Ek.
    + cbn. unfold Bytecode.find_loop, to_bytecode. rewrite (bc_find_loop_from _ _ _ _ _ _ _ Ef).
      rewrite <- Nat2Z.inj_add, map_length, zpc_in by exact Hle. reflexivity.
    + now left.
    + now rewrite skipn_length.
  - (* ICont *)
    destruct (GenF1.find_loop code id 0) as [[[pos bo] co]|] eqn:Ef; [|discriminate].
    destruct (Nat.leb k (length (scopes s))) eqn:Ek; [|discriminate]. apply Nat.leb_le in Ek.
    inversion H; subst; clear H. cbn in *.
    assert (Eo : offs_of code id = (bo, co)) by (unfold offs_of; now rewrite Ef).
    rewrite Eo in HW. cbn in HW.
    astep_ex (IContinue id (Z.of_nat co) k) (rep k DScopeDown) (CLoop id (Z.of_nat co)) [pos + co]
             (map pitem (stk s)) (length (scopes s) - k).
    repeat split; auto.
    + apply crun_scope_down. exact Ek.
    + cbn. unfold Bytecode.find_loop, to_bytecode. rewrite (bc_find_loop_from _ _ _ _ _ _ _ Ef).
      rewrite <- Nat2Z.inj_add, map_length, zpc_in by exact Hle. reflexivity.
    + now left.
    + now rewrite skipn_length.
  - (* IAddFuncScope *)
    destruct (push_frame (st s)) as [f st']. inversion H; subst; clear H. cbn.
    astep_ex IAddFuncScope [DScopeUp] CNext [S (GenF1.pc s)] (map pitem (stk s)) (S (length (scopes s))).
    repeat split; auto. now left.
  - (* IReturn *) discriminate.
Qed.

(* ... hence every run of the VM model that ends inside the code is a run of the value-free machine *)
Theorem star_is_arun_lemma : forall n code fi a b, back_ok code ->
  star n code a b -> GenF1.pc b <= length code ->
  arun (to_bytecode code) fi (proj a) (proj b).
Proof.
  intros n code fi a b Hback H Hle. induction H as [s|s s1 s2 Hs Hr IH].
  - unfold arun. constructor 1.
  - unfold arun. econstructor 2; [|apply IH; exact Hle].
    eapply step_is_astep_lemma; [exact Hback|exact Hs|].
    inversion Hr as [|? m ? Hm _]; subst; [exact Hle|].
    unfold GenF1.step in Hm. destruct (nth_error code (GenF1.pc s1)) eqn:E; [|discriminate].
    apply Nat.lt_le_incl. apply nth_error_Some. congruence.
Qed.

(* the F1 run that returns a value, seen by the value-free machine: an arun of the mapped code from
   rest to the end of the code, and rest again after run_finish *)
Theorem f1_value_arun_lemma : forall n fi e g s v s',
  f1 e = true -> cc [] e = true -> back_ok (gen top 0 e) -> eval n [g] e s = (Done v, s') ->
  exists c1, arun (to_bytecode (gen top 0 e)) fi (mkc 0 [] 1 0 0) c1 /\
             Verifier.pc c1 = length (to_bytecode (gen top 0 e)) /\ data c1 = [Val] /\
             at_rest (run_finish c1) = true.
Proof.
  intros n fi e g s v s' Hf Hcc Hb He.
  pose proof (f1_value_run_lemma n e [g] s v s' Hf Hcc He) as S.
  exists (proj (mkVm (length (gen top 0 e)) [SV v] [g] s')).
  split; [|split; [|split]].
  - change (mkc 0 [] 1 0 0) with (proj (mkVm 0 [] [g] s)).
    eapply star_is_arun_lemma; [exact Hb|exact S|]. simpl. lia.
  - unfold to_bytecode. rewrite map_length. reflexivity.
  - reflexivity.
  - reflexivity.
Qed.

(* ---- the code of the generator model has no backward jump that leaves the code ---- *)
Definition bk (k : nat) (frag : list GenF1.instr) : Prop :=
  forall p off, nth_error frag p = Some (IJumpBack off) -> off <= k + p.

Lemma bk_nil : forall k, bk k [].
Proof. intros k p off H. destruct p; discriminate. Qed.
Lemma bk_app : forall k a b, bk k a -> bk (k + length a) b -> bk k (a ++ b).
Proof.
  intros k a b Ha Hb p off H. destruct (Nat.lt_ge_cases p (length a)) as [L|L].
  - rewrite nth_error_app1 in H by exact L. now apply Ha.
  - rewrite nth_error_app2 in H by exact L. specialize (Hb _ _ H). lia.
Qed.
Lemma bk_mono : forall k k' frag, k <= k' -> bk k frag -> bk k' frag.
Proof. intros k k' frag L H p off Hn. specialize (H _ _ Hn). lia. Qed.
Lemma bk_one : forall k i, (match i with IJumpBack off => off <= k | _ => True end) -> bk k [i].
Proof.
  intros k i H p off Hn. destruct p as [|p]; [|destruct p; discriminate].
  simpl in Hn. inversion Hn; subst i. lia.
Qed.
Lemma bk_cons : forall k i r, (match i with IJumpBack off => off <= k | _ => True end) -> bk (S k) r -> bk k (i :: r).
Proof.
  intros k i r Hi Hr. change (i :: r) with ([i] ++ r). apply bk_app; [now apply bk_one|].
  simpl. now rewrite Nat.add_1_r.
Qed.
Lemma bk_putenvs : forall k xs, bk k (map IPutEnv xs).
Proof. intros k xs. revert k. induction xs as [|x r IH]; intros k; simpl; [apply bk_nil|]. apply bk_cons; [exact I|apply IH]. Qed.

Definition BK (e : expr) : Prop := forall c n k, bk k (gen c n e).

Lemma BK_begin : forall es, Forall BK es -> forall c n k, bk k (gen_begin gen nloops c n es).
Proof.
  induction es as [|e r IH]; intros HP c n k; [simpl; apply bk_one; exact I|].
  inversion HP as [|? ? He Hr]; subst. destruct r as [|e2 r]; [simpl; apply He|].
  change (gen_begin gen nloops c n (e :: e2 :: r)) with
    ((match gen c n e with [] => [] | _ => gen c n e ++ [GenF1.IPop] end) ++ gen_begin gen nloops c (n + nloops e) (e2 :: r)).
  apply bk_app; [|now apply IH].
  pose proof (He c n k) as H0. destruct (gen c n e) eqn:E; [apply bk_nil|].
  apply bk_app; [exact H0|apply bk_one; exact I].
Qed.
Lemma BK_scope_body : forall es, Forall BK es -> forall c n k, bk k (gen_scope_body gen nloops c n es).
Proof.
  induction es as [|e r IH]; intros HP c n k; [simpl; apply bk_nil|].
  inversion HP as [|? ? He Hr]; subst. destruct r as [|e2 r]; [simpl; apply He|].
  change (gen_scope_body gen nloops c n (e :: e2 :: r)) with
    (gen c n e ++ [GenF1.IPop] ++ gen_scope_body gen nloops c (n + nloops e) (e2 :: r)).
  apply bk_app; [apply He|]. apply bk_app; [apply bk_one; exact I|now apply IH].
Qed.
Lemma BK_sc : forall or es, Forall BK es -> forall c n k, bk k (gen_sc gen nloops c n or es).
Proof.
  intros or. induction es as [|e r IH]; intros HP c n k; [simpl; apply bk_nil|].
  inversion HP as [|? ? He Hr]; subst. destruct r as [|e2 r]; [simpl; apply He|].
  change (gen_sc gen nloops c n or (e :: e2 :: r)) with
    (gen c n e ++ [GenF1.IDup; GenF1.IBranch or (length (gen_sc gen nloops c (n + nloops e) or (e2 :: r)) + 2); GenF1.IPop] ++
     gen_sc gen nloops c (n + nloops e) or (e2 :: r)).
  apply bk_app; [apply He|]. apply bk_app; [|now apply IH].
  repeat (apply bk_cons; [exact I|]). apply bk_nil.
Qed.
Lemma BK_cond : forall arms d, Forall (fun cb => BK (fst cb) /\ BK (snd cb)) arms -> BK d ->
  forall c n k, bk k (gen_cond gen nloops c n arms (fun n' => gen c n' d)).
Proof.
  induction arms as [|[t b] r IH]; intros d HP Hd c n k; [simpl; apply Hd|].
  inversion HP as [|? ? [Ht Hb] Hr]; subst. simpl in Ht, Hb. simpl.
  apply bk_app; [apply Ht|]. apply bk_cons; [exact I|]. apply bk_app; [apply Hb|].
  apply bk_cons; [exact I|]. now apply IH.
Qed.
Lemma BK_inits : forall bs, Forall (fun xb => BK (snd xb)) bs -> forall c n k, bk k (gen_inits gen nloops c n bs).
Proof.
  induction bs as [|[x e] r IH]; intros HP c n k; [simpl; apply bk_nil|].
  inversion HP as [|? ? He Hr]; subst. simpl in He. simpl. apply bk_app; [apply He|now apply IH].
Qed.
Lemma BK_letseq : forall bs, Forall (fun xb => BK (snd xb)) bs -> forall c n k, bk k (gen_letseq gen nloops c n bs).
Proof.
  induction bs as [|[x e] r IH]; intros HP c n k; [simpl; apply bk_nil|].
  inversion HP as [|? ? He Hr]; subst. simpl in He. simpl. apply bk_app; [apply He|].
  apply bk_cons; [exact I|]. now apply IH.
Qed.

Lemma gen_BK : forall e, BK e.
Proof.
  induction e using expr_ind_nested; intros c n k; try (simpl; first [apply bk_nil | apply bk_one; exact I]).
  - (* EBegin *) simpl. now apply BK_begin.
  - (* ECond *) simpl. now apply BK_cond.
  - simpl. now apply BK_sc.
  - simpl. now apply BK_sc.
  - (* EDef *) simpl. apply bk_app; [apply IHe|]. repeat (apply bk_cons; [exact I|]). apply bk_nil.
  - simpl. apply bk_app; [apply IHe|]. repeat (apply bk_cons; [exact I|]). apply bk_nil.
  - (* ELet *)
    destruct seq; simpl.
    + apply bk_cons; [exact I|]. apply bk_app; [now apply BK_letseq|]. apply bk_app; [now apply BK_begin|apply bk_one; exact I].
    + apply bk_cons; [exact I|]. apply bk_app; [now apply BK_inits|]. apply bk_app; [apply bk_putenvs|].
      apply bk_app; [now apply BK_begin|apply bk_one; exact I].
  - (* EScope *) simpl. apply bk_cons; [exact I|]. apply bk_app; [now apply BK_scope_body|apply bk_one; exact I].
  - (* EFor *)
    simpl. repeat (apply bk_cons; [exact I|]).
    apply bk_app; [apply bk_app; [apply IHe1|apply bk_one; exact I]|].
    apply bk_cons; [exact I|]. apply bk_cons; [exact I|].
    apply bk_app; [apply bk_app; [apply IHe3|apply bk_one; exact I]|].
    apply bk_cons; [exact I|]. apply bk_app; [apply IHe2|].
    apply bk_cons; [exact I|]. apply bk_cons; [exact I|].
    apply bk_app; [apply bk_app; [now apply BK_begin|apply bk_one; exact I]|].
    apply bk_cons; [|repeat (apply bk_cons; [exact I|]); apply bk_nil].
    rewrite !app_length. simpl. lia.
  - (* EBreak *) simpl. destruct (find _ _) as [[[? ?] ?]|]; [apply bk_one; exact I|apply bk_nil].
  - simpl. destruct (find _ _) as [[[? ?] ?]|]; [apply bk_one; exact I|apply bk_nil].
Qed.

Theorem gen_back_ok : forall c n e, back_ok (gen c n e).
Proof. intros c n e p off H. exact (gen_BK e c n 0 p off H). Qed.

(* the unconditional form *)
Theorem f1_value_arun_closed_lemma : forall n fi e g s v s',
  f1 e = true -> cc [] e = true -> eval n [g] e s = (Done v, s') ->
  exists c1, arun (to_bytecode (gen top 0 e)) fi (mkc 0 [] 1 0 0) c1 /\
             Verifier.pc c1 = length (to_bytecode (gen top 0 e)) /\ data c1 = [Val] /\
             at_rest (run_finish c1) = true.
Proof. intros. eapply f1_value_arun_lemma; eauto. apply gen_back_ok. Qed.
