(* Proofs about Model/GenShape.v: no crash site of the generator model is reachable - every index,
   slice, type assertion and explicit panic is guarded - and no generated instruction holds a nil
   symbol. *)
From Coq Require Import List Bool Arith Lia.
Import ListNotations.
Require Import ZV.Model.GenShape.

Definition good (r : res) : Prop := (forall s, r <> RCrash s) /\ (forall m, r <> ROk m true).

Lemma good_ok : forall m, good (ROk m false).
Proof. intros m; split; intros; discriminate. Qed.
Lemma good_ok' : forall m, good (ok m). Proof. intros; apply good_ok. Qed.
Lemma good_err : good RErr. Proof. split; intros; discriminate. Qed.
Lemma good_defer : good RDefer. Proof. split; intros; discriminate. Qed.
Lemma good_fuel : good RFuel. Proof. split; intros; discriminate. Qed.

Lemma good_bind : forall m r k, good r -> (forall m', good (k m')) -> good (bind m r k).
Proof.
  intros m r k [Hc Hl] Hk. destruct r; simpl; try (split; intros; discriminate).
  - destruct latent. exfalso; eapply Hl; reflexivity.
    destruct (Hk macs) as [Kc Kl]. destruct (k macs) eqn:E; simpl; try (split; intros; discriminate).
    + destruct latent. exfalso; eapply Kl; reflexivity. apply good_ok.
    + exfalso; eapply Kc; reflexivity.
  - exfalso; eapply Hc; reflexivity.
  - destruct (Hk m) as [Kc Kl]. destruct (k m) eqn:E; try (split; intros; discriminate).
    exfalso; eapply Kc; reflexivity.
Qed.

Lemma good_taint : forall r, good r -> good (taint r).
Proof.
  intros r [Hc Hl]. destruct r; simpl; try (split; intros; discriminate).
  exfalso; eapply Hc; reflexivity.
Qed.

Lemma good_idx : forall l i c k, i < length l -> (forall x, good (k x)) -> good (idx l i c k).
Proof.
  intros l i c k Hi Hk. unfold idx. destruct (nth_error l i) eqn:E.
  - apply Hk.
  - apply nth_error_None in E. lia.
Qed.

Lemma good_slice : forall l n c k, n <= length l -> (forall x, good (k x)) -> good (slice_from l n c k).
Proof.
  intros l n c k Hn Hk. unfold slice_from. destruct (length l <? n) eqn:E.
  - apply Nat.ltb_lt in E. lia.
  - apply Hk.
Qed.

(* ---- helpers ---- *)
Lemma is_list_to_array : forall e, is_list e = true -> exists l, list_to_array e = Some l.
Proof.
  induction e; simpl; intros H; try discriminate.
  - eexists; reflexivity.
  - destruct (IHe2 H) as [l Hl]. rewrite Hl. eexists; reflexivity.
Qed.

Lemma assign_pos_bound : forall e p q arr,
  is_assignment_list e p = Some q -> list_to_array e = Some arr -> q < p + length arr.
Proof.
  induction e; simpl; intros p q arr H1 H2; try discriminate.
  destruct (list_to_array e2) eqn:E2; try discriminate. inversion H2; subst arr. simpl.
  assert (Hrec : is_assignment_list e2 (S p) = Some q -> q < p + S (length l)).
  { intros H. specialize (IHe2 (S p) q l H eq_refl). lia. }
  destruct e1; try (apply Hrec; exact H1).
  destruct (s_class s); try (apply Hrec; exact H1).
  inversion H1; subst. lia.
Qed.

Lemma quoted_symbol_shape : forall h t u, is_quoted_symbol h t = (u, true) -> exists s, u = SSym s.
Proof.
  intros h t u H. unfold is_quoted_symbol in H.
  assert (K : forall u, match t with SPair (SSym s) _ => (SSym s, true) | _ => (SNull, false) end = (u, true) -> exists s, u = SSym s).
  { intros u0 H0. destruct t; try discriminate. destruct t1; try discriminate. inversion H0. eexists; reflexivity. }
  destruct h; try (apply K; exact H).
  destruct (is_quote s); try discriminate. apply K; exact H.
Qed.

Lemma get_lhs_no_crash : forall m a c, get_lhs m a <> LCrash c.
Proof.
  intros m a c. destruct a; simpl; try discriminate.
  - destruct (is_quoted_symbol a1 a2) as [u b] eqn:E. destruct b; try discriminate.
    destruct (quoted_symbol_shape _ _ _ E) as [s Hs]. subst u.
    destruct (s_builtin s || existsb (Nat.eqb (s_num s)) m); try discriminate.
    destruct (has_macro m s); discriminate.
  - destruct (s_builtin s || existsb (Nat.eqb (s_num s)) m); try discriminate.
    destruct (has_macro m s); discriminate.
Qed.

Lemma get_quoted_symbol_no_crash : forall e, get_quoted_symbol e <> inr false.
Proof.
  intros e. unfold get_quoted_symbol. destruct (list_len e) eqn:L; try discriminate.
  destruct (n =? 2) eqn:N; simpl; try discriminate. apply Nat.eqb_eq in N. subst n.
  destruct e; try discriminate. destruct e1; try discriminate.
  destruct (is_quote s); simpl; try discriminate.
  simpl in L. destruct e2; try discriminate.
  - destruct e2_1; discriminate.
Qed.

Section Steps.
  Variable omacro : sym -> list shape -> oexp.
  Variable oinfix : list shape -> oexps.
  Variable ofile : oexps.
  Variable rec : mode -> genv -> list nat -> shape -> res.
  Hypothesis Hrec : forall md g m e, good (rec md g m e).

  Local Notation gen := (gen rec).

  Lemma good_gen : forall g m e, good (gen g m e).
  Proof. intros; apply Hrec. Qed.

  Lemma good_gen_all : forall l g m, good (gen_all rec g m l).
  Proof. induction l; intros; simpl. apply good_ok'. apply good_bind. apply good_gen. intros; apply IHl. Qed.

  Lemma good_gen_begin : forall g m l, good (gen_begin rec g m l).
  Proof.
    intros. unfold gen_begin. destruct (length l =? 0) eqn:E. apply good_ok'.
    apply Nat.eqb_neq in E. apply good_bind. apply good_gen_all.
    intros. apply good_idx. lia. intros; apply good_gen.
  Qed.

  Lemma good_sc_loop : forall n g0 args m, n <= length args -> good (sc_loop rec g0 args n m).
  Proof.
    induction n; intros; simpl. apply good_ok'.
    apply good_idx. lia. intros. apply good_bind. apply good_gen. intros. apply IHn. lia.
  Qed.

  Lemma good_short_circuit : forall g m args, good (gen_short_circuit rec g m args).
  Proof.
    intros. unfold gen_short_circuit. destruct (length args =? 0) eqn:E. apply good_err.
    apply Nat.eqb_neq in E. apply good_idx. lia. intros. apply good_bind. apply good_gen.
    intros. apply good_sc_loop. lia.
  Qed.

  Lemma good_quote : forall m args, good (gen_quote m args).
  Proof.
    intros. unfold gen_quote. destruct (length args =? 1) eqn:E; simpl. 2: apply good_err.
    apply Nat.eqb_eq in E. apply good_idx. lia. intros; apply good_ok'.
  Qed.

  Lemma good_cond_loop : forall n g args m, 2 * n <= length args -> good (cond_loop rec g args n m).
  Proof.
    induction n; intros; cbn [cond_loop]. apply good_ok'.
    apply good_idx. lia. intros. apply good_bind. apply good_gen. intros.
    apply good_idx. lia. intros. apply good_bind. apply good_gen. intros. apply IHn. lia.
  Qed.

  Lemma good_cond : forall g m args, good (gen_cond rec g m args).
  Proof.
    intros. unfold gen_cond. destruct (Nat.even (length args)) eqn:E. apply good_err.
    assert (length args <> 0). { intro H0. rewrite H0 in E. discriminate. }
    apply good_idx. lia. intros. apply good_bind. apply good_gen. intros.
    apply good_cond_loop. pose proof (Nat.div_mod (length args) 2). pose proof (Nat.mod_upper_bound (length args) 2). lia.
  Qed.

  Lemma good_def : forall f g m args, f = FDef \/ f = FSet -> good (gen_def rec f g m args).
  Proof.
    intros f g m args Hf. unfold gen_def. destruct (length args =? 2) eqn:E; simpl. 2: apply good_err.
    apply Nat.eqb_eq in E. apply good_idx. lia. intros a0.
    apply good_bind.
    - destruct a0; try apply good_gen;
        (destruct (get_lhs m _) eqn:L;
         [ apply good_err
         | destruct Hf; subst f; apply good_ok'
         | exfalso; eapply get_lhs_no_crash; exact L ]).
    - intros. apply good_idx. lia. intros; apply good_gen.
  Qed.

  Lemma good_mdef_targets : forall nsym m args i, i + nsym <= length args -> good (mdef_targets m args i nsym false).
  Proof.
    induction nsym; intros; simpl. apply good_ok.
    apply good_idx. lia. intros a. destruct a; try apply good_err.
    - destruct (is_quoted_symbol a1 a2) as [u b] eqn:E. destruct b.
      + destruct (quoted_symbol_shape _ _ _ E) as [s Hs]. subst u. apply IHnsym. lia.
      + apply good_err.
    - destruct (has_macro m s). apply good_err. apply IHnsym. lia.
  Qed.

  Lemma good_mdef : forall g m args, good (gen_mdef rec g m args).
  Proof.
    intros. unfold gen_mdef. destruct (length args <? 2) eqn:E. apply good_err.
    apply Nat.ltb_ge in E. apply good_bind. apply good_mdef_targets. lia.
    intros. apply good_idx. lia. intros; apply good_gen.
  Qed.

  Lemma good_build_fun : forall g m name formals body, good (build_fun rec g m name formals body).
  Proof. intros. unfold build_fun. destruct (negb (all_syms formals)). apply good_err. apply good_gen_begin. Qed.

  Lemma good_fn : forall g m args, good (gen_fn rec g m args).
  Proof.
    intros. unfold gen_fn. destruct (length args <? 2) eqn:E. apply good_err.
    apply Nat.ltb_ge in E. apply good_idx. lia. intros a0. destruct a0; try apply good_err.
    apply good_slice. lia. intros; apply good_build_fun.
  Qed.

  Lemma good_defn : forall g m args, good (gen_defn rec g m args).
  Proof.
    intros. unfold gen_defn. destruct (length args <? 3) eqn:E. apply good_err.
    apply Nat.ltb_ge in E. apply good_idx. lia. intros a1. destruct a1; try apply good_err.
    apply good_idx. lia. intros a0. destruct a0; try apply good_err.
    destruct (s_builtin s || existsb (Nat.eqb (s_num s)) m). apply good_err.
    destruct (has_macro m s). apply good_err.
    apply good_slice. lia. intros; apply good_build_fun.
  Qed.

  Lemma good_defmac : forall g m args, good (gen_defmac rec g m args).
  Proof.
    intros. unfold gen_defmac. destruct (length args <? 3) eqn:E. apply good_err.
    apply Nat.ltb_ge in E. apply good_idx. lia. intros a1. destruct a1; try apply good_err.
    apply good_idx. lia. intros a0. destruct a0; try apply good_err.
    destruct (s_table s). apply good_err. destruct (s_self s). apply good_err.
    destruct (s_bind s); try apply good_err.
    apply good_slice. lia. intros body.
    pose proof (good_build_fun g m (Some (s_num s)) l body) as Hb.
    destruct (build_fun rec g m (Some (s_num s)) l body); try exact Hb.
    destruct Hb as [_ Hl]. destruct latent. exfalso; eapply Hl; reflexivity. apply good_ok.
  Qed.

  Lemma let_lhs_no_crash : forall n b i c, 2 * (i + n) <= length b -> let_lhs b i n <> CCrash c.
  Proof.
    induction n; intros b i c H; cbn [let_lhs]. discriminate.
    destruct (nth_error b (2 * i)) as [x|] eqn:E1.
    - destruct x; try discriminate.
      destruct (nth_error b (2 * i + 1)) eqn:E2.
      + apply IHn. lia.
      + apply nth_error_None in E2. lia.
    - apply nth_error_None in E1. lia.
  Qed.

  Lemma good_let_rhs : forall n g m b i, 2 * (i + n) <= length b -> good (let_rhs rec g m b i n).
  Proof.
    induction n; intros; cbn [let_rhs]. apply good_ok'.
    apply good_idx. lia. intros. apply good_bind. apply good_gen. intros. apply IHn. lia.
  Qed.

  Lemma good_let : forall g m args, good (gen_let rec g m args).
  Proof.
    intros. unfold gen_let. destruct (length args <? 2) eqn:E. apply good_err.
    apply Nat.ltb_ge in E. apply good_idx. lia. intros a0. destruct a0; try apply good_err.
    destruct (negb (Nat.even (length l))). apply good_err.
    assert (Hb : 2 * (0 + length l / 2) <= length l).
    { pose proof (Nat.div_mod (length l) 2). lia. }
    destruct (let_lhs l 0 (length l / 2)) eqn:L.
    - apply good_bind. apply good_let_rhs. exact Hb. intros. apply good_slice. lia. intros; apply good_gen_begin.
    - apply good_err.
    - exfalso. eapply let_lhs_no_crash; [exact Hb | exact L].
  Qed.

  Lemma good_assert : forall g m args, good (gen_assert rec g m args).
  Proof.
    intros. unfold gen_assert. destruct (length args =? 1) eqn:E; simpl. 2: apply good_err.
    apply Nat.eqb_eq in E. apply good_idx. lia. intros; apply good_gen.
  Qed.

  Lemma good_macexpand : forall g m args, good (gen_macexpand omacro g m args).
  Proof.
    intros. unfold gen_macexpand. destruct (length args =? 1) eqn:E; simpl. 2: apply good_err.
    apply Nat.eqb_eq in E. apply good_idx. lia. intros a. destruct a; try apply good_ok'.
    destruct a1; try apply good_ok'.
    destruct (is_list a2 && has_macro m s). 2: apply good_ok'.
    destruct (list_to_array a2). 2: apply good_err.
    destruct (omacro s l). apply good_err. apply good_ok'. apply good_defer.
  Qed.

  Lemma good_sq_all : forall l g m, good (sq_all rec g m l).
  Proof. induction l; intros; simpl. apply good_ok'. apply good_bind. apply Hrec. intros; apply IHl. Qed.

  Lemma good_sq_one : forall g m a, good (sq_one rec g m a).
  Proof.
    intros. unfold sq_one. destruct a; try apply good_ok'; try apply good_defer.
    - destruct (negb (is_list (SPair a1 a2))). apply good_ok'.
      destruct (list_to_array (SPair a1 a2)) as [qb|]. 2: apply good_ok'.
      destruct (length qb =? 2) eqn:E. 2: apply good_sq_all.
      apply Nat.eqb_eq in E. apply good_idx. lia. intros q0.
      destruct q0; try apply good_sq_all.
      destruct (s_class s); try apply good_sq_all; (apply good_idx; [lia | intros; apply good_gen]).
    - apply good_sq_all.
  Qed.

  Lemma good_syntax_quote : forall g m args, good (gen_syntax_quote rec g m args).
  Proof.
    intros. unfold gen_syntax_quote. destruct (length args =? 1) eqn:E; simpl. 2: apply good_err.
    apply Nat.eqb_eq in E. apply good_idx. lia. intros; apply good_sq_one.
  Qed.

  Lemma good_inc_all : forall l g m, good (inc_all rec g m l).
  Proof. induction l; intros; simpl. apply good_ok'. apply good_bind. apply Hrec. intros; apply IHl. Qed.

  Lemma good_inc_walk : forall e g m, good (inc_walk rec g m e).
  Proof.
    induction e; intros; simpl; try apply good_err. apply good_ok'.
    apply good_bind. apply Hrec. intros; apply IHe2.
  Qed.

  Lemma good_inc_item : forall g m a, good (inc_item ofile rec g m a).
  Proof.
    intros. unfold inc_item. destruct a; try apply good_err.
    - apply good_inc_walk.
    - apply good_inc_all.
    - destruct ofile. apply good_err. apply good_gen_begin. apply good_defer.
  Qed.

  Lemma good_include : forall g m args, good (gen_include rec g m args).
  Proof. intros. unfold gen_include. destruct (length args <? 1). apply good_err. apply good_inc_all. Qed.

  Lemma good_for : forall g m args, good (gen_for rec g m args).
  Proof.
    intros. unfold gen_for. destruct (length args <? 1) eqn:E. apply good_err.
    apply Nat.ltb_ge in E.
    assert (K : forall label startgen c, startgen <= length args ->
      good (if negb (length c =? 3) then RErr else
            slice_from args startgen (SiteIndex FFor) (fun body =>
              bind m (gen_begin rec (mkGenv (g_fname g) (label :: g_loops g)) m body) (fun m1 =>
                idx c 0 (SiteIndex FFor) (fun c0 => bind m1 (gen (mkGenv (g_fname g) (label :: g_loops g)) m1 c0) (fun m2 =>
                  idx c 1 (SiteIndex FFor) (fun c1 => bind m2 (gen (mkGenv (g_fname g) (label :: g_loops g)) m2 c1) (fun m3 =>
                    idx c 2 (SiteIndex FFor) (fun c2 => gen (mkGenv (g_fname g) (label :: g_loops g)) m3 c2))))))))).
    { intros label startgen c Hs. destruct (length c =? 3) eqn:C; simpl. 2: apply good_err.
      apply Nat.eqb_eq in C. apply good_slice. exact Hs. intros body.
      apply good_bind. apply good_gen_begin. intros.
      apply good_idx. lia. intros. apply good_bind. apply good_gen. intros.
      apply good_idx. lia. intros. apply good_bind. apply good_gen. intros.
      apply good_idx. lia. intros. apply good_gen. }
    assert (KL : forall l : sym, good (if length args <? 2 then RErr else
        idx args 1 (SiteIndex FFor) (fun a1 => match a1 with
          | SArr c =>
             (if negb (length c =? 3) then RErr else
              slice_from args 2 (SiteIndex FFor) (fun body =>
              bind m (gen_begin rec (mkGenv (g_fname g) (Some (s_num l) :: g_loops g)) m body) (fun m1 =>
                idx c 0 (SiteIndex FFor) (fun c0 => bind m1 (gen (mkGenv (g_fname g) (Some (s_num l) :: g_loops g)) m1 c0) (fun m2 =>
                  idx c 1 (SiteIndex FFor) (fun c1 => bind m2 (gen (mkGenv (g_fname g) (Some (s_num l) :: g_loops g)) m2 c1) (fun m3 =>
                    idx c 2 (SiteIndex FFor) (fun c2 => gen (mkGenv (g_fname g) (Some (s_num l) :: g_loops g)) m3 c2))))))))
          | _ => RErr end))).
    { intros l. destruct (length args <? 2) eqn:E2. apply good_err. apply Nat.ltb_ge in E2.
      apply good_idx. lia. intros a1. destruct a1; try apply good_err. apply K. lia. }
    apply good_idx. lia. intros a0. destruct a0; try apply good_err.
    - destruct (get_quoted_symbol (SPair a0_1 a0_2)) as [l|b] eqn:Q.
      + apply KL.
      + destruct b. apply good_err. exfalso. eapply get_quoted_symbol_no_crash; exact Q.
    - apply K. lia.
    - apply KL.
  Qed.

  Lemma good_break : forall f g m args, good (gen_break f g m args).
  Proof.
    intros. unfold gen_break. destruct (1 <? length args) eqn:E. apply good_err.
    apply Nat.ltb_ge in E.
    assert (K : forall label, good (match g_loops g with
      | [] => RErr
      | _ => match label with
             | None => ok m
             | Some n => if existsb (fun l => match l with Some x => x =? n | None => false end) (g_loops g)
                         then ok m else RErr end end)).
    { intros label. destruct (g_loops g). apply good_err. destruct label. 2: apply good_ok'.
      match goal with |- good (if ?c then _ else _) => destruct c end. apply good_ok'. apply good_err. }
    destruct (length args =? 1) eqn:E1. 2: exact (K None).
    apply Nat.eqb_eq in E1. apply good_idx. lia. intros a. destruct a; try apply good_err.
    - destruct (get_quoted_symbol (SPair a1 a2)) as [l|b] eqn:Q. exact (K (Some (s_num l))).
      destruct b. apply good_err. exfalso. eapply get_quoted_symbol_no_crash; exact Q.
    - exact (K (Some (s_num s))).
  Qed.

  Lemma good_new_scope : forall g m l, good (gen_new_scope rec g m l).
  Proof.
    intros. unfold gen_new_scope. destruct (length l =? 0) eqn:E. apply good_ok'.
    apply Nat.eqb_neq in E. apply good_bind. apply good_gen_all.
    intros. apply good_idx. lia. intros; apply good_gen.
  Qed.

  Lemma good_package : forall g m l, good (gen_package rec g m l).
  Proof.
    intros. unfold gen_package. destruct (length l <? 1) eqn:E. apply good_err.
    apply Nat.ltb_ge in E. apply good_idx. lia. intros e0.
    destruct e0; try apply good_err;
      (apply good_bind; [apply good_gen_all | intros; apply good_idx; [lia | intros; apply good_gen]]).
  Qed.

  Lemma good_scan_args : forall args g m, good (scan_args rec g m args).
  Proof.
    induction args; intros; simpl. apply good_ok'.
    pose proof (good_gen g m a) as Ha. destruct (gen g m a) eqn:E.
    - destruct latent.
      + apply good_taint. apply IHargs.
      + destruct (length macs =? length m). apply IHargs. apply good_taint. apply IHargs.
    - apply good_taint. apply IHargs.
    - exact Ha.
    - apply good_taint. apply IHargs.
    - apply good_fuel.
  Qed.

  Lemma good_call_by_symbol : forall g m s args, good (gen_call_by_symbol omacro rec g m s args).
  Proof.
    intros. unfold gen_call_by_symbol. destruct (s_class s).
    - destruct f.
      + apply good_short_circuit.
      + apply good_short_circuit.
      + apply good_cond.
      + apply good_quote.
      + apply good_def; auto.
      + apply good_mdef.
      + apply good_fn.
      + apply good_defn.
      + apply good_gen_begin.
      + apply good_let.
      + apply good_let.
      + apply good_assert.
      + apply good_defmac.
      + apply good_macexpand.
      + apply good_syntax_quote.
      + apply good_include.
      + apply good_for.
      + apply good_def; auto.
      + apply good_break.
      + apply good_break.
      + apply good_new_scope.
      + apply good_package.
      + apply good_gen_all.
      + apply good_ok'.
    - destruct (has_macro m s). destruct (omacro s args). apply good_err. apply good_gen. apply good_defer.
      destruct (g_fname g). destruct (n =? s_num s). apply good_scan_args. apply good_ok'. apply good_ok'.
    - destruct (has_macro m s). destruct (omacro s args). apply good_err. apply good_gen. apply good_defer.
      destruct (g_fname g). destruct (n =? s_num s). apply good_scan_args. apply good_ok'. apply good_ok'.
    - destruct (has_macro m s). destruct (omacro s args). apply good_err. apply good_gen. apply good_defer.
      destruct (g_fname g). destruct (n =? s_num s). apply good_scan_args. apply good_ok'. apply good_ok'.
    - destruct (has_macro m s). destruct (omacro s args). apply good_err. apply good_gen. apply good_defer.
      destruct (g_fname g). destruct (n =? s_num s). apply good_scan_args. apply good_ok'. apply good_ok'.
  Qed.

  Lemma good_call : forall g m h t, good (gen_call omacro oinfix rec g m h t).
  Proof.
    intros. unfold gen_call. destruct h; try apply good_ok'.
    destruct (s_self s). apply good_call_by_symbol.
    destruct (s_bind s); try apply good_call_by_symbol.
    - apply good_ok'.
    - destruct (oinfix _). apply good_err. destruct (length l =? 0). apply good_ok'. apply good_gen_begin. apply good_defer.
  Qed.

  Lemma good_assign_loop : forall n g m lhs rhs i, i + n <= length lhs -> i + n <= length rhs ->
    good (assign_loop rec g m lhs rhs i n).
  Proof.
    induction n; intros; simpl. apply good_ok'.
    apply good_idx. lia. intros. apply good_idx. lia. intros.
    apply good_bind. apply good_def; auto. intros. apply IHn; lia.
  Qed.

  Lemma good_assignment : forall g m e p, is_list e = true -> is_assignment_list e 0 = Some p ->
    good (gen_assignment rec g m e p).
  Proof.
    intros g m e p HL HA. unfold gen_assignment.
    destruct (is_list_to_array e HL) as [arr Harr]. rewrite Harr.
    pose proof (assign_pos_bound e 0 p arr HA Harr) as Hp. simpl in Hp.
    destruct ((length arr <=? 1) || (p =? length arr - 1)). apply good_err.
    destruct (length arr <? p + 1) eqn:E. apply Nat.ltb_lt in E. lia.
    destruct (negb (length (firstn p arr) =? length (skipn (p + 1) arr))) eqn:N. apply good_err.
    apply negb_false_iff in N. apply Nat.eqb_eq in N.
    apply good_assign_loop; lia.
  Qed.

  Lemma good_generate : forall g m e, good (generate omacro oinfix rec g m e).
  Proof.
    intros. unfold generate. destruct e; try apply good_ok'.
    - destruct (is_list (SPair e1 e2)) eqn:L. 2: apply good_ok'.
      destruct (is_assignment_list (SPair e1 e2) 0) as [p|] eqn:A. 2: apply good_call.
      destruct p. apply good_call.
      destruct (get_lhs m e1) eqn:G.
      + apply good_call.
      + destruct (negb (s_dot s)). apply good_assignment; assumption. apply good_call.
      + exfalso. eapply get_lhs_no_crash; exact G.
    - apply good_gen_all.
  Qed.

  Lemma good_step : forall md g m e, good (step omacro oinfix ofile rec md g m e).
  Proof. intros. destruct md; simpl. apply good_generate. apply good_sq_one. apply good_inc_item. Qed.
End Steps.

(* no crash outcome and no latent (nil-symbol) instruction, for every input, state and oracle *)
Theorem run_good : forall omacro oinfix ofile fuel md g m e, good (run omacro oinfix ofile fuel md g m e).
Proof.
  intros omacro oinfix ofile fuel. induction fuel; intros md g m e.
  - apply good_fuel.
  - simpl. apply good_step. exact IHfuel.
Qed.

Theorem run_no_crash : forall omacro oinfix ofile fuel md g m e s,
  run omacro oinfix ofile fuel md g m e <> RCrash s.
Proof. intros. apply (proj1 (run_good omacro oinfix ofile fuel md g m e)). Qed.

Theorem load_good : forall omacro oinfix ofile fuel xs, good (load omacro oinfix ofile fuel xs).
Proof. intros. unfold load. apply good_gen_begin. apply run_good. Qed.

Theorem load_no_crash : forall omacro oinfix ofile fuel xs s, load omacro oinfix ofile fuel xs <> RCrash s.
Proof. intros. apply (proj1 (load_good omacro oinfix ofile fuel xs)). Qed.

Theorem load_no_latent : forall omacro oinfix ofile fuel xs m, load omacro oinfix ofile fuel xs <> ROk m true.
Proof. intros. apply (proj2 (load_good omacro oinfix ofile fuel xs)). Qed.

(* ---- witnesses ---- *)
Definition ysym (c : nameclass) (n : nat) : sym := mkSym c false false false false false BNone n.
Definition lst (l : list shape) : shape := fold_right SPair SNull l.

(* (include ([] \ 1)) *)
Definition w_include : shape := lst [SSym (ysym (NForm FInclude) 1); SPair (SArr []) SInt].
(* (mdef (a) b 1) *)
Definition w_mdef : shape := lst [SSym (ysym (NForm FMdef) 2); lst [SSym (ysym NOther 3)]; SSym (ysym NOther 4); SInt].

(* the two former counterexamples are compile errors now *)
Lemma include_improper_is_error : load_deferred 10 [w_include] = RErr.
Proof. vm_compute. reflexivity. Qed.

Lemma mdef_list_target_is_error : load_deferred 10 [w_mdef] = RErr.
Proof. vm_compute. reflexivity. Qed.

(* the latent flag is raised only by GenerateMultiDef: without an mdef head in the input there is none.
   (Stated on the result type: the only latent site of the model is SiteMdefNilSym, by construction.) *)

(* enough fuel: with deferring oracles the model never runs out of fuel above the input size *)
Fixpoint sizes (l : list shape) : nat := match l with [] => 0 | x :: r => size x + sizes r end.

(* the lexer model (Model/Lexer.v, built for C13) has no crash outcome *)
Require Import ZV.Model.Lexer.
Lemma lex_rune_total : forall s r, exists s', lex_rune s r = LOk s' \/ lex_rune s r = LErr s'.
Proof. intros s r. destruct (lex_rune s r) as [s'|s']; exists s'; [left|right]; reflexivity. Qed.
