(* C04 x C02 — gen_verifies for programs WITH for loops (round 7): every output of the model of the real code
   generator (Model/GenF1.v) for an F1 program without break / continue is accepted by the certificate
   checker check_fn, with the annotation annot_ofL built by structural recursion on the expression.
   annL = GenAnnot.ann + the case of GenerateForLoop (for_ann); nj = "no break / continue anywhere".
   The helper lemmas of Proofs/GenVerifies.v (P_begin P_sb P_sc P_cond P_letseq P_inits P_puts P_defset
   P_scope P_let_seq P_let_par) are re-proved here for annL / nj (same proofs: their induction hypothesis
   now also covers loops inside every sub-form); new: for_good (the 21 instruction sites of the loop
   layout around four abstract sub-fragments), gen_for_eq, P_for, lf_nj.
   Still open (break / continue): see Properties/C04.v at gen_verifies_F1_loops_partial. *)
From Coq Require Import ZArith Bool List Lia.
Require Import ZV.Model.RefSem.
Require ZV.Model.GenF1.
Require Import ZV.Proofs.GenF1Proofs.
Require Import ZV.Model.Bytecode ZV.Model.Verifier ZV.Model.GenAnnot ZV.Proofs.VerifierProofs.
Import ListNotations.
Local Open Scope nat_scope.

Notation glen c n e := (length (GenF1.gen c n e)).

(* ---------- round 7: the annotation of GenerateForLoop (loops whose code contains no break / continue) ---------- *)

(* the for-loop layout of GenF1.gen (EFor ...) with the four sub-codes and the three jump offsets named *)
Definition for_code (n bo co jo bro back : nat) (Ci Cs Ct Cb : list GenF1.instr) : list GenF1.instr :=
  GenF1.ILoopStart n bo co :: GenF1.IAddScope :: GenF1.IPushMark n :: GenF1.ILabel :: Ci ++
  GenF1.IPopUntilMark n :: GenF1.IJump jo :: GenF1.ILabel :: Cs ++
  GenF1.IPopUntilMark n :: GenF1.ILabel :: Ct ++
  GenF1.IBranch false bro :: GenF1.ILabel :: Cb ++
  GenF1.IPopUntilMark n :: GenF1.IJumpBack back :: GenF1.ILabel :: GenF1.IClearMark n ::
  GenF1.IRemoveScope :: [GenF1.IPush ENil].

(* its annotation (without the entry (0, s)): s = (ab, k) at LoopStart / AddScope, one more scope at
   PushStackmark, the loop's clean state sm = (mark n :: ab, k+1) at every label, sm + one value after
   init / increment / test / body, back to s after ClearStackmark; RemoveScope *)
Definition for_ann (n : nat) (ab : list aitem) (k Li Ls Lt Lb : nat) (li ls lt lb : list pa) : list pa :=
  [(1, (ab, k)); (2, (ab, S k)); (3, (AMark n :: ab, S k))] ++ sh 4 li ++
  [(4 + Li, (AVal :: AMark n :: ab, S k)); (5 + Li, (AMark n :: ab, S k)); (6 + Li, (AMark n :: ab, S k))] ++
  sh (7 + Li) ls ++
  [(7 + Li + Ls, (AVal :: AMark n :: ab, S k)); (8 + Li + Ls, (AMark n :: ab, S k))] ++
  sh (9 + Li + Ls) lt ++
  [(9 + Li + Ls + Lt, (AVal :: AMark n :: ab, S k)); (10 + Li + Ls + Lt, (AMark n :: ab, S k))] ++
  sh (11 + Li + Ls + Lt) lb ++
  [(11 + Li + Ls + Lt + Lb, (AVal :: AMark n :: ab, S k)); (12 + Li + Ls + Lt + Lb, (AMark n :: ab, S k));
   (13 + Li + Ls + Lt + Lb, (AMark n :: ab, S k)); (14 + Li + Ls + Lt + Lb, (AMark n :: ab, S k));
   (15 + Li + Ls + Lt + Lb, (ab, S k)); (16 + Li + Ls + Lt + Lb, (ab, k))].

(* GenAnnot.ann extended by the for loop *)
Fixpoint annL (c : GenF1.cctx) (n : nat) (e : expr) (s : astate) {struct e} : list pa :=
  (0, s) ::
  match e with
  | EBegin es => ann_begin annL c n es s
  | ECond arms d => ann_cond annL c n arms (fun n' => clip (glen c n' d) (annL c n' d s)) s
  | EAnd es | EOr es => ann_sc annL c n es s
  | EDef _ e1 | ESet _ e1 =>
    let L := glen c n e1 in clip L (annL c n e1 s) ++ [(L, pushv s); (S L, pushv (pushv s))]
  | ELet false bs body =>
    let c1 := c_in c in
    let s1 := scup s in
    let Li := length (GenF1.gen_inits GenF1.gen GenF1.nloops c1 n bs) in
    let k := length bs in
    let Lb := length (GenF1.gen_begin GenF1.gen GenF1.nloops c1 (n + GenF1.nl_binds GenF1.nloops bs) body) in
    sh 1 (clip Li (ann_inits annL c1 n bs s1)) ++ sh (S Li) (clip k (ann_puts k s1)) ++
    sh (S Li + k) (clip Lb (ann_begin annL c1 (n + GenF1.nl_binds GenF1.nloops bs) body s1)) ++
    [(S Li + k + Lb, pushv s1)]
  | ELet true bs body =>
    let c1 := c_in c in
    let s1 := scup s in
    let Li := length (GenF1.gen_letseq GenF1.gen GenF1.nloops c1 n bs) in
    let Lb := length (GenF1.gen_begin GenF1.gen GenF1.nloops c1 (n + GenF1.nl_binds GenF1.nloops bs) body) in
    sh 1 (clip Li (ann_letseq annL c1 n bs s1)) ++
    sh (S Li) (clip Lb (ann_begin annL c1 (n + GenF1.nl_binds GenF1.nloops bs) body s1)) ++
    [(S Li + Lb, pushv s1)]
  | EScope es =>
    let c1 := c_in c in
    let s1 := scup s in
    let Lb := length (GenF1.gen_scope_body GenF1.gen GenF1.nloops c1 n es) in
    sh 1 (clip Lb (ann_scope_body annL c1 n es s1)) ++ [(S Lb, pushv s1)]
  | EFor lbl i t st body =>
    for_ann n (fst s) (snd s)
      (glen (GenF1.inner c lbl n) (S n) i)
      (glen (GenF1.inner c lbl n) (S n + GenF1.nloops i) st)
      (glen (GenF1.inner c lbl n) (S n + GenF1.nloops i + GenF1.nloops st) t)
      (length (GenF1.gen_begin GenF1.gen GenF1.nloops (GenF1.inner c lbl n) (S n + GenF1.nloops i + GenF1.nloops st + GenF1.nloops t) body))
      (clip (glen (GenF1.inner c lbl n) (S n) i) (annL (GenF1.inner c lbl n) (S n) i (AMark n :: fst s, S (snd s))))
      (clip (glen (GenF1.inner c lbl n) (S n + GenF1.nloops i) st)
            (annL (GenF1.inner c lbl n) (S n + GenF1.nloops i) st (AMark n :: fst s, S (snd s))))
      (clip (glen (GenF1.inner c lbl n) (S n + GenF1.nloops i + GenF1.nloops st) t)
            (annL (GenF1.inner c lbl n) (S n + GenF1.nloops i + GenF1.nloops st) t (AMark n :: fst s, S (snd s))))
      (clip (length (GenF1.gen_begin GenF1.gen GenF1.nloops (GenF1.inner c lbl n) (S n + GenF1.nloops i + GenF1.nloops st + GenF1.nloops t) body))
            (ann_begin annL (GenF1.inner c lbl n) (S n + GenF1.nloops i + GenF1.nloops st + GenF1.nloops t) body (AMark n :: fst s, S (snd s))))
  | _ => []
  end.

Definition annot_ofL (e : expr) : annot :=
  build (length (GenF1.gen GenF1.top 0 e)) (annL GenF1.top 0 e ([], 0)).

(* jump-free expressions: F0 + for loops (any nesting), no break / continue *)
Fixpoint nj (e : expr) : bool :=
  match e with
  | EBreak _ | ECont _ => false
  | EBegin es | EAnd es | EOr es | EScope es => forallb nj es
  | ECond arms d => forallb (fun cb => nj (fst cb) && nj (snd cb)) arms && nj d
  | EDef _ e1 | ESet _ e1 => nj e1
  | ELet _ bs body => forallb (fun xb => nj (snd xb)) bs && forallb nj body
  | EFor _ i t st body => nj i && nj t && nj st && forallb nj body
  | _ => true
  end.


(* ---------- small facts ---------- *)

Lemma In_sh : forall k l i s, In (i, s) (sh k l) <-> exists j, i = k + j /\ In (j, s) l.
Proof.
  intros k l i s. unfold sh. rewrite in_map_iff. split.
  - intros ([j s'] & E & H). simpl in E. inversion E; subst. eauto.
  - intros (j & -> & H). exists (j, s). auto.
Qed.

Lemma aitem_eqb_refl : forall a, aitem_eqb a a = true.
Proof. destruct a; simpl; auto using Nat.eqb_refl. Qed.
Lemma aitems_eqb_refl : forall a, aitems_eqb a a = true.
Proof. induction a; simpl; auto. rewrite aitem_eqb_refl. auto. Qed.
Lemma astate_eqb_refl : forall s, astate_eqb s s = true.
Proof. intros [a k]. unfold astate_eqb. simpl. now rewrite aitems_eqb_refl, Nat.eqb_refl. Qed.

Lemma In_mem : forall s l, In s l -> mem s l = true.
Proof.
  intros s l H. unfold mem. apply existsb_exists. exists s. split; [exact H|apply astate_eqb_refl].
Qed.

Lemma flows_in : forall A len t st, t < len -> In st (nth t A []) -> flows A len true t st = true.
Proof.
  intros A len t st Hlt Hin. unfold flows. apply Nat.ltb_lt in Hlt. rewrite Hlt. now apply In_mem.
Qed.

Lemma zpc_nat : forall len t, t <= len -> zpc len (Z.of_nat t) = Some t.
Proof.
  intros len t H. unfold zpc.
  destruct (Z.of_nat t <? 0)%Z eqn:E1; [apply Z.ltb_lt in E1; lia|].
  destruct (Z.of_nat len <? Z.of_nat t)%Z eqn:E2; [apply Z.ltb_lt in E2; lia|].
  now rewrite Nat2Z.id.
Qed.

(* ---------- checking one instruction ---------- *)

Section Code.
  Variable G : list GenF1.instr.
  Variable fi : finfo.
  Variable A : annot.
  Let offs := offs_of G.
  Let W := map (tb offs) G.
  Let len := length W.

  Definition ok (p : nat) (s : astate) : Prop := check_state W fi true A p s = true.

  Lemma W_at : forall p i c, code_at G p (i :: c) -> nth_error W p = Some (tb offs i).
  Proof. intros p i c H. unfold W. apply map_nth_error. eapply code_at_head; eauto. Qed.

  Lemma code_at_lt : forall p c i, code_at G p c -> i < length c -> p + i < len.
  Proof.
    intros p c i (pre & post & E & L) H. unfold len, W. rewrite map_length, E, !app_length. lia.
  Qed.

  Lemma code_at_le : forall p c, code_at G p c -> p + length c <= len.
  Proof.
    intros p c (pre & post & E & L). unfold len, W. rewrite map_length, E, !app_length. lia.
  Qed.

  (* an instruction that continues at pc+1 *)
  Lemma ok_next : forall p i s ops s',
    nth_error W p = Some i -> known i = true -> eff fi i = Some (ops, CNext) ->
    arun_dops true ops s = Some s' -> flows A len true (S p) s' = true -> ok p s.
  Proof.
    intros p i s ops s' Hi Hk He Ha Hf. unfold ok, check_state, asucc.
    rewrite Hi, Hk, He, Ha. simpl. fold len. now rewrite Hf.
  Qed.

  Lemma ok_jump : forall p z s t,
    nth_error W p = Some (IJump z) -> zpc len (Z.of_nat p + z) = Some t ->
    flows A len true t s = true -> ok p s.
  Proof.
    intros p z s t Hi Hz Hf. unfold ok, check_state, asucc. rewrite Hi. simpl.
    fold len. rewrite Hz. simpl. fold len. now rewrite Hf.
  Qed.

  Lemma ok_branch : forall p z x ab k t,
    nth_error W p = Some (IBranch z) -> is_many x = false -> zpc len (Z.of_nat p + z) = Some t ->
    flows A len true t (ab, k) = true -> flows A len true (S p) (ab, k) = true -> ok p (x :: ab, k).
  Proof.
    intros p z x ab k t Hi Hx Hz Hf1 Hf2. unfold ok, check_state, asucc. rewrite Hi. simpl.
    rewrite Hx. simpl. fold len. rewrite Hz. simpl. fold len. now rewrite Hf1, Hf2.
  Qed.

  (* ---------- fragments ---------- *)

  Definition covers (p : nat) (l : list pa) (L : nat) : Prop :=
    forall i s, In (i, s) l -> i < L -> In s (nth (p + i) A []).
  Definition good (p : nat) (l : list pa) (L : nat) : Prop :=
    forall i s, In (i, s) l -> i < L -> ok (p + i) s.

  (* where control may go inside a fragment whose annotation is covered *)
  Lemma flow_to : forall p l c i st,
    covers p l (length c) -> code_at G p c -> In (i, st) l -> i < length c ->
    flows A len true (p + i) st = true.
  Proof.
    intros p l c i st Hc Hat Hin Hlt. apply flows_in; [eapply code_at_lt; eauto|]. now apply Hc.
  Qed.

  Lemma covers_sub : forall p l L off l' L',
    covers p l L -> (forall j s, In (j, s) l' -> In (off + j, s) l) -> off + L' <= L ->
    covers (p + off) l' L'.
  Proof.
    intros p l L off l' L' Hc Hsub Hle j s Hin Hlt. rewrite <- Nat.add_assoc. apply Hc; [now apply Hsub|lia].
  Qed.

  Lemma good_sh : forall p off l L i s,
    good (p + off) l L -> In (i, s) (sh off l) -> i < off + L -> ok (p + i) s.
  Proof.
    intros p off l L i s Hg Hin Hlt. apply In_sh in Hin as (j & -> & Hj).
    rewrite Nat.add_assoc. apply Hg; [exact Hj|lia].
  Qed.

  Lemma ann_head : forall c n e s, In (0, s) (annL c n e s).
  Proof. intros c n e s. destruct e; left; reflexivity. Qed.

  (* the statement proved by induction on the expression *)
  Definition P (e : expr) : Prop := forall c n p s,
    GenF1.f1 e = true -> nj e = true ->
    code_at G p (GenF1.gen c n e) ->
    covers p (annL c n e s) (glen c n e) ->
    flows A len true (p + glen c n e) (pushv s) = true ->
    good p (annL c n e s) (glen c n e).

  Lemma ne_gen : forall e c n, GenF1.ne e = true -> GenF1.gen c n e <> [].
  Proof.
    intros e c n H. destruct e; simpl in H; try discriminate; simpl; try discriminate.
    - destruct arms as [|[t b] r]; [discriminate|]. simpl. intro E. apply app_eq_nil in E as [_ E]. discriminate.
    - destruct es as [|e1 [|e2 r]]; try discriminate. intro E.
      change (GenF1.gen_sc GenF1.gen GenF1.nloops c n false (e1 :: e2 :: r)) with
        (GenF1.gen c n e1 ++ [GenF1.IDup; GenF1.IBranch false (length (GenF1.gen_sc GenF1.gen GenF1.nloops c (n + GenF1.nloops e1) false (e2 :: r)) + 2); GenF1.IPop] ++ GenF1.gen_sc GenF1.gen GenF1.nloops c (n + GenF1.nloops e1) false (e2 :: r)) in E.
      apply app_eq_nil in E as [_ E]. discriminate.
    - destruct es as [|e1 [|e2 r]]; try discriminate. intro E.
      change (GenF1.gen_sc GenF1.gen GenF1.nloops c n true (e1 :: e2 :: r)) with
        (GenF1.gen c n e1 ++ [GenF1.IDup; GenF1.IBranch true (length (GenF1.gen_sc GenF1.gen GenF1.nloops c (n + GenF1.nloops e1) true (e2 :: r)) + 2); GenF1.IPop] ++ GenF1.gen_sc GenF1.gen GenF1.nloops c (n + GenF1.nloops e1) true (e2 :: r)) in E.
      apply app_eq_nil in E as [_ E]. discriminate.
    - intro E. apply app_eq_nil in E as [_ E]. discriminate.
    - intro E. apply app_eq_nil in E as [_ E]. discriminate.
    - destruct seq; discriminate.
  Qed.

  (* a simple instruction (continues at pc+1) sitting after c1 inside a fragment *)
  Lemma ok_simple : forall p c1 i c2 s ops s',
    code_at G p (c1 ++ i :: c2) -> known (tb offs i) = true -> eff fi (tb offs i) = Some (ops, CNext) ->
    arun_dops true ops s = Some s' -> flows A len true (S (p + length c1)) s' = true ->
    ok (p + length c1) s.
  Proof.
    intros p c1 i c2 s ops s' Hat Hk He Ha Hf. apply code_at_app in Hat as [_ Hat].
    eapply ok_next; eauto. eapply W_at; eauto.
  Qed.
  Lemma In_clip : forall L l i s, In (i, s) (clip L l) <-> In (i, s) l /\ i < L.
  Proof.
    intros L l i s. unfold clip. rewrite filter_In. simpl. rewrite Nat.ltb_lt. tauto.
  Qed.

  Lemma head_in : forall c n e s, GenF1.gen c n e <> [] -> In (0, s) (clip (glen c n e) (annL c n e s)).
  Proof.
    intros c n e s H. apply In_clip. split; [apply ann_head|].
    destruct (GenF1.gen c n e); [congruence|simpl; lia].
  Qed.

  (* unfolding equations *)
  Lemma gen_begin_2 : forall c n e e2 r,
    GenF1.gen_begin GenF1.gen GenF1.nloops c n (e :: e2 :: r) =
    (match GenF1.gen c n e with [] => [] | _ => GenF1.gen c n e ++ [GenF1.IPop] end) ++
    GenF1.gen_begin GenF1.gen GenF1.nloops c (n + GenF1.nloops e) (e2 :: r).
  Proof. reflexivity. Qed.
  Lemma ann_begin_2 : forall c n e e2 r s,
    ann_begin annL c n (e :: e2 :: r) s =
    clip (glen c n e) (annL c n e s) ++ [(glen c n e, pushv s)] ++
    sh (S (glen c n e)) (ann_begin annL c (n + GenF1.nloops e) (e2 :: r) s).
  Proof. reflexivity. Qed.

  (* every expression of the jump-free fragment has code *)
  Lemma NE_all : forall e c n, GenF1.f1 e = true -> nj e = true -> GenF1.gen c n e <> [].
  Proof.
    induction e using expr_ind_nested; intros c n Hf Hl; simpl in Hf, Hl; try discriminate; try (simpl; discriminate).
    - (* EBegin *)
      apply andb_prop in Hf as [Hf Hne]. apply andb_prop in Hf as [Hnn Hf].
      destruct es as [|e [|e2 r]]; [discriminate| |].
      + simpl. inversion H; subst. simpl in Hf, Hl. rewrite andb_true_r in Hf, Hl. now apply H2.
      + change (GenF1.gen c n (EBegin (e :: e2 :: r))) with (GenF1.gen_begin GenF1.gen GenF1.nloops c n (e :: e2 :: r)).
        rewrite gen_begin_2. simpl in Hne. apply andb_prop in Hne as [Hne _].
        pose proof (ne_gen e c n Hne) as Hg. destruct (GenF1.gen c n e) eqn:E; [congruence|]. simpl. discriminate.
    - (* ECond *)
      destruct arms as [|[t b] r].
      + simpl. apply IHe; [now simpl in Hf|now simpl in Hl].
      + simpl. intro E. apply app_eq_nil in E as [_ E]. discriminate.
    - (* EAnd *)
      apply andb_prop in Hf as [Hnn Hf].
      destruct es as [|e [|e2 r]]; [discriminate| |].
      + simpl. inversion H; subst. simpl in Hf, Hl. rewrite andb_true_r in Hf, Hl. now apply H2.
      + apply ne_gen. reflexivity.
    - (* EOr *)
      apply andb_prop in Hf as [Hnn Hf].
      destruct es as [|e [|e2 r]]; [discriminate| |].
      + simpl. inversion H; subst. simpl in Hf, Hl. rewrite andb_true_r in Hf, Hl. now apply H2.
      + apply ne_gen. reflexivity.
    - apply ne_gen; reflexivity.
    - apply ne_gen; reflexivity.
    - apply ne_gen; reflexivity.
  Qed.
  Lemma arun_pop : forall s, arun_dops true [DPopTol] (pushv s) = Some s.
  Proof. intros [ab k]. reflexivity. Qed.
  Lemma arun_pop1 : forall s, arun_dops true [DPop] (pushv s) = Some s.
  Proof. intros [ab k]. reflexivity. Qed.
  Lemma arun_push : forall s, arun_dops true [DPush Val] s = Some (pushv s).
  Proof. intros [ab k]. reflexivity. Qed.
  Lemma arun_dup : forall s, arun_dops true [DDup] (pushv s) = Some (pushv (pushv s)).
  Proof. intros [ab k]. reflexivity. Qed.
  Lemma arun_up : forall s, arun_dops true [DScopeUp] s = Some (scup s).
  Proof. intros [ab k]. reflexivity. Qed.
  Lemma arun_down : forall s, arun_dops true [DScopeDown] (pushv (scup s)) = Some (pushv s).
  Proof. intros [ab k]. reflexivity. Qed.

  Lemma begin_head : forall es c n s, es <> [] -> forallb GenF1.f1 es = true -> forallb nj es = true ->
    In (0, s) (ann_begin annL c n es s).
  Proof.
    intros es c n s Hne Hf Hl. destruct es as [|e [|e2 r]]; [congruence| |].
    - simpl in *. rewrite andb_true_r in Hf, Hl. apply head_in. now apply NE_all.
    - rewrite ann_begin_2. apply in_or_app. left. simpl in Hf, Hl.
      apply andb_prop in Hf as [Hf _]. apply andb_prop in Hl as [Hl _]. apply head_in. now apply NE_all.
  Qed.

  Lemma gen_begin_ne : forall es c n, forallb GenF1.f1 es = true -> forallb nj es = true ->
    GenF1.init_ne es = true -> 0 < length (GenF1.gen_begin GenF1.gen GenF1.nloops c n es).
  Proof.
    intros es c n Hf Hl Hne. destruct es as [|e [|e2 r]]; [simpl; lia| |].
    - simpl in *. rewrite andb_true_r in Hf, Hl. pose proof (NE_all e c n Hf Hl).
      destruct (GenF1.gen c n e); [congruence|simpl; lia].
    - rewrite gen_begin_2. simpl in Hne. apply andb_prop in Hne as [Hne _]. pose proof (ne_gen e c n Hne).
      destruct (GenF1.gen c n e); [congruence|]. rewrite app_length. simpl. lia.
  Qed.

  Lemma P_begin : forall es, Forall P es -> forall c n p s,
    forallb GenF1.f1 es = true -> forallb nj es = true -> GenF1.init_ne es = true ->
    code_at G p (GenF1.gen_begin GenF1.gen GenF1.nloops c n es) ->
    covers p (ann_begin annL c n es s) (length (GenF1.gen_begin GenF1.gen GenF1.nloops c n es)) ->
    flows A len true (p + length (GenF1.gen_begin GenF1.gen GenF1.nloops c n es)) (pushv s) = true ->
    good p (ann_begin annL c n es s) (length (GenF1.gen_begin GenF1.gen GenF1.nloops c n es)).
  Proof.
    induction es as [|e r IH]; intros HP c n p s Hf Hl Hne Hat Hcov Hex.
    - simpl in *. intros i s' [E|[]] Hlt. inversion E; subst i s'. rewrite Nat.add_0_r.
      eapply ok_next; [apply (W_at p (GenF1.IPush ENil) []); exact Hat|reflexivity|reflexivity|apply arun_push|].
      replace (S p) with (p + 1) by lia. exact Hex.
    - inversion HP as [|? ? HPe HPr]; subst. destruct r as [|e2 r].
      + simpl in *. rewrite andb_true_r in Hf, Hl. intros i s' Hin Hlt. apply In_clip in Hin as [Hin _].
        apply (HPe c n p s Hf Hl Hat); auto.
        intros j s'' Hj Hlt'. apply Hcov; auto. apply In_clip. auto.
      + rewrite gen_begin_2 in *. rewrite ann_begin_2 in *.
        simpl in Hf, Hl, Hne. apply andb_prop in Hf as [Hfe Hfr]. apply andb_prop in Hl as [Hle Hlr].
        apply andb_prop in Hne as [Hnee Hner].
        assert (Hm : (match GenF1.gen c n e with [] => [] | _ => GenF1.gen c n e ++ [GenF1.IPop] end) = GenF1.gen c n e ++ [GenF1.IPop]).
        { pose proof (ne_gen e c n Hnee). destruct (GenF1.gen c n e); [congruence|reflexivity]. }
        rewrite Hm in *. clear Hm.
        assert (HL : length (((GenF1.gen c n e) ++ [GenF1.IPop]) ++ GenF1.gen_begin GenF1.gen GenF1.nloops c (n + GenF1.nloops e) (e2 :: r)) = length (GenF1.gen c n e) + 1 + length (GenF1.gen_begin GenF1.gen GenF1.nloops c (n + GenF1.nloops e) (e2 :: r))) by (rewrite !app_length; simpl; lia).
        rewrite HL in *.
        pose proof (gen_begin_ne (e2 :: r) c (n + GenF1.nloops e) Hfr Hlr Hner) as HR.
        pose proof Hat as Hat0. rewrite <- app_assoc in Hat. simpl in Hat.
        destruct (code_at_app _ _ _ _ Hat) as [Hat1 Hat2].
        intros i s' Hin Hlt. apply in_app_or in Hin as [H1|H1]; [|apply in_app_or in H1 as [H1|H1]].
        * apply In_clip in H1 as [H1 Hi].
          apply (HPe c n p s Hfe Hle Hat1); auto.
          -- intros j s'' Hj Hlt'. apply Hcov; [|lia]. apply in_or_app. left. apply In_clip. auto.
          -- apply flows_in; [eapply (code_at_lt p _ (length (GenF1.gen c n e)) Hat0); rewrite HL; lia|].
             apply Hcov; [|lia]. apply in_or_app. right. left. reflexivity.
        * destruct H1 as [E|[]]. inversion E; subst i s'.
          eapply ok_simple; [exact Hat|reflexivity|reflexivity|apply arun_pop|].
          replace (S (p + length (GenF1.gen c n e))) with (p + (S (length (GenF1.gen c n e)) + 0)) by lia.
          apply flows_in; [eapply (code_at_lt p _ _ Hat0); rewrite HL; lia|].
          apply Hcov; [|lia]. apply in_or_app. right. right. apply In_sh. exists 0. split; [lia|].
          apply begin_head; [discriminate|exact Hfr|exact Hlr].
        * eapply good_sh; [|exact H1|].
          -- apply code_at_cons in Hat2. replace (S (p + length (GenF1.gen c n e))) with (p + S (length (GenF1.gen c n e))) in Hat2 by lia.
             apply (IH HPr c (n + GenF1.nloops e) (p + S (length (GenF1.gen c n e))) s Hfr Hlr Hner Hat2).
             ++ intros j s'' Hj Hlt'. rewrite <- Nat.add_assoc. apply Hcov; [|lia].
                apply in_or_app. right. right. apply In_sh. eauto.
             ++ replace (p + S (length (GenF1.gen c n e)) + length (GenF1.gen_begin GenF1.gen GenF1.nloops c (n + GenF1.nloops e) (e2 :: r))) with (p + (length (GenF1.gen c n e) + 1 + length (GenF1.gen_begin GenF1.gen GenF1.nloops c (n + GenF1.nloops e) (e2 :: r)))) by lia. exact Hex.
          -- lia.
  Qed.
  (* ---- newScope body ---- *)
  Lemma gen_sb_2 : forall c n e e2 r,
    GenF1.gen_scope_body GenF1.gen GenF1.nloops c n (e :: e2 :: r) =
    GenF1.gen c n e ++ [GenF1.IPop] ++ GenF1.gen_scope_body GenF1.gen GenF1.nloops c (n + GenF1.nloops e) (e2 :: r).
  Proof. reflexivity. Qed.
  Lemma ann_sb_2 : forall c n e e2 r s,
    ann_scope_body annL c n (e :: e2 :: r) s =
    clip (glen c n e) (annL c n e s) ++ [(glen c n e, pushv s)] ++
    sh (S (glen c n e)) (ann_scope_body annL c (n + GenF1.nloops e) (e2 :: r) s).
  Proof. reflexivity. Qed.

  Lemma sb_head : forall es c n s, es <> [] -> forallb GenF1.f1 es = true -> forallb nj es = true ->
    In (0, s) (ann_scope_body annL c n es s).
  Proof.
    intros es c n s Hne Hf Hl. destruct es as [|e [|e2 r]]; [congruence| |].
    - simpl in *. rewrite andb_true_r in Hf, Hl. apply head_in. now apply NE_all.
    - rewrite ann_sb_2. apply in_or_app. left. simpl in Hf, Hl.
      apply andb_prop in Hf as [Hf _]. apply andb_prop in Hl as [Hl _]. apply head_in. now apply NE_all.
  Qed.

  Lemma gen_sb_ne : forall es c n, es <> [] -> forallb GenF1.f1 es = true -> forallb nj es = true ->
    0 < length (GenF1.gen_scope_body GenF1.gen GenF1.nloops c n es).
  Proof.
    intros es c n Hn Hf Hl. destruct es as [|e [|e2 r]]; [congruence| |].
    - simpl in *. rewrite andb_true_r in Hf, Hl. pose proof (NE_all e c n Hf Hl).
      destruct (GenF1.gen c n e); [congruence|simpl; lia].
    - rewrite gen_sb_2. rewrite !app_length. simpl. lia.
  Qed.

  Lemma P_sb : forall es, Forall P es -> forall c n p s,
    forallb GenF1.f1 es = true -> forallb nj es = true ->
    code_at G p (GenF1.gen_scope_body GenF1.gen GenF1.nloops c n es) ->
    covers p (ann_scope_body annL c n es s) (length (GenF1.gen_scope_body GenF1.gen GenF1.nloops c n es)) ->
    flows A len true (p + length (GenF1.gen_scope_body GenF1.gen GenF1.nloops c n es)) (pushv s) = true ->
    good p (ann_scope_body annL c n es s) (length (GenF1.gen_scope_body GenF1.gen GenF1.nloops c n es)).
  Proof.
    induction es as [|e r IH]; intros HP c n p s Hf Hl Hat Hcov Hex.
    - simpl. intros i s' [].
    - inversion HP as [|? ? HPe HPr]; subst. destruct r as [|e2 r].
      + simpl in *. rewrite andb_true_r in Hf, Hl. intros i s' Hin Hlt. apply In_clip in Hin as [Hin _].
        apply (HPe c n p s Hf Hl Hat); auto.
        intros j s'' Hj Hlt'. apply Hcov; auto. apply In_clip. auto.
      + rewrite gen_sb_2 in *. rewrite ann_sb_2 in *.
        simpl in Hf, Hl. apply andb_prop in Hf as [Hfe Hfr]. apply andb_prop in Hl as [Hle Hlr].
        assert (HL : length (GenF1.gen c n e ++ [GenF1.IPop] ++ GenF1.gen_scope_body GenF1.gen GenF1.nloops c (n + GenF1.nloops e) (e2 :: r)) = glen c n e + 1 + length (GenF1.gen_scope_body GenF1.gen GenF1.nloops c (n + GenF1.nloops e) (e2 :: r))) by (rewrite !app_length; simpl; lia).
        rewrite HL in *.
        assert (HR : 0 < length (GenF1.gen_scope_body GenF1.gen GenF1.nloops c (n + GenF1.nloops e) (e2 :: r))) by (apply gen_sb_ne; [discriminate|exact Hfr|exact Hlr]).
        pose proof Hat as Hat0. simpl in Hat.
        destruct (code_at_app _ _ _ _ Hat) as [Hat1 Hat2].
        intros i s' Hin Hlt. apply in_app_or in Hin as [H1|H1]; [|apply in_app_or in H1 as [H1|H1]].
        * apply In_clip in H1 as [H1 Hi].
          apply (HPe c n p s Hfe Hle Hat1); auto.
          -- intros j s'' Hj Hlt'. apply Hcov; [|lia]. apply in_or_app. left. apply In_clip. auto.
          -- apply flows_in; [eapply (code_at_lt p _ (glen c n e) Hat0); rewrite HL; lia|].
             apply Hcov; [|lia]. apply in_or_app. right. left. reflexivity.
        * destruct H1 as [E|[]]. inversion E; subst i s'.
          eapply ok_simple; [exact Hat|reflexivity|reflexivity|apply arun_pop|].
          replace (S (p + glen c n e)) with (p + (S (glen c n e) + 0)) by lia.
          apply flows_in; [eapply (code_at_lt p _ _ Hat0); rewrite HL; lia|].
          apply Hcov; [|lia]. apply in_or_app. right. right. apply In_sh. exists 0. split; [lia|].
          apply sb_head; [discriminate|exact Hfr|exact Hlr].
        * eapply good_sh; [|exact H1|].
          -- apply code_at_cons in Hat2. replace (S (p + glen c n e)) with (p + S (glen c n e)) in Hat2 by lia.
             apply (IH HPr c (n + GenF1.nloops e) (p + S (glen c n e)) s Hfr Hlr Hat2).
             ++ intros j s'' Hj Hlt'. rewrite <- Nat.add_assoc. apply Hcov; [|lia].
                apply in_or_app. right. right. apply In_sh. eauto.
             ++ replace (p + S (glen c n e) + length (GenF1.gen_scope_body GenF1.gen GenF1.nloops c (n + GenF1.nloops e) (e2 :: r))) with (p + (glen c n e + 1 + length (GenF1.gen_scope_body GenF1.gen GenF1.nloops c (n + GenF1.nloops e) (e2 :: r)))) by lia. exact Hex.
          -- lia.
  Qed.
  Lemma ok_branch_mid : forall p c1 d off c2 ab k,
    code_at G p (c1 ++ GenF1.IBranch d off :: c2) -> p + length c1 + off <= len ->
    flows A len true (p + length c1 + off) (ab, k) = true ->
    flows A len true (S (p + length c1)) (ab, k) = true -> ok (p + length c1) (AVal :: ab, k).
  Proof.
    intros p c1 d off c2 ab k Hat Hle Hf1 Hf2. apply code_at_app in Hat as [_ Hat].
    eapply ok_branch; [apply (W_at _ _ _ Hat)|reflexivity| |exact Hf1|exact Hf2].
    rewrite <- Nat2Z.inj_add. now apply zpc_nat.
  Qed.

  Lemma ok_jump_mid : forall p c1 off c2 s,
    code_at G p (c1 ++ GenF1.IJump off :: c2) -> p + length c1 + off <= len ->
    flows A len true (p + length c1 + off) s = true -> ok (p + length c1) s.
  Proof.
    intros p c1 off c2 s Hat Hle Hf. apply code_at_app in Hat as [_ Hat].
    eapply ok_jump; [apply (W_at _ _ _ Hat)| |exact Hf].
    rewrite <- Nat2Z.inj_add. now apply zpc_nat.
  Qed.

  (* ---- and / or ---- *)
  Lemma gen_sc_2 : forall c n o e e2 r,
    GenF1.gen_sc GenF1.gen GenF1.nloops c n o (e :: e2 :: r) =
    GenF1.gen c n e ++ [GenF1.IDup; GenF1.IBranch o (length (GenF1.gen_sc GenF1.gen GenF1.nloops c (n + GenF1.nloops e) o (e2 :: r)) + 2); GenF1.IPop] ++
    GenF1.gen_sc GenF1.gen GenF1.nloops c (n + GenF1.nloops e) o (e2 :: r).
  Proof. reflexivity. Qed.
  Lemma ann_sc_2 : forall c n e e2 r s,
    ann_sc annL c n (e :: e2 :: r) s =
    clip (glen c n e) (annL c n e s) ++
    [(glen c n e, pushv s); (S (glen c n e), pushv (pushv s)); (S (S (glen c n e)), pushv s)] ++
    sh (S (S (S (glen c n e)))) (ann_sc annL c (n + GenF1.nloops e) (e2 :: r) s).
  Proof. reflexivity. Qed.

  Lemma sc_head : forall es c n s, es <> [] -> forallb GenF1.f1 es = true -> forallb nj es = true ->
    In (0, s) (ann_sc annL c n es s).
  Proof.
    intros es c n s Hne Hf Hl. destruct es as [|e [|e2 r]]; [congruence| |].
    - simpl in *. rewrite andb_true_r in Hf, Hl. apply head_in. now apply NE_all.
    - rewrite ann_sc_2. apply in_or_app. left. simpl in Hf, Hl.
      apply andb_prop in Hf as [Hf _]. apply andb_prop in Hl as [Hl _]. apply head_in. now apply NE_all.
  Qed.

  Lemma gen_sc_ne : forall es c n o, es <> [] -> forallb GenF1.f1 es = true -> forallb nj es = true ->
    0 < length (GenF1.gen_sc GenF1.gen GenF1.nloops c n o es).
  Proof.
    intros es c n o Hn Hf Hl. destruct es as [|e [|e2 r]]; [congruence| |].
    - simpl in *. rewrite andb_true_r in Hf, Hl. pose proof (NE_all e c n Hf Hl).
      destruct (GenF1.gen c n e); [congruence|simpl; lia].
    - rewrite gen_sc_2. rewrite !app_length. simpl. lia.
  Qed.

  Lemma P_sc : forall o es, Forall P es -> forall c n p s,
    forallb GenF1.f1 es = true -> forallb nj es = true ->
    code_at G p (GenF1.gen_sc GenF1.gen GenF1.nloops c n o es) ->
    covers p (ann_sc annL c n es s) (length (GenF1.gen_sc GenF1.gen GenF1.nloops c n o es)) ->
    flows A len true (p + length (GenF1.gen_sc GenF1.gen GenF1.nloops c n o es)) (pushv s) = true ->
    good p (ann_sc annL c n es s) (length (GenF1.gen_sc GenF1.gen GenF1.nloops c n o es)).
  Proof.
    intros o. induction es as [|e r IH]; intros HP c n p s Hf Hl Hat Hcov Hex.
    - simpl. intros i s' [].
    - inversion HP as [|? ? HPe HPr]; subst. destruct r as [|e2 r].
      + simpl in *. rewrite andb_true_r in Hf, Hl. intros i s' Hin Hlt. apply In_clip in Hin as [Hin _].
        apply (HPe c n p s Hf Hl Hat); auto.
        intros j s'' Hj Hlt'. apply Hcov; auto. apply In_clip. auto.
      + rewrite gen_sc_2 in *. rewrite ann_sc_2 in *.
        simpl in Hf, Hl. apply andb_prop in Hf as [Hfe Hfr]. apply andb_prop in Hl as [Hle Hlr].
        remember (GenF1.gen_sc GenF1.gen GenF1.nloops c (n + GenF1.nloops e) o (e2 :: r)) as R eqn:ER.
        assert (HL : length (GenF1.gen c n e ++ [GenF1.IDup; GenF1.IBranch o (length R + 2); GenF1.IPop] ++ R) = glen c n e + 3 + length R) by (rewrite !app_length; simpl; lia).
        rewrite HL in *.
        assert (HR : 0 < length R) by (subst R; apply gen_sc_ne; [discriminate|exact Hfr|exact Hlr]).
        pose proof Hat as Hat0. simpl in Hat.
        pose proof (code_at_le _ _ Hat0) as Hle0. rewrite HL in Hle0.
        destruct (code_at_app _ _ _ _ Hat) as [Hat1 Hat2].
        assert (Hin_of : forall i st, In (i, st) (clip (glen c n e) (annL c n e s) ++
            [(glen c n e, pushv s); (S (glen c n e), pushv (pushv s)); (S (S (glen c n e)), pushv s)] ++
            sh (S (S (S (glen c n e)))) (ann_sc annL c (n + GenF1.nloops e) (e2 :: r) s)) ->
            i < glen c n e + 3 + length R -> flows A len true (p + i) st = true).
        { intros i st Hi Hlt. apply flows_in; [eapply (code_at_lt p _ i Hat0); rewrite HL; lia|]. now apply Hcov. }
        intros i s' Hin Hlt. apply in_app_or in Hin as [H1|H1]; [|apply in_app_or in H1 as [H1|H1]].
        * apply In_clip in H1 as [H1 Hi].
          apply (HPe c n p s Hfe Hle Hat1); auto.
          -- intros j s'' Hj Hlt'. apply Hcov; [|lia]. apply in_or_app. left. apply In_clip. auto.
          -- apply Hin_of; [|lia]. apply in_or_app. right. left. reflexivity.
        * destruct H1 as [E|[E|[E|[]]]]; inversion E; subst i s'.
          -- (* Dup *)
             eapply ok_simple; [exact Hat|reflexivity|reflexivity|apply arun_dup|].
             replace (S (p + glen c n e)) with (p + S (glen c n e)) by lia.
             apply Hin_of; [|lia]. apply in_or_app. right. right. left. reflexivity.
          -- (* Branch *)
             destruct s as [ab k]. unfold pushv. simpl fst. simpl snd.
             replace (p + S (glen c n e)) with (p + length (GenF1.gen c n e ++ [GenF1.IDup])) by (rewrite app_length; simpl; lia).
             eapply ok_branch_mid.
             ++ rewrite <- app_assoc. simpl. exact Hat.
             ++ rewrite app_length. simpl. lia.
             ++ rewrite app_length. simpl.
                replace (p + (glen c n e + 1) + (length R + 2)) with (p + (glen c n e + 3 + length R)) by lia. exact Hex.
             ++ rewrite app_length. simpl. replace (S (p + (glen c n e + 1))) with (p + S (S (glen c n e))) by lia.
                apply (Hin_of _ (AVal :: ab, k)); [|lia]. apply in_or_app. right. right. right. left. reflexivity.
          -- (* Pop *)
             replace (p + S (S (glen c n e))) with (p + length (GenF1.gen c n e ++ [GenF1.IDup; GenF1.IBranch o (length R + 2)])) by (rewrite app_length; simpl; lia).
             eapply ok_simple; [rewrite <- app_assoc; simpl; exact Hat|reflexivity|reflexivity|apply arun_pop|].
             rewrite app_length. simpl. replace (S (p + (glen c n e + 2))) with (p + (S (S (S (glen c n e))) + 0)) by lia.
             apply Hin_of; [|lia]. apply in_or_app. right. right. right. right. apply In_sh. exists 0. split; [lia|].
             apply sc_head; [discriminate|exact Hfr|exact Hlr].
        * eapply good_sh; [|exact H1|].
          -- assert (Hat3 : code_at G (p + S (S (S (glen c n e)))) R).
             { apply code_at_cons in Hat2. apply code_at_cons in Hat2. apply code_at_cons in Hat2.
               replace (p + S (S (S (glen c n e)))) with (S (S (S (p + glen c n e)))) by lia. exact Hat2. }
             rewrite ER in Hat3 |- *.
             apply (IH HPr c (n + GenF1.nloops e) (p + S (S (S (glen c n e)))) s Hfr Hlr Hat3).
             ++ intros j s'' Hj Hlt'. rewrite <- Nat.add_assoc. apply Hcov; [|rewrite <- ER in Hlt'; lia].
                apply in_or_app. right. right. right. right. apply In_sh. eauto.
             ++ rewrite <- ER. replace (p + S (S (S (glen c n e))) + length R) with (p + (glen c n e + 3 + length R)) by lia. exact Hex.
          -- subst R. lia.
  Qed.
  (* ---- cond ---- *)
  Notation gcond c n arms d := (GenF1.gen_cond GenF1.gen GenF1.nloops c n arms (fun n' => GenF1.gen c n' d)).
  Notation acond c n arms d s := (ann_cond annL c n arms (fun n' => clip (glen c n' d) (annL c n' d s)) s).

  Lemma gen_cond_2 : forall c n t b r d,
    gcond c n ((t, b) :: r) d =
    GenF1.gen c n t ++ [GenF1.IBranch false (glen c (n + GenF1.nloops t) b + 2)] ++ GenF1.gen c (n + GenF1.nloops t) b ++
    [GenF1.IJump (length (gcond c (n + GenF1.nloops t + GenF1.nloops b) r d) + 1)] ++ gcond c (n + GenF1.nloops t + GenF1.nloops b) r d.
  Proof. reflexivity. Qed.
  Lemma ann_cond_2 : forall c n t b r d s,
    acond c n ((t, b) :: r) d s =
    clip (glen c n t) (annL c n t s) ++ [(glen c n t, pushv s)] ++
    sh (S (glen c n t)) (clip (glen c (n + GenF1.nloops t) b) (annL c (n + GenF1.nloops t) b s)) ++
    [(S (glen c n t) + glen c (n + GenF1.nloops t) b, pushv s)] ++
    sh (S (S (glen c n t)) + glen c (n + GenF1.nloops t) b) (acond c (n + GenF1.nloops t + GenF1.nloops b) r d s).
  Proof. reflexivity. Qed.

  Lemma cond_head : forall arms d c n s,
    forallb (fun cb => GenF1.f1 (fst cb) && GenF1.f1 (snd cb)) arms = true -> GenF1.f1 d = true ->
    forallb (fun cb => nj (fst cb) && nj (snd cb)) arms = true -> nj d = true ->
    In (0, s) (acond c n arms d s) /\ 0 < length (gcond c n arms d).
  Proof.
    intros arms d c n s Hfa Hfd Hla Hld. destruct arms as [|[t b] r].
    - simpl. pose proof (NE_all d c n Hfd Hld) as H. split; [now apply head_in|].
      destruct (GenF1.gen c n d); [congruence|simpl; lia].
    - rewrite ann_cond_2, gen_cond_2. simpl in Hfa, Hla.
      apply andb_prop in Hfa as [Hf _]. apply andb_prop in Hf as [Hf _].
      apply andb_prop in Hla as [Hl _]. apply andb_prop in Hl as [Hl _]. split.
      + apply in_or_app. left. apply head_in. now apply NE_all.
      + rewrite !app_length. simpl. lia.
  Qed.

  Lemma P_cond : forall arms d, Forall (fun cb => P (fst cb) /\ P (snd cb)) arms -> P d -> forall c n p s,
    forallb (fun cb => GenF1.f1 (fst cb) && GenF1.f1 (snd cb)) arms = true -> GenF1.f1 d = true ->
    forallb (fun cb => nj (fst cb) && nj (snd cb)) arms = true -> nj d = true ->
    code_at G p (gcond c n arms d) ->
    covers p (acond c n arms d s) (length (gcond c n arms d)) ->
    flows A len true (p + length (gcond c n arms d)) (pushv s) = true ->
    good p (acond c n arms d s) (length (gcond c n arms d)).
  Proof.
    induction arms as [|[t b] r IH]; intros d HP HPd c n p s Hfa Hfd Hla Hld Hat Hcov Hex.
    - simpl in *. intros i s' Hin Hlt. apply In_clip in Hin as [Hin _].
      apply (HPd c n p s Hfd Hld Hat); auto.
      intros j s'' Hj Hlt'. apply Hcov; auto. apply In_clip. auto.
    - inversion HP as [|? ? [HPt HPb] HPr]; subst. simpl in HPt, HPb.
      rewrite gen_cond_2 in *. rewrite ann_cond_2 in *.
      simpl in Hfa, Hla. apply andb_prop in Hfa as [Hf1 Hfr]. apply andb_prop in Hf1 as [Hft Hfb].
      apply andb_prop in Hla as [Hl1 Hlr]. apply andb_prop in Hl1 as [Hlt Hlb].
      remember (gcond c (n + GenF1.nloops t + GenF1.nloops b) r d) as R eqn:ER.
      remember (acond c (n + GenF1.nloops t + GenF1.nloops b) r d s) as AR eqn:EAR.
      set (Lt := glen c n t) in *. set (Lb := glen c (n + GenF1.nloops t) b) in *.
      assert (HL : length (GenF1.gen c n t ++ [GenF1.IBranch false (Lb + 2)] ++ GenF1.gen c (n + GenF1.nloops t) b ++ [GenF1.IJump (length R + 1)] ++ R) = Lt + Lb + 2 + length R) by (rewrite !app_length; simpl; unfold Lt, Lb; lia).
      rewrite HL in *.
      destruct (cond_head r d c (n + GenF1.nloops t + GenF1.nloops b) s Hfr Hfd Hlr Hld) as [Hhd HR].
      rewrite <- EAR in Hhd. rewrite <- ER in HR.
      pose proof (NE_all b c (n + GenF1.nloops t) Hfb Hlb) as HNb.
      assert (HLb : 0 < Lb) by (unfold Lb; destruct (GenF1.gen c (n + GenF1.nloops t) b); [congruence|simpl; lia]).
      pose proof Hat as Hat0. simpl in Hat.
      pose proof (code_at_le _ _ Hat0) as Hle0. rewrite HL in Hle0.
      assert (Hin_of : forall i st, In (i, st) (clip Lt (annL c n t s) ++ [(Lt, pushv s)] ++
            sh (S Lt) (clip Lb (annL c (n + GenF1.nloops t) b s)) ++ [(S Lt + Lb, pushv s)] ++ sh (S (S Lt) + Lb) AR) ->
            i < Lt + Lb + 2 + length R -> flows A len true (p + i) st = true).
      { intros i st Hi Hlti. apply flows_in; [eapply (code_at_lt p _ i Hat0); rewrite HL; lia|]. now apply Hcov. }
      destruct (code_at_app _ _ _ _ Hat) as [Hat1 Hat2]. fold Lt in Hat2.
      assert (Hatb : code_at G (p + S Lt) (GenF1.gen c (n + GenF1.nloops t) b)).
      { apply code_at_cons in Hat2. apply code_at_app in Hat2 as [Hat2 _].
        replace (p + S Lt) with (S (p + Lt)) by lia. exact Hat2. }
      assert (Hatr : code_at G (p + (S (S Lt) + Lb)) R).
      { apply code_at_cons in Hat2. apply code_at_app in Hat2 as [_ Hat2]. apply code_at_cons in Hat2. fold Lb in Hat2.
        replace (p + (S (S Lt) + Lb)) with (S (S (p + Lt) + Lb)) by lia. exact Hat2. }
      intros i s' Hin Hlti.
      apply in_app_or in Hin as [H1|H1]; [|apply in_app_or in H1 as [H1|H1]; [|apply in_app_or in H1 as [H1|H1]; [|apply in_app_or in H1 as [H1|H1]]]].
      + (* predicate *)
        apply In_clip in H1 as [H1 Hi].
        apply (HPt c n p s Hft Hlt Hat1); auto.
        * intros j s'' Hj Hlt'. apply Hcov; [|fold Lt in Hlt'; lia]. apply in_or_app. left. apply In_clip. auto.
        * fold Lt. apply Hin_of; [|lia]. apply in_or_app. right. left. reflexivity.
      + (* Branch *)
        destruct H1 as [E|[]]. inversion E; subst i s'. destruct s as [ab k]. unfold pushv. simpl fst. simpl snd.
        unfold Lt. eapply ok_branch_mid; [exact Hat| | |]; fold Lt.
        * lia.
        * replace (p + Lt + (Lb + 2)) with (p + (S (S Lt) + Lb + 0)) by lia.
          apply (Hin_of _ (ab, k)); [|lia]. apply in_or_app. right. apply in_or_app. right. apply in_or_app. right. apply in_or_app. right.
          apply In_sh. exists 0. split; [lia|exact Hhd].
        * replace (S (p + Lt)) with (p + (S Lt + 0)) by lia.
          apply (Hin_of _ (ab, k)); [|lia]. apply in_or_app. right. apply in_or_app. right. apply in_or_app. left.
          apply In_sh. exists 0. split; [lia|]. now apply head_in.
      + (* body *)
        apply (good_sh p (S Lt) (clip Lb (annL c (n + GenF1.nloops t) b s)) Lb i s'); [|exact H1|].
        * intros j s'' Hj Hltj. apply In_clip in Hj as [Hj _].
          apply (HPb c (n + GenF1.nloops t) (p + S Lt) s Hfb Hlb Hatb); auto.
          -- intros j2 s2 Hj2 Hlt2. rewrite <- Nat.add_assoc. apply Hcov; [|fold Lb in Hlt2; lia].
             apply in_or_app. right. apply in_or_app. right. apply in_or_app. left. apply In_sh. exists j2. split; [reflexivity|]. apply In_clip. auto.
          -- fold Lb. replace (p + S Lt + Lb) with (p + (S Lt + Lb)) by lia. apply Hin_of; [|lia].
             apply in_or_app. right. apply in_or_app. right. apply in_or_app. right. apply in_or_app. left. left. reflexivity.
        * apply In_sh in H1 as (j & -> & Hj). apply In_clip in Hj as [_ Hj]. lia.
      + (* Jump *)
        destruct H1 as [E|[]]. inversion E; subst i s'.
        replace (p + S (Lt + Lb)) with (p + length (GenF1.gen c n t ++ [GenF1.IBranch false (Lb + 2)] ++ GenF1.gen c (n + GenF1.nloops t) b)) by (rewrite !app_length; simpl; unfold Lt, Lb; lia).
        eapply ok_jump_mid.
        * rewrite <- !app_assoc. simpl. exact Hat.
        * rewrite !app_length. simpl. fold Lt Lb. lia.
        * rewrite !app_length. simpl. fold Lt Lb.
          replace (p + (Lt + S Lb) + (length R + 1)) with (p + (Lt + Lb + 2 + length R)) by lia. exact Hex.
      + (* rest *)
        eapply good_sh; [|exact H1|].
        * rewrite EAR, ER in *.
          apply (IH d HPr HPd c (n + GenF1.nloops t + GenF1.nloops b) (p + (S (S Lt) + Lb)) s Hfr Hfd Hlr Hld Hatr).
          -- intros j s'' Hj Hlt'. rewrite <- Nat.add_assoc. apply Hcov; [|lia].
             apply in_or_app. right. apply in_or_app. right. apply in_or_app. right. apply in_or_app. right. apply In_sh. eauto.
          -- match goal with |- flows _ _ _ ?x _ = _ => replace x with (p + (Lt + Lb + 2 + length (gcond c (n + GenF1.nloops t + GenF1.nloops b) r d))) by lia end. exact Hex.
        * subst R. lia.
  Qed.
  (* ---- letseq bindings: initialiser; PopStackPutEnv; ... (state s before and after) ---- *)
  Notation gls c n bs := (GenF1.gen_letseq GenF1.gen GenF1.nloops c n bs).
  Notation f1b bs := (forallb (fun xb : ident * expr => GenF1.f1 (snd xb)) bs).
  Notation lfb bs := (forallb (fun xb : ident * expr => nj (snd xb)) bs).

  Lemma P_letseq : forall bs, Forall (fun xb => P (snd xb)) bs -> forall c n p s,
    f1b bs = true -> lfb bs = true ->
    code_at G p (gls c n bs) ->
    covers p (ann_letseq annL c n bs s) (length (gls c n bs)) ->
    flows A len true (p + length (gls c n bs)) s = true ->
    good p (ann_letseq annL c n bs s) (length (gls c n bs)).
  Proof.
    induction bs as [|[x e] r IH]; intros HP c n p s Hf Hl Hat Hcov Hex.
    - simpl. intros i s' [].
    - inversion HP as [|? ? HPe HPr]; subst. simpl in HPe.
      simpl in Hf, Hl. apply andb_prop in Hf as [Hfe Hfr]. apply andb_prop in Hl as [Hle Hlr].
      change (gls c n ((x, e) :: r)) with (GenF1.gen c n e ++ [GenF1.IPutEnv x] ++ gls c (n + GenF1.nloops e) r) in *.
      change (ann_letseq annL c n ((x, e) :: r) s) with
        (clip (glen c n e) (annL c n e s) ++ [(glen c n e, pushv s)] ++ sh (S (glen c n e)) (ann_letseq annL c (n + GenF1.nloops e) r s)) in *.
      assert (HL : length (GenF1.gen c n e ++ [GenF1.IPutEnv x] ++ gls c (n + GenF1.nloops e) r) = glen c n e + 1 + length (gls c (n + GenF1.nloops e) r)) by (rewrite !app_length; simpl; lia).
      rewrite HL in *.
      pose proof Hat as Hat0. simpl in Hat.
      destruct (code_at_app _ _ _ _ Hat) as [Hat1 Hat2].
      intros i s' Hin Hlt. apply in_app_or in Hin as [H1|H1]; [|apply in_app_or in H1 as [H1|H1]].
      + apply In_clip in H1 as [H1 Hi].
        apply (HPe c n p s Hfe Hle Hat1); auto.
        * intros j s'' Hj Hlt'. apply Hcov; [|lia]. apply in_or_app. left. apply In_clip. auto.
        * apply flows_in; [eapply (code_at_lt p _ (glen c n e) Hat0); rewrite HL; lia|].
          apply Hcov; [|lia]. apply in_or_app. right. left. reflexivity.
      + destruct H1 as [E|[]]. inversion E; subst i s'.
        eapply ok_simple; [exact Hat|reflexivity|reflexivity|apply arun_pop1|].
        destruct r as [|[x2 e2] r2].
        * simpl in Hex. replace (S (p + glen c n e)) with (p + (glen c n e + 1 + 0)) by lia. exact Hex.
        * replace (S (p + glen c n e)) with (p + (S (glen c n e) + 0)) by lia.
          apply flows_in.
          -- eapply (code_at_lt p _ _ Hat0). rewrite HL.
             change (gls c (n + GenF1.nloops e) ((x2, e2) :: r2)) with (GenF1.gen c (n + GenF1.nloops e) e2 ++ [GenF1.IPutEnv x2] ++ gls c (n + GenF1.nloops e + GenF1.nloops e2) r2).
             rewrite !app_length. simpl. lia.
          -- apply Hcov.
             ++ apply in_or_app. right. right. apply In_sh. exists 0. split; [lia|].
                change (ann_letseq annL c (n + GenF1.nloops e) ((x2, e2) :: r2) s) with
                  (clip (glen c (n + GenF1.nloops e) e2) (annL c (n + GenF1.nloops e) e2 s) ++ [(glen c (n + GenF1.nloops e) e2, pushv s)] ++ sh (S (glen c (n + GenF1.nloops e) e2)) (ann_letseq annL c (n + GenF1.nloops e + GenF1.nloops e2) r2 s)).
                apply in_or_app. left. apply head_in. simpl in Hfr, Hlr.
                apply andb_prop in Hfr as [Hf2 _]. apply andb_prop in Hlr as [Hl2 _]. now apply NE_all.
             ++ change (gls c (n + GenF1.nloops e) ((x2, e2) :: r2)) with (GenF1.gen c (n + GenF1.nloops e) e2 ++ [GenF1.IPutEnv x2] ++ gls c (n + GenF1.nloops e + GenF1.nloops e2) r2).
                rewrite !app_length. simpl. lia.
      + eapply good_sh; [|exact H1|].
        * apply code_at_cons in Hat2. replace (S (p + glen c n e)) with (p + S (glen c n e)) in Hat2 by lia.
          apply (IH HPr c (n + GenF1.nloops e) (p + S (glen c n e)) s Hfr Hlr Hat2).
          -- intros j s'' Hj Hlt'. rewrite <- Nat.add_assoc. apply Hcov; [|lia].
             apply in_or_app. right. right. apply In_sh. eauto.
          -- replace (p + S (glen c n e) + length (gls c (n + GenF1.nloops e) r)) with (p + (glen c n e + 1 + length (gls c (n + GenF1.nloops e) r))) by lia. exact Hex.
        * lia.
  Qed.

  (* ---- let: the initialisers pile up, then one PopStackPutEnv per binding ---- *)
  Notation gin c n bs := (GenF1.gen_inits GenF1.gen GenF1.nloops c n bs).

  Lemma pushn_comm : forall k s, pushn k (pushv s) = pushv (pushn k s).
  Proof. induction k; intros s; simpl; [reflexivity|now rewrite IHk]. Qed.

  Lemma P_inits : forall bs, Forall (fun xb => P (snd xb)) bs -> forall c n p s,
    f1b bs = true -> lfb bs = true ->
    code_at G p (gin c n bs) ->
    covers p (ann_inits annL c n bs s) (length (gin c n bs)) ->
    flows A len true (p + length (gin c n bs)) (pushn (length bs) s) = true ->
    good p (ann_inits annL c n bs s) (length (gin c n bs)).
  Proof.
    induction bs as [|[x e] r IH]; intros HP c n p s Hf Hl Hat Hcov Hex.
    - simpl. intros i s' [].
    - inversion HP as [|? ? HPe HPr]; subst. simpl in HPe.
      simpl in Hf, Hl. apply andb_prop in Hf as [Hfe Hfr]. apply andb_prop in Hl as [Hle Hlr].
      change (gin c n ((x, e) :: r)) with (GenF1.gen c n e ++ gin c (n + GenF1.nloops e) r) in *.
      change (ann_inits annL c n ((x, e) :: r) s) with
        (clip (glen c n e) (annL c n e s) ++ sh (glen c n e) (ann_inits annL c (n + GenF1.nloops e) r (pushv s))) in *.
      rewrite app_length in *. simpl length in Hex.
      change (pushn (S (length r)) s) with (pushv (pushn (length r) s)) in Hex. rewrite <- pushn_comm in Hex.
      pose proof Hat as Hat0.
      destruct (code_at_app _ _ _ _ Hat) as [Hat1 Hat2].
      intros i s' Hin Hlt. apply in_app_or in Hin as [H1|H1].
      + apply In_clip in H1 as [H1 Hi].
        apply (HPe c n p s Hfe Hle Hat1); auto.
        * intros j s'' Hj Hlt'. apply Hcov; [|lia]. apply in_or_app. left. apply In_clip. auto.
        * destruct r as [|[x2 e2] r2].
          -- simpl in Hex. rewrite Nat.add_0_r in Hex. exact Hex.
          -- replace (p + glen c n e) with (p + (glen c n e + 0)) by lia.
             simpl in Hfr, Hlr. apply andb_prop in Hfr as [Hf2 _]. apply andb_prop in Hlr as [Hl2 _].
             pose proof (NE_all e2 c (n + GenF1.nloops e) Hf2 Hl2) as HN2.
             assert (0 < length (gin c (n + GenF1.nloops e) ((x2, e2) :: r2))).
             { change (gin c (n + GenF1.nloops e) ((x2, e2) :: r2)) with (GenF1.gen c (n + GenF1.nloops e) e2 ++ gin c (n + GenF1.nloops e + GenF1.nloops e2) r2).
               rewrite app_length. destruct (GenF1.gen c (n + GenF1.nloops e) e2); [congruence|simpl; lia]. }
             apply flows_in; [eapply (code_at_lt p _ _ Hat0); rewrite app_length; lia|].
             apply Hcov; [|lia]. apply in_or_app. right. apply In_sh. exists 0. split; [reflexivity|].
             change (ann_inits annL c (n + GenF1.nloops e) ((x2, e2) :: r2) (pushv s)) with
               (clip (glen c (n + GenF1.nloops e) e2) (annL c (n + GenF1.nloops e) e2 (pushv s)) ++ sh (glen c (n + GenF1.nloops e) e2) (ann_inits annL c (n + GenF1.nloops e + GenF1.nloops e2) r2 (pushv (pushv s)))).
             apply in_or_app. left. now apply head_in.
      + eapply good_sh; [|exact H1|].
        * apply (IH HPr c (n + GenF1.nloops e) (p + glen c n e) (pushv s) Hfr Hlr Hat2).
          -- intros j s'' Hj Hlt'. rewrite <- Nat.add_assoc. apply Hcov; [|lia].
             apply in_or_app. right. apply In_sh. eauto.
          -- rewrite <- Nat.add_assoc. exact Hex.
        * lia.
  Qed.

  Lemma P_puts : forall xs p s,
    code_at G p (map GenF1.IPutEnv xs) ->
    covers p (ann_puts (length xs) s) (length xs) ->
    flows A len true (p + length xs) s = true ->
    good p (ann_puts (length xs) s) (length xs).
  Proof.
    induction xs as [|x r IH]; intros p s Hat Hcov Hex.
    - simpl. intros i s' [].
    - simpl length in *. simpl map in Hat.
      change (ann_puts (S (length r)) s) with ((0, pushn (S (length r)) s) :: sh 1 (ann_puts (length r) s)) in *.
      intros i s' [E|H1] Hlt.
      + inversion E; subst i s'. rewrite Nat.add_0_r.
        eapply ok_next; [apply (W_at _ _ _ Hat)|reflexivity|reflexivity|simpl pushn; apply arun_pop1|].
        destruct r as [|x2 r2].
        * simpl in *. replace (S p) with (p + 1) by lia. exact Hex.
        * replace (S p) with (p + (1 + 0)) by lia. apply flows_in.
          -- eapply (code_at_lt p _ _ Hat). simpl. lia.
          -- apply Hcov; [|simpl; lia]. right. apply In_sh. exists 0. split; [reflexivity|]. left. reflexivity.
      + eapply good_sh; [|exact H1|].
        * apply code_at_cons in Hat. replace (S p) with (p + 1) in Hat by lia.
          apply (IH (p + 1) s Hat).
          -- intros j s'' Hj Hlt'. rewrite <- Nat.add_assoc. apply Hcov; [|lia]. right. apply In_sh. eauto.
          -- rewrite <- Nat.add_assoc. exact Hex.
        * lia.
  Qed.
  (* ---- newScope ---- *)
  Lemma P_scope : forall es, Forall P es -> P (EScope es).
  Proof.
    intros es HP c n p s Hf Hl Hat Hcov Hex. simpl in Hf, Hl. apply andb_prop in Hf as [Hnn Hf].
    assert (Hne : es <> []) by (destruct es; [discriminate|discriminate]).
    change (GenF1.gen c n (EScope es)) with ([GenF1.IAddScope] ++ GenF1.gen_scope_body GenF1.gen GenF1.nloops (c_in c) n es ++ [GenF1.IRemoveScope]) in *.
    change (annL c n (EScope es) s) with ((0, s) :: sh 1 (clip (length (GenF1.gen_scope_body GenF1.gen GenF1.nloops (c_in c) n es)) (ann_scope_body annL (c_in c) n es (scup s))) ++
      [(S (length (GenF1.gen_scope_body GenF1.gen GenF1.nloops (c_in c) n es)), pushv (scup s))]) in *.
    remember (GenF1.gen_scope_body GenF1.gen GenF1.nloops (c_in c) n es) as B eqn:EB.
    assert (HB : 0 < length B) by (subst B; now apply gen_sb_ne).
    assert (HL : length ([GenF1.IAddScope] ++ B ++ [GenF1.IRemoveScope]) = length B + 2) by (rewrite !app_length; simpl; lia).
    rewrite HL in *. pose proof Hat as Hat0. simpl in Hat.
    assert (Hin_of : forall i st, In (i, st) ((0, s) :: sh 1 (clip (length B) (ann_scope_body annL (c_in c) n es (scup s))) ++ [(S (length B), pushv (scup s))]) ->
       i < length B + 2 -> flows A len true (p + i) st = true).
    { intros i st Hi Hlti. apply flows_in; [eapply (code_at_lt p _ i Hat0); rewrite HL; lia|]. now apply Hcov. }
    assert (Hatb : code_at G (p + 1) B).
    { apply code_at_cons in Hat. apply code_at_app in Hat as [Hat _]. replace (p + 1) with (S p) by lia. exact Hat. }
    assert (Hgb : good (p + 1) (ann_scope_body annL (c_in c) n es (scup s)) (length B)).
    { rewrite EB in *. apply (P_sb es HP (c_in c) n (p + 1) (scup s) Hf Hl Hatb).
      - intros j s'' Hj Hlt'. rewrite <- Nat.add_assoc. apply Hcov; [|lia]. right. apply in_or_app. left. apply In_sh. exists j. split; [reflexivity|]. apply In_clip. auto.
      - rewrite <- Nat.add_assoc. replace (1 + length (GenF1.gen_scope_body GenF1.gen GenF1.nloops (c_in c) n es)) with (S (length (GenF1.gen_scope_body GenF1.gen GenF1.nloops (c_in c) n es))) by lia.
        apply Hin_of; [|lia]. right. apply in_or_app. right. left. reflexivity. }
    intros i s' [E|Hin] Hlt.
    - inversion E; subst i s'. rewrite Nat.add_0_r.
      eapply ok_next; [apply (W_at _ _ _ Hat)|reflexivity|reflexivity|apply arun_up|].
      replace (S p) with (p + (1 + 0)) by lia. apply Hin_of; [|lia]. right. apply in_or_app. left.
      apply In_sh. exists 0. split; [reflexivity|]. apply In_clip. split; [now apply sb_head|lia].
    - apply in_app_or in Hin as [H1|H1].
      + apply In_sh in H1 as (j & -> & Hj). apply In_clip in Hj as [Hj Hjl]. rewrite Nat.add_assoc. now apply Hgb.
      + destruct H1 as [E|[]]. inversion E; subst i s'.
        replace (p + S (length B)) with (p + length (GenF1.IAddScope :: B)) by (simpl; lia).
        eapply ok_simple; [change (GenF1.IAddScope :: B ++ [GenF1.IRemoveScope]) with ((GenF1.IAddScope :: B) ++ [GenF1.IRemoveScope]) in Hat; exact Hat|reflexivity|reflexivity|apply arun_down|].
        simpl length. replace (S (p + S (length B))) with (p + (length B + 2)) by lia. exact Hex.
  Qed.

  (* ---- def / set ---- *)
  Lemma P_defset : forall e1 (i2 : GenF1.instr), P e1 ->
    known (tb offs i2) = true -> eff fi (tb offs i2) = Some ([DPop], CNext) ->
    forall c n p s, GenF1.f1 e1 = true -> nj e1 = true ->
    code_at G p (GenF1.gen c n e1 ++ [GenF1.IDup; i2]) ->
    covers p ((0, s) :: clip (glen c n e1) (annL c n e1 s) ++ [(glen c n e1, pushv s); (S (glen c n e1), pushv (pushv s))]) (glen c n e1 + 2) ->
    flows A len true (p + (glen c n e1 + 2)) (pushv s) = true ->
    good p ((0, s) :: clip (glen c n e1) (annL c n e1 s) ++ [(glen c n e1, pushv s); (S (glen c n e1), pushv (pushv s))]) (glen c n e1 + 2).
  Proof.
    intros e1 i2 HP Hk2 He2 c n p s Hf Hl Hat Hcov Hex.
    pose proof Hat as Hat0.
    assert (HL : length (GenF1.gen c n e1 ++ [GenF1.IDup; i2]) = glen c n e1 + 2) by (rewrite app_length; simpl; lia).
    pose proof (NE_all e1 c n Hf Hl) as HN.
    destruct (code_at_app _ _ _ _ Hat) as [Hat1 _].
    assert (Hin_of : forall i st, In (i, st) ((0, s) :: clip (glen c n e1) (annL c n e1 s) ++ [(glen c n e1, pushv s); (S (glen c n e1), pushv (pushv s))]) ->
       i < glen c n e1 + 2 -> flows A len true (p + i) st = true).
    { intros i st Hi Hlti. apply flows_in; [eapply (code_at_lt p _ i Hat0); rewrite HL; lia|]. now apply Hcov. }
    assert (Hg1 : good p (annL c n e1 s) (glen c n e1)).
    { apply (HP c n p s Hf Hl Hat1).
      - intros j s'' Hj Hlt'. apply Hcov; [|lia]. right. apply in_or_app. left. apply In_clip. auto.
      - apply Hin_of; [|lia]. right. apply in_or_app. right. left. reflexivity. }
    intros i s' [E|Hin] Hlt.
    - inversion E; subst i s'. apply Hg1; [apply ann_head|]. destruct (GenF1.gen c n e1); [congruence|simpl; lia].
    - apply in_app_or in Hin as [H1|H1].
      + apply In_clip in H1 as [H1 Hi]. now apply Hg1.
      + destruct H1 as [E|[E|[]]]; inversion E; subst i s'.
        * eapply ok_simple; [exact Hat|reflexivity|reflexivity|apply arun_dup|].
          replace (S (p + glen c n e1)) with (p + S (glen c n e1)) by lia.
          apply Hin_of; [|lia]. right. apply in_or_app. right. right. left. reflexivity.
        * replace (p + S (glen c n e1)) with (p + length (GenF1.gen c n e1 ++ [GenF1.IDup])) by (rewrite app_length; simpl; lia).
          eapply ok_simple; [rewrite <- app_assoc; simpl; exact Hat|exact Hk2|exact He2|apply arun_pop1|].
          rewrite app_length. simpl. replace (S (p + (glen c n e1 + 1))) with (p + (glen c n e1 + 2)) by lia. exact Hex.
  Qed.
  (* ---- letseq ---- *)
  Notation gbeg c n es := (GenF1.gen_begin GenF1.gen GenF1.nloops c n es).
  Notation nlb bs := (GenF1.nl_binds GenF1.nloops bs).

  Lemma P_let_seq : forall bs body, Forall (fun xb => P (snd xb)) bs -> Forall P body -> P (ELet true bs body).
  Proof.
    intros bs body HPb HPbody c n p s Hf Hl Hat Hcov Hex. simpl in Hf, Hl.
    apply andb_prop in Hf as [Hf Hne]. apply andb_prop in Hf as [Hf Hfbody]. apply andb_prop in Hf as [Hfb Hnn].
    apply andb_prop in Hl as [Hlb Hlbody].
    assert (Hbne : body <> []) by (destruct body; [discriminate|discriminate]).
    change (GenF1.gen c n (ELet true bs body)) with ([GenF1.IAddScope] ++ gls (c_in c) n bs ++ gbeg (c_in c) (n + nlb bs) body ++ [GenF1.IRemoveScope]) in *.
    change (annL c n (ELet true bs body) s) with ((0, s) :: sh 1 (clip (length (gls (c_in c) n bs)) (ann_letseq annL (c_in c) n bs (scup s))) ++
      sh (S (length (gls (c_in c) n bs))) (clip (length (gbeg (c_in c) (n + nlb bs) body)) (ann_begin annL (c_in c) (n + nlb bs) body (scup s))) ++
      [(S (length (gls (c_in c) n bs)) + length (gbeg (c_in c) (n + nlb bs) body), pushv (scup s))]) in *.
    pose proof (gen_begin_ne body (c_in c) (n + nlb bs) Hfbody Hlbody Hne) as HB.
    pose proof (begin_head body (c_in c) (n + nlb bs) (scup s) Hbne Hfbody Hlbody) as Hbh.
    set (Li := length (gls (c_in c) n bs)) in *. set (Lb := length (gbeg (c_in c) (n + nlb bs) body)) in *.
    assert (HL : length ([GenF1.IAddScope] ++ gls (c_in c) n bs ++ gbeg (c_in c) (n + nlb bs) body ++ [GenF1.IRemoveScope]) = Li + Lb + 2) by (rewrite !app_length; simpl; unfold Li, Lb; lia).
    rewrite HL in *. pose proof Hat as Hat0. simpl in Hat.
    assert (Hin_of : forall i st, In (i, st) ((0, s) :: sh 1 (clip Li (ann_letseq annL (c_in c) n bs (scup s))) ++
       sh (S Li) (clip Lb (ann_begin annL (c_in c) (n + nlb bs) body (scup s))) ++ [(S Li + Lb, pushv (scup s))]) ->
       i < Li + Lb + 2 -> flows A len true (p + i) st = true).
    { intros i st Hi Hlti. apply flows_in; [eapply (code_at_lt p _ i Hat0); rewrite HL; lia|]. now apply Hcov. }
    assert (Hbegin_in : In (S Li + 0, scup s) ((0, s) :: sh 1 (clip Li (ann_letseq annL (c_in c) n bs (scup s))) ++
       sh (S Li) (clip Lb (ann_begin annL (c_in c) (n + nlb bs) body (scup s))) ++ [(S Li + Lb, pushv (scup s))])).
    { right. apply in_or_app. right. apply in_or_app. left. apply In_sh. exists 0. split; [reflexivity|]. apply In_clip. split; [exact Hbh|exact HB]. }
    assert (Hat1 : code_at G (p + 1) (gls (c_in c) n bs)).
    { apply code_at_cons in Hat. apply code_at_app in Hat as [Hat _]. replace (p + 1) with (S p) by lia. exact Hat. }
    assert (Hat2 : code_at G (p + S Li) (gbeg (c_in c) (n + nlb bs) body)).
    { apply code_at_cons in Hat. apply code_at_app in Hat as [_ Hat]. apply code_at_app in Hat as [Hat _]. fold Li in Hat.
      replace (p + S Li) with (S p + Li) by lia. exact Hat. }
    assert (Hg1 : good (p + 1) (ann_letseq annL (c_in c) n bs (scup s)) Li).
    { apply (P_letseq bs HPb (c_in c) n (p + 1) (scup s) Hfb Hlb Hat1).
      - intros j s'' Hj Hlt'. rewrite <- Nat.add_assoc. apply Hcov; [|fold Li in Hlt'; lia]. right. apply in_or_app. left. apply In_sh. exists j. split; [reflexivity|]. apply In_clip. auto.
      - fold Li. replace (p + 1 + Li) with (p + (S Li + 0)) by lia. apply Hin_of; [exact Hbegin_in|lia]. }
    assert (Hg2 : good (p + S Li) (ann_begin annL (c_in c) (n + nlb bs) body (scup s)) Lb).
    { apply (P_begin body HPbody (c_in c) (n + nlb bs) (p + S Li) (scup s) Hfbody Hlbody Hne Hat2).
      - intros j s'' Hj Hlt'. rewrite <- Nat.add_assoc. apply Hcov; [|fold Lb in Hlt'; lia]. right. apply in_or_app. right. apply in_or_app. left. apply In_sh. exists j. split; [reflexivity|]. apply In_clip. auto.
      - fold Lb. replace (p + S Li + Lb) with (p + (S Li + Lb)) by lia. apply Hin_of; [|lia]. right. apply in_or_app. right. apply in_or_app. right. left. reflexivity. }
    intros i s' [E|Hin] Hlt.
    - inversion E; subst i s'. rewrite Nat.add_0_r.
      eapply ok_next; [apply (W_at _ _ _ Hat)|reflexivity|reflexivity|apply arun_up|].
      destruct bs as [|[x e] r].
      + replace (S p) with (p + (S Li + 0)) by (unfold Li; simpl; lia). apply Hin_of; [exact Hbegin_in|lia].
      + replace (S p) with (p + (1 + 0)) by lia.
        simpl in Hfb, Hlb. apply andb_prop in Hfb as [Hfe _]. apply andb_prop in Hlb as [Hle _].
        pose proof (NE_all e (c_in c) n Hfe Hle) as HNe.
        assert (0 < Li). { unfold Li. change (gls (c_in c) n ((x, e) :: r)) with (GenF1.gen (c_in c) n e ++ [GenF1.IPutEnv x] ++ gls (c_in c) (n + GenF1.nloops e) r). rewrite !app_length. simpl. lia. }
        apply Hin_of; [|lia]. right. apply in_or_app. left. apply In_sh. exists 0. split; [reflexivity|]. apply In_clip. split; [|assumption].
        change (ann_letseq annL (c_in c) n ((x, e) :: r) (scup s)) with
          (clip (glen (c_in c) n e) (annL (c_in c) n e (scup s)) ++ [(glen (c_in c) n e, pushv (scup s))] ++ sh (S (glen (c_in c) n e)) (ann_letseq annL (c_in c) (n + GenF1.nloops e) r (scup s))).
        apply in_or_app. left. now apply head_in.
    - apply in_app_or in Hin as [H1|H1]; [|apply in_app_or in H1 as [H1|H1]].
      + apply In_sh in H1 as (j & -> & Hj). apply In_clip in Hj as [Hj Hjl]. rewrite Nat.add_assoc. now apply Hg1.
      + apply In_sh in H1 as (j & -> & Hj). apply In_clip in Hj as [Hj Hjl]. rewrite Nat.add_assoc. now apply Hg2.
      + destruct H1 as [E|[]]. inversion E; subst i s'.
        replace (p + S (Li + Lb)) with (p + length (GenF1.IAddScope :: gls (c_in c) n bs ++ gbeg (c_in c) (n + nlb bs) body)) by (simpl; rewrite app_length; unfold Li, Lb; lia).
        eapply (ok_simple p (GenF1.IAddScope :: gls (c_in c) n bs ++ gbeg (c_in c) (n + nlb bs) body) GenF1.IRemoveScope []); [|reflexivity|reflexivity|apply arun_down|].
        * assert (E2 : (GenF1.IAddScope :: gls (c_in c) n bs ++ gbeg (c_in c) (n + nlb bs) body) ++ [GenF1.IRemoveScope] =
                       GenF1.IAddScope :: gls (c_in c) n bs ++ gbeg (c_in c) (n + nlb bs) body ++ [GenF1.IRemoveScope])
            by (simpl; rewrite <- app_assoc; reflexivity).
          rewrite E2. exact Hat.
        * simpl length. rewrite app_length. fold Li Lb. replace (S (p + S (Li + Lb))) with (p + (Li + Lb + 2)) by lia. exact Hex.
  Qed.
  (* ---- let ---- *)
  Lemma P_let_par : forall bs body, Forall (fun xb => P (snd xb)) bs -> Forall P body -> P (ELet false bs body).
  Proof.
    intros bs body HPb HPbody c n p s Hf Hl Hat Hcov Hex. simpl in Hf, Hl.
    apply andb_prop in Hf as [Hf Hne]. apply andb_prop in Hf as [Hf Hfbody]. apply andb_prop in Hf as [Hfb Hnn].
    apply andb_prop in Hl as [Hlb Hlbody].
    assert (Hbne : body <> []) by (destruct body; [discriminate|discriminate]).
    change (GenF1.gen c n (ELet false bs body)) with ([GenF1.IAddScope] ++ gin (c_in c) n bs ++ map GenF1.IPutEnv (rev (map fst bs)) ++ gbeg (c_in c) (n + nlb bs) body ++ [GenF1.IRemoveScope]) in *.
    change (annL c n (ELet false bs body) s) with ((0, s) :: sh 1 (clip (length (gin (c_in c) n bs)) (ann_inits annL (c_in c) n bs (scup s))) ++
      sh (S (length (gin (c_in c) n bs))) (clip (length bs) (ann_puts (length bs) (scup s))) ++
      sh (S (length (gin (c_in c) n bs)) + length bs) (clip (length (gbeg (c_in c) (n + nlb bs) body)) (ann_begin annL (c_in c) (n + nlb bs) body (scup s))) ++
      [(S (length (gin (c_in c) n bs)) + length bs + length (gbeg (c_in c) (n + nlb bs) body), pushv (scup s))]) in *.
    pose proof (gen_begin_ne body (c_in c) (n + nlb bs) Hfbody Hlbody Hne) as HB.
    pose proof (begin_head body (c_in c) (n + nlb bs) (scup s) Hbne Hfbody Hlbody) as Hbh.
    assert (HK : length (map GenF1.IPutEnv (rev (map fst bs))) = length bs) by (rewrite map_length, rev_length, map_length; reflexivity).
    set (Li := length (gin (c_in c) n bs)) in *. set (K := length bs) in *. set (Lb := length (gbeg (c_in c) (n + nlb bs) body)) in *.
    assert (HL : length ([GenF1.IAddScope] ++ gin (c_in c) n bs ++ map GenF1.IPutEnv (rev (map fst bs)) ++ gbeg (c_in c) (n + nlb bs) body ++ [GenF1.IRemoveScope]) = Li + K + Lb + 2) by (rewrite !app_length, HK; simpl; unfold Li, Lb; lia).
    rewrite HL in *. pose proof Hat as Hat0. simpl in Hat.
    set (WH := (0, s) :: sh 1 (clip Li (ann_inits annL (c_in c) n bs (scup s))) ++ sh (S Li) (clip K (ann_puts K (scup s))) ++
       sh (S Li + K) (clip Lb (ann_begin annL (c_in c) (n + nlb bs) body (scup s))) ++ [(S Li + K + Lb, pushv (scup s))]) in *.
    assert (Hin_of : forall i st, In (i, st) WH -> i < Li + K + Lb + 2 -> flows A len true (p + i) st = true).
    { intros i st Hi Hlti. apply flows_in; [eapply (code_at_lt p _ i Hat0); rewrite HL; lia|]. now apply Hcov. }
    assert (Hbegin_in : In (S Li + K + 0, scup s) WH).
    { right. apply in_or_app. right. apply in_or_app. right. apply in_or_app. left. apply In_sh. exists 0. split; [reflexivity|]. apply In_clip. split; [exact Hbh|exact HB]. }
    assert (Hputs_in : 0 < K -> In (S Li + 0, pushn K (scup s)) WH).
    { intros HK0. right. apply in_or_app. right. apply in_or_app. left. apply In_sh. exists 0. split; [reflexivity|]. apply In_clip. split; [|exact HK0].
      destruct K; [lia|]. left. reflexivity. }
    assert (Hat1 : code_at G (p + 1) (gin (c_in c) n bs)).
    { apply code_at_cons in Hat. apply code_at_app in Hat as [Hat _]. replace (p + 1) with (S p) by lia. exact Hat. }
    assert (Hat2 : code_at G (p + S Li) (map GenF1.IPutEnv (rev (map fst bs)))).
    { apply code_at_cons in Hat. apply code_at_app in Hat as [_ Hat]. apply code_at_app in Hat as [Hat _]. fold Li in Hat.
      replace (p + S Li) with (S p + Li) by lia. exact Hat. }
    assert (Hat3 : code_at G (p + (S Li + K)) (gbeg (c_in c) (n + nlb bs) body)).
    { apply code_at_cons in Hat. apply code_at_app in Hat as [_ Hat]. apply code_at_app in Hat as [_ Hat]. apply code_at_app in Hat as [Hat _].
      fold Li in Hat. rewrite HK in Hat. replace (p + (S Li + K)) with (S p + Li + K) by lia. exact Hat. }
    assert (Hg1 : good (p + 1) (ann_inits annL (c_in c) n bs (scup s)) Li).
    { apply (P_inits bs HPb (c_in c) n (p + 1) (scup s) Hfb Hlb Hat1).
      - intros j s'' Hj Hlt'. rewrite <- Nat.add_assoc. apply Hcov; [|fold Li in Hlt'; lia]. right. apply in_or_app. left. apply In_sh. exists j. split; [reflexivity|]. apply In_clip. auto.
      - fold Li K. destruct (Nat.eq_dec K 0) as [E0|N0].
        + rewrite E0. simpl pushn. replace (p + 1 + Li) with (p + (S Li + K + 0)) by lia. apply Hin_of; [exact Hbegin_in|lia].
        + replace (p + 1 + Li) with (p + (S Li + 0)) by lia. apply Hin_of; [apply Hputs_in; lia|lia]. }
    assert (Hg2 : good (p + S Li) (ann_puts K (scup s)) K).
    { assert (EK : K = length (rev (map fst bs))) by (rewrite rev_length, map_length; reflexivity).
      rewrite EK.
      apply (P_puts (rev (map fst bs)) (p + S Li) (scup s) Hat2).
      - rewrite <- EK.
        intros j s'' Hj Hlt'. rewrite <- Nat.add_assoc. apply Hcov; [|lia]. right. apply in_or_app. right. apply in_or_app. left. apply In_sh. exists j. split; [reflexivity|]. apply In_clip. auto.
      - rewrite <- EK. replace (p + S Li + K) with (p + (S Li + K + 0)) by lia. apply Hin_of; [exact Hbegin_in|lia]. }
    assert (Hg3 : good (p + (S Li + K)) (ann_begin annL (c_in c) (n + nlb bs) body (scup s)) Lb).
    { apply (P_begin body HPbody (c_in c) (n + nlb bs) (p + (S Li + K)) (scup s) Hfbody Hlbody Hne Hat3).
      - intros j s'' Hj Hlt'. rewrite <- Nat.add_assoc. apply Hcov; [|fold Lb in Hlt'; lia]. right. apply in_or_app. right. apply in_or_app. right. apply in_or_app. left. apply In_sh. exists j. split; [reflexivity|]. apply In_clip. auto.
      - fold Lb. replace (p + (S Li + K) + Lb) with (p + (S Li + K + Lb)) by lia. apply Hin_of; [|lia]. right. apply in_or_app. right. apply in_or_app. right. apply in_or_app. right. left. reflexivity. }
    intros i s' [E|Hin] Hlt.
    - inversion E; subst i s'. rewrite Nat.add_0_r.
      eapply ok_next; [apply (W_at _ _ _ Hat)|reflexivity|reflexivity|apply arun_up|].
      destruct bs as [|[x e] r].
      + replace (S p) with (p + (S Li + K + 0)) by (unfold Li, K; simpl; lia). apply Hin_of; [exact Hbegin_in|lia].
      + replace (S p) with (p + (1 + 0)) by lia.
        simpl in Hfb, Hlb. apply andb_prop in Hfb as [Hfe _]. apply andb_prop in Hlb as [Hle _].
        pose proof (NE_all e (c_in c) n Hfe Hle) as HNe.
        assert (0 < Li). { unfold Li. change (gin (c_in c) n ((x, e) :: r)) with (GenF1.gen (c_in c) n e ++ gin (c_in c) (n + GenF1.nloops e) r). rewrite app_length. destruct (GenF1.gen (c_in c) n e); [congruence|simpl; lia]. }
        apply Hin_of; [|lia]. right. apply in_or_app. left. apply In_sh. exists 0. split; [reflexivity|]. apply In_clip. split; [|assumption].
        change (ann_inits annL (c_in c) n ((x, e) :: r) (scup s)) with
          (clip (glen (c_in c) n e) (annL (c_in c) n e (scup s)) ++ sh (glen (c_in c) n e) (ann_inits annL (c_in c) (n + GenF1.nloops e) r (pushv (scup s)))).
        apply in_or_app. left. now apply head_in.
    - apply in_app_or in Hin as [H1|H1]; [|apply in_app_or in H1 as [H1|H1]; [|apply in_app_or in H1 as [H1|H1]]].
      + apply In_sh in H1 as (j & -> & Hj). apply In_clip in Hj as [Hj Hjl]. rewrite Nat.add_assoc. now apply Hg1.
      + apply In_sh in H1 as (j & -> & Hj). apply In_clip in Hj as [Hj Hjl]. rewrite Nat.add_assoc. now apply Hg2.
      + apply In_sh in H1 as (j & -> & Hj). apply In_clip in Hj as [Hj Hjl]. rewrite Nat.add_assoc. now apply Hg3.
      + destruct H1 as [E|[]]. inversion E; subst i s'.
        assert (E2 : (GenF1.IAddScope :: gin (c_in c) n bs ++ map GenF1.IPutEnv (rev (map fst bs)) ++ gbeg (c_in c) (n + nlb bs) body) ++ [GenF1.IRemoveScope] =
                     GenF1.IAddScope :: gin (c_in c) n bs ++ map GenF1.IPutEnv (rev (map fst bs)) ++ gbeg (c_in c) (n + nlb bs) body ++ [GenF1.IRemoveScope])
          by (simpl; rewrite <- !app_assoc; reflexivity).
        match goal with |- ok ?x _ => replace x with (p + length (GenF1.IAddScope :: gin (c_in c) n bs ++ map GenF1.IPutEnv (rev (map fst bs)) ++ gbeg (c_in c) (n + nlb bs) body)) by (simpl; rewrite !app_length, HK; unfold Li, Lb; lia) end.
        eapply (ok_simple p _ GenF1.IRemoveScope []); [rewrite E2; exact Hat|reflexivity|reflexivity|apply arun_down|].
        simpl length. rewrite !app_length, HK. fold Li Lb. replace (S (p + S (Li + (K + Lb)))) with (p + (Li + K + Lb + 2)) by lia. exact Hex.
  Qed.
  (* ---- all expressions of the jump-free fragment ---- *)
  Ltac leaf :=
    let c := fresh in let n := fresh in let p := fresh in let s := fresh in
    intros c n p s _ _ Hat Hcov Hex i s' Hin Hlt; simpl in Hin; destruct Hin as [E|[]]; inversion E; subst i s';
    rewrite Nat.add_0_r; eapply ok_next; [apply (W_at _ _ _ Hat)|reflexivity|reflexivity|apply arun_push|];
    simpl in Hex; replace (S p) with (p + 1) by lia; exact Hex.

  (* ---- for loops ---- *)
  Lemma ok_simple_eq : forall p C c1 i c2 j s ops s',
    code_at G p C -> C = c1 ++ i :: c2 -> j = length c1 ->
    known (tb offs i) = true -> eff fi (tb offs i) = Some (ops, CNext) ->
    arun_dops true ops s = Some s' -> flows A len true (p + S j) s' = true -> ok (p + j) s.
  Proof.
    intros p C c1 i c2 j s ops s' Hat -> -> Hk He Ha Hf.
    eapply ok_simple; [exact Hat|exact Hk|exact He|exact Ha|].
    replace (S (p + length c1)) with (p + S (length c1)) by lia. exact Hf.
  Qed.

  Lemma ok_jump_eq : forall p C c1 off c2 j t s,
    code_at G p C -> C = c1 ++ GenF1.IJump off :: c2 -> j = length c1 -> t = p + j + off -> t <= len ->
    flows A len true t s = true -> ok (p + j) s.
  Proof. intros p C c1 off c2 j t s Hat -> -> -> Hle Hf. eapply ok_jump_mid; eauto. Qed.

  Lemma ok_branch_eq : forall p C c1 d off c2 j t ab k,
    code_at G p C -> C = c1 ++ GenF1.IBranch d off :: c2 -> j = length c1 -> t = p + j + off -> t <= len ->
    flows A len true t (ab, k) = true -> flows A len true (p + S j) (ab, k) = true -> ok (p + j) (AVal :: ab, k).
  Proof.
    intros p C c1 d off c2 j t ab k Hat -> -> -> Hle Hf1 Hf2. eapply ok_branch_mid; eauto.
    replace (S (p + length c1)) with (p + S (length c1)) by lia. exact Hf2.
  Qed.

  Lemma ok_jumpback_eq : forall p C c1 off c2 j t s,
    code_at G p C -> C = c1 ++ GenF1.IJumpBack off :: c2 -> j = length c1 -> p + j = t + off ->
    flows A len true t s = true -> ok (p + j) s.
  Proof.
    intros p C c1 off c2 j t s Hat -> -> Ht Hf.
    assert (Hlt : p + length c1 < len) by (eapply code_at_lt; [exact Hat|rewrite app_length; simpl; lia]).
    apply code_at_app in Hat as [_ Hat2].
    eapply (ok_jump _ (- Z.of_nat off)%Z _ t); [apply (W_at _ _ _ Hat2)| |exact Hf].
    replace (Z.of_nat (p + length c1) + - Z.of_nat off)%Z with (Z.of_nat t) by lia. apply zpc_nat. lia.
  Qed.

  Lemma code_at_sub : forall p C c1 X c2 q,
    code_at G p C -> C = c1 ++ X ++ c2 -> q = p + length c1 -> code_at G q X.
  Proof.
    intros p C c1 X c2 q Hat -> ->. apply code_at_app in Hat as [_ Hat]. apply code_at_app in Hat as [Hat _]. exact Hat.
  Qed.

  Lemma arun_nop : forall s, arun_dops true [] s = Some s.
  Proof. reflexivity. Qed.
  Lemma arun_puntil : forall n ab k,
    arun_dops true [DPopToMark n; DPush (Mark n)] (AVal :: AMark n :: ab, k) = Some (AMark n :: ab, k).
  Proof. intros n ab k. simpl. rewrite Nat.eqb_refl. reflexivity. Qed.
  Lemma arun_clear : forall n ab k, arun_dops true [DPopToMark n] (AMark n :: ab, k) = Some (ab, k).
  Proof. intros n ab k. simpl. rewrite Nat.eqb_refl. reflexivity. Qed.

  Ltac norml := repeat (cbn [app]; rewrite <- ?app_assoc).
  Ltac eql := unfold for_code; norml; reflexivity.
  Ltac lens := unfold for_code; repeat (cbn [length app]; rewrite ?app_length); lia.
  Ltac pick :=
    match goal with
    | |- _ \/ _ => (left; pick) || (right; pick)
    | |- (_, _) = (_, _) => apply f_equal2; [lia|reflexivity]
    | |- In _ (sh _ _) => eassumption
    end.
  Ltac inl := unfold for_ann; rewrite ?in_app_iff; cbn [In]; pick.

  Section ForGood.
    Variables (n bo co jo bro back : nat) (Ci Cs Ct Cb : list GenF1.instr) (li ls lt lb : list pa).
    Variables (ab : list aitem) (k Li Ls Lt Lb p : nat).
    Local Notation LS := (GenF1.ILoopStart n bo co).
    Local Notation AS := GenF1.IAddScope.
    Local Notation PM := (GenF1.IPushMark n).
    Local Notation LB := GenF1.ILabel.
    Local Notation PU := (GenF1.IPopUntilMark n).
    Local Notation JMP := (GenF1.IJump jo).
    Local Notation BR := (GenF1.IBranch false bro).
    Local Notation JB := (GenF1.IJumpBack back).
    Local Notation CM := (GenF1.IClearMark n).
    Local Notation RS := GenF1.IRemoveScope.
    Local Notation PN := (GenF1.IPush ENil).
    Local Notation smS := (AMark n :: ab, S k).
    Local Notation vmS := (AVal :: AMark n :: ab, S k).
    Local Notation CC := (for_code n bo co jo bro back Ci Cs Ct Cb).
    Local Notation Ltot := (17 + Li + Ls + Lt + Lb).
    Local Notation LL := ((0, (ab, k)) :: for_ann n ab k Li Ls Lt Lb li ls lt lb).
    Hypothesis ELi : Li = length Ci.
    Hypothesis ELs : Ls = length Cs.
    Hypothesis ELt : Lt = length Ct.
    Hypothesis ELb : Lb = length Cb.
    Hypothesis Ejo : jo = Ls + 3.
    Hypothesis Ebro : bro = Lb + 4.
    Hypothesis Eback : back = Ls + Lt + Lb + 6.
    Hypothesis (Pi : 0 < Li) (Ps : 0 < Ls) (Pt : 0 < Lt) (Pb : 0 < Lb).
    Hypothesis Hhi : In (0, smS) li.
    Hypothesis Hhs : In (0, smS) ls.
    Hypothesis Hht : In (0, smS) lt.
    Hypothesis Hhb : In (0, smS) lb.
    Hypothesis Bi : forall j x, In (j, x) li -> j < Li.
    Hypothesis Bs : forall j x, In (j, x) ls -> j < Ls.
    Hypothesis Bt : forall j x, In (j, x) lt -> j < Lt.
    Hypothesis Bb : forall j x, In (j, x) lb -> j < Lb.
    Hypothesis Gi : forall q, code_at G q Ci -> covers q li Li -> flows A len true (q + Li) vmS = true -> good q li Li.
    Hypothesis Gs : forall q, code_at G q Cs -> covers q ls Ls -> flows A len true (q + Ls) vmS = true -> good q ls Ls.
    Hypothesis Gt : forall q, code_at G q Ct -> covers q lt Lt -> flows A len true (q + Lt) vmS = true -> good q lt Lt.
    Hypothesis Gb : forall q, code_at G q Cb -> covers q lb Lb -> flows A len true (q + Lb) vmS = true -> good q lb Lb.
    Hypothesis Hat : code_at G p CC.
    Hypothesis Hcov0 : covers p LL (length CC).
    Hypothesis Hex0 : flows A len true (p + length CC) (AVal :: ab, k) = true.

    Lemma for_len : length CC = Ltot.
    Proof. lens. Qed.

    Lemma for_in_of : forall i st, In (i, st) LL -> i < Ltot -> flows A len true (p + i) st = true.
    Proof.
      intros i st Hin Hlt. apply flows_in.
      - eapply code_at_lt; [exact Hat|rewrite for_len; exact Hlt].
      - apply Hcov0; [exact Hin|rewrite for_len; exact Hlt].
    Qed.

    Lemma for_le : p + Ltot <= len.
    Proof. rewrite <- for_len. eapply code_at_le. exact Hat. Qed.

    Lemma for_good : good p LL (length CC).
    Proof.
      rewrite for_len. pose proof for_in_of as Hin_of. pose proof for_le as Hle.
      assert (Hex : flows A len true (p + Ltot) (AVal :: ab, k) = true) by (rewrite <- for_len; exact Hex0).
      assert (H4 : In (4 + 0, smS) (sh 4 li)) by (apply In_sh; eauto).
      assert (H7 : In (7 + Li + 0, smS) (sh (7 + Li) ls)) by (apply In_sh; eauto).
      assert (H9 : In (9 + Li + Ls + 0, smS) (sh (9 + Li + Ls) lt)) by (apply In_sh; eauto).
      assert (H11 : In (11 + Li + Ls + Lt + 0, smS) (sh (11 + Li + Ls + Lt) lb)) by (apply In_sh; eauto).
      intros i0 s0 Hin Hlt. destruct Hin as [Hin|Hin].
      { (* LoopStart *) inversion Hin; subst i0 s0.
        eapply (ok_simple_eq p CC [] LS); [exact Hat|eql|reflexivity|reflexivity|reflexivity|apply arun_nop|].
        apply Hin_of; [right; inl|lia]. }
      unfold for_ann in Hin. rewrite ?in_app_iff in Hin. cbn [In] in Hin.
      repeat match goal with H : _ \/ _ |- _ => destruct H as [H|H] end; try contradiction.
      - (* 1 AddScope *) inversion Hin; subst i0 s0.
        eapply (ok_simple_eq p CC [LS] AS); [exact Hat|eql|reflexivity|reflexivity|reflexivity|reflexivity|].
        apply Hin_of; [right; inl|lia].
      - (* 2 PushStackmark *) inversion Hin; subst i0 s0.
        eapply (ok_simple_eq p CC [LS; AS] PM); [exact Hat|eql|reflexivity|reflexivity|reflexivity|reflexivity|].
        apply Hin_of; [right; inl|lia].
      - (* 3 Label *) inversion Hin; subst i0 s0.
        eapply (ok_simple_eq p CC [LS; AS; PM] LB); [exact Hat|eql|reflexivity|reflexivity|reflexivity|reflexivity|].
        apply (Hin_of (4 + 0)); [right; inl|lia].
      - (* init *)
        assert (Hb : i0 < 4 + Li) by (pose proof Hin as H; apply In_sh in H as (j & -> & Hj); apply Bi in Hj; lia).
        eapply (good_sh p 4 li Li); [|exact Hin|exact Hb].
        apply Gi.
        + eapply (code_at_sub p CC [LS; AS; PM; LB] Ci); [exact Hat|eql|lens].
        + intros j x Hj Hltj. rewrite <- Nat.add_assoc.
          assert (Hj' : In (4 + j, x) (sh 4 li)) by (apply In_sh; eauto).
          apply Hcov0; [right; inl|rewrite for_len; lia].
        + replace (p + 4 + Li) with (p + (4 + Li)) by lia. apply Hin_of; [right; inl|lia].
      - (* PopUntil after init *) inversion Hin; subst i0 s0.
        eapply (ok_simple_eq p CC ([LS; AS; PM; LB] ++ Ci) PU); [exact Hat|eql|lens|reflexivity|reflexivity|apply arun_puntil|].
        apply Hin_of; [right; inl|lia].
      - (* Jump to the test *) inversion Hin; subst i0 s0.
        eapply (ok_jump_eq p CC ([LS; AS; PM; LB] ++ Ci ++ [PU]) jo _ _ (p + (8 + Li + Ls))); [exact Hat|eql|lens|lia|lia|].
        apply Hin_of; [right; inl|lia].
      - (* continue label *) inversion Hin; subst i0 s0.
        eapply (ok_simple_eq p CC ([LS; AS; PM; LB] ++ Ci ++ [PU; JMP]) LB); [exact Hat|eql|lens|reflexivity|reflexivity|reflexivity|].
        match goal with |- flows _ _ _ (p + ?x) _ = _ => replace x with (7 + Li + 0) by lia end. apply (Hin_of (7 + Li + 0)); [right; inl|lia].
      - (* increment *)
        assert (Hb : i0 < 7 + Li + Ls) by (pose proof Hin as H; apply In_sh in H as (j & -> & Hj); apply Bs in Hj; lia).
        eapply (good_sh p (7 + Li) ls Ls); [|exact Hin|exact Hb].
        apply Gs.
        + eapply (code_at_sub p CC ([LS; AS; PM; LB] ++ Ci ++ [PU; JMP; LB]) Cs); [exact Hat|eql|lens].
        + intros j x Hj Hltj. rewrite <- Nat.add_assoc.
          assert (Hj' : In (7 + Li + j, x) (sh (7 + Li) ls)) by (apply In_sh; eauto).
          apply Hcov0; [right; inl|rewrite for_len; lia].
        + replace (p + (7 + Li) + Ls) with (p + (7 + Li + Ls)) by lia. apply Hin_of; [right; inl|lia].
      - (* PopUntil after the increment *) inversion Hin; subst i0 s0.
        eapply (ok_simple_eq p CC ([LS; AS; PM; LB] ++ Ci ++ [PU; JMP; LB] ++ Cs) PU); [exact Hat|eql|lens|reflexivity|reflexivity|apply arun_puntil|].
        apply Hin_of; [right; inl|lia].
      - (* test label *) inversion Hin; subst i0 s0.
        eapply (ok_simple_eq p CC ([LS; AS; PM; LB] ++ Ci ++ [PU; JMP; LB] ++ Cs ++ [PU]) LB); [exact Hat|eql|lens|reflexivity|reflexivity|reflexivity|].
        match goal with |- flows _ _ _ (p + ?x) _ = _ => replace x with (9 + Li + Ls + 0) by lia end. apply (Hin_of (9 + Li + Ls + 0)); [right; inl|lia].
      - (* test *)
        assert (Hb : i0 < 9 + Li + Ls + Lt) by (pose proof Hin as H; apply In_sh in H as (j & -> & Hj); apply Bt in Hj; lia).
        eapply (good_sh p (9 + Li + Ls) lt Lt); [|exact Hin|exact Hb].
        apply Gt.
        + eapply (code_at_sub p CC ([LS; AS; PM; LB] ++ Ci ++ [PU; JMP; LB] ++ Cs ++ [PU; LB]) Ct); [exact Hat|eql|lens].
        + intros j x Hj Hltj. rewrite <- Nat.add_assoc.
          assert (Hj' : In (9 + Li + Ls + j, x) (sh (9 + Li + Ls) lt)) by (apply In_sh; eauto).
          apply Hcov0; [right; inl|rewrite for_len; lia].
        + replace (p + (9 + Li + Ls) + Lt) with (p + (9 + Li + Ls + Lt)) by lia. apply Hin_of; [right; inl|lia].
      - (* Branch out of the loop *) inversion Hin; subst i0 s0.
        eapply (ok_branch_eq p CC ([LS; AS; PM; LB] ++ Ci ++ [PU; JMP; LB] ++ Cs ++ [PU; LB] ++ Ct) false bro _ _ (p + (13 + Li + Ls + Lt + Lb))); [exact Hat|eql|lens|lia|lia| |].
        + apply Hin_of; [right; inl|lia].
        + apply Hin_of; [right; inl|lia].
      - (* body label *) inversion Hin; subst i0 s0.
        eapply (ok_simple_eq p CC ([LS; AS; PM; LB] ++ Ci ++ [PU; JMP; LB] ++ Cs ++ [PU; LB] ++ Ct ++ [BR]) LB); [exact Hat|eql|lens|reflexivity|reflexivity|reflexivity|].
        match goal with |- flows _ _ _ (p + ?x) _ = _ => replace x with (11 + Li + Ls + Lt + 0) by lia end. apply (Hin_of (11 + Li + Ls + Lt + 0)); [right; inl|lia].
      - (* body *)
        assert (Hb : i0 < 11 + Li + Ls + Lt + Lb) by (pose proof Hin as H; apply In_sh in H as (j & -> & Hj); apply Bb in Hj; lia).
        eapply (good_sh p (11 + Li + Ls + Lt) lb Lb); [|exact Hin|exact Hb].
        apply Gb.
        + eapply (code_at_sub p CC ([LS; AS; PM; LB] ++ Ci ++ [PU; JMP; LB] ++ Cs ++ [PU; LB] ++ Ct ++ [BR; LB]) Cb); [exact Hat|eql|lens].
        + intros j x Hj Hltj. rewrite <- Nat.add_assoc.
          assert (Hj' : In (11 + Li + Ls + Lt + j, x) (sh (11 + Li + Ls + Lt) lb)) by (apply In_sh; eauto).
          apply Hcov0; [right; inl|rewrite for_len; lia].
        + replace (p + (11 + Li + Ls + Lt) + Lb) with (p + (11 + Li + Ls + Lt + Lb)) by lia. apply Hin_of; [right; inl|lia].
      - (* PopUntil after the body *) inversion Hin; subst i0 s0.
        eapply (ok_simple_eq p CC ([LS; AS; PM; LB] ++ Ci ++ [PU; JMP; LB] ++ Cs ++ [PU; LB] ++ Ct ++ [BR; LB] ++ Cb) PU); [exact Hat|eql|lens|reflexivity|reflexivity|apply arun_puntil|].
        apply Hin_of; [right; inl|lia].
      - (* Jump back to the continue label *) inversion Hin; subst i0 s0.
        eapply (ok_jumpback_eq p CC ([LS; AS; PM; LB] ++ Ci ++ [PU; JMP; LB] ++ Cs ++ [PU; LB] ++ Ct ++ [BR; LB] ++ Cb ++ [PU]) back _ _ (p + (6 + Li))); [exact Hat|eql|lens|lia|].
        apply Hin_of; [right; inl|lia].
      - (* break label *) inversion Hin; subst i0 s0.
        eapply (ok_simple_eq p CC ([LS; AS; PM; LB] ++ Ci ++ [PU; JMP; LB] ++ Cs ++ [PU; LB] ++ Ct ++ [BR; LB] ++ Cb ++ [PU; JB]) LB); [exact Hat|eql|lens|reflexivity|reflexivity|reflexivity|].
        apply Hin_of; [right; inl|lia].
      - (* ClearStackmark *) inversion Hin; subst i0 s0.
        eapply (ok_simple_eq p CC ([LS; AS; PM; LB] ++ Ci ++ [PU; JMP; LB] ++ Cs ++ [PU; LB] ++ Ct ++ [BR; LB] ++ Cb ++ [PU; JB; LB]) CM); [exact Hat|eql|lens|reflexivity|reflexivity|apply arun_clear|].
        apply Hin_of; [right; inl|lia].
      - (* RemoveScope *) inversion Hin; subst i0 s0.
        eapply (ok_simple_eq p CC ([LS; AS; PM; LB] ++ Ci ++ [PU; JMP; LB] ++ Cs ++ [PU; LB] ++ Ct ++ [BR; LB] ++ Cb ++ [PU; JB; LB; CM]) RS); [exact Hat|eql|lens|reflexivity|reflexivity|reflexivity|].
        apply Hin_of; [right; inl|lia].
      - (* Push nil *) inversion Hin; subst i0 s0.
        eapply (ok_simple_eq p CC ([LS; AS; PM; LB] ++ Ci ++ [PU; JMP; LB] ++ Cs ++ [PU; LB] ++ Ct ++ [BR; LB] ++ Cb ++ [PU; JB; LB; CM; RS]) PN); [exact Hat|eql|lens|reflexivity|reflexivity|reflexivity|].
        replace (p + S (16 + Li + Ls + Lt + Lb)) with (p + Ltot) by lia. exact Hex.
    Qed.
  End ForGood.

  Lemma glen_pos : forall e c n, GenF1.f1 e = true -> nj e = true -> 0 < glen c n e.
  Proof.
    intros e c n Hf Hl. pose proof (NE_all e c n Hf Hl). destruct (GenF1.gen c n e); [congruence|simpl; lia].
  Qed.

  Lemma begin_head_any : forall es c n s, forallb GenF1.f1 es = true -> forallb nj es = true ->
    In (0, s) (ann_begin annL c n es s).
  Proof.
    intros es c n s Hf Hl. destruct es as [|e r]; [left; reflexivity|]. apply begin_head; [discriminate|exact Hf|exact Hl].
  Qed.

  Lemma gen_for_eq : forall c n lbl i t st body,
    GenF1.gen c n (EFor lbl i t st body) =
    for_code n
      (length (GenF1.gen (GenF1.inner c lbl n) (S n) i ++ [GenF1.IPopUntilMark n]) + 5 +
       (length (GenF1.gen (GenF1.inner c lbl n) (S n + GenF1.nloops i) st ++ [GenF1.IPopUntilMark n]) +
        glen (GenF1.inner c lbl n) (S n + GenF1.nloops i + GenF1.nloops st) t +
        length (GenF1.gen_begin GenF1.gen GenF1.nloops (GenF1.inner c lbl n) (S n + GenF1.nloops i + GenF1.nloops st + GenF1.nloops t) body ++ [GenF1.IPopUntilMark n]) + 4) + 2)
      (length (GenF1.gen (GenF1.inner c lbl n) (S n) i ++ [GenF1.IPopUntilMark n]) + 5)
      (length (GenF1.gen (GenF1.inner c lbl n) (S n + GenF1.nloops i) st ++ [GenF1.IPopUntilMark n]) + 2)
      (length (GenF1.gen_begin GenF1.gen GenF1.nloops (GenF1.inner c lbl n) (S n + GenF1.nloops i + GenF1.nloops st + GenF1.nloops t) body ++ [GenF1.IPopUntilMark n]) + 3)
      (length (GenF1.gen (GenF1.inner c lbl n) (S n + GenF1.nloops i) st ++ [GenF1.IPopUntilMark n]) +
        glen (GenF1.inner c lbl n) (S n + GenF1.nloops i + GenF1.nloops st) t +
        length (GenF1.gen_begin GenF1.gen GenF1.nloops (GenF1.inner c lbl n) (S n + GenF1.nloops i + GenF1.nloops st + GenF1.nloops t) body ++ [GenF1.IPopUntilMark n]) + 4)
      (GenF1.gen (GenF1.inner c lbl n) (S n) i)
      (GenF1.gen (GenF1.inner c lbl n) (S n + GenF1.nloops i) st)
      (GenF1.gen (GenF1.inner c lbl n) (S n + GenF1.nloops i + GenF1.nloops st) t)
      (GenF1.gen_begin GenF1.gen GenF1.nloops (GenF1.inner c lbl n) (S n + GenF1.nloops i + GenF1.nloops st + GenF1.nloops t) body).
  Proof.
    intros c n lbl i t st body. unfold for_code.
    change (GenF1.gen c n (EFor lbl i t st body)) with
      ([GenF1.ILoopStart n
         (length (GenF1.gen (GenF1.inner c lbl n) (S n) i ++ [GenF1.IPopUntilMark n]) + 5 +
          (length (GenF1.gen (GenF1.inner c lbl n) (S n + GenF1.nloops i) st ++ [GenF1.IPopUntilMark n]) +
           glen (GenF1.inner c lbl n) (S n + GenF1.nloops i + GenF1.nloops st) t +
           length (GenF1.gen_begin GenF1.gen GenF1.nloops (GenF1.inner c lbl n) (S n + GenF1.nloops i + GenF1.nloops st + GenF1.nloops t) body ++ [GenF1.IPopUntilMark n]) + 4) + 2)
         (length (GenF1.gen (GenF1.inner c lbl n) (S n) i ++ [GenF1.IPopUntilMark n]) + 5);
        GenF1.IAddScope; GenF1.IPushMark n; GenF1.ILabel] ++
       (GenF1.gen (GenF1.inner c lbl n) (S n) i ++ [GenF1.IPopUntilMark n]) ++
       [GenF1.IJump (length (GenF1.gen (GenF1.inner c lbl n) (S n + GenF1.nloops i) st ++ [GenF1.IPopUntilMark n]) + 2)] ++ [GenF1.ILabel] ++
       (GenF1.gen (GenF1.inner c lbl n) (S n + GenF1.nloops i) st ++ [GenF1.IPopUntilMark n]) ++ [GenF1.ILabel] ++
       GenF1.gen (GenF1.inner c lbl n) (S n + GenF1.nloops i + GenF1.nloops st) t ++
       [GenF1.IBranch false (length (GenF1.gen_begin GenF1.gen GenF1.nloops (GenF1.inner c lbl n) (S n + GenF1.nloops i + GenF1.nloops st + GenF1.nloops t) body ++ [GenF1.IPopUntilMark n]) + 3)] ++ [GenF1.ILabel] ++
       (GenF1.gen_begin GenF1.gen GenF1.nloops (GenF1.inner c lbl n) (S n + GenF1.nloops i + GenF1.nloops st + GenF1.nloops t) body ++ [GenF1.IPopUntilMark n]) ++
       [GenF1.IJumpBack (length (GenF1.gen (GenF1.inner c lbl n) (S n + GenF1.nloops i) st ++ [GenF1.IPopUntilMark n]) +
          glen (GenF1.inner c lbl n) (S n + GenF1.nloops i + GenF1.nloops st) t +
          length (GenF1.gen_begin GenF1.gen GenF1.nloops (GenF1.inner c lbl n) (S n + GenF1.nloops i + GenF1.nloops st + GenF1.nloops t) body ++ [GenF1.IPopUntilMark n]) + 4)] ++ [GenF1.ILabel] ++
       [GenF1.IClearMark n; GenF1.IRemoveScope; GenF1.IPush ENil]).
    norml. reflexivity.
  Qed.

  Lemma P_for : forall lbl i t st body, P i -> P t -> P st -> Forall P body -> P (EFor lbl i t st body).
  Proof.
    intros lbl i t st body HPi HPt HPs HPb c n p s Hf Hl Hat Hcov Hex.
    simpl in Hf, Hl.
    repeat match goal with H : _ && _ = true |- _ => apply andb_prop in H; destruct H end.
    rewrite gen_for_eq in *.
    destruct s as [ab k].
    change (annL c n (EFor lbl i t st body) (ab, k)) with
      ((0, (ab, k)) :: for_ann n ab k
        (glen (GenF1.inner c lbl n) (S n) i)
        (glen (GenF1.inner c lbl n) (S n + GenF1.nloops i) st)
        (glen (GenF1.inner c lbl n) (S n + GenF1.nloops i + GenF1.nloops st) t)
        (length (GenF1.gen_begin GenF1.gen GenF1.nloops (GenF1.inner c lbl n) (S n + GenF1.nloops i + GenF1.nloops st + GenF1.nloops t) body))
        (clip (glen (GenF1.inner c lbl n) (S n) i) (annL (GenF1.inner c lbl n) (S n) i (AMark n :: ab, S k)))
        (clip (glen (GenF1.inner c lbl n) (S n + GenF1.nloops i) st)
              (annL (GenF1.inner c lbl n) (S n + GenF1.nloops i) st (AMark n :: ab, S k)))
        (clip (glen (GenF1.inner c lbl n) (S n + GenF1.nloops i + GenF1.nloops st) t)
              (annL (GenF1.inner c lbl n) (S n + GenF1.nloops i + GenF1.nloops st) t (AMark n :: ab, S k)))
        (clip (length (GenF1.gen_begin GenF1.gen GenF1.nloops (GenF1.inner c lbl n) (S n + GenF1.nloops i + GenF1.nloops st + GenF1.nloops t) body))
              (ann_begin annL (GenF1.inner c lbl n) (S n + GenF1.nloops i + GenF1.nloops st + GenF1.nloops t) body (AMark n :: ab, S k)))) in *.
    set (c1 := GenF1.inner c lbl n) in *.
    set (n2 := S n + GenF1.nloops i) in *.
    set (n3 := n2 + GenF1.nloops st) in *.
    set (n4 := n3 + GenF1.nloops t) in *.
    eapply for_good; try reflexivity; try exact Hat; try exact Hcov; try exact Hex.
    - rewrite app_length. simpl. lia.
    - rewrite app_length. simpl. lia.
    - rewrite !app_length. simpl. lia.
    - apply glen_pos; assumption.
    - apply glen_pos; assumption.
    - apply glen_pos; assumption.
    - apply gen_begin_ne; assumption.
    - apply head_in. apply NE_all; assumption.
    - apply head_in. apply NE_all; assumption.
    - apply head_in. apply NE_all; assumption.
    - apply In_clip. split; [apply begin_head_any; assumption|apply gen_begin_ne; assumption].
    - intros j x Hj. now apply In_clip in Hj.
    - intros j x Hj. now apply In_clip in Hj.
    - intros j x Hj. now apply In_clip in Hj.
    - intros j x Hj. now apply In_clip in Hj.
    - intros q Hq Hc Hfl j x Hj Hltj. apply In_clip in Hj as [Hj _].
      apply (HPi c1 (S n) q (AMark n :: ab, S k)); auto.
      intros j2 x2 Hj2 Hlt2. apply Hc; auto. apply In_clip; auto.
    - intros q Hq Hc Hfl j x Hj Hltj. apply In_clip in Hj as [Hj _].
      apply (HPs c1 n2 q (AMark n :: ab, S k)); auto.
      intros j2 x2 Hj2 Hlt2. apply Hc; auto. apply In_clip; auto.
    - intros q Hq Hc Hfl j x Hj Hltj. apply In_clip in Hj as [Hj _].
      apply (HPt c1 n3 q (AMark n :: ab, S k)); auto.
      intros j2 x2 Hj2 Hlt2. apply Hc; auto. apply In_clip; auto.
    - intros q Hq Hc Hfl j x Hj Hltj. apply In_clip in Hj as [Hj _].
      apply (P_begin body HPb c1 n4 q (AMark n :: ab, S k)); auto.
      intros j2 x2 Hj2 Hlt2. apply Hc; auto. apply In_clip; auto.
  Qed.

  Lemma wrap_head : forall p l L s, good p l L -> In (0, s) l -> 0 < L -> good p ((0, s) :: l) L.
  Proof. intros p l L s Hg Hin HL i s' [E|H] Hlt; [inversion E; subst; now apply Hg|now apply Hg]. Qed.

  Lemma covers_tl : forall p x l L, covers p (x :: l) L -> covers p l L.
  Proof. intros p x l L H i s Hin Hlt. apply H; [now right|exact Hlt]. Qed.

  Theorem P_all : forall e, P e.
  Proof.
    induction e using expr_ind_nested; try (intros c n p s Hf; simpl in Hf; discriminate); try leaf.
    - (* EBegin *)
      intros c n p s Hf Hl Hat Hcov Hex. simpl in Hf, Hl.
      apply andb_prop in Hf as [Hf Hne]. apply andb_prop in Hf as [Hnn Hf].
      assert (Hn : es <> []) by (destruct es; [discriminate|discriminate]).
      change (GenF1.gen c n (EBegin es)) with (GenF1.gen_begin GenF1.gen GenF1.nloops c n es) in *.
      change (annL c n (EBegin es) s) with ((0, s) :: ann_begin annL c n es s) in *.
      apply wrap_head; [|now apply begin_head|now apply gen_begin_ne].
      apply P_begin; auto. eapply covers_tl; eauto.
    - (* ECond *)
      intros c n p s Hf Hl Hat Hcov Hex. simpl in Hf, Hl.
      apply andb_prop in Hf as [Hfa Hfd]. apply andb_prop in Hl as [Hla Hld].
      change (GenF1.gen c n (ECond arms e)) with (GenF1.gen_cond GenF1.gen GenF1.nloops c n arms (fun n' => GenF1.gen c n' e)) in *.
      change (annL c n (ECond arms e) s) with ((0, s) :: ann_cond annL c n arms (fun n' => clip (glen c n' e) (annL c n' e s)) s) in *.
      destruct (cond_head arms e c n s Hfa Hfd Hla Hld) as [Hh Hlen].
      apply wrap_head; [|exact Hh|exact Hlen].
      apply P_cond; auto. eapply covers_tl; eauto.
    - (* EAnd *)
      intros c n p s Hf Hl Hat Hcov Hex. simpl in Hf, Hl. apply andb_prop in Hf as [Hnn Hf].
      assert (Hn : es <> []) by (destruct es; [discriminate|discriminate]).
      change (GenF1.gen c n (EAnd es)) with (GenF1.gen_sc GenF1.gen GenF1.nloops c n false es) in *.
      change (annL c n (EAnd es) s) with ((0, s) :: ann_sc annL c n es s) in *.
      apply wrap_head; [|now apply sc_head|now apply gen_sc_ne].
      apply P_sc; auto. eapply covers_tl; eauto.
    - (* EOr *)
      intros c n p s Hf Hl Hat Hcov Hex. simpl in Hf, Hl. apply andb_prop in Hf as [Hnn Hf].
      assert (Hn : es <> []) by (destruct es; [discriminate|discriminate]).
      change (GenF1.gen c n (EOr es)) with (GenF1.gen_sc GenF1.gen GenF1.nloops c n true es) in *.
      change (annL c n (EOr es) s) with ((0, s) :: ann_sc annL c n es s) in *.
      apply wrap_head; [|now apply sc_head|now apply gen_sc_ne].
      apply P_sc; auto. eapply covers_tl; eauto.
    - (* EDef *)
      intros c n p s Hf Hl Hat Hcov Hex. simpl in Hf, Hl.
      change (GenF1.gen c n (EDef x e)) with (GenF1.gen c n e ++ [GenF1.IDup; GenF1.IPutEnv x]) in *.
      change (annL c n (EDef x e) s) with ((0, s) :: clip (glen c n e) (annL c n e s) ++ [(glen c n e, pushv s); (S (glen c n e), pushv (pushv s))]) in *.
      assert (HL : length (GenF1.gen c n e ++ [GenF1.IDup; GenF1.IPutEnv x]) = glen c n e + 2) by (rewrite app_length; simpl; lia).
      rewrite HL in *. eapply P_defset; eauto; reflexivity.
    - (* ESet *)
      intros c n p s Hf Hl Hat Hcov Hex. simpl in Hf, Hl.
      change (GenF1.gen c n (ESet x e)) with (GenF1.gen c n e ++ [GenF1.IDup; GenF1.IUpdate x]) in *.
      change (annL c n (ESet x e) s) with ((0, s) :: clip (glen c n e) (annL c n e s) ++ [(glen c n e, pushv s); (S (glen c n e), pushv (pushv s))]) in *.
      assert (HL : length (GenF1.gen c n e ++ [GenF1.IDup; GenF1.IUpdate x]) = glen c n e + 2) by (rewrite app_length; simpl; lia).
      rewrite HL in *. eapply P_defset; eauto; reflexivity.
    - (* ELet *)
      destruct seq; [now apply P_let_seq|now apply P_let_par].
    - (* EScope *)
      now apply P_scope.
    - (* EFor *)
      now apply P_for.
  Qed.   (* EBreak / ECont are outside the jump-free fragment: nj = false, closed by discriminate *)
(* END-SECTION *)
End Code.

(* ---------- from the pair list to the annotation check_fn reads ---------- *)

Lemma build_nth : forall len l p, p < len ->
  nth p (build len l) [] = map snd (filter (fun x => Nat.eqb (fst x) p) l).
Proof.
  intros len l p H. unfold build.
  rewrite (nth_indep _ [] ((fun q => map snd (filter (fun x => Nat.eqb (fst x) q) l)) 0))
    by (rewrite map_length, seq_length; exact H).
  rewrite (map_nth (fun q => map snd (filter (fun x => Nat.eqb (fst x) q) l))). now rewrite seq_nth by exact H.
Qed.

Lemma build_In : forall len l p s, p < len -> (In s (nth p (build len l) []) <-> In (p, s) l).
Proof.
  intros len l p s H. rewrite build_nth by exact H. rewrite in_map_iff. split.
  - intros ([q s'] & E & Hf). simpl in E. subst s'. apply filter_In in Hf as [Hin Hq]. simpl in Hq.
    apply Nat.eqb_eq in Hq. now subst.
  - intros Hin. exists (p, s). split; [reflexivity|]. apply filter_In. split; [exact Hin|]. simpl. apply Nat.eqb_refl.
Qed.

Lemma check_from_all : forall code fi im A rest p0,
  (forall p sts st, nth_error rest p = Some sts -> In st sts -> check_state code fi im A (p0 + p) st = true) ->
  check_from code fi im A p0 rest = true.
Proof.
  intros code fi im A rest. induction rest as [|x r IH]; intros p0 H; [reflexivity|].
  simpl. apply andb_true_intro. split.
  - apply forallb_forall. intros st Hin. specialize (H 0 x st eq_refl Hin). now rewrite Nat.add_0_r in H.
  - apply IH. intros p sts st Hn Hin. specialize (H (S p) sts st Hn Hin). now rewrite Nat.add_succ_r in H.
Qed.

(* gen_verifies for the jump-free fragment (F0 + for loops in any nesting): literals, variables, calls (one instruction), begin,
   cond, and/or, def/set, let, letseq, newScope, in every nesting *)
Theorem gen_verifies_loops_lemma : forall fi e, GenF1.f1 e = true -> nj e = true ->
  check_fn (to_bytecode (GenF1.gen GenF1.top 0 e)) fi true 0 (annot_ofL e) = true.
Proof.
  intros fi e Hf Hl.
  pose proof (NE_all e GenF1.top 0 Hf Hl) as HN.
  set (G := GenF1.gen GenF1.top 0 e) in *.
  assert (HW : length (to_bytecode G) = length G) by (unfold to_bytecode; apply map_length).
  assert (HG : 0 < length G) by (destruct G; [congruence|simpl; lia]).
  assert (Hat : code_at G 0 G) by (exists [], []; rewrite app_nil_r; auto).
  assert (Hgood : good G fi (annot_ofL e) 0 (annL GenF1.top 0 e ([], 0)) (length G)).
  { apply (P_all G fi (annot_ofL e) e GenF1.top 0 0 ([], 0) Hf Hl Hat).
    - intros i s Hin Hlt. simpl. unfold annot_ofL. fold G. apply build_In; assumption.
    - simpl. unfold flows. fold G. rewrite map_length. now rewrite Nat.ltb_irrefl. }
  unfold check_fn. destruct (to_bytecode G) eqn:EW; [simpl in HW; lia|]. rewrite <- EW.
  apply andb_true_intro. split.
  - apply In_mem. unfold annot_ofL. fold G. apply build_In; [exact HG|]. apply ann_head.
  - apply check_from_all. intros p sts st Hn Hin. simpl.
    assert (Hp : p < length G).
    { assert (Hs : nth_error (annot_ofL e) p <> None) by congruence. apply nth_error_Some in Hs.
      unfold annot_ofL, build in Hs. fold G in Hs. now rewrite map_length, seq_length in Hs. }
    assert (Hin2 : In (p, st) (annL GenF1.top 0 e ([], 0))).
    { apply (build_In (length G) _ p st Hp). unfold annot_ofL in Hn. fold G in Hn. now rewrite (nth_error_nth _ _ [] Hn). }
    specialize (Hgood p st Hin2 Hp). exact Hgood.
Qed.

(* generator + machine, unbounded: the code that the model generator emits for ANY jump-free program (loops included),
   run by the abstract machine from the interpreter at rest along any path to its end, leaves the
   interpreter at rest *)
Theorem loops_leave_nothing_behind_lemma : forall fi e s s',
  GenF1.f1 e = true -> nj e = true -> at_rest s = true -> Verifier.pc s = 0 ->
  arun (to_bytecode (GenF1.gen GenF1.top 0 e)) fi s s' ->
  length (to_bytecode (GenF1.gen GenF1.top 0 e)) <= Verifier.pc s' ->
  at_rest (run_finish s') = true.
Proof.
  intros fi e s s' Hf Hl Hr Hp Hrun Hend.
  eapply toplevel_rest_lemma; eauto. now apply gen_verifies_loops_lemma.
Qed.

(* the loop-free fragment of GenVerifies.v is part of the jump-free one *)
Lemma lf_nj : forall e, lf e = true -> nj e = true.
Proof.
  induction e using expr_ind_nested; intros Hl; simpl in Hl |- *; try reflexivity; try discriminate.
  - rewrite forallb_forall in Hl |- *. rewrite Forall_forall in H. auto.
  - apply andb_prop in Hl as [Ha Hd]. rewrite (IHe Hd), andb_true_r.
    rewrite forallb_forall in Ha |- *. rewrite Forall_forall in H. intros [t b] Hin. specialize (Ha _ Hin). specialize (H _ Hin).
    simpl in *. apply andb_prop in Ha as [H1 H2]. destruct H as [Ht Hb]. now rewrite (Ht H1), (Hb H2).
  - rewrite forallb_forall in Hl |- *. rewrite Forall_forall in H. auto.
  - rewrite forallb_forall in Hl |- *. rewrite Forall_forall in H. auto.
  - auto.
  - auto.
  - apply andb_prop in Hl as [Hb Hy]. apply andb_true_intro. split.
    + rewrite forallb_forall in Hb |- *. rewrite Forall_forall in H. intros xb Hin. apply (H _ Hin). now apply Hb.
    + rewrite forallb_forall in Hy |- *. rewrite Forall_forall in H0. auto.
  - rewrite forallb_forall in Hl |- *. rewrite Forall_forall in H. auto.
Qed.
