(* C10 proofs, part 6 (sixth round): arrays.  jsonmsgp.go:SexpToGoStructs, case *SexpArray: every element is
   converted into a FRESH zero element (reflect.New(eTyp)) and appended; the previous content of the slot is
   replaced.  Proved for ALL element types, arrays, states: element i of the result is the conversion of element i
   of the source into the zero element and of nothing else (no leakage between elements or from the old slice);
   a by-value struct element leaves every field its record does not name at the zero value; two elements with
   one record identity get the same content (the same heap object for pointer / interface elements). *)
From Coq Require Import ZArith List Bool Lia.
Import ListNotations.
Require Import ZV.Model.GoConv ZV.Model.GoConvSpec ZV.Proofs.GoConvProofs ZV.Proofs.GoConvShare.
Open Scope Z_scope.

Definition st_le (a b : state) : Prop := cache_le a b /\ heap_le a b.

Lemma st_le_refl : forall a, st_le a a.
Proof. intro a. split; [intros id e H; exact H|exists []; rewrite app_nil_r; reflexivity]. Qed.

Lemma st_le_trans : forall a b c, st_le a b -> st_le b c -> st_le a c.
Proof.
  intros a b c [C1 H1] [C2 H2]. split; [intros id e H; apply C2, C1, H|eapply heap_le_trans; eassumption].
Qed.

Lemma ext_st_le : forall P a b, ext P a b -> st_le a b.
Proof. intros P a b (C & H & _). split; assumption. Qed.

(* splitting a successful fold at position i *)
Lemma conv_list_split : forall A B (F : A -> state -> res (B * state)) l st bs st' i a,
    conv_list F l st = Ok (bs, st') -> nth_error l i = Some a ->
    exists l1 l2 bs1 sta b stb bs2,
      l = l1 ++ a :: l2 /\ length l1 = i /\ conv_list F l1 st = Ok (bs1, sta) /\ F a sta = Ok (b, stb) /\
      conv_list F l2 stb = Ok (bs2, st') /\ bs = bs1 ++ b :: bs2 /\ length bs1 = i.
Proof.
  induction l as [|x l IH]; intros st bs st' i a H Hn; [destruct i; discriminate|].
  simpl in H. destruct (F x st) as [[y st1]| | | |] eqn:E1; simpl in H; try discriminate.
  destruct (conv_list F l st1) as [[ys st2]| | | |] eqn:E2; simpl in H; try discriminate.
  inversion H; subst. destruct i as [|i]; simpl in Hn.
  - inversion Hn; subst. exists [], l, [], st, y, st1, ys. repeat split; try reflexivity; assumption.
  - destruct (IH _ _ _ _ _ E2 Hn) as (l1 & l2 & bs1 & sta & b & stb & bs2 & Hl & Hlen & H1 & Ha & H2 & Hbs & Hlb).
    exists (x :: l1), l2, (y :: bs1), sta, b, stb, bs2. subst. repeat split; try reflexivity.
    + simpl. rewrite E1. simpl. rewrite H1. reflexivity.
    + exact Ha.
    + exact H2.
    + simpl. rewrite Hlb. reflexivity.
Qed.

Lemma conv_list_length : forall A B (F : A -> state -> res (B * state)) l st bs st',
    conv_list F l st = Ok (bs, st') -> length bs = length l.
Proof.
  induction l as [|x l IH]; intros st bs st' H; simpl in H; [inversion H; reflexivity|].
  destruct (F x st) as [[y st1]| | | |]; simpl in H; try discriminate.
  destruct (conv_list F l st1) as [[ys st2]| | | |] eqn:E2; simpl in H; try discriminate.
  inversion H; subst. simpl. f_equal. eapply IH. exact E2.
Qed.

Lemma conv_list_st_le : forall A B (F : A -> state -> res (B * state)) l,
    (forall a st b st', F a st = Ok (b, st') -> st_le st st') ->
    forall st bs st', conv_list F l st = Ok (bs, st') -> st_le st st'.
Proof.
  induction l as [|x l IH]; intros HF st bs st' H; simpl in H; [inversion H; subst; apply st_le_refl|].
  destruct (F x st) as [[y st1]| | | |] eqn:E1; simpl in H; try discriminate.
  destruct (conv_list F l st1) as [[ys st2]| | | |] eqn:E2; simpl in H; try discriminate.
  inversion H; subst. eapply st_le_trans; [eapply HF; exact E1|eapply IH; [exact HF|exact E2]].
Qed.

Lemma nth_error_mid : forall A (l1 : list A) b l2, nth_error (l1 ++ b :: l2) (length l1) = Some b.
Proof. induction l1 as [|x l1 IH]; intros b l2; simpl; [reflexivity|apply IH]. Qed.

Lemma conv_slice_inv : forall f te top et cur l st v st',
    conv (S f) te top (TSlice et) cur (SArr l) st = Ok (v, st') ->
    exists z vs, zero_of f te et = Some z /\ v = GSlice vs /\
                 conv_list (fun e st0 => conv f te false et z e st0) l st = Ok (vs, st').
Proof.
  intros f te top et cur l st v st' H. simpl in H.
  destruct (zero_of f te et) as [z|] eqn:Ez; [|discriminate].
  destruct (conv_list (fun e st0 => conv f te false et z e st0) l st) as [[vs st1]| | | |] eqn:E; simpl in H; try discriminate.
  inversion H; subst. exists z, vs. split; [reflexivity|]. split; [reflexivity|exact E].
Qed.

(* element i of the result = the conversion of element i of the source into a fresh zero element, started in a
   state that extends the state before the array and is extended by the state after it; nothing else of the
   array, and nothing of the slot's previous content cur, enters it *)
Theorem slice_elements_pointwise_full : forall f te top et cur l st v st',
    conv (S f) te top (TSlice et) cur (SArr l) st = Ok (v, st') ->
    exists z vs, zero_of f te et = Some z /\ v = GSlice vs /\ length vs = length l /\
      forall i e, nth_error l i = Some e ->
        exists x sta stb, nth_error vs i = Some x /\ conv f te false et z e sta = Ok (x, stb) /\
                          st_le st sta /\ st_le stb st'.
Proof.
  intros f te top et cur l st v st' H.
  destruct (conv_slice_inv _ _ _ _ _ _ _ _ _ H) as (z & vs & Hz & Hv & Hl).
  exists z, vs. split; [exact Hz|]. split; [exact Hv|]. split; [eapply conv_list_length; exact Hl|].
  intros i e Hn.
  destruct (conv_list_split _ _ _ _ _ _ _ _ _ Hl Hn) as (l1 & l2 & bs1 & sta & b & stb & bs2 & Hsplit & Hlen & H1 & Ha & H2 & Hbs & Hlb).
  exists b, sta, stb. split; [subst vs i; rewrite <- Hlb; apply nth_error_mid|]. split; [exact Ha|].
  assert (HF : forall a st0 b0 st0', conv f te false et z a st0 = Ok (b0, st0') -> st_le st0 st0').
  { intros a st0 b0 st0' Hc. eapply ext_st_le. eapply conv_ext. exact Hc. }
  split; eapply conv_list_st_le; try eassumption; exact HF.
Qed.

(* the previous content of the slot does not matter *)
Theorem slice_replaces_previous_content : forall fuel te top top' et cur cur' l st,
    conv fuel te top (TSlice et) cur (SArr l) st = conv fuel te top' (TSlice et) cur' (SArr l) st.
Proof. intros. destruct fuel; reflexivity. Qed.

(* a by-value struct element given by a record seen for the first time: every field path the record does not name
   holds what the fresh zero element holds there — later elements that omit fields do not inherit them from
   earlier elements *)
Theorem slice_struct_element_unnamed_zero : forall f te top sname cur l st v st' i id tn fs d,
    conv (S (S f)) te top (TSlice (TStruct sname)) cur (SArr l) st = Ok (v, st') ->
    nth_error l i = Some (SRec id tn fs) -> find_reg te tn = Some d ->
    exists z vs x sta stb,
      zero_of (S f) te (TStruct sname) = Some z /\ v = GSlice vs /\ nth_error vs i = Some x /\
      conv (S f) te false (TStruct sname) z (SRec id tn fs) sta = Ok (x, stb) /\ st_le st sta /\
      (cache_find id sta = None ->
       forall q, (forall p, In p (res_paths (resolve_key f te (s_name d)) fs) -> is_prefix p q = false /\ is_prefix q p = false) ->
                 get_path x q = get_path z q).
Proof.
  intros f te top sname cur l st v st' i id tn fs d H Hn Hreg.
  destruct (slice_elements_pointwise_full _ _ _ _ _ _ _ _ _ H) as (z & vs & Hz & Hv & _ & Hall).
  destruct (Hall _ _ Hn) as (x & sta & stb & Hx & Hc & Hle & _).
  exists z, vs, x, sta, stb.
  split; [exact Hz|]. split; [exact Hv|]. split; [exact Hx|]. split; [exact Hc|]. split; [exact Hle|].
  intros Hmiss q Hq. eapply struct_slot_keeps_untouched; eassumption.
Qed.

(* two elements of one array that are records with one identity: the same content (for []*T and []Iface the same
   heap object) — (a b a) *)
Theorem slice_equal_ids_share : forall f te top et cur l st v st' i j id tn1 fs1 tn2 fs2,
    et <> TUnsupported -> acyclic (SArr l) = true ->
    conv (S f) te top (TSlice et) cur (SArr l) st = Ok (v, st') ->
    nth_error l i = Some (SRec id tn1 fs1) -> nth_error l j = Some (SRec id tn2 fs2) ->
    exists vs x, v = GSlice vs /\ nth_error vs i = Some x /\ nth_error vs j = Some x.
Proof.
  intros f te top et cur l st v st' i j id tn1 fs1 tn2 fs2 Hun Hac H Hi Hj.
  destruct (conv_slice_inv _ _ _ _ _ _ _ _ _ H) as (z & vs & Hz & Hv & Hl).
  destruct (conv_list_split _ _ _ _ _ _ _ _ _ Hl Hi) as (l1 & l2 & bs1 & sta & b & stb & bs2 & Hsplit & Hlen & H1 & Ha & H2 & Hbs & Hlb).
  destruct (conv_list_split _ _ _ _ _ _ _ _ _ Hl Hj) as (l1' & l2' & bs1' & sta' & b' & stb' & bs2' & Hsplit' & Hlen' & H1' & Ha' & H2' & Hbs' & Hlb').
  set (root := mkCall (S f) top (TSlice et) cur (SArr l) st v st').
  set (c1 := mkCall f false et z (SRec id tn1 fs1) sta b stb).
  set (c2 := mkCall f false et z (SRec id tn2 fs2) sta' b' stb').
  assert (Hroot : ok te root) by exact H.
  assert (S1 : subs te root c1).
  { eapply subs_step; [apply subs_refl| |exact Ha]. unfold root, c1. rewrite Hsplit. eapply sub_slice; eassumption. }
  assert (S2 : subs te root c2).
  { eapply subs_step; [apply subs_refl| |exact Ha']. unfold root, c2. rewrite Hsplit'. eapply sub_slice; eassumption. }
  assert (Heq : c_v c1 = c_v c2).
  { eapply (to_go_shares_full te root c1 c2); try reflexivity; try assumption. }
  simpl in Heq. subst b'.
  exists vs, b. split; [exact Hv|]. split.
  - rewrite Hbs, <- Hlb. apply nth_error_mid.
  - rewrite Hbs', <- Hlb'. apply nth_error_mid.
Qed.
