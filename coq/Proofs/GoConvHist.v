(* C10 proofs, part 3: histories (convert, change the record, convert again; receiver calls). *)
From Coq Require Import ZArith List Bool.
Import ListNotations.
Require Import ZV.Model.GoConv ZV.Model.GoConvSpec ZV.Proofs.GoConvProofs ZV.Proofs.GoConvShare.
Open Scope Z_scope.

(* the conversion steps of a history; each carries the record tree AS IT IS at that moment (the script's hset
   steps between them only change which tree the next step sees) *)
Inductive hop :=
| HTogo (id : Z) (tname : str) (r : sx)     (* (togo r) *)
| HPass (id : Z) (tname : str) (r : sx)     (* r passed as argument to a Go method *)
| HRecv (id : Z) (tname : str) (r : sx).    (* a Go method called on r *)

Definition hstate : Type := list goval * shadows.

(* a failed step leaves nothing behind *)
Definition hist_step (fuel : nat) (te : tenv) (hs : hstate) (op : hop) : hstate :=
  match op with
  | HTogo id tname r => match hist_convert fuel te true tname id r (fst hs) (snd hs) with Ok (_, s') => s' | _ => hs end
  | HPass id tname r => match hist_convert fuel te false tname id r (fst hs) (snd hs) with Ok (_, s') => s' | _ => hs end
  | HRecv id tname r => match hist_receiver fuel te tname id r (fst hs) (snd hs) with Ok (_, s') => s' | _ => hs end
  end.

Definition hist_run (fuel : nat) (te : tenv) (ops : list hop) : hstate := fold_left (hist_step fuel te) ops ([], []).

(* whatever heap and shadow table a history has produced: an explicit conversion of a record attaches an object to
   it in which every field of the record AS IT IS NOW holds the conversion of the record's current value *)
Lemma hist_convert_reflects : forall f te tname id tn fs h sh d loc h' sh',
    find_reg te tn = Some d -> s_name d = tname ->
    hist_convert (S f) te true tname id (SRec id tn fs) h sh = Ok (GPtr (Some loc), (h', sh')) ->
    paths_independent (res_paths (resolve_key f te tname) fs) = true ->
    shadow_find id sh' = Some loc /\
    exists obj, nth_error h' loc = Some obj /\
      forall k v, In (k, v) fs ->
        exists path sty curv st1 nv st2,
          resolve_key f te tname k = Some path /\ type_at te (TStruct tname) path = Some sty /\
          conv f te false sty curv v st1 = Ok (nv, st2) /\ get_path obj path = Some nv.
Proof.
  intros f te tname id tn fs h sh d loc h' sh' Hr Hn H Hind. subst tname.
  unfold hist_convert in H. cbv beta iota in H.
  assert (Hcore : forall cur b st1,
             conv (S f) te true (TStruct (s_name d)) cur (SRec id tn fs) (mkSt h []) = Ok (b, st1) ->
             forall k v, In (k, v) fs ->
               exists path sty curv st2 nv st3,
                 resolve_key f te (s_name d) k = Some path /\ type_at te (TStruct (s_name d)) path = Some sty /\
                 conv f te false sty curv v st2 = Ok (nv, st3) /\ get_path b path = Some nv).
  { intros cur b st1 Ec.
    assert (Hmiss : cache_find id (mkSt h []) = None) by reflexivity.
    destruct (conv_rec_miss_inv _ _ _ _ _ _ _ _ _ _ _ Hmiss Ec) as (d' & bty & base & b0 & st0 & Hr' & Hb & Hfold & Hfin).
    rewrite Hr in Hr'. inversion Hr'; subst d'. simpl in Hb. inversion Hb; subst bty base.
    simpl in Hfin. inversion Hfin; subst b0 st0.
    exact (fill_fields_land _ _ _ _ _ _ _ _ _ Hfold Hind). }
  destruct (shadow_find id sh) as [loc0|] eqn:Esh; [destruct (nth_error h loc0) as [old|] eqn:Eold|].
  - destruct (conv (S f) te true (TStruct (s_name d)) old (SRec id tn fs) (mkSt h [])) as [[b st1]| | | |] eqn:Ec;
      simpl in H; try discriminate.
    destruct (set_nth (heap st1) loc0 b) as [hh|] eqn:Es; [|discriminate]. inversion H; subst.
    split; [unfold shadow_find; simpl; rewrite Z.eqb_refl; reflexivity|].
    exists b. split; [eapply set_nth_same; exact Es|]. eapply Hcore. exact Ec.
  - destruct (zero_of (S f) te (TStruct (s_name d))) as [z|]; [|discriminate].
    destruct (conv (S f) te true (TStruct (s_name d)) z (SRec id tn fs) (mkSt h [])) as [[b st1]| | | |] eqn:Ec;
      simpl in H; try discriminate.
    inversion H; subst.
    split; [unfold shadow_find; simpl; rewrite Z.eqb_refl; reflexivity|].
    exists b. split; [rewrite nth_error_app2 by apply le_n; rewrite Nat.sub_diag; reflexivity|]. eapply Hcore. exact Ec.
  - destruct (zero_of (S f) te (TStruct (s_name d))) as [z|]; [|discriminate].
    destruct (conv (S f) te true (TStruct (s_name d)) z (SRec id tn fs) (mkSt h [])) as [[b st1]| | | |] eqn:Ec;
      simpl in H; try discriminate.
    inversion H; subst.
    split; [unfold shadow_find; simpl; rewrite Z.eqb_refl; reflexivity|].
    exists b. split; [rewrite nth_error_app2 by apply le_n; rewrite Nat.sub_diag; reflexivity|]. eapply Hcore. exact Ec.
Qed.

Theorem hist_reflects_current : forall f te ops tname id tn fs d loc h' sh',
    find_reg te tn = Some d -> s_name d = tname ->
    hist_convert (S f) te true tname id (SRec id tn fs) (fst (hist_run (S f) te ops)) (snd (hist_run (S f) te ops))
      = Ok (GPtr (Some loc), (h', sh')) ->
    paths_independent (res_paths (resolve_key f te tname) fs) = true ->
    shadow_find id sh' = Some loc /\
    exists obj, nth_error h' loc = Some obj /\
      forall k v, In (k, v) fs ->
        exists path sty curv st1 nv st2,
          resolve_key f te tname k = Some path /\ type_at te (TStruct tname) path = Some sty /\
          conv f te false sty curv v st1 = Ok (nv, st2) /\ get_path obj path = Some nv.
Proof. intros. eapply hist_convert_reflects; eassumption. Qed.

(* a receiver call on a record to which nothing is attached is such an explicit conversion; with an object attached
   it converts nothing and changes nothing *)
Theorem hist_receiver_unattached : forall fuel te tname id r h sh,
    shadow_find id sh = None -> hist_receiver fuel te tname id r h sh = hist_convert fuel te true tname id r h sh.
Proof. intros. unfold hist_receiver. rewrite H. reflexivity. Qed.

Theorem hist_receiver_attached : forall fuel te tname id r h sh loc,
    shadow_find id sh = Some loc -> hist_receiver fuel te tname id r h sh = Ok (GPtr (Some loc), (h, sh)).
Proof. intros. unfold hist_receiver. rewrite H. reflexivity. Qed.

(* a failed conversion leaves nothing behind *)
Theorem hist_failed_step_leaves_nothing : forall fuel te hs id tname r,
    (forall x, hist_convert fuel te true tname id r (fst hs) (snd hs) <> Ok x) ->
    hist_step fuel te hs (HTogo id tname r) = hs.
Proof.
  intros. simpl. destruct (hist_convert fuel te true tname id r (fst hs) (snd hs)) as [[v s']| | | |] eqn:E; try reflexivity.
  exfalso. eapply H. reflexivity.
Qed.
