(* C10 proofs, part 7 (sixth round): conv follows the (value kind x slot kind) table GoConvKinds.kind_table on
   every one of the 169 pairs, for ALL values of the kind, slot types of the kind, slot contents, states and
   positive fuel; the table agrees with the specification except on the listed holes. *)
From Coq Require Import ZArith List Bool Lia.
Import ListNotations.
Require Import ZV.Model.GoConv ZV.Model.GoConvSpec ZV.Model.GoConvKinds ZV.Proofs.GoConvProofs ZV.Proofs.GoConvRound.
Open Scope Z_scope.

(* a record / hash seen before is answered from the dedup cache whatever the slot: the table speaks about first
   conversions *)
Definition first_seen (s : sx) (st : state) : Prop :=
  match s with SRec id _ _ | SHash id _ => cache_find id st = None | _ => True end.

Definition follows (f : nat) (te : tenv) (top : bool) (ty : gotype) (cur : goval) (s : sx) (st : state) (v : verdict) : Prop :=
  match v with
  | VAccept => exists x, conv (S f) te top ty cur s st = Ok (x, st) /\
                         forall top' cur' st2, conv (S f) te top' ty cur' s st2 = Ok (x, st2)
  | VReject => conv (S f) te top ty cur s st = Err
  | VKeeps => conv (S f) te top ty cur s st = Ok (cur, st)
  | VZero => exists z, zero_of f te ty = Some z /\ conv (S f) te top ty cur s st = Ok (z, st)
  | VSilent => conv (S f) te top ty cur s st = OutOfModel
  | VDepends => True
  end.

Theorem kind_table_total_lemma : forall f te top ty cur s st,
    first_seen s st -> follows f te top ty cur s st (kind_table (skind_of s) (tkind_of ty)).
Proof.
  intros f te top ty cur s st Hfs.
  destruct s; destruct ty; simpl in *; try reflexivity; try exact I;
    try (rewrite Hfs; reflexivity);
    try (eexists; split; [reflexivity|intros; reflexivity]);
    try (eexists; split; reflexivity).
  (* int into float64: float_bits_of_int is total *)
  all: try (destruct (float_bits_total z) as [b Hb]; rewrite Hb; eexists; split; [reflexivity|intros; reflexivity]).
  all: try (destruct f; simpl; eexists; split; reflexivity).
Qed.

(* the table against the specification (denote), on the kinds the table decides *)
(* no value the specification accepts is refused by the table *)
Lemma table_reject_spec_rejects : forall f te ty s v,
    kind_table (skind_of s) (tkind_of ty) = VReject -> denote (S f) te ty s <> SOk v.
Proof.
  intros f te ty s v H.
  destruct s; destruct ty; simpl in H; try discriminate; simpl; try discriminate.
  all: try (destruct ty; discriminate).
  all: try (destruct (exact_int_of_float bits); discriminate).
  all: try (destruct l; discriminate).
Qed.

Lemma spec_rejects_table : forall f te ty s c,
    is_scalar s = true -> ty <> TUnsupported -> denote (S f) te ty s = SErr c ->
    kind_table (skind_of s) (tkind_of ty) = VReject \/ table_hole (skind_of s) (tkind_of ty) = true.
Proof.
  intros f te ty s c Hs Hun H.
  destruct s; simpl in Hs; try discriminate; destruct ty; try (exfalso; apply Hun; reflexivity);
    simpl in *; try discriminate; try (left; reflexivity); try (right; reflexivity).
  all: try (destruct (exactly_representable z); [destruct (float_bits_of_int z)|]; discriminate).
Qed.
