(* C10 proofs, part 5 (sixth round): the field table hashutils.go:fillJsonMap builds (GoConv.jsonmap), for ANY
   type table and ANY depth of embedding: every entry's EmbedPath leads to the field the entry was made from
   (sound), every field reachable through embedded structs has its entry (complete), and no two entries have the
   same path (distinct fields never share an EmbedPath: the "cross talk between paths" the copy in fillJsonMap
   avoids).  Consequences for key resolution (resolve). *)
From Coq Require Import ZArith List Bool Lia.
Import ListNotations.
Require Import ZV.Model.GoConv ZV.Model.GoConvSpec ZV.Proofs.GoConvProofs.
Open Scope Z_scope.

(* the field a path of field indices designates, walking through EMBEDDED struct fields only (Go promotion) *)
Fixpoint field_at (te : tenv) (s : str) (q : list nat) : option field :=
  match q with
  | [] => None
  | i :: r =>
    match find_struct te s with
    | None => None
    | Some d =>
      match nth_error (s_fields d) i with
      | None => None
      | Some fld =>
        match r with
        | [] => Some fld
        | _ => if f_emb fld then match f_type fld with TStruct s' => field_at te s' r | _ => None end else None
        end
      end
    end
  end.

Lemma field_at_nonempty : forall te s q fld, field_at te s q = Some fld -> q <> [].
Proof. intros te s [|i r] fld H; [discriminate|discriminate]. Qed.

Lemma field_at_type : forall te q s fld, field_at te s q = Some fld -> type_at te (TStruct s) q = Some (f_type fld).
Proof.
  induction q as [|i r IH]; intros s fld H; [discriminate|].
  simpl in H. simpl. destruct (find_struct te s) as [d|]; [|discriminate].
  destruct (nth_error (s_fields d) i) as [f0|]; [|discriminate].
  destruct r as [|j r'].
  - inversion H; subst. reflexivity.
  - destruct (f_emb f0); [|discriminate]. destruct (f_type f0) eqn:Et; try discriminate.
    apply IH. exact H.
Qed.

(* ---- one struct level ------------------------------------------------------------------------ *)

Lemma jsonmap_fields_in : forall rec_ prefix fl i k p,
    In (k, p) (jsonmap_fields rec_ prefix i fl) ->
    exists j fld0, nth_error fl j = Some fld0 /\
      ((p = prefix ++ [(i + j)%nat] /\ k = key_of fld0) \/
       (f_emb fld0 = true /\ exists s', f_type fld0 = TStruct s' /\ In (k, p) (rec_ s' (prefix ++ [(i + j)%nat])))).
Proof.
  induction fl as [|fld r IH]; intros i k p H; simpl in H; [contradiction|].
  destruct H as [H | H].
  - inversion H; subst. exists O, fld. split; [reflexivity|]. left. rewrite Nat.add_0_r. split; reflexivity.
  - apply in_app_or in H. destruct H as [H | H].
    + exists O, fld. split; [reflexivity|]. right. rewrite Nat.add_0_r.
      destruct (f_emb fld); [|contradiction]. split; [reflexivity|].
      destruct (f_type fld) eqn:Et; try contradiction. exists s. split; [reflexivity|exact H].
    + destruct (IH _ _ _ H) as (j & fld0 & Hn & Hc). exists (S j), fld0. split; [exact Hn|].
      replace (i + S j)%nat with (S i + j)%nat by lia. exact Hc.
Qed.

Lemma jsonmap_fields_own : forall rec_ prefix fl i j fld0,
    nth_error fl j = Some fld0 -> In (key_of fld0, prefix ++ [(i + j)%nat]) (jsonmap_fields rec_ prefix i fl).
Proof.
  induction fl as [|fld r IH]; intros i j fld0 H; [destruct j; discriminate|].
  destruct j as [|j]; simpl in H.
  - inversion H; subst. simpl. left. rewrite Nat.add_0_r. reflexivity.
  - simpl. right. apply in_or_app. right. replace (i + S j)%nat with (S i + j)%nat by lia. apply IH. exact H.
Qed.

Lemma jsonmap_fields_promoted : forall rec_ prefix fl i j fld0 s' e,
    nth_error fl j = Some fld0 -> f_emb fld0 = true -> f_type fld0 = TStruct s' ->
    In e (rec_ s' (prefix ++ [(i + j)%nat])) -> In e (jsonmap_fields rec_ prefix i fl).
Proof.
  induction fl as [|fld r IH]; intros i j fld0 s' e H He Ht Hin; [destruct j; discriminate|].
  destruct j as [|j]; simpl in H.
  - inversion H; subst. simpl. right. apply in_or_app. left. rewrite He, Ht. rewrite Nat.add_0_r in Hin. exact Hin.
  - simpl. right. apply in_or_app. right. replace (i + S j)%nat with (S i + j)%nat in Hin by lia.
    eapply IH; eassumption.
Qed.

(* ---- sound: every entry's path leads to the field it was made from ---------------------------- *)

Theorem jsonmap_sound : forall te fuel s prefix k p,
    In (k, p) (jsonmap fuel te s prefix) ->
    exists q fld, p = prefix ++ q /\ field_at te s q = Some fld /\ key_of fld = k.
Proof.
  induction fuel as [|f IH]; intros s prefix k p H; simpl in H; [contradiction|].
  destruct (find_struct te s) as [d|] eqn:Ed; [|contradiction].
  apply jsonmap_fields_in in H. destruct H as (j & fld0 & Hn & [[Hp Hk] | (He & s' & Ht & Hin)]).
  - exists [j], fld0. simpl in Hp. split; [exact Hp|]. split; [|symmetry; exact Hk].
    simpl. rewrite Ed, Hn. reflexivity.
  - destruct (IH _ _ _ _ Hin) as (q & fld & Hp & Hf & Hk). simpl in Hp.
    exists (j :: q), fld. split; [rewrite Hp, <- app_assoc; reflexivity|]. split; [|exact Hk].
    simpl. rewrite Ed, Hn. destruct q as [|a q']; [discriminate|]. rewrite He, Ht. exact Hf.
Qed.

(* ---- complete: every field reachable through embedded structs has its entry -------------------- *)

Theorem jsonmap_complete : forall te fuel q s prefix fld,
    field_at te s q = Some fld -> (length q <= fuel)%nat ->
    In (key_of fld, prefix ++ q) (jsonmap fuel te s prefix).
Proof.
  induction fuel as [|f IH]; intros q s prefix fld H Hl.
  - destruct q; [discriminate|simpl in Hl; lia].
  - destruct q as [|i r]; [discriminate|]. simpl in H. simpl.
    destruct (find_struct te s) as [d|]; [|discriminate].
    destruct (nth_error (s_fields d) i) as [f0|] eqn:En; [|discriminate].
    destruct r as [|a r'].
    + inversion H; subst. apply (jsonmap_fields_own _ prefix _ O i). exact En.
    + destruct (f_emb f0) eqn:He; [|discriminate]. destruct (f_type f0) eqn:Et; try discriminate.
      eapply (jsonmap_fields_promoted _ prefix _ O i); [exact En|exact He|exact Et|].
      simpl. replace (prefix ++ i :: a :: r') with ((prefix ++ [i]) ++ a :: r') by (rewrite <- app_assoc; reflexivity).
      apply IH; [exact H|simpl in Hl; simpl; lia].
Qed.

(* ---- distinct: no two entries share a path ------------------------------------------------------ *)

Lemma nodup_app : forall A (l1 l2 : list A),
    NoDup l1 -> NoDup l2 -> (forall x, In x l1 -> In x l2 -> False) -> NoDup (l1 ++ l2).
Proof.
  induction l1 as [|a l1 IH]; intros l2 H1 H2 Hd; simpl; [exact H2|].
  inversion H1; subst. constructor.
  - intro Hin. apply in_app_or in Hin. destruct Hin as [Hin | Hin]; [contradiction|].
    apply (Hd a); [left; reflexivity|exact Hin].
  - apply IH; [assumption|assumption|]. intros x Hx1 Hx2. apply (Hd x); [right; exact Hx1|exact Hx2].
Qed.

Lemma app_single_neq : forall (p : list nat) q, q <> [] -> p ++ q <> p.
Proof.
  intros p q Hq Heq. apply Hq. apply (app_inv_head p). rewrite app_nil_r. exact Heq.
Qed.

(* every path of jsonmap_fields rec_ prefix i fl continues the prefix with an index >= i *)
Lemma jsonmap_fields_shape : forall rec_ prefix,
    (forall s' p' e, In e (rec_ s' p') -> exists q, q <> [] /\ snd e = p' ++ q) ->
    forall fl i e, In e (jsonmap_fields rec_ prefix i fl) -> exists j q, snd e = prefix ++ (i + j)%nat :: q.
Proof.
  intros rec_ prefix Hr fl i [k p] H. apply jsonmap_fields_in in H.
  destruct H as (j & fld0 & _ & [[Hp _] | (_ & s' & _ & Hin)]).
  - exists j, []. exact Hp.
  - destruct (Hr _ _ _ Hin) as (q & _ & Hq). exists j, q. simpl in *. rewrite Hq, <- app_assoc. reflexivity.
Qed.

Lemma jsonmap_fields_nodup : forall rec_ prefix,
    (forall s' p' e, In e (rec_ s' p') -> exists q, q <> [] /\ snd e = p' ++ q) ->
    (forall s' p', NoDup (map snd (rec_ s' p'))) ->
    forall fl i, NoDup (map snd (jsonmap_fields rec_ prefix i fl)).
Proof.
  intros rec_ prefix Hr Hn. induction fl as [|fld r IH]; intro i; simpl; [constructor|].
  rewrite map_app. constructor.
  - (* the field's own path is not among its promoted entries nor among the later fields *)
    intro Hin. apply in_app_or in Hin. destruct Hin as [Hin | Hin].
    + apply in_map_iff in Hin. destruct Hin as (e & He & Hin).
      destruct (f_emb fld); [|contradiction]. destruct (f_type fld); try contradiction.
      destruct (Hr _ _ _ Hin) as (q & Hq & Hs). rewrite Hs in He. exact (app_single_neq _ _ Hq He).
    + apply in_map_iff in Hin. destruct Hin as (e & He & Hin).
      destruct (jsonmap_fields_shape rec_ prefix Hr _ _ _ Hin) as (j & q & Hs). rewrite Hs in He.
      apply app_inv_head in He. inversion He. lia.
  - apply nodup_app.
    + destruct (f_emb fld); [|constructor]. destruct (f_type fld); try constructor. apply Hn.
    + apply IH.
    + intros x H1 H2. apply in_map_iff in H1. destruct H1 as (e1 & He1 & H1).
      apply in_map_iff in H2. destruct H2 as (e2 & He2 & H2).
      destruct (f_emb fld); [|contradiction]. destruct (f_type fld); try contradiction.
      destruct (Hr _ _ _ H1) as (q & Hq & Hs1).
      destruct (jsonmap_fields_shape rec_ prefix Hr _ _ _ H2) as (j & q2 & Hs2).
      rewrite <- He2, Hs2, Hs1, <- app_assoc in He1. apply app_inv_head in He1. inversion He1. lia.
Qed.

Lemma jsonmap_shape : forall te fuel s prefix e,
    In e (jsonmap fuel te s prefix) -> exists q, q <> [] /\ snd e = prefix ++ q.
Proof.
  intros te fuel s prefix [k p] H. destruct (jsonmap_sound _ _ _ _ _ _ H) as (q & fld & Hp & Hf & _).
  exists q. split; [eapply field_at_nonempty; exact Hf|exact Hp].
Qed.

Theorem jsonmap_paths_nodup : forall te fuel s prefix, NoDup (map snd (jsonmap fuel te s prefix)).
Proof.
  induction fuel as [|f IH]; intros s prefix; simpl; [constructor|].
  destruct (find_struct te s) as [d|]; [|constructor].
  apply jsonmap_fields_nodup.
  - intros s' p' e. apply jsonmap_shape.
  - intros s' p'. apply IH.
Qed.

(* two entries of the table with one path are one entry: the field they were made from, hence key and type, agree *)
Lemma nodup_snd_inj : forall A B (l : list (A * B)) a1 a2 b,
    NoDup (map snd l) -> In (a1, b) l -> In (a2, b) l -> a1 = a2.
Proof.
  induction l as [|[a b0] l IH]; intros a1 a2 b Hn H1 H2; [contradiction|].
  simpl in Hn. inversion Hn; subst.
  destruct H1 as [H1 | H1]; destruct H2 as [H2 | H2].
  - inversion H1; inversion H2; subst. reflexivity.
  - inversion H1; subst. exfalso. apply H3. apply in_map_iff. exists (a2, b). split; [reflexivity|exact H2].
  - inversion H2; subst. exfalso. apply H3. apply in_map_iff. exists (a1, b). split; [reflexivity|exact H1].
  - eapply IH; eassumption.
Qed.

Theorem jsonmap_path_determines_key : forall te fuel s prefix k1 k2 p,
    In (k1, p) (jsonmap fuel te s prefix) -> In (k2, p) (jsonmap fuel te s prefix) -> k1 = k2.
Proof. intros. eapply nodup_snd_inj; [apply jsonmap_paths_nodup|eassumption|eassumption]. Qed.

(* ---- key resolution -------------------------------------------------------------------------- *)

Lemma lookup_last_in : forall A k (m : list (str * A)) x, lookup_last k m = Some x -> exists k', str_eqb k' k = true /\ In (k', x) m.
Proof.
  intros A k m x H. unfold lookup_last in H.
  destruct (find (fun p => str_eqb (fst p) k) (rev m)) as [[k' x']|] eqn:E; [|discriminate].
  inversion H; subst. apply find_some in E. destruct E as [Hin Hk]. exists k'. split; [exact Hk|].
  apply in_rev. exact Hin.
Qed.

(* SexpToGoStructs' lookup (json tag / Go name, else the same with the first letter upper-cased) hands back the
   EmbedPath of a field that carries that key, and walking the path on a value of the struct type reaches a slot
   of that field's type *)
Theorem resolve_designates_field : forall fuel te s key p,
    resolve fuel te s key = Some p ->
    exists fld, field_at te s p = Some fld /\ type_at te (TStruct s) p = Some (f_type fld) /\
                (key_of fld = key \/ upper_first key = Some (key_of fld)).
Proof.
  intros fuel te s key p H. unfold resolve in H.
  destruct (lookup_last key (jsonmap fuel te s [])) as [p0|] eqn:E1.
  - inversion H; subst. apply lookup_last_in in E1. destruct E1 as (k' & Hk & Hin).
    apply str_eqb_eq in Hk. subst k'.
    destruct (jsonmap_sound _ _ _ _ _ _ Hin) as (q & fld & Hp & Hf & Hkey). simpl in Hp. subst q.
    exists fld. split; [exact Hf|]. split; [apply field_at_type; exact Hf|left; exact Hkey].
  - destruct (upper_first key) as [k2|] eqn:Eu; [|discriminate].
    apply lookup_last_in in H. destruct H as (k' & Hk & Hin). apply str_eqb_eq in Hk. subst k'.
    destruct (jsonmap_sound _ _ _ _ _ _ Hin) as (q & fld & Hp & Hf & Hkey). simpl in Hp. subst q.
    exists fld. split; [exact Hf|]. split; [apply field_at_type; exact Hf|right; rewrite Hkey; reflexivity].
Qed.

(* a field reachable through embedded structs (at any depth within the fuel) is resolved by its key, to a path
   that carries this key *)
Theorem resolve_finds_every_field : forall fuel te s q fld,
    field_at te s q = Some fld -> (length q <= fuel)%nat ->
    exists p fld', resolve fuel te s (key_of fld) = Some p /\ field_at te s p = Some fld' /\ key_of fld' = key_of fld.
Proof.
  intros fuel te s q fld H Hl. pose proof (jsonmap_complete te fuel q s [] fld H Hl) as Hin. simpl in Hin.
  unfold resolve. destruct (lookup_last (key_of fld) (jsonmap fuel te s [])) as [p|] eqn:E.
  - exists p. apply lookup_last_in in E. destruct E as (k' & Hk & Hin'). apply str_eqb_eq in Hk. subst k'.
    destruct (jsonmap_sound _ _ _ _ _ _ Hin') as (q' & fld' & Hp & Hf & Hkey). simpl in Hp. subst q'.
    exists fld'. split; [reflexivity|]. split; assumption.
  - exfalso. unfold lookup_last in E.
    destruct (find (fun p => str_eqb (fst p) (key_of fld)) (rev (jsonmap fuel te s []))) eqn:Ef; [discriminate|].
    apply in_rev in Hin. apply (find_none _ _ Ef (key_of fld, q)) in Hin.
    simpl in Hin. rewrite str_eqb_refl in Hin. discriminate.
Qed.
