(* C10 proofs about the model GoConv (record -> Go struct conversion). *)
From Coq Require Import ZArith List Bool.
Import ListNotations.
Require Import ZV.Model.GoConv ZV.Model.GoConvSpec.
Open Scope Z_scope.

(* ---- basic facts ------------------------------------------------------------------ *)

Lemma str_eqb_refl : forall s, str_eqb s s = true.
Proof. induction s as [|c s IH]; simpl; [reflexivity|]. rewrite Z.eqb_refl, IH. reflexivity. Qed.

Lemma str_eqb_eq : forall a b, str_eqb a b = true <-> a = b.
Proof.
  induction a as [|x a IH]; destruct b as [|y b]; simpl; split; intro H; try reflexivity; try discriminate.
  - apply andb_true_iff in H. destruct H as [H1 H2]. apply Z.eqb_eq in H1. apply IH in H2. subst. reflexivity.
  - inversion H; subst. rewrite Z.eqb_refl. simpl. apply IH. reflexivity.
Qed.

Lemma gotype_eqb_refl : forall t, gotype_eqb t t = true.
Proof. induction t; simpl; try reflexivity; try apply str_eqb_refl; assumption. Qed.

Lemma gotype_eqb_eq : forall a b, gotype_eqb a b = true -> a = b.
Proof.
  induction a; destruct b; simpl; intro H; try reflexivity; try discriminate;
    try (apply str_eqb_eq in H; subst; reflexivity);
    try (apply IHa in H; subst; reflexivity).
Qed.

Lemma cache_find_add_same : forall id ty v st, cache_find id (cache_add id ty v st) = Some (ty, v).
Proof. intros. unfold cache_find, cache_add. simpl. rewrite Z.eqb_refl. reflexivity. Qed.

Lemma cache_find_alloc : forall id v st, cache_find id (snd (alloc v st)) = cache_find id st.
Proof. intros. reflexivity. Qed.

(* ---- wrong kind: the case table of the scalar kinds --------------------------------- *)

(* value kinds that are not containers / records *)
Definition is_scalar (s : sx) : bool :=
  match s with
  | SInt _ | SFloat _ | SStr _ | SSym _ | SBool _ | SRaw _ | STime _ | SChar _ | SUint _ => true
  | _ => false
  end.

(* the (value kind, field type) pairs the specification accepts for scalars *)
Definition scalar_fits (s : sx) (ty : gotype) : bool :=
  match s, ty with
  | SInt _, (TInt | TGoInt | TFloat) => true
  | SFloat _, TFloat => true
  | (SStr _ | SSym _), TString => true
  | SBool _, TBool => true
  | SRaw _, TBytes => true
  | STime _, TTime => true
  | _, _ => false
  end.

(* the two holes of the real code: a uint64 is silently ignored, a float64 is truncated into an int64 field *)
Definition hole (s : sx) (ty : gotype) : bool :=
  match s, ty with
  | SUint _, _ => true
  | SFloat _, TInt => true
  | _, _ => false
  end.

Lemma wrong_kind_scalar : forall fuel te top ty cur s st r,
    is_scalar s = true -> scalar_fits s ty = false -> hole s ty = false ->
    conv fuel te top ty cur s st <> Ok r.
Proof.
  intros fuel te top ty cur s st r Hs Hf Hh.
  destruct fuel as [|f]; [simpl; discriminate|].
  destruct s; simpl in Hs; try discriminate; destruct ty; simpl in *; try discriminate.
Qed.

(* a container (array, record, hash) in a scalar-typed slot is an error as well, except the documented
   record-into-string case which the model leaves out (OutOfModel) *)
Definition scalar_type (ty : gotype) : bool :=
  match ty with TInt | TGoInt | TFloat | TString | TBool | TTime => true | _ => false end.

Lemma wrong_kind_container : forall fuel te top ty cur s st r,
    scalar_type ty = true ->
    match s with SArr _ => True | SRec id _ _ | SHash id _ => cache_find id st = None | _ => False end ->
    conv fuel te top ty cur s st <> Ok r.
Proof.
  intros fuel te top ty cur s st r Ht Hs.
  destruct fuel as [|f]; [simpl; discriminate|].
  destruct s; try contradiction.
  - destruct ty; simpl in *; try discriminate.
  - destruct ty; simpl in Ht; try discriminate; simpl; rewrite Hs; simpl; try discriminate.
  - destruct ty; simpl in Ht; try discriminate; simpl; rewrite Hs; simpl; discriminate.
Qed.

(* a record whose registered Go type is not the slot's struct type / does not implement the slot's interface *)
Lemma wrong_record_type : forall f te ty cur id tn fs st d r,
    cache_find id st = None -> find_reg te tn = Some d ->
    match ty with
    | TPtr s | TStruct s => str_eqb s (s_name d) = false
    | TIface i => implements te (s_name d) i = false
    | _ => False
    end ->
    conv (S f) te false ty cur (SRec id tn fs) st <> Ok r.
Proof.
  intros f te ty cur id tn fs st d r Hc Hr Hm.
  destruct ty; try contradiction; simpl; rewrite Hc; simpl; rewrite Hr; simpl; rewrite Hm; discriminate.
Qed.

Lemma unregistered_record_type : forall f te top ty cur id tn fs st r,
    cache_find id st = None -> find_reg te tn = None ->
    conv (S f) te top ty cur (SRec id tn fs) st <> Ok r.
Proof.
  intros f te top ty cur id tn fs st r Hc Hr.
  destruct ty; simpl; try discriminate; rewrite Hc; simpl; try discriminate; rewrite Hr; discriminate.
Qed.

(* ---- unknown field -------------------------------------------------------------------- *)

Lemma fill_sticky : forall res_ te bty cv l acc,
    (forall r, acc <> Ok r) -> forall r, fold_left (fill_step res_ te bty cv) l acc <> Ok r.
Proof.
  induction l as [|kv l IH]; intros acc Hacc r; simpl; [apply Hacc|].
  apply IH. intros r0. destruct acc; simpl; try discriminate. exfalso. eapply Hacc. reflexivity.
Qed.

Lemma fill_unresolved : forall res_ te bty cv l k v,
    In (k, v) l -> res_ k = None ->
    forall acc r, fold_left (fill_step res_ te bty cv) l acc <> Ok r.
Proof.
  induction l as [|kv l IH]; intros k v Hin Hres acc r; [contradiction|].
  simpl. destruct Hin as [Heq | Hin].
  - subst kv. apply fill_sticky. intros r0.
    destruct acc as [[b st1]| | | |]; simpl; try discriminate. rewrite Hres. simpl. discriminate.
  - eapply IH; eassumption.
Qed.

Theorem unknown_field_err : forall f te top ty cur id tn fs st d k v r,
    cache_find id st = None -> find_reg te tn = Some d ->
    In (k, v) fs -> resolve_key f te (s_name d) k = None ->
    conv (S f) te top ty cur (SRec id tn fs) st <> Ok r.
Proof.
  intros f te top ty cur id tn fs st d k v r Hc Hr Hin Hres.
  pose proof (fill_unresolved (resolve_key f te (s_name d)) te) as HF.
  destruct ty; simpl; try discriminate; rewrite Hc; simpl; try discriminate; rewrite Hr; simpl.
  - (* TPtr *)
    destruct (str_eqb s (s_name d)); [|discriminate].
    destruct (zero_of f te (TStruct (s_name d))); [|discriminate].
    match goal with |- context [fold_left ?F fs ?A] => destruct (fold_left F fs A) as [[b st1]| | | |] eqn:E end;
      simpl; try discriminate.
    exfalso. eapply HF; eassumption.
  - (* TStruct *)
    destruct (top || str_eqb s (s_name d)); [|discriminate].
    match goal with |- context [fold_left ?F fs ?A] => destruct (fold_left F fs A) as [[b st1]| | | |] eqn:E end;
      simpl; try discriminate.
    exfalso. eapply HF; eassumption.
  - (* TIface *)
    destruct (implements te (s_name d) i); [|discriminate].
    destruct (zero_of f te (TStruct (s_name d))); [|discriminate].
    match goal with |- context [fold_left ?F fs ?A] => destruct (fold_left F fs A) as [[b st1]| | | |] eqn:E end;
      simpl; try discriminate.
    exfalso. eapply HF; eassumption.
Qed.

(* ---- sharing: the dedup cache --------------------------------------------------------- *)

Lemma conv_hit : forall f te top ty cur id tn fs st v,
    ty <> TUnsupported ->
    cache_find id st = Some (ty, v) ->
    conv (S f) te top ty cur (SRec id tn fs) st = Ok (v, st).
Proof.
  intros f te top ty cur id tn fs st v Hty Hc.
  destruct ty; try congruence; simpl; rewrite Hc; unfold assign; simpl;
    rewrite ?str_eqb_refl, ?gotype_eqb_refl; reflexivity.
Qed.

Lemma conv_rec_caches : forall f te ty cur id tn fs st v st',
    cache_find id st = None ->
    conv (S f) te false ty cur (SRec id tn fs) st = Ok (v, st') ->
    cache_find id st' = Some (ty, v).
Proof.
  intros f te ty cur id tn fs st v st' Hc H.
  destruct ty; simpl in H; try discriminate; rewrite Hc in H; simpl in H; try discriminate;
    destruct (find_reg te tn) as [d|]; try discriminate; simpl in H.
  - destruct (str_eqb s (s_name d)); [|discriminate].
    destruct (zero_of f te (TStruct (s_name d))); [|discriminate].
    match type of H with context [fold_left ?F fs ?A] => destruct (fold_left F fs A) as [[b st1]| | | |] end;
      simpl in H; try discriminate.
    inversion H; subst. apply cache_find_add_same.
  - destruct (str_eqb s (s_name d)); simpl in H; [|discriminate].
    match type of H with context [fold_left ?F fs ?A] => destruct (fold_left F fs A) as [[b st1]| | | |] end;
      simpl in H; try discriminate.
    inversion H; subst. apply cache_find_add_same.
  - destruct (implements te (s_name d) i); [|discriminate].
    destruct (zero_of f te (TStruct (s_name d))); [|discriminate].
    match type of H with context [fold_left ?F fs ?A] => destruct (fold_left F fs A) as [[b st1]| | | |] end;
      simpl in H; try discriminate.
    inversion H; subst. apply cache_find_add_same.
Qed.

(* the next reference to the same record (same identity) in a slot of the same type gets the same content —
   for a pointer or interface slot: the same pointer — and neither allocates nor changes the state *)
Theorem shares_next : forall f te ty cur1 id tn fs st v st',
    ty <> TUnsupported ->
    cache_find id st = None ->
    conv (S f) te false ty cur1 (SRec id tn fs) st = Ok (v, st') ->
    forall f2 top2 cur2 tn2 fs2, conv (S f2) te top2 ty cur2 (SRec id tn2 fs2) st' = Ok (v, st').
Proof.
  intros. apply conv_hit; [assumption|]. eapply conv_rec_caches; eassumption.
Qed.

(* a cached pointer also serves an interface slot the struct implements: same object *)
Lemma conv_hit_iface : forall f te top i s cur id tn fs st loc,
    cache_find id st = Some (TPtr s, GPtr (Some loc)) -> implements te s i = true ->
    conv (S f) te top (TIface i) cur (SRec id tn fs) st = Ok (GIface (Some (s, loc)), st).
Proof.
  intros. simpl. rewrite H. unfold assign. simpl. rewrite H0. reflexivity.
Qed.

(* ... but not the other way round: the defect behind finding togo-share-ptr-iface-order *)
Lemma conv_hit_ptr_after_iface_err : forall f te top i s cur id tn fs st x,
    cache_find id st = Some (TIface i, x) ->
    conv (S f) te top (TPtr s) cur (SRec id tn fs) st = Err.
Proof.
  intros. simpl. rewrite H. unfold assign. simpl. destruct x; reflexivity.
Qed.

(* ---- every field of the record lands in the struct field it resolves to ---------------- *)

Lemma set_nth_same : forall A (l : list A) i x l', set_nth l i x = Some l' -> nth_error l' i = Some x.
Proof.
  induction l as [|a l IH]; intros i x l' H; destruct i; simpl in H; try discriminate.
  - inversion H; subst. reflexivity.
  - destruct (set_nth l i x) eqn:E; simpl in H; [|discriminate]. inversion H; subst. simpl. eapply IH; eassumption.
Qed.

Lemma set_nth_other : forall A (l : list A) i x l' j, set_nth l i x = Some l' -> i <> j -> nth_error l' j = nth_error l j.
Proof.
  induction l as [|a l IH]; intros i x l' j H Hne; destruct i; simpl in H; try discriminate.
  - inversion H; subst. destruct j; [congruence|reflexivity].
  - destruct (set_nth l i x) eqn:E; simpl in H; [|discriminate]. inversion H; subst.
    destruct j; [reflexivity|]. simpl. eapply IH; [eassumption|congruence].
Qed.

Lemma get_set_same : forall p b nv b', set_path b p nv = Some b' -> get_path b' p = Some nv.
Proof.
  induction p as [|i r IH]; intros b nv b' H; simpl in H.
  - inversion H; subst. reflexivity.
  - destruct b; try discriminate. destruct (nth_error fs i) as [x|] eqn:En; [|discriminate].
    destruct (set_path x r nv) as [x'|] eqn:Es; [|discriminate].
    destruct (set_nth fs i x') as [fs'|] eqn:Et; simpl in H; [|discriminate]. inversion H; subst.
    simpl. rewrite (set_nth_same _ _ _ _ _ Et). eapply IH; eassumption.
Qed.

Lemma get_set_other : forall p q b nv b',
    set_path b p nv = Some b' -> is_prefix p q = false -> is_prefix q p = false ->
    get_path b' q = get_path b q.
Proof.
  induction p as [|i r IH]; intros q b nv b' H Hpq Hqp.
  - simpl in Hpq. discriminate.
  - destruct q as [|j r']; [simpl in Hqp; discriminate|].
    simpl in H. destruct b; try discriminate. destruct (nth_error fs i) as [x|] eqn:En; [|discriminate].
    destruct (set_path x r nv) as [x'|] eqn:Es; [|discriminate].
    destruct (set_nth fs i x') as [fs'|] eqn:Et; simpl in H; [|discriminate]. inversion H; subst.
    simpl. destruct (Nat.eq_dec i j) as [Heq|Hne].
    + subst j. rewrite (set_nth_same _ _ _ _ _ Et), En.
      simpl in Hpq, Hqp. rewrite Nat.eqb_refl in Hpq, Hqp. simpl in Hpq, Hqp.
      eapply IH; eassumption.
    + rewrite (set_nth_other _ _ _ _ _ j Et Hne). reflexivity.
Qed.

Definition res_paths (res_ : str -> option (list nat)) (l : list (str * sx)) : list (list nat) :=
  flat_map (fun kv => match res_ (fst kv) with Some p => [p] | None => [] end) l.

Lemma fill_step_ok_inv : forall res_ te bty cv b st kv b1 st1,
    fill_step res_ te bty cv (Ok (b, st)) kv = Ok (b1, st1) ->
    exists path sty curv nv,
      res_ (fst kv) = Some path /\ type_at te (TStruct bty) path = Some sty /\ get_path b path = Some curv /\
      cv sty curv (snd kv) st = Ok (nv, st1) /\ set_path b path nv = Some b1.
Proof.
  intros res_ te bty cv b st kv b1 st1 H. unfold fill_step in H. simpl in H.
  destruct (res_ (fst kv)) as [path|] eqn:E1; simpl in H; [|discriminate].
  destruct (slot_type te bty path) as [sty| | | |] eqn:E2; simpl in H; try discriminate.
  destruct (get_path b path) as [curv|] eqn:E3; simpl in H; [|discriminate].
  destruct (cv sty curv (snd kv) st) as [[nv st2]| | | |] eqn:Ecv; simpl in H; try discriminate.
  destruct (set_path b path nv) as [b'|] eqn:Es; simpl in H; [|discriminate].
  inversion H; subst. exists path, sty, curv, nv.
  unfold slot_type in E2. destruct (type_at te (TStruct bty) path) eqn:E2';
    [|destruct (enters_time te (TStruct bty) path); discriminate]. inversion E2; subst.
  repeat split; try reflexivity; assumption.
Qed.

Lemma fill_head_ok : forall res_ te bty cv l acc r,
    fold_left (fill_step res_ te bty cv) l acc = Ok r -> exists a, acc = Ok a.
Proof.
  intros res_ te bty cv l acc r H. destruct acc as [a| | | |]; [exists a; reflexivity| | | |];
    exfalso; eapply (fill_sticky res_ te bty cv l); try eassumption; intros r0; discriminate.
Qed.

Lemma fill_preserves : forall res_ te bty cv l b st b' st' q,
    fold_left (fill_step res_ te bty cv) l (Ok (b, st)) = Ok (b', st') ->
    (forall p, In p (res_paths res_ l) -> is_prefix p q = false /\ is_prefix q p = false) ->
    get_path b' q = get_path b q.
Proof.
  induction l as [|kv l IH]; intros b st b' st' q H Hind; simpl in H.
  - inversion H; subst. reflexivity.
  - destruct (fill_head_ok _ _ _ _ _ _ _ H) as [[b1 st1] Hstep]. rewrite Hstep in H.
    destruct (fill_step_ok_inv _ _ _ _ _ _ _ _ _ Hstep) as (path & sty & curv & nv & Hr & _ & _ & _ & Hset).
    rewrite (IH _ _ _ _ q H).
    + assert (Hp : In path (res_paths res_ (kv :: l))) by (unfold res_paths; simpl; rewrite Hr; left; reflexivity).
      destruct (Hind _ Hp) as [H1 H2]. eapply get_set_other; eassumption.
    + intros p Hp. apply Hind. unfold res_paths in *. simpl. apply in_or_app. right. exact Hp.
Qed.

Lemma paths_independent_head : forall p r, paths_independent (p :: r) = true ->
    (forall q, In q r -> is_prefix q p = false /\ is_prefix p q = false) /\ paths_independent r = true.
Proof.
  intros p r H. simpl in H. apply andb_true_iff in H. destruct H as [H1 H2]. split; [|assumption].
  intros q Hq. rewrite forallb_forall in H1. specialize (H1 _ Hq). apply andb_true_iff in H1.
  destruct H1 as [Ha Hb]. apply negb_true_iff in Ha. apply negb_true_iff in Hb. split; assumption.
Qed.

(* the loop over the pairs of a record: when it succeeds and the keys resolve to independent fields (no two
   keys name the same field, no key names an embedded struct as a whole next to one of its fields), every
   pair (k, v) was converted into the slot k resolves to and that slot of the final struct holds the result *)
Theorem fill_fields_land : forall res_ te bty cv l base st b' st',
    fold_left (fill_step res_ te bty cv) l (Ok (base, st)) = Ok (b', st') ->
    paths_independent (res_paths res_ l) = true ->
    forall k v, In (k, v) l ->
      exists path sty curv st1 nv st2,
        res_ k = Some path /\ type_at te (TStruct bty) path = Some sty /\
        cv sty curv v st1 = Ok (nv, st2) /\ get_path b' path = Some nv.
Proof.
  induction l as [|kv l IH]; intros base st b' st' H Hind k v Hin; [contradiction|].
  simpl in H. destruct (fill_head_ok _ _ _ _ _ _ _ H) as [[b1 st1] Hstep]. rewrite Hstep in H.
  destruct (fill_step_ok_inv _ _ _ _ _ _ _ _ _ Hstep) as (path & sty & curv & nv & Hr & Hty & Hget & Hcv & Hset).
  assert (Hpaths : res_paths res_ (kv :: l) = path :: res_paths res_ l) by (unfold res_paths; simpl; rewrite Hr; reflexivity).
  rewrite Hpaths in Hind. destruct (paths_independent_head _ _ Hind) as [Hhead Htail].
  destruct Hin as [Heq | Hin].
  - subst kv. simpl in *. exists path, sty, curv, st, nv, st1. repeat split; try assumption.
    rewrite (fill_preserves _ _ _ _ _ _ _ _ _ path H).
    + eapply get_set_same; eassumption.
    + intros p Hp. apply Hhead. exact Hp.
  - eapply IH; eassumption.
Qed.

(* instantiated at the three kinds of slot a record can fill (pointer, interface, struct value / top level) *)
Theorem to_go_fills_all_ptr : forall f te cur id tn fs st d loc st',
    cache_find id st = None -> find_reg te tn = Some d ->
    conv (S f) te false (TPtr (s_name d)) cur (SRec id tn fs) st = Ok (GPtr (Some loc), st') ->
    paths_independent (res_paths (resolve_key f te (s_name d)) fs) = true ->
    exists obj, nth_error (heap st') loc = Some obj /\
      forall k v, In (k, v) fs ->
        exists path sty curv st1 nv st2,
          resolve_key f te (s_name d) k = Some path /\ type_at te (TStruct (s_name d)) path = Some sty /\
          conv f te false sty curv v st1 = Ok (nv, st2) /\ get_path obj path = Some nv.
Proof.
  intros f te cur id tn fs st d loc st' Hc Hr H Hind.
  simpl in H. rewrite Hc in H. simpl in H. rewrite Hr in H. simpl in H. rewrite str_eqb_refl in H.
  destruct (zero_of f te (TStruct (s_name d))) as [z|]; [|discriminate].
  match type of H with context [fold_left ?F fs ?A] => destruct (fold_left F fs A) as [[b st1]| | | |] eqn:E end;
    simpl in H; try discriminate.
  inversion H; subst. exists b. split.
  - simpl. rewrite nth_error_app2 by apply le_n. rewrite Nat.sub_diag. reflexivity.
  - intros k v Hin. eapply fill_fields_land; eassumption.
Qed.

(* ---- an error below is an error above (never a dropped field) ---------------------------- *)

Lemma fill_value_fails : forall res_ te bty cv l k v,
    In (k, v) l -> (forall sty curv st r, cv sty curv v st <> Ok r) ->
    forall acc r, fold_left (fill_step res_ te bty cv) l acc <> Ok r.
Proof.
  induction l as [|kv l IH]; intros k v Hin Hcv acc r; [contradiction|].
  simpl. destruct Hin as [Heq | Hin].
  - subst kv. apply fill_sticky. intros r0. unfold fill_step.
    destruct acc as [[b st1]| | | |]; simpl; try discriminate.
    destruct (res_ k) as [pth|]; simpl; [|discriminate].
    destruct (slot_type te bty pth) as [sty| | | |]; simpl; try discriminate.
    destruct (get_path b pth) as [curv|]; simpl; [|discriminate].
    destruct (cv sty curv v st1) as [[nv st2]| | | |] eqn:E; simpl; try discriminate.
    exfalso. eapply Hcv. eassumption.
  - eapply IH; eassumption.
Qed.

Lemma conv_list_fails : forall A B (f : A -> state -> res (B * state)) l a,
    In a l -> (forall st r, f a st <> Ok r) -> forall st r, conv_list f l st <> Ok r.
Proof.
  induction l as [|x l IH]; intros a Hin Hf st r; [contradiction|].
  simpl. destruct Hin as [Heq | Hin].
  - subst x. destruct (f a st) as [[b st1]| | | |] eqn:E; simpl; try discriminate. exfalso. eapply Hf. eassumption.
  - destruct (f x st) as [[b st1]| | | |]; simpl; try discriminate.
    destruct (conv_list f l st1) as [[bs st2]| | | |] eqn:E; simpl; try discriminate.
    exfalso. eapply IH; eassumption.
Qed.

(* a record one of whose values cannot be converted (at any state, into any slot) is itself not converted *)
Theorem error_propagates_record : forall f te top ty cur id tn fs st k v r,
    cache_find id st = None -> In (k, v) fs ->
    (forall sty curv st0 r0, conv f te false sty curv v st0 <> Ok r0) ->
    conv (S f) te top ty cur (SRec id tn fs) st <> Ok r.
Proof.
  intros f te top ty cur id tn fs st k v r Hc Hin Hv.
  destruct (find_reg te tn) as [d|] eqn:Hr; [|apply unregistered_record_type; assumption].
  pose proof (fun bty => fill_value_fails (resolve_key f te (s_name d)) te bty (conv f te false) fs k v Hin Hv) as HF.
  destruct ty; simpl; try discriminate; rewrite Hc; simpl; try discriminate; rewrite Hr; simpl.
  - destruct (str_eqb s (s_name d)); [|discriminate].
    destruct (zero_of f te (TStruct (s_name d))); [|discriminate].
    match goal with |- context [fold_left ?F fs ?A] => destruct (fold_left F fs A) as [[b st1]| | | |] eqn:E end;
      simpl; try discriminate.
    exfalso. eapply HF; eassumption.
  - destruct (top || str_eqb s (s_name d)); [|discriminate].
    match goal with |- context [fold_left ?F fs ?A] => destruct (fold_left F fs A) as [[b st1]| | | |] eqn:E end;
      simpl; try discriminate.
    exfalso. eapply HF; eassumption.
  - destruct (implements te (s_name d) i); [|discriminate].
    destruct (zero_of f te (TStruct (s_name d))); [|discriminate].
    match goal with |- context [fold_left ?F fs ?A] => destruct (fold_left F fs A) as [[b st1]| | | |] eqn:E end;
      simpl; try discriminate.
    exfalso. eapply HF; eassumption.
Qed.

Theorem error_propagates_array : forall f te top ty cur l e st r,
    In e l -> (forall sty curv st0 r0, conv f te false sty curv e st0 <> Ok r0) ->
    conv (S f) te top ty cur (SArr l) st <> Ok r.
Proof.
  intros f te top ty cur l e st r Hin He.
  destruct ty; simpl; try discriminate.
  - (* []byte *) destruct l as [|x l]; [contradiction|].
    destruct (forallb _ (x :: l)); discriminate.
  - (* slice *) destruct (zero_of f te ty) as [z|]; [|discriminate].
    destruct (conv_list _ l st) as [[vs st1]| | | |] eqn:E; simpl; try discriminate.
    exfalso. eapply (conv_list_fails _ _ (fun e0 st0 => conv f te false ty z e0 st0) l e Hin); [|eassumption].
    intros st0 r0. apply He.
Qed.

(* an entry whose key is not a symbol or a string (int, char, array, list key put there with hset) names no field *)
Theorem nonname_key_err : forall f te top ty cur id tn fs st d k v r,
    cache_find id st = None -> find_reg te tn = Some d ->
    In (k, v) fs -> nonname_key k = true ->
    conv (S f) te top ty cur (SRec id tn fs) st <> Ok r.
Proof.
  intros f te top ty cur id tn fs st d k v r Hc Hr Hin Hk.
  eapply unknown_field_err; try eassumption. unfold resolve_key. rewrite Hk. reflexivity.
Qed.
