(* C10 proofs, part 4: the round trip record -> Go struct -> record on the fragment where it holds. *)
From Coq Require Import ZArith List Bool.
Import ListNotations.
Require Import ZV.Model.GoConv ZV.Model.GoConvSpec ZV.Proofs.GoConvProofs.
Open Scope Z_scope.

(* field kinds for which fillHashHelper has a case and SexpToGoStructs is exact *)
Definition scalar_ty (t : gotype) : bool :=
  match t with TInt | TGoInt | TFloat | TString | TBool | TBytes => true | _ => false end.

(* a struct declaration of the scalar fragment: no embedded fields (finding echo-embed-misread), only scalar kinds
   (no time: echo-time-nil; no slices, maps, struct values: echo-nokind-nil; no pointers/interfaces, which must all
   be non-nil: echo-nil-pointer-crash), distinct keys *)
Definition scalar_decl (d : sdecl) : bool :=
  forallb (fun fld => negb (f_emb fld) && scalar_ty (f_type fld)) (s_fields d)
  && nodup_str (map key_of (s_fields d)).

(* the Go value / the record value a script value denotes in a field of type t *)
Definition go_of (t : gotype) (v : sx) : goval :=
  match v, t with
  | SInt z, TFloat => GFloat (match float_bits_of_int z with Some b => b | None => 0 end)
  | SInt z, _ => GInt z
  | SFloat b, _ => GFloat b
  | SStr x, _ | SSym x, _ => GStr x
  | SBool b, _ => GBool b
  | SRaw b, _ => GBytes b
  | _, _ => GUnsupported
  end.
Definition ev (t : gotype) (v : sx) : sx :=
  match v, t with
  | SInt z, TFloat => SFloat (match float_bits_of_int z with Some b => b | None => 0 end)
  | SSym x, _ => SStr x
  | _, _ => v
  end.
Definition zero_go (t : gotype) : goval :=
  match t with TInt | TGoInt => GInt 0 | TFloat => GFloat 0 | TString => GStr [] | TBool => GBool false | _ => GBytes [] end.
Definition zero_sx (t : gotype) : sx :=
  match t with TInt | TGoInt => SInt 0 | TFloat => SFloat 0 | TString => SStr [] | TBool => SBool false | _ => SRaw [] end.

(* THE EXPECTED RESULT: a record of the same registered type whose fields are, in declaration order, the struct's
   fields under their canonical key, each with the value the original record gives it (under whatever spelling of
   the key resolves to it), or the zero value when the record does not mention it *)
Definition expect (res_ : str -> option (list nat)) (reg : str) (fields : list field) (fs : list (str * sx)) : sx :=
  SRec 0 reg
       (mapi_aux (fun i fld =>
                    (key_of fld,
                     match find (fun kv => match res_ (fst kv) with Some p => path_eqb p [i] | None => false end) fs with
                     | Some kv => ev (f_type fld) (snd kv)
                     | None => zero_sx (f_type fld)
                     end)) O fields).

Lemma float_bits_total : forall z, exists b, float_bits_of_int z = Some b.
Proof.
  intros z. unfold float_bits_of_int. destruct (z =? 0); [eexists; reflexivity|].
  destruct (Z.log2 (Z.abs z) <=? 52); eexists; reflexivity.
Qed.

Lemma conv_scalar : forall f te top t cur v st,
    scalar_ty t = true -> scalar_fits v t = true ->
    conv (S f) te top t cur v st = Ok (go_of t v, st).
Proof.
  intros f te top t cur v st Ht Hf.
  destruct t; simpl in Ht; try discriminate; destruct v; simpl in Hf; try discriminate; simpl; try reflexivity.
  destruct (float_bits_total z) as [b Hb]. rewrite Hb. reflexivity.
Qed.

Lemma from_val_scalar : forall f te h t v,
    scalar_ty t = true -> scalar_fits v t = true -> from_val (S f) te h t (go_of t v) = Ok (ev t v).
Proof.
  intros f te h t v Ht Hf.
  destruct t; simpl in Ht; try discriminate; destruct v; simpl in Hf; try discriminate; reflexivity.
Qed.

Lemma from_val_zero : forall f te h t, scalar_ty t = true -> from_val (S f) te h t (zero_go t) = Ok (zero_sx t).
Proof. intros f te h t Ht. destruct t; simpl in Ht; try discriminate; reflexivity. Qed.

Lemma zero_of_scalar : forall g te t, scalar_ty t = true -> zero_of g te t = Some (zero_go t).
Proof. intros g te t Ht. destruct t; simpl in Ht; try discriminate; destruct g; reflexivity. Qed.

Lemma map_opt_zero : forall g te fl,
    forallb (fun fld => negb (f_emb fld) && scalar_ty (f_type fld)) fl = true ->
    map_opt (fun fld => zero_of g te (f_type fld)) fl = Some (map (fun fld => zero_go (f_type fld)) fl).
Proof.
  induction fl as [|fld fl IH]; intros H; simpl in *; [reflexivity|].
  apply andb_true_iff in H. destruct H as [H1 H2]. apply andb_true_iff in H1. destruct H1 as [_ H1].
  rewrite (zero_of_scalar g te _ H1), (IH H2). reflexivity.
Qed.

(* the flattened table of a struct without embedded fields: (key, [i]) for the i-th field *)
Fixpoint flat_tab (i : nat) (fl : list field) : list (str * list nat) :=
  match fl with [] => [] | fld :: r => (key_of fld, [i]) :: flat_tab (S i) r end.

Lemma jsonmap_fields_flat : forall rec_ fl i,
    forallb (fun fld => negb (f_emb fld) && scalar_ty (f_type fld)) fl = true ->
    jsonmap_fields rec_ [] i fl = flat_tab i fl.
Proof.
  induction fl as [|fld fl IH]; intros i H; simpl in *; [reflexivity|].
  apply andb_true_iff in H. destruct H as [H1 H2]. apply andb_true_iff in H1. destruct H1 as [H1 _].
  apply negb_true_iff in H1. rewrite H1. simpl. rewrite (IH _ H2). reflexivity.
Qed.

Lemma set_nth_ok : forall A (l : list A) i x, (i < length l)%nat -> exists l', set_nth l i x = Some l' /\ length l' = length l.
Proof.
  induction l as [|a l IH]; intros i x H; simpl in H; [inversion H|].
  destruct i; simpl.
  - eexists. split; reflexivity.
  - destruct (IH i x (proj2 (Nat.succ_lt_mono _ _) H)) as (l' & H1 & H2). rewrite H1. simpl. eexists. split; [reflexivity|]. simpl. rewrite H2. reflexivity.
Qed.

Lemma nth_error_lt : forall A (l : list A) i x, nth_error l i = Some x -> (i < length l)%nat.
Proof. intros. apply nth_error_Some. congruence. Qed.

(* the two unfoldings used below *)
Lemma conv_top_struct : forall g te T cur id tn fs st d,
    cache_find id st = None -> find_reg te tn = Some d ->
    conv (S g) te true (TStruct T) cur (SRec id tn fs) st =
    do (b, st1) <- fold_left (fill_step (resolve_key g te (s_name d)) te T (conv g te false)) fs (Ok (cur, st)); Ok (b, st1).
Proof. intros g te T cur id tn fs st d Hc Hr. simpl. rewrite Hc. simpl. rewrite Hr. simpl. reflexivity. Qed.

Definition from_step (g : nat) (te : tenv) (h vals : list goval) (fields : list field)
           (acc : res (list (str * sx))) (kp : str * list nat) : res (list (str * sx)) :=
  do fs0 <- acc;
  do i <- of_opt (last_nat (snd kp));
  do fv <- of_opt_crash 3 (nth_error vals i);
  do fld <- of_opt_crash 3 (nth_error fields i);
  do x <- from_val g te h (f_type fld) fv;
  Ok (hash_set (fst kp) x fs0).

Lemma from_ptr_unfold : forall g te h T loc d s vals reg,
    find_struct te T = Some d -> nth_error h loc = Some (GStruct s vals) -> s_reg d = Some reg ->
    from_val (S g) te h (TPtr T) (GPtr (Some loc)) =
    do fs <- fold_left (from_step g te h vals (s_fields d)) (jsonmap g te T []) (Ok []); Ok (SRec 0 reg fs).
Proof. intros g te h T loc d s vals reg Hf Hn Hr. simpl. rewrite Hf, Hn, Hr. reflexivity. Qed.

Local Arguments conv : simpl never.
Local Arguments from_val : simpl never.

Section Round.
  Variables (f : nat) (te : tenv) (T : str) (d : sdecl) (reg : str).
  Hypothesis Hfs : find_struct te T = Some d.
  Hypothesis Hreg : s_reg d = Some reg.
  Hypothesis Hdecl : scalar_decl d = true.

  Let fields := s_fields d.
  Let res_ := resolve_key (S f) te T.

  Lemma Hall : forallb (fun fld => negb (f_emb fld) && scalar_ty (f_type fld)) fields = true.
  Proof. unfold scalar_decl in Hdecl. apply andb_true_iff in Hdecl. apply Hdecl. Qed.

  Lemma field_scalar : forall i fld, nth_error fields i = Some fld -> scalar_ty (f_type fld) = true.
  Proof.
    intros i fld H. pose proof Hall as HA. rewrite forallb_forall in HA.
    specialize (HA fld (nth_error_In _ _ H)). apply andb_true_iff in HA. apply HA.
  Qed.

  Lemma slot_type_field : forall i fld, nth_error fields i = Some fld -> slot_type te T [i] = Ok (f_type fld).
  Proof. intros i fld H. unfold slot_type. simpl. rewrite Hfs. fold fields. rewrite H. reflexivity. Qed.

  (* every key of the record resolves to a field and its value fits that field *)
  Definition good_fs (fs : list (str * sx)) : Prop :=
    forall k v, In (k, v) fs ->
      exists i fld, res_ k = Some [i] /\ nth_error fields i = Some fld /\ scalar_fits v (f_type fld) = true.

  Lemma fill_total : forall fs vals st,
      length vals = length fields -> good_fs fs ->
      exists vals', fold_left (fill_step res_ te T (conv (S f) te false)) fs (Ok (GStruct T vals, st))
                    = Ok (GStruct T vals', st) /\ length vals' = length fields.
  Proof.
    induction fs as [|[k v] fs IH]; intros vals st Hl Hg; cbn [fold_left].
    - exists vals. split; [reflexivity|assumption].
    - destruct (Hg k v (or_introl eq_refl)) as (i & fld & Hr & Hn & Hfit).
      assert (Hlt : (i < length vals)%nat) by (rewrite Hl; eapply nth_error_lt; exact Hn).
      destruct (nth_error vals i) as [curv|] eqn:Ev; [|apply nth_error_None in Ev; exfalso; apply (Nat.lt_irrefl i); eapply Nat.lt_le_trans; eassumption].
      destruct (set_nth_ok _ vals i (go_of (f_type fld) v) Hlt) as (vals1 & Hs & Hl1).
      assert (Hstep : fill_step res_ te T (conv (S f) te false) (Ok (GStruct T vals, st)) (k, v) = Ok (GStruct T vals1, st)).
      { unfold fill_step. simpl. rewrite Hr. simpl. rewrite (slot_type_field _ _ Hn). simpl. rewrite Ev. simpl.
        rewrite (conv_scalar f te false _ curv v st (field_scalar _ _ Hn) Hfit). simpl. rewrite Hs. reflexivity. }
      rewrite Hstep. apply IH; [rewrite Hl1; exact Hl|]. intros k0 v0 Hin. apply Hg. right. exact Hin.
  Qed.

  Lemma good_paths_single : forall fs, good_fs fs -> forall p, In p (res_paths res_ fs) -> exists i, p = [i].
  Proof.
    induction fs as [|[k v] fs IH]; intros Hg p Hin; [contradiction|].
    unfold res_paths in Hin. simpl in Hin. destruct (Hg k v (or_introl eq_refl)) as (i & fld & Hr & _).
    rewrite Hr in Hin. simpl in Hin. destruct Hin as [Heq|Hin]; [exists i; congruence|].
    apply IH; [|exact Hin]. intros k0 v0 H0. apply Hg. right. exact H0.
  Qed.

  (* the struct the conversion builds: field i holds the converted value of the pair designating it, or stays zero *)
  Lemma built_field : forall fs vals' st st' i fld,
      good_fs fs -> paths_independent (res_paths res_ fs) = true ->
      fold_left (fill_step res_ te T (conv (S f) te false)) fs
                (Ok (GStruct T (map (fun fl => zero_go (f_type fl)) fields), st)) = Ok (GStruct T vals', st') ->
      nth_error fields i = Some fld ->
      nth_error vals' i =
      Some (match find (fun kv => match res_ (fst kv) with Some p => path_eqb p [i] | None => false end) fs with
            | Some kv => go_of (f_type fld) (snd kv)
            | None => zero_go (f_type fld)
            end).
  Proof.
    intros fs vals' st st' i fld Hg Hind Hfold Hn.
    destruct (find (fun kv => match res_ (fst kv) with Some p => path_eqb p [i] | None => false end) fs) as [[k v]|] eqn:Ef.
    - apply find_some in Ef. destruct Ef as [Hin Hp]. simpl in Hp.
      destruct (fill_fields_land _ _ _ _ _ _ _ _ _ Hfold Hind k v Hin) as (path & sty & curv & st1 & nv & st2 & Hr & Hty & Hcv & Hget).
      rewrite Hr in Hp. assert (path = [i]).
      { clear -Hp. revert Hp. generalize [i]. induction path as [|x p IH]; intros [|y q] H; simpl in H; try discriminate; [reflexivity|].
        apply andb_true_iff in H. destruct H as [H1 H2]. apply Nat.eqb_eq in H1. subst. f_equal. apply IH. exact H2. }
      subst path. simpl in Hty. rewrite Hfs in Hty. fold fields in Hty. rewrite Hn in Hty. inversion Hty; subst sty.
      destruct (Hg k v Hin) as (i' & fld' & Hr' & Hn' & Hfit). rewrite Hr in Hr'. inversion Hr'; subst i'.
      rewrite Hn in Hn'. inversion Hn'; subst fld'.
      rewrite (conv_scalar f te false _ curv v st1 (field_scalar _ _ Hn) Hfit) in Hcv. inversion Hcv; subst nv.
      simpl in Hget. destruct (nth_error vals' i); [|discriminate]. exact Hget.
    - assert (Hpres : get_path (GStruct T vals') [i] = get_path (GStruct T (map (fun fl => zero_go (f_type fl)) fields)) [i]).
      { eapply fill_preserves; [exact Hfold|]. intros p Hp.
        destruct (good_paths_single _ Hg _ Hp) as [j Hj]. subst p.
        assert (j <> i).
        { intro; subst j. unfold res_paths in Hp. apply in_flat_map in Hp. destruct Hp as ([k v] & Hin & Hpp).
          pose proof (find_none _ _ Ef _ Hin) as Hno. simpl in Hno, Hpp.
          destruct (res_ k) as [p|]; [|contradiction]. destruct Hpp as [Hpp|[]]. subst p.
          simpl in Hno. rewrite Nat.eqb_refl in Hno. discriminate. }
        simpl. assert (Nat.eqb j i = false) by (apply Nat.eqb_neq; assumption).
        assert (Nat.eqb i j = false) by (apply Nat.eqb_neq; auto).
        rewrite H0, H1. split; reflexivity. }
      simpl in Hpres. rewrite nth_error_map, Hn in Hpres. simpl in Hpres.
      destruct (nth_error vals' i); [|discriminate]. exact Hpres.
  Qed.

  Lemma hash_set_fresh : forall k x acc, existsb (str_eqb k) (map fst acc) = false -> hash_set k x acc = acc ++ [(k, x)].
  Proof.
    induction acc as [|[k' v'] acc IH]; intros H; simpl in *; [reflexivity|].
    apply orb_false_iff in H. destruct H as [H1 H2].
    assert (str_eqb k' k = false).
    { destruct (str_eqb k' k) eqn:E; [|reflexivity]. apply str_eqb_eq in E. subst. rewrite str_eqb_refl in H1. discriminate. }
    rewrite H. rewrite (IH H2). reflexivity.
  Qed.

  (* reading the struct back, field by field, in declaration order *)
  Lemma read_back : forall h vals (X : nat -> field -> sx) fl i acc,
      (forall j fld, nth_error fl j = Some fld ->
                     nth_error fields (i + j) = Some fld /\
                     exists fv, nth_error vals (i + j) = Some fv /\ from_val (S f) te h (f_type fld) fv = Ok (X (i + j)%nat fld)) ->
      nodup_str (map key_of fl) = true ->
      (forall fld, In fld fl -> existsb (str_eqb (key_of fld)) (map fst acc) = false) ->
      fold_left (from_step (S f) te h vals fields) (flat_tab i fl) (Ok acc)
      = Ok (acc ++ mapi_aux (fun i0 fld => (key_of fld, X i0 fld)) i fl).
  Proof.
    induction fl as [|fld fl IH]; intros i acc Hf Hnd Hfresh; cbn [fold_left flat_tab mapi_aux].
    - rewrite app_nil_r. reflexivity.
    - destruct (Hf O fld eq_refl) as (Hn & fv & Hv & Hfrom). rewrite Nat.add_0_r in *.
      assert (Hs : from_step (S f) te h vals fields (Ok acc) (key_of fld, [i]) = Ok (acc ++ [(key_of fld, X i fld)])).
      { unfold from_step. simpl. rewrite Hv. simpl. rewrite Hn. simpl. rewrite Hfrom. simpl.
        rewrite (hash_set_fresh _ _ _ (Hfresh fld (or_introl eq_refl))). reflexivity. }
      rewrite Hs.
      simpl in Hnd. apply andb_true_iff in Hnd. destruct Hnd as [Hnd1 Hnd2]. apply negb_true_iff in Hnd1.
      rewrite (IH (S i) (acc ++ [(key_of fld, X i fld)])).
      + rewrite <- app_assoc. reflexivity.
      + intros j fld' Hj. specialize (Hf (S j) fld' Hj). rewrite Nat.add_succ_r in Hf. exact Hf.
      + exact Hnd2.
      + intros fld' Hin. rewrite map_app, existsb_app. rewrite (Hfresh fld' (or_intror Hin)). simpl.
        destruct (str_eqb (key_of fld') (key_of fld)) eqn:E; [|reflexivity].
        apply str_eqb_eq in E.
        assert (existsb (str_eqb (key_of fld)) (map key_of fl) = true).
        { apply existsb_exists. exists (key_of fld'). split; [apply in_map; exact Hin|]. rewrite E. apply str_eqb_refl. }
        congruence.
  Qed.

  (* FROM_GO_TO_GO on the scalar fragment: a record of a registered struct type of the fragment, every key of which
     resolves to a field whose type its value fits, no two keys naming the same field, survives the trip through Go:
     same type name, the struct's fields in declaration order under their canonical keys, equal values, zero values
     for the fields it does not mention *)
  Theorem round_trip_scalar : forall id tn fs,
      find_reg te tn = Some d -> s_name d = T ->
      good_fs fs -> paths_independent (res_paths res_ fs) = true ->
      echo (S (S f)) te T (SRec id tn fs) = Ok (expect res_ reg fields fs).
  Proof.
    intros id tn fs Hr Hname Hg Hind.
    unfold echo, to_go.
    assert (Hz : zero_of (S (S f)) te (TStruct T) = Some (GStruct T (map (fun fl => zero_go (f_type fl)) fields))).
    { change (zero_of (S (S f)) te (TStruct T))
        with (match find_struct te T with
              | None => None
              | Some d0 => option_map (GStruct T) (map_opt (fun fld => zero_of (S f) te (f_type fld)) (s_fields d0))
              end).
      rewrite Hfs. rewrite (map_opt_zero (S f) te (s_fields d) Hall). reflexivity. }
    rewrite Hz.
    rewrite (conv_top_struct (S f) te T _ id tn fs empty_state d eq_refl Hr). rewrite Hname.
    destruct (fill_total fs (map (fun fl => zero_go (f_type fl)) fields) empty_state (map_length _ _) Hg) as (vals' & Hfold & Hlen).
    fold res_. rewrite Hfold. simpl.
    rewrite (from_ptr_unfold (S f) te [GStruct T vals'] T 0 d T vals' reg Hfs eq_refl Hreg).
    assert (Hjm : jsonmap (S f) te T [] = flat_tab 0 fields).
    { simpl. rewrite Hfs. apply jsonmap_fields_flat. exact Hall. }
    rewrite Hjm.
    rewrite (read_back _ vals'
               (fun i fld => match find (fun kv => match res_ (fst kv) with Some p => path_eqb p [i] | None => false end) fs with
                             | Some kv => ev (f_type fld) (snd kv)
                             | None => zero_sx (f_type fld) end) fields 0 []).
    - simpl. reflexivity.
    - intros j fld Hj. simpl. split; [exact Hj|].
      eexists. split; [eapply built_field; eassumption|].
      destruct (find (fun kv => match res_ (fst kv) with Some p => path_eqb p [j] | None => false end) fs) as [[k v]|] eqn:Ef.
      + apply find_some in Ef. destruct Ef as [Hin Hp]. simpl in Hp.
        destruct (Hg k v Hin) as (i' & fld' & Hr' & Hn' & Hfit). rewrite Hr' in Hp. simpl in Hp.
        apply andb_true_iff in Hp. destruct Hp as [Hp _]. apply Nat.eqb_eq in Hp. subst i'.
        rewrite Hj in Hn'. inversion Hn'; subst fld'.
        apply from_val_scalar; [eapply field_scalar; exact Hj|exact Hfit].
      + apply from_val_zero. eapply field_scalar; exact Hj.
    - unfold scalar_decl in Hdecl. apply andb_true_iff in Hdecl. apply Hdecl.
    - intros; reflexivity.
  Qed.
End Round.
