(* C10 proofs, part 2: the dedup cache is monotone under conv (an entry, once present, stays and keeps its
   target), the heap only grows, and the general sharing theorem for arbitrary occurrences of one record
   identity within a conversion. *)
From Coq Require Import ZArith List Bool.
Import ListNotations.
Require Import ZV.Model.GoConv ZV.Model.GoConvSpec ZV.Proofs.GoConvProofs.
Open Scope Z_scope.

(* ---- occurrences of a record identity in a value ------------------------------------------- *)

Fixpoint occurs (id : Z) (s : sx) : bool :=
  match s with
  | SArr l => existsb (occurs id) l
  | SRec i _ fs => (i =? id) || existsb (fun kv => occurs id (snd kv)) fs
  | SHash i fs => (i =? id) || existsb (fun kv => occurs id (snd kv)) fs
  | _ => false
  end.

(* no record (or hash) contains an occurrence of its own identity: records are trees with sharing, not cycles *)
Fixpoint acyclic (s : sx) : bool :=
  match s with
  | SArr l => forallb acyclic l
  | SRec i _ fs => negb (existsb (fun kv => occurs i (snd kv)) fs) && forallb (fun kv => acyclic (snd kv)) fs
  | SHash i fs => negb (existsb (fun kv => occurs i (snd kv)) fs) && forallb (fun kv => acyclic (snd kv)) fs
  | _ => true
  end.

(* ---- extension of a state ------------------------------------------------------------------ *)

Definition cache_le (a b : state) : Prop := forall id e, cache_find id a = Some e -> cache_find id b = Some e.
Definition heap_le (a b : state) : Prop := exists ext, heap b = heap a ++ ext.
Definition gains (a b : state) (P : Z -> Prop) : Prop :=
  forall id, cache_find id a = None -> cache_find id b <> None -> P id.
Definition ext (P : Z -> Prop) (a b : state) : Prop := cache_le a b /\ heap_le a b /\ gains a b P.

Lemma ext_refl : forall P st, ext P st st.
Proof.
  intros P st. split; [|split].
  - intros id e H. exact H.
  - exists []. rewrite app_nil_r. reflexivity.
  - intros id H1 H2. congruence.
Qed.

Lemma ext_trans : forall P Q a b c, ext P a b -> ext Q b c -> ext (fun id => P id \/ Q id) a c.
Proof.
  intros P Q a b c (C1 & (e1 & H1) & G1) (C2 & (e2 & H2) & G2). split; [|split].
  - intros id e H. apply C2. apply C1. exact H.
  - exists (e1 ++ e2). rewrite H2, H1, app_assoc. reflexivity.
  - intros id Ha Hc. destruct (cache_find id b) eqn:Eb.
    + left. apply G1; [assumption|congruence].
    + right. apply G2; assumption.
Qed.

Lemma ext_weaken : forall (P Q : Z -> Prop) a b, (forall id, P id -> Q id) -> ext P a b -> ext Q a b.
Proof. intros P Q a b HPQ (C & H & G). split; [assumption|split; [assumption|]]. intros id H1 H2. apply HPQ. apply G; assumption. Qed.

Lemma cache_find_add_other : forall id id' ty v st, id' <> id -> cache_find id' (cache_add id ty v st) = cache_find id' st.
Proof.
  intros. unfold cache_find, cache_add. simpl. destruct (id =? id') eqn:E; [apply Z.eqb_eq in E; congruence|reflexivity].
Qed.

Lemma ext_add : forall id ty v st, cache_find id st = None -> ext (fun i => i = id) st (cache_add id ty v st).
Proof.
  intros id ty v st Hn. split; [|split].
  - intros id' e H. rewrite cache_find_add_other; [assumption|]. intro; subst. congruence.
  - exists []. simpl. rewrite app_nil_r. reflexivity.
  - intros id' H1 H2. destruct (Z.eq_dec id' id); [assumption|]. rewrite cache_find_add_other in H2 by assumption. congruence.
Qed.

Lemma ext_alloc : forall v st, ext (fun _ => False) st (snd (alloc v st)).
Proof.
  intros v st. split; [|split].
  - intros id e H. exact H.
  - exists [v]. reflexivity.
  - intros id H1 H2. simpl in H2. unfold cache_find in *. simpl in *. congruence.
Qed.

(* ---- folds ---------------------------------------------------------------------------------- *)

Lemma conv_list_ext : forall A B (F : A -> state -> res (B * state)) (occ : A -> Z -> Prop) l,
    (forall a st b st', In a l -> F a st = Ok (b, st') -> ext (occ a) st st') ->
    forall st bs st', conv_list F l st = Ok (bs, st') -> ext (fun id => exists a, In a l /\ occ a id) st st'.
Proof.
  induction l as [|a l IH]; intros HF st bs st' H; simpl in H.
  - inversion H; subst. apply ext_refl.
  - destruct (F a st) as [[b st1]| | | |] eqn:E1; simpl in H; try discriminate.
    destruct (conv_list F l st1) as [[bs1 st2]| | | |] eqn:E2; simpl in H; try discriminate.
    inversion H; subst.
    eapply ext_weaken; [|eapply ext_trans; [eapply HF; [left; reflexivity|eassumption]|eapply IH; [|eassumption]]].
    + intros id [Ha | (a' & Hin & Ho)]; [exists a; split; [left; reflexivity|assumption]|exists a'; split; [right; assumption|assumption]].
    + intros a0 st0 b0 st0' Hin. apply HF. right. assumption.
Qed.

Lemma fill_ext : forall res_ te bty cv (occ : sx -> Z -> Prop) l,
    (forall kv sty curv st nv st', In kv l -> cv sty curv (snd kv) st = Ok (nv, st') -> ext (occ (snd kv)) st st') ->
    forall base st b' st',
      fold_left (fill_step res_ te bty cv) l (Ok (base, st)) = Ok (b', st') ->
      ext (fun id => exists kv, In kv l /\ occ (snd kv) id) st st'.
Proof.
  induction l as [|kv l IH]; intros Hcv base st b' st' H; simpl in H.
  - inversion H; subst. apply ext_refl.
  - destruct (fill_head_ok _ _ _ _ _ _ _ H) as [[b1 st1] Hstep]. rewrite Hstep in H.
    destruct (fill_step_ok_inv _ _ _ _ _ _ _ _ _ Hstep) as (path & sty & curv & nv & _ & _ & _ & Hc & _).
    eapply ext_weaken; [|eapply ext_trans; [eapply Hcv; [left; reflexivity|eassumption]|eapply IH; [|eassumption]]].
    + intros id [Ha | (kv' & Hin & Ho)]; [exists kv; split; [left; reflexivity|assumption]|exists kv'; split; [right; assumption|assumption]].
    + intros kv0 sty0 curv0 st0 nv0 st0' Hin. apply Hcv. right. assumption.
Qed.

(* ---- compact form of the record and hash branches ------------------------------------------- *)

(* which struct is filled, and starting from what *)
Definition rec_base (f : nat) (te : tenv) (top : bool) (ty : gotype) (cur : goval) (sn : str) : option (str * goval) :=
  match ty with
  | TStruct tname => if top || str_eqb tname sn then Some (tname, cur) else None
  | TPtr tname => if str_eqb tname sn then option_map (pair sn) (zero_of f te (TStruct sn)) else None
  | TIface i => if implements te sn i then option_map (pair sn) (zero_of f te (TStruct sn)) else None
  | _ => None
  end.

(* what happens with the filled struct: stored in the slot, or allocated and pointed to; cached *)
Definition rec_finish (top : bool) (ty : gotype) (id : Z) (sn : str) (b : goval) (st1 : state) : goval * state :=
  match ty with
  | TPtr _ => (GPtr (Some (length (heap st1))),
               cache_add id ty (GPtr (Some (length (heap st1)))) (snd (alloc b st1)))
  | TIface _ => (GIface (Some (sn, length (heap st1))),
                 cache_add id ty (GIface (Some (sn, length (heap st1)))) (snd (alloc b st1)))
  | _ => (b, if top then st1 else cache_add id ty b st1)
  end.

Lemma conv_rec_miss_inv : forall f te top ty cur id tn fs st v st',
    cache_find id st = None ->
    conv (S f) te top ty cur (SRec id tn fs) st = Ok (v, st') ->
    exists d bty base b st1,
      find_reg te tn = Some d /\ rec_base f te top ty cur (s_name d) = Some (bty, base) /\
      fold_left (fill_step (resolve_key f te (s_name d)) te bty (conv f te false)) fs (Ok (base, st)) = Ok (b, st1) /\
      rec_finish top ty id (s_name d) b st1 = (v, st').
Proof.
  intros f te top ty cur id tn fs st v st' Hc H.
  destruct ty; simpl in H; try discriminate; rewrite Hc in H; simpl in H; try discriminate;
    destruct (find_reg te tn) as [d|]; try discriminate; simpl in H; exists d.
  - destruct (str_eqb s (s_name d)) eqn:Es; [|discriminate].
    destruct (zero_of f te (TStruct (s_name d))) as [z|] eqn:Ez; [|discriminate].
    match type of H with context [fold_left ?F fs ?A] => destruct (fold_left F fs A) as [[b st1]| | | |] eqn:E end;
      simpl in H; try discriminate.
    inversion H; subst. exists (s_name d), z, b, st1. unfold rec_base. rewrite Es, Ez. simpl. repeat split; assumption.
  - destruct (top || str_eqb s (s_name d)) eqn:Es; [|discriminate].
    match type of H with context [fold_left ?F fs ?A] => destruct (fold_left F fs A) as [[b st1]| | | |] eqn:E end;
      simpl in H; try discriminate.
    inversion H; subst. exists s, cur, v, st1. unfold rec_base. rewrite Es. repeat split; assumption.
  - destruct (implements te (s_name d) i) eqn:Es; [|discriminate].
    destruct (zero_of f te (TStruct (s_name d))) as [z|] eqn:Ez; [|discriminate].
    match type of H with context [fold_left ?F fs ?A] => destruct (fold_left F fs A) as [[b st1]| | | |] eqn:E end;
      simpl in H; try discriminate.
    inversion H; subst. exists (s_name d), z, b, st1. unfold rec_base. rewrite Es, Ez. simpl. repeat split; assumption.
Qed.

Lemma conv_hit_inv : forall f te top ty cur s id st e v st',
    match s with SRec i _ _ | SHash i _ => i = id | _ => False end ->
    cache_find id st = Some e ->
    conv (S f) te top ty cur s st = Ok (v, st') ->
    st' = st /\ assign te ty (fst e) (snd e) = Ok v.
Proof.
  intros f te top ty cur s id st [cty cv] v st' Hs Hc H.
  destruct s; try contradiction; subst; destruct ty; simpl in H; try discriminate; rewrite Hc in H;
    match type of H with context [assign ?a ?b ?c ?d] => destruct (assign a b c d) eqn:E end; simpl in H; try discriminate;
    inversion H; subst; split; try reflexivity; assumption.
Qed.

Lemma conv_list_pure : forall A B (F : A -> state -> res (B * state)) l,
    (forall a st b st', F a st = Ok (b, st') -> st' = st) ->
    forall st bs st', conv_list F l st = Ok (bs, st') -> st' = st.
Proof.
  induction l as [|a l IH]; intros HF st bs st' H; simpl in H.
  - inversion H; reflexivity.
  - destruct (F a st) as [[b st1]| | | |] eqn:E1; simpl in H; try discriminate.
    destruct (conv_list F l st1) as [[bs1 st2]| | | |] eqn:E2; simpl in H; try discriminate.
    inversion H; subst. apply HF in E1. subst. eapply IH; eassumption.
Qed.

(* the map branch for interface values *)
Definition map_iface_step (f : nat) (te : tenv) (i : str) (kv : str * sx) (st0 : state) : res ((str * goval) * state) :=
  do (v, st2) <- conv f te false (TIface i) (GIface None) (snd kv) st0; Ok ((fst kv, v), st2).

Lemma conv_hash_miss_inv : forall f te top ty cur id fs st v st',
    cache_find id st = None ->
    conv (S f) te top ty cur (SHash id fs) st = Ok (v, st') ->
    exists st1, st' = cache_add id ty v st1 /\
      (st1 = st \/ exists i kvs, ty = TMap (TIface i) /\ v = GMap kvs /\ conv_list (map_iface_step f te i) fs st = Ok (kvs, st1)).
Proof.
  intros f te top ty cur id fs st v st' Hc H.
  destruct ty; simpl in H; try discriminate; rewrite Hc in H; simpl in H; try discriminate.
  destruct ty; simpl in H; try discriminate.
  - match type of H with context [conv_list ?F fs st] => destruct (conv_list F fs st) as [[kvs st1]| | | |] eqn:E end;
      simpl in H; try discriminate.
    inversion H; subst. exists st1. split; [reflexivity|]. left.
    eapply conv_list_pure; [|eassumption]. intros a st0 b st0' Ha.
    cbv beta in Ha. destruct (snd a); try discriminate; try (inversion Ha; reflexivity);
      try (destruct (float_bits_of_int z); try discriminate; inversion Ha; reflexivity).
  - match type of H with context [conv_list ?F fs st] => destruct (conv_list F fs st) as [[kvs st1]| | | |] eqn:E end;
      simpl in H; try discriminate.
    inversion H; subst. exists st1. split; [reflexivity|]. left.
    eapply conv_list_pure; [|eassumption]. intros a st0 b st0' Ha.
    cbv beta in Ha. destruct (snd a); try discriminate; try (inversion Ha; reflexivity);
      try (destruct (float_bits_of_int z); try discriminate; inversion Ha; reflexivity).
  - match type of H with context [conv_list ?F fs st] => destruct (conv_list F fs st) as [[kvs st1]| | | |] eqn:E end;
      simpl in H; try discriminate.
    inversion H; subst. exists st1. split; [reflexivity|]. right. exists i, kvs. repeat split. exact E.
Qed.

Lemma ext_add_after : forall (P : Z -> Prop) id ty v st st1,
    cache_find id st = None -> ext P st st1 -> ext (fun i => P i \/ i = id) st (cache_add id ty v st1).
Proof.
  intros P id ty v st st1 Hn (C & H & G). split; [|split].
  - intros id' e He. rewrite cache_find_add_other; [apply C; assumption|]. intro; subst. congruence.
  - exact H.
  - intros id' H1 H2. destruct (Z.eq_dec id' id); [right; assumption|left].
    rewrite cache_find_add_other in H2 by assumption. apply G; assumption.
Qed.

Lemma ext_then_alloc : forall (P : Z -> Prop) b st st1, ext P st st1 -> ext P st (snd (alloc b st1)).
Proof.
  intros P b st st1 H. eapply ext_weaken; [|eapply ext_trans; [exact H|apply ext_alloc]].
  intros id [Hp|[]]. exact Hp.
Qed.

Lemma rec_finish_ext : forall (P : Z -> Prop) top ty id sn b st st1 v st',
    cache_find id st = None -> ext P st st1 -> rec_finish top ty id sn b st1 = (v, st') ->
    ext (fun i => P i \/ i = id) st st'.
Proof.
  intros P top ty id sn b st st1 v st' Hn He Hf.
  destruct ty; simpl in Hf; inversion Hf; subst;
    try (destruct top; [eapply ext_weaken; [|exact He]; intros; left; assumption|apply ext_add_after; assumption]);
    apply ext_add_after; try assumption; apply ext_then_alloc; assumption.
Qed.

(* THE INVARIANT: every conversion only extends the state: cache entries present before stay and keep their
   target, the heap only grows (nothing is overwritten), and every identity that enters the cache occurs in the
   converted value *)
Theorem conv_ext : forall fuel te top ty cur s st v st',
    conv fuel te top ty cur s st = Ok (v, st') -> ext (fun id => occurs id s = true) st st'.
Proof.
  induction fuel as [|f IH]; intros te top ty cur s st v st' H; [discriminate|].
  destruct s.
  1-10: (destruct ty; simpl in H; try discriminate;
         repeat match type of H with context [match ?x with _ => _ end] => destruct x eqn:?; try discriminate end;
         inversion H; subst; apply ext_refl).
  - (* SArr *)
    destruct ty; simpl in H; try discriminate.
    + destruct l; [inversion H; subst; apply ext_refl|].
      match type of H with context [if ?c then _ else _] => destruct c end; discriminate.
    + destruct (zero_of f te ty) as [z|]; [|discriminate].
      match type of H with context [conv_list ?F l st] => destruct (conv_list F l st) as [[vs st1]| | | |] eqn:E end;
        simpl in H; try discriminate.
      inversion H; subst.
      eapply ext_weaken; [|eapply (conv_list_ext _ _ _ (fun e id => occurs id e = true)); [|exact E]].
      * intros id (a & Hin & Ho). simpl. apply existsb_exists. exists a. split; assumption.
      * intros a st0 b st0' _ Ha. eapply IH. exact Ha.
  - (* SRec *)
    destruct (cache_find id st) as [e|] eqn:Hc.
    + destruct (conv_hit_inv _ _ _ _ _ (SRec id tn fs) id _ _ _ _ eq_refl Hc H) as [Hs _]. subst. apply ext_refl.
    + destruct (conv_rec_miss_inv _ _ _ _ _ _ _ _ _ _ _ Hc H) as (d & bty & base & b & st1 & _ & _ & Hfold & Hfin).
      eapply ext_weaken; [|eapply rec_finish_ext; [exact Hc| |exact Hfin]].
      2: { eapply (fill_ext _ _ _ _ (fun e id => occurs id e = true)); [|exact Hfold].
           intros kv sty curv st0 nv st0' _ Hk. eapply IH. exact Hk. }
      intros i [(kv & Hin & Ho) | Heq]; simpl.
      * apply orb_true_iff. right. apply existsb_exists. exists kv. split; assumption.
      * subst. rewrite Z.eqb_refl. reflexivity.
  - (* SHash *)
    destruct (cache_find id st) as [e|] eqn:Hc.
    + destruct (conv_hit_inv _ _ _ _ _ (SHash id fs) id _ _ _ _ eq_refl Hc H) as [Hs _]. subst. apply ext_refl.
    + destruct (conv_hash_miss_inv _ _ _ _ _ _ _ _ _ _ Hc H) as (st1 & Hst & Hcase). subst st'.
      destruct Hcase as [Heq | (i & kvs & Hty & Hv & Hl)].
      * subst st1. eapply ext_weaken; [|apply ext_add_after; [exact Hc|apply (ext_refl (fun _ => False))]].
        intros i [[]|Heq]. subst. simpl. rewrite Z.eqb_refl. reflexivity.
      * eapply ext_weaken; [|apply ext_add_after; [exact Hc|]].
        2: { eapply (conv_list_ext _ _ _ (fun kv id => occurs id (snd kv) = true)); [|exact Hl].
             intros a st0 b st0' _ Ha. unfold map_iface_step in Ha.
             destruct (conv f te false (TIface i) (GIface None) (snd a) st0) as [[x st2]| | | |] eqn:Ec; simpl in Ha; try discriminate.
             inversion Ha; subst. eapply IH. exact Ec. }
        intros i0 [(kv & Hin & Ho) | Heq]; simpl.
        -- apply orb_true_iff. right. apply existsb_exists. exists kv. split; assumption.
        -- subst. rewrite Z.eqb_refl. reflexivity.
Qed.

(* ---- the calls of conv inside a conversion ---------------------------------------------------- *)

Record call := mkCall { c_f : nat; c_top : bool; c_ty : gotype; c_cur : goval; c_s : sx;
                        c_st : state; c_v : goval; c_st' : state }.

Definition ok (te : tenv) (c : call) : Prop :=
  conv (c_f c) te (c_top c) (c_ty c) (c_cur c) (c_s c) (c_st c) = Ok (c_v c, c_st' c).

(* sub te p c: c is a conversion that p performs directly: of an element of a slice, of a value of a
   map[string]Iface, or of the value of a field of a record (into a pointer, interface, struct or any other
   slot); the state c starts from is the one reached after the elements / pairs before it *)
Inductive sub (te : tenv) : call -> call -> Prop :=
| sub_slice : forall f top et cur l1 e l2 st v st' z vs1 sta b stb,
    zero_of f te et = Some z ->
    conv_list (fun e0 st0 => conv f te false et z e0 st0) l1 st = Ok (vs1, sta) ->
    sub te (mkCall (S f) top (TSlice et) cur (SArr (l1 ++ e :: l2)) st v st') (mkCall f false et z e sta b stb)
| sub_map : forall f top i cur id fs1 kv fs2 st v st' kvs1 sta b stb,
    cache_find id st = None ->
    conv_list (map_iface_step f te i) fs1 st = Ok (kvs1, sta) ->
    sub te (mkCall (S f) top (TMap (TIface i)) cur (SHash id (fs1 ++ kv :: fs2)) st v st')
        (mkCall f false (TIface i) (GIface None) (snd kv) sta b stb)
| sub_field : forall f top ty cur id tn fs1 kv fs2 st v st' d bty base b1 sta path sty curv nv stb,
    cache_find id st = None -> find_reg te tn = Some d ->
    rec_base f te top ty cur (s_name d) = Some (bty, base) ->
    fold_left (fill_step (resolve_key f te (s_name d)) te bty (conv f te false)) fs1 (Ok (base, st)) = Ok (b1, sta) ->
    resolve_key f te (s_name d) (fst kv) = Some path -> slot_type te bty path = Ok sty -> get_path b1 path = Some curv ->
    sub te (mkCall (S f) top ty cur (SRec id tn (fs1 ++ kv :: fs2)) st v st')
        (mkCall f false sty curv (snd kv) sta nv stb).

Lemma conv_list_app_inv : forall A B (F : A -> state -> res (B * state)) l1 a l2 st bs st' bs1 sta b stb,
    conv_list F (l1 ++ a :: l2) st = Ok (bs, st') ->
    conv_list F l1 st = Ok (bs1, sta) -> F a sta = Ok (b, stb) ->
    exists bs2, conv_list F l2 stb = Ok (bs2, st').
Proof.
  induction l1 as [|x l1 IH]; intros a l2 st bs st' bs1 sta b stb H H1 Ha; simpl in *.
  - inversion H1; subst. rewrite Ha in H. simpl in H.
    destruct (conv_list F l2 stb) as [[bs2 st2]| | | |]; simpl in H; try discriminate. inversion H; subst. exists bs2. reflexivity.
  - destruct (F x st) as [[y st1]| | | |]; simpl in *; try discriminate.
    destruct (conv_list F l1 st1) as [[ys st2]| | | |] eqn:E1; simpl in H1; try discriminate. inversion H1; subst.
    destruct (conv_list F (l1 ++ a :: l2) st1) as [[zs st3]| | | |] eqn:E2; simpl in H; try discriminate. inversion H; subst.
    eapply IH; eassumption.
Qed.

Lemma ext_none : forall (P : Z -> Prop) a b id, ext P a b -> cache_find id a = None -> ~ P id -> cache_find id b = None.
Proof.
  intros P a b id (_ & _ & G) Hn Hp. destruct (cache_find id b) eqn:E; [|reflexivity]. exfalso. apply Hp. apply G; congruence.
Qed.

Lemma cache_le_add_fresh : forall a st1 id ty v, cache_le a st1 -> cache_find id a = None -> cache_le a (cache_add id ty v st1).
Proof.
  intros a st1 id ty v C Hn id' e He. rewrite cache_find_add_other; [apply C; assumption|]. intro; subst. congruence.
Qed.

Lemma heap_le_trans : forall a b c, heap_le a b -> heap_le b c -> heap_le a c.
Proof. intros a b c (e1 & H1) (e2 & H2). exists (e1 ++ e2). rewrite H2, H1, app_assoc. reflexivity. Qed.

Lemma rec_finish_window : forall top ty id sn b stb st1 v st',
    cache_le stb st1 -> heap_le stb st1 -> cache_find id stb = None ->
    rec_finish top ty id sn b st1 = (v, st') -> cache_le stb st' /\ heap_le stb st'.
Proof.
  intros top ty id sn b stb st1 v st' C Hh Hn Hf.
  destruct ty; simpl in Hf; inversion Hf; subst;
    try (destruct top; split; try assumption; try (apply cache_le_add_fresh; assumption); fail);
    (split; [apply cache_le_add_fresh; assumption
            |eapply heap_le_trans; [exact Hh|]; exists [b]; reflexivity]).
Qed.

Lemma acyclic_occurs_field : forall id (fs : list (str * sx)) kv, negb (existsb (fun kv0 => occurs id (snd kv0)) fs) = true ->
    In kv fs -> occurs id (snd kv) = false.
Proof.
  intros id fs kv H Hin. apply negb_true_iff in H. destruct (occurs id (snd kv)) eqn:E; [|reflexivity].
  assert (existsb (fun kv0 => occurs id (snd kv0)) fs = true) by (apply existsb_exists; exists kv; split; assumption). congruence.
Qed.

Lemma conv_map_iface_inv : forall f te top i cur id fs st v st',
    cache_find id st = None ->
    conv (S f) te top (TMap (TIface i)) cur (SHash id fs) st = Ok (v, st') ->
    exists kvs st1, conv_list (map_iface_step f te i) fs st = Ok (kvs, st1) /\ v = GMap kvs /\
                    st' = cache_add id (TMap (TIface i)) v st1.
Proof.
  intros f te top i cur id fs st v st' Hc H. simpl in H. rewrite Hc in H. simpl in H.
  match type of H with context [conv_list ?F fs st] => destruct (conv_list F fs st) as [[kvs st1]| | | |] eqn:E end;
    simpl in H; try discriminate.
  inversion H; subst. exists kvs, st1. repeat split. exact E.
Qed.

(* the window of a direct sub-conversion lies inside the window of its parent: what the sub-conversion leaves
   in the cache and the heap is still there when the parent returns *)
Lemma sub_window : forall te p c,
    sub te p c -> ok te p -> ok te c -> acyclic (c_s p) = true ->
    cache_le (c_st' c) (c_st' p) /\ heap_le (c_st' c) (c_st' p) /\ acyclic (c_s c) = true.
Proof.
  intros te p c Hs Hp Hc Hac. unfold ok in *. destruct Hs; cbn [c_f c_top c_ty c_cur c_s c_st c_v c_st'] in *.
  - (* slice *)
    simpl in Hp, Hac. rewrite H in Hp.
    match type of Hp with context [conv_list ?F ?l st] => destruct (conv_list F l st) as [[vs st1]| | | |] eqn:E end;
      simpl in Hp; try discriminate.
    inversion Hp; subst.
    destruct (conv_list_app_inv _ _ _ _ _ _ _ _ _ _ _ _ _ E H0 Hc) as [bs2 H2].
    pose proof (conv_list_ext _ _ _ (fun e0 id => occurs id e0 = true) l2
                  (fun a st0 b0 st0' _ Ha => conv_ext _ _ _ _ _ _ _ _ _ Ha) _ _ _ H2) as (C & Hh & _).
    split; [exact C|split; [exact Hh|]].
    rewrite forallb_app in Hac. apply andb_true_iff in Hac. destruct Hac as [_ Hac]. simpl in Hac.
    apply andb_true_iff in Hac. apply Hac.
  - (* map of interfaces *)
    simpl in Hac. apply andb_true_iff in Hac. destruct Hac as [Hself Hall].
    destruct (conv_map_iface_inv _ _ _ _ _ _ _ _ _ _ H Hp) as (kvs & st1 & Hl & Hv & Hst).
    assert (Hstep : map_iface_step f te i kv sta = Ok ((fst kv, b), stb)) by (unfold map_iface_step; rewrite Hc; reflexivity).
    destruct (conv_list_app_inv _ _ _ _ _ _ _ _ _ _ _ _ _ Hl H0 Hstep) as [bs2 H2].
    assert (Hmi : forall a st0 b0 st0', map_iface_step f te i a st0 = Ok (b0, st0') -> ext (fun id0 => occurs id0 (snd a) = true) st0 st0').
    { intros a st0 b0 st0' Ha. unfold map_iface_step in Ha.
      destruct (conv f te false (TIface i) (GIface None) (snd a) st0) as [[x st2]| | | |] eqn:Ec; simpl in Ha; try discriminate.
      inversion Ha; subst. eapply conv_ext. exact Ec. }
    pose proof (conv_list_ext _ _ _ (fun a id0 => occurs id0 (snd a) = true) fs2 (fun a st0 b0 st0' _ Ha => Hmi _ _ _ _ Ha) _ _ _ H2) as (C & Hh & _).
    pose proof (conv_list_ext _ _ _ (fun a id0 => occurs id0 (snd a) = true) fs1 (fun a st0 b0 st0' _ Ha => Hmi _ _ _ _ Ha) _ _ _ H0) as E1.
    pose proof (Hmi _ _ _ _ Hstep) as E2.
    assert (Hna : cache_find id sta = None).
    { eapply ext_none; [exact E1|exact H|]. intros (a & Hin & Ho).
      rewrite (acyclic_occurs_field id (fs1 ++ kv :: fs2) a Hself) in Ho; [discriminate|]. apply in_or_app. left. exact Hin. }
    assert (Hnb : cache_find id stb = None).
    { eapply ext_none; [exact E2|exact Hna|]. intros Ho.
      rewrite (acyclic_occurs_field id (fs1 ++ kv :: fs2) kv Hself) in Ho; [discriminate|]. apply in_or_app. right. left. reflexivity. }
    subst st'. split; [apply cache_le_add_fresh; assumption|split; [exact Hh|]].
    rewrite forallb_app in Hall. apply andb_true_iff in Hall. destruct Hall as [_ Hall]. simpl in Hall.
    apply andb_true_iff in Hall. apply Hall.
  - (* field of a record *)
    simpl in Hac. apply andb_true_iff in Hac. destruct Hac as [Hself Hall].
    destruct (conv_rec_miss_inv _ _ _ _ _ _ _ _ _ _ _ H Hp) as (d' & bty' & base' & bfin & st1 & Hr' & Hb' & Hfold & Hfin).
    rewrite H0 in Hr'. inversion Hr'; subst d'. rewrite H1 in Hb'. inversion Hb'; subst bty' base'.
    rewrite fold_left_app in Hfold. simpl in Hfold. rewrite H2 in Hfold.
    assert (Hcvx : forall (kv0 : str * sx) sty0 curv0 st0 nv0 st0', conv f te false sty0 curv0 (snd kv0) st0 = Ok (nv0, st0') ->
                                                        ext (fun id0 => occurs id0 (snd kv0) = true) st0 st0').
    { intros. eapply conv_ext. eassumption. }
    destruct (fill_head_ok _ _ _ _ _ _ _ Hfold) as [[b2 st2] Hstep].
    rewrite Hstep in Hfold.
    destruct (fill_step_ok_inv _ _ _ _ _ _ _ _ _ Hstep) as (path' & sty' & curv' & nv' & Hr2 & Hty2 & Hg2 & Hcv2 & _).
    rewrite H3 in Hr2. inversion Hr2; subst path'.
    assert (sty' = sty) by (unfold slot_type in H4; rewrite Hty2 in H4; inversion H4; reflexivity). subst sty'.
    rewrite H5 in Hg2. inversion Hg2; subst curv'.
    rewrite Hc in Hcv2. inversion Hcv2; subst nv' st2.
    pose proof (fill_ext _ _ _ _ (fun e0 id0 => occurs id0 e0 = true) fs2
                  (fun kv0 sty0 curv0 st0 nv0 st0' _ Hk => Hcvx kv0 _ _ _ _ _ Hk) _ _ _ _ Hfold) as (C & Hh & _).
    pose proof (fill_ext _ _ _ _ (fun e0 id0 => occurs id0 e0 = true) fs1
                  (fun kv0 sty0 curv0 st0 nv0 st0' _ Hk => Hcvx kv0 _ _ _ _ _ Hk) _ _ _ _ H2) as E1.
    pose proof (conv_ext _ _ _ _ _ _ _ _ _ Hc) as E2.
    assert (Hna : cache_find id sta = None).
    { eapply ext_none; [exact E1|exact H|]. intros (a & Hin & Ho).
      rewrite (acyclic_occurs_field id (fs1 ++ kv :: fs2) a Hself) in Ho; [discriminate|]. apply in_or_app. left. exact Hin. }
    assert (Hnb : cache_find id stb = None).
    { eapply ext_none; [exact E2|exact Hna|]. intros Ho.
      rewrite (acyclic_occurs_field id (fs1 ++ kv :: fs2) kv Hself) in Ho; [discriminate|]. apply in_or_app. right. left. reflexivity. }
    destruct (rec_finish_window _ _ _ _ _ _ _ _ _ C Hh Hnb Hfin) as [C' Hh'].
    split; [exact C'|split; [exact Hh'|]].
    rewrite forallb_app in Hall. apply andb_true_iff in Hall. destruct Hall as [_ Hall]. simpl in Hall.
    apply andb_true_iff in Hall. apply Hall.
Qed.

(* all conversions performed, directly or indirectly, inside a conversion (each with its actual outcome) *)
Inductive subs (te : tenv) : call -> call -> Prop :=
| subs_refl : forall c, subs te c c
| subs_step : forall p c c', subs te p c -> sub te c c' -> ok te c' -> subs te p c'.

Lemma subs_window : forall te p c,
    subs te p c -> ok te p -> acyclic (c_s p) = true ->
    ok te c /\ cache_le (c_st' c) (c_st' p) /\ heap_le (c_st' c) (c_st' p) /\ acyclic (c_s c) = true.
Proof.
  intros te p c Hs Hp Hac. induction Hs as [c|p c c' Hs IH Hsub Hok].
  - repeat split; try assumption. intros id e H; exact H. exists []. rewrite app_nil_r. reflexivity.
  - destruct (IH Hp Hac) as (Hokc & C & Hh & Hacc).
    destruct (sub_window _ _ _ Hsub Hokc Hok Hacc) as (C' & Hh' & Hac').
    repeat split; try assumption.
    + intros id e H. apply C. apply C'. exact H.
    + eapply heap_le_trans; eassumption.
Qed.

(* the outcome of converting a record (below top level) is what the cache then holds for its identity *)
Lemma record_result_cached : forall te c id tn fs,
    ok te c -> c_s c = SRec id tn fs -> c_top c = false -> c_ty c <> TUnsupported ->
    exists e, cache_find id (c_st' c) = Some e /\ assign te (c_ty c) (fst e) (snd e) = Ok (c_v c).
Proof.
  intros te [f top ty cur s st v st'] id tn fs Hok Hs Htop Hty. unfold ok in Hok. simpl in *. subst s top.
  destruct f as [|f]; [discriminate|].
  destruct (cache_find id st) as [e|] eqn:Hc.
  - destruct (conv_hit_inv _ _ _ _ _ (SRec id tn fs) id _ _ _ _ eq_refl Hc Hok) as [Hst Ha]. subst st'.
    exists e. split; assumption.
  - exists (ty, v). split; [eapply conv_rec_caches; eassumption|].
    simpl. unfold assign. rewrite gotype_eqb_refl. reflexivity.
Qed.

(* TO_GO_SHARES, in full: inside one conversion of an acyclic value, ANY two conversions of records with the same
   identity into slots of the same type — at any depths, through pointer fields, struct values, slices, interface
   fields and map values, however many other conversions lie between them — produce the same content: for pointer
   and interface slots, a pointer to the same heap object *)
Theorem to_go_shares_full : forall te root c1 c2 id tn1 fs1 tn2 fs2,
    ok te root -> acyclic (c_s root) = true ->
    subs te root c1 -> subs te root c2 ->
    c_s c1 = SRec id tn1 fs1 -> c_s c2 = SRec id tn2 fs2 ->
    c_top c1 = false -> c_top c2 = false ->
    c_ty c1 = c_ty c2 -> c_ty c1 <> TUnsupported ->
    c_v c1 = c_v c2.
Proof.
  intros te root c1 c2 id tn1 fs1 tn2 fs2 Hok Hac H1 H2 Hs1 Hs2 Ht1 Ht2 Hty Hun.
  destruct (subs_window _ _ _ H1 Hok Hac) as (Hok1 & C1 & _ & _).
  destruct (subs_window _ _ _ H2 Hok Hac) as (Hok2 & C2 & _ & _).
  destruct (record_result_cached _ _ _ _ _ Hok1 Hs1 Ht1 Hun) as (e1 & He1 & Ha1).
  assert (Hun2 : c_ty c2 <> TUnsupported) by (rewrite <- Hty; exact Hun).
  destruct (record_result_cached _ _ _ _ _ Hok2 Hs2 Ht2 Hun2) as (e2 & He2 & Ha2).
  apply C1 in He1. apply C2 in He2. rewrite He1 in He2. inversion He2; subst e2.
  rewrite Hty in Ha1. rewrite Ha1 in Ha2. inversion Ha2. reflexivity.
Qed.

(* a pointer slot and an interface slot that both receive the record: the same heap location *)
Theorem to_go_shares_ptr_iface : forall te root c1 c2 id tn1 fs1 tn2 fs2 s i,
    ok te root -> acyclic (c_s root) = true ->
    subs te root c1 -> subs te root c2 ->
    c_s c1 = SRec id tn1 fs1 -> c_s c2 = SRec id tn2 fs2 ->
    c_top c1 = false -> c_top c2 = false ->
    c_ty c1 = TPtr s -> c_ty c2 = TIface i ->
    exists loc, c_v c1 = GPtr (Some loc) /\ c_v c2 = GIface (Some (s, loc)).
Proof.
  intros te root c1 c2 id tn1 fs1 tn2 fs2 s i Hok Hac H1 H2 Hs1 Hs2 Ht1 Ht2 Hty1 Hty2.
  destruct (subs_window _ _ _ H1 Hok Hac) as (Hok1 & C1 & _ & _).
  destruct (subs_window _ _ _ H2 Hok Hac) as (Hok2 & C2 & _ & _).
  assert (Hu1 : c_ty c1 <> TUnsupported) by (rewrite Hty1; discriminate).
  assert (Hu2 : c_ty c2 <> TUnsupported) by (rewrite Hty2; discriminate).
  destruct (record_result_cached _ _ _ _ _ Hok1 Hs1 Ht1 Hu1) as ([cty cv] & He1 & Ha1).
  destruct (record_result_cached _ _ _ _ _ Hok2 Hs2 Ht2 Hu2) as (e2 & He2 & Ha2).
  apply C1 in He1. apply C2 in He2. rewrite He1 in He2. inversion He2; subst e2. clear He2.
  rewrite Hty1 in Ha1. rewrite Hty2 in Ha2. simpl in Ha1, Ha2. unfold assign in Ha1, Ha2.
  destruct (gotype_eqb (TPtr s) cty) eqn:E1.
  - apply gotype_eqb_eq in E1. subst cty. inversion Ha1; subst cv.
    simpl in Ha2. destruct (c_v c1) as [| | | | | | |[loc|]| | | |] eqn:Ev; try discriminate.
    destruct (implements te s i); [|discriminate]. inversion Ha2. exists loc. split; reflexivity.
  - destruct cty; simpl in Ha1; discriminate.
Qed.

(* a conversion of a record whose identity is already in the cache changes neither cache nor heap: the object is
   allocated by the first conversion only *)
Theorem shared_hit_allocates_nothing : forall te c id tn fs,
    ok te c -> c_s c = SRec id tn fs -> cache_find id (c_st c) <> None -> c_st' c = c_st c.
Proof.
  intros te [f top ty cur s st v st'] id tn fs Hok Hs Hc. unfold ok in Hok. simpl in *. subst s.
  destruct f as [|f]; [discriminate|].
  destruct (cache_find id st) as [e|] eqn:E; [|congruence].
  destruct (conv_hit_inv _ _ _ _ _ (SRec id tn fs) id _ _ _ _ eq_refl E Hok) as [Hst _]. exact Hst.
Qed.

(* ... and once a conversion of the record has returned, its identity is in the cache of every later state *)
Theorem record_stays_cached : forall te c id tn fs fuel top ty cur s v st'',
    ok te c -> c_s c = SRec id tn fs -> c_top c = false -> c_ty c <> TUnsupported ->
    conv fuel te top ty cur s (c_st' c) = Ok (v, st'') -> cache_find id st'' <> None.
Proof.
  intros te c id tn fs fuel top ty cur s v st'' Hok Hs Ht Hu H.
  destruct (record_result_cached _ _ _ _ _ Hok Hs Ht Hu) as (e & He & _).
  destruct (conv_ext _ _ _ _ _ _ _ _ _ H) as (C & _ & _). rewrite (C _ _ He). discriminate.
Qed.

(* converting a record into a struct-VALUED slot (an embedded struct addressed by its own key, a plain struct field,
   an element being filled in place) writes only the fields the record names: whatever the slot already holds at the
   other paths — e.g. values written through promoted field names of the parent record — is still there *)
Theorem struct_slot_keeps_untouched : forall f te top tname cur id tn fs st d b st' q,
    cache_find id st = None -> find_reg te tn = Some d ->
    conv (S f) te top (TStruct tname) cur (SRec id tn fs) st = Ok (b, st') ->
    (forall p, In p (res_paths (resolve_key f te (s_name d)) fs) -> is_prefix p q = false /\ is_prefix q p = false) ->
    get_path b q = get_path cur q.
Proof.
  intros f te top tname cur id tn fs st d b st' q Hc Hr H Hind.
  destruct (conv_rec_miss_inv _ _ _ _ _ _ _ _ _ _ _ Hc H) as (d' & bty & base & b0 & st1 & Hr' & Hb & Hfold & Hfin).
  rewrite Hr in Hr'. inversion Hr'; subst d'. simpl in Hb.
  destruct (top || str_eqb tname (s_name d)); [|discriminate]. inversion Hb; subst bty base.
  simpl in Hfin. inversion Hfin; subst b0.
  eapply fill_preserves; eassumption.
Qed.
