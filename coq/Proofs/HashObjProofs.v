(* C14 proofs, part 3: key objects (Model/HashObj.v).
   1. the hash over key OBJECTS with arbitrary identities and an arbitrary hash function is the
      insertion-ordered association list over objects (instance of the bridge theorem): keys, hpair,
      the range walks hand out the object of the first insertion since the key was last absent;
   2. forgetting the identities commutes with every operation (specification level, and -- through
      the two master theorems -- code level): WHICH object carries a key influences nothing;
   3. what sits where: HashSet leaves the PASSED object in the bucket; every stored key object was
      passed by an hset of the history. *)
From Coq Require Import List ZArith Bool Lia.
From ZV Require Import Model.HashTbl Model.HashObj Proofs.HashTblProofs.
Import ListNotations.
Open Scope Z_scope.

(* ------------------------------------------------------------------ *)
Lemma erase_ounwrap : forall k, erase (ounwrap k) = unwrap (erase k).
Proof. intros [i a|i [|[j a] [|b r]]|i j l]; reflexivity. Qed.

Lemma ounwrap_fixed_iff : forall k, ounwrap k = k <-> unwrap (erase k) = erase k.
Proof.
  intros [i a|i [|[j a] [|b r]]|i j l]; simpl; split; intros H; try reflexivity; try discriminate.
Qed.

Lemma oceq_refl : forall a, oceq a a = true.
Proof. intros. apply ceq_refl. Qed.
Lemma oceq_sym : forall a b, oceq a b = oceq b a.
Proof. intros. apply ceq_sym. Qed.
Lemma oceq_trans : forall a b c, oceq a b = true -> oceq b c = true -> oceq a c = true.
Proof. unfold oceq. intros a b c. apply ceq_trans. Qed.
Lemma ounwrap_idem : forall a, okey_ok a = true -> ounwrap (ounwrap a) = ounwrap a.
Proof. intros [i a|i [|[j a] [|b r]]|i j [|[x a] [|b r]]]; simpl; intros H; try reflexivity; discriminate. Qed.
Lemma ounwrap_ok : forall a, okey_ok a = true -> okey_ok (ounwrap a) = true.
Proof. intros a H. unfold okey_ok in *. rewrite erase_ounwrap. now apply unwrap_ok. Qed.
Lemma oceq_fixed : forall a b, oceq a b = true -> ounwrap a = a -> ounwrap b = b.
Proof.
  intros a b H Hf. apply ounwrap_fixed_iff. apply ounwrap_fixed_iff in Hf.
  exact (ceq_fixed (erase a) (erase b) H Hf).
Qed.

Lemma okid_erase : forall ah a b, okid ah a b = kid ah (erase a) (erase b).
Proof. reflexivity. Qed.

(* ------------------------------------------------------------------ *)
Definition OInv (ah : key -> Z) (t : otbl) : Prop := KInv okey Z oceq (ohash ah) ounwrap okey_ok t.
Definition oop_ok (o : oop) : Prop := okey_ok (op_key okey Z o) = true.
Definition oabs (ah : key -> Z) : otbl -> spec okey Z := abs okey Z oceq (ohash ah) ounwrap.
Definition oget ah := hash_get okey Z oceq (ohash ah) ounwrap.
Definition ogetd ah := hash_get_default okey Z oceq (ohash ah) ounwrap.
Definition ohpair ah := hpair okey Z oceq (ohash ah) ounwrap.
Definition orange_pair ah := range_pair okey Z oceq (ohash ah) ounwrap.
Definition orange_key ah := range_key okey Z oceq (ohash ah) ounwrap.
Definition ojson ah := json_obs okey Z oceq (ohash ah) ounwrap.
Definition ostr ah := str_obs okey Z oceq (ohash ah) ounwrap.
Definition oloop_macro ah := loop_macro okey Z oceq (ohash ah) ounwrap.
Definition oloop_infix ah := loop_infix okey Z oceq (ohash ah) ounwrap.
Definition olen : otbl -> outcome Z := len okey Z.
Definition okeys : otbl -> list okey := keys okey Z.
Definition os_lookup ah := s_lookup okey Z (okid ah) ounwrap.

Ltac ohyps := first [exact oceq_refl | exact oceq_sym | exact oceq_trans
                    | exact ounwrap_idem | exact ounwrap_ok | exact oceq_fixed].

(* 1. the master statement over key objects *)
Theorem o_hash_is_ordered_map : forall ah ops, Forall oop_ok ops ->
  let t := orun ah ops in let s := os_run ah ops in
  OInv ah t /\ oabs ah t = s /\
  olen t = s_len okey Z s /\ okeys t = s_keys okey Z s /\
  (forall k, okey_ok k = true -> oget ah t k = os_lookup ah s k) /\
  (forall k, okey_ok k = true -> ogetd ah t k = os_lookup ah s k) /\
  (forall pos, ohpair ah t pos = s_pair okey Z s pos) /\
  (forall pos, orange_pair ah t pos = s_pair okey Z s pos) /\
  (forall pos, orange_key ah t pos = s_range_key okey Z s pos) /\
  ojson ah t = s_json okey Z s /\ oloop_macro ah t = s_loop okey Z s /\ oloop_infix ah t = s_loop okey Z s /\
  ostr ah t = s_str okey Z s.
Proof. intros ah ops H. apply (b_hash_is_ordered_map okey Z oceq (ohash ah) ounwrap okey_ok); try ohyps. exact H. Qed.

Theorem o_inv_step : forall ah t o, OInv ah t -> oop_ok o -> OInv ah (ostep ah t o).
Proof. intros ah t o. apply (b_inv_step okey Z oceq (ohash ah) ounwrap okey_ok); ohyps. Qed.

Theorem o_step_refines : forall ah t o, OInv ah t -> oop_ok o -> oabs ah (ostep ah t o) = os_step ah (oabs ah t) o.
Proof. intros ah t o. apply (b_step_refines okey Z oceq (ohash ah) ounwrap okey_ok); ohyps. Qed.

(* ------------------------------------------------------------------ *)
(* 2. forgetting the identities commutes with the specification's operations *)
Section Erase.
Variable ah : key -> Z.

Lemma s_set_erase : forall (s : spec okey Z) k v,
  map erase_kv (s_set okey Z (okid ah) s k v) = s_set key Z (kid ah) (map erase_kv s) (erase k) v.
Proof.
  induction s as [|[k' v'] r IH]; intros k v; simpl; [reflexivity|].
  rewrite okid_erase. destruct (kid ah (erase k') (erase k)); simpl; [reflexivity|]. now rewrite IH.
Qed.

Lemma s_del_erase : forall (s : spec okey Z) k,
  map erase_kv (s_del okey Z (okid ah) s k) = s_del key Z (kid ah) (map erase_kv s) (erase k).
Proof.
  induction s as [|[k' v'] r IH]; intros k; simpl; [reflexivity|].
  rewrite okid_erase. destruct (kid ah (erase k') (erase k)); simpl; [reflexivity|]. now rewrite IH.
Qed.

Lemma s_get_erase : forall (s : spec okey Z) k,
  s_get okey Z (okid ah) s k = s_get key Z (kid ah) (map erase_kv s) (erase k).
Proof.
  induction s as [|[k' v'] r IH]; intros k; simpl; [reflexivity|].
  rewrite okid_erase. destruct (kid ah (erase k') (erase k)); [reflexivity|]. apply IH.
Qed.

Lemma s_step_erase : forall s o,
  map erase_kv (os_step ah s o) = zs_step ah (map erase_kv s) (erase_op o).
Proof.
  intros s [k v|k]; unfold os_step, zs_step; simpl.
  - rewrite s_set_erase, erase_ounwrap. reflexivity.
  - rewrite s_del_erase, erase_ounwrap. reflexivity.
Qed.

Lemma s_fold_erase : forall ops s,
  map erase_kv (fold_left (os_step ah) ops s) = fold_left (zs_step ah) (map erase_op ops) (map erase_kv s).
Proof.
  induction ops as [|o r IH]; intros s; simpl; [reflexivity|]. rewrite IH, s_step_erase. reflexivity.
Qed.

Theorem spec_erase : forall ops, map erase_kv (os_run ah ops) = zs_run ah (map erase_op ops).
Proof. intros ops. unfold os_run, zs_run, s_run. apply (s_fold_erase ops []). Qed.

Lemma ok_erase : forall ops, Forall oop_ok ops -> Forall zop_ok (map erase_op ops).
Proof.
  induction ops as [|o r IH]; intros H; simpl; constructor; inversion H; subst.
  - destruct o; assumption.
  - now apply IH.
Qed.

(* code level: the content of the hash driven with key objects of ANY identities is the content
   of the hash driven with the bare keys *)
Theorem objects_irrelevant : forall ops, Forall oop_ok ops ->
  map erase_kv (oabs ah (orun ah ops)) = zabs ah (zrun ah (map erase_op ops)) /\
  olen (orun ah ops) = zlen (zrun ah (map erase_op ops)) /\
  map erase (okeys (orun ah ops)) = zkeys (zrun ah (map erase_op ops)) /\
  (forall k, okey_ok k = true -> oget ah (orun ah ops) k = zget ah (zrun ah (map erase_op ops)) (erase k)) /\
  (forall k, okey_ok k = true -> ogetd ah (orun ah ops) k = zgetd ah (zrun ah (map erase_op ops)) (erase k)).
Proof.
  intros ops H.
  destruct (o_hash_is_ordered_map ah ops H) as (_ & Ha & Hl & Hk & Hg & Hd & _).
  destruct (z_hash_is_ordered_map ah (map erase_op ops) (ok_erase ops H)) as (_ & Za & Zl & Zk & Zg & Zd & _).
  pose proof (spec_erase ops) as E.
  repeat split.
  - rewrite Ha, Za. exact E.
  - rewrite Hl, Zl. unfold s_len. rewrite <- E, map_length. reflexivity.
  - rewrite Hk, Zk. unfold s_keys. rewrite <- E, !map_map. reflexivity.
  - intros k Hok. rewrite (Hg k Hok), (Zg (erase k) Hok). unfold os_lookup, zs_lookup, s_lookup.
    rewrite s_get_erase, erase_ounwrap, E. reflexivity.
  - intros k Hok. rewrite (Hd k Hok), (Zd (erase k) Hok). unfold os_lookup, zs_lookup, s_lookup.
    rewrite s_get_erase, erase_ounwrap, E. reflexivity.
Qed.

(* the same for every positional / textual observation *)
Definition omap {A B : Type} (f : A -> B) (r : outcome A) : outcome B :=
  match r with Ok a => Ok (f a) | Err => Err | Crash => Crash end.

Lemma s_pair_erase : forall (s : spec okey Z) pos,
  s_pair key Z (map erase_kv s) pos = omap erase_kv (s_pair okey Z s pos).
Proof.
  intros s pos. unfold s_pair. destruct (pos <? 0); [reflexivity|].
  rewrite nth_error_map. destruct (nth_error s (Z.to_nat pos)); reflexivity.
Qed.

Theorem objects_irrelevant_obs : forall ops, Forall oop_ok ops ->
  let t := orun ah ops in let z := zrun ah (map erase_op ops) in
  (forall pos, zhpair ah z pos = omap erase_kv (ohpair ah t pos)) /\
  (forall pos, zrange_pair ah z pos = omap erase_kv (orange_pair ah t pos)) /\
  (forall pos, zrange_key ah z pos = omap erase (orange_key ah t pos)) /\
  zjson ah z = omap (fun r => (map erase_kv (fst r), map erase (snd r))) (ojson ah t) /\
  zloop_macro ah z = omap (map erase_kv) (oloop_macro ah t) /\
  zloop_infix ah z = omap (map erase_kv) (oloop_infix ah t) /\
  zstr ah z = (map erase_kv (fst (ostr ah t)), snd (ostr ah t)).
Proof.
  intros ops H t z.
  destruct (o_hash_is_ordered_map ah ops H) as (_ & _ & _ & _ & _ & _ & Hp & Hrp & Hrk & Hj & Hlm & Hli & Hs).
  destruct (z_hash_is_ordered_map ah (map erase_op ops) (ok_erase ops H)) as (_ & _ & _ & _ & _ & _ & Zp & Zrp & Zrk & Zj & Zlm & Zli & Zs).
  pose proof (spec_erase ops) as E. fold t in Hp, Hrp, Hrk, Hj, Hlm, Hli, Hs. fold z in Zp, Zrp, Zrk, Zj, Zlm, Zli, Zs.
  repeat split.
  - intros pos. rewrite Zp, Hp, <- E. apply s_pair_erase.
  - intros pos. rewrite Zrp, Hrp, <- E. apply s_pair_erase.
  - intros pos. rewrite Zrk, Hrk, <- E. unfold s_range_key. rewrite s_pair_erase.
    destruct (s_pair okey Z (os_run ah ops) pos); reflexivity.
  - rewrite Zj, Hj, <- E. unfold s_json, omap. simpl. rewrite !map_map. reflexivity.
  - rewrite Zlm, Hlm, <- E. reflexivity.
  - rewrite Zli, Hli, <- E. reflexivity.
  - rewrite Zs, Hs, <- E. unfold s_str. simpl. destruct (os_run ah ops); reflexivity.
Qed.

(* two histories that pass the same keys in objects of different identities give the same content *)
Theorem identity_oblivious : forall ops1 ops2, Forall oop_ok ops1 ->
  map erase_op ops1 = map erase_op ops2 ->
  map erase_kv (oabs ah (orun ah ops1)) = map erase_kv (oabs ah (orun ah ops2)).
Proof.
  intros ops1 ops2 H1 E.
  assert (H2 : Forall oop_ok ops2).
  { pose proof (ok_erase ops1 H1) as Z1. rewrite E in Z1. clear -Z1.
    induction ops2 as [|o r IH]; constructor; inversion Z1; subst; [destruct o; assumption|now apply IH]. }
  destruct (objects_irrelevant ops1 H1) as [A1 _]. destruct (objects_irrelevant ops2 H2) as [A2 _].
  rewrite A1, A2, E. reflexivity.
Qed.

End Erase.

(* ------------------------------------------------------------------ *)
(* 3. what sits where (generic in the key type; no hypothesis on the comparison) *)
Section Where.
Variables K V : Type.
Variable beq : K -> K -> bool.
Variable keq : K -> K -> bool.
Variable hcode : K -> Z.
Variable unwrap : K -> K.

(* HashSet leaves the PASSED (unwrapped) key object with the passed value in the bucket of its code *)
Theorem hset_stores_passed_object : forall (t : tbl K V) k v,
  exists b, b_find K V (buckets (hash_set K V beq hcode unwrap t k v)) (hcode (unwrap k)) = Some b /\
            In (unwrap k, v) b.
Proof.
  intros t k v. unfold hash_set.
  destruct (b_find K V (buckets t) (hcode (unwrap k))) as [arr|] eqn:E.
  - destruct (existsb (fun p => beq (fst p) (unwrap k)) arr) eqn:Ex; simpl; rewrite b_find_put_same; eexists; split; try reflexivity.
    + apply existsb_exists in Ex as [p [Hin Hp]]. apply in_map_iff. exists p. split; [now rewrite Hp|exact Hin].
    + apply in_or_app. right. now left.
  - simpl. rewrite b_find_put_same. eexists; split; [reflexivity|now left].
Qed.

(* KeyOrder changes only by appending the passed object (new key) or by dropping one entry (delete) *)
Theorem korder_step : forall (t : tbl K V) o,
  let t' := step K V beq keq hcode unwrap t o in
  korder t' = korder t \/
  (exists k v, o = OSet k v /\ korder t' = korder t ++ [unwrap k]) \/
  (exists k, o = ODel k /\ korder t' = remove_first (fun x => keq x (unwrap k)) (korder t)).
Proof.
  intros t [k v|k]; simpl.
  - unfold hash_set. destruct (b_find K V (buckets t) (hcode (unwrap k))) as [arr|].
    + destruct (existsb (fun p => beq (fst p) (unwrap k)) arr); simpl; [now left|right; left; eauto].
    + simpl. right; left; eauto.
  - unfold hash_delete, delete_key. destruct (b_find K V (buckets t) (hcode (unwrap k))) as [arr|]; [|now left].
    destruct (existsb (fun p => beq (fst p) (unwrap k)) arr); simpl; [right; right; eauto|now left].
Qed.

(* every key object in KeyOrder was passed (up to the unwrapping) by an hset of the history *)
Theorem korder_from_sets : forall ops t,
  (forall x, In x (korder t) -> exists k v, In (OSet k v) ops /\ x = unwrap k) ->
  forall ops2 x, In x (korder (fold_left (step K V beq keq hcode unwrap) ops2 t)) ->
  exists k v, In (OSet k v) (ops ++ ops2) /\ x = unwrap k.
Proof.
  intros ops t H ops2. revert ops t H. induction ops2 as [|o r IH]; intros ops t H x Hin; simpl in Hin.
  - rewrite app_nil_r. now apply H.
  - replace (ops ++ o :: r) with ((ops ++ [o]) ++ r) by (rewrite <- app_assoc; reflexivity).
    apply (IH (ops ++ [o]) (step K V beq keq hcode unwrap t o)); [|exact Hin].
    intros y Hy. destruct (korder_step t o) as [E|[(k & v & Eo & E)|(k & Eo & E)]]; cbv zeta in E; rewrite E in Hy.
    + destruct (H y Hy) as (k & v & Hk & Ey). exists k, v. split; [apply in_or_app; now left|exact Ey].
    + apply in_app_or in Hy as [Hy|[Hy|[]]].
      * destruct (H y Hy) as (k' & v' & Hk & Ey). exists k', v'. split; [apply in_or_app; now left|exact Ey].
      * exists k, v. split; [apply in_or_app; right; left; now symmetry|now symmetry].
    + apply remove_first_in in Hy. destruct (H y Hy) as (k' & v' & Hk & Ey). exists k', v'. split; [apply in_or_app; now left|exact Ey].
Qed.

End Where.

Theorem o_keys_are_passed_objects : forall ah ops x, In x (okeys (orun ah ops)) ->
  exists k v, In (OSet k v) ops /\ x = ounwrap k.
Proof.
  intros ah ops x Hin.
  apply (korder_from_sets okey Z oceq (okid ah) (ohash ah) ounwrap [] (empty okey Z)); [intros y []|exact Hin].
Qed.

Theorem o_hset_stores_passed_object : forall ah t k v,
  exists b, b_find okey Z (buckets (ostep ah t (OSet k v))) (ohash ah (ounwrap k)) = Some b /\ In (ounwrap k, v) b.
Proof. intros ah t k v. apply (hset_stores_passed_object okey Z oceq (ohash ah) ounwrap). Qed.
