(* C14 proofs: the bucket map + KeyOrder + NumKeys of zygo/hashutils.go refine an
   association list in first-insertion order, for an arbitrary hash function, under every
   history of hset/hdel.  Statements are re-exported by Properties/C14.v. *)
From Coq Require Import List ZArith Bool Lia.
From ZV Require Import Model.HashTbl.
Import ListNotations.
Open Scope Z_scope.

Section Generic.
Variables K V : Type.
Variable keq : K -> K -> bool.
Variable hcode : K -> Z.
Variable unwrap : K -> K.
Variable ok : K -> bool.

Hypothesis keq_refl : forall a, keq a a = true.
Hypothesis keq_sym : forall a b, keq a b = keq b a.
Hypothesis keq_trans : forall a b c, keq a b = true -> keq b c = true -> keq a c = true.
Hypothesis hcode_compat : forall a b, ok a = true -> ok b = true -> keq a b = true -> hcode a = hcode b.
Hypothesis unwrap_idem : forall a, unwrap (unwrap a) = unwrap a.
Hypothesis unwrap_ok : forall a, ok a = true -> ok (unwrap a) = true.
Hypothesis keq_fixed : forall a b, keq a b = true -> unwrap a = a -> unwrap b = b.

Notation tbl := (tbl K V).
Notation spec := (spec K V).
Notation bucket := (bucket K V).
Notation s_get := (s_get K V keq).
Notation s_set := (s_set K V keq).
Notation s_del := (s_del K V keq).
Notation getd := (hash_get_default K V keq hcode).
Notation get := (hash_get K V keq hcode unwrap).
Notation hset := (hash_set K V keq hcode unwrap).
Notation hdel := (hash_delete K V keq hcode).
Notation step := (step K V keq hcode unwrap).
Notation s_step := (s_step K V keq unwrap).
Notation abs := (abs K V keq hcode unwrap).
Notation run := (run K V keq hcode unwrap).
Notation s_run := (s_run K V keq unwrap).
Notation empty := (empty K V).

(* a key that may be stored: hash-compatible and not a one-element array *)
Definition good (k : K) : Prop := ok k = true /\ unwrap k = k.

Lemma keq_trans_f : forall a b c, keq a b = true -> keq a c = false -> keq b c = false.
Proof.
  intros a b c Hab Hac. destruct (keq b c) eqn:E; [|reflexivity].
  rewrite (keq_trans a b c Hab E) in Hac. discriminate.
Qed.

Lemma keq_congr_l : forall a b c, keq a b = true -> keq a c = keq b c.
Proof.
  intros a b c Hab. destruct (keq a c) eqn:E.
  - symmetry. apply (keq_trans b a c); [rewrite keq_sym; exact Hab|exact E].
  - symmetry. apply (keq_trans_f a b c Hab E).
Qed.

Lemma keq_congr_r : forall a b c, keq a b = true -> keq c a = keq c b.
Proof. intros a b c Hab. rewrite (keq_sym c a), (keq_sym c b). now apply keq_congr_l. Qed.

(* pairwise distinct under keq *)
Fixpoint nodupk (l : list K) : Prop :=
  match l with [] => True | x :: r => (forall y, In y r -> keq x y = false) /\ nodupk r end.

(* ------------------------------------------------------------------ *)
(* association lists under keq *)

Lemma s_get_some_in : forall (b : bucket) k v, s_get b k = Some v ->
  exists k', In (k', v) b /\ keq k' k = true.
Proof.
  induction b as [|[k' v'] r IH]; simpl; intros k v H; [discriminate|].
  destruct (keq k' k) eqn:E.
  - inversion H; subst. exists k'. split; [now left|exact E].
  - destruct (IH _ _ H) as (k'' & Hin & Hk). exists k''. split; [now right|exact Hk].
Qed.

Lemma s_get_none_all : forall (b : bucket) k, s_get b k = None ->
  forall k' v, In (k', v) b -> keq k' k = false.
Proof.
  induction b as [|[k1 v1] r IH]; simpl; intros k H k' v Hin; [contradiction|].
  destruct (keq k1 k) eqn:E; [discriminate|].
  destruct Hin as [Heq|Hin]; [inversion Heq; subst; exact E|eapply IH; eauto].
Qed.

Lemma s_get_keq : forall (b : bucket) k1 k2, keq k1 k2 = true -> s_get b k1 = s_get b k2.
Proof.
  induction b as [|[k v] r IH]; simpl; intros k1 k2 H; [reflexivity|].
  rewrite (keq_congr_r k1 k2 k H). destruct (keq k k2); [reflexivity|now apply IH].
Qed.

Lemma existsb_s_get : forall (b : bucket) k,
  existsb (fun p => keq (fst p) k) b = match s_get b k with Some _ => true | None => false end.
Proof.
  induction b as [|[k' v'] r IH]; simpl; intros k; [reflexivity|].
  destruct (keq k' k); simpl; [reflexivity|apply IH].
Qed.

(* ------------------------------------------------------------------ *)
(* the Go map *)

Lemma b_find_put_same : forall (bs : list (Z * bucket)) h b, b_find K V (b_put K V bs h b) h = Some b.
Proof.
  induction bs as [|[h' b'] r IH]; simpl; intros h b.
  - now rewrite Z.eqb_refl.
  - destruct (Z.eqb h' h) eqn:E; simpl; [now rewrite Z.eqb_refl|rewrite E; apply IH].
Qed.

Lemma b_find_put_other : forall (bs : list (Z * bucket)) h b h', h' <> h ->
  b_find K V (b_put K V bs h b) h' = b_find K V bs h'.
Proof.
  induction bs as [|[h1 b1] r IH]; simpl; intros h b h' Hne.
  - destruct (Z.eqb_spec h h'); [congruence|reflexivity].
  - destruct (Z.eqb_spec h1 h); simpl.
    + subst. destruct (Z.eqb_spec h h'); [congruence|reflexivity].
    + destruct (Z.eqb_spec h1 h'); [reflexivity|now apply IH].
Qed.

(* sum of the bucket lengths, as HashCountKeys computes it *)
Definition total (bs : list (Z * bucket)) : Z :=
  fold_right (fun hb acc => Z.of_nat (length (snd hb)) + acc) 0 bs.

Definition blen (o : option bucket) : Z := match o with Some b => Z.of_nat (length b) | None => 0 end.

Lemma total_put : forall (bs : list (Z * bucket)) h b,
  total (b_put K V bs h b) = total bs - blen (b_find K V bs h) + Z.of_nat (length b).
Proof.
  induction bs as [|[h1 b1] r IH]; intros h b; simpl.
  - lia.
  - destruct (Z.eqb_spec h1 h); simpl.
    + lia.
    + rewrite IH. lia.
Qed.

Lemma b_find_nonempty : forall (bs : list (Z * bucket)) h b, b_find K V bs h = Some b -> bs <> [].
Proof. intros bs h b H ->. discriminate. Qed.

(* ------------------------------------------------------------------ *)
(* walking an order list with a getter *)
Definition fm (f : K -> option V) (l : list K) : list (K * V) :=
  flat_map (fun k => match f k with Some v => [(k, v)] | None => [] end) l.

Lemma fm_ext : forall f g l, (forall x, In x l -> f x = g x) -> fm f l = fm g l.
Proof.
  induction l as [|a l IH]; simpl; intros H; [reflexivity|].
  rewrite (H a) by now left. f_equal. apply IH. intros; apply H; now right.
Qed.

Lemma fm_app : forall f l1 l2, fm f (l1 ++ l2) = fm f l1 ++ fm f l2.
Proof. intros. unfold fm. apply flat_map_app. Qed.

Lemma s_get_fm : forall f l k, (forall x, In x l -> keq x k = true -> f x = f k) ->
  s_get (fm f l) k = if existsb (fun x => keq x k) l then f k else None.
Proof.
  induction l as [|x r IH]; simpl; intros k H; [reflexivity|].
  assert (Hr : forall y, In y r -> keq y k = true -> f y = f k) by (intros; apply H; [now right|assumption]).
  destruct (keq x k) eqn:E; simpl.
  - rewrite <- (H x (or_introl eq_refl) E).
    destruct (f x) eqn:Fx; simpl.
    + now rewrite E.
    + rewrite (IH k Hr). rewrite <- (H x (or_introl eq_refl) E), Fx. now destruct (existsb _ r).
  - destruct (f x); simpl; [rewrite E|]; now apply IH.
Qed.

Lemma nodupk_tail_false : forall x r k, (forall y, In y r -> keq x y = false) -> keq x k = true ->
  forall y, In y r -> keq y k = false.
Proof.
  intros x r k Hx Hk y Hy. rewrite keq_sym. apply (keq_trans_f x k y Hk). now apply Hx.
Qed.

Lemma s_set_fm_present : forall f l k v, nodupk l -> (forall x, In x l -> f x <> None) ->
  existsb (fun x => keq x k) l = true ->
  s_set (fm f l) k v = fm (fun x => if keq x k then Some v else f x) l.
Proof.
  induction l as [|x r IH]; simpl; intros k v Hnd Hres Hex; [discriminate|].
  destruct Hnd as [Hx Hnd].
  destruct (f x) eqn:Fx; [|exfalso; now apply (Hres x (or_introl eq_refl))].
  simpl. destruct (keq x k) eqn:E; simpl.
  - f_equal. apply fm_ext. intros y Hy. now rewrite (nodupk_tail_false x r k Hx E y Hy).
  - f_equal. apply IH; auto.
Qed.

Lemma s_set_fm_absent : forall f l k v, existsb (fun x => keq x k) l = false ->
  s_set (fm f l) k v = fm f l ++ [(k, v)].
Proof.
  induction l as [|x r IH]; simpl; intros k v Hex; [reflexivity|].
  apply orb_false_iff in Hex as [E Hex].
  destruct (f x); simpl; [rewrite E; f_equal|]; now apply IH.
Qed.

Lemma s_del_fm : forall f l k, nodupk l -> (forall x, In x l -> f x <> None) ->
  s_del (fm f l) k = fm (fun x => if keq x k then None else f x) (remove_first (fun x => keq x k) l).
Proof.
  induction l as [|x r IH]; simpl; intros k Hnd Hres; [reflexivity|].
  destruct Hnd as [Hx Hnd].
  destruct (f x) eqn:Fx; [|exfalso; now apply (Hres x (or_introl eq_refl))].
  simpl. destruct (keq x k) eqn:E; simpl.
  - apply fm_ext. intros y Hy. now rewrite (nodupk_tail_false x r k Hx E y Hy).
  - try rewrite E; try rewrite Fx; simpl; try rewrite E; simpl. f_equal. apply IH; auto.
Qed.

(* ------------------------------------------------------------------ *)
(* remove_first and nodupk *)
Lemma remove_first_in : forall (A : Type) (f : A -> bool) l x, In x (remove_first f l) -> In x l.
Proof.
  induction l as [|a r IH]; simpl; intros x H; [assumption|].
  destruct (f a); [now right|]. destruct H as [->|H]; [now left|right; now apply IH].
Qed.

Lemma remove_first_keep : forall (A : Type) (f : A -> bool) l x, In x l -> f x = false -> In x (remove_first f l).
Proof.
  induction l as [|a r IH]; simpl; intros x H Hf; [assumption|].
  destruct H as [->|H].
  - rewrite Hf. now left.
  - destruct (f a); [assumption|right; now apply IH].
Qed.

Lemma remove_first_none : forall (A : Type) (f : A -> bool) l, existsb f l = false -> remove_first f l = l.
Proof.
  induction l as [|a r IH]; simpl; intros H; [reflexivity|].
  apply orb_false_iff in H as [E H]. rewrite E. f_equal. now apply IH.
Qed.

Lemma remove_first_length : forall (A : Type) (f : A -> bool) l, existsb f l = true ->
  Z.of_nat (length (remove_first f l)) = Z.of_nat (length l) - 1.
Proof.
  induction l as [|a r IH]; cbn [existsb remove_first]; intros H; [discriminate|].
  destruct (f a); cbn [orb] in H; cbn [length]; [lia|]. rewrite Nat2Z.inj_succ, IH by assumption. lia.
Qed.

Lemma remove_first_map_fst : forall (f : K -> bool) (b : bucket),
  map fst (remove_first (fun p => f (fst p)) b) = remove_first f (map fst b).
Proof.
  induction b as [|[k v] r IH]; simpl; [reflexivity|]. destruct (f k); simpl; [reflexivity|now f_equal].
Qed.

Lemma nodupk_remove_first : forall f l, nodupk l -> nodupk (remove_first f l).
Proof.
  induction l as [|a r IH]; simpl; intros H; [exact I|]. destruct H as [Ha Hr].
  destruct (f a); [assumption|]. simpl. split; [|now apply IH].
  intros y Hy. apply Ha. eapply remove_first_in; eauto.
Qed.

Lemma nodupk_removed_false : forall l k x, nodupk l -> In x (remove_first (fun y => keq y k) l) -> keq x k = false.
Proof.
  induction l as [|a r IH]; simpl; intros k x Hnd H; [contradiction|]. destruct Hnd as [Ha Hr].
  destruct (keq a k) eqn:E.
  - eapply nodupk_tail_false; eauto.
  - destruct H as [->|H]; [assumption|now apply IH].
Qed.

Lemma nodupk_app_one : forall l k, nodupk l -> (forall x, In x l -> keq x k = false) -> nodupk (l ++ [k]).
Proof.
  induction l as [|a r IH]; simpl; intros k Hnd H; [split; [intros ? []|exact I]|].
  destruct Hnd as [Ha Hr]. split.
  - intros y Hy. apply in_app_or in Hy as [Hy|[<-|[]]]; [now apply Ha|apply H; now left].
  - apply IH; [assumption|intros; apply H; now right].
Qed.

Lemma nodupk_map : forall (r : K -> K) l, (forall x, keq (r x) x = true) -> nodupk l -> nodupk (map r l).
Proof.
  induction l as [|a l IH]; simpl; intros Hr Hnd; [exact I|]. destruct Hnd as [Ha Hl].
  split; [|now apply IH].
  intros y Hy. apply in_map_iff in Hy as (y0 & <- & Hy0).
  rewrite (keq_congr_l (r a) a (r y0) (Hr a)). rewrite (keq_congr_r (r y0) y0 a (Hr y0)). now apply Ha.
Qed.

Lemma existsb_false_all : forall l k, existsb (fun x => keq x k) l = false -> forall x, In x l -> keq x k = false.
Proof.
  intros l k H x Hx. destruct (keq x k) eqn:E; [|reflexivity].
  assert (existsb (fun x => keq x k) l = true) by (apply existsb_exists; eauto). congruence.
Qed.

(* ------------------------------------------------------------------ *)
(* buckets *)
Definition bk (t : tbl) (h : Z) : bucket := match b_find K V (buckets t) h with Some b => b | None => [] end.

Lemma getd_bk : forall t k, getd t k = s_get (bk t (hcode k)) k.
Proof. intros. unfold hash_get_default, bk. now destruct (b_find K V (buckets t) (hcode k)). Qed.

Definition put (t : tbl) h b ko n : tbl := {| buckets := b_put K V (buckets t) h b; korder := ko; nkeys := n |}.

Lemma bk_put : forall t h b ko n h', bk (put t h b ko n) h' = if Z.eqb h' h then b else bk t h'.
Proof.
  intros. unfold bk, put; simpl. destruct (Z.eqb_spec h' h).
  - subst. now rewrite b_find_put_same.
  - now rewrite b_find_put_other.
Qed.

Lemma total_put' : forall t h b,
  total (b_put K V (buckets t) h b) = total (buckets t) - Z.of_nat (length (bk t h)) + Z.of_nat (length b).
Proof.
  intros. rewrite total_put. unfold bk, blen. now destruct (b_find K V (buckets t) h).
Qed.

(* normal forms of HashSet / HashDelete in terms of the bucket of the key's code *)
Lemma hset_eq : forall t k0 v,
  let key := unwrap k0 in let h := hcode key in let arr := bk t h in
  hset t k0 v =
    if existsb (fun p => keq (fst p) key) arr
    then put t h (map (fun p => if keq (fst p) key then (key, v) else p) arr) (korder t) (nkeys t)
    else put t h (arr ++ [(key, v)]) (korder t ++ [key]) (nkeys t + 1).
Proof.
  intros. unfold hash_set, arr, bk, h, key, put.
  destruct (b_find K V (buckets t) (hcode (unwrap k0))); reflexivity.
Qed.

Lemma hdel_eq : forall t key,
  let h := hcode key in let arr := bk t h in
  hdel t key =
    if existsb (fun p => keq (fst p) key) arr
    then put t h (remove_first (fun p => keq (fst p) key) arr) (remove_first (fun k => keq k key) (korder t)) (nkeys t - 1)
    else t.
Proof.
  intros. unfold hash_delete, arr, bk, h, put.
  destruct (b_find K V (buckets t) (hcode key)); reflexivity.
Qed.

(* bucket-level read-after-write facts *)
Lemma s_get_replace : forall (arr : bucket) key v k',
  s_get (map (fun p => if keq (fst p) key then (key, v) else p) arr) k' =
  if keq key k' then (if existsb (fun p => keq (fst p) key) arr then Some v else None) else s_get arr k'.
Proof.
  induction arr as [|[k1 v1] r IH]; intros key v k'; simpl.
  - now destruct (keq key k').
  - destruct (keq k1 key) eqn:E; simpl.
    + rewrite (keq_congr_l k1 key k' E). destruct (keq key k') eqn:E2; [reflexivity|].
      rewrite IH, E2. reflexivity.
    + destruct (keq k1 k') eqn:E1.
      * destruct (keq key k') eqn:E2; [|reflexivity].
        exfalso. rewrite (keq_congr_r key k' k1) in E by assumption. congruence.
      * apply IH.
Qed.

Lemma s_get_append : forall (arr : bucket) key v k', s_get arr key = None ->
  s_get (arr ++ [(key, v)]) k' = if keq key k' then Some v else s_get arr k'.
Proof.
  induction arr as [|[k1 v1] r IH]; intros key v k' H; simpl in *.
  - now destruct (keq key k').
  - destruct (keq k1 key) eqn:E; [discriminate|].
    destruct (keq k1 k') eqn:E1.
    + destruct (keq key k') eqn:E2; [|reflexivity].
      exfalso. rewrite (keq_congr_r key k' k1) in E by assumption. congruence.
    + now apply IH.
Qed.

Lemma s_get_remove : forall (arr : bucket) key k', nodupk (map fst arr) ->
  s_get (remove_first (fun p => keq (fst p) key) arr) k' = if keq key k' then None else s_get arr k'.
Proof.
  induction arr as [|[k1 v1] r IH]; intros key k' Hnd; simpl in *.
  - now destruct (keq key k').
  - destruct Hnd as [H1 Hr]. destruct (keq k1 key) eqn:E; simpl.
    + rewrite (keq_congr_l k1 key k' E). destruct (keq key k') eqn:E2; [|reflexivity].
      destruct (s_get r k') eqn:G; [|reflexivity].
      exfalso. apply s_get_some_in in G as (k2 & Hin & Hk2).
      assert (keq k1 k2 = false) by (apply H1; change k2 with (fst (k2, v)); now apply in_map).
      assert (keq k1 k' = true) by (eapply keq_trans; eauto).
      rewrite (keq_congr_r k2 k' k1 Hk2) in H. congruence.
    + destruct (keq k1 k') eqn:E1.
      * destruct (keq key k') eqn:E2; [|reflexivity].
        exfalso. rewrite (keq_congr_r key k' k1) in E by assumption. congruence.
      * now apply IH.
Qed.

(* ------------------------------------------------------------------ *)
(* the invariant tying the three pieces of bookkeeping together *)
Definition bucket_ok (h : Z) (b : bucket) : Prop :=
  nodupk (map fst b) /\ forall k v, In (k, v) b -> hcode k = h /\ good k.

Record Inv (t : tbl) : Prop := {
  inv_bk : forall h, bucket_ok h (bk t h);                 (* each bucket: keys of that code, once each *)
  inv_nd : nodupk (korder t);                              (* KeyOrder has no key twice *)
  inv_good : forall k, In k (korder t) -> good k;
  inv_res : forall k, In k (korder t) -> getd t k <> None; (* every KeyOrder key is live *)
  inv_rep : forall h k v, In (k, v) (bk t h) -> exists k', In k' (korder t) /\ keq k' k = true;
                                                           (* every live key is in KeyOrder *)
  inv_n : nkeys t = Z.of_nat (length (korder t));          (* NumKeys *)
  inv_total : total (buckets t) = Z.of_nat (length (korder t)) }.

Lemma inv_empty : Inv empty.
Proof.
  constructor; simpl; try reflexivity; try tauto.
  intros h. unfold bk; simpl. split; [exact I|intros ? ? []].
Qed.

Lemma good_unwrap : forall k, ok k = true -> good (unwrap k).
Proof. intros k H. split; [now apply unwrap_ok|apply unwrap_idem]. Qed.

Lemma korder_present : forall t key, Inv t -> good key ->
  existsb (fun x => keq x key) (korder t) = existsb (fun p => keq (fst p) key) (bk t (hcode key)).
Proof.
  intros t key HI [Hok Hfix].
  destruct (existsb (fun p => keq (fst p) key) (bk t (hcode key))) eqn:Ex.
  - rewrite existsb_s_get in Ex. destruct (s_get (bk t (hcode key)) key) eqn:G; [|discriminate].
    apply s_get_some_in in G as (k1 & Hin & Hk1).
    destruct (inv_rep t HI _ _ _ Hin) as (k' & Hk' & Hkk).
    apply existsb_exists. exists k'. split; [assumption|]. eapply keq_trans; eauto.
  - destruct (existsb (fun x => keq x key) (korder t)) eqn:Ey; [|reflexivity].
    apply existsb_exists in Ey as (x & Hx & Hxk).
    pose proof (inv_res t HI x Hx) as Hr. rewrite getd_bk in Hr.
    destruct (inv_good t HI x Hx) as [Hokx _].
    rewrite (hcode_compat x key Hokx Hok Hxk) in Hr.
    rewrite (s_get_keq _ x key Hxk) in Hr.
    rewrite existsb_s_get in Ex. destruct (s_get (bk t (hcode key)) key); [discriminate|congruence].
Qed.

Lemma getd_hset : forall t k0 v k', ok k0 = true -> good k' ->
  getd (hset t k0 v) k' = if keq (unwrap k0) k' then Some v else getd t k'.
Proof.
  intros t k0 v k' Hok0 [Hok' _]. rewrite hset_eq. cbv zeta.
  pose proof (good_unwrap k0 Hok0) as [Hokk _].
  set (key := unwrap k0) in *. set (h := hcode key).
  assert (Hne : hcode k' <> h -> keq key k' = false).
  { intros Hne. destruct (keq key k') eqn:E; [|reflexivity].
    exfalso. apply Hne. symmetry. now apply hcode_compat. }
  destruct (existsb (fun p => keq (fst p) key) (bk t h)) eqn:Ex;
    rewrite getd_bk, bk_put; destruct (Z.eqb_spec (hcode k') h) as [He|Hn].
  - rewrite s_get_replace, Ex, getd_bk, He. reflexivity.
  - rewrite (Hne Hn), getd_bk. reflexivity.
  - rewrite s_get_append.
    + now rewrite getd_bk, He.
    + rewrite existsb_s_get in Ex. now destruct (s_get (bk t h) key).
  - rewrite (Hne Hn), getd_bk. reflexivity.
Qed.

Lemma getd_hdel : forall t key k', Inv t -> good key -> good k' ->
  getd (hdel t key) k' = if keq key k' then None else getd t k'.
Proof.
  intros t key k' HI [Hok _] [Hok' _]. rewrite hdel_eq. cbv zeta.
  set (h := hcode key).
  destruct (existsb (fun p => keq (fst p) key) (bk t h)) eqn:Ex.
  - rewrite getd_bk, bk_put. destruct (Z.eqb_spec (hcode k') h) as [He|Hn].
    + rewrite s_get_remove by apply (inv_bk t HI h). now rewrite getd_bk, He.
    + destruct (keq key k') eqn:E; [|now rewrite getd_bk].
      exfalso. apply Hn. symmetry. now apply hcode_compat.
  - destruct (keq key k') eqn:E; [|reflexivity].
    rewrite getd_bk, <- (hcode_compat key k' Hok Hok' E).
    rewrite keq_sym in E. rewrite (s_get_keq _ k' key E).
    rewrite existsb_s_get in Ex. fold h. now destruct (s_get (bk t h) key).
Qed.

Lemma in_replace : forall (arr : bucket) key (v : V) k v0,
  In (k, v0) (map (fun p => if keq (fst p) key then (key, v) else p) arr) ->
  In (k, v0) arr \/ (k = key /\ exists k1 v1, In (k1, v1) arr /\ keq k1 key = true).
Proof.
  intros arr key v k v0 H. apply in_map_iff in H as ([k1 v1] & Heq & Hin). simpl in Heq.
  destruct (keq k1 key) eqn:E.
  - inversion Heq; subst. right. split; [reflexivity|eauto].
  - inversion Heq; subst. now left.
Qed.

Lemma map_fst_replace : forall (arr : bucket) key (v : V),
  map fst (map (fun p => if keq (fst p) key then (key, v) else p) arr) =
  map (fun k => if keq k key then key else k) (map fst arr).
Proof.
  intros. rewrite !map_map. apply map_ext. intros [k1 v1]; simpl. now destruct (keq k1 key).
Qed.

Theorem inv_hset : forall t k0 v, Inv t -> ok k0 = true -> Inv (hset t k0 v).
Proof.
  intros t k0 v HI Hok0.
  pose proof (good_unwrap k0 Hok0) as Hgood.
  pose proof (fun k' => getd_hset t k0 v k' Hok0) as Hget.
  pose proof (korder_present t (unwrap k0) HI Hgood) as Hpres.
  revert Hget. rewrite hset_eq. cbv zeta.
  set (key := unwrap k0) in *. set (h := hcode key) in *. set (arr := bk t h) in *.
  destruct (existsb (fun p => keq (fst p) key) arr) eqn:Ex; intros Hget.
  - (* the key is present: its value is replaced in the bucket *)
    constructor; simpl.
    + intros h'. rewrite bk_put. destruct (Z.eqb_spec h' h) as [->|]; [|apply (inv_bk t HI)].
      destruct (inv_bk t HI h) as [Hnd Hall]. split.
      * rewrite map_fst_replace. apply nodupk_map; [|exact Hnd].
        intros x. destruct (keq x key) eqn:E; [now rewrite keq_sym|apply keq_refl].
      * intros k v1 Hin. apply (in_replace arr key v) in Hin as [Hin|[-> _]]; [now apply (Hall k v1)|].
        split; [reflexivity|exact Hgood].
    + apply (inv_nd t HI).
    + apply (inv_good t HI).
    + intros k Hk. rewrite Hget by now apply (inv_good t HI).
      destruct (keq key k); [discriminate|now apply (inv_res t HI)].
    + intros h' k v1. rewrite bk_put. destruct (Z.eqb_spec h' h) as [->|]; [|exact (inv_rep t HI h' k v1)].
      intros Hin. apply (in_replace arr key v) in Hin as [Hin|[-> (k1 & v2 & Hin & Hk1)]].
      * now apply (inv_rep t HI h k v1).
      * destruct (inv_rep t HI h _ _ Hin) as (k' & Hk' & Hkk). exists k'. split; [assumption|].
        eapply keq_trans; eauto.
    + apply (inv_n t HI).
    + rewrite total_put'. fold arr. rewrite map_length. rewrite (inv_total t HI). lia.
  - (* the key is new: appended to the bucket and to KeyOrder, NumKeys + 1 *)
    assert (Hfresh : forall x, In x (korder t) -> keq x key = false) by (now apply existsb_false_all).
    constructor; simpl.
    + intros h'. rewrite bk_put. destruct (Z.eqb_spec h' h) as [->|]; [|apply (inv_bk t HI)].
      destruct (inv_bk t HI h) as [Hnd Hall]. fold arr in Hnd, Hall. split.
      * rewrite map_app. simpl. apply nodupk_app_one; [exact Hnd|].
        intros x Hx. apply in_map_iff in Hx as ([k1 v1] & <- & Hin). simpl.
        destruct (keq k1 key) eqn:E; [|reflexivity].
        assert (existsb (fun p => keq (fst p) key) arr = true) by (apply existsb_exists; exists (k1, v1); auto).
        congruence.
      * intros k v1 Hin. apply in_app_or in Hin as [Hin|[Heq|[]]]; [now apply (Hall k v1)|].
        inversion Heq; subst. split; [reflexivity|exact Hgood].
    + apply nodupk_app_one; [apply (inv_nd t HI)|exact Hfresh].
    + intros k Hk. apply in_app_or in Hk as [Hk|[<-|[]]]; [now apply (inv_good t HI)|exact Hgood].
    + intros k Hk. apply in_app_or in Hk as [Hk|[<-|[]]].
      * rewrite Hget by now apply (inv_good t HI).
        destruct (keq key k); [discriminate|now apply (inv_res t HI)].
      * rewrite Hget by exact Hgood. now rewrite keq_refl.
    + intros h' k v1. rewrite bk_put. destruct (Z.eqb_spec h' h) as [->|].
      * intros Hin. apply in_app_or in Hin as [Hin|[Heq|[]]].
        -- destruct (inv_rep t HI h _ _ Hin) as (k' & Hk' & Hkk). exists k'. split; [apply in_or_app; now left|assumption].
        -- inversion Heq; subst. exists key. split; [apply in_or_app; right; now left|apply keq_refl].
      * intros Hin. destruct (inv_rep t HI h' _ _ Hin) as (k' & Hk' & Hkk).
        exists k'. split; [apply in_or_app; now left|assumption].
    + rewrite app_length, (inv_n t HI). simpl. lia.
    + rewrite total_put'. fold arr. rewrite !app_length, (inv_total t HI). simpl. lia.
Qed.

Lemma present_good : forall t key, Inv t -> ok key = true ->
  existsb (fun p => keq (fst p) key) (bk t (hcode key)) = true -> good key.
Proof.
  intros t key HI Hok Ex. apply existsb_exists in Ex as ([k1 v1] & Hin & Hk). simpl in Hk.
  destruct (inv_bk t HI (hcode key)) as [_ Hall]. destruct (Hall k1 v1 Hin) as [_ [_ Hfix]].
  split; [assumption|]. eapply keq_fixed; eauto.
Qed.

Theorem inv_hdel : forall t key, Inv t -> ok key = true -> Inv (hdel t key).
Proof.
  intros t key HI Hok. pose proof (present_good t key HI Hok) as Hpg.
  pose proof (fun k' Hg => getd_hdel t key k' HI Hg) as Hget.
  revert Hget. rewrite hdel_eq. cbv zeta.
  set (h := hcode key) in *. set (arr := bk t h) in *.
  destruct (existsb (fun p => keq (fst p) key) arr) eqn:Ex; intros Hget; [|exact HI].
  specialize (Hpg eq_refl). specialize (Hget).
  pose proof (korder_present t key HI Hpg) as Hpres. fold h arr in Hpres. rewrite Ex in Hpres.
  destruct (inv_bk t HI h) as [Hnd Hall]. fold arr in Hnd, Hall.
  assert (Hrem : forall k v1, In (k, v1) (remove_first (fun p => keq (fst p) key) arr) -> keq k key = false).
  { intros k v1 Hin. apply (nodupk_removed_false (map fst arr) key k Hnd).
    rewrite <- remove_first_map_fst with (f := fun y => keq y key).
    change k with (fst (k, v1)). now apply in_map. }
  constructor; simpl.
  - intros h'. rewrite bk_put. destruct (Z.eqb_spec h' h) as [->|]; [|apply (inv_bk t HI)]. split.
    + rewrite remove_first_map_fst with (f := fun y => keq y key). now apply nodupk_remove_first.
    + intros k v1 Hin. apply (Hall k v1). eapply remove_first_in; eauto.
  - apply nodupk_remove_first, (inv_nd t HI).
  - intros k Hk. apply (inv_good t HI). eapply remove_first_in; eauto.
  - intros k Hk.
    pose proof (nodupk_removed_false _ key k (inv_nd t HI) Hk) as Hkk.
    apply remove_first_in in Hk.
    rewrite (Hget k Hpg (inv_good t HI k Hk)). rewrite keq_sym, Hkk. now apply (inv_res t HI).
  - intros h' k v1. rewrite bk_put. destruct (Z.eqb_spec h' h) as [->|Hne]; intros Hin.
    + pose proof (Hrem k v1 Hin) as Hkk. apply remove_first_in in Hin.
      destruct (inv_rep t HI h k v1 Hin) as (k' & Hk' & Hk'k). exists k'. split; [|assumption].
      apply remove_first_keep; [assumption|]. now rewrite (keq_congr_l k' k key Hk'k).
    + destruct (inv_rep t HI h' k v1 Hin) as (k' & Hk' & Hk'k). exists k'. split; [|assumption].
      apply remove_first_keep; [assumption|].
      destruct (keq k' key) eqn:E; [|reflexivity]. exfalso. apply Hne.
      destruct (inv_bk t HI h') as [_ Hall']. destruct (Hall' k v1 Hin) as [Hc [Hokk _]].
      destruct (inv_good t HI k' Hk') as [Hok' _]. destruct Hpg as [Hokey _].
      rewrite <- Hc. rewrite <- (hcode_compat k' k Hok' Hokk Hk'k). now apply hcode_compat.
  - rewrite remove_first_length by assumption. rewrite (inv_n t HI). reflexivity.
  - rewrite total_put'. fold arr. rewrite remove_first_length by assumption.
    rewrite remove_first_length by assumption. rewrite (inv_total t HI). lia.
Qed.

(* ------------------------------------------------------------------ *)
(* every history: the invariant holds in every reachable state *)
Notation op := (op K V).
Definition op_ok (o : op) : Prop := ok (op_key K V o) = true.
(* the delete does not name a one-element array (HashDelete does not unwrap it) *)
Definition op_plain (o : op) : Prop := match o with ODel k => unwrap k = k | OSet _ _ => True end.

Theorem inv_step : forall t o, Inv t -> op_ok o -> Inv (step t o).
Proof. intros t [k v|k] HI Hok; simpl; [now apply inv_hset|now apply inv_hdel]. Qed.

Lemma inv_fold : forall ops t, Inv t -> Forall op_ok ops -> Inv (fold_left step ops t).
Proof.
  induction ops as [|o r IH]; simpl; intros t HI Hall; [assumption|].
  inversion Hall; subst. apply IH; [now apply inv_step|assumption].
Qed.

Theorem reachable_inv : forall ops, Forall op_ok ops -> Inv (run ops).
Proof. intros. apply inv_fold; [apply inv_empty|assumption]. Qed.

(* ------------------------------------------------------------------ *)
(* refinement of the state-changing operations *)
Lemma get_getd_good : forall t k, unwrap k = k -> get t k = getd t k.
Proof. intros t k H. unfold hash_get. now rewrite H. Qed.

Lemma abs_def : forall t, abs t = fm (get t) (korder t).
Proof. reflexivity. Qed.

Lemma abs_fm : forall t, Inv t -> abs t = fm (getd t) (korder t).
Proof.
  intros t HI. rewrite abs_def. apply fm_ext. intros x Hx.
  apply get_getd_good. now destruct (inv_good t HI x Hx).
Qed.

Lemma korder_hset : forall t k0 v,
  korder (hset t k0 v) =
  if existsb (fun p => keq (fst p) (unwrap k0)) (bk t (hcode (unwrap k0))) then korder t else korder t ++ [unwrap k0].
Proof. intros. rewrite hset_eq. cbv zeta. now destruct (existsb _ _). Qed.

Lemma korder_hdel : forall t key,
  korder (hdel t key) =
  if existsb (fun p => keq (fst p) key) (bk t (hcode key)) then remove_first (fun k => keq k key) (korder t) else korder t.
Proof. intros. rewrite hdel_eq. cbv zeta. now destruct (existsb _ _). Qed.

Theorem abs_hset : forall t k0 v, Inv t -> ok k0 = true ->
  abs (hset t k0 v) = s_set (abs t) (unwrap k0) v.
Proof.
  intros t k0 v HI Hok0.
  pose proof (good_unwrap k0 Hok0) as Hgood.
  rewrite (abs_fm _ (inv_hset t k0 v HI Hok0)), (abs_fm t HI), korder_hset.
  rewrite <- (korder_present t (unwrap k0) HI Hgood).
  set (key := unwrap k0) in *.
  destruct (existsb (fun x => keq x key) (korder t)) eqn:Ex.
  - rewrite s_set_fm_present; [|apply (inv_nd t HI)|apply (inv_res t HI)|assumption].
    apply fm_ext. intros x Hx. rewrite getd_hset by (try assumption; now apply (inv_good t HI)).
    fold key. now rewrite keq_sym.
  - rewrite s_set_fm_absent by assumption. rewrite fm_app. f_equal.
    + apply fm_ext. intros x Hx. rewrite getd_hset by (try assumption; now apply (inv_good t HI)).
      fold key. rewrite keq_sym. now rewrite (existsb_false_all _ _ Ex x Hx).
    + simpl. rewrite getd_hset by assumption. fold key. now rewrite keq_refl.
Qed.

Theorem abs_hdel : forall t key, Inv t -> good key -> abs (hdel t key) = s_del (abs t) key.
Proof.
  intros t key HI Hgood. destruct Hgood as [Hok Hfix].
  rewrite (abs_fm _ (inv_hdel t key HI Hok)), (abs_fm t HI), korder_hdel.
  rewrite <- (korder_present t key HI (conj Hok Hfix)).
  rewrite s_del_fm; [|apply (inv_nd t HI)|apply (inv_res t HI)].
  destruct (existsb (fun x => keq x key) (korder t)) eqn:Ex.
  - apply fm_ext. intros x Hx. apply remove_first_in in Hx.
    rewrite getd_hdel; [|assumption|now split|now apply (inv_good t HI)]. now rewrite keq_sym.
  - rewrite remove_first_none by assumption. apply fm_ext. intros x Hx.
    rewrite getd_hdel; [|assumption|now split|now apply (inv_good t HI)].
    now rewrite keq_sym.
Qed.

(* HashDelete of a one-element array [k] (not unwrapped) never finds anything *)
Theorem hdel_wrapped_noop : forall t key, Inv t -> ok key = true -> unwrap key <> key -> hdel t key = t.
Proof.
  intros t key HI Hok Hne. rewrite hdel_eq. cbv zeta.
  destruct (existsb (fun p => keq (fst p) key) (bk t (hcode key))) eqn:Ex; [|reflexivity].
  exfalso. apply Hne. now destruct (present_good t key HI Hok Ex).
Qed.

Theorem step_refines : forall t o, Inv t -> op_ok o -> op_plain o -> abs (step t o) = s_step (abs t) o.
Proof.
  intros t [k v|k] HI Hok Hpl; simpl in *.
  - now apply abs_hset.
  - rewrite Hpl. apply abs_hdel; [assumption|now split].
Qed.

Lemma fold_refines : forall ops t s, Inv t -> abs t = s -> Forall op_ok ops -> Forall op_plain ops ->
  abs (fold_left step ops t) = fold_left s_step ops s.
Proof.
  induction ops as [|o r IH]; simpl; intros t s HI Habs Hok Hpl; [assumption|].
  inversion Hok; inversion Hpl; subst. apply IH; try assumption.
  - now apply inv_step.
  - now apply step_refines.
Qed.

Theorem history_refines : forall ops, Forall op_ok ops -> Forall op_plain ops -> abs (run ops) = s_run ops.
Proof. intros. apply fold_refines; auto using inv_empty. Qed.

(* deleting a key that is not there changes nothing at all *)
Theorem missing_delete_noop : forall t key, getd t key = None -> hdel t key = t.
Proof.
  intros t key H. rewrite hdel_eq. cbv zeta. rewrite existsb_s_get. rewrite getd_bk in H. now rewrite H.
Qed.

(* ------------------------------------------------------------------ *)
(* refinement of the observations *)
Lemma getd_keq : forall t a b, ok a = true -> ok b = true -> keq a b = true -> getd t a = getd t b.
Proof.
  intros t a b Ha Hb H. rewrite !getd_bk. rewrite (hcode_compat a b Ha Hb H). now apply s_get_keq.
Qed.

Theorem getd_refines : forall t k, Inv t -> good k -> getd t k = s_get (abs t) k.
Proof.
  intros t k HI Hg. rewrite (abs_fm t HI). rewrite s_get_fm.
  - rewrite (korder_present t k HI Hg). rewrite existsb_s_get, <- getd_bk. now destruct (getd t k).
  - intros x Hx Hxk. apply getd_keq; try assumption; [now destruct (inv_good t HI x Hx)|now destruct Hg].
Qed.

Theorem get_refines : forall t k, Inv t -> ok k = true -> get t k = s_lookup K V keq unwrap (abs t) k.
Proof. intros t k HI Hok. unfold hash_get, s_lookup. apply getd_refines; [assumption|now apply good_unwrap]. Qed.

Lemma get_res : forall t, Inv t -> forall x, In x (korder t) -> get t x <> None.
Proof.
  intros t HI x Hx. rewrite get_getd_good; [now apply (inv_res t HI)|now destruct (inv_good t HI x Hx)].
Qed.

Lemma fm_length : forall f l, (forall x, In x l -> f x <> None) -> length (fm f l) = length l.
Proof.
  induction l as [|x r IH]; simpl; intros H; [reflexivity|].
  destruct (f x) eqn:E; [|exfalso; now apply (H x (or_introl eq_refl))]. simpl. f_equal. apply IH. auto.
Qed.

Lemma fm_keys : forall f l, (forall x, In x l -> f x <> None) -> map fst (fm f l) = l.
Proof.
  induction l as [|x r IH]; simpl; intros H; [reflexivity|].
  destruct (f x) eqn:E; [|exfalso; now apply (H x (or_introl eq_refl))]. simpl. f_equal. apply IH. auto.
Qed.

Definition at_pos (f : K -> option V) (l : list K) (n : nat) : option (K * V) :=
  match nth_error l n with
  | Some k => match f k with Some v => Some (k, v) | None => None end
  | None => None
  end.

Lemma fm_nth : forall f l n, (forall x, In x l -> f x <> None) -> nth_error (fm f l) n = at_pos f l n.
Proof.
  induction l as [|x r IH]; intros n H; [now destruct n|].
  simpl. destruct (f x) eqn:E; [|exfalso; now apply (H x (or_introl eq_refl))].
  destruct n; unfold at_pos; simpl; [now rewrite E|]. apply IH. intros; apply H; now right.
Qed.

Lemma fr_nth : forall t l n, (forall x, In x l -> get t x <> None) ->
  first_resolving K V keq hcode unwrap t (skipn n l) = at_pos (get t) l n.
Proof.
  intros t. induction l as [|x r IH]; intros n H; [now destruct n|].
  destruct n; unfold at_pos; simpl.
  - destruct (get t x) eqn:E; [reflexivity|exfalso; now apply (H x (or_introl eq_refl))].
  - apply IH. intros; apply H; now right.
Qed.

Lemma at_pos_some : forall f l n, (forall x, In x l -> f x <> None) -> (n < length l)%nat ->
  exists kv, at_pos f l n = Some kv.
Proof.
  intros f l n H Hn. unfold at_pos. destruct (nth_error l n) eqn:E.
  - pose proof (H k (nth_error_In _ _ E)). destruct (f k); [eauto|congruence].
  - apply nth_error_None in E. lia.
Qed.

Theorem len_refines : forall t, Inv t -> len K V t = s_len K V (abs t).
Proof.
  intros t HI. unfold len, count_keys, s_len. fold (total (buckets t)).
  rewrite (inv_total t HI), (inv_n t HI), Z.eqb_refl. rewrite abs_def, fm_length; [reflexivity|now apply get_res].
Qed.

Theorem keys_refines : forall t, Inv t -> keys K V t = s_keys K V (abs t).
Proof. intros t HI. unfold keys, s_keys. rewrite abs_def, fm_keys; [reflexivity|now apply get_res]. Qed.

Lemma abs_length : forall t, Inv t -> length (abs t) = length (korder t).
Proof. intros t HI. rewrite abs_def. apply fm_length. now apply get_res. Qed.

Lemma pairi_in_range : forall t pos, Inv t -> 0 <= pos < Z.of_nat (length (korder t)) ->
  hash_pairi K V keq hcode unwrap t pos = s_pair K V (abs t) pos.
Proof.
  intros t pos HI Hr. unfold hash_pairi, s_pair.
  rewrite (inv_n t HI). destruct (Z.ltb_spec (Z.of_nat (length (korder t))) pos); [lia|].
  destruct (Z.ltb_spec pos 0); [lia|].
  rewrite fr_nth by now apply get_res. rewrite abs_def, fm_nth by now apply get_res.
  destruct (at_pos_some (get t) (korder t) (Z.to_nat pos) (get_res t HI)) as (kv & ->); [lia|reflexivity].
Qed.

Lemma s_pair_beyond : forall t pos, Inv t -> Z.of_nat (length (korder t)) <= pos -> s_pair K V (abs t) pos = Err.
Proof.
  intros t pos HI Hr. unfold s_pair. destruct (Z.ltb_spec pos 0); [reflexivity|].
  assert (nth_error (abs t) (Z.to_nat pos) = None) as -> by (apply nth_error_None; rewrite abs_length by assumption; lia).
  reflexivity.
Qed.

Theorem hpair_refines : forall t pos, Inv t -> hpair K V keq hcode unwrap t pos = s_pair K V (abs t) pos.
Proof.
  intros t pos HI. unfold hpair.
  destruct (Z.ltb_spec pos 0); simpl.
  - unfold s_pair. destruct (Z.ltb_spec pos 0); [reflexivity|lia].
  - destruct (Z.leb_spec (Z.of_nat (length (korder t))) pos).
    + symmetry. now apply s_pair_beyond.
    + apply pairi_in_range; [assumption|lia].
Qed.

Theorem range_pair_refines : forall t pos, Inv t -> range_pair K V keq hcode unwrap t pos = s_pair K V (abs t) pos.
Proof.
  intros t pos HI. unfold range_pair. fold (len K V t). rewrite (len_refines t HI). unfold s_len.
  rewrite abs_length by assumption.
  destruct (Z.ltb_spec pos 0).
  - unfold s_pair. destruct (Z.ltb_spec pos 0); [reflexivity|lia].
  - destruct (Z.leb_spec (Z.of_nat (length (korder t))) pos).
    + symmetry. now apply s_pair_beyond.
    + apply pairi_in_range; [assumption|lia].
Qed.

Theorem range_key_refines : forall t pos, Inv t -> range_key K V keq hcode unwrap t pos = s_range_key K V (abs t) pos.
Proof. intros t pos HI. unfold range_key, s_range_key. now rewrite range_pair_refines. Qed.

Lemma json_entries_all : forall t l, (forall x, In x l -> get t x <> None) ->
  json_entries K V keq hcode unwrap t l = Some (fm (get t) l).
Proof.
  intros t. induction l as [|x r IH]; simpl; intros H; [reflexivity|].
  destruct (get t x) eqn:E; [|exfalso; now apply (H x (or_introl eq_refl))].
  rewrite IH by auto. reflexivity.
Qed.

Theorem json_refines : forall t, Inv t -> json_obs K V keq hcode unwrap t = s_json K V (abs t).
Proof.
  intros t HI. unfold json_obs, s_json. rewrite json_entries_all by now apply get_res.
  rewrite <- abs_def. f_equal. f_equal. rewrite abs_def, fm_keys; [reflexivity|now apply get_res].
Qed.

(* the printed form: exact except for a hash emptied by deletions (the bucket map keeps
   its empty buckets, SexpString then cuts off the opening brace) *)
Theorem str_refines_partial : forall t, Inv t -> abs t <> [] \/ buckets t = [] ->
  str_obs K V keq hcode unwrap t = s_str K V (abs t).
Proof.
  intros t HI Hc. unfold str_obs, s_str. fold (abs t). f_equal.
  destruct (buckets t) eqn:Eb.
  - (* no bucket: nothing resolves *)
    assert (abs t = []) as ->; [|reflexivity].
    rewrite abs_def. assert (korder t = []) as ->; [|reflexivity].
    destruct (korder t) as [|x r] eqn:Ek; [reflexivity|]. exfalso.
    apply (inv_res t HI x); [rewrite Ek; now left|]. unfold hash_get_default. now rewrite Eb.
  - destruct (abs t); [|reflexivity]. destruct Hc as [Hc|Hc]; [now contradiction Hc|discriminate].
Qed.

Lemma collect_ok : forall (A : Type) (f : Z -> outcome A) (l : list A) i,
  (forall j a, nth_error l j = Some a -> f (i + Z.of_nat j) = Ok a) -> collect f i (length l) = Ok l.
Proof.
  intros A f. induction l as [|a r IH]; intros i H; simpl; [reflexivity|].
  pose proof (H 0%nat a eq_refl) as H0. simpl in H0. rewrite Z.add_0_r in H0. rewrite H0.
  rewrite IH; [reflexivity|]. intros j b Hj.
  replace (i + 1 + Z.of_nat j) with (i + Z.of_nat (S j)) by lia. now apply H.
Qed.

Lemma s_pair_nth : forall (s : spec) j a, nth_error s j = Some a -> s_pair K V s (Z.of_nat j) = Ok a.
Proof.
  intros s j a H. unfold s_pair. destruct (Z.ltb_spec (Z.of_nat j) 0); [lia|]. now rewrite Nat2Z.id, H.
Qed.

Theorem loop_macro_refines : forall t, Inv t -> loop_macro K V keq hcode unwrap t = s_loop K V (abs t).
Proof.
  intros t HI. unfold loop_macro, s_loop. rewrite (len_refines t HI). unfold s_len. rewrite Nat2Z.id.
  apply collect_ok. intros j a Hj. simpl. rewrite hpair_refines by assumption. now apply s_pair_nth.
Qed.

Theorem loop_infix_refines : forall t, Inv t -> loop_infix K V keq hcode unwrap t = s_loop K V (abs t).
Proof.
  intros t HI. unfold loop_infix, s_loop. rewrite (len_refines t HI). unfold s_len. rewrite Nat2Z.id.
  apply collect_ok. intros j a Hj. simpl. rewrite range_pair_refines by assumption. now apply s_pair_nth.
Qed.

(* ------------------------------------------------------------------ *)
(* corollaries *)
Theorem len_keys_agree : forall t, Inv t ->
  len K V t = Ok (Z.of_nat (length (keys K V t))) /\ length (keys K V t) = length (abs t) /\ nkeys t = Z.of_nat (length (keys K V t)).
Proof.
  intros t HI. rewrite (len_refines t HI). unfold s_len, keys. rewrite abs_length by assumption.
  repeat split. apply (inv_n t HI).
Qed.

Theorem hpair_total : forall t pos, Inv t -> 0 <= pos < Z.of_nat (length (keys K V t)) ->
  exists kv, hpair K V keq hcode unwrap t pos = Ok kv /\ nth_error (abs t) (Z.to_nat pos) = Some kv.
Proof.
  intros t pos HI Hr. rewrite hpair_refines by assumption. unfold s_pair, keys in *.
  destruct (Z.ltb_spec pos 0); [lia|].
  destruct (nth_error (abs t) (Z.to_nat pos)) eqn:E; [eauto|].
  apply nth_error_None in E. rewrite abs_length in E by assumption. lia.
Qed.

Lemma s_pair_no_crash : forall (s : spec) pos, s_pair K V s pos <> Crash.
Proof. intros s pos. unfold s_pair. destruct (pos <? 0); [discriminate|]. now destruct (nth_error s (Z.to_nat pos)). Qed.

Theorem no_internal_panic : forall t, Inv t ->
  len K V t <> Crash /\ json_obs K V keq hcode unwrap t <> Crash /\
  (forall pos, hpair K V keq hcode unwrap t pos <> Crash) /\
  (forall pos, range_pair K V keq hcode unwrap t pos <> Crash) /\
  (forall pos, range_key K V keq hcode unwrap t pos <> Crash).
Proof.
  intros t HI. repeat split.
  - now rewrite len_refines.
  - now rewrite json_refines.
  - intros pos. rewrite hpair_refines by assumption. apply s_pair_no_crash.
  - intros pos. rewrite range_pair_refines by assumption. apply s_pair_no_crash.
  - intros pos. rewrite range_key_refines by assumption. unfold s_range_key.
    pose proof (s_pair_no_crash (abs t) pos). now destruct (s_pair K V (abs t) pos).
Qed.

(* HashGetDefault (hget with a default) of a one-element array [k] never finds anything *)
Theorem getd_wrapped_none : forall t key, Inv t -> ok key = true -> unwrap key <> key -> getd t key = None.
Proof.
  intros t key HI Hok Hne. destruct (getd t key) eqn:G; [|reflexivity]. exfalso. apply Hne.
  rewrite getd_bk in G.
  assert (existsb (fun p => keq (fst p) key) (bk t (hcode key)) = true) by (rewrite existsb_s_get; now rewrite G).
  now destruct (present_good t key HI Hok H).
Qed.

End Generic.

(* ================================================================== *)
(* the concrete keys: Compare = 0 is an equivalence, the hash codes respect it *)

Definition acanon (a : atom) : Z * Z * list Z :=
  match a with AInt z | AChar z => (0, z, []) | ASym n => (1, n, []) | AStr s => (2, 0, s) end.
Definition kcanon (k : key) : (Z * Z * list Z) + list (Z * Z * list Z) :=
  match k with KAtom a => inl (acanon a) | KArr l => inr (map acanon l) end.

Lemma zlist_eqb_eq : forall a b, zlist_eqb a b = true <-> a = b.
Proof.
  induction a as [|x a IH]; destruct b as [|y b]; simpl; split; intros H; try reflexivity; try discriminate.
  - apply andb_true_iff in H as [H1 H2]. apply Z.eqb_eq in H1. apply IH in H2. now subst.
  - inversion H; subst. rewrite Z.eqb_refl. simpl. now apply IH.
Qed.

Lemma aeq_canon : forall a b, aeq a b = true <-> acanon a = acanon b.
Proof.
  intros a b. destruct a, b; simpl; split; intros H; try discriminate;
    try (apply Z.eqb_eq in H; now subst);
    try (inversion H; subst; now apply Z.eqb_refl).
  - apply zlist_eqb_eq in H. now subst.
  - inversion H; subst. now apply zlist_eqb_eq.
Qed.

Lemma alist_eq_canon : forall a b, alist_eq a b = true <-> map acanon a = map acanon b.
Proof.
  induction a as [|x a IH]; destruct b as [|y b]; simpl; split; intros H; try reflexivity; try discriminate.
  - apply andb_true_iff in H as [H1 H2]. apply aeq_canon in H1. apply IH in H2. now rewrite H1, H2.
  - inversion H as [[H1 H2]]. apply aeq_canon in H1. apply IH in H2. now rewrite H1, H2.
Qed.

Lemma keq_canon : forall a b, keq a b = true <-> kcanon a = kcanon b.
Proof.
  intros [a|a] [b|b]; simpl; split; intros H; try discriminate.
  - apply aeq_canon in H. now rewrite H.
  - inversion H. now apply aeq_canon.
  - apply alist_eq_canon in H. now rewrite H.
  - inversion H. now apply alist_eq_canon.
Qed.

Lemma keq_refl : forall a, keq a a = true.
Proof. intros. now apply keq_canon. Qed.

Lemma keq_sym : forall a b, keq a b = keq b a.
Proof.
  intros a b. destruct (keq a b) eqn:E1, (keq b a) eqn:E2; try reflexivity.
  - apply keq_canon in E1. symmetry in E1. apply keq_canon in E1. congruence.
  - apply keq_canon in E2. symmetry in E2. apply keq_canon in E2. congruence.
Qed.

Lemma keq_trans : forall a b c, keq a b = true -> keq b c = true -> keq a c = true.
Proof. intros a b c H1 H2. apply keq_canon in H1, H2. apply keq_canon. congruence. Qed.

Lemma ahash_canon : forall a b, acanon a = acanon b -> ahash a = ahash b.
Proof. intros a b H. destruct a, b; simpl in *; inversion H; subst; reflexivity. Qed.

Lemma nochar_canon_eq : forall a b, existsb is_char a = false -> existsb is_char b = false ->
  map acanon a = map acanon b -> a = b.
Proof.
  induction a as [|x a IH]; destruct b as [|y b]; simpl; intros Ha Hb H; try reflexivity; try discriminate.
  apply orb_false_iff in Ha as [Hx Ha]. apply orb_false_iff in Hb as [Hy Hb].
  inversion H as [[H1 H2]]. f_equal; [|now apply IH].
  destruct x, y; simpl in *; try discriminate; inversion H1; subst; reflexivity.
Qed.

Lemma khash_compat : forall ah a b, key_ok a = true -> key_ok b = true -> keq a b = true -> khash ah a = khash ah b.
Proof.
  intros ah [a|a] [b|b] Ha Hb H; simpl in *; try discriminate.
  - apply ahash_canon. now apply aeq_canon.
  - f_equal. apply negb_true_iff in Ha, Hb. apply nochar_canon_eq; try assumption. now apply alist_eq_canon.
Qed.

Lemma unwrap_idem : forall a, unwrap (unwrap a) = unwrap a.
Proof. intros [a|[|a [|b r]]]; reflexivity. Qed.

Lemma unwrap_ok : forall a, key_ok a = true -> key_ok (unwrap a) = true.
Proof. intros [a|[|a [|b r]]]; simpl; auto. Qed.

Lemma keq_fixed : forall a b, keq a b = true -> unwrap a = a -> unwrap b = b.
Proof.
  intros [a|[|a [|a' ra]]] [b|[|b [|b' rb]]]; simpl; intros H Hf; try reflexivity; try discriminate.
  rewrite andb_false_r in H. discriminate.
Qed.

(* the hash codes the code computes for atoms respect Compare = 0, whatever the strings are *)
Theorem atom_hash_compat : forall a b, aeq a b = true -> ahash a = ahash b.
Proof. intros a b H. apply ahash_canon. now apply aeq_canon. Qed.

(* ------------------------------------------------------------------ *)
(* instance of the generic development: arbitrary array hash [ah] *)
Section Instance.
Variable ah : list atom -> Z.

Definition ZInv (t : ztbl) : Prop := Inv key Z keq (khash ah) unwrap key_ok t.
Definition zop_ok (o : zop) : Prop := key_ok (op_key key Z o) = true.
Definition zop_plain (o : zop) : Prop := match o with ODel k => unwrap k = k | OSet _ _ => True end.
Definition zstep := step key Z keq (khash ah) unwrap.
Definition zs_step := s_step key Z keq unwrap.
Definition zabs := abs key Z keq (khash ah) unwrap.

Ltac hyps := first [exact keq_refl | exact keq_sym | exact keq_trans | exact (khash_compat ah)
                   | exact unwrap_idem | exact unwrap_ok | exact keq_fixed].

Lemma zop_ok_eq : forall o, zop_ok o <-> op_ok key Z key_ok o.
Proof. intros; reflexivity. Qed.
Lemma zop_plain_eq : forall o, zop_plain o <-> op_plain key Z unwrap o.
Proof. intros [k v|k]; reflexivity. Qed.

Theorem z_inv_init : ZInv (empty key Z).
Proof. apply inv_empty. Qed.

Theorem z_inv_step : forall t o, ZInv t -> zop_ok o -> ZInv (zstep t o).
Proof. intros t o. apply inv_step; hyps. Qed.

Theorem z_reachable_inv : forall ops, Forall zop_ok ops -> ZInv (zrun ah ops).
Proof. intros ops H. apply reachable_inv; try hyps. exact H. Qed.

Theorem z_step_refines : forall t o, ZInv t -> zop_ok o -> zop_plain o -> zabs (zstep t o) = zs_step (zabs t) o.
Proof. intros t o HI Hok Hpl. apply (step_refines key Z keq (khash ah) unwrap key_ok); try hyps; assumption. Qed.

Theorem z_history_refines : forall ops, Forall zop_ok ops -> Forall zop_plain ops -> zabs (zrun ah ops) = zs_run ops.
Proof.
  intros ops Hok Hpl. apply (history_refines key Z keq (khash ah) unwrap key_ok); try hyps; assumption.
Qed.

Notation zget := (hash_get key Z keq (khash ah) unwrap).
Notation zgetd := (hash_get_default key Z keq (khash ah)).
Notation zhpair := (hpair key Z keq (khash ah) unwrap).
Notation zrange_pair := (range_pair key Z keq (khash ah) unwrap).
Notation zrange_key := (range_key key Z keq (khash ah) unwrap).
Notation zjson := (json_obs key Z keq (khash ah) unwrap).
Notation zstr := (str_obs key Z keq (khash ah) unwrap).
Notation zloop_macro := (loop_macro key Z keq (khash ah) unwrap).
Notation zloop_infix := (loop_infix key Z keq (khash ah) unwrap).
Notation zlen := (len key Z).
Notation zkeys := (keys key Z).
Notation zs_lookup := (s_lookup key Z keq unwrap).

Theorem z_get_refines : forall t k, ZInv t -> key_ok k = true -> zget t k = zs_lookup (zabs t) k.
Proof. intros t k. apply get_refines; hyps. Qed.

Theorem z_getd_refines : forall t k, ZInv t -> key_ok k = true -> unwrap k = k -> zgetd t k = zs_lookup (zabs t) k.
Proof.
  intros t k HI Hok Hfix. unfold s_lookup. rewrite Hfix.
  apply (getd_refines key Z keq (khash ah) unwrap key_ok); try hyps; [assumption|now split].
Qed.

Theorem z_len_refines : forall t, ZInv t -> zlen t = s_len key Z (zabs t).
Proof. intros t. apply len_refines. Qed.

Theorem z_keys_refines : forall t, ZInv t -> zkeys t = s_keys key Z (zabs t).
Proof. intros t. apply keys_refines. Qed.

Theorem z_hpair_refines : forall t pos, ZInv t -> zhpair t pos = s_pair key Z (zabs t) pos.
Proof. intros t pos. apply hpair_refines. Qed.

Theorem z_range_pair_refines : forall t pos, ZInv t -> zrange_pair t pos = s_pair key Z (zabs t) pos.
Proof. intros t pos. apply range_pair_refines. Qed.

Theorem z_range_key_refines : forall t pos, ZInv t -> zrange_key t pos = s_range_key key Z (zabs t) pos.
Proof. intros t pos. apply range_key_refines. Qed.

Theorem z_json_refines : forall t, ZInv t -> zjson t = s_json key Z (zabs t).
Proof. intros t. apply json_refines. Qed.

Theorem z_str_refines_partial : forall t, ZInv t -> zabs t <> [] \/ buckets t = [] -> zstr t = s_str key Z (zabs t).
Proof. intros t. apply str_refines_partial. Qed.

Theorem z_loop_macro_refines : forall t, ZInv t -> zloop_macro t = s_loop key Z (zabs t).
Proof. intros t. apply loop_macro_refines. Qed.

Theorem z_loop_infix_refines : forall t, ZInv t -> zloop_infix t = s_loop key Z (zabs t).
Proof. intros t. apply loop_infix_refines. Qed.

Theorem z_len_keys_agree : forall t, ZInv t ->
  zlen t = Ok (Z.of_nat (length (zkeys t))) /\ length (zkeys t) = length (zabs t) /\ nkeys t = Z.of_nat (length (zkeys t)).
Proof. intros t. apply len_keys_agree. Qed.

Theorem z_hpair_total : forall t pos, ZInv t -> 0 <= pos < Z.of_nat (length (zkeys t)) ->
  exists kv, zhpair t pos = Ok kv /\ nth_error (zabs t) (Z.to_nat pos) = Some kv.
Proof. intros t pos. apply hpair_total. Qed.

Theorem z_no_internal_panic : forall t, ZInv t ->
  zlen t <> Crash /\ zjson t <> Crash /\ (forall pos, zhpair t pos <> Crash) /\
  (forall pos, zrange_pair t pos <> Crash) /\ (forall pos, zrange_key t pos <> Crash).
Proof. intros t. apply no_internal_panic. Qed.

Theorem z_missing_delete_noop : forall t k, zgetd t k = None -> zstep t (ODel k) = t.
Proof. intros t k. apply missing_delete_noop. Qed.

Theorem z_hdel_wrapped_noop : forall t k, ZInv t -> key_ok k = true -> unwrap k <> k -> zstep t (ODel k) = t.
Proof. intros t k. apply (hdel_wrapped_noop key Z keq (khash ah) unwrap key_ok); hyps. Qed.

Theorem z_getd_wrapped_none : forall t k, ZInv t -> key_ok k = true -> unwrap k <> k -> zgetd t k = None.
Proof. intros t k. apply (getd_wrapped_none key Z keq (khash ah) unwrap key_ok); hyps. Qed.

(* the master statement: after EVERY history of hset/hdel over hash-compatible keys in which no
   hdel names a one-element array, every observation equals the one of the ordered map *)
Theorem z_hash_is_ordered_map : forall ops, Forall zop_ok ops -> Forall zop_plain ops ->
  let t := zrun ah ops in let s := zs_run ops in
  ZInv t /\ zabs t = s /\
  zlen t = s_len key Z s /\ zkeys t = s_keys key Z s /\
  (forall k, key_ok k = true -> zget t k = zs_lookup s k) /\
  (forall k, key_ok k = true -> unwrap k = k -> zgetd t k = zs_lookup s k) /\
  (forall pos, zhpair t pos = s_pair key Z s pos) /\
  (forall pos, zrange_pair t pos = s_pair key Z s pos) /\
  (forall pos, zrange_key t pos = s_range_key key Z s pos) /\
  zjson t = s_json key Z s /\ zloop_macro t = s_loop key Z s /\ zloop_infix t = s_loop key Z s /\
  (s <> [] -> zstr t = s_str key Z s).
Proof.
  intros ops Hok Hpl t s.
  pose proof (z_reachable_inv ops Hok) as HI. pose proof (z_history_refines ops Hok Hpl) as Habs.
  fold t in HI, Habs. fold s in Habs. rewrite <- Habs.
  refine (conj HI (conj eq_refl _)).
  repeat match goal with |- _ /\ _ => split end; intros;
    auto using z_len_refines, z_keys_refines, z_get_refines, z_getd_refines, z_hpair_refines,
    z_range_pair_refines, z_range_key_refines, z_json_refines, z_loop_macro_refines, z_loop_infix_refines.
  apply z_str_refines_partial; auto.
Qed.

(* ------------------------------------------------------------------ *)
(* where the code deviates: concrete witnesses *)
Definition k1 : key := KAtom (AInt 1).
Definition k1w : key := KArr [AInt 1].

(* (hset h 1 5) (hdel h 1): the content is empty but str cuts off the opening brace *)
Theorem str_after_emptying_refuted :
  let ops := [OSet k1 5; ODel k1] in
  Forall zop_ok ops /\ Forall zop_plain ops /\ zs_run ops = [] /\
  zstr (zrun ah ops) = ([], true) /\ s_str key Z (zs_run ops) = ([], false).
Proof. cbv zeta. repeat split; repeat constructor. Qed.

(* (hset h [1] 5) (hdel h [1]): the key stays; (hget h [1] d) gives the default although (hget h [1]) finds 5 *)
Theorem wrapped_key_refuted :
  let ops := [OSet k1w 5; ODel k1w] in
  Forall zop_ok ops /\ zs_run ops = [] /\ zabs (zrun ah ops) = [(k1, 5)] /\
  zget (zrun ah [OSet k1w 5]) k1w = Some 5 /\ zgetd (zrun ah [OSet k1w 5]) k1w = None.
Proof.
  cbv zeta. assert (Hok : Forall zop_ok [OSet k1w 5]) by (repeat constructor).
  pose proof (z_reachable_inv _ Hok) as HI.
  repeat split; try (repeat constructor; fail).
  - change (zrun ah [OSet k1w 5; ODel k1w]) with (zstep (zrun ah [OSet k1w 5]) (ODel k1w)).
    rewrite z_hdel_wrapped_noop; [reflexivity|exact HI|reflexivity|discriminate].
  - apply z_getd_wrapped_none; [exact HI|reflexivity|discriminate].
Qed.

End Instance.

(* arrays that compare equal but are hashed apart (an int and a char inside): after
   (hset h [1 97] 1) (hset h [1 'a'] 2) (hdel h [1 'a']) the key list keeps the deleted
   spelling, hpair at position 0 reaches the internal panic and json panics *)
Definition kA : key := KArr [AInt 1; AInt 97].
Definition kB : key := KArr [AInt 1; AChar 97].

Theorem incompatible_array_hash_refuted : forall ah : list atom -> Z,
  ah [AInt 1; AInt 97] <> ah [AInt 1; AChar 97] ->
  let t := zrun ah [OSet kA 1; OSet kB 2; ODel kB] in
  keq kA kB = true /\ keys key Z t = [kB] /\ hash_get key Z keq (khash ah) unwrap t kA = Some 1 /\
  hpair key Z keq (khash ah) unwrap t 0 = Crash /\ json_obs key Z keq (khash ah) unwrap t = Crash.
Proof.
  intros ah Hne. cbv zeta.
  assert (Hab : Z.eqb (ah [AInt 1; AInt 97]) (ah [AInt 1; AChar 97]) = false) by now apply Z.eqb_neq.
  assert (Hba : Z.eqb (ah [AInt 1; AChar 97]) (ah [AInt 1; AInt 97]) = false) by (apply Z.eqb_neq; congruence).
  unfold zrun, run, kA, kB, hash_get, hpair, json_obs, keys, hash_pairi.
  unfold fold_left, step, hash_set, hash_delete, hash_get_default.
  repeat (simpl; unfold hash_get, hash_get_default; rewrite ?Hab, ?Hba, ?Z.eqb_refl).
  repeat split; reflexivity.
Qed.

(* names for the instantiated operations, used by the statements in Properties/C14.v *)
Definition zget ah := hash_get key Z keq (khash ah) unwrap.          (* (hget h k) *)
Definition zgetd ah := hash_get_default key Z keq (khash ah).        (* (hget h k default) *)
Definition zhpair ah := hpair key Z keq (khash ah) unwrap.           (* (hpair h i) *)
Definition zrange_pair ah := range_pair key Z keq (khash ah) unwrap. (* (__rangePair h i) *)
Definition zrange_key ah := range_key key Z keq (khash ah) unwrap.   (* (__rangeKey h i) *)
Definition zjson ah := json_obs key Z keq (khash ah) unwrap.         (* (json h) *)
Definition zstr ah := str_obs key Z keq (khash ah) unwrap.           (* (str h) *)
Definition zloop_macro ah := loop_macro key Z keq (khash ah) unwrap. (* (range k v h ..) *)
Definition zloop_infix ah := loop_infix key Z keq (khash ah) unwrap. (* for k, v := range h *)
Definition zlen : ztbl -> outcome Z := len key Z.                    (* (len h), (__rangeLen h) *)
Definition zkeys : ztbl -> list key := keys key Z.                   (* (keys h) *)
Definition zs_lookup := s_lookup key Z keq unwrap.
