(* C14 proofs: the bucket map + KeyOrder + NumKeys of zygo/hashutils.go refine an
   association list in first-insertion order, for an arbitrary hash function, under every
   history of hset/hdel.  Statements are re-exported by Properties/C14.v. *)
From Coq Require Import List ZArith Bool Lia.
From ZV Require Import Model.HashTbl.
Import ListNotations.
Open Scope Z_scope.

Section Generic.
Variables K V : Type.
Variable keq : K -> K -> bool.
Variable hcode : K -> Z.
Variable unwrap : K -> K.
Variable ok : K -> bool.

Hypothesis keq_refl : forall a, keq a a = true.
Hypothesis keq_sym : forall a b, keq a b = keq b a.
Hypothesis keq_trans : forall a b c, keq a b = true -> keq b c = true -> keq a c = true.
Hypothesis hcode_compat : forall a b, ok a = true -> ok b = true -> keq a b = true -> hcode a = hcode b.
Hypothesis unwrap_idem : forall a, ok a = true -> unwrap (unwrap a) = unwrap a.
Hypothesis unwrap_ok : forall a, ok a = true -> ok (unwrap a) = true.
Hypothesis keq_fixed : forall a b, keq a b = true -> unwrap a = a -> unwrap b = b.

Notation tbl := (tbl K V).
Notation spec := (spec K V).
Notation bucket := (bucket K V).
Notation s_get := (s_get K V keq).
Notation s_set := (s_set K V keq).
Notation s_del := (s_del K V keq).
Notation getd := (bucket_lookup K V keq hcode).
Notation getdflt := (hash_get_default K V keq hcode unwrap).
Notation get := (hash_get K V keq hcode unwrap).
Notation hset := (hash_set K V keq hcode unwrap).
Notation hdel := (delete_key K V keq keq hcode).
Notation step := (step K V keq keq hcode unwrap).
Notation s_step := (s_step K V keq unwrap).
Notation abs := (abs K V keq hcode unwrap).
Notation run := (run K V keq keq hcode unwrap).
Notation s_run := (s_run K V keq unwrap).
Notation empty := (empty K V).

(* a key that may be stored: hash-compatible and not a one-element array *)
Definition good (k : K) : Prop := ok k = true /\ unwrap k = k.

Lemma keq_trans_f : forall a b c, keq a b = true -> keq a c = false -> keq b c = false.
Proof.
  intros a b c Hab Hac. destruct (keq b c) eqn:E; [|reflexivity].
  rewrite (keq_trans a b c Hab E) in Hac. discriminate.
Qed.

Lemma keq_congr_l : forall a b c, keq a b = true -> keq a c = keq b c.
Proof.
  intros a b c Hab. destruct (keq a c) eqn:E.
  - symmetry. apply (keq_trans b a c); [rewrite keq_sym; exact Hab|exact E].
  - symmetry. apply (keq_trans_f a b c Hab E).
Qed.

Lemma keq_congr_r : forall a b c, keq a b = true -> keq c a = keq c b.
Proof. intros a b c Hab. rewrite (keq_sym c a), (keq_sym c b). now apply keq_congr_l. Qed.

(* pairwise distinct under keq *)
Fixpoint nodupk (l : list K) : Prop :=
  match l with [] => True | x :: r => (forall y, In y r -> keq x y = false) /\ nodupk r end.

(* ------------------------------------------------------------------ *)
(* association lists under keq *)

Lemma s_get_some_in : forall (b : bucket) k v, s_get b k = Some v ->
  exists k', In (k', v) b /\ keq k' k = true.
Proof.
  induction b as [|[k' v'] r IH]; simpl; intros k v H; [discriminate|].
  destruct (keq k' k) eqn:E.
  - inversion H; subst. exists k'. split; [now left|exact E].
  - destruct (IH _ _ H) as (k'' & Hin & Hk). exists k''. split; [now right|exact Hk].
Qed.

Lemma s_get_none_all : forall (b : bucket) k, s_get b k = None ->
  forall k' v, In (k', v) b -> keq k' k = false.
Proof.
  induction b as [|[k1 v1] r IH]; simpl; intros k H k' v Hin; [contradiction|].
  destruct (keq k1 k) eqn:E; [discriminate|].
  destruct Hin as [Heq|Hin]; [inversion Heq; subst; exact E|eapply IH; eauto].
Qed.

Lemma s_get_keq : forall (b : bucket) k1 k2, keq k1 k2 = true -> s_get b k1 = s_get b k2.
Proof.
  induction b as [|[k v] r IH]; simpl; intros k1 k2 H; [reflexivity|].
  rewrite (keq_congr_r k1 k2 k H). destruct (keq k k2); [reflexivity|now apply IH].
Qed.

Lemma existsb_s_get : forall (b : bucket) k,
  existsb (fun p => keq (fst p) k) b = match s_get b k with Some _ => true | None => false end.
Proof.
  induction b as [|[k' v'] r IH]; simpl; intros k; [reflexivity|].
  destruct (keq k' k); simpl; [reflexivity|apply IH].
Qed.

(* ------------------------------------------------------------------ *)
(* the Go map *)

Lemma b_find_put_same : forall (bs : list (Z * bucket)) h b, b_find K V (b_put K V bs h b) h = Some b.
Proof.
  induction bs as [|[h' b'] r IH]; simpl; intros h b.
  - now rewrite Z.eqb_refl.
  - destruct (Z.eqb h' h) eqn:E; simpl; [now rewrite Z.eqb_refl|rewrite E; apply IH].
Qed.

Lemma b_find_put_other : forall (bs : list (Z * bucket)) h b h', h' <> h ->
  b_find K V (b_put K V bs h b) h' = b_find K V bs h'.
Proof.
  induction bs as [|[h1 b1] r IH]; simpl; intros h b h' Hne.
  - destruct (Z.eqb_spec h h'); [congruence|reflexivity].
  - destruct (Z.eqb_spec h1 h); simpl.
    + subst. destruct (Z.eqb_spec h h'); [congruence|reflexivity].
    + destruct (Z.eqb_spec h1 h'); [reflexivity|now apply IH].
Qed.

(* sum of the bucket lengths, as HashCountKeys computes it *)
Definition total (bs : list (Z * bucket)) : Z :=
  fold_right (fun hb acc => Z.of_nat (length (snd hb)) + acc) 0 bs.

Definition blen (o : option bucket) : Z := match o with Some b => Z.of_nat (length b) | None => 0 end.

Lemma total_put : forall (bs : list (Z * bucket)) h b,
  total (b_put K V bs h b) = total bs - blen (b_find K V bs h) + Z.of_nat (length b).
Proof.
  induction bs as [|[h1 b1] r IH]; intros h b; simpl.
  - lia.
  - destruct (Z.eqb_spec h1 h); simpl.
    + lia.
    + rewrite IH. lia.
Qed.

Lemma b_find_nonempty : forall (bs : list (Z * bucket)) h b, b_find K V bs h = Some b -> bs <> [].
Proof. intros bs h b H ->. discriminate. Qed.

(* ------------------------------------------------------------------ *)
(* walking an order list with a getter *)
Definition fm (f : K -> option V) (l : list K) : list (K * V) :=
  flat_map (fun k => match f k with Some v => [(k, v)] | None => [] end) l.

Lemma fm_ext : forall f g l, (forall x, In x l -> f x = g x) -> fm f l = fm g l.
Proof.
  induction l as [|a l IH]; simpl; intros H; [reflexivity|].
  rewrite (H a) by now left. f_equal. apply IH. intros; apply H; now right.
Qed.

Lemma fm_app : forall f l1 l2, fm f (l1 ++ l2) = fm f l1 ++ fm f l2.
Proof. intros. unfold fm. apply flat_map_app. Qed.

Lemma s_get_fm : forall f l k, (forall x, In x l -> keq x k = true -> f x = f k) ->
  s_get (fm f l) k = if existsb (fun x => keq x k) l then f k else None.
Proof.
  induction l as [|x r IH]; simpl; intros k H; [reflexivity|].
  assert (Hr : forall y, In y r -> keq y k = true -> f y = f k) by (intros; apply H; [now right|assumption]).
  destruct (keq x k) eqn:E; simpl.
  - rewrite <- (H x (or_introl eq_refl) E).
    destruct (f x) eqn:Fx; simpl.
    + now rewrite E.
    + rewrite (IH k Hr). rewrite <- (H x (or_introl eq_refl) E), Fx. now destruct (existsb _ r).
  - destruct (f x); simpl; [rewrite E|]; now apply IH.
Qed.

Lemma nodupk_tail_false : forall x r k, (forall y, In y r -> keq x y = false) -> keq x k = true ->
  forall y, In y r -> keq y k = false.
Proof.
  intros x r k Hx Hk y Hy. rewrite keq_sym. apply (keq_trans_f x k y Hk). now apply Hx.
Qed.

Lemma s_set_fm_present : forall f l k v, nodupk l -> (forall x, In x l -> f x <> None) ->
  existsb (fun x => keq x k) l = true ->
  s_set (fm f l) k v = fm (fun x => if keq x k then Some v else f x) l.
Proof.
  induction l as [|x r IH]; simpl; intros k v Hnd Hres Hex; [discriminate|].
  destruct Hnd as [Hx Hnd].
  destruct (f x) eqn:Fx; [|exfalso; now apply (Hres x (or_introl eq_refl))].
  simpl. destruct (keq x k) eqn:E; simpl.
  - f_equal. apply fm_ext. intros y Hy. now rewrite (nodupk_tail_false x r k Hx E y Hy).
  - f_equal. apply IH; auto.
Qed.

Lemma s_set_fm_absent : forall f l k v, existsb (fun x => keq x k) l = false ->
  s_set (fm f l) k v = fm f l ++ [(k, v)].
Proof.
  induction l as [|x r IH]; simpl; intros k v Hex; [reflexivity|].
  apply orb_false_iff in Hex as [E Hex].
  destruct (f x); simpl; [rewrite E; f_equal|]; now apply IH.
Qed.

Lemma s_del_fm : forall f l k, nodupk l -> (forall x, In x l -> f x <> None) ->
  s_del (fm f l) k = fm (fun x => if keq x k then None else f x) (remove_first (fun x => keq x k) l).
Proof.
  induction l as [|x r IH]; simpl; intros k Hnd Hres; [reflexivity|].
  destruct Hnd as [Hx Hnd].
  destruct (f x) eqn:Fx; [|exfalso; now apply (Hres x (or_introl eq_refl))].
  simpl. destruct (keq x k) eqn:E; simpl.
  - apply fm_ext. intros y Hy. now rewrite (nodupk_tail_false x r k Hx E y Hy).
  - try rewrite E; try rewrite Fx; simpl; try rewrite E; simpl. f_equal. apply IH; auto.
Qed.

(* ------------------------------------------------------------------ *)
(* remove_first and nodupk *)
Lemma remove_first_in : forall (A : Type) (f : A -> bool) l x, In x (remove_first f l) -> In x l.
Proof.
  induction l as [|a r IH]; simpl; intros x H; [assumption|].
  destruct (f a); [now right|]. destruct H as [->|H]; [now left|right; now apply IH].
Qed.

Lemma remove_first_keep : forall (A : Type) (f : A -> bool) l x, In x l -> f x = false -> In x (remove_first f l).
Proof.
  induction l as [|a r IH]; simpl; intros x H Hf; [assumption|].
  destruct H as [->|H].
  - rewrite Hf. now left.
  - destruct (f a); [assumption|right; now apply IH].
Qed.

Lemma remove_first_none : forall (A : Type) (f : A -> bool) l, existsb f l = false -> remove_first f l = l.
Proof.
  induction l as [|a r IH]; simpl; intros H; [reflexivity|].
  apply orb_false_iff in H as [E H]. rewrite E. f_equal. now apply IH.
Qed.

Lemma remove_first_length : forall (A : Type) (f : A -> bool) l, existsb f l = true ->
  Z.of_nat (length (remove_first f l)) = Z.of_nat (length l) - 1.
Proof.
  induction l as [|a r IH]; cbn [existsb remove_first]; intros H; [discriminate|].
  destruct (f a); cbn [orb] in H; cbn [length]; [lia|]. rewrite Nat2Z.inj_succ, IH by assumption. lia.
Qed.

Lemma remove_first_map_fst : forall (f : K -> bool) (b : bucket),
  map fst (remove_first (fun p => f (fst p)) b) = remove_first f (map fst b).
Proof.
  induction b as [|[k v] r IH]; simpl; [reflexivity|]. destruct (f k); simpl; [reflexivity|now f_equal].
Qed.

Lemma nodupk_remove_first : forall f l, nodupk l -> nodupk (remove_first f l).
Proof.
  induction l as [|a r IH]; simpl; intros H; [exact I|]. destruct H as [Ha Hr].
  destruct (f a); [assumption|]. simpl. split; [|now apply IH].
  intros y Hy. apply Ha. eapply remove_first_in; eauto.
Qed.

Lemma nodupk_removed_false : forall l k x, nodupk l -> In x (remove_first (fun y => keq y k) l) -> keq x k = false.
Proof.
  induction l as [|a r IH]; simpl; intros k x Hnd H; [contradiction|]. destruct Hnd as [Ha Hr].
  destruct (keq a k) eqn:E.
  - eapply nodupk_tail_false; eauto.
  - destruct H as [->|H]; [assumption|now apply IH].
Qed.

Lemma nodupk_app_one : forall l k, nodupk l -> (forall x, In x l -> keq x k = false) -> nodupk (l ++ [k]).
Proof.
  induction l as [|a r IH]; simpl; intros k Hnd H; [split; [intros ? []|exact I]|].
  destruct Hnd as [Ha Hr]. split.
  - intros y Hy. apply in_app_or in Hy as [Hy|[<-|[]]]; [now apply Ha|apply H; now left].
  - apply IH; [assumption|intros; apply H; now right].
Qed.

Lemma nodupk_map : forall (r : K -> K) l, (forall x, keq (r x) x = true) -> nodupk l -> nodupk (map r l).
Proof.
  induction l as [|a l IH]; simpl; intros Hr Hnd; [exact I|]. destruct Hnd as [Ha Hl].
  split; [|now apply IH].
  intros y Hy. apply in_map_iff in Hy as (y0 & <- & Hy0).
  rewrite (keq_congr_l (r a) a (r y0) (Hr a)). rewrite (keq_congr_r (r y0) y0 a (Hr y0)). now apply Ha.
Qed.

Lemma existsb_false_all : forall l k, existsb (fun x => keq x k) l = false -> forall x, In x l -> keq x k = false.
Proof.
  intros l k H x Hx. destruct (keq x k) eqn:E; [|reflexivity].
  assert (existsb (fun x => keq x k) l = true) by (apply existsb_exists; eauto). congruence.
Qed.

(* ------------------------------------------------------------------ *)
(* buckets *)
Definition bk (t : tbl) (h : Z) : bucket := match b_find K V (buckets t) h with Some b => b | None => [] end.

Lemma b_get_s_get : forall (b : bucket) k, b_get K V keq b k = s_get b k.
Proof. induction b as [|[k' v] r IH]; simpl; intros k; [reflexivity|]. now rewrite IH. Qed.

Lemma getd_bk : forall t k, getd t k = s_get (bk t (hcode k)) k.
Proof.
  intros. unfold bucket_lookup, bk. destruct (b_find K V (buckets t) (hcode k)); [apply b_get_s_get|reflexivity].
Qed.

Definition put (t : tbl) h b ko n : tbl := {| buckets := b_put K V (buckets t) h b; korder := ko; nkeys := n |}.

Lemma bk_put : forall t h b ko n h', bk (put t h b ko n) h' = if Z.eqb h' h then b else bk t h'.
Proof.
  intros. unfold bk, put; simpl. destruct (Z.eqb_spec h' h).
  - subst. now rewrite b_find_put_same.
  - now rewrite b_find_put_other.
Qed.

Lemma total_put' : forall t h b,
  total (b_put K V (buckets t) h b) = total (buckets t) - Z.of_nat (length (bk t h)) + Z.of_nat (length b).
Proof.
  intros. rewrite total_put. unfold bk, blen. now destruct (b_find K V (buckets t) h).
Qed.

(* normal forms of HashSet / HashDelete in terms of the bucket of the key's code *)
Lemma hset_eq : forall t k0 v,
  let key := unwrap k0 in let h := hcode key in let arr := bk t h in
  hset t k0 v =
    if existsb (fun p => keq (fst p) key) arr
    then put t h (map (fun p => if keq (fst p) key then (key, v) else p) arr) (korder t) (nkeys t)
    else put t h (arr ++ [(key, v)]) (korder t ++ [key]) (nkeys t + 1).
Proof.
  intros. unfold hash_set, arr, bk, h, key, put.
  destruct (b_find K V (buckets t) (hcode (unwrap k0))); reflexivity.
Qed.

Lemma hdel_eq : forall t key,
  let h := hcode key in let arr := bk t h in
  hdel t key =
    if existsb (fun p => keq (fst p) key) arr
    then put t h (remove_first (fun p => keq (fst p) key) arr) (remove_first (fun k => keq k key) (korder t)) (nkeys t - 1)
    else t.
Proof.
  intros. unfold delete_key, arr, bk, h, put.
  destruct (b_find K V (buckets t) (hcode key)); reflexivity.
Qed.

(* bucket-level read-after-write facts *)
Lemma s_get_replace : forall (arr : bucket) key v k',
  s_get (map (fun p => if keq (fst p) key then (key, v) else p) arr) k' =
  if keq key k' then (if existsb (fun p => keq (fst p) key) arr then Some v else None) else s_get arr k'.
Proof.
  induction arr as [|[k1 v1] r IH]; intros key v k'; simpl.
  - now destruct (keq key k').
  - destruct (keq k1 key) eqn:E; simpl.
    + rewrite (keq_congr_l k1 key k' E). destruct (keq key k') eqn:E2; [reflexivity|].
      rewrite IH, E2. reflexivity.
    + destruct (keq k1 k') eqn:E1.
      * destruct (keq key k') eqn:E2; [|reflexivity].
        exfalso. rewrite (keq_congr_r key k' k1) in E by assumption. congruence.
      * apply IH.
Qed.

Lemma s_get_append : forall (arr : bucket) key v k', s_get arr key = None ->
  s_get (arr ++ [(key, v)]) k' = if keq key k' then Some v else s_get arr k'.
Proof.
  induction arr as [|[k1 v1] r IH]; intros key v k' H; simpl in *.
  - now destruct (keq key k').
  - destruct (keq k1 key) eqn:E; [discriminate|].
    destruct (keq k1 k') eqn:E1.
    + destruct (keq key k') eqn:E2; [|reflexivity].
      exfalso. rewrite (keq_congr_r key k' k1) in E by assumption. congruence.
    + now apply IH.
Qed.

Lemma s_get_remove : forall (arr : bucket) key k', nodupk (map fst arr) ->
  s_get (remove_first (fun p => keq (fst p) key) arr) k' = if keq key k' then None else s_get arr k'.
Proof.
  induction arr as [|[k1 v1] r IH]; intros key k' Hnd; simpl in *.
  - now destruct (keq key k').
  - destruct Hnd as [H1 Hr]. destruct (keq k1 key) eqn:E; simpl.
    + rewrite (keq_congr_l k1 key k' E). destruct (keq key k') eqn:E2; [|reflexivity].
      destruct (s_get r k') eqn:G; [|reflexivity].
      exfalso. apply s_get_some_in in G as (k2 & Hin & Hk2).
      assert (keq k1 k2 = false) by (apply H1; change k2 with (fst (k2, v)); now apply in_map).
      assert (keq k1 k' = true) by (eapply keq_trans; eauto).
      rewrite (keq_congr_r k2 k' k1 Hk2) in H. congruence.
    + destruct (keq k1 k') eqn:E1.
      * destruct (keq key k') eqn:E2; [|reflexivity].
        exfalso. rewrite (keq_congr_r key k' k1) in E by assumption. congruence.
      * now apply IH.
Qed.

(* ------------------------------------------------------------------ *)
(* the invariant tying the three pieces of bookkeeping together *)
Definition bucket_ok (h : Z) (b : bucket) : Prop :=
  nodupk (map fst b) /\ forall k v, In (k, v) b -> hcode k = h /\ good k.

Record Inv (t : tbl) : Prop := {
  inv_bk : forall h, bucket_ok h (bk t h);                 (* each bucket: keys of that code, once each *)
  inv_nd : nodupk (korder t);                              (* KeyOrder has no key twice *)
  inv_good : forall k, In k (korder t) -> good k;
  inv_res : forall k, In k (korder t) -> getd t k <> None; (* every KeyOrder key is live *)
  inv_rep : forall h k v, In (k, v) (bk t h) -> exists k', In k' (korder t) /\ keq k' k = true;
                                                           (* every live key is in KeyOrder *)
  inv_n : nkeys t = Z.of_nat (length (korder t));          (* NumKeys *)
  inv_total : total (buckets t) = Z.of_nat (length (korder t)) }.

Lemma inv_empty : Inv empty.
Proof.
  constructor; simpl; try reflexivity; try tauto.
  intros h. unfold bk; simpl. split; [exact I|intros ? ? []].
Qed.

Lemma good_unwrap : forall k, ok k = true -> good (unwrap k).
Proof. intros k H. split; [now apply unwrap_ok|now apply unwrap_idem]. Qed.

Lemma korder_present : forall t key, Inv t -> good key ->
  existsb (fun x => keq x key) (korder t) = existsb (fun p => keq (fst p) key) (bk t (hcode key)).
Proof.
  intros t key HI [Hok Hfix].
  destruct (existsb (fun p => keq (fst p) key) (bk t (hcode key))) eqn:Ex.
  - rewrite existsb_s_get in Ex. destruct (s_get (bk t (hcode key)) key) eqn:G; [|discriminate].
    apply s_get_some_in in G as (k1 & Hin & Hk1).
    destruct (inv_rep t HI _ _ _ Hin) as (k' & Hk' & Hkk).
    apply existsb_exists. exists k'. split; [assumption|]. eapply keq_trans; eauto.
  - destruct (existsb (fun x => keq x key) (korder t)) eqn:Ey; [|reflexivity].
    apply existsb_exists in Ey as (x & Hx & Hxk).
    pose proof (inv_res t HI x Hx) as Hr. rewrite getd_bk in Hr.
    destruct (inv_good t HI x Hx) as [Hokx _].
    rewrite (hcode_compat x key Hokx Hok Hxk) in Hr.
    rewrite (s_get_keq _ x key Hxk) in Hr.
    rewrite existsb_s_get in Ex. destruct (s_get (bk t (hcode key)) key); [discriminate|congruence].
Qed.

Lemma getd_hset : forall t k0 v k', ok k0 = true -> good k' ->
  getd (hset t k0 v) k' = if keq (unwrap k0) k' then Some v else getd t k'.
Proof.
  intros t k0 v k' Hok0 [Hok' _]. rewrite hset_eq. cbv zeta.
  pose proof (good_unwrap k0 Hok0) as [Hokk _].
  set (key := unwrap k0) in *. set (h := hcode key).
  assert (Hne : hcode k' <> h -> keq key k' = false).
  { intros Hne. destruct (keq key k') eqn:E; [|reflexivity].
    exfalso. apply Hne. symmetry. now apply hcode_compat. }
  destruct (existsb (fun p => keq (fst p) key) (bk t h)) eqn:Ex;
    rewrite getd_bk, bk_put; destruct (Z.eqb_spec (hcode k') h) as [He|Hn].
  - rewrite s_get_replace, Ex, getd_bk, He. reflexivity.
  - rewrite (Hne Hn), getd_bk. reflexivity.
  - rewrite s_get_append.
    + now rewrite getd_bk, He.
    + rewrite existsb_s_get in Ex. now destruct (s_get (bk t h) key).
  - rewrite (Hne Hn), getd_bk. reflexivity.
Qed.

Lemma getd_hdel : forall t key k', Inv t -> good key -> good k' ->
  getd (hdel t key) k' = if keq key k' then None else getd t k'.
Proof.
  intros t key k' HI [Hok _] [Hok' _]. rewrite hdel_eq. cbv zeta.
  set (h := hcode key).
  destruct (existsb (fun p => keq (fst p) key) (bk t h)) eqn:Ex.
  - rewrite getd_bk, bk_put. destruct (Z.eqb_spec (hcode k') h) as [He|Hn].
    + rewrite s_get_remove by apply (inv_bk t HI h). now rewrite getd_bk, He.
    + destruct (keq key k') eqn:E; [|now rewrite getd_bk].
      exfalso. apply Hn. symmetry. now apply hcode_compat.
  - destruct (keq key k') eqn:E; [|reflexivity].
    rewrite getd_bk, <- (hcode_compat key k' Hok Hok' E).
    rewrite keq_sym in E. rewrite (s_get_keq _ k' key E).
    rewrite existsb_s_get in Ex. fold h. now destruct (s_get (bk t h) key).
Qed.

Lemma in_replace : forall (arr : bucket) key (v : V) k v0,
  In (k, v0) (map (fun p => if keq (fst p) key then (key, v) else p) arr) ->
  In (k, v0) arr \/ (k = key /\ exists k1 v1, In (k1, v1) arr /\ keq k1 key = true).
Proof.
  intros arr key v k v0 H. apply in_map_iff in H as ([k1 v1] & Heq & Hin). simpl in Heq.
  destruct (keq k1 key) eqn:E.
  - inversion Heq; subst. right. split; [reflexivity|eauto].
  - inversion Heq; subst. now left.
Qed.

Lemma map_fst_replace : forall (arr : bucket) key (v : V),
  map fst (map (fun p => if keq (fst p) key then (key, v) else p) arr) =
  map (fun k => if keq k key then key else k) (map fst arr).
Proof.
  intros. rewrite !map_map. apply map_ext. intros [k1 v1]; simpl. now destruct (keq k1 key).
Qed.

Theorem inv_hset : forall t k0 v, Inv t -> ok k0 = true -> Inv (hset t k0 v).
Proof.
  intros t k0 v HI Hok0.
  pose proof (good_unwrap k0 Hok0) as Hgood.
  pose proof (fun k' => getd_hset t k0 v k' Hok0) as Hget.
  pose proof (korder_present t (unwrap k0) HI Hgood) as Hpres.
  revert Hget. rewrite hset_eq. cbv zeta.
  set (key := unwrap k0) in *. set (h := hcode key) in *. set (arr := bk t h) in *.
  destruct (existsb (fun p => keq (fst p) key) arr) eqn:Ex; intros Hget.
  - (* the key is present: its value is replaced in the bucket *)
    constructor; simpl.
    + intros h'. rewrite bk_put. destruct (Z.eqb_spec h' h) as [->|]; [|apply (inv_bk t HI)].
      destruct (inv_bk t HI h) as [Hnd Hall]. split.
      * rewrite map_fst_replace. apply nodupk_map; [|exact Hnd].
        intros x. destruct (keq x key) eqn:E; [now rewrite keq_sym|apply keq_refl].
      * intros k v1 Hin. apply (in_replace arr key v) in Hin as [Hin|[-> _]]; [now apply (Hall k v1)|].
        split; [reflexivity|exact Hgood].
    + apply (inv_nd t HI).
    + apply (inv_good t HI).
    + intros k Hk. rewrite Hget by now apply (inv_good t HI).
      destruct (keq key k); [discriminate|now apply (inv_res t HI)].
    + intros h' k v1. rewrite bk_put. destruct (Z.eqb_spec h' h) as [->|]; [|exact (inv_rep t HI h' k v1)].
      intros Hin. apply (in_replace arr key v) in Hin as [Hin|[-> (k1 & v2 & Hin & Hk1)]].
      * now apply (inv_rep t HI h k v1).
      * destruct (inv_rep t HI h _ _ Hin) as (k' & Hk' & Hkk). exists k'. split; [assumption|].
        eapply keq_trans; eauto.
    + apply (inv_n t HI).
    + rewrite total_put'. fold arr. rewrite map_length. rewrite (inv_total t HI). lia.
  - (* the key is new: appended to the bucket and to KeyOrder, NumKeys + 1 *)
    assert (Hfresh : forall x, In x (korder t) -> keq x key = false) by (now apply existsb_false_all).
    constructor; simpl.
    + intros h'. rewrite bk_put. destruct (Z.eqb_spec h' h) as [->|]; [|apply (inv_bk t HI)].
      destruct (inv_bk t HI h) as [Hnd Hall]. fold arr in Hnd, Hall. split.
      * rewrite map_app. simpl. apply nodupk_app_one; [exact Hnd|].
        intros x Hx. apply in_map_iff in Hx as ([k1 v1] & <- & Hin). simpl.
        destruct (keq k1 key) eqn:E; [|reflexivity].
        assert (existsb (fun p => keq (fst p) key) arr = true) by (apply existsb_exists; exists (k1, v1); auto).
        congruence.
      * intros k v1 Hin. apply in_app_or in Hin as [Hin|[Heq|[]]]; [now apply (Hall k v1)|].
        inversion Heq; subst. split; [reflexivity|exact Hgood].
    + apply nodupk_app_one; [apply (inv_nd t HI)|exact Hfresh].
    + intros k Hk. apply in_app_or in Hk as [Hk|[<-|[]]]; [now apply (inv_good t HI)|exact Hgood].
    + intros k Hk. apply in_app_or in Hk as [Hk|[<-|[]]].
      * rewrite Hget by now apply (inv_good t HI).
        destruct (keq key k); [discriminate|now apply (inv_res t HI)].
      * rewrite Hget by exact Hgood. now rewrite keq_refl.
    + intros h' k v1. rewrite bk_put. destruct (Z.eqb_spec h' h) as [->|].
      * intros Hin. apply in_app_or in Hin as [Hin|[Heq|[]]].
        -- destruct (inv_rep t HI h _ _ Hin) as (k' & Hk' & Hkk). exists k'. split; [apply in_or_app; now left|assumption].
        -- inversion Heq; subst. exists key. split; [apply in_or_app; right; now left|apply keq_refl].
      * intros Hin. destruct (inv_rep t HI h' _ _ Hin) as (k' & Hk' & Hkk).
        exists k'. split; [apply in_or_app; now left|assumption].
    + rewrite app_length, (inv_n t HI). simpl. lia.
    + rewrite total_put'. fold arr. rewrite !app_length, (inv_total t HI). simpl. lia.
Qed.

Lemma present_good : forall t key, Inv t -> ok key = true ->
  existsb (fun p => keq (fst p) key) (bk t (hcode key)) = true -> good key.
Proof.
  intros t key HI Hok Ex. apply existsb_exists in Ex as ([k1 v1] & Hin & Hk). simpl in Hk.
  destruct (inv_bk t HI (hcode key)) as [_ Hall]. destruct (Hall k1 v1 Hin) as [_ [_ Hfix]].
  split; [assumption|]. eapply keq_fixed; eauto.
Qed.

Theorem inv_hdel : forall t key, Inv t -> ok key = true -> Inv (hdel t key).
Proof.
  intros t key HI Hok. pose proof (present_good t key HI Hok) as Hpg.
  pose proof (fun k' Hg => getd_hdel t key k' HI Hg) as Hget.
  revert Hget. rewrite hdel_eq. cbv zeta.
  set (h := hcode key) in *. set (arr := bk t h) in *.
  destruct (existsb (fun p => keq (fst p) key) arr) eqn:Ex; intros Hget; [|exact HI].
  specialize (Hpg eq_refl). specialize (Hget).
  pose proof (korder_present t key HI Hpg) as Hpres. fold h arr in Hpres. rewrite Ex in Hpres.
  destruct (inv_bk t HI h) as [Hnd Hall]. fold arr in Hnd, Hall.
  assert (Hrem : forall k v1, In (k, v1) (remove_first (fun p => keq (fst p) key) arr) -> keq k key = false).
  { intros k v1 Hin. apply (nodupk_removed_false (map fst arr) key k Hnd).
    rewrite <- remove_first_map_fst with (f := fun y => keq y key).
    change k with (fst (k, v1)). now apply in_map. }
  constructor; simpl.
  - intros h'. rewrite bk_put. destruct (Z.eqb_spec h' h) as [->|]; [|apply (inv_bk t HI)]. split.
    + rewrite remove_first_map_fst with (f := fun y => keq y key). now apply nodupk_remove_first.
    + intros k v1 Hin. apply (Hall k v1). eapply remove_first_in; eauto.
  - apply nodupk_remove_first, (inv_nd t HI).
  - intros k Hk. apply (inv_good t HI). eapply remove_first_in; eauto.
  - intros k Hk.
    pose proof (nodupk_removed_false _ key k (inv_nd t HI) Hk) as Hkk.
    apply remove_first_in in Hk.
    rewrite (Hget k Hpg (inv_good t HI k Hk)). rewrite keq_sym, Hkk. now apply (inv_res t HI).
  - intros h' k v1. rewrite bk_put. destruct (Z.eqb_spec h' h) as [->|Hne]; intros Hin.
    + pose proof (Hrem k v1 Hin) as Hkk. apply remove_first_in in Hin.
      destruct (inv_rep t HI h k v1 Hin) as (k' & Hk' & Hk'k). exists k'. split; [|assumption].
      apply remove_first_keep; [assumption|]. now rewrite (keq_congr_l k' k key Hk'k).
    + destruct (inv_rep t HI h' k v1 Hin) as (k' & Hk' & Hk'k). exists k'. split; [|assumption].
      apply remove_first_keep; [assumption|].
      destruct (keq k' key) eqn:E; [|reflexivity]. exfalso. apply Hne.
      destruct (inv_bk t HI h') as [_ Hall']. destruct (Hall' k v1 Hin) as [Hc [Hokk _]].
      destruct (inv_good t HI k' Hk') as [Hok' _]. destruct Hpg as [Hokey _].
      rewrite <- Hc. rewrite <- (hcode_compat k' k Hok' Hokk Hk'k). now apply hcode_compat.
  - rewrite remove_first_length by assumption. rewrite (inv_n t HI). reflexivity.
  - rewrite total_put'. fold arr. rewrite remove_first_length by assumption.
    rewrite remove_first_length by assumption. rewrite (inv_total t HI). lia.
Qed.

(* ------------------------------------------------------------------ *)
(* every history: the invariant holds in every reachable state *)
Notation op := (op K V).
Definition op_ok (o : op) : Prop := ok (op_key K V o) = true.

Theorem inv_step : forall t o, Inv t -> op_ok o -> Inv (step t o).
Proof.
  intros t [k v|k] HI Hok; simpl; [now apply inv_hset|].
  unfold hash_delete. apply inv_hdel; [assumption|now apply unwrap_ok].
Qed.

Lemma inv_fold : forall ops t, Inv t -> Forall op_ok ops -> Inv (fold_left step ops t).
Proof.
  induction ops as [|o r IH]; simpl; intros t HI Hall; [assumption|].
  inversion Hall; subst. apply IH; [now apply inv_step|assumption].
Qed.

Theorem reachable_inv : forall ops, Forall op_ok ops -> Inv (run ops).
Proof. intros. apply inv_fold; [apply inv_empty|assumption]. Qed.

(* ------------------------------------------------------------------ *)
(* refinement of the state-changing operations *)
Lemma get_getd_good : forall t k, unwrap k = k -> get t k = getd t k.
Proof. intros t k H. unfold hash_get, hash_get_default. now rewrite !H. Qed.

Lemma abs_def : forall t, abs t = fm (get t) (korder t).
Proof. reflexivity. Qed.

Lemma abs_fm : forall t, Inv t -> abs t = fm (getd t) (korder t).
Proof.
  intros t HI. rewrite abs_def. apply fm_ext. intros x Hx.
  apply get_getd_good. now destruct (inv_good t HI x Hx).
Qed.

Lemma korder_hset : forall t k0 v,
  korder (hset t k0 v) =
  if existsb (fun p => keq (fst p) (unwrap k0)) (bk t (hcode (unwrap k0))) then korder t else korder t ++ [unwrap k0].
Proof. intros. rewrite hset_eq. cbv zeta. now destruct (existsb _ _). Qed.

Lemma korder_hdel : forall t key,
  korder (hdel t key) =
  if existsb (fun p => keq (fst p) key) (bk t (hcode key)) then remove_first (fun k => keq k key) (korder t) else korder t.
Proof. intros. rewrite hdel_eq. cbv zeta. now destruct (existsb _ _). Qed.

Theorem abs_hset : forall t k0 v, Inv t -> ok k0 = true ->
  abs (hset t k0 v) = s_set (abs t) (unwrap k0) v.
Proof.
  intros t k0 v HI Hok0.
  pose proof (good_unwrap k0 Hok0) as Hgood.
  rewrite (abs_fm _ (inv_hset t k0 v HI Hok0)), (abs_fm t HI), korder_hset.
  rewrite <- (korder_present t (unwrap k0) HI Hgood).
  set (key := unwrap k0) in *.
  destruct (existsb (fun x => keq x key) (korder t)) eqn:Ex.
  - rewrite s_set_fm_present; [|apply (inv_nd t HI)|apply (inv_res t HI)|assumption].
    apply fm_ext. intros x Hx. rewrite getd_hset by (try assumption; now apply (inv_good t HI)).
    fold key. now rewrite keq_sym.
  - rewrite s_set_fm_absent by assumption. rewrite fm_app. f_equal.
    + apply fm_ext. intros x Hx. rewrite getd_hset by (try assumption; now apply (inv_good t HI)).
      fold key. rewrite keq_sym. now rewrite (existsb_false_all _ _ Ex x Hx).
    + simpl. rewrite getd_hset by assumption. fold key. now rewrite keq_refl.
Qed.

Theorem abs_hdel : forall t key, Inv t -> good key -> abs (hdel t key) = s_del (abs t) key.
Proof.
  intros t key HI Hgood. destruct Hgood as [Hok Hfix].
  rewrite (abs_fm _ (inv_hdel t key HI Hok)), (abs_fm t HI), korder_hdel.
  rewrite <- (korder_present t key HI (conj Hok Hfix)).
  rewrite s_del_fm; [|apply (inv_nd t HI)|apply (inv_res t HI)].
  destruct (existsb (fun x => keq x key) (korder t)) eqn:Ex.
  - apply fm_ext. intros x Hx. apply remove_first_in in Hx.
    rewrite getd_hdel; [|assumption|now split|now apply (inv_good t HI)]. now rewrite keq_sym.
  - rewrite remove_first_none by assumption. apply fm_ext. intros x Hx.
    rewrite getd_hdel; [|assumption|now split|now apply (inv_good t HI)].
    now rewrite keq_sym.
Qed.

Theorem step_refines : forall t o, Inv t -> op_ok o -> abs (step t o) = s_step (abs t) o.
Proof.
  intros t [k v|k] HI Hok; simpl in *.
  - now apply abs_hset.
  - unfold hash_delete. apply abs_hdel; [assumption|now apply good_unwrap].
Qed.

Lemma fold_refines : forall ops t s, Inv t -> abs t = s -> Forall op_ok ops ->
  abs (fold_left step ops t) = fold_left s_step ops s.
Proof.
  induction ops as [|o r IH]; simpl; intros t s HI Habs Hok; [assumption|].
  inversion Hok; subst. apply IH; try assumption.
  - now apply inv_step.
  - now apply step_refines.
Qed.

Theorem history_refines : forall ops, Forall op_ok ops -> abs (run ops) = s_run ops.
Proof. intros. apply fold_refines; auto using inv_empty. Qed.

(* deleting a key that is not there changes nothing at all *)
Theorem missing_delete_noop : forall t k, getdflt t k = None -> step t (ODel k) = t.
Proof.
  intros t k H. simpl. unfold hash_delete, hash_get_default in *. rewrite hdel_eq. cbv zeta.
  rewrite existsb_s_get. rewrite getd_bk in H. now rewrite H.
Qed.

(* ------------------------------------------------------------------ *)
(* refinement of the observations *)
Lemma getd_keq : forall t a b, ok a = true -> ok b = true -> keq a b = true -> getd t a = getd t b.
Proof.
  intros t a b Ha Hb H. rewrite !getd_bk. rewrite (hcode_compat a b Ha Hb H). now apply s_get_keq.
Qed.

Theorem getd_refines : forall t k, Inv t -> good k -> getd t k = s_get (abs t) k.
Proof.
  intros t k HI Hg. rewrite (abs_fm t HI). rewrite s_get_fm.
  - rewrite (korder_present t k HI Hg). rewrite existsb_s_get, <- getd_bk. now destruct (getd t k).
  - intros x Hx Hxk. apply getd_keq; try assumption; [now destruct (inv_good t HI x Hx)|now destruct Hg].
Qed.

Theorem getdflt_refines : forall t k, Inv t -> ok k = true -> getdflt t k = s_lookup K V keq unwrap (abs t) k.
Proof. intros t k HI Hok. unfold hash_get_default, s_lookup. apply getd_refines; [assumption|now apply good_unwrap]. Qed.

Theorem get_refines : forall t k, Inv t -> ok k = true -> get t k = s_lookup K V keq unwrap (abs t) k.
Proof.
  intros t k HI Hok. unfold hash_get, hash_get_default, s_lookup. rewrite unwrap_idem by assumption.
  apply getd_refines; [assumption|now apply good_unwrap].
Qed.

Lemma get_res : forall t, Inv t -> forall x, In x (korder t) -> get t x <> None.
Proof.
  intros t HI x Hx. rewrite get_getd_good; [now apply (inv_res t HI)|now destruct (inv_good t HI x Hx)].
Qed.

Lemma fm_length : forall f l, (forall x, In x l -> f x <> None) -> length (fm f l) = length l.
Proof.
  induction l as [|x r IH]; simpl; intros H; [reflexivity|].
  destruct (f x) eqn:E; [|exfalso; now apply (H x (or_introl eq_refl))]. simpl. f_equal. apply IH. auto.
Qed.

Lemma fm_keys : forall f l, (forall x, In x l -> f x <> None) -> map fst (fm f l) = l.
Proof.
  induction l as [|x r IH]; simpl; intros H; [reflexivity|].
  destruct (f x) eqn:E; [|exfalso; now apply (H x (or_introl eq_refl))]. simpl. f_equal. apply IH. auto.
Qed.

Definition at_pos (f : K -> option V) (l : list K) (n : nat) : option (K * V) :=
  match nth_error l n with
  | Some k => match f k with Some v => Some (k, v) | None => None end
  | None => None
  end.

Lemma fm_nth : forall f l n, (forall x, In x l -> f x <> None) -> nth_error (fm f l) n = at_pos f l n.
Proof.
  induction l as [|x r IH]; intros n H; [now destruct n|].
  simpl. destruct (f x) eqn:E; [|exfalso; now apply (H x (or_introl eq_refl))].
  destruct n; unfold at_pos; simpl; [now rewrite E|]. apply IH. intros; apply H; now right.
Qed.

Lemma fr_nth : forall t l n, (forall x, In x l -> get t x <> None) ->
  first_resolving K V keq hcode unwrap t (skipn n l) = at_pos (get t) l n.
Proof.
  intros t. induction l as [|x r IH]; intros n H; [now destruct n|].
  destruct n; unfold at_pos; simpl.
  - destruct (get t x) eqn:E; [reflexivity|exfalso; now apply (H x (or_introl eq_refl))].
  - apply IH. intros; apply H; now right.
Qed.

Lemma at_pos_some : forall f l n, (forall x, In x l -> f x <> None) -> (n < length l)%nat ->
  exists kv, at_pos f l n = Some kv.
Proof.
  intros f l n H Hn. unfold at_pos. destruct (nth_error l n) eqn:E.
  - pose proof (H k (nth_error_In _ _ E)). destruct (f k); [eauto|congruence].
  - apply nth_error_None in E. lia.
Qed.

Theorem len_refines : forall t, Inv t -> len K V t = s_len K V (abs t).
Proof.
  intros t HI. unfold len, count_keys, s_len. fold (total (buckets t)).
  rewrite (inv_total t HI), (inv_n t HI), Z.eqb_refl. rewrite abs_def, fm_length; [reflexivity|now apply get_res].
Qed.

Theorem keys_refines : forall t, Inv t -> keys K V t = s_keys K V (abs t).
Proof. intros t HI. unfold keys, s_keys. rewrite abs_def, fm_keys; [reflexivity|now apply get_res]. Qed.

Lemma abs_length : forall t, Inv t -> length (abs t) = length (korder t).
Proof. intros t HI. rewrite abs_def. apply fm_length. now apply get_res. Qed.

Lemma pairi_in_range : forall t pos, Inv t -> 0 <= pos < Z.of_nat (length (korder t)) ->
  hash_pairi K V keq hcode unwrap t pos = s_pair K V (abs t) pos.
Proof.
  intros t pos HI Hr. unfold hash_pairi, s_pair.
  rewrite (inv_n t HI). destruct (Z.ltb_spec (Z.of_nat (length (korder t))) pos); [lia|].
  destruct (Z.ltb_spec pos 0); [lia|].
  rewrite fr_nth by now apply get_res. rewrite abs_def, fm_nth by now apply get_res.
  destruct (at_pos_some (get t) (korder t) (Z.to_nat pos) (get_res t HI)) as (kv & ->); [lia|reflexivity].
Qed.

Lemma s_pair_beyond : forall t pos, Inv t -> Z.of_nat (length (korder t)) <= pos -> s_pair K V (abs t) pos = Err.
Proof.
  intros t pos HI Hr. unfold s_pair. destruct (Z.ltb_spec pos 0); [reflexivity|].
  assert (nth_error (abs t) (Z.to_nat pos) = None) as -> by (apply nth_error_None; rewrite abs_length by assumption; lia).
  reflexivity.
Qed.

Theorem hpair_refines : forall t pos, Inv t -> hpair K V keq hcode unwrap t pos = s_pair K V (abs t) pos.
Proof.
  intros t pos HI. unfold hpair.
  destruct (Z.ltb_spec pos 0); simpl.
  - unfold s_pair. destruct (Z.ltb_spec pos 0); [reflexivity|lia].
  - destruct (Z.leb_spec (Z.of_nat (length (korder t))) pos).
    + symmetry. now apply s_pair_beyond.
    + apply pairi_in_range; [assumption|lia].
Qed.

Theorem range_pair_refines : forall t pos, Inv t -> range_pair K V keq hcode unwrap t pos = s_pair K V (abs t) pos.
Proof.
  intros t pos HI. unfold range_pair. fold (len K V t). rewrite (len_refines t HI). unfold s_len.
  rewrite abs_length by assumption.
  destruct (Z.ltb_spec pos 0).
  - unfold s_pair. destruct (Z.ltb_spec pos 0); [reflexivity|lia].
  - destruct (Z.leb_spec (Z.of_nat (length (korder t))) pos).
    + symmetry. now apply s_pair_beyond.
    + apply pairi_in_range; [assumption|lia].
Qed.

Theorem range_key_refines : forall t pos, Inv t -> range_key K V keq hcode unwrap t pos = s_range_key K V (abs t) pos.
Proof. intros t pos HI. unfold range_key, s_range_key. now rewrite range_pair_refines. Qed.

Lemma json_entries_all : forall t l, (forall x, In x l -> get t x <> None) ->
  json_entries K V keq hcode unwrap t l = Some (fm (get t) l).
Proof.
  intros t. induction l as [|x r IH]; simpl; intros H; [reflexivity|].
  destruct (get t x) eqn:E; [|exfalso; now apply (H x (or_introl eq_refl))].
  rewrite IH by auto. reflexivity.
Qed.

Theorem json_refines : forall t, Inv t -> json_obs K V keq hcode unwrap t = s_json K V (abs t).
Proof.
  intros t HI. unfold json_obs, s_json. rewrite json_entries_all by now apply get_res.
  rewrite <- abs_def. f_equal. f_equal. rewrite abs_def, fm_keys; [reflexivity|now apply get_res].
Qed.

(* the printed form *)
Theorem str_refines : forall t, str_obs K V keq hcode unwrap t = s_str K V (abs t).
Proof. reflexivity. Qed.

Lemma collect_ok : forall (A : Type) (f : Z -> outcome A) (l : list A) i,
  (forall j a, nth_error l j = Some a -> f (i + Z.of_nat j) = Ok a) -> collect f i (length l) = Ok l.
Proof.
  intros A f. induction l as [|a r IH]; intros i H; simpl; [reflexivity|].
  pose proof (H 0%nat a eq_refl) as H0. simpl in H0. rewrite Z.add_0_r in H0. rewrite H0.
  rewrite IH; [reflexivity|]. intros j b Hj.
  replace (i + 1 + Z.of_nat j) with (i + Z.of_nat (S j)) by lia. now apply H.
Qed.

Lemma s_pair_nth : forall (s : spec) j a, nth_error s j = Some a -> s_pair K V s (Z.of_nat j) = Ok a.
Proof.
  intros s j a H. unfold s_pair. destruct (Z.ltb_spec (Z.of_nat j) 0); [lia|]. now rewrite Nat2Z.id, H.
Qed.

Theorem loop_macro_refines : forall t, Inv t -> loop_macro K V keq hcode unwrap t = s_loop K V (abs t).
Proof.
  intros t HI. unfold loop_macro, s_loop. rewrite (len_refines t HI). unfold s_len. rewrite Nat2Z.id.
  apply collect_ok. intros j a Hj. simpl. rewrite hpair_refines by assumption. now apply s_pair_nth.
Qed.

Theorem loop_infix_refines : forall t, Inv t -> loop_infix K V keq hcode unwrap t = s_loop K V (abs t).
Proof.
  intros t HI. unfold loop_infix, s_loop. rewrite (len_refines t HI). unfold s_len. rewrite Nat2Z.id.
  apply collect_ok. intros j a Hj. simpl. rewrite range_pair_refines by assumption. now apply s_pair_nth.
Qed.

(* ------------------------------------------------------------------ *)
(* corollaries *)
Theorem len_keys_agree : forall t, Inv t ->
  len K V t = Ok (Z.of_nat (length (keys K V t))) /\ length (keys K V t) = length (abs t) /\ nkeys t = Z.of_nat (length (keys K V t)).
Proof.
  intros t HI. rewrite (len_refines t HI). unfold s_len, keys. rewrite abs_length by assumption.
  repeat split. apply (inv_n t HI).
Qed.

Theorem hpair_total : forall t pos, Inv t -> 0 <= pos < Z.of_nat (length (keys K V t)) ->
  exists kv, hpair K V keq hcode unwrap t pos = Ok kv /\ nth_error (abs t) (Z.to_nat pos) = Some kv.
Proof.
  intros t pos HI Hr. rewrite hpair_refines by assumption. unfold s_pair, keys in *.
  destruct (Z.ltb_spec pos 0); [lia|].
  destruct (nth_error (abs t) (Z.to_nat pos)) eqn:E; [eauto|].
  apply nth_error_None in E. rewrite abs_length in E by assumption. lia.
Qed.

Lemma s_pair_no_crash : forall (s : spec) pos, s_pair K V s pos <> Crash.
Proof. intros s pos. unfold s_pair. destruct (pos <? 0); [discriminate|]. now destruct (nth_error s (Z.to_nat pos)). Qed.

Theorem no_internal_panic : forall t, Inv t ->
  len K V t <> Crash /\ json_obs K V keq hcode unwrap t <> Crash /\
  (forall pos, hpair K V keq hcode unwrap t pos <> Crash) /\
  (forall pos, range_pair K V keq hcode unwrap t pos <> Crash) /\
  (forall pos, range_key K V keq hcode unwrap t pos <> Crash).
Proof.
  intros t HI. repeat split.
  - now rewrite len_refines.
  - now rewrite json_refines.
  - intros pos. rewrite hpair_refines by assumption. apply s_pair_no_crash.
  - intros pos. rewrite range_pair_refines by assumption. apply s_pair_no_crash.
  - intros pos. rewrite range_key_refines by assumption. unfold s_range_key.
    pose proof (s_pair_no_crash (abs t) pos). now destruct (s_pair K V (abs t) pos).
Qed.

End Generic.


(* ================================================================== *)
(* The code compares with Compare = 0 ([ceq]) inside a bucket and with "same hash code and
   Compare = 0" ([kidg]) on KeyOrder.  On every state whose buckets hold only keys of their own
   code the two coincide, so the code is the generic table taken at the identity [kidg] --
   for which the hash function respects the identity by construction: NO assumption on [hcode]. *)
Section Bridge.
Variables K V : Type.
Variable ceq : K -> K -> bool.
Variable hcode : K -> Z.
Variable unwrap : K -> K.
Variable ok : K -> bool.

Hypothesis ceq_refl : forall a, ceq a a = true.
Hypothesis ceq_sym : forall a b, ceq a b = ceq b a.
Hypothesis ceq_trans : forall a b c, ceq a b = true -> ceq b c = true -> ceq a c = true.
Hypothesis unwrap_idem : forall a, ok a = true -> unwrap (unwrap a) = unwrap a.
Hypothesis unwrap_ok : forall a, ok a = true -> ok (unwrap a) = true.
Hypothesis ceq_fixed : forall a b, ceq a b = true -> unwrap a = a -> unwrap b = b.

Definition kidg (a b : K) : bool := Z.eqb (hcode a) (hcode b) && ceq a b.

Lemma kid_refl : forall a, kidg a a = true.
Proof. intros. unfold kidg. now rewrite Z.eqb_refl, ceq_refl. Qed.
Lemma kid_sym : forall a b, kidg a b = kidg b a.
Proof. intros. unfold kidg. now rewrite Z.eqb_sym, ceq_sym. Qed.
Lemma kid_trans : forall a b c, kidg a b = true -> kidg b c = true -> kidg a c = true.
Proof.
  unfold kidg. intros a b c H1 H2. apply andb_true_iff in H1 as [H1 H1']. apply andb_true_iff in H2 as [H2 H2'].
  apply Z.eqb_eq in H1, H2. apply andb_true_iff. split; [apply Z.eqb_eq; congruence|eapply ceq_trans; eauto].
Qed.
Lemma kid_compat : forall a b, ok a = true -> ok b = true -> kidg a b = true -> hcode a = hcode b.
Proof. unfold kidg. intros a b _ _ H. apply andb_true_iff in H as [H _]. now apply Z.eqb_eq. Qed.
Lemma kid_fixed : forall a b, kidg a b = true -> unwrap a = a -> unwrap b = b.
Proof. unfold kidg. intros a b H. apply andb_true_iff in H as [_ H]. now apply ceq_fixed. Qed.

Ltac kh := first [exact kid_refl | exact kid_sym | exact kid_trans | exact kid_compat
                 | exact unwrap_idem | exact unwrap_ok | exact kid_fixed].

Notation tbl := (tbl K V).
Notation op := (op K V).
Definition KInv (t : tbl) : Prop := Inv K V kidg hcode unwrap ok t.
Notation rstep := (step K V ceq kidg hcode unwrap).
Notation kstep := (step K V kidg kidg hcode unwrap).
Notation rrun := (run K V ceq kidg hcode unwrap).
Notation krun := (run K V kidg kidg hcode unwrap).
Notation rabs := (abs K V ceq hcode unwrap).
Notation kabs := (abs K V kidg hcode unwrap).
Notation sstep := (s_step K V kidg unwrap).
Notation srun := (s_run K V kidg unwrap).
Notation okop := (op_ok K V ok).

(* buckets hold keys of their own code *)
Definition coded (t : tbl) : Prop := forall h k v, In (k, v) (bk K V t h) -> hcode k = h.

Lemma kinv_coded : forall t, KInv t -> coded t.
Proof. intros t HI h k v Hin. destruct (inv_bk _ _ _ _ _ _ t HI h) as [_ Hall]. now destruct (Hall k v Hin). Qed.

Lemma existsb_ext_in : forall (A : Type) (f g : A -> bool) l, (forall x, In x l -> f x = g x) -> existsb f l = existsb g l.
Proof.
  induction l as [|a r IH]; simpl; intros H; [reflexivity|]. rewrite (H a) by now left. f_equal. apply IH. auto.
Qed.
Lemma remove_first_ext_in : forall (A : Type) (f g : A -> bool) l, (forall x, In x l -> f x = g x) ->
  remove_first f l = remove_first g l.
Proof.
  induction l as [|a r IH]; simpl; intros H; [reflexivity|]. rewrite (H a) by now left.
  destruct (g a); [reflexivity|]. f_equal. apply IH. auto.
Qed.
Lemma b_get_ext_in : forall (r1 r2 : K -> K -> bool) (b : list (K * V)) k,
  (forall k' v, In (k', v) b -> r1 k' k = r2 k' k) -> b_get K V r1 b k = b_get K V r2 b k.
Proof.
  induction b as [|[k' v] r IH]; simpl; intros k H; [reflexivity|].
  rewrite (H k' v) by now left. destruct (r2 k' k); [reflexivity|]. apply IH. intros; eapply H; right; eauto.
Qed.

Lemma in_bucket_same : forall t k b k' v, coded t -> b_find K V (buckets t) (hcode k) = Some b -> In (k', v) b ->
  ceq k' k = kidg k' k.
Proof.
  intros t k b k' v Hc E Hin. unfold kidg.
  assert (hcode k' = hcode k) as -> by (apply (Hc (hcode k) k' v); unfold bk; now rewrite E).
  now rewrite Z.eqb_refl.
Qed.

Lemma lookup_agree : forall t k, coded t -> bucket_lookup K V ceq hcode t k = bucket_lookup K V kidg hcode t k.
Proof.
  intros t k Hc. unfold bucket_lookup. destruct (b_find K V (buckets t) (hcode k)) eqn:E; [|reflexivity].
  apply b_get_ext_in. intros k' v Hin. eapply in_bucket_same; eauto.
Qed.

Lemma getdflt_agree : forall t k, coded t -> hash_get_default K V ceq hcode unwrap t k = hash_get_default K V kidg hcode unwrap t k.
Proof. intros. unfold hash_get_default. now apply lookup_agree. Qed.

Lemma get_agree : forall t k, coded t -> hash_get K V ceq hcode unwrap t k = hash_get K V kidg hcode unwrap t k.
Proof. intros. unfold hash_get. now apply getdflt_agree. Qed.

Lemma set_agree : forall t k v, coded t -> hash_set K V ceq hcode unwrap t k v = hash_set K V kidg hcode unwrap t k v.
Proof.
  intros t k v Hc. unfold hash_set. destruct (b_find K V (buckets t) (hcode (unwrap k))) eqn:E; [|reflexivity].
  assert (Hs : forall p, In p b -> ceq (fst p) (unwrap k) = kidg (fst p) (unwrap k)).
  { intros [k' v'] Hin. simpl. eapply in_bucket_same; eauto. }
  rewrite (existsb_ext_in _ (fun p => ceq (fst p) (unwrap k)) (fun p => kidg (fst p) (unwrap k)) b Hs).
  destruct (existsb _ b); [|reflexivity]. f_equal. f_equal.
  apply map_ext_in. intros p Hp. now rewrite (Hs p Hp).
Qed.

Lemma del_agree : forall t k, coded t -> delete_key K V ceq kidg hcode t k = delete_key K V kidg kidg hcode t k.
Proof.
  intros t k Hc. unfold delete_key. destruct (b_find K V (buckets t) (hcode k)) eqn:E; [|reflexivity].
  assert (Hs : forall p, In p b -> ceq (fst p) k = kidg (fst p) k).
  { intros [k' v'] Hin. simpl. eapply in_bucket_same; eauto. }
  rewrite (existsb_ext_in _ (fun p => ceq (fst p) k) (fun p => kidg (fst p) k) b Hs).
  destruct (existsb _ b); [|reflexivity]. f_equal. f_equal.
  now apply remove_first_ext_in.
Qed.

Lemma step_agree : forall t o, coded t -> rstep t o = kstep t o.
Proof. intros t [k v|k] Hc; simpl; [now apply set_agree|unfold hash_delete; now apply del_agree]. Qed.

Theorem b_inv_init : KInv (empty K V).
Proof. apply inv_empty. Qed.

Theorem b_inv_step : forall t o, KInv t -> okop o -> KInv (rstep t o).
Proof. intros t o HI Hok. rewrite step_agree by now apply kinv_coded. apply inv_step; try kh; assumption. Qed.

Lemma b_inv_fold : forall ops t, KInv t -> Forall okop ops -> KInv (fold_left rstep ops t).
Proof.
  induction ops as [|o r IH]; simpl; intros t HI Hall; [assumption|].
  inversion Hall; subst. apply IH; [now apply b_inv_step|assumption].
Qed.

Theorem b_reachable_inv : forall ops, Forall okop ops -> KInv (rrun ops).
Proof. intros. apply b_inv_fold; [apply b_inv_init|assumption]. Qed.

(* reads *)
Lemma abs_agree : forall t, coded t -> rabs t = kabs t.
Proof.
  intros t Hc. unfold abs, entries. apply flat_map_ext. intros k. now rewrite get_agree.
Qed.

Lemma fr_agree : forall t l, coded t ->
  first_resolving K V ceq hcode unwrap t l = first_resolving K V kidg hcode unwrap t l.
Proof. intros t l Hc. induction l as [|k r IH]; simpl; [reflexivity|]. rewrite get_agree by assumption. now rewrite IH. Qed.

Lemma hpair_agree : forall t pos, coded t -> hpair K V ceq hcode unwrap t pos = hpair K V kidg hcode unwrap t pos.
Proof. intros. unfold hpair, hash_pairi. now rewrite fr_agree. Qed.

Lemma range_pair_agree : forall t pos, coded t -> range_pair K V ceq hcode unwrap t pos = range_pair K V kidg hcode unwrap t pos.
Proof. intros. unfold range_pair, hash_pairi. now rewrite fr_agree. Qed.

Lemma json_entries_agree : forall t l, coded t ->
  json_entries K V ceq hcode unwrap t l = json_entries K V kidg hcode unwrap t l.
Proof. intros t l Hc. induction l as [|k r IH]; simpl; [reflexivity|]. rewrite get_agree by assumption. now rewrite IH. Qed.

Lemma collect_ext : forall (A : Type) (f g : Z -> outcome A), (forall i, f i = g i) -> forall n i, collect f i n = collect g i n.
Proof. intros A f g H. induction n as [|n IH]; simpl; intros i; [reflexivity|]. now rewrite H, IH. Qed.

Theorem b_step_refines : forall t o, KInv t -> okop o -> rabs (rstep t o) = sstep (rabs t) o.
Proof.
  intros t o HI Hok. pose proof (kinv_coded t HI) as Hc.
  rewrite (abs_agree _ (kinv_coded _ (b_inv_step t o HI Hok))), (abs_agree t Hc), step_agree by assumption.
  apply (step_refines K V kidg hcode unwrap ok); try kh; assumption.
Qed.

Lemma b_fold_refines : forall ops t s, KInv t -> rabs t = s -> Forall okop ops -> rabs (fold_left rstep ops t) = fold_left sstep ops s.
Proof.
  induction ops as [|o r IH]; simpl; intros t s HI Habs Hok; [assumption|].
  inversion Hok; subst. apply IH; try assumption; [now apply b_inv_step|now apply b_step_refines].
Qed.

Theorem b_history_refines : forall ops, Forall okop ops -> rabs (rrun ops) = srun ops.
Proof. intros. apply b_fold_refines; auto using b_inv_init. Qed.

Theorem b_get_refines : forall t k, KInv t -> ok k = true -> hash_get K V ceq hcode unwrap t k = s_lookup K V kidg unwrap (rabs t) k.
Proof.
  intros t k HI Hok. pose proof (kinv_coded t HI) as Hc. rewrite get_agree, abs_agree by assumption.
  apply (get_refines K V kidg hcode unwrap ok); try kh; assumption.
Qed.

Theorem b_getdflt_refines : forall t k, KInv t -> ok k = true -> hash_get_default K V ceq hcode unwrap t k = s_lookup K V kidg unwrap (rabs t) k.
Proof.
  intros t k HI Hok. pose proof (kinv_coded t HI) as Hc. rewrite getdflt_agree, abs_agree by assumption.
  apply (getdflt_refines K V kidg hcode unwrap ok); try kh; assumption.
Qed.

Theorem b_len_refines : forall t, KInv t -> len K V t = s_len K V (rabs t).
Proof. intros t HI. rewrite abs_agree by now apply kinv_coded. now apply (len_refines K V kidg hcode unwrap ok). Qed.

Theorem b_keys_refines : forall t, KInv t -> keys K V t = s_keys K V (rabs t).
Proof. intros t HI. rewrite abs_agree by now apply kinv_coded. now apply (keys_refines K V kidg hcode unwrap ok). Qed.

Theorem b_hpair_refines : forall t pos, KInv t -> hpair K V ceq hcode unwrap t pos = s_pair K V (rabs t) pos.
Proof.
  intros t pos HI. pose proof (kinv_coded t HI) as Hc. rewrite hpair_agree, abs_agree by assumption.
  now apply (hpair_refines K V kidg hcode unwrap ok).
Qed.

Theorem b_range_pair_refines : forall t pos, KInv t -> range_pair K V ceq hcode unwrap t pos = s_pair K V (rabs t) pos.
Proof.
  intros t pos HI. pose proof (kinv_coded t HI) as Hc. rewrite range_pair_agree, abs_agree by assumption.
  now apply (range_pair_refines K V kidg hcode unwrap ok).
Qed.

Theorem b_range_key_refines : forall t pos, KInv t -> range_key K V ceq hcode unwrap t pos = s_range_key K V (rabs t) pos.
Proof. intros t pos HI. unfold range_key, s_range_key. now rewrite b_range_pair_refines. Qed.

Theorem b_json_refines : forall t, KInv t -> json_obs K V ceq hcode unwrap t = s_json K V (rabs t).
Proof.
  intros t HI. pose proof (kinv_coded t HI) as Hc. unfold json_obs. rewrite json_entries_agree, abs_agree by assumption.
  now apply (json_refines K V kidg hcode unwrap ok).
Qed.

Theorem b_str_refines : forall t, str_obs K V ceq hcode unwrap t = s_str K V (rabs t).
Proof. reflexivity. Qed.

Lemma loop_macro_agree : forall t, coded t -> loop_macro K V ceq hcode unwrap t = loop_macro K V kidg hcode unwrap t.
Proof.
  intros t Hc. unfold loop_macro. destruct (len K V t); try reflexivity.
  apply collect_ext. intros i. now apply hpair_agree.
Qed.

Lemma loop_infix_agree : forall t, coded t -> loop_infix K V ceq hcode unwrap t = loop_infix K V kidg hcode unwrap t.
Proof.
  intros t Hc. unfold loop_infix. destruct (len K V t); try reflexivity.
  apply collect_ext. intros i. now apply range_pair_agree.
Qed.

Theorem b_loop_macro_refines : forall t, KInv t -> loop_macro K V ceq hcode unwrap t = s_loop K V (rabs t).
Proof.
  intros t HI. pose proof (kinv_coded t HI) as Hc. rewrite loop_macro_agree, abs_agree by assumption.
  now apply (loop_macro_refines K V kidg hcode unwrap ok).
Qed.

Theorem b_loop_infix_refines : forall t, KInv t -> loop_infix K V ceq hcode unwrap t = s_loop K V (rabs t).
Proof.
  intros t HI. pose proof (kinv_coded t HI) as Hc. rewrite loop_infix_agree, abs_agree by assumption.
  now apply (loop_infix_refines K V kidg hcode unwrap ok).
Qed.

Theorem b_len_keys_agree : forall t, KInv t ->
  len K V t = Ok (Z.of_nat (length (keys K V t))) /\ length (keys K V t) = length (rabs t) /\
  nkeys t = Z.of_nat (length (keys K V t)).
Proof. intros t HI. rewrite abs_agree by now apply kinv_coded. now apply (len_keys_agree K V kidg hcode unwrap ok). Qed.

Theorem b_hpair_total : forall t pos, KInv t -> 0 <= pos < Z.of_nat (length (keys K V t)) ->
  exists kv, hpair K V ceq hcode unwrap t pos = Ok kv /\ nth_error (rabs t) (Z.to_nat pos) = Some kv.
Proof.
  intros t pos HI Hr. pose proof (kinv_coded t HI) as Hc. rewrite hpair_agree, abs_agree by assumption.
  now apply (hpair_total K V kidg hcode unwrap ok).
Qed.

Theorem b_no_internal_panic : forall t, KInv t ->
  len K V t <> Crash /\ json_obs K V ceq hcode unwrap t <> Crash /\
  (forall pos, hpair K V ceq hcode unwrap t pos <> Crash) /\
  (forall pos, range_pair K V ceq hcode unwrap t pos <> Crash) /\
  (forall pos, range_key K V ceq hcode unwrap t pos <> Crash).
Proof.
  intros t HI. repeat split.
  - now rewrite b_len_refines.
  - now rewrite b_json_refines.
  - intros pos. rewrite b_hpair_refines by assumption. apply s_pair_no_crash.
  - intros pos. rewrite b_range_pair_refines by assumption. apply s_pair_no_crash.
  - intros pos. rewrite b_range_key_refines by assumption. unfold s_range_key.
    pose proof (s_pair_no_crash K V (rabs t) pos). now destruct (s_pair K V (rabs t) pos).
Qed.

(* deleting a missing key changes nothing; no KInv needed *)
Theorem b_missing_delete_noop : forall t k, hash_get_default K V ceq hcode unwrap t k = None -> rstep t (ODel k) = t.
Proof.
  intros t k H. simpl. unfold hash_delete, delete_key, hash_get_default, bucket_lookup in *.
  destruct (b_find K V (buckets t) (hcode (unwrap k))); [|reflexivity].
  assert (E : existsb (fun p => ceq (fst p) (unwrap k)) b = false); [|now rewrite E].
  revert H. generalize (unwrap k). clear. intros k. induction b as [|[k' v] r IH]; simpl; intros H; [reflexivity|].
  destruct (ceq k' k); [discriminate|now apply IH].
Qed.

(* the master statement *)
Theorem b_hash_is_ordered_map : forall ops, Forall okop ops ->
  let t := rrun ops in let s := srun ops in
  KInv t /\ rabs t = s /\
  len K V t = s_len K V s /\ keys K V t = s_keys K V s /\
  (forall k, ok k = true -> hash_get K V ceq hcode unwrap t k = s_lookup K V kidg unwrap s k) /\
  (forall k, ok k = true -> hash_get_default K V ceq hcode unwrap t k = s_lookup K V kidg unwrap s k) /\
  (forall pos, hpair K V ceq hcode unwrap t pos = s_pair K V s pos) /\
  (forall pos, range_pair K V ceq hcode unwrap t pos = s_pair K V s pos) /\
  (forall pos, range_key K V ceq hcode unwrap t pos = s_range_key K V s pos) /\
  json_obs K V ceq hcode unwrap t = s_json K V s /\
  loop_macro K V ceq hcode unwrap t = s_loop K V s /\ loop_infix K V ceq hcode unwrap t = s_loop K V s /\
  str_obs K V ceq hcode unwrap t = s_str K V s.
Proof.
  intros ops Hok t s.
  pose proof (b_reachable_inv ops Hok) as HI. pose proof (b_history_refines ops Hok) as Habs.
  fold t in HI, Habs. fold s in Habs. rewrite <- Habs.
  refine (conj HI (conj eq_refl _)).
  repeat match goal with |- _ /\ _ => split end; intros;
    auto using b_len_refines, b_keys_refines, b_get_refines, b_getdflt_refines, b_hpair_refines,
    b_range_pair_refines, b_range_key_refines, b_json_refines, b_loop_macro_refines, b_loop_infix_refines, b_str_refines.
Qed.

End Bridge.

(* ================================================================== *)
(* the concrete keys: Compare = 0 is an equivalence *)

Definition acanon (a : atom) : Z * Z * list Z :=
  match a with AInt z | AChar z => (0, z, []) | ASym n => (1, n, []) | AStr s => (2, 0, s) end.
Definition kcanon (k : key) : (Z * Z * list Z) + (bool * list (Z * Z * list Z)) :=
  match k with KAtom a => inl (acanon a) | KArr l => inr (false, map acanon l) | KWrap l => inr (true, map acanon l) end.

Lemma zlist_eqb_eq : forall a b, zlist_eqb a b = true <-> a = b.
Proof.
  induction a as [|x a IH]; destruct b as [|y b]; simpl; split; intros H; try reflexivity; try discriminate.
  - apply andb_true_iff in H as [H1 H2]. apply Z.eqb_eq in H1. apply IH in H2. now subst.
  - inversion H; subst. rewrite Z.eqb_refl. simpl. now apply IH.
Qed.

Lemma aeq_canon : forall a b, aeq a b = true <-> acanon a = acanon b.
Proof.
  intros a b. destruct a, b; simpl; split; intros H; try discriminate;
    try (apply Z.eqb_eq in H; now subst);
    try (inversion H; subst; now apply Z.eqb_refl).
  - apply zlist_eqb_eq in H. now subst.
  - inversion H; subst. now apply zlist_eqb_eq.
Qed.

Lemma alist_eq_canon : forall a b, alist_eq a b = true <-> map acanon a = map acanon b.
Proof.
  induction a as [|x a IH]; destruct b as [|y b]; simpl; split; intros H; try reflexivity; try discriminate.
  - apply andb_true_iff in H as [H1 H2]. apply aeq_canon in H1. apply IH in H2. now rewrite H1, H2.
  - inversion H as [[H1 H2]]. apply aeq_canon in H1. apply IH in H2. now rewrite H1, H2.
Qed.

Lemma ceq_canon : forall a b, ceq a b = true <-> kcanon a = kcanon b.
Proof.
  intros [a|a|a] [b|b|b]; simpl; split; intros H; try discriminate.
  - apply aeq_canon in H. now rewrite H.
  - inversion H. now apply aeq_canon.
  - apply alist_eq_canon in H. now rewrite H.
  - inversion H. now apply alist_eq_canon.
  - apply alist_eq_canon in H. now rewrite H.
  - inversion H. now apply alist_eq_canon.
Qed.

Lemma ceq_refl : forall a, ceq a a = true.
Proof. intros. now apply ceq_canon. Qed.

Lemma ceq_sym : forall a b, ceq a b = ceq b a.
Proof.
  intros a b. destruct (ceq a b) eqn:E1, (ceq b a) eqn:E2; try reflexivity.
  - apply ceq_canon in E1. symmetry in E1. apply ceq_canon in E1. congruence.
  - apply ceq_canon in E2. symmetry in E2. apply ceq_canon in E2. congruence.
Qed.

Lemma ceq_trans : forall a b c, ceq a b = true -> ceq b c = true -> ceq a c = true.
Proof. intros a b c H1 H2. apply ceq_canon in H1, H2. apply ceq_canon. congruence. Qed.

Lemma ahash_canon : forall a b, acanon a = acanon b -> ahash a = ahash b.
Proof. intros a b H. destruct a, b; simpl in *; inversion H; subst; reflexivity. Qed.

(* the hash codes the code computes for atoms respect Compare = 0, whatever the strings are:
   for atoms the key identity "same code and Compare = 0" is just Compare = 0 *)
Theorem atom_hash_compat : forall a b, aeq a b = true -> ahash a = ahash b.
Proof. intros a b H. apply ahash_canon. now apply aeq_canon. Qed.

Theorem kid_atoms : forall ah a b, kid ah (KAtom a) (KAtom b) = aeq a b.
Proof.
  intros ah a b. unfold kid. simpl. destruct (aeq a b) eqn:E; [|apply andb_false_r].
  rewrite (atom_hash_compat a b E), Z.eqb_refl. reflexivity.
Qed.

Lemma unwrap_idem : forall a, key_ok a = true -> unwrap (unwrap a) = unwrap a.
Proof. intros [a|[|a [|b r]]|[|a [|b r]]]; simpl; intros H; try reflexivity; discriminate. Qed.

Lemma unwrap_ok : forall a, key_ok a = true -> key_ok (unwrap a) = true.
Proof. intros [a|[|a [|b r]]|l]; reflexivity. Qed.

Lemma ceq_fixed : forall a b, ceq a b = true -> unwrap a = a -> unwrap b = b.
Proof.
  intros [a|[|a [|a' ra]]|la] [b|[|b [|b' rb]]|lb]; simpl; intros H Hf; try reflexivity; try discriminate.
  rewrite andb_false_r in H. discriminate.
Qed.

(* ------------------------------------------------------------------ *)
(* instance of the bridge: arbitrary hash [ah] of non-atom keys *)
Definition ZInv (ah : key -> Z) (t : ztbl) : Prop := KInv key Z ceq (khash ah) unwrap key_ok t.
Definition zop_ok (o : zop) : Prop := key_ok (op_key key Z o) = true.
Definition zabs (ah : key -> Z) : ztbl -> spec key Z := abs key Z ceq (khash ah) unwrap.
Definition zget ah := hash_get key Z ceq (khash ah) unwrap.          (* (hget h k) *)
Definition zgetd ah := hash_get_default key Z ceq (khash ah) unwrap. (* (hget h k default) *)
Definition zhpair ah := hpair key Z ceq (khash ah) unwrap.           (* (hpair h i) *)
Definition zrange_pair ah := range_pair key Z ceq (khash ah) unwrap. (* (__rangePair h i) *)
Definition zrange_key ah := range_key key Z ceq (khash ah) unwrap.   (* (__rangeKey h i) *)
Definition zjson ah := json_obs key Z ceq (khash ah) unwrap.         (* (json h) *)
Definition zstr ah := str_obs key Z ceq (khash ah) unwrap.           (* (str h) *)
Definition zloop_macro ah := loop_macro key Z ceq (khash ah) unwrap. (* (range k v h ..) *)
Definition zloop_infix ah := loop_infix key Z ceq (khash ah) unwrap. (* for k, v := range h *)
Definition zlen : ztbl -> outcome Z := len key Z.                    (* (len h), (__rangeLen h) *)
Definition zkeys : ztbl -> list key := keys key Z.                   (* (keys h) *)
Definition zs_lookup ah := s_lookup key Z (kid ah) unwrap.

Section Instance.
Variable ah : key -> Z.

Ltac hyps := first [exact ceq_refl | exact ceq_sym | exact ceq_trans
                   | exact unwrap_idem | exact unwrap_ok | exact ceq_fixed].

Theorem z_inv_init : ZInv ah (empty key Z).
Proof. apply b_inv_init. Qed.

Theorem z_inv_step : forall t o, ZInv ah t -> zop_ok o -> ZInv ah (zstep ah t o).
Proof. intros t o. apply (b_inv_step key Z ceq (khash ah) unwrap key_ok); hyps. Qed.

Theorem z_reachable_inv : forall ops, Forall zop_ok ops -> ZInv ah (zrun ah ops).
Proof. intros ops H. apply (b_reachable_inv key Z ceq (khash ah) unwrap key_ok); try hyps. exact H. Qed.

Theorem z_step_refines : forall t o, ZInv ah t -> zop_ok o -> zabs ah (zstep ah t o) = zs_step ah (zabs ah t) o.
Proof. intros t o. apply (b_step_refines key Z ceq (khash ah) unwrap key_ok); hyps. Qed.

Theorem z_history_refines : forall ops, Forall zop_ok ops -> zabs ah (zrun ah ops) = zs_run ah ops.
Proof. intros ops H. apply (b_history_refines key Z ceq (khash ah) unwrap key_ok); try hyps. exact H. Qed.

Theorem z_hash_is_ordered_map : forall ops, Forall zop_ok ops ->
  let t := zrun ah ops in let s := zs_run ah ops in
  ZInv ah t /\ zabs ah t = s /\
  zlen t = s_len key Z s /\ zkeys t = s_keys key Z s /\
  (forall k, key_ok k = true -> zget ah t k = zs_lookup ah s k) /\
  (forall k, key_ok k = true -> zgetd ah t k = zs_lookup ah s k) /\
  (forall pos, zhpair ah t pos = s_pair key Z s pos) /\
  (forall pos, zrange_pair ah t pos = s_pair key Z s pos) /\
  (forall pos, zrange_key ah t pos = s_range_key key Z s pos) /\
  zjson ah t = s_json key Z s /\ zloop_macro ah t = s_loop key Z s /\ zloop_infix ah t = s_loop key Z s /\
  zstr ah t = s_str key Z s.
Proof. intros ops H. apply (b_hash_is_ordered_map key Z ceq (khash ah) unwrap key_ok); try hyps. exact H. Qed.

Theorem z_len_keys_agree : forall t, ZInv ah t ->
  zlen t = Ok (Z.of_nat (length (zkeys t))) /\ length (zkeys t) = length (zabs ah t) /\ nkeys t = Z.of_nat (length (zkeys t)).
Proof. intros t. apply (b_len_keys_agree key Z ceq (khash ah) unwrap key_ok). Qed.

Theorem z_hpair_total : forall t pos, ZInv ah t -> 0 <= pos < Z.of_nat (length (zkeys t)) ->
  exists kv, zhpair ah t pos = Ok kv /\ nth_error (zabs ah t) (Z.to_nat pos) = Some kv.
Proof. intros t pos. apply (b_hpair_total key Z ceq (khash ah) unwrap key_ok). Qed.

Theorem z_no_internal_panic : forall t, ZInv ah t ->
  zlen t <> Crash /\ zjson ah t <> Crash /\ (forall pos, zhpair ah t pos <> Crash) /\
  (forall pos, zrange_pair ah t pos <> Crash) /\ (forall pos, zrange_key ah t pos <> Crash).
Proof. intros t. apply (b_no_internal_panic key Z ceq (khash ah) unwrap key_ok). Qed.

Theorem z_missing_delete_noop : forall t k, zgetd ah t k = None -> zstep ah t (ODel k) = t.
Proof. intros t k. apply (b_missing_delete_noop key Z ceq (khash ah) unwrap). Qed.

Theorem z_str_refines : forall t, zstr ah t = s_str key Z (zabs ah t).
Proof. reflexivity. Qed.

(* the one key shape left out: [[a]] is stored as [a], and every later walk over KeyOrder
   unwraps the stored [a] once more and looks for a *)
Theorem nested_wrap_refuted :
  let ops := [OSet (KWrap [AInt 1]) 4] in let t := zrun ah ops in
  zs_run ah ops = [(KArr [AInt 1], 4)] /\ zkeys t = [KArr [AInt 1]] /\ zlen t = Ok 1 /\
  zstr ah t = ([], false) /\ zhpair ah t 0 = Crash /\ zjson ah t = Crash.
Proof.
  cbv zeta. unfold zrun, zs_run, run, s_run, zkeys, zlen, zstr, zhpair, zjson, keys, len, count_keys, str_obs,
    entries, hpair, hash_pairi, json_obs, hash_get, hash_get_default, bucket_lookup. simpl.
  unfold hash_get, hash_get_default, bucket_lookup. simpl.
  destruct (Z.eqb (ah (KArr [AInt 1])) 1); simpl; repeat split; reflexivity.
Qed.

End Instance.

(* the constructor is a history of insertions, so everything proved about histories holds for
   hashes built by (hash k v ..) / {k:v ..} and then changed further *)
Definition sets_of (pairs : list (key * Z)) : list zop := map (fun kv => OSet (fst kv) (snd kv)) pairs.

Lemma fold_sets : forall (ah : key -> Z) pairs t,
  fold_left (fun t kv => hash_set key Z ceq (khash ah) unwrap t (fst kv) (snd kv)) pairs t =
  fold_left (zstep ah) (sets_of pairs) t.
Proof. intros ah. induction pairs as [|[k v] r IH]; simpl; intros t; [reflexivity|]. apply IH. Qed.

Theorem make_hash_is_history : forall ah pairs ops,
  fold_left (zstep ah) ops (zmake ah pairs) = zrun ah (sets_of pairs ++ ops).
Proof.
  intros ah pairs ops. unfold zmake, make_hash, zrun, run. rewrite fold_left_app. f_equal. apply fold_sets.
Qed.
