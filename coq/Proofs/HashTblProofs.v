(* C14 proofs: the bucket map + KeyOrder + NumKeys of zygo/hashutils.go refine an
   association list in first-insertion order, for an arbitrary hash function, under every
   history of hset/hdel.  Statements are re-exported by Properties/C14.v. *)
From Coq Require Import List ZArith Bool Lia.
From ZV Require Import Model.HashTbl.
Import ListNotations.
Open Scope Z_scope.

Section Generic.
Variables K V : Type.
Variable keq : K -> K -> bool.
Variable hcode : K -> Z.
Variable unwrap : K -> K.
Variable ok : K -> bool.

Hypothesis keq_refl : forall a, keq a a = true.
Hypothesis keq_sym : forall a b, keq a b = keq b a.
Hypothesis keq_trans : forall a b c, keq a b = true -> keq b c = true -> keq a c = true.
Hypothesis hcode_compat : forall a b, ok a = true -> ok b = true -> keq a b = true -> hcode a = hcode b.
Hypothesis unwrap_idem : forall a, unwrap (unwrap a) = unwrap a.
Hypothesis unwrap_ok : forall a, ok a = true -> ok (unwrap a) = true.
Hypothesis keq_fixed : forall a b, keq a b = true -> unwrap a = a -> unwrap b = b.

Notation tbl := (tbl K V).
Notation spec := (spec K V).
Notation bucket := (bucket K V).
Notation s_get := (s_get K V keq).
Notation s_set := (s_set K V keq).
Notation s_del := (s_del K V keq).
Notation getd := (hash_get_default K V keq hcode).
Notation get := (hash_get K V keq hcode unwrap).
Notation hset := (hash_set K V keq hcode unwrap).
Notation hdel := (hash_delete K V keq hcode).
Notation step := (step K V keq hcode unwrap).
Notation s_step := (s_step K V keq unwrap).
Notation abs := (abs K V keq hcode unwrap).
Notation run := (run K V keq hcode unwrap).
Notation s_run := (s_run K V keq unwrap).
Notation empty := (empty K V).

(* a key that may be stored: hash-compatible and not a one-element array *)
Definition good (k : K) : Prop := ok k = true /\ unwrap k = k.

Lemma keq_trans_f : forall a b c, keq a b = true -> keq a c = false -> keq b c = false.
Proof.
  intros a b c Hab Hac. destruct (keq b c) eqn:E; [|reflexivity].
  rewrite (keq_trans a b c Hab E) in Hac. discriminate.
Qed.

Lemma keq_congr_l : forall a b c, keq a b = true -> keq a c = keq b c.
Proof.
  intros a b c Hab. destruct (keq a c) eqn:E.
  - symmetry. apply (keq_trans b a c); [rewrite keq_sym; exact Hab|exact E].
  - symmetry. apply (keq_trans_f a b c Hab E).
Qed.

Lemma keq_congr_r : forall a b c, keq a b = true -> keq c a = keq c b.
Proof. intros a b c Hab. rewrite (keq_sym c a), (keq_sym c b). now apply keq_congr_l. Qed.

(* pairwise distinct under keq *)
Fixpoint nodupk (l : list K) : Prop :=
  match l with [] => True | x :: r => (forall y, In y r -> keq x y = false) /\ nodupk r end.

(* ------------------------------------------------------------------ *)
(* association lists under keq *)

Lemma s_get_some_in : forall (b : bucket) k v, s_get b k = Some v ->
  exists k', In (k', v) b /\ keq k' k = true.
Proof.
  induction b as [|[k' v'] r IH]; simpl; intros k v H; [discriminate|].
  destruct (keq k' k) eqn:E.
  - inversion H; subst. exists k'. split; [now left|exact E].
  - destruct (IH _ _ H) as (k'' & Hin & Hk). exists k''. split; [now right|exact Hk].
Qed.

Lemma s_get_none_all : forall (b : bucket) k, s_get b k = None ->
  forall k' v, In (k', v) b -> keq k' k = false.
Proof.
  induction b as [|[k1 v1] r IH]; simpl; intros k H k' v Hin; [contradiction|].
  destruct (keq k1 k) eqn:E; [discriminate|].
  destruct Hin as [Heq|Hin]; [inversion Heq; subst; exact E|eapply IH; eauto].
Qed.

Lemma s_get_keq : forall (b : bucket) k1 k2, keq k1 k2 = true -> s_get b k1 = s_get b k2.
Proof.
  induction b as [|[k v] r IH]; simpl; intros k1 k2 H; [reflexivity|].
  rewrite (keq_congr_r k1 k2 k H). destruct (keq k k2); [reflexivity|now apply IH].
Qed.

Lemma existsb_s_get : forall (b : bucket) k,
  existsb (fun p => keq (fst p) k) b = match s_get b k with Some _ => true | None => false end.
Proof.
  induction b as [|[k' v'] r IH]; simpl; intros k; [reflexivity|].
  destruct (keq k' k); simpl; [reflexivity|apply IH].
Qed.

(* ------------------------------------------------------------------ *)
(* the Go map *)

Lemma b_find_put_same : forall (bs : list (Z * bucket)) h b, b_find K V (b_put K V bs h b) h = Some b.
Proof.
  induction bs as [|[h' b'] r IH]; simpl; intros h b.
  - now rewrite Z.eqb_refl.
  - destruct (Z.eqb h' h) eqn:E; simpl; [now rewrite Z.eqb_refl|rewrite E; apply IH].
Qed.

Lemma b_find_put_other : forall (bs : list (Z * bucket)) h b h', h' <> h ->
  b_find K V (b_put K V bs h b) h' = b_find K V bs h'.
Proof.
  induction bs as [|[h1 b1] r IH]; simpl; intros h b h' Hne.
  - destruct (Z.eqb_spec h h'); [congruence|reflexivity].
  - destruct (Z.eqb_spec h1 h); simpl.
    + subst. destruct (Z.eqb_spec h h'); [congruence|reflexivity].
    + destruct (Z.eqb_spec h1 h'); [reflexivity|now apply IH].
Qed.

(* sum of the bucket lengths, as HashCountKeys computes it *)
Definition total (bs : list (Z * bucket)) : Z :=
  fold_right (fun hb acc => Z.of_nat (length (snd hb)) + acc) 0 bs.

Definition blen (o : option bucket) : Z := match o with Some b => Z.of_nat (length b) | None => 0 end.

Lemma total_put : forall (bs : list (Z * bucket)) h b,
  total (b_put K V bs h b) = total bs - blen (b_find K V bs h) + Z.of_nat (length b).
Proof.
  induction bs as [|[h1 b1] r IH]; intros h b; simpl.
  - lia.
  - destruct (Z.eqb_spec h1 h); simpl.
    + lia.
    + rewrite IH. lia.
Qed.

Lemma b_find_nonempty : forall (bs : list (Z * bucket)) h b, b_find K V bs h = Some b -> bs <> [].
Proof. intros bs h b H ->. discriminate. Qed.

(* ------------------------------------------------------------------ *)
(* walking an order list with a getter *)
Definition fm (f : K -> option V) (l : list K) : list (K * V) :=
  flat_map (fun k => match f k with Some v => [(k, v)] | None => [] end) l.

Lemma fm_ext : forall f g l, (forall x, In x l -> f x = g x) -> fm f l = fm g l.
Proof.
  induction l as [|a l IH]; simpl; intros H; [reflexivity|].
  rewrite (H a) by now left. f_equal. apply IH. intros; apply H; now right.
Qed.

Lemma fm_app : forall f l1 l2, fm f (l1 ++ l2) = fm f l1 ++ fm f l2.
Proof. intros. unfold fm. apply flat_map_app. Qed.

Lemma s_get_fm : forall f l k, (forall x, In x l -> keq x k = true -> f x = f k) ->
  s_get (fm f l) k = if existsb (fun x => keq x k) l then f k else None.
Proof.
  induction l as [|x r IH]; simpl; intros k H; [reflexivity|].
  assert (Hr : forall y, In y r -> keq y k = true -> f y = f k) by (intros; apply H; [now right|assumption]).
  destruct (keq x k) eqn:E; simpl.
  - rewrite <- (H x (or_introl eq_refl) E).
    destruct (f x) eqn:Fx; simpl.
    + now rewrite E.
    + rewrite (IH k Hr). rewrite <- (H x (or_introl eq_refl) E), Fx. now destruct (existsb _ r).
  - destruct (f x); simpl; [rewrite E|]; now apply IH.
Qed.

Lemma nodupk_tail_false : forall x r k, (forall y, In y r -> keq x y = false) -> keq x k = true ->
  forall y, In y r -> keq y k = false.
Proof.
  intros x r k Hx Hk y Hy. rewrite keq_sym. apply (keq_trans_f x k y Hk). now apply Hx.
Qed.

Lemma s_set_fm_present : forall f l k v, nodupk l -> (forall x, In x l -> f x <> None) ->
  existsb (fun x => keq x k) l = true ->
  s_set (fm f l) k v = fm (fun x => if keq x k then Some v else f x) l.
Proof.
  induction l as [|x r IH]; simpl; intros k v Hnd Hres Hex; [discriminate|].
  destruct Hnd as [Hx Hnd].
  destruct (f x) eqn:Fx; [|exfalso; now apply (Hres x (or_introl eq_refl))].
  simpl. destruct (keq x k) eqn:E; simpl.
  - f_equal. apply fm_ext. intros y Hy. now rewrite (nodupk_tail_false x r k Hx E y Hy).
  - f_equal. apply IH; auto.
Qed.

Lemma s_set_fm_absent : forall f l k v, existsb (fun x => keq x k) l = false ->
  s_set (fm f l) k v = fm f l ++ [(k, v)].
Proof.
  induction l as [|x r IH]; simpl; intros k v Hex; [reflexivity|].
  apply orb_false_iff in Hex as [E Hex].
  destruct (f x); simpl; [rewrite E; f_equal|]; now apply IH.
Qed.

Lemma s_del_fm : forall f l k, nodupk l -> (forall x, In x l -> f x <> None) ->
  s_del (fm f l) k = fm (fun x => if keq x k then None else f x) (remove_first (fun x => keq x k) l).
Proof.
  induction l as [|x r IH]; simpl; intros k Hnd Hres; [reflexivity|].
  destruct Hnd as [Hx Hnd].
  destruct (f x) eqn:Fx; [|exfalso; now apply (Hres x (or_introl eq_refl))].
  simpl. destruct (keq x k) eqn:E; simpl.
  - apply fm_ext. intros y Hy. now rewrite (nodupk_tail_false x r k Hx E y Hy).
  - try rewrite E; try rewrite Fx; simpl; try rewrite E; simpl. f_equal. apply IH; auto.
Qed.

(* ------------------------------------------------------------------ *)
(* remove_first and nodupk *)
Lemma remove_first_in : forall (A : Type) (f : A -> bool) l x, In x (remove_first f l) -> In x l.
Proof.
  induction l as [|a r IH]; simpl; intros x H; [assumption|].
  destruct (f a); [now right|]. destruct H as [->|H]; [now left|right; now apply IH].
Qed.

Lemma remove_first_keep : forall (A : Type) (f : A -> bool) l x, In x l -> f x = false -> In x (remove_first f l).
Proof.
  induction l as [|a r IH]; simpl; intros x H Hf; [assumption|].
  destruct H as [->|H].
  - rewrite Hf. now left.
  - destruct (f a); [assumption|right; now apply IH].
Qed.

Lemma remove_first_none : forall (A : Type) (f : A -> bool) l, existsb f l = false -> remove_first f l = l.
Proof.
  induction l as [|a r IH]; simpl; intros H; [reflexivity|].
  apply orb_false_iff in H as [E H]. rewrite E. f_equal. now apply IH.
Qed.

Lemma remove_first_length : forall (A : Type) (f : A -> bool) l, existsb f l = true ->
  Z.of_nat (length (remove_first f l)) = Z.of_nat (length l) - 1.
Proof.
  induction l as [|a r IH]; cbn [existsb remove_first]; intros H; [discriminate|].
  destruct (f a); cbn [orb] in H; cbn [length]; [lia|]. rewrite Nat2Z.inj_succ, IH by assumption. lia.
Qed.

Lemma remove_first_map_fst : forall (f : K -> bool) (b : bucket),
  map fst (remove_first (fun p => f (fst p)) b) = remove_first f (map fst b).
Proof.
  induction b as [|[k v] r IH]; simpl; [reflexivity|]. destruct (f k); simpl; [reflexivity|now f_equal].
Qed.

Lemma nodupk_remove_first : forall f l, nodupk l -> nodupk (remove_first f l).
Proof.
  induction l as [|a r IH]; simpl; intros H; [exact I|]. destruct H as [Ha Hr].
  destruct (f a); [assumption|]. simpl. split; [|now apply IH].
  intros y Hy. apply Ha. eapply remove_first_in; eauto.
Qed.

Lemma nodupk_removed_false : forall l k x, nodupk l -> In x (remove_first (fun y => keq y k) l) -> keq x k = false.
Proof.
  induction l as [|a r IH]; simpl; intros k x Hnd H; [contradiction|]. destruct Hnd as [Ha Hr].
  destruct (keq a k) eqn:E.
  - eapply nodupk_tail_false; eauto.
  - destruct H as [->|H]; [assumption|now apply IH].
Qed.

Lemma nodupk_app_one : forall l k, nodupk l -> (forall x, In x l -> keq x k = false) -> nodupk (l ++ [k]).
Proof.
  induction l as [|a r IH]; simpl; intros k Hnd H; [split; [intros ? []|exact I]|].
  destruct Hnd as [Ha Hr]. split.
  - intros y Hy. apply in_app_or in Hy as [Hy|[<-|[]]]; [now apply Ha|apply H; now left].
  - apply IH; [assumption|intros; apply H; now right].
Qed.

Lemma nodupk_map : forall (r : K -> K) l, (forall x, keq (r x) x = true) -> nodupk l -> nodupk (map r l).
Proof.
  induction l as [|a l IH]; simpl; intros Hr Hnd; [exact I|]. destruct Hnd as [Ha Hl].
  split; [|now apply IH].
  intros y Hy. apply in_map_iff in Hy as (y0 & <- & Hy0).
  rewrite (keq_congr_l (r a) a (r y0) (Hr a)). rewrite (keq_congr_r (r y0) y0 a (Hr y0)). now apply Ha.
Qed.

Lemma existsb_false_all : forall l k, existsb (fun x => keq x k) l = false -> forall x, In x l -> keq x k = false.
Proof.
  intros l k H x Hx. destruct (keq x k) eqn:E; [|reflexivity].
  assert (existsb (fun x => keq x k) l = true) by (apply existsb_exists; eauto). congruence.
Qed.

(* ------------------------------------------------------------------ *)
(* buckets *)
Definition bk (t : tbl) (h : Z) : bucket := match b_find K V (buckets t) h with Some b => b | None => [] end.

Lemma getd_bk : forall t k, getd t k = s_get (bk t (hcode k)) k.
Proof. intros. unfold hash_get_default, bk. now destruct (b_find K V (buckets t) (hcode k)). Qed.

Definition put (t : tbl) h b ko n : tbl := {| buckets := b_put K V (buckets t) h b; korder := ko; nkeys := n |}.

Lemma bk_put : forall t h b ko n h', bk (put t h b ko n) h' = if Z.eqb h' h then b else bk t h'.
Proof.
  intros. unfold bk, put; simpl. destruct (Z.eqb_spec h' h).
  - subst. now rewrite b_find_put_same.
  - now rewrite b_find_put_other.
Qed.

Lemma total_put' : forall t h b ko n,
  total (buckets (put t h b ko n)) = total (buckets t) - Z.of_nat (length (bk t h)) + Z.of_nat (length b).
Proof.
  intros. unfold put; simpl. rewrite total_put. unfold bk, blen. now destruct (b_find K V (buckets t) h).
Qed.

(* normal forms of HashSet / HashDelete in terms of the bucket of the key's code *)
Lemma hset_eq : forall t k0 v,
  let key := unwrap k0 in let h := hcode key in let arr := bk t h in
  hset t k0 v =
    if existsb (fun p => keq (fst p) key) arr
    then put t h (map (fun p => if keq (fst p) key then (key, v) else p) arr) (korder t) (nkeys t)
    else put t h (arr ++ [(key, v)]) (korder t ++ [key]) (nkeys t + 1).
Proof.
  intros. unfold hash_set, arr, bk, h, key, put.
  destruct (b_find K V (buckets t) (hcode (unwrap k0))); reflexivity.
Qed.

Lemma hdel_eq : forall t key,
  let h := hcode key in let arr := bk t h in
  hdel t key =
    if existsb (fun p => keq (fst p) key) arr
    then put t h (remove_first (fun p => keq (fst p) key) arr) (remove_first (fun k => keq k key) (korder t)) (nkeys t - 1)
    else t.
Proof.
  intros. unfold hash_delete, arr, bk, h, put.
  destruct (b_find K V (buckets t) (hcode key)); reflexivity.
Qed.

(* bucket-level read-after-write facts *)
Lemma s_get_replace : forall (arr : bucket) key v k',
  s_get (map (fun p => if keq (fst p) key then (key, v) else p) arr) k' =
  if keq key k' then (if existsb (fun p => keq (fst p) key) arr then Some v else None) else s_get arr k'.
Proof.
  induction arr as [|[k1 v1] r IH]; intros key v k'; simpl.
  - now destruct (keq key k').
  - destruct (keq k1 key) eqn:E; simpl.
    + rewrite (keq_congr_l k1 key k' E). destruct (keq key k') eqn:E2; [reflexivity|].
      rewrite IH, E2. reflexivity.
    + destruct (keq k1 k') eqn:E1.
      * destruct (keq key k') eqn:E2; [|reflexivity].
        exfalso. rewrite (keq_congr_r key k' k1) in E by assumption. congruence.
      * apply IH.
Qed.

Lemma s_get_append : forall (arr : bucket) key v k', s_get arr key = None ->
  s_get (arr ++ [(key, v)]) k' = if keq key k' then Some v else s_get arr k'.
Proof.
  induction arr as [|[k1 v1] r IH]; intros key v k' H; simpl in *.
  - now destruct (keq key k').
  - destruct (keq k1 key) eqn:E; [discriminate|].
    destruct (keq k1 k') eqn:E1.
    + destruct (keq key k') eqn:E2; [|reflexivity].
      exfalso. rewrite (keq_congr_r key k' k1) in E by assumption. congruence.
    + now apply IH.
Qed.

Lemma s_get_remove : forall (arr : bucket) key k', nodupk (map fst arr) ->
  s_get (remove_first (fun p => keq (fst p) key) arr) k' = if keq key k' then None else s_get arr k'.
Proof.
  induction arr as [|[k1 v1] r IH]; intros key k' Hnd; simpl in *.
  - now destruct (keq key k').
  - destruct Hnd as [H1 Hr]. destruct (keq k1 key) eqn:E; simpl.
    + rewrite (keq_congr_l k1 key k' E). destruct (keq key k') eqn:E2; [|reflexivity].
      destruct (s_get r k') eqn:G; [|reflexivity].
      exfalso. apply s_get_some_in in G as (k2 & Hin & Hk2).
      assert (keq k1 k2 = false) by (apply H1; change k2 with (fst (k2, v)); now apply in_map).
      assert (keq k1 k' = true) by (eapply keq_trans; eauto).
      rewrite (keq_congr_r k2 k' k1 Hk2) in H. congruence.
    + destruct (keq k1 k') eqn:E1.
      * destruct (keq key k') eqn:E2; [|reflexivity].
        exfalso. rewrite (keq_congr_r key k' k1) in E by assumption. congruence.
      * now apply IH.
Qed.

End Generic.
