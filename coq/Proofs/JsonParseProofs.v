(* The text printed by to_json is RFC 8259 JSON and denotes tree_of: proofs about the
   reader of Model/Json.v (pstr, pnum, pval/parr/pobj, json_parse). *)
From Coq Require Import Lia ZArith Zify List Bool.
From ZV.Model Require Import Json.
Import ListNotations.
Open Scope Z_scope.

Ltac Zify.zify_post_hook ::= Z.to_euclidean_division_equations.

(* ================================================================ strings *)

Definition noquote (st : sstate) (c : Z) : bool :=
  (c =? 34) && (match st with SN => true | SH _ => true | _ => false end).

Lemma pstr_step : forall st c r e st' t rest,
  noquote st c = false ->
  sstep st c = Some (e, st') ->
  pstr st' r = Some (t, rest) ->
  pstr st (c :: r) = Some (e ++ t, rest).
Proof.
  intros st c r e st' t rest Hq Hs Hp.
  unfold noquote in Hq.
  cbn [pstr]. rewrite Hq, Hs, Hp. reflexivity.
Qed.

Lemma pstr_close : forall rest, pstr SN (34 :: rest) = Some ([], rest).
Proof. intros; reflexivity. Qed.

Lemma noquote_ne : forall st c, c <> 34 -> noquote st c = false.
Proof.
  intros st c Hc. unfold noquote.
  destruct (Z.eqb_spec c 34) as [E|E]; [contradiction|reflexivity].
Qed.

Lemma noquote_SC : forall k acc lo c, noquote (SC k acc lo) c = false.
Proof. intros. unfold noquote. apply andb_false_r. Qed.

Lemma step_ascii : forall c, 32 <= c < 128 -> c <> 92 ->
  step_normal c = Some ([c], SN).
Proof.
  intros c Hc H92. unfold step_normal.
  destruct (Z.eqb_spec c 92); [contradiction|].
  destruct (Z.ltb_spec c 32); [lia|].
  destruct (Z.ltb_spec c 128); [reflexivity|lia].
Qed.

Lemma step_lead2 : forall b, 194 <= b < 224 ->
  step_normal b = Some ([], SC 1 (b - 192) 128).
Proof.
  intros b Hb. unfold step_normal.
  destruct (Z.eqb_spec b 92); [lia|].
  destruct (Z.ltb_spec b 32); [lia|].
  destruct (Z.ltb_spec b 128); [lia|].
  destruct (Z.ltb_spec b 194); [lia|].
  destruct (Z.ltb_spec b 224); [reflexivity|lia].
Qed.

Lemma step_lead3 : forall b, 224 <= b < 240 ->
  step_normal b = Some ([], SC 2 (b - 224) 2048).
Proof.
  intros b Hb. unfold step_normal.
  destruct (Z.eqb_spec b 92); [lia|].
  destruct (Z.ltb_spec b 32); [lia|].
  destruct (Z.ltb_spec b 128); [lia|].
  destruct (Z.ltb_spec b 194); [lia|].
  destruct (Z.ltb_spec b 224); [lia|].
  destruct (Z.ltb_spec b 240); [reflexivity|lia].
Qed.

Lemma step_lead4 : forall b, 240 <= b < 245 ->
  step_normal b = Some ([], SC 3 (b - 240) 65536).
Proof.
  intros b Hb. unfold step_normal.
  destruct (Z.eqb_spec b 92); [lia|].
  destruct (Z.ltb_spec b 32); [lia|].
  destruct (Z.ltb_spec b 128); [lia|].
  destruct (Z.ltb_spec b 194); [lia|].
  destruct (Z.ltb_spec b 224); [lia|].
  destruct (Z.ltb_spec b 240); [lia|].
  destruct (Z.ltb_spec b 245); [reflexivity|lia].
Qed.

Lemma sc_cont : forall k acc lo b, 128 <= b < 192 ->
  sstep (SC (S (S k)) acc lo) b = Some ([], SC (S k) (acc * 64 + (b - 128)) lo).
Proof.
  intros k acc lo b Hb. cbn [sstep].
  destruct (Z.leb_spec 128 b); [|lia].
  destruct (Z.ltb_spec b 192); [|lia].
  reflexivity.
Qed.

Lemma sc_last : forall acc lo b v, 128 <= b < 192 ->
  v = acc * 64 + (b - 128) ->
  lo <= v <= 1114111 -> ~ (55296 <= v < 57344) ->
  sstep (SC 1 acc lo) b = Some ([v], SN).
Proof.
  intros acc lo b v Hb Hv Hr Hs. cbn [sstep].
  destruct (Z.leb_spec 128 b); [|lia].
  destruct (Z.ltb_spec b 192); [|lia].
  cbn [andb]. rewrite <- Hv.
  destruct (Z.leb_spec lo v); [|lia].
  destruct (Z.leb_spec v 1114111); [|lia].
  cbn [andb].
  destruct (Z.leb_spec 55296 v); destruct (Z.ltb_spec v 57344); cbn [andb negb];
    try reflexivity; lia.
Qed.

(* the raw (unescaped) code points *)
Lemma pstr_utf8 : forall c r t rest,
  32 <= c <= 1114111 -> ~ (55296 <= c < 57344) -> c <> 34 -> c <> 92 ->
  pstr SN r = Some (t, rest) ->
  pstr SN (utf8_enc c ++ r) = Some (c :: t, rest).
Proof.
  intros c r t rest Hc Hs H34 H92 Hp. unfold utf8_enc.
  destruct (Z.ltb_spec c 128) as [L1|L1].
  { cbn [app].
    change (c :: t) with ([c] ++ t).
    apply pstr_step with (st' := SN); auto.
    - apply noquote_ne; assumption.
    - cbn [sstep]. apply step_ascii; lia. }
  destruct (Z.ltb_spec c 2048) as [L2|L2].
  { cbn [app].
    change (c :: t) with ([] ++ [c] ++ t).
    apply pstr_step with (st' := SC 1 (192 + c / 64 - 192) 128).
    - apply noquote_ne. lia.
    - cbn [sstep]. apply step_lead2. lia.
    - apply pstr_step with (st' := SN); auto.
      + apply noquote_SC.
      + apply sc_last; lia. }
  destruct (Z.ltb_spec c 65536) as [L3|L3].
  { cbn [app].
    change (c :: t) with ([] ++ [] ++ [c] ++ t).
    apply pstr_step with (st' := SC 2 (224 + c / 4096 - 224) 2048).
    - apply noquote_ne. lia.
    - cbn [sstep]. apply step_lead3. lia.
    - apply pstr_step with (st' := SC 1 ((224 + c / 4096 - 224) * 64 + (128 + (c / 64) mod 64 - 128)) 2048).
      + apply noquote_SC.
      + apply sc_cont. lia.
      + apply pstr_step with (st' := SN); auto.
        * apply noquote_SC.
        * apply sc_last; lia. }
  { cbn [app].
    change (c :: t) with ([] ++ [] ++ [] ++ [c] ++ t).
    apply pstr_step with (st' := SC 3 (240 + c / 262144 - 240) 65536).
    - apply noquote_ne. lia.
    - cbn [sstep]. apply step_lead4. lia.
    - apply pstr_step with
        (st' := SC 2 ((240 + c / 262144 - 240) * 64 + (128 + (c / 4096) mod 64 - 128)) 65536).
      + apply noquote_SC.
      + apply sc_cont. lia.
      + apply pstr_step with
          (st' := SC 1 (((240 + c / 262144 - 240) * 64 + (128 + (c / 4096) mod 64 - 128)) * 64
                        + (128 + (c / 64) mod 64 - 128)) 65536).
        * apply noquote_SC.
        * apply sc_cont. lia.
        * apply pstr_step with (st' := SN); auto.
          -- apply noquote_SC.
          -- apply sc_last; lia. }
Qed.

Lemma pstr_ctl : forall n : nat, (n < 32)%nat -> forall r t rest,
  pstr SN r = Some (t, rest) ->
  pstr SN (quote_cp (Z.of_nat n) ++ r) = Some (fix_cp (Z.of_nat n) :: t, rest).
Proof.
  intros n.
  do 32 (destruct n as [|n]; [intros _ r t rest Hp; simpl; rewrite Hp; reflexivity|]).
  intros Hn; lia.
Qed.

Lemma pstr_quote_cp : forall c r t rest,
  cp_ok c = true ->
  pstr SN r = Some (t, rest) ->
  pstr SN (quote_cp c ++ r) = Some (fix_cp c :: t, rest).
Proof.
  intros c r t rest Hok Hp.
  destruct (Z.eq_dec c (-1)) as [E|Em1]; [subst c; simpl; rewrite Hp; reflexivity|].
  assert (Hsc : 0 <= c <= 1114111 /\ ~ (55296 <= c < 57344)).
  { unfold cp_ok, cp_scalar in Hok.
    destruct (Z.eqb_spec c (-1)); [contradiction|]. cbn [orb] in Hok.
    destruct (Z.leb_spec 0 c); [|discriminate].
    destruct (Z.leb_spec c 1114111); [|discriminate].
    destruct (Z.leb_spec 55296 c); destruct (Z.ltb_spec c 57344);
      cbn [andb negb] in Hok; try discriminate; lia. }
  destruct Hsc as [Hr Hs].
  destruct (Z_lt_dec c 32) as [L|L].
  { rewrite <- (Z2Nat.id c) by lia. apply pstr_ctl; [lia|assumption]. }
  destruct (Z.eq_dec c 34) as [E|E34]; [subst c; simpl; rewrite Hp; reflexivity|].
  destruct (Z.eq_dec c 92) as [E|E92]; [subst c; simpl; rewrite Hp; reflexivity|].
  destruct (Z.eq_dec c 60) as [E|E60]; [subst c; simpl; rewrite Hp; reflexivity|].
  destruct (Z.eq_dec c 62) as [E|E62]; [subst c; simpl; rewrite Hp; reflexivity|].
  destruct (Z.eq_dec c 38) as [E|E38]; [subst c; simpl; rewrite Hp; reflexivity|].
  destruct (Z.eq_dec c 8232) as [E|E8232]; [subst c; simpl; rewrite Hp; reflexivity|].
  destruct (Z.eq_dec c 8233) as [E|E8233]; [subst c; simpl; rewrite Hp; reflexivity|].
  assert (Hq : quote_cp c = utf8_enc c).
  { unfold quote_cp.
    destruct (Z.eqb_spec c (-1)); [contradiction|].
    destruct (Z.eqb_spec c 34); [contradiction|].
    destruct (Z.eqb_spec c 92); [contradiction|].
    destruct (Z.ltb_spec c 32); [lia|].
    destruct (Z.eqb_spec c 60); [contradiction|].
    destruct (Z.eqb_spec c 62); [contradiction|].
    destruct (Z.eqb_spec c 38); [contradiction|].
    cbn [orb].
    destruct (Z.eqb_spec c 8232); [contradiction|].
    destruct (Z.eqb_spec c 8233); [contradiction|].
    reflexivity. }
  assert (Hf : fix_cp c = c).
  { unfold fix_cp. destruct (Z.eqb_spec c (-1)); [contradiction|reflexivity]. }
  rewrite Hq, Hf. apply pstr_utf8; auto; lia.
Qed.

Lemma quote_body_cons : forall c s, quote_body (c :: s) = quote_cp c ++ quote_body s.
Proof. reflexivity. Qed.

Theorem pstr_quote : forall s rest, str_ok s = true ->
  pstr SN (quote_body s ++ 34 :: rest) = Some (fix_str s, rest).
Proof.
  induction s as [|c s IH]; intros rest Hok.
  - reflexivity.
  - unfold str_ok in Hok. cbn [forallb] in Hok.
    apply andb_true_iff in Hok. destruct Hok as [Hc Hs].
    rewrite quote_body_cons, <- app_assoc.
    cbn [fix_str map]. apply pstr_quote_cp; [assumption|].
    apply IH. exact Hs.
Qed.

(* ================================================================ numbers *)

Fixpoint nrun (st : nstate) (l : list Z) : option nstate :=
  match l with
  | [] => Some st
  | c :: r => match nstep st c with Some st' => nrun st' r | None => None end
  end.

Lemma nscan_split : forall l st a stf rest,
  nscan st l = (a, stf, rest) -> l = a ++ rest /\ nrun st a = Some stf.
Proof.
  induction l as [|c l IH]; intros st a stf rest H.
  - cbn [nscan] in H. inversion H; subst. split; reflexivity.
  - cbn [nscan] in H. destruct (nstep st c) as [st'|] eqn:Es.
    + destruct (nscan st' l) as [[a' stf'] rest'] eqn:En.
      inversion H; subst. apply IH in En. destruct En as [El Er].
      split; [cbn [app]; rewrite El; reflexivity|].
      cbn [nrun]. rewrite Es. exact Er.
    + inversion H; subst. split; reflexivity.
Qed.

Definition nstop (stf : nstate) (rest : list Z) : Prop :=
  rest = [] \/ exists c r, rest = c :: r /\ nstep stf c = None.

Lemma nscan_run : forall l st stf rest,
  nrun st l = Some stf -> nstop stf rest ->
  nscan st (l ++ rest) = (l, stf, rest).
Proof.
  induction l as [|c l IH]; intros st stf rest Hr Hs.
  - cbn [nrun] in Hr. inversion Hr; subst. cbn [app].
    destruct Hs as [E|[c [r [E Hn]]]]; subst rest.
    + reflexivity.
    + cbn [nscan]. rewrite Hn. reflexivity.
  - cbn [nrun] in Hr. destruct (nstep st c) as [st'|] eqn:Es; [|discriminate].
    cbn [app nscan]. rewrite Es. rewrite (IH st' stf rest Hr Hs). reflexivity.
Qed.

Definition follow_ok (rest : list Z) : Prop :=
  rest = [] \/ exists c r, rest = c :: r /\ (c = 44 \/ c = 93 \/ c = 125).

Lemma follow_nstop : forall stf rest, follow_ok rest -> nstop stf rest.
Proof.
  intros stf rest [E|[c [r [E Hc]]]]; [left; exact E|].
  right. exists c, r. split; [exact E|].
  destruct Hc as [Hc|[Hc|Hc]]; subst c; destruct stf; reflexivity.
Qed.

Lemma is_json_number_inv : forall tok, is_json_number tok = true ->
  exists stf, nrun N0 tok = Some stf /\ naccept stf = true.
Proof.
  intros tok H. unfold is_json_number, pnum in H.
  destruct (nscan N0 tok) as [[a stf] rest] eqn:En.
  apply nscan_split in En. destruct En as [El Er].
  destruct (naccept stf) eqn:Ea; [|discriminate].
  destruct rest; [|discriminate].
  rewrite app_nil_r in El. subst a. exists stf. split; assumption.
Qed.

Lemma is_json_number_intro : forall tok stf,
  nrun N0 tok = Some stf -> naccept stf = true -> is_json_number tok = true.
Proof.
  intros tok stf Hr Ha. unfold is_json_number, pnum.
  rewrite <- (app_nil_r tok) at 1.
  rewrite (nscan_run tok N0 stf [] Hr (or_introl eq_refl)). rewrite Ha. reflexivity.
Qed.

Lemma pnum_token : forall tok rest, is_json_number tok = true -> follow_ok rest ->
  pnum (tok ++ rest) = Some (tok, rest).
Proof.
  intros tok rest H Hf. apply is_json_number_inv in H. destruct H as [stf [Hr Ha]].
  unfold pnum. rewrite (nscan_run tok N0 stf rest Hr (follow_nstop stf rest Hf)).
  rewrite Ha. reflexivity.
Qed.

Definition num_first (c : Z) : Prop := c = 45 \/ 48 <= c <= 57.

Lemma is_json_number_first : forall tok, is_json_number tok = true ->
  exists c t, tok = c :: t /\ num_first c.
Proof.
  intros tok H. apply is_json_number_inv in H. destruct H as [stf [Hr Ha]].
  destruct tok as [|c t].
  - cbn [nrun] in Hr. inversion Hr; subst. discriminate.
  - exists c, t. split; [reflexivity|]. cbn [nrun] in Hr. unfold num_first.
    unfold nstep, is_digit in Hr.
    destruct (Z.eqb_spec c 45); [left; assumption|].
    destruct (Z.eqb_spec c 48); [right; lia|].
    destruct (Z.leb_spec 48 c); destruct (Z.leb_spec c 57); cbn [andb] in Hr;
      try discriminate. right; lia.
Qed.

Definition digit (x : Z) : Prop := 48 <= x <= 57.

Lemma is_digit_true : forall x, digit x -> is_digit x = true.
Proof.
  intros x Hx. unfold digit in Hx. unfold is_digit.
  destruct (Z.leb_spec 48 x); [|lia]. destruct (Z.leb_spec x 57); [reflexivity|lia].
Qed.

Lemma nrun_int_digits : forall ds, Forall digit ds -> nrun NInt ds = Some NInt.
Proof.
  induction 1 as [|x ds Hx Hds IH]; [reflexivity|].
  cbn [nrun]. unfold nstep. rewrite (is_digit_true x Hx). exact IH.
Qed.

Lemma nrun_pos_digits : forall st d ds, st = N0 \/ st = NMinus ->
  49 <= d <= 57 -> Forall digit ds -> nrun st (d :: ds) = Some NInt.
Proof.
  intros st d ds Hst Hd Hds. cbn [nrun].
  assert (Hs : nstep st d = Some NInt).
  { unfold nstep. rewrite (is_digit_true d) by (unfold digit; lia).
    destruct (Z.eqb_spec d 45); [lia|]. destruct (Z.eqb_spec d 48); [lia|].
    destruct Hst; subst st; reflexivity. }
  rewrite Hs. apply nrun_int_digits. exact Hds.
Qed.

Lemma dec_pos_shape : forall n z acc, 0 < z -> z < 10 ^ Z.of_nat n ->
  exists d ds, dec_pos n z acc = d :: ds ++ acc /\ 49 <= d <= 57 /\ Forall digit ds.
Proof.
  induction n as [|n IH]; intros z acc Hz Hlt.
  - change (10 ^ Z.of_nat 0) with 1 in Hlt. lia.
  - cbn [dec_pos]. destruct (Z.ltb_spec z 10) as [L|L].
    + exists (48 + z), []. split; [reflexivity|]. split; [lia|constructor].
    + assert (Hp : 10 ^ Z.of_nat (S n) = 10 * 10 ^ Z.of_nat n).
      { rewrite Nat2Z.inj_succ. apply Z.pow_succ_r. lia. }
      rewrite Hp in Hlt.
      assert (H1 : 0 < z / 10) by (apply Z.div_str_pos; lia).
      assert (H2 : z / 10 < 10 ^ Z.of_nat n) by (apply Z.div_lt_upper_bound; lia).
      destruct (IH (z / 10) ((48 + z mod 10) :: acc) H1 H2) as [d [ds [E [Hd Hds]]]].
      exists d, (ds ++ [48 + z mod 10]). split; [|split].
      * rewrite E. rewrite <- app_assoc. reflexivity.
      * exact Hd.
      * apply Forall_app. split; [exact Hds|].
        constructor; [|constructor]. unfold digit.
        assert (0 <= z mod 10 < 10) by (apply Z.mod_pos_bound; lia). lia.
Qed.

Lemma pow10_25 : 10 ^ Z.of_nat 25 = 10000000000000000000000000.
Proof. reflexivity. Qed.

Lemma dec_is_number : forall z, in_i64 z = true -> is_json_number (dec z) = true.
Proof.
  intros z Hz. unfold in_i64 in Hz. apply andb_true_iff in Hz. destruct Hz as [Hlo Hhi].
  apply Z.leb_le in Hlo. apply Z.leb_le in Hhi.
  unfold dec. destruct (Z.ltb_spec z 0) as [L|L].
  - destruct (dec_pos_shape 25 (- z) []) as [d [ds [E [Hd Hds]]]];
      [lia|rewrite pow10_25; lia|].
    rewrite E, app_nil_r.
    apply is_json_number_intro with (stf := NInt); [|reflexivity].
    change (nrun N0 (45 :: d :: ds)) with (nrun NMinus (d :: ds)).
    apply nrun_pos_digits; auto.
  - destruct (Z.eq_dec z 0) as [E0|N0'].
    + subst z. reflexivity.
    + destruct (dec_pos_shape 25 z []) as [d [ds [E [Hd Hds]]]];
        [lia|rewrite pow10_25; lia|].
      rewrite E, app_nil_r.
      apply is_json_number_intro with (stf := NInt); [|reflexivity].
      apply nrun_pos_digits; auto.
Qed.

(* ================================================================ the recursive descent *)

Lemma pval_S : forall n s, pval (S n) s =
    match skip_ws s with
    | [] => None
    | c :: r =>
      if c =? 34 then match pstr SN r with Some (t, rest) => Some (JStr t, rest) | None => None end
      else if c =? 91 then
        match skip_ws r with
        | c1 :: r1 => if c1 =? 93 then Some (JArr [], r1)
                      else match parr n r with Some (l, rest) => Some (JArr l, rest) | None => None end
        | [] => None
        end
      else if c =? 123 then
        match skip_ws r with
        | c1 :: r1 => if c1 =? 125 then Some (JObj [], r1)
                      else match pobj n r with Some (ms, rest) => Some (JObj ms, rest) | None => None end
        | [] => None
        end
      else if c =? 110 then match starts b_null (c :: r) with Some rest => Some (JNull, rest) | None => None end
      else if c =? 116 then match starts b_true (c :: r) with Some rest => Some (JBool true, rest) | None => None end
      else if c =? 102 then match starts b_false (c :: r) with Some rest => Some (JBool false, rest) | None => None end
      else match pnum (c :: r) with Some (tok, rest) => Some (JNum tok, rest) | None => None end
    end.
Proof. reflexivity. Qed.

Lemma parr_S : forall n s, parr (S n) s =
    match pval n s with
    | None => None
    | Some (v, r) =>
      match skip_ws r with
      | c :: r' => if c =? 44 then match parr n r' with Some (vs, rest) => Some (v :: vs, rest) | None => None end
                   else if c =? 93 then Some ([v], r') else None
      | [] => None
      end
    end.
Proof. reflexivity. Qed.

Lemma pobj_S : forall n s, pobj (S n) s =
    match skip_ws s with
    | c :: r =>
      if c =? 34 then
        match pstr SN r with
        | None => None
        | Some (k, r1) =>
          match skip_ws r1 with
          | c2 :: r2 =>
            if c2 =? 58 then
              match pval n r2 with
              | None => None
              | Some (v, r3) =>
                match skip_ws r3 with
                | c3 :: r4 => if c3 =? 44 then match pobj n r4 with Some (ms, rest) => Some ((k, v) :: ms, rest) | None => None end
                              else if c3 =? 125 then Some ([(k, v)], r4) else None
                | [] => None
                end
              end
            else None
          | [] => None
          end
        end
      else None
    | [] => None
    end.
Proof. reflexivity. Qed.

Lemma skip_ws_nows : forall c r, is_ws c = false -> skip_ws (c :: r) = c :: r.
Proof. intros c r H. cbn [skip_ws]. rewrite H. reflexivity. Qed.

Lemma pval_sp : forall n s, pval n (32 :: s) = pval n s.
Proof. intros n s. destruct n; reflexivity. Qed.

(* a printed value starts with a byte that is not white space and closes nothing *)
Definition first_ok (X : list Z) : Prop :=
  exists c t, X = c :: t /\ is_ws c = false /\ c <> 93 /\ c <> 125.

(* X is a text that the reader turns into t, whatever legal text follows *)
Definition reads (X : list Z) (t : jtree) : Prop :=
  forall n rest, follow_ok rest -> (length X <= n)%nat -> pval n (X ++ rest) = Some (t, rest).

Lemma reads_string : forall s, str_ok s = true -> reads (json_quote s) (JStr (fix_str s)).
Proof.
  intros s Hs n rest _ Hn. unfold json_quote in *. cbn [length] in Hn.
  destruct n as [|n]; [lia|].
  cbn [app]. rewrite pval_S. rewrite skip_ws_nows by reflexivity.
  change (34 =? 34) with true. cbv iota.
  rewrite <- app_assoc. cbn [app]. rewrite pstr_quote by assumption. reflexivity.
Qed.

Lemma first_ok_string : forall s, first_ok (json_quote s).
Proof.
  intros s. exists 34, (quote_body s ++ [34]). split; [reflexivity|].
  split; [reflexivity|]. split; discriminate.
Qed.

Lemma num_first_ws : forall c, num_first c -> is_ws c = false.
Proof.
  intros c Hc. unfold num_first in Hc. unfold is_ws.
  destruct (Z.eqb_spec c 32); [lia|]. destruct (Z.eqb_spec c 9); [lia|].
  destruct (Z.eqb_spec c 10); [lia|]. destruct (Z.eqb_spec c 13); [lia|]. reflexivity.
Qed.

Lemma pval_num : forall n c r, num_first c ->
  pval (S n) (c :: r) =
  match pnum (c :: r) with Some (tok, rest) => Some (JNum tok, rest) | None => None end.
Proof.
  intros n c r Hc. rewrite pval_S. rewrite skip_ws_nows by (apply num_first_ws; exact Hc).
  unfold num_first in Hc.
  destruct (Z.eqb_spec c 34); [lia|]. destruct (Z.eqb_spec c 91); [lia|].
  destruct (Z.eqb_spec c 123); [lia|]. destruct (Z.eqb_spec c 110); [lia|].
  destruct (Z.eqb_spec c 116); [lia|]. destruct (Z.eqb_spec c 102); [lia|].
  reflexivity.
Qed.

Lemma reads_number : forall tok, is_json_number tok = true -> reads tok (JNum tok).
Proof.
  intros tok H n rest Hf Hn.
  destruct (is_json_number_first tok H) as [c [t [E Hc]]].
  destruct n as [|n]; [subst tok; cbn [length] in Hn; lia|].
  pose proof (pnum_token tok rest H Hf) as Hp.
  rewrite E in Hp |- *. cbn [app] in Hp |- *.
  rewrite (pval_num n c (t ++ rest) Hc). rewrite Hp. rewrite <- E. reflexivity.
Qed.

Lemma first_ok_number : forall tok, is_json_number tok = true -> first_ok tok.
Proof.
  intros tok H. destruct (is_json_number_first tok H) as [c [t [E Hc]]].
  exists c, t. split; [exact E|]. split; [apply num_first_ws; exact Hc|].
  unfold num_first in Hc. split; lia.
Qed.

Lemma reads_null : reads b_null JNull.
Proof. intros n rest _ Hn. destruct n as [|n]; [cbn in Hn; lia|]. reflexivity. Qed.
Lemma reads_true : reads b_true (JBool true).
Proof. intros n rest _ Hn. destruct n as [|n]; [cbn in Hn; lia|]. reflexivity. Qed.
Lemma reads_false : reads b_false (JBool false).
Proof. intros n rest _ Hn. destruct n as [|n]; [cbn in Hn; lia|]. reflexivity. Qed.

(* ---------------------------------------------------------------- arrays, generically *)

Definition items_tail (r : list (list Z * jtree)) : list Z :=
  flat_map (fun y => comma_sp ++ fst y) r.

Definition arr_text (items : list (list Z * jtree)) : list Z :=
  match items with
  | [] => [91;93]
  | x :: r => 91 :: fst x ++ items_tail r ++ [93]
  end.

Fixpoint items_fuel (items : list (list Z * jtree)) : nat :=
  match items with [] => O | x :: r => S (length (fst x)) + items_fuel r end.

Lemma follow_tail : forall r c rest, c = 93 \/ c = 125 ->
  follow_ok (items_tail r ++ c :: rest).
Proof.
  intros r c rest Hc. right. destruct r as [|y r].
  - exists c, rest. split; [reflexivity|]. tauto.
  - exists 44, (32 :: fst y ++ items_tail r ++ c :: rest). split; [|tauto].
    unfold items_tail. cbn [flat_map]. unfold comma_sp.
    rewrite <- !app_assoc. reflexivity.
Qed.

Lemma parr_items : forall r x m rest,
  Forall (fun y => reads (fst y) (snd y)) (x :: r) ->
  (items_fuel (x :: r) <= m)%nat ->
  parr m (fst x ++ items_tail r ++ 93 :: rest) = Some (map snd (x :: r), rest).
Proof.
  induction r as [|y r IH]; intros x m rest HF Hm.
  - inversion HF as [|? ? Hx _]; subst. cbn [items_fuel] in Hm.
    destruct m as [|m]; [lia|]. rewrite parr_S.
    unfold items_tail. cbn [flat_map app].
    rewrite (Hx m (93 :: rest)); [|right; exists 93, rest; tauto|lia].
    reflexivity.
  - inversion HF as [|? ? Hx HF']; subst. cbn [items_fuel] in Hm.
    destruct m as [|m]; [lia|]. rewrite parr_S.
    rewrite (Hx m (items_tail (y :: r) ++ 93 :: rest));
      [|apply follow_tail; tauto|lia].
    unfold items_tail at 1. cbn [flat_map]. fold (items_tail r).
    unfold comma_sp. rewrite <- !app_assoc. cbn [app].
    rewrite skip_ws_nows by reflexivity. change (44 =? 44) with true. cbv iota.
    destruct m as [|m']; [cbn [items_fuel] in Hm; lia|].
    rewrite parr_S. rewrite pval_sp. rewrite <- parr_S.
    rewrite (IH y (S m') rest HF'); [reflexivity|].
    cbn [items_fuel] in Hm |- *. lia.
Qed.

Lemma items_fuel_text : forall r, (items_fuel r + length r = length (items_tail r))%nat.
Proof.
  induction r as [|y r IH]; [reflexivity|].
  unfold items_tail in *. cbn [flat_map items_fuel length]. rewrite !app_length.
  change (length comma_sp) with 2%nat. lia.
Qed.

Lemma reads_array : forall items,
  (match items with [] => True | x :: _ => first_ok (fst x) end) ->
  Forall (fun y => reads (fst y) (snd y)) items ->
  forall n rest, (length (arr_text items) <= n)%nat ->
  pval n (arr_text items ++ rest) = Some (JArr (map snd items), rest).
Proof.
  intros items Hfirst HF n rest Hn.
  destruct items as [|x r].
  - cbn in Hn. destruct n as [|n]; [lia|]. reflexivity.
  - unfold arr_text in *. cbn [length] in Hn. rewrite !app_length in Hn. cbn [length] in Hn.
    destruct n as [|n]; [lia|].
    destruct Hfirst as [c [t [E [Hws [H93 _]]]]].
    cbn [app]. rewrite pval_S. rewrite skip_ws_nows by reflexivity.
    change (91 =? 34) with false. change (91 =? 91) with true. cbv iota.
    rewrite <- !app_assoc. cbn [app].
    assert (Hp : parr n (fst x ++ items_tail r ++ 93 :: rest) = Some (map snd (x :: r), rest)).
    { apply parr_items; [exact HF|]. cbn [items_fuel].
      pose proof (items_fuel_text r). lia. }
    rewrite Hp. rewrite E. cbn [app]. rewrite skip_ws_nows by exact Hws.
    destruct (Z.eqb_spec c 93); [contradiction|]. reflexivity.
Qed.

(* ---------------------------------------------------------------- objects, generically *)

Definition member := (list Z * list Z * jtree)%type.     (* key, text of the value, its tree *)
Definition mem_key (m : member) : list Z := fst (fst m).
Definition mem_val (m : member) : list Z := snd (fst m).
Definition mem_text (m : member) : list Z := json_quote (mem_key m) ++ 58 :: mem_val m.
Definition mem_tree (m : member) : list Z * jtree := (fix_str (mem_key m), snd m).
Definition mem_ok (m : member) : Prop := str_ok (mem_key m) = true /\ reads (mem_val m) (snd m).

Definition mems_tail (r : list member) : list Z := flat_map (fun m => comma_sp ++ mem_text m) r.
Definition obj_text (m : member) (r : list member) : list Z :=
  123 :: mem_text m ++ mems_tail r ++ [125].

Fixpoint mems_fuel (ms : list member) : nat :=
  match ms with [] => O | m :: r => (length (mem_text m) + mems_fuel r)%nat end.

Lemma mem_text_app : forall m Y,
  mem_text m ++ Y = 34 :: quote_body (mem_key m) ++ 34 :: 58 :: mem_val m ++ Y.
Proof.
  intros m Y. unfold mem_text, json_quote. cbn [app].
  rewrite <- !app_assoc. reflexivity.
Qed.

Lemma mem_text_length : forall m, (length (mem_val m) + 3 <= length (mem_text m))%nat.
Proof.
  intros m. unfold mem_text, json_quote. cbn [length app].
  rewrite !app_length. cbn [length]. lia.
Qed.

Lemma follow_mems_tail : forall r rest, follow_ok (mems_tail r ++ 125 :: rest).
Proof.
  intros r rest. right. destruct r as [|y r].
  - exists 125, rest. split; [reflexivity|]. tauto.
  - exists 44, (32 :: mem_text y ++ mems_tail r ++ 125 :: rest). split; [|tauto].
    unfold mems_tail. cbn [flat_map]. unfold comma_sp.
    rewrite <- !app_assoc. reflexivity.
Qed.

Lemma pobj_sp : forall n s, pobj n (32 :: s) = pobj n s.
Proof. intros n s. destruct n; reflexivity. Qed.

Lemma pobj_members : forall r m f rest,
  Forall mem_ok (m :: r) ->
  (mems_fuel (m :: r) <= f)%nat ->
  pobj f (mem_text m ++ mems_tail r ++ 125 :: rest) = Some (map mem_tree (m :: r), rest).
Proof.
  induction r as [|y r IH]; intros m f rest HF Hf.
  - inversion HF as [|? ? [Hk Hv] _]; subst. cbn [mems_fuel] in Hf.
    pose proof (mem_text_length m) as Hl.
    destruct f as [|f]; [lia|]. rewrite pobj_S.
    unfold mems_tail. cbn [flat_map app]. rewrite mem_text_app.
    rewrite skip_ws_nows by reflexivity. change (34 =? 34) with true. cbv iota.
    rewrite (pstr_quote _ _ Hk).
    rewrite skip_ws_nows by reflexivity. change (58 =? 58) with true. cbv iota.
    rewrite (Hv f (125 :: rest)); [|right; exists 125, rest; tauto|lia].
    reflexivity.
  - inversion HF as [|? ? [Hk Hv] HF']; subst. cbn [mems_fuel] in Hf.
    pose proof (mem_text_length m) as Hl.
    destruct f as [|f]; [lia|]. rewrite pobj_S.
    rewrite mem_text_app.
    rewrite skip_ws_nows by reflexivity. change (34 =? 34) with true. cbv iota.
    rewrite (pstr_quote _ _ Hk).
    rewrite skip_ws_nows by reflexivity. change (58 =? 58) with true. cbv iota.
    rewrite (Hv f (mems_tail (y :: r) ++ 125 :: rest));
      [|apply follow_mems_tail|lia].
    unfold mems_tail at 1. cbn [flat_map]. fold (mems_tail r).
    unfold comma_sp. rewrite <- !app_assoc. cbn [app].
    rewrite skip_ws_nows by reflexivity. change (44 =? 44) with true. cbv iota.
    rewrite pobj_sp.
    rewrite (IH y f rest HF'); [reflexivity|].
    cbn [mems_fuel] in Hf |- *. lia.
Qed.

Lemma mems_fuel_text : forall r, (mems_fuel r <= length (mems_tail r))%nat.
Proof.
  induction r as [|y r IH]; [apply le_n|].
  unfold mems_tail in *. cbn [flat_map mems_fuel]. rewrite !app_length. lia.
Qed.

Lemma reads_object : forall m r, Forall mem_ok (m :: r) ->
  forall n rest, (length (obj_text m r) <= n)%nat ->
  pval n (obj_text m r ++ rest) = Some (JObj (map mem_tree (m :: r)), rest).
Proof.
  intros m r HF n rest Hn. unfold obj_text in *.
  cbn [length] in Hn. rewrite !app_length in Hn. cbn [length] in Hn.
  destruct n as [|n]; [lia|].
  cbn [app]. rewrite pval_S. rewrite skip_ws_nows by reflexivity.
  change (123 =? 34) with false. change (123 =? 91) with false.
  change (123 =? 123) with true. cbv iota.
  rewrite <- !app_assoc. cbn [app].
  assert (Hp : pobj n (mem_text m ++ mems_tail r ++ 125 :: rest)
               = Some (map mem_tree (m :: r), rest)).
  { apply pobj_members; [exact HF|]. cbn [mems_fuel].
    pose proof (mems_fuel_text r). lia. }
  rewrite Hp. rewrite mem_text_app.
  rewrite skip_ws_nows by reflexivity. change (34 =? 125) with false. reflexivity.
Qed.

(* ================================================================ the printer *)

Section ValueInd.
  Variable P : value -> Prop.
  Hypothesis HNil : P VNil.
  Hypothesis HBool : forall b, P (VBool b).
  Hypothesis HInt : forall z, P (VInt z).
  Hypothesis HFloat : forall sci bits, P (VFloat sci bits).
  Hypothesis HStr : forall raw s, P (VStr raw s).
  Hypothesis HArr : forall l, Forall P l -> P (VArr l).
  Hypothesis HHash : forall tn fs, Forall (fun kv => P (snd kv)) fs -> P (VHash tn fs).

  Fixpoint value_ind' (v : value) : P v :=
    match v with
    | VNil => HNil
    | VBool b => HBool b
    | VInt z => HInt z
    | VFloat sci bits => HFloat sci bits
    | VStr raw s => HStr raw s
    | VArr l =>
        HArr l ((fix go (l : list value) : Forall P l :=
                   match l with
                   | [] => Forall_nil P
                   | x :: r => Forall_cons x (value_ind' x) (go r)
                   end) l)
    | VHash tn fs =>
        HHash tn fs ((fix go (fs : list (key * value)) : Forall (fun kv => P (snd kv)) fs :=
                        match fs with
                        | [] => Forall_nil _
                        | kv :: r => Forall_cons kv (value_ind' (snd kv)) (go r)
                        end) fs)
    end.
End ValueInd.

Lemma items_tail_map : forall (A : Type) (H : A -> list Z * jtree) (r : list A),
  items_tail (map H r) = flat_map (fun a => comma_sp ++ fst (H a)) r.
Proof.
  intros A H r. induction r as [|a r IH]; [reflexivity|].
  unfold items_tail in *. cbn [map flat_map]. rewrite IH. reflexivity.
Qed.

Lemma mems_tail_map : forall (A : Type) (G : A -> member) (r : list A),
  mems_tail (map G r) = flat_map (fun a => comma_sp ++ mem_text (G a)) r.
Proof.
  intros A G r. induction r as [|a r IH]; [reflexivity|].
  unfold mems_tail in *. cbn [map flat_map]. rewrite IH. reflexivity.
Qed.

Section Printer.
  Variable fmt : bool -> Z -> list Z.

  Definition val_item (v : value) : list Z * jtree := (to_json fmt v, tree_of fmt v).
  Definition key_item (kv : key * value) : list Z * jtree :=
    (json_quote (key_text (fst kv)), JStr (fix_str (key_text (fst kv)))).
  Definition field_member (kv : key * value) : member :=
    (key_text (fst kv), to_json fmt (snd kv), tree_of fmt (snd kv)).
  Definition atype_member (tn : list Z) : member := (s_Atype, json_quote tn, JStr (fix_str tn)).
  Definition zko_member (fs : list (key * value)) : member :=
    (s_zKeyOrder, arr_text (map key_item fs), JArr (map snd (map key_item fs))).

  Lemma to_json_arr : forall l, to_json fmt (VArr l) = arr_text (map val_item l).
  Proof.
    intros [|x r]; [reflexivity|].
    unfold arr_text. cbn [map]. rewrite items_tail_map. reflexivity.
  Qed.

  Lemma tree_of_arr : forall l, tree_of fmt (VArr l) = JArr (map snd (map val_item l)).
  Proof. intros l. rewrite map_map. reflexivity. Qed.

  Lemma to_json_hash_nil : forall tn, to_json fmt (VHash tn []) = obj_text (atype_member tn) [].
  Proof. intros tn. reflexivity. Qed.

  Lemma fields_shift : forall fs Y,
    comma_sp ++ flat_map (fun kv : key * value => match kv with
        (k, x) => json_quote (key_text k) ++ [58] ++ to_json fmt x ++ comma_sp end) fs ++ Y
    = flat_map (fun kv => comma_sp ++ mem_text (field_member kv)) fs ++ comma_sp ++ Y.
  Proof.
    induction fs as [|[k x] fs IH]; intros Y; [reflexivity|].
    cbn [flat_map].
    change (mem_text (field_member (k, x)))
      with (json_quote (key_text k) ++ [58] ++ to_json fmt x).
    rewrite <- !app_assoc. rewrite (IH Y). reflexivity.
  Qed.

  Lemma arr_text_join : forall x r,
    arr_text (map key_item (x :: r))
    = 91 :: join_comma (map (fun kv : key * value => json_quote (key_text (fst kv))) (x :: r)) ++ [93].
  Proof.
    intros x r. unfold arr_text, join_comma. cbn [map]. rewrite items_tail_map.
    rewrite <- app_assoc. f_equal. f_equal. f_equal.
    induction r as [|a r IH]; [reflexivity|]. cbn [map flat_map]. rewrite IH. reflexivity.
  Qed.

  Lemma to_json_hash_cons : forall tn kv fs,
    to_json fmt (VHash tn (kv :: fs))
    = obj_text (atype_member tn) (map field_member (kv :: fs) ++ [zko_member (kv :: fs)]).
  Proof.
    intros tn kv fs. set (l := kv :: fs).
    transitivity (b_open_atype ++ json_quote tn ++ comma_sp
             ++ flat_map (fun kv : key * value => match kv with
                   (k, x) => json_quote (key_text k) ++ [58] ++ to_json fmt x ++ comma_sp end) l
             ++ b_zko_open
             ++ join_comma (map (fun kv : key * value => json_quote (key_text (fst kv))) l)
             ++ [93;125]); [reflexivity|].
    rewrite fields_shift.
    unfold obj_text, mems_tail. rewrite flat_map_app.
    change (flat_map (fun m => comma_sp ++ mem_text m) (map field_member l))
      with (mems_tail (map field_member l)).
    rewrite mems_tail_map. cbn [flat_map]. rewrite app_nil_r.
    change (mem_text (atype_member tn))
      with ([34;65;116;121;112;101;34;58] ++ json_quote tn).
    change (mem_text (zko_member l))
      with ([34;122;75;101;121;79;114;100;101;114;34;58] ++ arr_text (map key_item l)).
    subst l. rewrite arr_text_join.
    unfold b_open_atype, b_zko_open. rewrite <- !app_assoc. cbn [app].
    rewrite <- !app_assoc. reflexivity.
  Qed.
End Printer.

Lemma tree_of_hash_nil : forall fmt tn,
  tree_of fmt (VHash tn []) = JObj (map mem_tree [atype_member tn]).
Proof. reflexivity. Qed.

Lemma tree_of_hash_cons : forall fmt tn kv fs,
  tree_of fmt (VHash tn (kv :: fs))
  = JObj (map mem_tree (atype_member tn
                        :: map (field_member fmt) (kv :: fs) ++ [zko_member (kv :: fs)])).
Proof.
  intros fmt tn kv fs. set (l := kv :: fs).
  transitivity (JObj ((s_Atype, JStr (fix_str tn)) ::
      map (fun kv : key * value => match kv with
             (k, x) => (fix_str (key_text k), tree_of fmt x) end) l
      ++ [(s_zKeyOrder, JArr (map (fun kv : key * value => JStr (fix_str (key_text (fst kv)))) l))]));
    [reflexivity|].
  cbn [map]. rewrite map_app, !map_map. cbn [map].
  f_equal. f_equal. f_equal.
  - apply map_ext. intros [k x]. reflexivity.
  - unfold mem_tree, zko_member, mem_key. cbn [fst snd]. rewrite map_map. reflexivity.
Qed.

Definition parses (fmt : bool -> Z -> list Z) (v : value) : Prop :=
  wf fmt v = true -> first_ok (to_json fmt v) /\ reads (to_json fmt v) (tree_of fmt v).

Lemma first_ok_lit : forall c t, is_ws c = false -> c <> 93 -> c <> 125 -> first_ok (c :: t).
Proof. intros c t H1 H2 H3. exists c, t. auto. Qed.

Lemma reads_weaken : forall X t,
  (forall n rest, (length X <= n)%nat -> pval n (X ++ rest) = Some (t, rest)) -> reads X t.
Proof. intros X t H n rest _ Hn. apply H. exact Hn. Qed.

Lemma parses_all : forall fmt v, parses fmt v.
Proof.
  intros fmt. induction v as [| b | z | sci bits | raw s | l IH | tn fs IH] using value_ind';
    unfold parses; intros Hwf.
  - split; [apply first_ok_lit; [reflexivity|discriminate|discriminate]|exact reads_null].
  - destruct b.
    + split; [apply first_ok_lit; [reflexivity|discriminate|discriminate]|exact reads_true].
    + split; [apply first_ok_lit; [reflexivity|discriminate|discriminate]|exact reads_false].
  - change (wf fmt (VInt z)) with (in_i64 z) in Hwf.
    change (to_json fmt (VInt z)) with (dec z).
    change (tree_of fmt (VInt z)) with (JNum (dec z)).
    pose proof (dec_is_number z Hwf) as Hn.
    split; [apply first_ok_number; exact Hn|apply reads_number; exact Hn].
  - change (wf fmt (VFloat sci bits))
      with (negb (float_finite bits) || is_json_number (float_token fmt sci bits)) in Hwf.
    change (to_json fmt (VFloat sci bits))
      with (if float_finite bits then float_token fmt sci bits else b_null).
    change (tree_of fmt (VFloat sci bits))
      with (if float_finite bits then JNum (float_token fmt sci bits) else JNull).
    destruct (float_finite bits).
    + cbn [negb orb] in Hwf.
      split; [apply first_ok_number; exact Hwf|apply reads_number; exact Hwf].
    + split; [apply first_ok_lit; [reflexivity|discriminate|discriminate]|exact reads_null].
  - change (wf fmt (VStr raw s)) with (str_ok s) in Hwf.
    change (to_json fmt (VStr raw s)) with (json_quote s).
    change (tree_of fmt (VStr raw s)) with (JStr (fix_str s)).
    split; [apply first_ok_string|apply reads_string; exact Hwf].
  - change (wf fmt (VArr l)) with (forallb (wf fmt) l) in Hwf.
    rewrite forallb_forall in Hwf.
    assert (HP : Forall (fun x => first_ok (to_json fmt x)
                                  /\ reads (to_json fmt x) (tree_of fmt x)) l).
    { rewrite Forall_forall in IH |- *. intros x Hx. apply (IH x Hx). apply Hwf. exact Hx. }
    rewrite to_json_arr, tree_of_arr. split.
    + destruct l as [|x r]; [apply first_ok_lit; [reflexivity|discriminate|discriminate]|].
      cbn [map arr_text]. apply first_ok_lit; [reflexivity|discriminate|discriminate].
    + apply reads_weaken. apply reads_array.
      * destruct l as [|x r]; [exact I|]. cbn [map]. inversion HP as [|? ? [Hf _] _]; subst.
        exact Hf.
      * rewrite Forall_forall in HP |- *. intros y Hy. apply in_map_iff in Hy.
        destruct Hy as [x [E Hx]]. subst y. apply (HP x Hx).
  - change (wf fmt (VHash tn fs))
      with (str_ok tn && forallb (fun kv : key * value => match kv with
              (k, x) => str_ok (key_text k) && wf fmt x end) fs) in Hwf.
    apply andb_true_iff in Hwf. destruct Hwf as [Htn Hfs].
    rewrite forallb_forall in Hfs.
    assert (Hat : mem_ok (atype_member tn)).
    { split; [reflexivity|]. apply reads_string. exact Htn. }
    assert (Hkeys : forall kv, In kv fs -> str_ok (key_text (fst kv)) = true).
    { intros [k x] Hin. apply Hfs in Hin. apply andb_true_iff in Hin. apply Hin. }
    assert (Hfm : Forall mem_ok (map (field_member fmt) fs)).
    { rewrite Forall_forall in IH |- *. intros m Hm. apply in_map_iff in Hm.
      destruct Hm as [[k x] [E Hin]]. subst m.
      pose proof (Hfs _ Hin) as Hw. apply andb_true_iff in Hw. destruct Hw as [Hk Hx].
      split; [exact Hk|]. apply (IH _ Hin). exact Hx. }
    split.
    + destruct fs; apply first_ok_lit; try reflexivity; discriminate.
    + apply reads_weaken. destruct fs as [|kv fs'].
      * rewrite to_json_hash_nil, tree_of_hash_nil. apply reads_object.
        constructor; [exact Hat|constructor].
      * rewrite to_json_hash_cons, tree_of_hash_cons. apply reads_object.
        constructor; [exact Hat|]. apply Forall_app. split; [exact Hfm|].
        constructor; [|constructor]. split; [reflexivity|].
        apply reads_weaken. apply reads_array.
        -- cbn [map]. apply first_ok_string.
        -- rewrite Forall_forall. intros y Hy. apply in_map_iff in Hy.
           destruct Hy as [kv0 [E Hin]]. subst y. apply reads_string.
           apply Hkeys. exact Hin.
Qed.

Theorem json_wellformed_pval : forall fmt v, wf fmt v = true -> forall n rest, follow_ok rest ->
  (length (to_json fmt v) <= n)%nat -> pval n (to_json fmt v ++ rest) = Some (tree_of fmt v, rest).
Proof.
  intros fmt v Hwf n rest Hf Hn.
  destruct (parses_all fmt v Hwf) as [_ Hr]. apply Hr; assumption.
Qed.

Theorem json_wellformed : forall fmt v, wf fmt v = true ->
  json_parse (to_json fmt v) = Some (tree_of fmt v).
Proof.
  intros fmt v Hwf. unfold json_parse.
  pose proof (json_wellformed_pval fmt v Hwf (S (length (to_json fmt v))) []
                (or_introl eq_refl) (Nat.le_succ_diag_r _)) as H.
  rewrite app_nil_r in H. rewrite H. reflexivity.
Qed.
