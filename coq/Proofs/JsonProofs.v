(* C11 proofs, assembly: well-formedness with the denotation, the round trip through the text,
   the msgpack corollary, the refuted unrestricted round trip (reserved field names). *)
From Coq Require Import ZArith List Bool Lia.
Import ListNotations.
From ZV Require Import Model.Json Proofs.JsonTreeProofs Proofs.JsonParseProofs.
Open Scope Z_scope.

Section Assembly.
Variable fmt : bool -> Z -> list Z.
Variable pf : list Z -> Z.

(* ---- the tree of a value denotes it ---- *)

Lemma int_token_dec : forall z, in_i64 z = true -> int_token (dec z) = Some z.
Proof.
  intros z Hz. unfold in_i64 in Hz. apply andb_true_iff in Hz. destruct Hz as [Hlo Hhi].
  apply Z.leb_le in Hlo. apply Z.leb_le in Hhi.
  unfold dec. destruct (Z.ltb_spec z 0) as [Hneg|Hpos].
  - assert (Hr : 0 <= - z < 10 ^ Z.of_nat 25) by (rewrite pow_10_25; lia).
    destruct (dec_pos_digits 25 (- z) [] (proj1 Hr) (proj2 Hr)) as [D1 D2].
    unfold int_token. rewrite Z.eqb_refl. rewrite D1. cbn [forallb].
    rewrite digits_val_dstep, D2. cbn [fold_left]. f_equal. lia.
  - assert (Hr : 0 <= z < 10 ^ Z.of_nat 25) by (rewrite pow_10_25; lia).
    destruct (dec_pos_digits 25 z [] (proj1 Hr) (proj2 Hr)) as [D1 D2]. cbn [forallb] in D1.
    pose proof (head_not_minus _ D1) as Hh.
    unfold int_token. destruct (dec_pos 25 z []) as [|c ds] eqn:E.
    + (* impossible: the digits of z >= 0 evaluate to z, an empty list to 0, so z = 0, but dec_pos 25 0 [] = [48] *)
      cbn [fold_left] in D2. subst z. vm_compute in E. discriminate E.
    + rewrite Hh. rewrite D1. rewrite digits_val_dstep, D2. reflexivity.
Qed.

Theorem tree_of_denotes : forall v, wf fmt v = true -> denotes fmt (tree_of fmt v) v.
Proof.
  induction v as [| b | z | sci b | raw s | l IH | tn fs IH] using value_ind_nested; intro Hw.
  - constructor.
  - constructor.
  - simpl. constructor. apply int_token_dec. exact Hw.
  - simpl. destruct (float_finite b) eqn:E; constructor; exact E.
  - simpl. constructor.
  - simpl. constructor. simpl in Hw. rewrite forallb_forall in Hw. rewrite Forall_forall in IH.
    induction l as [|x l IHl]; simpl; constructor.
    + apply IH; [left; reflexivity|apply Hw; left; reflexivity].
    + apply IHl.
      * intros y Hy Hwy. apply IH; [right; exact Hy|exact Hwy].
      * intros y Hy. apply Hw. right. exact Hy.
  - cbn [wf] in Hw. apply andb_true_iff in Hw. destruct Hw as [_ Hfs].
    destruct fs as [|kv0 fs0].
    + simpl. constructor.
    + set (fs := kv0 :: fs0) in *.
      change (tree_of fmt (VHash tn fs)) with
        (JObj ((s_Atype, JStr (fix_str tn)) ::
               map (fun kv : key * value => match kv with (k, x) => (fix_str (key_text k), tree_of fmt x) end) fs
               ++ [(s_zKeyOrder, JArr (map (fun kv : key * value => JStr (fix_str (key_text (fst kv)))) fs))])).
      apply D_hash; [discriminate|].
      rewrite forallb_forall in Hfs. rewrite Forall_forall in IH.
      clearbody fs. induction fs as [|[k x] r IHr]; simpl; constructor.
      * split; [reflexivity|]. simpl. apply (IH (k, x)); [left; reflexivity|].
        pose proof (Hfs (k, x) (or_introl eq_refl)) as H. simpl in H. apply andb_true_iff in H. tauto.
      * apply IHr.
        -- intros y Hy Hwy. apply IH; [right; exact Hy|exact Hwy].
        -- intros y Hy. apply Hfs. right. exact Hy.
Qed.

Theorem json_wellformed_denotes : forall v, wf fmt v = true ->
  exists t, json_parse (to_json fmt v) = Some t /\ denotes fmt t v.
Proof.
  intros v Hw. exists (tree_of fmt v). split.
  - apply json_wellformed. exact Hw.
  - apply tree_of_denotes. exact Hw.
Qed.

(* ---- data is inside wf ---- *)

Lemma str_valid_ok : forall s, str_valid s = true -> str_ok s = true.
Proof.
  induction s as [|c s IH]; simpl; intro H; [reflexivity|].
  apply andb_true_iff in H. destruct H as [H1 H2]. unfold cp_ok. rewrite H1, (IH H2).
  rewrite orb_true_r. reflexivity.
Qed.

Lemma data_wf : forall v, data fmt v = true -> wf fmt v = true.
Proof.
  induction v as [| b | z | sci b | raw s | l IH | tn fs IH] using value_ind_nested; intro Hd; simpl in *; auto.
  - apply andb_true_iff in Hd. destruct Hd as [_ H]. rewrite H. apply orb_true_r.
  - apply str_valid_ok. exact Hd.
  - apply forallb_forall. intros x Hx. rewrite forallb_forall in Hd. rewrite Forall_forall in IH. auto.
  - apply andb_true_iff in Hd. destruct Hd as [Hd Hfs]. apply andb_true_iff in Hd. destruct Hd as [Htn _].
    rewrite (str_valid_ok _ Htn). simpl. apply forallb_forall. intros [k x] Hin.
    rewrite forallb_forall in Hfs. pose proof (Hfs _ Hin) as H. simpl in H.
    apply andb_true_iff in H. destruct H as [H1 H2]. rewrite (str_valid_ok _ H1). simpl.
    rewrite Forall_forall in IH. apply (IH (k, x) Hin). exact H2.
Qed.

(* ---- round trips ---- *)
Section Oracles.
Hypothesis pf_fmt : forall sci b, float_finite b = true ->
  is_json_number (float_token fmt sci b) = true -> pf (float_token fmt sci b) = b.
Hypothesis fmt_e : forall b, float_finite b = true -> has_dot_e (fmt true b) = true.

Theorem unjson_json : forall v, data fmt v = true -> no_reserved_keys v = true ->
  unjson pf (to_json fmt v) = Ok (norm v).
Proof.
  intros v Hd Hr. unfold unjson. rewrite json_wellformed by (apply data_wf; exact Hd).
  apply (of_tree_tree_of fmt pf pf_fmt fmt_e); assumption.
Qed.

Section MsgpackOracle.
Variable mp_enc : jtree -> list Z.
Variable mp_dec : list Z -> option jtree.
(* the msgpack codec is the identity on Go trees *)
Hypothesis codec_id : forall t, mp_dec (mp_enc t) = Some t.

Theorem msgpack_roundtrip : forall v, data fmt v = true -> no_reserved_keys v = true ->
  exists b, msgpack fmt mp_enc v = Some b /\ unmsgpack pf mp_dec b = Ok (norm v).
Proof.
  intros v Hd Hr. exists (mp_enc (tree_of fmt v)). unfold msgpack, unmsgpack.
  rewrite json_wellformed by (apply data_wf; exact Hd). split; [reflexivity|].
  rewrite codec_id. apply (of_tree_tree_of fmt pf pf_fmt fmt_e); assumption.
Qed.

(* encodings are values: in any history that keeps several encodings alive and decodes them in any
   order, each decodes to its own original (the model is functional; that the implementation's
   encodings do not share storage is what the interleaved-history stream of the harness observes) *)
Theorem history_msgpack_roundtrip : forall vs,
  Forall (fun v => data fmt v = true /\ no_reserved_keys v = true) vs ->
  map (fun v => match msgpack fmt mp_enc v with Some b => unmsgpack pf mp_dec b | None => Crash end) vs
  = map (fun v => Ok (norm v)) vs.
Proof.
  intros vs H. apply map_ext_in. intros v Hv. rewrite Forall_forall in H. destruct (H v Hv) as [Hd Hr].
  destruct (msgpack_roundtrip v Hd Hr) as [b [E1 E2]]. rewrite E1. exact E2.
Qed.
End MsgpackOracle.

Theorem history_json_roundtrip : forall vs,
  Forall (fun v => data fmt v = true /\ no_reserved_keys v = true) vs ->
  map (fun v => unjson pf (to_json fmt v)) vs = map (fun v => Ok (norm v)) vs.
Proof.
  intros vs H. apply map_ext_in. intros v Hv. rewrite Forall_forall in H. destruct (H v Hv) as [Hd Hr].
  apply unjson_json; assumption.
Qed.
End Oracles.

(* ---- what norm changes: key kinds and the printing flag only ---- *)

Fixpoint unsci (v : value) : value :=
  match v with
  | VFloat _ bits => VFloat false bits
  | VStr _ s => VStr false s
  | VArr l => VArr (map unsci l)
  | VHash tn fs => VHash tn (map (fun kv => match kv with (k, x) => (k, unsci x) end) fs)
  | _ => v
  end.

Theorem norm_sym_keys : forall v, sym_keys v = true -> norm v = unsci v.
Proof.
  induction v as [| b | z | sci b | raw s | l IH | tn fs IH] using value_ind_nested; intro Hs; simpl in *; auto.
  - f_equal. apply map_ext_in. intros x Hx. rewrite forallb_forall in Hs. rewrite Forall_forall in IH. auto.
  - f_equal. apply map_ext_in. intros [k x] Hin. rewrite forallb_forall in Hs. rewrite Forall_forall in IH.
    pose proof (Hs _ Hin) as H. simpl in H. destruct k as [t|t]; [|discriminate].
    simpl. f_equal. apply (IH (KSym t, x) Hin). exact H.
Qed.

(* ---- the side condition is needed: a field literally named Atype ---- *)

Definition witness_reserved : value :=
  VHash s_hash [(KSym s_Atype, VStr false [101;118;105;108]); (KSym [97], VInt 2)].

Theorem unjson_json_reserved_refuted :
  exists v, data fmt v = true /\ sym_keys v = true /\ no_reserved_keys v = false /\
            unjson pf (to_json fmt v) <> Ok (norm v).
Proof.
  exists witness_reserved. repeat split; try reflexivity.
  vm_compute. discriminate.
Qed.

End Assembly.

(* ---- values that change in place (hset / hdel / aset at any depth) ---- *)

Definition ktexts (fs : list (key * value)) : list (list Z) := map (fun kv => key_text (fst kv)) fs.
Definition all_sym (fs : list (key * value)) : Prop :=
  forall kv, In kv fs -> exists t, fst kv = KSym t.

Lemma fields_set_texts : forall fs t x, all_sym fs ->
  ktexts (fields_set fs (KSym t) x) = if existsb (str_eqb t) (ktexts fs) then ktexts fs else ktexts fs ++ [t].
Proof.
  induction fs as [|[k y] fs IH]; intros t x Hs; simpl.
  - reflexivity.
  - destruct (Hs (k, y) (or_introl eq_refl)) as [s Hk]. simpl in Hk. subst k. simpl.
    destruct (str_eqb t s) eqn:E; simpl.
    + reflexivity.
    + fold (ktexts (fields_set fs (KSym t) x)). fold (ktexts fs).
      rewrite IH by (intros kv Hin; apply Hs; right; exact Hin).
      destruct (existsb (str_eqb t) (ktexts fs)); reflexivity.
Qed.

(* hset keeps the field names distinct: an existing name keeps its place, a new one goes last *)
Theorem hset_keeps_names_distinct : forall fs t x, all_sym fs ->
  NoDup (ktexts fs) -> NoDup (ktexts (fields_set fs (KSym t) x)).
Proof.
  intros fs t x Hs Hnd. rewrite fields_set_texts by exact Hs.
  destruct (existsb (str_eqb t) (ktexts fs)) eqn:E; [exact Hnd|].
  apply NoDup_snoc; [exact Hnd|]. intro Hin.
  assert (existsb (str_eqb t) (ktexts fs) = true).
  { apply existsb_exists. exists t. split; [exact Hin|apply str_eqb_refl]. }
  congruence.
Qed.

Lemma fields_del_incl : forall fs k t, In t (ktexts (fields_del fs k)) -> In t (ktexts fs).
Proof.
  induction fs as [|[k' y] fs IH]; intros k t H; simpl in *; [exact H|].
  destruct (key_eqb k k'); simpl in *; [right; exact H|].
  destruct H as [H|H]; [left; exact H|right; apply (IH k); exact H].
Qed.

Theorem hdel_keeps_names_distinct : forall fs k, NoDup (ktexts fs) -> NoDup (ktexts (fields_del fs k)).
Proof.
  induction fs as [|[k' y] fs IH]; intros k Hnd; simpl; [constructor|].
  inversion Hnd as [|? ? Hn Hnd']; subst.
  destruct (key_eqb k k'); [exact Hnd'|]. simpl. constructor.
  - intro Hin. apply Hn. apply (fields_del_incl fs k). exact Hin.
  - apply IH. exact Hnd'.
Qed.

(* the encoding of an object after ANY history of in-place changes is the encoding of the value
   those changes produce: it reads back as that value (the encoder has no memory) *)
Section MutationOracles.
Variable fmt : bool -> Z -> list Z.
Variable pf : list Z -> Z.
Hypothesis pf_fmt : forall sci b, float_finite b = true ->
  is_json_number (float_token fmt sci b) = true -> pf (float_token fmt sci b) = b.
Hypothesis fmt_e : forall b, float_finite b = true -> has_dot_e (fmt true b) = true.

Theorem mutation_roundtrip : forall ops v0 v, run_ops ops v0 = Some v ->
  wf fmt v = true ->
  json_parse (to_json fmt v) = Some (tree_of fmt v) /\
  (data fmt v = true -> no_reserved_keys v = true -> unjson pf (to_json fmt v) = Ok (norm v)).
Proof.
  intros ops v0 v _ Hw. split.
  - apply json_wellformed. exact Hw.
  - intros Hd Hr. apply (unjson_json fmt pf pf_fmt fmt_e); assumption.
Qed.
End MutationOracles.
