(* C11 proofs, decoder side: decoding the tree a value denotes gives the value back
   (sorted Go-map walk, Atype, zKeyOrder restoring the field order). *)
From Coq Require Import ZArith List Bool Lia.
Import ListNotations.
From ZV Require Import Model.Json.
Open Scope Z_scope.

(* ------------------------------------------------------------ induction principle for the nested type *)
Section ValueInd.
Variable P : value -> Prop.
Hypothesis HNil : P VNil.
Hypothesis HBool : forall b, P (VBool b).
Hypothesis HInt : forall z, P (VInt z).
Hypothesis HFloat : forall sci b, P (VFloat sci b).
Hypothesis HStr : forall raw s, P (VStr raw s).
Hypothesis HArr : forall l, Forall P l -> P (VArr l).
Hypothesis HHash : forall tn fs, Forall (fun kv => P (snd kv)) fs -> P (VHash tn fs).

Fixpoint value_ind_nested (v : value) : P v :=
  match v with
  | VNil => HNil
  | VBool b => HBool b
  | VInt z => HInt z
  | VFloat sci b => HFloat sci b
  | VStr raw s => HStr raw s
  | VArr l => HArr l ((fix go (l : list value) : Forall P l :=
                         match l with
                         | [] => Forall_nil _
                         | x :: r => Forall_cons _ (value_ind_nested x) (go r)
                         end) l)
  | VHash tn fs => HHash tn fs ((fix go (l : list (key * value)) : Forall (fun kv => P (snd kv)) l :=
                                  match l with
                                  | [] => Forall_nil _
                                  | kv :: r => Forall_cons _ (value_ind_nested (snd kv)) (go r)
                                  end) fs)
  end.
End ValueInd.

(* ------------------------------------------------------------ strings *)

Lemma str_eqb_eq : forall a b, str_eqb a b = true <-> a = b.
Proof.
  induction a as [|x a IH]; destruct b as [|y b]; simpl; split; intro H; try congruence; try reflexivity.
  - apply andb_true_iff in H. destruct H as [H1 H2]. apply Z.eqb_eq in H1. apply IH in H2. congruence.
  - inversion H; subst. rewrite Z.eqb_refl. simpl. apply IH. reflexivity.
Qed.

Lemma str_eqb_refl : forall a, str_eqb a a = true.
Proof. intro a. apply str_eqb_eq. reflexivity. Qed.

Lemma str_eqb_neq : forall a b, a <> b -> str_eqb a b = false.
Proof. intros a b H. destruct (str_eqb a b) eqn:E; auto. apply str_eqb_eq in E. contradiction. Qed.

Lemma fix_str_valid : forall s, str_valid s = true -> fix_str s = s.
Proof.
  induction s as [|c s IH]; simpl; intro H; auto.
  apply andb_true_iff in H. destruct H as [H1 H2]. rewrite (IH H2).
  unfold fix_cp. unfold cp_scalar in H1.
  destruct (Z.eqb_spec c (-1)) as [E|E]; [|reflexivity].
  subst. discriminate.
Qed.

(* ------------------------------------------------------------ the Go map *)

Section GoMap.
Context {T : Type}.

Lemma lookup_map_put : forall k k' (x : T) m,
  lookup k (map_put k' x m) = if str_eqb k k' then Some x else lookup k m.
Proof.
  intros k k' x m. induction m as [|[k2 x2] r IH]; simpl.
  - reflexivity.
  - destruct (str_eqb k' k2) eqn:E1.
    + apply str_eqb_eq in E1. subst k2. simpl. destruct (str_eqb k k'); reflexivity.
    + destruct (str_ltb k' k2); simpl.
      * reflexivity.
      * rewrite IH. destruct (str_eqb k k2) eqn:E2; [|reflexivity].
        apply str_eqb_eq in E2. subst k2.
        destruct (str_eqb k k') eqn:E3; [|reflexivity].
        apply str_eqb_eq in E3. subst k'. rewrite str_eqb_refl in E1. discriminate.
Qed.

Lemma keys_map_put : forall k (x : T) m k2,
  In k2 (map fst (map_put k x m)) <-> k2 = k \/ In k2 (map fst m).
Proof.
  intros k x m k2. induction m as [|[k1 x1] r IH]; simpl.
  - intuition congruence.
  - destruct (str_eqb k k1) eqn:E1.
    + apply str_eqb_eq in E1. subst k1. simpl. intuition congruence.
    + destruct (str_ltb k k1); simpl.
      * intuition congruence.
      * rewrite IH. intuition congruence.
Qed.

Definition put_all (l : list (list Z * T)) (m0 : list (list Z * T)) :=
  fold_left (fun m kx => map_put (fst kx) (snd kx) m) l m0.

Lemma lookup_put_all_notin : forall l m0 k,
  ~ In k (map fst l) -> lookup k (put_all l m0) = lookup k m0.
Proof.
  induction l as [|[k1 x1] l IH]; intros m0 k Hn; simpl.
  - reflexivity.
  - unfold put_all in *. simpl. rewrite IH.
    + rewrite lookup_map_put. simpl in Hn. rewrite str_eqb_neq; auto.
    + simpl in Hn. tauto.
Qed.

Lemma lookup_put_all_in : forall l m0 k x,
  NoDup (map fst l) -> In (k, x) l -> lookup k (put_all l m0) = Some x.
Proof.
  induction l as [|[k1 x1] l IH]; intros m0 k x Hnd Hin; simpl in *.
  - contradiction.
  - inversion Hnd as [|? ? Hn1 Hnd']; subst.
    destruct Hin as [E|Hin].
    + inversion E; subst. unfold put_all. simpl.
      change (lookup k (put_all l (map_put k x m0)) = Some x).
      rewrite lookup_put_all_notin by assumption.
      rewrite lookup_map_put. rewrite str_eqb_refl. reflexivity.
    + unfold put_all. simpl. apply IH; assumption.
Qed.

Variable F : list Z * T -> list (list Z * value).

Lemma count_map_put : forall k (x : T) m,
  ~ In k (map fst m) ->
  length (flat_map F (map_put k x m)) = (length (F (k, x)) + length (flat_map F m))%nat.
Proof.
  intros k x m. induction m as [|[k1 x1] r IH]; intro Hn; simpl.
  - rewrite app_nil_r. lia.
  - simpl in Hn. destruct (str_eqb k k1) eqn:E1.
    + apply str_eqb_eq in E1. subst. tauto.
    + destruct (str_ltb k k1); simpl.
      * rewrite !app_length. lia.
      * rewrite !app_length. rewrite IH by tauto. lia.
Qed.

Lemma count_put_all : forall l m0,
  NoDup (map fst l) -> (forall k, In k (map fst l) -> ~ In k (map fst m0)) ->
  length (flat_map F (put_all l m0)) = (length (flat_map F l) + length (flat_map F m0))%nat.
Proof.
  induction l as [|[k1 x1] l IH]; intros m0 Hnd Hdis; simpl.
  - reflexivity.
  - inversion Hnd as [|? ? Hn1 Hnd']; subst.
    unfold put_all. simpl. change (length (flat_map F (put_all l (map_put k1 x1 m0))) =
      (length (F (k1, x1) ++ flat_map F l) + length (flat_map F m0))%nat).
    rewrite IH.
    + rewrite count_map_put.
      * rewrite app_length. lia.
      * apply Hdis. simpl. auto.
    + assumption.
    + intros k Hk Hin. apply keys_map_put in Hin. destruct Hin as [E|Hin].
      * subst. contradiction.
      * apply (Hdis k); simpl; auto.
Qed.

End GoMap.

(* ------------------------------------------------------------ numbers *)

Definition dstep (a d : Z) : Z := a * 10 + (d - 48).

Lemma dec_pos_digits : forall n z acc, 0 <= z -> z < 10 ^ Z.of_nat n ->
  forallb is_digit (dec_pos n z acc) = forallb is_digit acc /\
  fold_left dstep (dec_pos n z acc) 0 = fold_left dstep acc z.
Proof.
  induction n as [|n IH]; intros z acc H0 Hlt.
  - simpl in *. assert (z = 0) by lia. subst. split; reflexivity.
  - cbn [dec_pos]. destruct (Z.ltb_spec z 10) as [Hs|Hs].
    + split.
      * cbn [forallb]. unfold is_digit.
        replace (48 <=? 48 + z) with true by (symmetry; apply Z.leb_le; lia).
        replace (48 + z <=? 57) with true by (symmetry; apply Z.leb_le; lia). reflexivity.
      * cbn [fold_left]. unfold dstep at 2. f_equal. lia.
    + assert (Hp : 10 ^ Z.of_nat (S n) = 10 * 10 ^ Z.of_nat n).
      { rewrite Nat2Z.inj_succ. rewrite Z.pow_succ_r by lia. reflexivity. }
      assert (Hd : 0 <= z / 10 < 10 ^ Z.of_nat n).
      { split. apply Z.div_pos; lia. apply Z.div_lt_upper_bound; lia. }
      destruct (IH (z / 10) ((48 + z mod 10) :: acc) (proj1 Hd) (proj2 Hd)) as [I1 I2].
      split.
      * rewrite I1. cbn [forallb]. unfold is_digit.
        assert (0 <= z mod 10 < 10) by (apply Z.mod_pos_bound; lia).
        replace (48 <=? 48 + z mod 10) with true by (symmetry; apply Z.leb_le; lia).
        replace (48 + z mod 10 <=? 57) with true by (symmetry; apply Z.leb_le; lia). reflexivity.
      * rewrite I2. cbn [fold_left]. f_equal. unfold dstep.
        pose proof (Z.div_mod z 10). lia.
Qed.

Lemma digits_val_dstep : forall ds, digits_val ds = fold_left dstep ds 0.
Proof. reflexivity. Qed.

Lemma pow_10_25 : 10 ^ Z.of_nat 25 = 10000000000000000000000000.
Proof. reflexivity. Qed.

Lemma head_not_minus : forall l, forallb is_digit l = true ->
  (match l with c :: _ => c =? 45 | [] => false end) = false.
Proof.
  intros [|c l] H; [reflexivity|]. simpl in H. apply andb_true_iff in H. destruct H as [H _].
  unfold is_digit in H. apply andb_true_iff in H. destruct H as [H _]. apply Z.leb_le in H.
  apply Z.eqb_neq. lia.
Qed.

Section Tree.
Variable fmt : bool -> Z -> list Z.
Variable pf : list Z -> Z.
(* oracle: the shortest decimal text strconv.FormatFloat prints, read by the decoder's float
   parser, gives the same float64 *)
Hypothesis pf_fmt : forall sci b, float_finite b = true ->
  is_json_number (float_token fmt sci b) = true -> pf (float_token fmt sci b) = b.
(* oracle: strconv.FormatFloat(x, 'e', -1, 64) of a finite float contains an 'e' *)
Hypothesis fmt_e : forall b, float_finite b = true -> has_dot_e (fmt true b) = true.

Lemma num_value_dec : forall z, in_i64 z = true -> num_value pf (dec z) = Ok (VInt z).
Proof.
  intros z Hz. unfold in_i64 in Hz. apply andb_true_iff in Hz. destruct Hz as [Hlo Hhi].
  apply Z.leb_le in Hlo. apply Z.leb_le in Hhi.
  unfold dec. destruct (Z.ltb_spec z 0) as [Hneg|Hpos].
  - assert (Hr : 0 <= - z < 10 ^ Z.of_nat 25) by (rewrite pow_10_25; lia).
    destruct (dec_pos_digits 25 (- z) [] (proj1 Hr) (proj2 Hr)) as [D1 D2].
    unfold num_value. cbn [tl]. rewrite Z.eqb_refl.
    rewrite D1. cbn [forallb]. rewrite digits_val_dstep, D2. cbn [fold_left].
    replace (- z <? 18446744073709551616) with true by (symmetry; apply Z.ltb_lt; lia).
    replace (9223372036854775808 <? - z) with false by (symmetry; apply Z.ltb_ge; lia).
    f_equal. f_equal. lia.
  - assert (Hr : 0 <= z < 10 ^ Z.of_nat 25) by (rewrite pow_10_25; lia).
    destruct (dec_pos_digits 25 z [] (proj1 Hr) (proj2 Hr)) as [D1 D2].
    unfold num_value. cbn [forallb] in D1.
    rewrite (head_not_minus _ D1). rewrite D1. rewrite digits_val_dstep, D2. cbn [fold_left].
    replace (z <? 18446744073709551616) with true by (symmetry; apply Z.ltb_lt; lia).
    replace (9223372036854775808 <=? z) with false by (symmetry; apply Z.leb_gt; lia).
    reflexivity.
Qed.

Lemma has_dot_e_not_digits : forall t, has_dot_e t = true -> forallb is_digit t = false.
Proof.
  induction t as [|c t IH]; simpl; intro H; [discriminate|].
  apply orb_true_iff in H. destruct H as [H|H].
  - assert (is_digit c = false).
    { unfold is_digit. apply orb_true_iff in H. destruct H as [H|H].
      - apply orb_true_iff in H. destruct H as [H|H]; apply Z.eqb_eq in H; subst; reflexivity.
      - apply Z.eqb_eq in H; subst; reflexivity. }
    rewrite H0. reflexivity.
  - rewrite (IH H). apply andb_false_r.
Qed.

Lemma has_dot_e_token : forall sci b, float_finite b = true -> has_dot_e (float_token fmt sci b) = true.
Proof.
  intros sci b Hf. unfold float_token. destruct (float_extreme b); [apply fmt_e; exact Hf|].
  destruct (has_dot_e (fmt sci b)) eqn:E; [assumption|].
  unfold has_dot_e. rewrite existsb_app. simpl. apply orb_true_r.
Qed.

Lemma num_value_float : forall tok, has_dot_e tok = true -> num_value pf tok = Ok (VFloat false (pf tok)).
Proof.
  intros tok H. unfold num_value.
  assert (Hd : forallb is_digit (if match tok with c :: _ => c =? 45 | [] => false end then tl tok else tok) = false).
  { destruct tok as [|c r]; [discriminate|].
    destruct (Z.eqb_spec c 45) as [E|E].
    - subst. simpl in H. cbn [tl]. apply has_dot_e_not_digits. exact H.
    - apply has_dot_e_not_digits. exact H. }
  rewrite Hd. reflexivity.
Qed.

(* ------------------------------------------------------------ arrays *)

Lemma all_ok_map : forall (l : list value) (f : value -> jtree),
  Forall (fun x => of_tree pf (f x) = Ok (norm x)) l ->
  all_ok (map (of_tree pf) (map f l)) = Some (map norm l).
Proof.
  induction l as [|x l IH]; intros f H; simpl.
  - reflexivity.
  - inversion H as [|? ? H1 H2]; subst. rewrite H1. rewrite (IH f H2). reflexivity.
Qed.

Lemma all_ok_strs : forall (ks : list (list Z)),
  all_ok (map (of_tree pf) (map JStr ks)) = Some (map (VStr false) ks).
Proof.
  induction ks as [|k ks IH]; simpl; [reflexivity|]. rewrite IH. reflexivity.
Qed.

Lemma key_order_strs : forall ks, key_order_list (map JStr ks) = Some ks.
Proof. induction ks as [|k ks IH]; simpl; [reflexivity|]. rewrite IH. reflexivity. Qed.

(* ------------------------------------------------------------ hashes *)

Definition Fpairs (e : list Z * (jtree * outcome)) : list (list Z * value) :=
  if is_reserved (fst e) then [] else match snd (snd e) with Ok v => [(fst e, v)] | _ => [] end.

Definition entry (kt : list Z * jtree) : list Z * (jtree * outcome) :=
  match kt with (k, x) => (k, (x, of_tree pf x)) end.

Lemma lookup_pairs : forall k (m : list (list Z * (jtree * outcome))) t v,
  is_reserved k = false -> lookup k m = Some (t, Ok v) -> lookup k (flat_map Fpairs m) = Some v.
Proof.
  intros k m t v Hr. induction m as [|[k1 [t1 o1]] r IH]; simpl; intro H; [discriminate|].
  destruct (str_eqb k k1) eqn:E.
  - apply str_eqb_eq in E. subst k1. inversion H; subst. unfold Fpairs at 1. simpl. rewrite Hr.
    simpl. rewrite str_eqb_refl. reflexivity.
  - unfold Fpairs at 1. simpl. destruct (is_reserved k1); simpl; [apply IH; exact H|].
    destruct o1; simpl; try (apply IH; exact H). rewrite E. apply IH. exact H.
Qed.

Definition field_tree (kv : key * value) : list Z * jtree :=
  match kv with (k, x) => (fix_str (key_text k), tree_of fmt x) end.

Definition field_ok (kv : key * value) : Prop :=
  of_tree pf (tree_of fmt (snd kv)) = Ok (norm (snd kv)).

Lemma restore_fields : forall (fs all : list (key * value)) (pairs : list (list Z * value)),
  (forall kv, In kv fs -> lookup (key_text (fst kv)) pairs = Some (norm (snd kv))) ->
  restore (map (fun kv => key_text (fst kv)) fs) pairs =
    Some (map (fun kv => match kv with (k, x) => (KSym (key_text k), norm x) end) fs).
Proof.
  induction fs as [|[k x] fs IH]; intros all pairs H; simpl.
  - reflexivity.
  - pose proof (H (k, x) (or_introl eq_refl)) as Hk. simpl in Hk. rewrite Hk. rewrite (IH all pairs).
    + reflexivity.
    + intros kv Hin. apply H. simpl. auto.
Qed.

Lemma count_fields : forall fs : list (key * value),
  Forall field_ok fs ->
  Forall (fun kv => is_reserved (fix_str (key_text (fst kv))) = false) fs ->
  length (flat_map Fpairs (map entry (map field_tree fs))) = length fs.
Proof.
  induction fs as [|[k x] fs IH]; intros H1 H2; simpl.
  - reflexivity.
  - inversion H1 as [|? ? A1 A2]; inversion H2 as [|? ? B1 B2]; subst.
    unfold Fpairs at 1. simpl in *. rewrite B1. unfold field_ok in A1. simpl in A1. rewrite A1.
    simpl. rewrite IH; auto.
Qed.


Lemma NoDup_snoc : forall (A : Type) (l : list A) (z : A), NoDup l -> ~ In z l -> NoDup (l ++ [z]).
Proof.
  induction l as [|x l IH]; intros z Hnd Hz; simpl.
  - constructor; [intros []|constructor].
  - inversion Hnd as [|? ? H1 H2]; subst. constructor.
    + intro Hin. apply in_app_or in Hin. destruct Hin as [Hin|[E|[]]]; [contradiction|].
      subst. apply Hz. left. reflexivity.
    + apply IH; [exact H2|]. intro Hin. apply Hz. right. exact Hin.
Qed.

Lemma nodup_str_NoDup : forall l, nodup_str l = true -> NoDup l.
Proof.
  induction l as [|x l IH]; simpl; intro H; [constructor|].
  apply andb_true_iff in H. destruct H as [H1 H2]. constructor; [|apply IH; exact H2].
  intro Hin. apply negb_true_iff in H1.
  assert (existsb (str_eqb x) l = true).
  { apply existsb_exists. exists x. split; [exact Hin|apply str_eqb_refl]. }
  congruence.
Qed.

Definition keys_of (fs : list (key * value)) : list (list Z) := map (fun kv => key_text (fst kv)) fs.
Definition plain_tree (kv : key * value) : list Z * jtree :=
  match kv with (k, x) => (key_text k, tree_of fmt x) end.

Lemma build_hash_fields : forall tn (fs : list (key * value)),
  fs <> [] ->
  Forall field_ok fs ->
  NoDup (keys_of fs) ->
  Forall (fun kv => is_reserved (key_text (fst kv)) = false) fs ->
  build_hash (map entry ((s_Atype, JStr tn) :: map plain_tree fs ++ [(s_zKeyOrder, JArr (map JStr (keys_of fs)))]))
  = Ok (VHash tn (map (fun kv => match kv with (k, x) => (KSym (key_text k), norm x) end) fs)).
Proof.
  intros tn fs Hne Hok Hnd Hres.
  set (ks := keys_of fs).
  set (dm := map entry ((s_Atype, JStr tn) :: map plain_tree fs ++ [(s_zKeyOrder, JArr (map JStr ks))])).
  assert (Edm : dm = (s_Atype, (JStr tn, Ok (VStr false tn))) :: map entry (map plain_tree fs)
                     ++ [(s_zKeyOrder, (JArr (map JStr ks), Ok (VArr (map (VStr false) ks))))]).
  { unfold dm. cbn [map]. rewrite map_app. cbn [map entry of_tree]. rewrite all_ok_strs. reflexivity. }
  assert (Hent : forall kv, In kv fs ->
            In (key_text (fst kv), (tree_of fmt (snd kv), Ok (norm (snd kv)))) (map entry (map plain_tree fs))).
  { intros [k x] Hin. rewrite Forall_forall in Hok. pose proof (Hok _ Hin) as Hk. unfold field_ok in Hk. simpl in Hk.
    apply in_map_iff. exists (key_text k, tree_of fmt x). split.
    - simpl. rewrite Hk. reflexivity.
    - apply in_map_iff. exists (k, x). split; [reflexivity|exact Hin]. }
  assert (Hkeys : map fst (map entry (map plain_tree fs)) = ks).
  { unfold ks, keys_of. rewrite !map_map. apply map_ext. intros [k x]. reflexivity. }
  assert (HnotA : ~ In s_Atype ks /\ ~ In s_zKeyOrder ks).
  { split; intro Hin; unfold ks, keys_of in Hin; apply in_map_iff in Hin; destruct Hin as [kv [E Hin]];
      rewrite Forall_forall in Hres; pose proof (Hres _ Hin) as Hr; rewrite E in Hr; discriminate Hr. }
  assert (Hndm : NoDup (map fst dm)).
  { rewrite Edm. cbn [map fst]. rewrite map_app. rewrite Hkeys. cbn [map fst].
    constructor.
    - intro Hin. apply in_app_or in Hin. destruct Hin as [Hin|[Hin|[]]]; [tauto|discriminate Hin].
    - apply NoDup_snoc; tauto. }
  assert (HAll : forallb (fun e => is_ok (snd (snd e))) dm = true).
  { rewrite Edm. cbn [forallb snd is_ok]. rewrite forallb_app. cbn [forallb snd is_ok]. rewrite andb_true_r.
    apply forallb_forall. intros e He. apply in_map_iff in He. destruct He as [[k t] [E He]].
    apply in_map_iff in He. destruct He as [[k0 x0] [E0 He]]. inversion E0; subst.
    rewrite Forall_forall in Hok. pose proof (Hok _ He) as Hk. unfold field_ok in Hk. simpl in Hk.
    simpl. rewrite Hk. reflexivity. }
  assert (HlA : lookup s_Atype (put_all dm []) = Some (JStr tn, Ok (VStr false tn))).
  { apply lookup_put_all_in; [exact Hndm|]. rewrite Edm. left. reflexivity. }
  assert (HlZ : lookup s_zKeyOrder (put_all dm []) = Some (JArr (map JStr ks), Ok (VArr (map (VStr false) ks)))).
  { apply lookup_put_all_in; [exact Hndm|]. rewrite Edm. right. apply in_or_app. right. left. reflexivity. }
  assert (HlF : forall kv, In kv fs ->
            lookup (key_text (fst kv)) (flat_map Fpairs (put_all dm [])) = Some (norm (snd kv))).
  { intros kv Hin. apply lookup_pairs with (t := tree_of fmt (snd kv)).
    - rewrite Forall_forall in Hres. apply Hres. exact Hin.
    - apply lookup_put_all_in; [exact Hndm|]. rewrite Edm. right. apply in_or_app. left. apply Hent. exact Hin. }
  assert (Hcnt : length (flat_map Fpairs (put_all dm [])) = length fs).
  { rewrite count_put_all; [|exact Hndm|intros k _ []].
    cbn [flat_map length]. rewrite Nat.add_0_r. rewrite Edm. cbn [flat_map]. rewrite flat_map_app. cbn [flat_map].
    rewrite !app_length.
    assert (E1 : Fpairs (s_Atype, (JStr tn, Ok (VStr false tn))) = []) by reflexivity.
    assert (E2 : Fpairs (s_zKeyOrder, (JArr (map JStr ks), Ok (VArr (map (VStr false) ks)))) = []) by reflexivity.
    rewrite E1, E2. simpl. rewrite Nat.add_0_r.
    clear - Hok Hres. induction fs as [|[k x] fs IH]; [reflexivity|].
    inversion Hok as [|? ? A1 A2]; inversion Hres as [|? ? B1 B2]; subst.
    cbn [map flat_map plain_tree entry]. unfold Fpairs at 1. cbn [fst snd]. simpl in B1. rewrite B1.
    unfold field_ok in A1. simpl in A1. rewrite A1. simpl. f_equal. apply IH; assumption. }
  unfold build_hash. fold dm. rewrite HAll. cbn [negb].
  change (go_map dm) with (put_all dm []).
  rewrite HlA, HlZ. cbn [key_order]. rewrite key_order_strs.
  change (flat_map _ (put_all dm [])) with (flat_map Fpairs (put_all dm [])).
  unfold ks at 1 2. unfold keys_of. rewrite (restore_fields fs fs _ HlF).
  rewrite map_length. rewrite Hcnt. rewrite Nat.eqb_refl. reflexivity.
Qed.

Lemma forallb_Forall : forall (A : Type) (f : A -> bool) (l : list A), forallb f l = true -> Forall (fun x => f x = true) l.
Proof. intros A f l H. apply Forall_forall. intros x Hx. rewrite forallb_forall in H. apply H. exact Hx. Qed.

Theorem of_tree_tree_of : forall v, data fmt v = true -> no_reserved_keys v = true ->
  of_tree pf (tree_of fmt v) = Ok (norm v).
Proof.
  induction v as [| b | z | sci b | raw s | l IH | tn fs IH] using value_ind_nested; intros Hd Hr.
  - reflexivity.
  - reflexivity.
  - simpl. apply num_value_dec. exact Hd.
  - simpl in Hd. apply andb_true_iff in Hd. destruct Hd as [Hf Hn].
    simpl. rewrite Hf. simpl. rewrite num_value_float by (apply has_dot_e_token; exact Hf).
    rewrite pf_fmt by assumption. reflexivity.
  - simpl in *. rewrite fix_str_valid by exact Hd. reflexivity.
  - simpl in Hd, Hr. cbn [tree_of of_tree norm].
    rewrite all_ok_map; [reflexivity|].
    apply Forall_forall. intros x Hx. rewrite Forall_forall in IH.
    rewrite forallb_forall in Hd, Hr. apply IH; auto.
  - cbn [data] in Hd. cbn [no_reserved_keys] in Hr.
    apply andb_true_iff in Hd. destruct Hd as [Hd Hfs]. apply andb_true_iff in Hd. destruct Hd as [Htn Hnd].
    cbn [tree_of of_tree norm]. rewrite (fix_str_valid tn Htn).
    assert (Hcase : fs = [] \/ fs <> []) by (destruct fs; [left; reflexivity|right; discriminate]).
    destruct Hcase as [Hnil|Hne].
    + subst fs. reflexivity.
    + rewrite forallb_forall in Hfs, Hr. rewrite Forall_forall in IH.
      assert (Hvalid : forall kv, In kv fs -> fix_str (key_text (fst kv)) = key_text (fst kv)).
      { intros [k x] Hin. pose proof (Hfs _ Hin) as H. simpl in H. apply andb_true_iff in H. destruct H as [H _].
        apply fix_str_valid. exact H. }
      assert (E1 : map (fun kv : key * value => match kv with (k, x) => (fix_str (key_text k), tree_of fmt x) end) fs
                   = map plain_tree fs).
      { apply map_ext_in. intros [k x] Hin. unfold plain_tree. pose proof (Hvalid _ Hin) as Hv. simpl in Hv. rewrite Hv. reflexivity. }
      assert (E2 : map (fun kv : key * value => JStr (fix_str (key_text (fst kv)))) fs = map JStr (keys_of fs)).
      { unfold keys_of. rewrite map_map. apply map_ext_in. intros kv Hin. rewrite (Hvalid _ Hin). reflexivity. }
      assert (Hform : match fs with
                      | [] => []
                      | _ :: _ => map (fun kv : key * value => match kv with (k, x) => (fix_str (key_text k), tree_of fmt x) end) fs
                                  ++ [(s_zKeyOrder, JArr (map (fun kv : key * value => JStr (fix_str (key_text (fst kv)))) fs))]
                      end = map plain_tree fs ++ [(s_zKeyOrder, JArr (map JStr (keys_of fs)))]).
      { rewrite E1, E2. destruct fs; [contradiction|reflexivity]. }
      rewrite Hform.
      change (map (fun kt : list Z * jtree => match kt with (k, x) => (k, (x, of_tree pf x)) end))
        with (map entry).
      rewrite build_hash_fields; [reflexivity|exact Hne| | |].
      * apply Forall_forall. intros [k x] Hin. unfold field_ok. simpl.
        pose proof (Hfs _ Hin) as H1. pose proof (Hr _ Hin) as H2. simpl in H1, H2.
        apply andb_true_iff in H1. apply andb_true_iff in H2.
        apply (IH (k, x) Hin); tauto.
      * apply nodup_str_NoDup. exact Hnd.
      * apply Forall_forall. intros [k x] Hin. pose proof (Hr _ Hin) as H2. simpl in H2.
        apply andb_true_iff in H2. destruct H2 as [H2 _]. apply negb_true_iff in H2. exact H2.
Qed.

End Tree.
