(* In the lexer's token stream every BeginBlockComment is directly followed by a Comment token. *)
From Coq Require Import ZArith List Bool Lia.
From ZV Require Import Model.Regex Generated.LexTables Model.Lexer Model.Reader Model.TokScan
  Proofs.LexerProofs Proofs.RegexProofs Proofs.ReaderTotal Proofs.LexerWF.
Import ListNotations.
Open Scope Z_scope.

Lemma bc_app_nb : forall l t, bc_ok l = true -> ends_begin l = false -> bc_ok (l ++ [t]) = true.
Proof.
  induction l as [|x r IH]; intros t H E; simpl in *; [rewrite andb_true_r; destruct (kind_is t TBeginBlockComment); reflexivity|].
  apply andb_prop in H. destruct H as [H1 H2]. destruct r as [|y r'].
  - simpl in *. unfold ends_begin in E. simpl in E. rewrite E. simpl. rewrite andb_true_r. destruct (kind_is t TBeginBlockComment); reflexivity.
  - change ((x :: y :: r') ++ [t]) with (x :: (y :: r') ++ [t]).
    change (bc_ok (x :: (y :: r') ++ [t])) with ((if kind_is x TBeginBlockComment then kind_is y TComment else true) && bc_ok ((y :: r') ++ [t])).
    rewrite (IH t H2); [|exact E]. rewrite andb_true_r. exact H1.
Qed.

Lemma bc_app_c : forall l t, bc_ok l = true -> kind_is t TComment = true -> bc_ok (l ++ [t]) = true.
Proof.
  induction l as [|x r IH]; intros t H K; simpl in *.
  - unfold kind_is in *. destruct (t_kind t); try discriminate; reflexivity.
  - apply andb_prop in H. destruct H as [H1 H2]. destruct r as [|y r'].
    + simpl. rewrite K. destruct (kind_is x TBeginBlockComment); simpl; [|]; unfold kind_is in *; destruct (t_kind t); try discriminate; reflexivity.
    + change ((x :: y :: r') ++ [t]) with (x :: (y :: r') ++ [t]).
      change (bc_ok (x :: (y :: r') ++ [t])) with ((if kind_is x TBeginBlockComment then kind_is y TComment else true) && bc_ok ((y :: r') ++ [t])).
      rewrite (IH t H2 K). rewrite andb_true_r. exact H1.
Qed.

Lemma ends_begin_app : forall l t, ends_begin (l ++ [t]) = kind_is t TBeginBlockComment.
Proof. intros l t. unfold ends_begin. rewrite last_last. reflexivity. Qed.

(* invariant: the queue is bc_ok, and it ends in BeginBlockComment only while the lexer is in a block-comment mode *)
Definition BI (s : lstate) : Prop :=
  bc_ok (l_tokens s) = true /\ (ends_begin (l_tokens s) = true -> mode_auto (l_state s) = WBlock).

Lemma bi_append_free : forall s t, BI s -> mode_auto (l_state s) <> WBlock -> kind_is t TBeginBlockComment = false ->
  bc_ok (l_tokens (append_token t s)) = true /\ ends_begin (l_tokens (append_token t s)) = false.
Proof.
  intros s t [B1 B2] Hm Ht. destruct s; simpl in *. split.
  - apply bc_app_nb; [exact B1|]. destruct (ends_begin l_tokens) eqn:E; [exfalso; apply Hm; apply B2; reflexivity|reflexivity].
  - rewrite ends_begin_app. exact Ht.
Qed.

Definition NB (s : lstate) : Prop := bc_ok (l_tokens s) = true /\ ends_begin (l_tokens s) = false.

Lemma nb_bi : forall s, NB s -> BI s.
Proof. intros s [H1 H2]. split; [exact H1|]. rewrite H2. discriminate. Qed.

Lemma bi_nb : forall s, BI s -> mode_auto (l_state s) <> WBlock -> NB s.
Proof. intros s [H1 H2] Hm. split; [exact H1|]. destruct (ends_begin (l_tokens s)); [exfalso; apply Hm; apply H2; reflexivity|reflexivity]. Qed.

Lemma nb_tokens : forall s s', l_tokens s' = l_tokens s -> NB s -> NB s'.
Proof. intros s s' H [H1 H2]. unfold NB. rewrite H. split; assumption. Qed.

Lemma tokens_append : forall t s, l_tokens (append_token t s) = l_tokens s ++ [t].
Proof. intros t s; destruct s; reflexivity. Qed.

Lemma nb_append : forall s t, NB s -> kind_is t TBeginBlockComment = false -> NB (append_token t s).
Proof.
  intros s t [H1 H2] Ht. unfold NB. rewrite tokens_append. split; [apply bc_app_nb; assumption|rewrite ends_begin_app; exact Ht].
Qed.

Lemma decode_atom_not_begin : forall a t, decode_atom a = Some t -> kind_is t TBeginBlockComment = false.
Proof.
  intros a t H. pose proof (decode_atom_wstep _ _ H) as W. unfold wstep in W.
  destruct (kind_is t TBeginBlockComment); [discriminate|reflexivity].
Qed.

Lemma decode_brace_not_begin : forall r, kind_is (decode_brace r) TBeginBlockComment = false.
Proof. intros r. unfold decode_brace. repeat match goal with |- context [if ?c then _ else _] => destruct c end; reflexivity. Qed.

Lemma nb_dump : forall s s', dump_buffer s = Some s' -> NB s -> NB s'.
Proof.
  intros s s' D H. unfold dump_buffer in D. destruct (l_buffer s).
  - inversion D; subst; exact H.
  - destruct (decode_atom (z :: l)) as [t|] eqn:E; [|discriminate]. inversion D; subst.
    apply nb_append; [destruct s; exact H|eapply decode_atom_not_begin; exact E].
Qed.

Ltac ds s := destruct s as [st pr tk bf pt ppt pb ln pi rg].
Local Opaque re_match.

Lemma lex_normal_nb : forall s r, NB s -> NB (lres_state (lex_normal s r)).
Proof.
  intros s r H. unfold lex_normal, with_dump.
  repeat match goal with
         | |- context [if ?c then _ else _] => destruct c
         | |- context [match dump_buffer ?x with _ => _ end] =>
             let D := fresh "D" in destruct (dump_buffer x) as [?s1|] eqn:D;
             [apply nb_dump in D; [|try (ds s; exact H)]|]
         | |- context [match l_buffer ?x with _ => _ end] => destruct (l_buffer x)
         end; simpl lres_state;
    try (ds s; exact H);
    try (match goal with H1 : NB ?s1 |- _ => first [ds s1; exact H1 | apply (nb_tokens (append_token _ s1)); [ds s1; reflexivity|]; apply nb_append; [exact H1|first [reflexivity|apply decode_brace_not_begin]]] end);
    try (apply (nb_tokens (append_token _ s)); [ds s; reflexivity|]; apply nb_append; [exact H|reflexivity]).
  all: apply nb_append; [first [assumption | apply (nb_tokens s); [ds s; reflexivity|exact H]] | first [reflexivity | apply decode_brace_not_begin]].
Qed.

Lemma lex_builtin_nb : forall s r, NB s -> NB (lres_state (lex_builtin s r)).
Proof.
  intros s r H. unfold lex_builtin.
  destruct (_ && _ && _); [simpl; apply (nb_tokens s); [ds s; reflexivity|exact H]|].
  destruct (re_match re_BuiltinOpRegex _).
  - simpl. apply nb_append; [apply (nb_tokens s); [ds s; reflexivity|exact H]|reflexivity].
  - apply lex_normal_nb. apply nb_append; [apply (nb_tokens s); [ds s; reflexivity|exact H]|reflexivity].
Qed.

Lemma lex_rune_bi : forall s r, BI s -> BI (lres_state (lex_rune s r)).
Proof.
  intros s r H. unfold lex_rune.
  assert (BI (ring_push r s)) as H1 by (ds s; exact H).
  set (s1 := ring_push r s) in *. clearbody s1.
  destruct (l_state s1) eqn:Est.
  - apply nb_bi. apply lex_normal_nb. apply bi_nb; [exact H1|rewrite Est; discriminate].
  - assert (NB s1) as N by (apply bi_nb; [exact H1|rewrite Est; discriminate]).
    apply nb_bi. destruct (r =? 10); simpl.
    + apply (nb_tokens (append_token (mkTok TComment (l_buffer s1)) s1)); [destruct s1; reflexivity|]. apply nb_append; [exact N|reflexivity].
    + apply (nb_tokens s1); [destruct s1; reflexivity|exact N].
  - assert (NB s1) as N by (apply bi_nb; [exact H1|rewrite Est; discriminate]).
    apply nb_bi. destruct (r =? 92); [|destruct (r =? 34)]; simpl.
    + apply (nb_tokens s1); [destruct s1; reflexivity|exact N].
    + apply (nb_tokens (append_token (mkTok TString (l_buffer s1)) s1)); [destruct s1; reflexivity|]. apply nb_append; [exact N|reflexivity].
    + apply (nb_tokens s1); [destruct s1; reflexivity|exact N].
  - assert (NB s1) as N by (apply bi_nb; [exact H1|rewrite Est; discriminate]).
    apply nb_bi. destruct (escape_char r); simpl; apply (nb_tokens s1); try exact N; destruct s1; reflexivity.
  - assert (NB s1) as N by (apply bi_nb; [exact H1|rewrite Est; discriminate]).
    apply nb_bi. destruct (r =? 64).
    + simpl. apply (nb_tokens (append_token (mkTok TTildeAt []) s1)); [destruct s1; reflexivity|]. apply nb_append; [exact N|reflexivity].
    + apply lex_normal_nb. apply (nb_tokens (append_token (mkTok TTilde []) s1)); [destruct s1; reflexivity|]. apply nb_append; [exact N|reflexivity].
  - assert (NB s1) as N by (apply bi_nb; [exact H1|rewrite Est; discriminate]).
    apply nb_bi. destruct (r =? 96); simpl.
    + apply (nb_tokens (append_token (mkTok TBacktickString (l_buffer s1)) s1)); [destruct s1; reflexivity|]. apply nb_append; [exact N|reflexivity].
    + apply (nb_tokens s1); [destruct s1; reflexivity|exact N].
  - assert (NB s1) as N by (apply bi_nb; [exact H1|rewrite Est; discriminate]).
    apply nb_bi. unfold lex_freshassign, with_dump.
    assert (NB (set_state LNormal s1)) as Nn by (apply (nb_tokens s1); [destruct s1; reflexivity|exact N]).
    destruct (r =? 61); [|destruct (slice_bound _)].
    + destruct (dump_buffer _) as [s2|] eqn:D; simpl; [|apply (nb_tokens s1); [destruct s1; reflexivity|exact N]].
      apply nb_append; [eapply nb_dump; eauto|reflexivity].
    + destruct (dump_buffer _) as [s2|] eqn:D; simpl; [|apply (nb_tokens s1); [destruct s1; reflexivity|exact N]].
      apply lex_normal_nb. apply nb_append; [eapply nb_dump; eauto|reflexivity].
    + destruct (dump_buffer _) as [s2|] eqn:D; simpl; [|apply (nb_tokens s1); [destruct s1; reflexivity|exact N]].
      apply lex_normal_nb. eapply nb_dump; [exact D|]. apply (nb_tokens s1); [destruct s1; reflexivity|exact N].
  - assert (NB s1) as N by (apply bi_nb; [exact H1|rewrite Est; discriminate]).
    unfold lex_firstslash, with_dump.
    destruct (r =? 47); [|destruct (r =? 42)].
    + apply nb_bi. destruct (dump_buffer s1) as [s2|] eqn:D; simpl; [|exact N].
      apply (nb_tokens s2); [destruct s2; reflexivity|eapply nb_dump; eauto].
    + destruct (dump_buffer s1) as [s2|] eqn:D; simpl; [|apply nb_bi; exact N].
      pose proof (nb_dump _ _ D N) as [B1 B2]. split.
      * rewrite tokens_append. apply bc_app_nb; [destruct s2; exact B1|destruct s2; exact B2].
      * intros _. destruct s2; reflexivity.
    + apply nb_bi. destruct (dump_buffer _) as [s2|] eqn:D; simpl; [|apply (nb_tokens s1); [destruct s1; reflexivity|exact N]].
      apply lex_builtin_nb. eapply nb_dump; [exact D|]. apply (nb_tokens s1); [destruct s1; reflexivity|exact N].
  - (* block comment *)
    destruct H1 as [B1 B2]. destruct (r =? 10); [|destruct (r =? 42)]; simpl.
    + apply nb_bi. unfold NB.
      assert (l_tokens (dump_as TComment (write_rune 10 s1)) = l_tokens s1 ++ [mkTok TComment (l_buffer s1 ++ [10])]) as -> by (destruct s1; reflexivity).
      split; [apply bc_app_c; [exact B1|reflexivity]|rewrite ends_begin_app; reflexivity].
    + split; [destruct s1; exact B1|intros _; destruct s1; reflexivity].
    + split; [destruct s1; exact B1|intros _; destruct s1; simpl in *; rewrite Est; reflexivity].
  - (* block comment, asterisk *)
    destruct H1 as [B1 B2]. destruct (r =? 47); [|destruct (r =? 42)]; simpl.
    + apply nb_bi. unfold NB.
      assert (l_tokens (set_state LNormal (append_token (mkTok TEndBlockComment []) (dump_as TComment (write_runes [42; 47] s1))))
              = (l_tokens s1 ++ [mkTok TComment (l_buffer s1 ++ [42; 47])]) ++ [mkTok TEndBlockComment []]) as -> by (destruct s1; reflexivity).
      split; [apply bc_app_nb; [apply bc_app_c; [exact B1|reflexivity]|rewrite ends_begin_app; reflexivity]|rewrite ends_begin_app; reflexivity].
    + split; [destruct s1; exact B1|intros _; destruct s1; simpl in *; rewrite Est; reflexivity].
    + split; [destruct s1; exact B1|intros _; destruct s1; reflexivity].
  - apply nb_bi. apply lex_builtin_nb. apply bi_nb; [exact H1|rewrite Est; discriminate].
  - assert (NB s1) as N by (apply bi_nb; [exact H1|rewrite Est; discriminate]).
    apply nb_bi. destruct (r =? 92); [|destruct (r =? 39)]; simpl.
    + apply (nb_tokens s1); [destruct s1; reflexivity|exact N].
    + destruct (dump_buffer _) as [s2|] eqn:D; simpl.
      * apply (nb_tokens s2); [destruct s2; reflexivity|]. eapply nb_dump; [exact D|]. apply (nb_tokens s1); [destruct s1; reflexivity|exact N].
      * apply (nb_tokens s1); [destruct s1; reflexivity|exact N].
    + apply (nb_tokens s1); [destruct s1; reflexivity|exact N].
  - assert (NB s1) as N by (apply bi_nb; [exact H1|rewrite Est; discriminate]).
    apply nb_bi. destruct (escape_char r); simpl; apply (nb_tokens s1); try exact N; destruct s1; reflexivity.
Qed.

Theorem lexer_bc_ok : forall text, bc_ok (l_tokens (lres_state (lex_all init_lstate text))) = true.
Proof.
  intros text. assert (forall t s, BI s -> BI (lres_state (lex_all s t))) as HA.
  { induction t as [|r t IH]; intros s H; simpl; [exact H|].
    pose proof (lex_rune_bi s r H) as H1. destruct (lex_rune s r); simpl in *; [apply IH; exact H1|exact H1]. }
  apply (HA text init_lstate). split; [reflexivity|discriminate].
Qed.
