(* C06, lexer half, round 7: after ANY text, an atom pending in normal mode ends in the last rune of the
   text (so the rune the exponent rule looks back at is the last rune of the pending atom). *)
From Coq Require Import ZArith List Bool Lia.
From ZV Require Import Model.Regex Generated.LexTables Model.Lexer Model.LexerPrev Proofs.LexerProofs
  Proofs.SugarTokens Proofs.LexerRing Proofs.LexerSign Proofs.OpSpacing.
Import ListNotations.
Open Scope Z_scope.

Local Opaque re_match decode_atom sci_prefix_ok slice_bound escape_char can_start_signed_after decode_brace.
Local Arguments Nat.modulo : simpl never.
Local Arguments nth : simpl never.
Local Arguments Nat.sub : simpl never.
Local Arguments last : simpl never.

Lemma match_snoc : forall (A : Type) (bf : list Z) (r : Z) (a b : A),
  match bf ++ [r] with [] => a | _ :: _ => b end = b.
Proof. intros A bf r a b. destruct bf; reflexivity. Qed.

(* every reachable state: the operator mode and the unquote mode are entered with an empty buffer *)
Definition einv (s : lstate) : Prop :=
  (l_state s = LBuiltinOperator \/ l_state s = LUnquote) -> l_buffer s = [].

Ltac crunchL :=
  repeat (match goal with
          | |- context [if ?c then _ else _] => destruct c
          | |- context [match ?l with [] => _ | _ :: _ => _ end] => is_var l; destruct l
          | |- context [match decode_atom ?x with _ => _ end] => destruct (decode_atom x)
          | |- context [match escape_char ?x with _ => _ end] => destruct (escape_char x)
          end; simpl).

Ltac fin_last :=
  first [ left; reflexivity | right; reflexivity | right; apply last_last
        | right; match goal with |- last (?z :: ?l ++ [?r]) _ = _ => apply (last_last (z :: l) r) end ].

Ltac fin_inv :=
  first [ exact I
        | split; [intros [X|X]; first [discriminate X | reflexivity] | intros X; first [discriminate X | fin_last]] ].

(* one step: the invariant is kept, and a normal-mode state has either nothing pending or an atom
   whose last rune is the rune just read *)
Lemma lex_rune_last : forall s r, einv s ->
  match lex_rune s r with
  | LOk s' => einv s' /\ (l_state s' = LNormal -> l_buffer s' = [] \/ last (l_buffer s') 0 = r)
  | LErr _ => True
  end.
Proof.
  intros s r HI. destruct s as [st pr tk bf pt ppt pb ln pi rg]. unfold einv in HI. simpl in HI.
  unfold lex_rune. simpl.
  destruct st; simpl;
    try (assert (bf = []) as -> by (apply HI; auto));
    unfold lex_normal, lex_firstslash, lex_freshassign, lex_builtin, lex_normal, with_dump, dump_buffer, dump_as,
      append_token, write_rune, write_runes, einv; simpl;
    rewrite ?match_snoc;
    crunchL; fin_inv.
Qed.

Lemma einv_init : einv init_lstate.
Proof. unfold einv; simpl. intros [H|H]; discriminate. Qed.

Lemma lex_all_einv : forall t s s', einv s -> lex_all s t = LOk s' -> einv s'.
Proof.
  induction t as [|r t IH]; intros s s' HI H; simpl in H; [inversion H; subst; exact HI|].
  pose proof (lex_rune_last s r HI) as G. destruct (lex_rune s r) as [a|a]; [|discriminate].
  eapply IH; [apply G|exact H].
Qed.

(* after ANY text: a pending atom in normal mode ends in the last rune of the text *)
Theorem buffer_ends_in_last_rune : forall t s, lex_all init_lstate t = LOk s -> l_state s = LNormal ->
  l_buffer s <> [] -> last (l_buffer s) 0 = last t 0.
Proof.
  intros t s H HS HB. destruct t as [|r t] using rev_ind; [inversion H; subst; contradiction HB; reflexivity|].
  clear IHt. rewrite last_last. rewrite lex_all_app in H.
  destruct (lex_all init_lstate t) as [s0|s0] eqn:E0; [|discriminate]. simpl in H.
  pose proof (lex_rune_last s0 r (lex_all_einv _ _ _ einv_init E0)) as G.
  destruct (lex_rune s0 r) as [a|a]; [|discriminate]. inversion H; subst a.
  destruct G as [_ G]. destruct (G HS) as [G1|G1]; [contradiction|exact G1].
Qed.

