(* LexNextRune queues at most four tokens per rune (the worst cases: ':' followed by a brace after an
   atom that ends a slice bound — atom, ':' operator, [nothing buffered], brace; '/' followed by an
   operator rune after an atom).  So the token queue of a text is at most 4 * (number of runes) long,
   and the fuel bound of Proofs/ReaderFuel.v is linear in the length of the TEXT. *)
From Coq Require Import ZArith List Bool Lia.
From ZV Require Import Model.Regex Generated.LexTables Model.Lexer Model.Reader Proofs.ReaderFuel.
Import ListNotations.
Open Scope nat_scope.

Definition ntok (s : lstate) : nat := length (l_tokens s).
Definition B (n : nat) (x : lres) : Prop := ntok (lres_state x) <= n.

Ltac nt :=
  unfold B, ntok in *;
  cbn [lres_state l_tokens set_state set_prevrune set_tokens set_buffer set_prevtok set_prevprevtok
       set_prebuiltin set_linenum set_priori set_ring write_rune write_runes ring_push append_token dump_as] in *;
  rewrite ?app_length; simpl length; try lia.

Lemma B_le : forall n m x, B n x -> n <= m -> B m x.
Proof. unfold B; intros; lia. Qed.

Lemma dump_ntok : forall s s', dump_buffer s = Some s' -> ntok s' <= ntok s + 1.
Proof.
  intros s s' H. unfold dump_buffer in H. destruct (l_buffer s).
  - inversion H; subst. lia.
  - destruct (decode_atom _); [|discriminate]. inversion H; subst. nt.
Qed.

Lemma with_dump_b : forall s k n,
  (forall s1, ntok s1 <= ntok s + 1 -> B n (k s1)) -> ntok s <= n -> B n (with_dump s k).
Proof.
  intros s k n H Hn. unfold with_dump. destruct (dump_buffer s) eqn:E.
  - apply H. apply dump_ntok. exact E.
  - unfold B. simpl. exact Hn.
Qed.

Ltac brk :=
  repeat first
    [ match goal with |- context [if ?c then _ else _] => destruct c end
    | match goal with |- context [match l_buffer ?s with _ => _ end] => destruct (l_buffer s) end
    | match goal with |- context [match escape_char ?r with _ => _ end] => destruct (escape_char r) end ].

Lemma lex_normal_b : forall s r, B (ntok s + 2) (lex_normal s r).
Proof.
  intros s r. unfold lex_normal. cbv zeta. brk;
    first [ solve [nt]
          | apply with_dump_b; [intros s1 H1; cbv beta; solve [nt]|solve [nt]] ].
Qed.

Lemma lex_builtin_b : forall s r, B (ntok s + 3) (lex_builtin s r).
Proof.
  intros s r. unfold lex_builtin. cbv zeta. brk;
    first [ solve [nt]
          | eapply B_le; [apply lex_normal_b|solve [nt]] ].
Qed.

Lemma lex_firstslash_b : forall s r, B (ntok s + 4) (lex_firstslash s r).
Proof.
  intros s r. unfold lex_firstslash. brk;
    (apply with_dump_b; [intros s1 H1; cbv beta|solve [nt]]);
    first [ solve [nt] | eapply B_le; [apply lex_builtin_b|solve [nt]] ].
Qed.

Lemma lex_freshassign_b : forall s r, B (ntok s + 4) (lex_freshassign s r).
Proof.
  intros s r. unfold lex_freshassign. cbv zeta. brk;
    (apply with_dump_b; [intros s1 H1; cbv beta|solve [nt]]);
    first [ solve [nt] | eapply B_le; [apply lex_normal_b|solve [nt]] ].
Qed.

Lemma lex_rune_b : forall s r, B (ntok s + 4) (lex_rune s r).
Proof.
  intros s r. unfold lex_rune. cbv zeta.
  assert (ntok (ring_push r s) = ntok s) as Hr by reflexivity.
  destruct (l_state (ring_push r s)).
  - (* LNormal *) eapply B_le; [apply lex_normal_b|lia].
  - (* LCommentLine *) brk; solve [nt].
  - (* LStrLit *) brk; solve [nt].
  - (* LStrEscaped *) brk; solve [nt].
  - (* LUnquote *) brk; first [solve [nt] | eapply B_le; [apply lex_normal_b|solve [nt]]].
  - (* LBacktickString *) brk; solve [nt].
  - (* LFreshAssignOrColon *) eapply B_le; [apply lex_freshassign_b|lia].
  - (* LFirstFwdSlash *) eapply B_le; [apply lex_firstslash_b|lia].
  - (* LCommentBlock *) brk; solve [nt].
  - (* LCommentBlockAsterisk *) brk; solve [nt].
  - (* LBuiltinOperator *) eapply B_le; [apply lex_builtin_b|lia].
  - (* LRuneLit *)
    brk; try solve [nt].
    destruct (dump_buffer _) eqn:E.
    + apply dump_ntok in E. nt.
    + nt.
  - (* LRuneEscaped *) brk; solve [nt].
Qed.

Lemma lex_all_b : forall text s, B (ntok s + 4 * length text) (lex_all s text).
Proof.
  induction text as [|r rest IH]; intros s.
  - unfold B. simpl. lia.
  - simpl lex_all. pose proof (lex_rune_b s r) as Hr. destruct (lex_rune s r) as [s'|s'].
    + eapply B_le; [apply IH|]. unfold B in Hr. simpl in Hr. simpl length. lia.
    + unfold B in *. simpl in *. lia.
Qed.

(* the queue ResetAddNewInput(text) + ParseTokens hands to the parser *)
Theorem read_tokens_le : forall p text, length (read_tokens p text) <= 4 * length text + 4.
Proof.
  intros p text. unfold read_tokens.
  pose proof (lex_all_b (text ++ nl) (reset (ps_lex p))) as H. unfold B in H.
  assert (ntok (reset (ps_lex p)) = 0) as H0 by reflexivity.
  rewrite H0 in H. rewrite app_length in H. simpl length in H. unfold ntok in H. lia.
Qed.

Theorem read_fuel_text : forall p text, read_fuel p text <= 24 * length text + 26.
Proof. intros p text. pose proof (read_fuel_le p text). pose proof (read_tokens_le p text). lia. Qed.

Theorem whole_returns_text : forall b c fuel p text,
  24 * length text + 26 <= fuel -> returns (parse_after b c fuel p text).
Proof. intros b c fuel p text H. apply whole_returns. pose proof (read_fuel_text p text). lia. Qed.

Theorem pieces_returns_text : forall c fuel pieces,
  24 * length (concat pieces) + 26 <= fuel -> returns (parse_pieces true c fuel pieces).
Proof. intros c fuel pieces H. apply pieces_returns. pose proof (read_fuel_text (p_init 0) (concat pieces)). lia. Qed.
