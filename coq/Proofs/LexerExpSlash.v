(* C06, lexer half, round 7: the EXPONENT rule of LexNextRune.  A '+' / '-' directly after an atom that
   ends in e / E continues the atom exactly when the text buffered in front of the e / E is a mantissa
   (generated DecimalRegex / FloatRegex); after any other atom ending in e / E (an identifier, a hex
   literal) the sign opens the operator mode, i.e. it is handled by the sign rule of Proofs/LexerSign.v.
   Here: with the look-back rune given; Proofs/LexerExponent.v removes that premise. *)
From Coq Require Import ZArith List Bool Lia.
From ZV Require Import Model.Regex Generated.LexTables Model.Lexer Model.LexerPrev Proofs.LexerProofs
  Proofs.SugarTokens Proofs.LexerRing Proofs.LexerSign Proofs.OpSpacing.
Import ListNotations.
Open Scope Z_scope.

(* ---- facts computed on the generated tables ---- *)
Definition mantissa (m : list Z) : bool := re_match re_DecimalRegex m || re_match re_FloatRegex m.

Lemma mantissa_nil : mantissa [] = false.
Proof. vm_compute; reflexivity. Qed.
Lemma slash_space_no_merge : re_match re_BuiltinOpRegex [47; 32] = false.
Proof. vm_compute; reflexivity. Qed.
Lemma slash_eq_merge : re_match re_BuiltinOpRegex [47; 61] = true.
Proof. vm_compute; reflexivity. Qed.
Lemma cls_47 : cls 47 = cls 32.
Proof. vm_compute; reflexivity. Qed.
Lemma cls_61 : cls 61 = cls 32.
Proof. vm_compute; reflexivity. Qed.

Lemma utf8_len_pos : forall r, 1 <= utf8_len r.
Proof. intros r. unfold utf8_len. destruct (r <? 128); [lia|]. destruct (r <? 2048); [lia|]. destruct (r <? 65536); lia. Qed.

Lemma byte_len_snoc : forall l e, byte_len (l ++ [e]) = byte_len l + utf8_len e.
Proof. induction l as [|x l IH]; intros e; simpl; [lia|]. rewrite IH. lia. Qed.

Lemma byte_len_nonneg : forall l, 0 <= byte_len l.
Proof. induction l as [|x l IH]; simpl; [lia|]. pose proof (utf8_len_pos x). lia. Qed.

(* the scientific-notation test of the sign case, on an atom m ++ [e]: the text in front of the e is
   a mantissa *)
Lemma sci_prefix_mantissa : forall m e, e = 101 \/ e = 69 -> sci_prefix_ok (m ++ [e]) = mantissa m.
Proof.
  intros m e He. unfold sci_prefix_ok, last_rune. rewrite last_last, removelast_last. fold (mantissa m).
  assert (e <? 128 = true) as -> by (destruct He as [-> | ->]; reflexivity).
  destruct m as [|x m].
  - rewrite mantissa_nil. rewrite !andb_false_r. reflexivity.
  - assert (1 <? byte_len ((x :: m) ++ [e]) = true) as ->.
    { apply Z.ltb_lt. rewrite byte_len_snoc. simpl.
      pose proof (utf8_len_pos x). pose proof (utf8_len_pos e). pose proof (byte_len_nonneg m). lia. }
    reflexivity.
Qed.

Local Opaque re_match decode_atom sci_prefix_ok slice_bound escape_char can_start_signed_after decode_brace.
Local Arguments Nat.modulo : simpl never.
Local Arguments nth : simpl never.
Local Arguments Nat.sub : simpl never.

(* ================= 1. the exponent rule ================= *)

(* the sign continues the atom *)
Lemma step_exponent : forall s c, l_state s = LNormal -> c = 43 \/ c = 45 ->
  ((twoback (ring_push c s) =? 101) || (twoback (ring_push c s) =? 69)) && sci_prefix_ok (l_buffer s) = true ->
  lex_rune s c = LOk (write_rune c (ring_push c s)).
Proof.
  intros s c H Hc Hsci. rewrite lex_rune_body. unfold lex_body.
  replace (l_state (ring_push c s)) with LNormal by (ds s; simpl in *; congruence).
  destruct Hc as [-> | ->].
  - set (X := ring_push 43 s) in *. unfold lex_normal; simpl. rewrite Hsci. reflexivity.
  - set (X := ring_push 45 s) in *. unfold lex_normal; simpl. rewrite Hsci. reflexivity.
Qed.

(* THE exponent rule.  After any text t that leaves the lexer in normal mode with a pending atom
   m ++ [e], e in {e, E}, a sign c in {+, -}:
   - mantissa m (generated DecimalRegex / FloatRegex): c is appended to the atom, no token is emitted;
   - otherwise (identifier "there", hex "0x1e", ...): the atom is decoded and queued and the lexer is in the
     operator mode with c pending and e recorded as the rune in front of it - the situation the sign
     rule decides; if the atom does not decode the lexer reports the error *)
Theorem exponent_rule_core : forall t s m e c,
  lex_all init_lstate t = LOk s -> l_state s = LNormal -> l_buffer s = m ++ [e] ->
  e = 101 \/ e = 69 -> c = 43 \/ c = 45 -> last t 0 = e ->
  if mantissa m
  then exists s', lex_all s [c] = LOk s' /\ l_state s' = LNormal /\ l_buffer s' = m ++ [e; c] /\
                  l_tokens s' = l_tokens s
  else match dump_buffer s with
       | Some s1 => exists s', lex_all s [c] = LOk s' /\ l_state s' = LBuiltinOperator /\ l_buffer s' = [] /\
                               l_tokens s' = l_tokens s1 /\ l_prevrune s' = c /\ l_prebuiltin s' = e
       | None => exists s', lex_all s [c] = LErr s' /\ l_tokens s' = l_tokens s
       end.
Proof.
  intros t s m e c HL HS HB He Hc HE.
  pose proof (twoback_is_previous_rune_lemma t s c HL) as HT. rewrite HE in HT.
  assert (He' : (e =? 101) || (e =? 69) = true) by (destruct He as [-> | ->]; reflexivity).
  pose proof (sci_prefix_mantissa m e He) as HM. rewrite <- HB in HM.
  destruct (mantissa m) eqn:M.
  - exists (write_rune c (ring_push c s)). simpl.
    rewrite (step_exponent s c HS Hc) by (rewrite HT, He', HM; reflexivity).
    split; [reflexivity|]. ds s; simpl in *. subst st bf. rewrite <- app_assoc. repeat split; reflexivity.
  - assert (Hsci : ((twoback (ring_push c s) =? 101) || (twoback (ring_push c s) =? 69)) && sci_prefix_ok (l_buffer s) = false)
      by (rewrite HM; apply andb_false_r).
    simpl. rewrite (step_open_sign s c HS Hc Hsci).
    destruct (dump_buffer s) as [s1|] eqn:D.
    + destruct (dump_result _ _ D) as (B1 & _ & _ & R1).
      exists (open_op c (ring_push c s1)). split; [reflexivity|].
      assert (twoback (ring_push c s1) = e) as T1.
      { rewrite <- HT. apply twoback_ringof. apply ringof_push. exact R1. }
      unfold open_op. ds s1; simpl in *. subst. repeat split; try reflexivity. exact T1.
    + exists (ring_push c s). split; [reflexivity|]. ds s; reflexivity.
Qed.

(* the second half joined with the sign rule: after an atom ending in e / E that is not mantissa-e, a '-'
   glued to a digit is the operator minus (e / E is not in canStartSignedNumberAfter) *)
Lemma e_not_signed : can_start_signed_after 101 = false /\ can_start_signed_after 69 = false.
Proof. split; vm_compute; reflexivity. Qed.

Theorem exponent_rule_else_core : forall t s s1 m e d,
  lex_all init_lstate t = LOk s -> l_state s = LNormal -> l_buffer s = m ++ [e] ->
  e = 101 \/ e = 69 -> last t 0 = e -> mantissa m = false -> dump_buffer s = Some s1 -> 48 <= d <= 57 ->
  exists s', lex_all s [45; d] = LOk s' /\ l_state s' = LNormal /\ l_buffer s' = [d] /\
             l_tokens s' = l_tokens s1 ++ [mkTok TSymbol [45]].
Proof.
  intros t s s1 m e d HL HS HB He HE HM HD Hd.
  assert (Hsci : ((last t 0 =? 101) || (last t 0 =? 69)) && sci_prefix_ok (l_buffer s) = false).
  { rewrite HB, (sci_prefix_mantissa m e He), HM. apply andb_false_r. }
  destruct (sign_rule_lemma t s s1 d HL HS HD Hsci Hd) as (s' & L & S' & X).
  exists s'. split; [exact L|]. split; [exact S'|].
  rewrite HE in X. destruct e_not_signed as [N1 N2].
  destruct He as [-> | ->]; [rewrite N1 in X|rewrite N2 in X]; exact X.
Qed.

