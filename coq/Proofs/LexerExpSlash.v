(* C06, lexer half, round 7:
   (1) the EXPONENT rule of LexNextRune: a '+' / '-' directly after an atom that ends in e / E continues
       the atom exactly when the text buffered in front of the e / E is a mantissa (generated
       DecimalRegex / FloatRegex); after any other atom ending in e / E (an identifier, a hex literal)
       the sign opens the operator mode, i.e. it is handled by the sign rule of Proofs/LexerSign.v.
       For every text: the rune the rule looks back at is the last rune of the pending atom.
   (2) blanks around the operators that go through the other lexer modes - '/' and '/=' (first forward
       slash state), ':=' (fresh-assign-or-colon state) - do not change the tokens. *)
From Coq Require Import ZArith List Bool Lia.
From ZV Require Import Model.Regex Generated.LexTables Model.Lexer Model.LexerPrev Proofs.LexerProofs
  Proofs.SugarTokens Proofs.LexerRing Proofs.LexerSign Proofs.OpSpacing.
Import ListNotations.
Open Scope Z_scope.

(* ---- facts computed on the generated tables ---- *)
Definition mantissa (m : list Z) : bool := re_match re_DecimalRegex m || re_match re_FloatRegex m.

Lemma mantissa_nil : mantissa [] = false.
Proof. vm_compute; reflexivity. Qed.
Lemma slash_space_no_merge : re_match re_BuiltinOpRegex [47; 32] = false.
Proof. vm_compute; reflexivity. Qed.
Lemma slash_eq_merge : re_match re_BuiltinOpRegex [47; 61] = true.
Proof. vm_compute; reflexivity. Qed.
Lemma cls_47 : cls 47 = cls 32.
Proof. vm_compute; reflexivity. Qed.
Lemma cls_61 : cls 61 = cls 32.
Proof. vm_compute; reflexivity. Qed.

Lemma utf8_len_pos : forall r, 1 <= utf8_len r.
Proof. intros r. unfold utf8_len. destruct (r <? 128); [lia|]. destruct (r <? 2048); [lia|]. destruct (r <? 65536); lia. Qed.

Lemma byte_len_snoc : forall l e, byte_len (l ++ [e]) = byte_len l + utf8_len e.
Proof. induction l as [|x l IH]; intros e; simpl; [lia|]. rewrite IH. lia. Qed.

Lemma byte_len_nonneg : forall l, 0 <= byte_len l.
Proof. induction l as [|x l IH]; simpl; [lia|]. pose proof (utf8_len_pos x). lia. Qed.

(* the scientific-notation test of the sign case, on an atom m ++ [e]: the text in front of the e is
   a mantissa *)
Lemma sci_prefix_mantissa : forall m e, e = 101 \/ e = 69 -> sci_prefix_ok (m ++ [e]) = mantissa m.
Proof.
  intros m e He. unfold sci_prefix_ok, last_rune. rewrite last_last, removelast_last. fold (mantissa m).
  assert (e <? 128 = true) as -> by (destruct He as [-> | ->]; reflexivity).
  destruct m as [|x m].
  - rewrite mantissa_nil. rewrite !andb_false_r. reflexivity.
  - assert (1 <? byte_len ((x :: m) ++ [e]) = true) as ->.
    { apply Z.ltb_lt. rewrite byte_len_snoc. simpl.
      pose proof (utf8_len_pos x). pose proof (utf8_len_pos e). pose proof (byte_len_nonneg m). lia. }
    reflexivity.
Qed.

Local Opaque re_match decode_atom sci_prefix_ok slice_bound escape_char can_start_signed_after decode_brace.
Local Arguments Nat.modulo : simpl never.
Local Arguments nth : simpl never.
Local Arguments Nat.sub : simpl never.

(* ================= 1. the exponent rule ================= *)

(* the sign continues the atom *)
Lemma step_exponent : forall s c, l_state s = LNormal -> c = 43 \/ c = 45 ->
  ((twoback (ring_push c s) =? 101) || (twoback (ring_push c s) =? 69)) && sci_prefix_ok (l_buffer s) = true ->
  lex_rune s c = LOk (write_rune c (ring_push c s)).
Proof.
  intros s c H Hc Hsci. rewrite lex_rune_body. unfold lex_body.
  replace (l_state (ring_push c s)) with LNormal by (ds s; simpl in *; congruence).
  destruct Hc as [-> | ->].
  - set (X := ring_push 43 s) in *. unfold lex_normal; simpl. rewrite Hsci. reflexivity.
  - set (X := ring_push 45 s) in *. unfold lex_normal; simpl. rewrite Hsci. reflexivity.
Qed.

(* every reachable state: the operator mode and the unquote mode are entered with an empty buffer *)
Definition einv (s : lstate) : Prop :=
  (l_state s = LBuiltinOperator \/ l_state s = LUnquote) -> l_buffer s = [].

Ltac crunchL :=
  repeat (match goal with
          | |- context [if ?c then _ else _] => destruct c
          | |- context [match ?l with [] => _ | _ :: _ => _ end] => destruct l
          | |- context [match decode_atom ?x with _ => _ end] => destruct (decode_atom x)
          | |- context [match escape_char ?x with _ => _ end] => destruct (escape_char x)
          end; simpl).

Ltac fin_last :=
  first [ left; reflexivity | right; reflexivity | right; apply last_last
        | right; match goal with |- last (?z :: ?l ++ [?r]) _ = _ => apply (last_last (z :: l) r) end ].

Ltac fin_inv :=
  try exact I;
  split; [intros [X|X]; first [discriminate X | reflexivity] | intros X; first [discriminate X | fin_last]].

(* one step: the invariant is kept, and a normal-mode state has either nothing pending or an atom
   whose last rune is the rune just read *)
Lemma lex_rune_last : forall s r, einv s ->
  match lex_rune s r with
  | LOk s' => einv s' /\ (l_state s' = LNormal -> l_buffer s' = [] \/ last (l_buffer s') 0 = r)
  | LErr _ => True
  end.
Proof.
  intros s r HI. destruct s as [st pr tk bf pt ppt pb ln pi rg]. unfold einv in HI. simpl in HI.
  unfold lex_rune. simpl.
  destruct st; simpl;
    try (assert (bf = []) as -> by (apply HI; auto));
    unfold lex_normal, lex_firstslash, lex_freshassign, lex_builtin, lex_normal, with_dump, dump_buffer, dump_as,
      append_token, write_rune, write_runes, einv; simpl;
    crunchL; fin_inv.
Qed.

Lemma einv_init : einv init_lstate.
Proof. unfold einv; simpl. intros [H|H]; discriminate. Qed.

Lemma lex_all_einv : forall t s s', einv s -> lex_all s t = LOk s' -> einv s'.
Proof.
  induction t as [|r t IH]; intros s s' HI H; simpl in H; [inversion H; subst; exact HI|].
  pose proof (lex_rune_last s r HI) as G. destruct (lex_rune s r) as [a|a]; [|discriminate].
  eapply IH; [apply G|exact H].
Qed.

(* after ANY text: a pending atom in normal mode ends in the last rune of the text *)
Theorem buffer_ends_in_last_rune : forall t s, lex_all init_lstate t = LOk s -> l_state s = LNormal ->
  l_buffer s <> [] -> last (l_buffer s) 0 = last t 0.
Proof.
  intros t s H HS HB. destruct t as [|r t] using rev_ind; [inversion H; subst; contradiction HB; reflexivity|].
  clear IHt. rewrite last_last. rewrite lex_all_app in H.
  destruct (lex_all init_lstate t) as [s0|s0] eqn:E0; [|discriminate]. simpl in H.
  pose proof (lex_rune_last s0 r (lex_all_einv _ _ _ einv_init E0)) as G.
  destruct (lex_rune s0 r) as [a|a]; [|discriminate]. inversion H; subst a.
  destruct G as [_ G]. destruct (G HS) as [G1|G1]; [contradiction|exact G1].
Qed.

(* THE exponent rule.  After any text t that leaves the lexer in normal mode with a pending atom
   m ++ [e], e in {e, E}, a sign c in {+, -}:
   - mantissa m (generated DecimalRegex / FloatRegex): c is appended to the atom, no token is emitted;
   - otherwise (identifier "there", hex "0x1e", ...): the atom is decoded and queued and the lexer is in the
     operator mode with c pending and e recorded as the rune in front of it - the situation the sign
     rule decides; if the atom does not decode the lexer reports the error *)
Theorem exponent_rule_lemma : forall t s m e c,
  lex_all init_lstate t = LOk s -> l_state s = LNormal -> l_buffer s = m ++ [e] ->
  e = 101 \/ e = 69 -> c = 43 \/ c = 45 ->
  last t 0 = e /\
  if mantissa m
  then exists s', lex_all s [c] = LOk s' /\ l_state s' = LNormal /\ l_buffer s' = m ++ [e; c] /\
                  l_tokens s' = l_tokens s
  else match dump_buffer s with
       | Some s1 => exists s', lex_all s [c] = LOk s' /\ l_state s' = LBuiltinOperator /\ l_buffer s' = [] /\
                               l_tokens s' = l_tokens s1 /\ l_prevrune s' = c /\ l_prebuiltin s' = e
       | None => exists s', lex_all s [c] = LErr s' /\ l_tokens s' = l_tokens s
       end.
Proof.
  intros t s m e c HL HS HB He Hc.
  assert (HE : last t 0 = e).
  { rewrite <- (buffer_ends_in_last_rune t s HL HS); [rewrite HB; apply last_last|].
    rewrite HB. destruct m; discriminate. }
  split; [exact HE|].
  pose proof (twoback_is_previous_rune_lemma t s c HL) as HT. rewrite HE in HT.
  assert (He' : (e =? 101) || (e =? 69) = true) by (destruct He as [-> | ->]; reflexivity).
  pose proof (sci_prefix_mantissa m e He) as HM. rewrite <- HB in HM.
  destruct (mantissa m) eqn:M.
  - exists (write_rune c (ring_push c s)). simpl.
    rewrite (step_exponent s c HS Hc) by (rewrite HT, He', HM; reflexivity).
    split; [reflexivity|]. ds s; simpl in *. subst st bf. rewrite <- app_assoc. repeat split; reflexivity.
  - assert (Hsci : ((twoback (ring_push c s) =? 101) || (twoback (ring_push c s) =? 69)) && sci_prefix_ok (l_buffer s) = false)
      by (rewrite HM; apply andb_false_r).
    simpl. rewrite (step_open_sign s c HS Hc Hsci).
    destruct (dump_buffer s) as [s1|] eqn:D.
    + destruct (dump_result _ _ D) as (B1 & _ & _ & R1).
      exists (open_op c (ring_push c s1)). split; [reflexivity|].
      assert (twoback (ring_push c s1) = e) as T1.
      { rewrite <- HT. apply twoback_ringof. apply ringof_push. exact R1. }
      unfold open_op. ds s1; simpl in *. subst. repeat split; try reflexivity. exact T1.
    + exists (ring_push c s). split; [reflexivity|]. ds s; reflexivity.
Qed.

(* the second half joined with the sign rule: after an atom ending in e / E that is not mantissa-e, a '-'
   glued to a digit is the operator minus (e / E is not in canStartSignedNumberAfter) *)
Lemma e_not_signed : can_start_signed_after 101 = false /\ can_start_signed_after 69 = false.
Proof. split; vm_compute; reflexivity. Qed.

Theorem exponent_rule_else_operator : forall t s s1 m e d,
  lex_all init_lstate t = LOk s -> l_state s = LNormal -> l_buffer s = m ++ [e] ->
  e = 101 \/ e = 69 -> mantissa m = false -> dump_buffer s = Some s1 -> 48 <= d <= 57 ->
  exists s', lex_all s [45; d] = LOk s' /\ l_state s' = LNormal /\ l_buffer s' = [d] /\
             l_tokens s' = l_tokens s1 ++ [mkTok TSymbol [45]].
Proof.
  intros t s s1 m e d HL HS HB He HM HD Hd.
  destruct (exponent_rule_lemma t s m e 45 HL HS HB He (or_intror eq_refl)) as [HE _].
  assert (Hsci : ((last t 0 =? 101) || (last t 0 =? 69)) && sci_prefix_ok (l_buffer s) = false).
  { rewrite HB, (sci_prefix_mantissa m e He), HM. apply andb_false_r. }
  destruct (sign_rule_lemma t s s1 d HL HS HD Hsci Hd) as (s' & L & S' & X).
  exists s'. split; [exact L|]. split; [exact S'|].
  rewrite HE in X. destruct e_not_signed as [N1 N2].
  destruct He as [-> | ->]; [rewrite N1 in X|rewrite N2 in X]; exact X.
Qed.

(* ================= 2. spacing of / , /= and := ================= *)

(* --- the first-forward-slash mode --- *)
Definition slash_open (r : Z) (s : lstate) : lstate :=
  set_prevrune 47 (set_state LBuiltinOperator (ring_push r (set_state LFirstFwdSlash (ring_push 47 s)))).

Lemma step_slash : forall s, l_state s = LNormal ->
  lex_rune s 47 = LOk (set_state LFirstFwdSlash (ring_push 47 s)).
Proof.
  intros s H. rewrite lex_rune_body. unfold lex_body.
  replace (l_state (ring_push 47 s)) with LNormal by (ds s; simpl in *; congruence). reflexivity.
Qed.

Lemma dump_slash_open : forall r s,
  dump_buffer (slash_open r s) = match dump_buffer s with Some x => Some (slash_open r x) | None => None end.
Proof.
  intros r s; ds s. unfold dump_buffer, slash_open; simpl. destruct bf; [reflexivity|].
  destruct (decode_atom _); reflexivity.
Qed.

Lemma step_slash2 : forall s r, (r =? 47) = false -> (r =? 42) = false ->
  lex_rune (set_state LFirstFwdSlash (ring_push 47 s)) r =
    match dump_buffer s with Some x => lex_builtin (slash_open r x) r | None => LErr (slash_open r s) end.
Proof.
  intros s r H1 H2. rewrite lex_rune_body. unfold lex_body.
  replace (l_state (ring_push r (set_state LFirstFwdSlash (ring_push 47 s)))) with LFirstFwdSlash by (ds s; reflexivity).
  unfold lex_firstslash. rewrite H1, H2. unfold with_dump.
  change (set_prevrune 47 (set_state LBuiltinOperator (ring_push r (set_state LFirstFwdSlash (ring_push 47 s)))))
    with (slash_open r s).
  rewrite dump_slash_open. destruct (dump_buffer s); reflexivity.
Qed.

Lemma builtin_slash_plain : forall x r, re_match re_BuiltinOpRegex [47; r] = false ->
  lex_builtin (slash_open r x) r = lex_normal (append_token (mkTok TSymbol [47]) (set_state LNormal (slash_open r x))) r.
Proof.
  intros x r H. unfold lex_builtin.
  replace (l_prevrune (set_state LNormal (slash_open r x))) with 47 by (ds x; reflexivity).
  change (47 =? 45) with false. cbn [andb]. rewrite H. reflexivity.
Qed.

Lemma builtin_slash_eq : forall x,
  lex_builtin (slash_open 61 x) 61 = LOk (append_token (mkTok TSymbol [47; 61]) (set_state LNormal (slash_open 61 x))).
Proof.
  intros x. unfold lex_builtin.
  replace (l_prevrune (set_state LNormal (slash_open 61 x))) with 47 by (ds x; reflexivity).
  change (47 =? 45) with false. cbn [andb]. rewrite slash_eq_merge. reflexivity.
Qed.

Lemma twoback_3 : forall x a b c, ring_wf x ->
  twoback (ring_push c (ring_push b (ring_push a x))) = b.
Proof. intros x a b c W. apply twoback_push_push. apply ring_push_wf. exact W. Qed.

(* '/' followed by a rune r that neither opens a comment nor completes '/=' *)
Lemma junction_slash : forall s r,
  l_state s = LNormal -> ring_wf s -> (r =? 47) = false -> (r =? 42) = false ->
  re_match re_BuiltinOpRegex [47; r] = false ->
  Junction (lex_all s ([47] ++ [r])) (lex_all s ([32; 47; 32] ++ [r])).
Proof.
  intros s r Hst W H47 H42 Hnm.
  simpl app. simpl lex_all.
  rewrite (step_slash s Hst), (step_slash2 s r H47 H42), (step_space s Hst).
  destruct (dump_buffer s) as [x|] eqn:D; [|simpl; ds s; reflexivity].
  destruct (dump_result _ _ D) as (Bx & Sx & Px & Rx).
  assert (ring_wf x) as Wx by (eapply ring_wf_ringof; [symmetry; exact Rx|exact W]).
  assert (l_state x = LNormal) as Stx by congruence.
  rewrite (builtin_slash_plain x r Hnm).
  (* spaced *)
  set (x1 := ring_push 32 x).
  assert (l_state x1 = LNormal) as S1 by (unfold x1; ds x; exact Stx).
  assert (l_buffer x1 = []) as B1 by (unfold x1; ds x; exact Bx).
  rewrite (step_slash x1 S1), (step_slash2 x1 32 eq_refl eq_refl), (dump_empty x1 B1).
  rewrite (builtin_slash_plain x1 32 slash_space_no_merge).
  set (u3 := append_token (mkTok TSymbol [47]) (set_state LNormal (slash_open 32 x1))).
  assert (lex_normal u3 32 = LOk u3) as E3.
  { unfold lex_normal; simpl. unfold with_dump. rewrite dump_empty; [reflexivity|unfold u3, x1; ds x; exact Bx]. }
  rewrite E3. clear E3.
  rewrite (step_normal u3 r) by (unfold u3; ds x; reflexivity).
  match goal with |- Junction ?a (match ?b with _ => _ end) => assert (Rres a b) as HR end.
  { apply lex_normal_R.
    - ds x; reflexivity.
    - unfold u3, x1, R; ds x; simpl in *; subst. repeat split; intros; discriminate.
    - unfold T.
      assert (twoback (append_token (mkTok TSymbol [47]) (set_state LNormal (slash_open r x))) = 47) as ->.
      { transitivity (twoback (ring_push r (ring_push 47 x))); [ds x; reflexivity|apply twoback_push_push; exact Wx]. }
      assert (twoback (ring_push r u3) = 32) as ->.
      { transitivity (twoback (ring_push r (ring_push 32 (ring_push 47 (ring_push 32 x))))); [unfold u3, x1; ds x; reflexivity|].
        apply twoback_push_push. repeat apply ring_push_wf. exact Wx. }
      exact cls_47. }
  destruct (lex_normal _ r) as [u|u]; destruct (lex_normal _ r) as [u'|u']; simpl in *; try contradiction; [exact HR|apply HR].
Qed.

Theorem op_spacing_slash : forall a b s,
  lex_all init_lstate a = LOk s -> l_state s = LNormal ->
  hd 10 (b ++ [10]) <> 47 -> hd 10 (b ++ [10]) <> 42 ->
  re_match re_BuiltinOpRegex [47; hd 10 (b ++ [10])] = false ->
  lex_text (a ++ [47] ++ b ++ [10]) = lex_text (a ++ [32; 47; 32] ++ b ++ [10]).
Proof.
  intros a b s Ha Hst H47 H42 Hnm.
  destruct (b ++ [10]) as [|r rest] eqn:Eb; [destruct b; discriminate|]. simpl in H47, H42, Hnm.
  pose proof (lex_all_ring_wf a init_lstate ring_wf_init) as W. rewrite Ha in W. simpl in W.
  change (a ++ [47] ++ r :: rest) with (a ++ ([47] ++ [r]) ++ rest).
  change (a ++ [32; 47; 32] ++ r :: rest) with (a ++ ([32; 47; 32] ++ [r]) ++ rest).
  eapply frame; [exact Ha|]. apply junction_slash; try assumption; apply Z.eqb_neq; assumption.
Qed.

(* '/=' : no condition on what follows *)
Lemma junction_slash_eq : forall s r,
  l_state s = LNormal -> ring_wf s ->
  Junction (lex_all s ([47; 61] ++ [r])) (lex_all s ([32; 47; 61; 32] ++ [r])).
Proof.
  intros s r Hst W.
  simpl app. simpl lex_all.
  rewrite (step_slash s Hst), (step_slash2 s 61 eq_refl eq_refl), (step_space s Hst).
  destruct (dump_buffer s) as [x|] eqn:D; [|simpl; ds s; reflexivity].
  destruct (dump_result _ _ D) as (Bx & Sx & Px & Rx).
  assert (ring_wf x) as Wx by (eapply ring_wf_ringof; [symmetry; exact Rx|exact W]).
  assert (l_state x = LNormal) as Stx by congruence.
  rewrite (builtin_slash_eq x).
  set (W1 := append_token (mkTok TSymbol [47; 61]) (set_state LNormal (slash_open 61 x))).
  rewrite (step_normal W1 r) by (unfold W1; ds x; reflexivity).
  set (x1 := ring_push 32 x).
  assert (l_state x1 = LNormal) as S1 by (unfold x1; ds x; exact Stx).
  assert (l_buffer x1 = []) as B1 by (unfold x1; ds x; exact Bx).
  rewrite (step_slash x1 S1), (step_slash2 x1 61 eq_refl eq_refl), (dump_empty x1 B1).
  rewrite (builtin_slash_eq x1).
  set (W1' := append_token (mkTok TSymbol [47; 61]) (set_state LNormal (slash_open 61 x1))).
  assert (lex_rune W1' 32 = LOk (ring_push 32 W1')) as E3.
  { rewrite (step_space W1') by (unfold W1'; ds x; reflexivity).
    rewrite dump_empty; [reflexivity|unfold W1', x1; ds x; exact Bx]. }
  rewrite E3. clear E3.
  rewrite (step_normal (ring_push 32 W1') r) by (unfold W1'; ds x; reflexivity).
  match goal with |- Junction (match ?a with _ => _ end) (match ?b with _ => _ end) => assert (Rres a b) as HR end.
  { apply lex_normal_R.
    - unfold W1; ds x; reflexivity.
    - unfold W1, W1', x1, R; ds x; simpl in *; subst. repeat split; intros; discriminate.
    - unfold T.
      assert (twoback (ring_push r W1) = 61) as ->.
      { transitivity (twoback (ring_push r (ring_push 61 (ring_push 47 x)))); [unfold W1; ds x; reflexivity|].
        apply twoback_push_push. apply ring_push_wf. exact Wx. }
      assert (twoback (ring_push r (ring_push 32 W1')) = 32) as ->.
      { transitivity (twoback (ring_push r (ring_push 32 (ring_push 61 (ring_push 47 (ring_push 32 x))))));
          [unfold W1', x1; ds x; reflexivity|].
        apply twoback_push_push. repeat apply ring_push_wf. exact Wx. }
      exact cls_61. }
  destruct (lex_normal _ r) as [u|u]; destruct (lex_normal _ r) as [u'|u']; simpl in *; try contradiction; [exact HR|apply HR].
Qed.

Theorem op_spacing_slash_eq : forall a b s,
  lex_all init_lstate a = LOk s -> l_state s = LNormal ->
  lex_text (a ++ [47; 61] ++ b ++ [10]) = lex_text (a ++ [32; 47; 61; 32] ++ b ++ [10]).
Proof.
  intros a b s Ha Hst.
  destruct (b ++ [10]) as [|r rest] eqn:Eb; [destruct b; discriminate|].
  pose proof (lex_all_ring_wf a init_lstate ring_wf_init) as W. rewrite Ha in W. simpl in W.
  change (a ++ [47; 61] ++ r :: rest) with (a ++ ([47; 61] ++ [r]) ++ rest).
  change (a ++ [32; 47; 61; 32] ++ r :: rest) with (a ++ ([32; 47; 61; 32] ++ [r]) ++ rest).
  eapply frame; [exact Ha|]. apply junction_slash_eq; assumption.
Qed.

(* --- the fresh-assign-or-colon mode --- *)
Definition colon_eq (s : lstate) : lstate :=
  set_state LNormal (ring_push 61 (set_state LFreshAssignOrColon (ring_push 58 s))).

Lemma step_colon : forall s, l_state s = LNormal ->
  lex_rune s 58 = LOk (set_state LFreshAssignOrColon (ring_push 58 s)).
Proof.
  intros s H. rewrite lex_rune_body. unfold lex_body.
  replace (l_state (ring_push 58 s)) with LNormal by (ds s; simpl in *; congruence). reflexivity.
Qed.

Lemma dump_colon_eq : forall s,
  dump_buffer (colon_eq s) = match dump_buffer s with Some x => Some (colon_eq x) | None => None end.
Proof.
  intros s; ds s. unfold dump_buffer, colon_eq; simpl. destruct bf; [reflexivity|].
  destruct (decode_atom _); reflexivity.
Qed.

Lemma step_colon_eq : forall s,
  lex_rune (set_state LFreshAssignOrColon (ring_push 58 s)) 61 =
    match dump_buffer s with
    | Some x => LOk (append_token (mkTok TFreshAssign [58; 61]) (colon_eq x))
    | None => LErr (colon_eq s)
    end.
Proof.
  intros s. rewrite lex_rune_body. unfold lex_body.
  replace (l_state (ring_push 61 (set_state LFreshAssignOrColon (ring_push 58 s)))) with LFreshAssignOrColon by (ds s; reflexivity).
  unfold lex_freshassign. change (61 =? 61) with true. cbv iota. unfold with_dump.
  change (set_state LNormal (ring_push 61 (set_state LFreshAssignOrColon (ring_push 58 s)))) with (colon_eq s).
  rewrite dump_colon_eq. destruct (dump_buffer s); reflexivity.
Qed.

Lemma junction_fresh_assign : forall s r,
  l_state s = LNormal -> ring_wf s ->
  Junction (lex_all s ([58; 61] ++ [r])) (lex_all s ([32; 58; 61; 32] ++ [r])).
Proof.
  intros s r Hst W.
  simpl app. simpl lex_all.
  rewrite (step_colon s Hst), (step_colon_eq s), (step_space s Hst).
  destruct (dump_buffer s) as [x|] eqn:D; [|simpl; ds s; reflexivity].
  destruct (dump_result _ _ D) as (Bx & Sx & Px & Rx).
  assert (ring_wf x) as Wx by (eapply ring_wf_ringof; [symmetry; exact Rx|exact W]).
  assert (l_state x = LNormal) as Stx by congruence.
  set (W1 := append_token (mkTok TFreshAssign [58; 61]) (colon_eq x)).
  rewrite (step_normal W1 r) by (unfold W1; ds x; reflexivity).
  set (x1 := ring_push 32 x).
  assert (l_state x1 = LNormal) as S1 by (unfold x1; ds x; exact Stx).
  assert (l_buffer x1 = []) as B1 by (unfold x1; ds x; exact Bx).
  rewrite (step_colon x1 S1), (step_colon_eq x1), (dump_empty x1 B1).
  set (W1' := append_token (mkTok TFreshAssign [58; 61]) (colon_eq x1)).
  assert (lex_rune W1' 32 = LOk (ring_push 32 W1')) as E3.
  { rewrite (step_space W1') by (unfold W1'; ds x; reflexivity).
    rewrite dump_empty; [reflexivity|unfold W1', x1; ds x; exact Bx]. }
  rewrite E3. clear E3.
  rewrite (step_normal (ring_push 32 W1') r) by (unfold W1'; ds x; reflexivity).
  match goal with |- Junction (match ?a with _ => _ end) (match ?b with _ => _ end) => assert (Rres a b) as HR end.
  { apply lex_normal_R.
    - unfold W1; ds x; reflexivity.
    - unfold W1, W1', x1, R; ds x; simpl in *; subst. repeat split; intros; discriminate.
    - unfold T.
      assert (twoback (ring_push r W1) = 61) as ->.
      { transitivity (twoback (ring_push r (ring_push 61 (ring_push 58 x)))); [unfold W1; ds x; reflexivity|].
        apply twoback_push_push. apply ring_push_wf. exact Wx. }
      assert (twoback (ring_push r (ring_push 32 W1')) = 32) as ->.
      { transitivity (twoback (ring_push r (ring_push 32 (ring_push 61 (ring_push 58 (ring_push 32 x))))));
          [unfold W1', x1; ds x; reflexivity|].
        apply twoback_push_push. repeat apply ring_push_wf. exact Wx. }
      exact cls_61. }
  destruct (lex_normal _ r) as [u|u]; destruct (lex_normal _ r) as [u'|u']; simpl in *; try contradiction; [exact HR|apply HR].
Qed.

Theorem op_spacing_fresh_assign : forall a b s,
  lex_all init_lstate a = LOk s -> l_state s = LNormal ->
  lex_text (a ++ [58; 61] ++ b ++ [10]) = lex_text (a ++ [32; 58; 61; 32] ++ b ++ [10]).
Proof.
  intros a b s Ha Hst.
  destruct (b ++ [10]) as [|r rest] eqn:Eb; [destruct b; discriminate|].
  pose proof (lex_all_ring_wf a init_lstate ring_wf_init) as W. rewrite Ha in W. simpl in W.
  change (a ++ [58; 61] ++ r :: rest) with (a ++ ([58; 61] ++ [r]) ++ rest).
  change (a ++ [32; 58; 61; 32] ++ r :: rest) with (a ++ ([32; 58; 61; 32] ++ [r]) ++ rest).
  eapply frame; [exact Ha|]. apply junction_fresh_assign; assumption.
Qed.
