(* C06, lexer half, round 7: the exponent rule for every text (Proofs/LexerExpSlash.v with the premise on
   the look-back rune discharged by Proofs/LexerBufLast.v). *)
From Coq Require Import ZArith List Bool Lia.
From ZV Require Import Model.Regex Generated.LexTables Model.Lexer Model.LexerPrev Proofs.LexerProofs
  Proofs.SugarTokens Proofs.LexerRing Proofs.LexerSign Proofs.OpSpacing Proofs.LexerExpSlash Proofs.LexerBufLast.
Import ListNotations.
Open Scope Z_scope.


Theorem exponent_rule_lemma : forall t s m e c,
  lex_all init_lstate t = LOk s -> l_state s = LNormal -> l_buffer s = m ++ [e] ->
  e = 101 \/ e = 69 -> c = 43 \/ c = 45 ->
  last t 0 = e /\
  if mantissa m
  then exists s', lex_all s [c] = LOk s' /\ l_state s' = LNormal /\ l_buffer s' = m ++ [e; c] /\
                  l_tokens s' = l_tokens s
  else match dump_buffer s with
       | Some s1 => exists s', lex_all s [c] = LOk s' /\ l_state s' = LBuiltinOperator /\ l_buffer s' = [] /\
                               l_tokens s' = l_tokens s1 /\ l_prevrune s' = c /\ l_prebuiltin s' = e
       | None => exists s', lex_all s [c] = LErr s' /\ l_tokens s' = l_tokens s
       end.
Proof.
  intros t s m e c HL HS HB He Hc.
  assert (HE : last t 0 = e).
  { rewrite <- (buffer_ends_in_last_rune t s HL HS); [rewrite HB; apply last_last|].
    rewrite HB. destruct m; discriminate. }
  split; [exact HE|]. exact (exponent_rule_core t s m e c HL HS HB He Hc HE).
Qed.

Theorem exponent_rule_else_operator : forall t s s1 m e d,
  lex_all init_lstate t = LOk s -> l_state s = LNormal -> l_buffer s = m ++ [e] ->
  e = 101 \/ e = 69 -> mantissa m = false -> dump_buffer s = Some s1 -> 48 <= d <= 57 ->
  exists s', lex_all s [45; d] = LOk s' /\ l_state s' = LNormal /\ l_buffer s' = [d] /\
             l_tokens s' = l_tokens s1 ++ [mkTok TSymbol [45]].
Proof.
  intros t s s1 m e d HL HS HB He HM HD Hd.
  destruct (exponent_rule_lemma t s m e 45 HL HS HB He (or_intror eq_refl)) as [HE _].
  exact (exponent_rule_else_core t s s1 m e d HL HS HB He HE HM HD Hd).
Qed.
