(* Lemmas about Model/Lexer.v: the lexer is a fold; Reset restores the initial state; the
   token queue is write-only (lexing never looks at it). *)
From Coq Require Import ZArith List Bool Lia.
From ZV Require Import Model.Regex Generated.LexTables Model.Lexer.
Import ListNotations.
Open Scope Z_scope.

(* ---- the lexer is a fold: nothing is flushed or lost at a chunk boundary ---- *)
Lemma lex_all_app : forall a b s,
  lex_all s (a ++ b) = match lex_all s a with LOk s' => lex_all s' b | LErr s' => LErr s' end.
Proof.
  induction a as [|r a IH]; intros b s; simpl.
  - reflexivity.
  - destruct (lex_rune s r) as [s'|s']; [apply IH|reflexivity].
Qed.

(* ---- Lexer.Reset restores every field ---- *)
Lemma reset_is_init : forall s, reset s = init_lstate.
Proof. intros s; destruct s; reflexivity. Qed.

(* ---- the queue is write-only ---- *)
(* [pre_q pre s]: the same lexer with pre queued in front *)
Definition pre_q (pre : list token) (s : lstate) : lstate := set_tokens (pre ++ l_tokens s) s.

Definition lres_map (f : lstate -> lstate) (x : lres) : lres :=
  match x with LOk s => LOk (f s) | LErr s => LErr (f s) end.

Ltac ds s := destruct s as [st pr tk bf pt ppt pb ln pi rg].

Lemma append_token_pre : forall pre t s, append_token t (pre_q pre s) = pre_q pre (append_token t s).
Proof. intros pre t s; ds s; unfold append_token, pre_q; simpl. rewrite app_assoc; reflexivity. Qed.

Lemma dump_buffer_pre : forall pre s,
  dump_buffer (pre_q pre s) = match dump_buffer s with Some s' => Some (pre_q pre s') | None => None end.
Proof.
  intros pre s; ds s; unfold dump_buffer, pre_q; simpl.
  destruct bf as [|b bf']; [reflexivity|].
  destruct (decode_atom (b :: bf')); [|reflexivity].
  unfold append_token; simpl; rewrite app_assoc; reflexivity.
Qed.

Lemma with_dump_pre : forall pre s k k',
  (forall s1, k' (pre_q pre s1) = lres_map (pre_q pre) (k s1)) ->
  with_dump (pre_q pre s) k' = lres_map (pre_q pre) (with_dump s k).
Proof.
  intros pre s k k' H; unfold with_dump; rewrite dump_buffer_pre.
  destruct (dump_buffer s); [apply H|reflexivity].
Qed.

Lemma dump_as_pre : forall pre kd s, dump_as kd (pre_q pre s) = pre_q pre (dump_as kd s).
Proof. intros pre kd s; ds s; unfold dump_as, append_token, pre_q; simpl; rewrite app_assoc; reflexivity. Qed.

Local Opaque decode_atom re_match slice_bound escape_char sci_prefix_ok can_start_signed_after decode_brace.

Ltac crunch :=
  repeat (match goal with
          | |- context [if ?c then _ else _] => destruct c
          | |- context [match ?l with [] => _ | _ :: _ => _ end] => destruct l
          | |- context [match decode_atom ?x with _ => _ end] => destruct (decode_atom x)
          | |- context [match escape_char ?x with _ => _ end] => destruct (escape_char x)
          end; simpl); try reflexivity; try (rewrite app_assoc; reflexivity);
  try (cbv [set_prevtok set_prevprevtok set_tokens set_buffer set_state set_prevrune set_prebuiltin set_linenum set_priori set_ring
            l_state l_prevrune l_tokens l_buffer l_prevtok l_prevprevtok l_prebuiltin l_linenum l_priori l_ring];
       rewrite <- ?app_assoc; reflexivity).

Lemma lex_normal_pre : forall pre s r,
  lex_normal (pre_q pre s) r = lres_map (pre_q pre) (lex_normal s r).
Proof.
  intros pre s r; ds s. unfold lex_normal, with_dump, dump_buffer, pre_q, append_token, write_rune, twoback; simpl.
  crunch.
Qed.

Lemma lex_builtin_pre : forall pre s r,
  lex_builtin (pre_q pre s) r = lres_map (pre_q pre) (lex_builtin s r).
Proof.
  intros pre s r. unfold lex_builtin.
  replace (set_state LNormal (pre_q pre s)) with (pre_q pre (set_state LNormal s)) by (ds s; reflexivity).
  set (s1 := set_state LNormal s).
  replace (l_prevrune (pre_q pre s1)) with (l_prevrune s1) by (ds s; reflexivity).
  replace (l_prebuiltin (pre_q pre s1)) with (l_prebuiltin s1) by (ds s; reflexivity).
  destruct ((l_prevrune s1 =? 45) && can_start_signed_after (l_prebuiltin s1) &&
            (re_match re_FloatRegex [l_prevrune s1; r] || re_match re_DecimalRegex [l_prevrune s1; r])).
  - ds s; reflexivity.
  - destruct (re_match re_BuiltinOpRegex [l_prevrune s1; r]).
    + rewrite append_token_pre; reflexivity.
    + rewrite append_token_pre. apply lex_normal_pre.
Qed.

Lemma lex_firstslash_pre : forall pre s r,
  lex_firstslash (pre_q pre s) r = lres_map (pre_q pre) (lex_firstslash s r).
Proof.
  intros pre s r. unfold lex_firstslash.
  destruct (r =? 47).
  - apply with_dump_pre. intros s1; ds s1; reflexivity.
  - destruct (r =? 42).
    + apply with_dump_pre. intros s1.
      replace (set_state LCommentBlock (write_runes [47; 42] (pre_q pre s1)))
        with (pre_q pre (set_state LCommentBlock (write_runes [47; 42] s1))) by (ds s1; reflexivity).
      rewrite append_token_pre; reflexivity.
    + replace (set_prevrune 47 (set_state LBuiltinOperator (pre_q pre s)))
        with (pre_q pre (set_prevrune 47 (set_state LBuiltinOperator s))) by (ds s; reflexivity).
      apply with_dump_pre. intros s1; apply lex_builtin_pre.
Qed.

Lemma lex_freshassign_pre : forall pre s r,
  lex_freshassign (pre_q pre s) r = lres_map (pre_q pre) (lex_freshassign s r).
Proof.
  intros pre s r. unfold lex_freshassign.
  replace (set_state LNormal (pre_q pre s)) with (pre_q pre (set_state LNormal s)) by (ds s; reflexivity).
  set (s1 := set_state LNormal s).
  replace (l_buffer (pre_q pre s1)) with (l_buffer s1) by (ds s; reflexivity).
  destruct (r =? 61).
  - apply with_dump_pre. intros s2; rewrite append_token_pre; reflexivity.
  - destruct (slice_bound (l_buffer s1)).
    + apply with_dump_pre. intros s2; rewrite append_token_pre; apply lex_normal_pre.
    + replace (write_rune 58 (pre_q pre s1)) with (pre_q pre (write_rune 58 s1)) by (ds s; reflexivity).
      apply with_dump_pre. intros s2; apply lex_normal_pre.
Qed.

Lemma ring_push_pre : forall pre s r, ring_push r (pre_q pre s) = pre_q pre (ring_push r s).
Proof. intros pre s r; ds s; reflexivity. Qed.

Lemma lex_rune_pre : forall pre s r,
  lex_rune (pre_q pre s) r = lres_map (pre_q pre) (lex_rune s r).
Proof.
  intros pre s r. unfold lex_rune. rewrite ring_push_pre.
  set (s1 := ring_push r s).
  replace (l_state (pre_q pre s1)) with (l_state s1) by (ds s; reflexivity).
  destruct (l_state s1).
  - apply lex_normal_pre.
  - destruct (r =? 10); [rewrite dump_as_pre|]; destruct s1; reflexivity.
  - destruct (r =? 92); [destruct s1; reflexivity|].
    destruct (r =? 34); [rewrite dump_as_pre|]; destruct s1; reflexivity.
  - destruct (escape_char r); destruct s1; reflexivity.
  - destruct (r =? 64).
    + rewrite append_token_pre; destruct s1; reflexivity.
    + rewrite append_token_pre.
      replace (set_state LNormal (pre_q pre (append_token (mkTok TTilde []) s1)))
        with (pre_q pre (set_state LNormal (append_token (mkTok TTilde []) s1))) by (destruct s1; reflexivity).
      apply lex_normal_pre.
  - destruct (r =? 96); [rewrite dump_as_pre|]; destruct s1; reflexivity.
  - apply lex_freshassign_pre.
  - apply lex_firstslash_pre.
  - destruct (r =? 10).
    + replace (write_rune 10 (pre_q pre s1)) with (pre_q pre (write_rune 10 s1)) by (destruct s1; reflexivity).
      rewrite dump_as_pre; reflexivity.
    + destruct (r =? 42); destruct s1; reflexivity.
  - destruct (r =? 47).
    + replace (write_runes [42; 47] (pre_q pre s1)) with (pre_q pre (write_runes [42; 47] s1)) by (destruct s1; reflexivity).
      rewrite dump_as_pre, append_token_pre. destruct s1; reflexivity.
    + destruct (r =? 42); destruct s1; reflexivity.
  - apply lex_builtin_pre.
  - destruct (r =? 92); [destruct s1; reflexivity|].
    destruct (r =? 39).
    + replace (write_rune r (pre_q pre s1)) with (pre_q pre (write_rune r s1)) by (destruct s1; reflexivity).
      rewrite dump_buffer_pre. destruct (dump_buffer (write_rune r s1)) as [s2|]; [destruct s2|destruct s1]; reflexivity.
    + destruct s1; reflexivity.
  - destruct (escape_char r); destruct s1; reflexivity.
Qed.

Lemma pre_q_pre_q : forall a b s, pre_q a (pre_q b s) = pre_q (a ++ b) s.
Proof. intros a b s; ds s; unfold pre_q; simpl; rewrite app_assoc; reflexivity. Qed.

Lemma lex_all_pre : forall text pre s,
  lex_all (pre_q pre s) text = lres_map (pre_q pre) (lex_all s text).
Proof.
  induction text as [|r t IH]; intros pre s; simpl; [reflexivity|].
  rewrite lex_rune_pre. destruct (lex_rune s r) as [s'|s']; simpl; [apply IH|reflexivity].
Qed.

(* with an empty queue in front: tokens lexed from s = queue of s ++ tokens lexed from s with
   its queue emptied *)
Lemma pre_q_empty : forall s, pre_q (l_tokens s) (set_tokens [] s) = s.
Proof. intros s; ds s; unfold pre_q; simpl; rewrite app_nil_r; reflexivity. Qed.

Lemma lex_all_emptied : forall s text,
  lex_all s text = lres_map (pre_q (l_tokens s)) (lex_all (set_tokens [] s) text).
Proof. intros s text. rewrite <- lex_all_pre, pre_q_empty; reflexivity. Qed.

(* ---- the last token: after the final newline of a complete text no atom is pending ---- *)

(* invariant of every reachable lexer state: the one-rune operator mode is entered with an empty buffer *)
Definition binv (s : lstate) : Prop := l_state s = LBuiltinOperator -> l_buffer s = [].

Lemma dump_buffer_empty : forall s s', dump_buffer s = Some s' -> l_buffer s' = [] /\ l_state s' = l_state s.
Proof.
  intros s s' H; ds s; unfold dump_buffer in H; simpl in H.
  destruct bf as [|x bf']; [inversion H; subst; split; reflexivity|].
  destruct (decode_atom (x :: bf')); inversion H; subst; split; reflexivity.
Qed.

Ltac crunch2 :=
  repeat (match goal with
          | |- context [if ?c then _ else _] => destruct c
          | |- context [match ?l with [] => _ | _ :: _ => _ end] => destruct l
          | |- context [match decode_atom ?x with _ => _ end] => destruct (decode_atom x)
          | |- context [match escape_char ?x with _ => _ end] => destruct (escape_char x)
          end; simpl).

Lemma lex_normal_binv : forall s r s', l_state s = LNormal -> lex_normal s r = LOk s' -> binv s'.
Proof.
  intros s r s' Hst; ds s; simpl in Hst; subst st. unfold lex_normal, with_dump, dump_buffer, append_token, write_rune, twoback; simpl.
  crunch2; intros H; inversion H; subst; clear H; unfold binv; simpl; intros; try discriminate; reflexivity.
Qed.

Lemma lex_builtin_binv : forall s r s', l_buffer s = [] -> lex_builtin s r = LOk s' -> binv s'.
Proof.
  intros s r s' Hb. unfold lex_builtin.
  destruct ((l_prevrune (set_state LNormal s) =? 45) && _ && _).
  - intros H; inversion H; subst; unfold binv; ds s; simpl; discriminate.
  - destruct (re_match re_BuiltinOpRegex _).
    + intros H; inversion H; subst; unfold binv; ds s; simpl; discriminate.
    + apply lex_normal_binv. ds s; reflexivity.
Qed.

Lemma lex_rune_binv : forall s r s', binv s -> lex_rune s r = LOk s' -> binv s'.
Proof.
  intros s r s' Hinv. unfold lex_rune.
  assert (binv (ring_push r s)) as Hinv1 by (ds s; exact Hinv).
  set (s1 := ring_push r s) in *. clearbody s1.
  destruct (l_state s1) eqn:Est.
  - apply lex_normal_binv; exact Est.
  - destruct (r =? 10); intros H; inversion H; subst; unfold binv; destruct s1; simpl in *; intros; discriminate || congruence.
  - destruct (r =? 92); [|destruct (r =? 34)]; intros H; inversion H; subst; unfold binv; destruct s1; simpl in *; intros; discriminate || congruence.
  - destruct (escape_char r); intros H; inversion H; subst; unfold binv; destruct s1; simpl in *; intros; discriminate.
  - destruct (r =? 64); [intros H; inversion H; subst; unfold binv; destruct s1; simpl; discriminate|apply lex_normal_binv; destruct s1; reflexivity].
  - destruct (r =? 96); intros H; inversion H; subst; unfold binv; destruct s1; simpl in *; intros; discriminate || congruence.
  - unfold lex_freshassign, with_dump.
    destruct (r =? 61).
    + destruct (dump_buffer _) as [s2|] eqn:D; [|discriminate]. apply dump_buffer_empty in D.
      intros H; inversion H; subst; unfold binv; destruct s2; simpl in *. destruct D as [_ D]. destruct s1; simpl in *. intros; congruence.
    + destruct (slice_bound _); (destruct (dump_buffer _) as [s2|] eqn:D; [|discriminate]);
        apply dump_buffer_empty in D; destruct D as [_ D]; apply lex_normal_binv.
      * destruct s2; destruct s1; simpl in *; exact D.
      * destruct s2; destruct s1; simpl in *; exact D.
  - unfold lex_firstslash, with_dump.
    destruct (r =? 47); [|destruct (r =? 42)];
      (destruct (dump_buffer _) as [s2|] eqn:D; [|discriminate]); apply dump_buffer_empty in D; destruct D as [D1 D2].
    + intros H; inversion H; subst; unfold binv; destruct s2; simpl in *; intros; discriminate.
    + intros H; inversion H; subst; unfold binv; destruct s2; simpl in *; intros; discriminate.
    + apply lex_builtin_binv; exact D1.
  - destruct (r =? 10); [|destruct (r =? 42)]; intros H; inversion H; subst; unfold binv; destruct s1; simpl in *; intros; discriminate || congruence.
  - destruct (r =? 47); [|destruct (r =? 42)]; intros H; inversion H; subst; unfold binv; destruct s1; simpl in *; intros; discriminate || congruence.
  - apply lex_builtin_binv. apply Hinv1; exact Est.
  - destruct (r =? 92); [|destruct (r =? 39)].
    + intros H; inversion H; subst; unfold binv; destruct s1; simpl in *; intros; discriminate.
    + destruct (dump_buffer _) as [s2|] eqn:D; intros H; inversion H; subst; unfold binv.
      * apply dump_buffer_empty in D. destruct s2; simpl in *; intros; discriminate.
      * destruct s1; simpl in *; intros; discriminate.
    + intros H; inversion H; subst; unfold binv; destruct s1; simpl in *; intros; congruence.
  - destruct (escape_char r); intros H; inversion H; subst; unfold binv; destruct s1; simpl in *; intros; discriminate.
Qed.

Lemma lex_all_binv : forall text s s', binv s -> lex_all s text = LOk s' -> binv s'.
Proof.
  induction text as [|r t IH]; intros s s' Hinv H; simpl in H.
  - inversion H; subst; exact Hinv.
  - destruct (lex_rune s r) as [s1|s1] eqn:E; [|discriminate].
    eapply IH; [eapply lex_rune_binv; eauto|exact H].
Qed.

Lemma init_binv : binv init_lstate.
Proof. unfold binv; simpl; discriminate. Qed.

Local Transparent escape_char re_match.
Lemma esc_nl : escape_char 10 = None. Proof. vm_compute; reflexivity. Qed.
Lemma neg_nl_float : re_match re_FloatRegex [45; 10] = false. Proof. vm_compute; reflexivity. Qed.
Lemma neg_nl_dec : re_match re_DecimalRegex [45; 10] = false. Proof. vm_compute; reflexivity. Qed.
Local Opaque escape_char re_match.

Lemma lex_normal_nl : forall s s', l_state s = LNormal -> lex_normal s 10 = LOk s' ->
  l_state s' = LNormal /\ l_buffer s' = [].
Proof.
  intros s s' Hst. unfold lex_normal. cbn [Z.eqb Pos.eqb orb andb].
  unfold with_dump. destruct (dump_buffer _) as [s2|] eqn:D; [|discriminate].
  apply dump_buffer_empty in D. destruct D as [D1 D2].
  intros H; inversion H; subst. split; [rewrite D2; ds s; exact Hst|exact D1].
Qed.

Lemma lex_builtin_nl : forall s s', l_buffer s = [] -> lex_builtin s 10 = LOk s' ->
  l_state s' = LNormal /\ l_buffer s' = [].
Proof.
  intros s s' Hb. unfold lex_builtin.
  destruct (l_prevrune (set_state LNormal s) =? 45) eqn:E45.
  - apply Z.eqb_eq in E45. rewrite E45, neg_nl_float, neg_nl_dec. rewrite andb_false_r.
    destruct (re_match re_BuiltinOpRegex _).
    + intros H; inversion H; subst; ds s; simpl in *; split; [reflexivity|exact Hb].
    + apply lex_normal_nl. ds s; reflexivity.
  - cbn [andb]. destruct (re_match re_BuiltinOpRegex _).
    + intros H; inversion H; subst; ds s; simpl in *; split; [reflexivity|exact Hb].
    + apply lex_normal_nl. ds s; reflexivity.
Qed.

(* after a newline: either the lexer is inside a string / raw string / block comment / rune
   literal, or it is in normal mode with nothing pending in the atom buffer *)
Lemma lex_rune_nl : forall s s', binv s -> lex_rune s 10 = LOk s' -> l_state s' = LNormal -> l_buffer s' = [].
Proof.
  intros s s' Hinv. unfold lex_rune.
  assert (binv (ring_push 10 s)) as Hinv1 by (ds s; exact Hinv).
  set (s1 := ring_push 10 s) in *. clearbody s1.
  destruct (l_state s1) eqn:Est.
  - intros H _. apply (lex_normal_nl s1 s' Est H).
  - cbn [Z.eqb Pos.eqb]. intros H; inversion H; subst. destruct s1; reflexivity.
  - cbn [Z.eqb Pos.eqb]. intros H; inversion H; subst. destruct s1; simpl in *; intros; congruence.
  - rewrite esc_nl; discriminate.
  - cbn [Z.eqb Pos.eqb]. intros H _. eapply lex_normal_nl; [|exact H]. destruct s1; reflexivity.
  - cbn [Z.eqb Pos.eqb]. intros H; inversion H; subst. destruct s1; simpl in *; intros; congruence.
  - unfold lex_freshassign, with_dump. cbn [Z.eqb Pos.eqb].
    destruct (slice_bound _); (destruct (dump_buffer _) as [s2|] eqn:D; [|discriminate]);
      apply dump_buffer_empty in D; destruct D as [_ D]; intros H _.
    + eapply lex_normal_nl; [|exact H]. destruct s2; destruct s1; simpl in *; exact D.
    + eapply lex_normal_nl; [|exact H]. destruct s2; destruct s1; simpl in *; exact D.
  - unfold lex_firstslash, with_dump. cbn [Z.eqb Pos.eqb].
    destruct (dump_buffer _) as [s2|] eqn:D; [|discriminate]. apply dump_buffer_empty in D. destruct D as [D1 _].
    intros H _. apply (lex_builtin_nl s2 s' D1 H).
  - cbn [Z.eqb Pos.eqb]. intros H; inversion H; subst. destruct s1; simpl in *; intros; congruence.
  - cbn [Z.eqb Pos.eqb]. intros H; inversion H; subst. destruct s1; simpl in *; intros; congruence.
  - intros H _. apply (lex_builtin_nl s1 s' (Hinv1 Est) H).
  - cbn [Z.eqb Pos.eqb]. intros H; inversion H; subst. destruct s1; simpl in *; intros; congruence.
  - rewrite esc_nl; discriminate.
Qed.

Theorem last_token_kept : forall text s',
  lex_all init_lstate (text ++ [10]) = LOk s' -> l_state s' = LNormal -> l_buffer s' = [].
Proof.
  intros text s' H Hst. rewrite lex_all_app in H.
  destruct (lex_all init_lstate text) as [s|s] eqn:E; [|discriminate].
  simpl in H. destruct (lex_rune s 10) as [s2|s2] eqn:E2; [|discriminate]. inversion H; subst.
  eapply lex_rune_nl; [eapply lex_all_binv; [apply init_binv|exact E]|exact E2|exact Hst].
Qed.
