(* C06, lexer half: the look-back ring of zygo/lexer.go (priorRune [20]rune, priori, twoback) gives, at
   EVERY offset of a text of ANY length (wrap-around included), the true previous runes of the text;
   hence the real lexer is the ring-free specification lexer of Model/LexerPrev.v, and the tokens of
   a text do not depend on the blanks in front of it. *)
From Coq Require Import ZArith List Bool Lia Arith.
From ZV Require Import Model.Regex Generated.LexTables Model.Lexer Model.LexerPrev Proofs.LexerProofs Proofs.SugarTokens.
Import ListNotations.
Open Scope Z_scope.

(* classes of the blank runes, computed before the tables are made opaque *)
Definition blank (r : Z) : Prop := r = 32 \/ r = 9 \/ r = 13 \/ r = 10.
Lemma cls_blank : forall r, blank r -> cls r = (false, true).
Proof. intros r [H|[H|[H|H]]]; subst r; vm_compute; reflexivity. Qed.
Lemma cls_zero : cls 0 = (false, true).
Proof. vm_compute; reflexivity. Qed.

Local Opaque decode_atom re_match slice_bound escape_char sci_prefix_ok can_start_signed_after decode_brace.
Local Arguments Nat.modulo : simpl never.
Local Arguments nth : simpl never.
Local Arguments Nat.sub : simpl never.

(* ================= 1. the ring look-back is the true look-back ================= *)

Lemma nth_upd_eq : forall (l : list Z) n v d, (n < length l)%nat -> nth n (upd_nth n v l) d = v.
Proof.
  induction l as [|x l IH]; intros n v d H; simpl in H; [lia|].
  destruct n; [reflexivity|]. simpl. unfold nth; fold (@nth Z). apply IH; lia.
Qed.

Lemma nth_upd_neq : forall (l : list Z) n m v d, n <> m -> nth m (upd_nth n v l) d = nth m l d.
Proof.
  induction l as [|x l IH]; intros n m v d H; [destruct n; reflexivity|].
  destruct n, m; simpl; try reflexivity; [lia|]. unfold nth; fold (@nth Z). apply IH; lia.
Qed.

(* index arithmetic of the ring, for every position p and every look-back k: checked exhaustively *)
Definition idx_ok (p k : nat) : bool :=
  let p' := ((p + 1) mod 20)%nat in
  if (k =? 1)%nat then ((p' + (20 - k)) mod 20 =? p)%nat
  else (((p' + (20 - k)) mod 20 =? (p + (20 - (k - 1))) mod 20)%nat
        && negb ((p + (20 - (k - 1))) mod 20 =? p)%nat).

Lemma idx_all : forallb (fun p => forallb (fun k => idx_ok p k) (seq 1 20)) (seq 0 20) = true.
Proof. vm_compute; reflexivity. Qed.

Lemma idx_ok_true : forall p k, (p < 20)%nat -> (1 <= k <= 20)%nat -> idx_ok p k = true.
Proof.
  intros p k Hp Hk. pose proof idx_all as H. rewrite forallb_forall in H.
  specialize (H p). rewrite in_seq in H. specialize (H ltac:(lia)).
  rewrite forallb_forall in H. apply H. rewrite in_seq. lia.
Qed.

(* one push shifts every look-back by one *)
Lemma kback_push : forall s r k, ring_wf s -> (1 <= k <= 20)%nat ->
  kback k (ring_push r s) = if (k =? 1)%nat then r else kback (k - 1) s.
Proof.
  intros s r k [Hp Hl] Hk. ds s. unfold kback, ring_push, ring_size in *. simpl in *.
  pose proof (idx_ok_true pi k Hp Hk) as H. unfold idx_ok in H.
  destruct (k =? 1)%nat eqn:K1.
  - apply Nat.eqb_eq in H. rewrite H. apply nth_upd_eq. lia.
  - apply andb_true_iff in H. destruct H as [H1 H2]. apply Nat.eqb_eq in H1.
    apply negb_true_iff in H2. apply Nat.eqb_neq in H2. rewrite H1. apply nth_upd_neq. lia.
Qed.

(* the ring after a successfully lexed text is the ring after pushing its runes *)
Definition pushes (t : list Z) (s : lstate) : lstate := fold_left (fun s r => ring_push r s) t s.

Lemma pushes_ringof : forall t a b, ringof a = ringof b -> ringof (pushes t a) = ringof (pushes t b).
Proof. induction t as [|r t IH]; intros a b H; simpl; [exact H|]. apply IH. apply ringof_push. exact H. Qed.

Lemma lex_all_ring : forall t s s', lex_all s t = LOk s' -> ringof s' = ringof (pushes t s).
Proof.
  induction t as [|r t IH]; intros s s' H; simpl in *.
  - inversion H; reflexivity.
  - pose proof (lex_rune_ring s r) as G. destruct (lex_rune s r) as [a|a]; [|discriminate]. simpl in G.
    rewrite (IH _ _ H). apply pushes_ringof. exact G.
Qed.

Lemma kback_ringof : forall k s s', ringof s = ringof s' -> kback k s = kback k s'.
Proof. intros k s s' H; destruct s, s'; unfold ringof in H; simpl in H; inversion H; subst; reflexivity. Qed.

Lemma pushes_wf : forall t s, ring_wf s -> ring_wf (pushes t s).
Proof. induction t as [|r t IH]; intros s W; simpl; [exact W|]. apply IH. apply ring_push_wf. exact W. Qed.

Lemma kback_pushes : forall t s hist, ring_wf s ->
  (forall k, (1 <= k <= 20)%nat -> kback k s = nth (k - 1) hist 0) ->
  forall k, (1 <= k <= 20)%nat -> kback k (pushes t s) = nth (k - 1) (rev t ++ hist) 0.
Proof.
  induction t as [|r t IH]; intros s hist W H k Hk; simpl.
  - apply H; exact Hk.
  - rewrite <- app_assoc. simpl. apply IH; [apply ring_push_wf; exact W| |exact Hk].
    intros j Hj. rewrite kback_push by assumption.
    destruct (j =? 1)%nat eqn:J.
    + apply Nat.eqb_eq in J. subst j. reflexivity.
    + apply Nat.eqb_neq in J. rewrite H by lia.
      replace (j - 1)%nat with (S (j - 1 - 1)) at 2 by lia. reflexivity.
Qed.

Lemma kback_init : forall k, (1 <= k <= 20)%nat -> kback k init_lstate = nth (k - 1) [] 0.
Proof.
  intros k Hk. replace (nth (k - 1) [] 0) with 0 by (destruct (k - 1)%nat; reflexivity).
  unfold kback, init_lstate, ring_size. cbn [l_priori l_ring]. apply nth_repeat.
Qed.

(* THE look-back theorem: after lexing any text t (any length: the ring wraps every 20 runes), the
   k-th look-back of the ring is the k-th previous rune of the text, 0 before its start *)
Theorem ring_lookback_correct_lemma : forall t s k, lex_all init_lstate t = LOk s -> (1 <= k <= 20)%nat ->
  kback k s = true_back k t.
Proof.
  intros t s k H Hk. rewrite (kback_ringof k _ _ (lex_all_ring _ _ _ H)).
  unfold true_back. rewrite (kback_pushes t init_lstate [] ring_wf_init kback_init k Hk).
  rewrite app_nil_r. reflexivity.
Qed.

(* what LexNextRune sees: twoback, called after the current rune r was pushed, is the last rune of
   the text lexed so far *)
Theorem twoback_is_previous_rune_lemma : forall t s r, lex_all init_lstate t = LOk s ->
  twoback (ring_push r s) = last t 0.
Proof.
  intros t s r H.
  assert (W : ring_wf s).
  { eapply ring_wf_ringof; [symmetry; apply (lex_all_ring _ _ _ H)|apply pushes_wf; apply ring_wf_init]. }
  change (twoback (ring_push r s)) with (kback 2 (ring_push r s)).
  rewrite kback_push by (try assumption; lia). change (kback 1 s = last t 0).
  rewrite (ring_lookback_correct_lemma t s 1 H) by lia. unfold true_back. change (1 - 1)%nat with 0%nat.
  destruct t as [|a t] using rev_ind; [reflexivity|]. rewrite rev_app_distr, last_last. reflexivity.
Qed.

(* ================= 2. the real lexer is the ring-free lexer ================= *)

Lemma dump_twoback : forall s s1, dump_buffer s = Some s1 -> twoback s1 = twoback s.
Proof. intros s s1 H. apply twoback_ringof. apply dump_ring. exact H. Qed.

Lemma lexp_normal_eq : forall s r, lex_normal s r = lexp_normal (twoback s) s r.
Proof.
  intros s r. unfold lex_normal, lexp_normal, with_dump.
  destruct (dump_buffer s) as [s1|] eqn:D; [rewrite (dump_twoback _ _ D)|]; reflexivity.
Qed.

Lemma lexp_builtin_eq : forall s r, lex_builtin s r = lexp_builtin (twoback s) s r.
Proof.
  intros s r. unfold lex_builtin, lexp_builtin. rewrite lexp_normal_eq.
  replace (twoback (append_token (mkTok TSymbol [l_prevrune (set_state LNormal s)]) (set_state LNormal s)))
    with (twoback s) by (ds s; reflexivity).
  reflexivity.
Qed.

Lemma lexp_firstslash_eq : forall s r, lex_firstslash s r = lexp_firstslash (twoback s) s r.
Proof.
  intros s r. unfold lex_firstslash, lexp_firstslash, with_dump.
  destruct (dump_buffer (set_prevrune 47 (set_state LBuiltinOperator s))) as [s1|] eqn:D.
  - rewrite lexp_builtin_eq. rewrite (dump_twoback _ _ D).
    replace (twoback (set_prevrune 47 (set_state LBuiltinOperator s))) with (twoback s) by (ds s; reflexivity).
    reflexivity.
  - reflexivity.
Qed.

Lemma lexp_freshassign_eq : forall s r, lex_freshassign s r = lexp_freshassign (twoback s) s r.
Proof.
  intros s r. unfold lex_freshassign, lexp_freshassign, with_dump.
  destruct (r =? 61); [reflexivity|].
  destruct (slice_bound _).
  - destruct (dump_buffer (set_state LNormal s)) as [s1|] eqn:D; [|reflexivity].
    rewrite lexp_normal_eq.
    replace (twoback (append_token (mkTok TColonOperator [58]) s1)) with (twoback s1) by (ds s1; reflexivity).
    rewrite (dump_twoback _ _ D). replace (twoback (set_state LNormal s)) with (twoback s) by (ds s; reflexivity).
    reflexivity.
  - destruct (dump_buffer (write_rune 58 (set_state LNormal s))) as [s1|] eqn:D; [|reflexivity].
    rewrite lexp_normal_eq. rewrite (dump_twoback _ _ D).
    replace (twoback (write_rune 58 (set_state LNormal s))) with (twoback s) by (ds s; reflexivity).
    reflexivity.
Qed.

(* exact step equation: LexNextRune = the ring-free step fed with what twoback returns *)
Lemma lex_rune_eq : forall s r,
  lex_rune s r = lexp_rune (twoback (ring_push r s)) (ring_push r s) r.
Proof.
  intros s r. unfold lex_rune, lexp_rune. set (s1 := ring_push r s). clearbody s1.
  destruct (l_state s1); try reflexivity.
  - apply lexp_normal_eq.
  - destruct (r =? 64); [reflexivity|]. rewrite lexp_normal_eq.
    replace (twoback (set_state LNormal (append_token (mkTok TTilde []) s1))) with (twoback s1) by (ds s1; reflexivity).
    reflexivity.
  - apply lexp_freshassign_eq.
  - apply lexp_firstslash_eq.
  - apply lexp_builtin_eq.
Qed.

(* the ring-free step does not look at the ring fields *)
Definition E (s s' : lstate) : Prop :=
  l_state s = l_state s' /\ l_prevrune s = l_prevrune s' /\ l_tokens s = l_tokens s' /\
  l_buffer s = l_buffer s' /\ l_prevtok s = l_prevtok s' /\ l_prevprevtok s = l_prevprevtok s' /\
  l_prebuiltin s = l_prebuiltin s' /\ l_linenum s = l_linenum s'.
Definition Eres (x y : lres) : Prop :=
  match x, y with LOk a, LOk b => E a b | LErr a, LErr b => E a b | _, _ => False end.

Ltac crunchE :=
  repeat (match goal with
          | |- context [if ?c then _ else _] => destruct c
          | |- context [match ?l with [] => _ | _ :: _ => _ end] => destruct l
          | |- context [match decode_atom ?x with _ => _ end] => destruct (decode_atom x)
          | |- context [match escape_char ?x with _ => _ end] => destruct (escape_char x)
          end; simpl).

Lemma lexp_rune_E : forall pr s s' r, E s s' -> Eres (lexp_rune pr s r) (lexp_rune pr s' r).
Proof.
  intros pr0 s s' r H. destruct s as [st pr tk bf pt ppt pb ln pi rg]. destruct s' as [st' pr' tk' bf' pt' ppt' pb' ln' pi' rg'].
  unfold E in H. simpl in H. destruct H as (E1 & E2 & E3 & E4 & E5 & E6 & E7 & E8). subst st' pr' tk' bf' pt' ppt' pb' ln'.
  unfold lexp_rune. destruct st; simpl;
    unfold lexp_normal, lexp_firstslash, lexp_freshassign, lexp_builtin, lexp_normal, with_dump, dump_buffer, dump_as,
      append_token, write_rune, write_runes; simpl;
    crunchE; unfold Eres, E; simpl; repeat split; reflexivity.
Qed.

Lemma E_push : forall r s s', E s s' -> E (ring_push r s) s'.
Proof. intros r s s' H; destruct s, s'; exact H. Qed.

Lemma lex_lexp_all : forall t s s' pr, ring_wf s -> E s s' -> (forall r, twoback (ring_push r s) = pr) ->
  Eres (lex_all s t) (lexp_all pr s' t).
Proof.
  induction t as [|r t IH]; intros s s' pr W HE HT; simpl.
  - exact HE.
  - rewrite lex_rune_eq, HT.
    pose proof (lexp_rune_E pr _ _ r (E_push r s s' HE)) as HB.
    pose proof (lex_rune_ring s r) as G. rewrite lex_rune_eq, HT in G.
    destruct (lexp_rune pr (ring_push r s) r) as [a|a]; destruct (lexp_rune pr s' r) as [b|b]; simpl in *; try contradiction.
    + apply IH; [eapply ring_wf_ringof; [symmetry; exact G|apply ring_push_wf; exact W]|exact HB|].
      intros r2. rewrite (twoback_ringof _ _ (ringof_push r2 _ _ G)). apply twoback_push_push. exact W.
    + exact HB.
Qed.

Lemma E_refl : forall s, E s s.
Proof. intros s; unfold E; repeat split; reflexivity. Qed.

Lemma twoback_init : forall r, twoback (ring_push r init_lstate) = 0.
Proof. intros r. reflexivity. Qed.

(* for EVERY text: the tokens (and the error flag) of the real lexer are those of the lexer that is
   handed the true previous rune *)
Theorem lex_is_prev_lexer_lemma : forall t, lex_text t = lexp_text t.
Proof.
  intros t. unfold lex_text, lexp_text.
  pose proof (lex_lexp_all t init_lstate init_lstate 0 ring_wf_init (E_refl _) twoback_init) as H.
  destruct (lex_all init_lstate t) as [a|a]; destruct (lexp_all 0 init_lstate t) as [b|b]; simpl in *; try contradiction;
    destruct H as (_ & _ & H3 & _); rewrite H3; reflexivity.
Qed.

(* ================= 3. the tokens of a text do not depend on its position ================= *)

Lemma lex_rune_blank : forall s r, blank r -> l_state s = LNormal -> l_buffer s = [] ->
  exists s', lex_rune s r = LOk s' /\ l_state s' = LNormal /\ l_buffer s' = [] /\
             l_tokens s' = l_tokens s /\ l_prevrune s' = l_prevrune s.
Proof.
  intros s r B HS HB. unfold lex_rune. ds s. simpl in HS, HB. subst st bf.
  destruct B as [B|[B|[B|B]]]; subst r; eexists; (split; [reflexivity|]); simpl; repeat split; reflexivity.
Qed.

Lemma lex_all_blanks : forall pad s, Forall blank pad -> pad <> [] -> l_state s = LNormal -> l_buffer s = [] -> ring_wf s ->
  exists s', lex_all s pad = LOk s' /\ l_state s' = LNormal /\ l_buffer s' = [] /\
             l_tokens s' = l_tokens s /\ l_prevrune s' = l_prevrune s /\ ring_wf s' /\
             (forall r, cls (twoback (ring_push r s')) = (false, true)).
Proof.
  induction pad as [|b pad IH]; intros s F NE HS HB W; [contradiction|].
  inversion F as [|x y Fb Fp]; subst x y.
  destruct (lex_rune_blank s b Fb HS HB) as (s1 & L1 & S1 & B1 & T1 & P1).
  pose proof (lex_rune_ring s b) as G. rewrite L1 in G. simpl in G.
  assert (W1 : ring_wf s1) by (eapply ring_wf_ringof; [symmetry; exact G|apply ring_push_wf; exact W]).
  simpl. rewrite L1. destruct pad as [|c pad].
  - exists s1. simpl. split; [reflexivity|]. do 5 (split; [assumption|]).
    intros r. rewrite (twoback_ringof _ _ (ringof_push r _ _ G)). rewrite twoback_push_push by exact W.
    apply cls_blank; exact Fb.
  - destruct (IH s1 Fp ltac:(discriminate) S1 B1 W1) as (s2 & L2 & S2 & B2 & T2 & P2 & W2 & C2).
    exists s2. split; [exact L2|]. split; [exact S2|]. split; [exact B2|]. split; [congruence|]. split; [congruence|].
    split; [exact W2|exact C2].
Qed.

(* blanks, tabs and newlines in front of a text - any number of them, so the text may start at any
   position of the ring - do not change its tokens *)
Theorem lex_position_independent_lemma : forall pad t, Forall blank pad -> lex_text (pad ++ t) = lex_text t.
Proof.
  intros pad t F. destruct pad as [|b pad]; [reflexivity|].
  unfold lex_text. rewrite lex_all_app.
  destruct (lex_all_blanks (b :: pad) init_lstate F ltac:(discriminate) eq_refl eq_refl ring_wf_init)
    as (s' & L & S1 & B1 & T1 & P1 & W1 & C1).
  rewrite L.
  assert (HR : R s' init_lstate).
  { unfold R. split; [exact S1|]. split; [exact P1|]. split; [exact T1|]. split; [exact B1|].
    intros X; rewrite S1 in X; discriminate. }
  assert (HT : forall r, T (ring_push r s') (ring_push r init_lstate)).
  { intros r. unfold T. rewrite C1, twoback_init. symmetry. apply cls_zero. }
  destruct (lex_all_R t s' init_lstate HR W1 ring_wf_init HT) as [H1 H2].
  rewrite H1, H2. reflexivity.
Qed.
