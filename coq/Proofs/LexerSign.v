(* C06, lexer half: the sign-versus-operator decision.  A '-' directly followed by a digit, at ANY offset
   of a text of ANY length, starts a negative literal exactly when the TRUE previous rune of the text is in
   canStartSignedNumberAfter (0 = start of the text); otherwise it is the symbol '-' and the digit starts
   the next atom.  (Outside the exponent rule: the atom in front is not <mantissa>e / E.) *)
From Coq Require Import ZArith List Bool Lia.
From ZV Require Import Model.Regex Generated.LexTables Model.Lexer Model.LexerPrev Proofs.LexerProofs Proofs.SugarTokens Proofs.LexerRing.
Import ListNotations.
Open Scope Z_scope.

Local Opaque can_start_signed_after re_match.

Definition after_minus (pr : Z) (s1 : lstate) : lstate :=
  set_state LNormal (set_prevrune 45 (set_prebuiltin pr (set_state LBuiltinOperator s1))).

(* on the ring-free specification lexer *)
Lemma lexp_sign_rule : forall pr s s1 d,
  l_state s = LNormal -> dump_buffer s = Some s1 ->
  ((pr =? 101) || (pr =? 69)) && sci_prefix_ok (l_buffer s) = false ->
  48 <= d <= 57 ->
  lexp_all pr s [45; d] =
    LOk (if can_start_signed_after pr then write_runes [45; d] (after_minus pr s1)
         else write_rune d (append_token (mkTok TSymbol [45]) (after_minus pr s1))).
Proof.
  intros pr s s1 d HS HD HE Hd.
  assert (L1 : lexp_rune pr s 45 = LOk (set_prevrune 45 (set_prebuiltin pr (set_state LBuiltinOperator s1)))).
  { unfold lexp_rune. rewrite HS. unfold lexp_normal.
    change ((45 =? 43) || (45 =? 45)) with true. cbv iota. rewrite HE. unfold with_dump. rewrite HD. reflexivity. }
  cbn [lexp_all]. rewrite L1. clear L1 HS HD HE s.
  assert (Hd' : d = 48 \/ d = 49 \/ d = 50 \/ d = 51 \/ d = 52 \/ d = 53 \/ d = 54 \/ d = 55 \/ d = 56 \/ d = 57) by lia.
  clear Hd. unfold after_minus.
  destruct s1 as [st p tk bf pt ppt pb ln pi rg].
  unfold lexp_rune. simpl l_state. cbv iota. unfold lexp_builtin. simpl.
  destruct (can_start_signed_after pr);
    destruct Hd' as [H|[H|[H|[H|[H|[H|[H|[H|[H|H]]]]]]]]]; subst d; vm_compute; reflexivity.
Qed.

(* on the real lexer, after any text *)
Theorem sign_rule_lemma : forall t s s1 d,
  lex_all init_lstate t = LOk s -> l_state s = LNormal -> dump_buffer s = Some s1 ->
  ((last t 0 =? 101) || (last t 0 =? 69)) && sci_prefix_ok (l_buffer s) = false ->
  48 <= d <= 57 ->
  exists s', lex_all s [45; d] = LOk s' /\ l_state s' = LNormal /\
    if can_start_signed_after (last t 0)
    then l_buffer s' = [45; d] /\ l_tokens s' = l_tokens s1
    else l_buffer s' = [d] /\ l_tokens s' = l_tokens s1 ++ [mkTok TSymbol [45]].
Proof.
  intros t s s1 d HL HS HD HE Hd.
  assert (W : ring_wf s).
  { eapply ring_wf_ringof; [symmetry; apply (lex_all_ring _ _ _ HL)|apply pushes_wf; apply ring_wf_init]. }
  pose proof (lex_lexp_all [45; d] s s (last t 0) W (E_refl s)
                (fun r => twoback_is_previous_rune_lemma t s r HL)) as HR.
  rewrite (lexp_sign_rule _ _ _ _ HS HD HE Hd) in HR.
  destruct (dump_buffer_empty _ _ HD) as [B1 _].
  destruct (lex_all s [45; d]) as [a|a]; [|contradiction]. simpl in HR.
  destruct HR as (E1 & _ & E3 & E4 & _).
  exists a. split; [reflexivity|]. rewrite E1, E3, E4.
  destruct (can_start_signed_after (last t 0)); destruct s1; simpl in *; subst; repeat split; reflexivity.
Qed.
