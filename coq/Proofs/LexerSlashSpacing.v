(* C06, lexer half, round 7: blanks around the operators that go through the other lexer modes - '/' and
   '/=' (first forward slash state), ':=' (fresh-assign-or-colon state) - do not change the tokens. *)
From Coq Require Import ZArith List Bool Lia.
From ZV Require Import Model.Regex Generated.LexTables Model.Lexer Model.LexerPrev Proofs.LexerProofs
  Proofs.SugarTokens Proofs.LexerRing Proofs.LexerSign Proofs.OpSpacing.
Import ListNotations.
Open Scope Z_scope.

Lemma slash_space_no_merge : re_match re_BuiltinOpRegex [47; 32] = false.
Proof. vm_compute; reflexivity. Qed.
Lemma slash_eq_merge : re_match re_BuiltinOpRegex [47; 61] = true.
Proof. vm_compute; reflexivity. Qed.
Lemma cls_47 : cls 47 = cls 32.
Proof. vm_compute; reflexivity. Qed.
Lemma cls_61 : cls 61 = cls 32.
Proof. vm_compute; reflexivity. Qed.

Local Opaque re_match decode_atom sci_prefix_ok slice_bound escape_char can_start_signed_after decode_brace.
Local Arguments Nat.modulo : simpl never.
Local Arguments nth : simpl never.
Local Arguments Nat.sub : simpl never.

(* ================= 2. spacing of / , /= and := ================= *)

(* --- the first-forward-slash mode --- *)
Definition slash_open (r : Z) (s : lstate) : lstate :=
  set_prevrune 47 (set_state LBuiltinOperator (ring_push r (set_state LFirstFwdSlash (ring_push 47 s)))).

Lemma step_slash : forall s, l_state s = LNormal ->
  lex_rune s 47 = LOk (set_state LFirstFwdSlash (ring_push 47 s)).
Proof.
  intros s H. rewrite lex_rune_body. unfold lex_body.
  replace (l_state (ring_push 47 s)) with LNormal by (ds s; simpl in *; congruence). reflexivity.
Qed.

Lemma dump_slash_open : forall r s,
  dump_buffer (slash_open r s) = match dump_buffer s with Some x => Some (slash_open r x) | None => None end.
Proof.
  intros r s; ds s. unfold dump_buffer, slash_open; simpl. destruct bf; [reflexivity|].
  destruct (decode_atom _); reflexivity.
Qed.

Lemma step_slash2 : forall s r, (r =? 47) = false -> (r =? 42) = false ->
  lex_rune (set_state LFirstFwdSlash (ring_push 47 s)) r =
    match dump_buffer s with Some x => lex_builtin (slash_open r x) r | None => LErr (slash_open r s) end.
Proof.
  intros s r H1 H2. rewrite lex_rune_body. unfold lex_body.
  replace (l_state (ring_push r (set_state LFirstFwdSlash (ring_push 47 s)))) with LFirstFwdSlash by (ds s; reflexivity).
  unfold lex_firstslash. rewrite H1, H2. unfold with_dump.
  change (set_prevrune 47 (set_state LBuiltinOperator (ring_push r (set_state LFirstFwdSlash (ring_push 47 s)))))
    with (slash_open r s).
  rewrite dump_slash_open. destruct (dump_buffer s); reflexivity.
Qed.

Lemma builtin_slash_plain : forall x r, re_match re_BuiltinOpRegex [47; r] = false ->
  lex_builtin (slash_open r x) r = lex_normal (append_token (mkTok TSymbol [47]) (set_state LNormal (slash_open r x))) r.
Proof.
  intros x r H. unfold lex_builtin.
  replace (l_prevrune (set_state LNormal (slash_open r x))) with 47 by (ds x; reflexivity).
  change (47 =? 45) with false. cbn [andb]. rewrite H. reflexivity.
Qed.

Lemma builtin_slash_eq : forall x,
  lex_builtin (slash_open 61 x) 61 = LOk (append_token (mkTok TSymbol [47; 61]) (set_state LNormal (slash_open 61 x))).
Proof.
  intros x. unfold lex_builtin.
  replace (l_prevrune (set_state LNormal (slash_open 61 x))) with 47 by (ds x; reflexivity).
  change (47 =? 45) with false. cbn [andb]. rewrite slash_eq_merge. reflexivity.
Qed.

Lemma twoback_3 : forall x a b c, ring_wf x ->
  twoback (ring_push c (ring_push b (ring_push a x))) = b.
Proof. intros x a b c W. apply twoback_push_push. apply ring_push_wf. exact W. Qed.

(* '/' followed by a rune r that neither opens a comment nor completes '/=' *)
Lemma junction_slash : forall s r,
  l_state s = LNormal -> ring_wf s -> (r =? 47) = false -> (r =? 42) = false ->
  re_match re_BuiltinOpRegex [47; r] = false ->
  Junction (lex_all s ([47] ++ [r])) (lex_all s ([32; 47; 32] ++ [r])).
Proof.
  intros s r Hst W H47 H42 Hnm.
  simpl app. simpl lex_all.
  rewrite (step_slash s Hst), (step_slash2 s r H47 H42), (step_space s Hst).
  destruct (dump_buffer s) as [x|] eqn:D; [|simpl; ds s; reflexivity].
  destruct (dump_result _ _ D) as (Bx & Sx & Px & Rx).
  assert (ring_wf x) as Wx by (eapply ring_wf_ringof; [symmetry; exact Rx|exact W]).
  assert (l_state x = LNormal) as Stx by congruence.
  rewrite (builtin_slash_plain x r Hnm).
  (* spaced *)
  set (x1 := ring_push 32 x).
  assert (l_state x1 = LNormal) as S1 by (unfold x1; ds x; exact Stx).
  assert (l_buffer x1 = []) as B1 by (unfold x1; ds x; exact Bx).
  rewrite (step_slash x1 S1), (step_slash2 x1 32 eq_refl eq_refl), (dump_empty x1 B1).
  rewrite (builtin_slash_plain x1 32 slash_space_no_merge).
  set (u3 := append_token (mkTok TSymbol [47]) (set_state LNormal (slash_open 32 x1))).
  assert (lex_normal u3 32 = LOk u3) as E3.
  { unfold lex_normal; simpl. unfold with_dump. rewrite dump_empty; [reflexivity|unfold u3, x1; ds x; exact Bx]. }
  rewrite E3. clear E3.
  rewrite (step_normal u3 r) by (unfold u3; ds x; reflexivity).
  match goal with |- Junction (match ?a with _ => _ end) (match ?b with _ => _ end) => assert (Rres a b) as HR end.
  { apply lex_normal_R.
    - ds x; reflexivity.
    - unfold u3, x1, R; ds x; simpl in *; subst. repeat split; intros; discriminate.
    - unfold T.
      assert (twoback (append_token (mkTok TSymbol [47]) (set_state LNormal (slash_open r x))) = 47) as ->.
      { transitivity (twoback (ring_push r (ring_push 47 x))); [ds x; reflexivity|apply twoback_push_push; exact Wx]. }
      assert (twoback (ring_push r u3) = 32) as ->.
      { transitivity (twoback (ring_push r (ring_push 32 (ring_push 47 (ring_push 32 x))))); [unfold u3, x1; ds x; reflexivity|].
        apply twoback_push_push. repeat apply ring_push_wf. exact Wx. }
      exact cls_47. }
  destruct (lex_normal _ r) as [u|u]; destruct (lex_normal _ r) as [u'|u']; simpl in *; try contradiction; [exact HR|apply HR].
Qed.

Theorem op_spacing_slash : forall a b s,
  lex_all init_lstate a = LOk s -> l_state s = LNormal ->
  hd 10 (b ++ [10]) <> 47 -> hd 10 (b ++ [10]) <> 42 ->
  re_match re_BuiltinOpRegex [47; hd 10 (b ++ [10])] = false ->
  lex_text (a ++ [47] ++ b ++ [10]) = lex_text (a ++ [32; 47; 32] ++ b ++ [10]).
Proof.
  intros a b s Ha Hst H47 H42 Hnm.
  destruct (b ++ [10]) as [|r rest] eqn:Eb; [destruct b; discriminate|]. simpl in H47, H42, Hnm.
  pose proof (lex_all_ring_wf a init_lstate ring_wf_init) as W. rewrite Ha in W. simpl in W.
  change (a ++ [47] ++ r :: rest) with (a ++ ([47] ++ [r]) ++ rest).
  change (a ++ [32; 47; 32] ++ r :: rest) with (a ++ ([32; 47; 32] ++ [r]) ++ rest).
  eapply frame; [exact Ha|]. apply junction_slash; try assumption; apply Z.eqb_neq; assumption.
Qed.

(* '/=' : no condition on what follows *)
Lemma junction_slash_eq : forall s r,
  l_state s = LNormal -> ring_wf s ->
  Junction (lex_all s ([47; 61] ++ [r])) (lex_all s ([32; 47; 61; 32] ++ [r])).
Proof.
  intros s r Hst W.
  simpl app. simpl lex_all.
  rewrite (step_slash s Hst), (step_slash2 s 61 eq_refl eq_refl), (step_space s Hst).
  destruct (dump_buffer s) as [x|] eqn:D; [|simpl; ds s; reflexivity].
  destruct (dump_result _ _ D) as (Bx & Sx & Px & Rx).
  assert (ring_wf x) as Wx by (eapply ring_wf_ringof; [symmetry; exact Rx|exact W]).
  assert (l_state x = LNormal) as Stx by congruence.
  rewrite (builtin_slash_eq x).
  set (W1 := append_token (mkTok TSymbol [47; 61]) (set_state LNormal (slash_open 61 x))).
  rewrite (step_normal W1 r) by (unfold W1; ds x; reflexivity).
  set (x1 := ring_push 32 x).
  assert (l_state x1 = LNormal) as S1 by (unfold x1; ds x; exact Stx).
  assert (l_buffer x1 = []) as B1 by (unfold x1; ds x; exact Bx).
  rewrite (step_slash x1 S1), (step_slash2 x1 61 eq_refl eq_refl), (dump_empty x1 B1).
  rewrite (builtin_slash_eq x1).
  set (W1' := append_token (mkTok TSymbol [47; 61]) (set_state LNormal (slash_open 61 x1))).
  assert (lex_rune W1' 32 = LOk (ring_push 32 W1')) as E3.
  { rewrite (step_space W1') by (unfold W1'; ds x; reflexivity).
    rewrite dump_empty; [reflexivity|unfold W1', x1; ds x; exact Bx]. }
  rewrite E3. clear E3.
  rewrite (step_normal (ring_push 32 W1') r) by (unfold W1'; ds x; reflexivity).
  match goal with |- Junction (match ?a with _ => _ end) (match ?b with _ => _ end) => assert (Rres a b) as HR end.
  { apply lex_normal_R.
    - unfold W1; ds x; reflexivity.
    - unfold W1, W1', x1, R; ds x; simpl in *; subst. repeat split; intros; discriminate.
    - unfold T.
      assert (twoback (ring_push r W1) = 61) as ->.
      { transitivity (twoback (ring_push r (ring_push 61 (ring_push 47 x)))); [unfold W1; ds x; reflexivity|].
        apply twoback_push_push. apply ring_push_wf. exact Wx. }
      assert (twoback (ring_push r (ring_push 32 W1')) = 32) as ->.
      { transitivity (twoback (ring_push r (ring_push 32 (ring_push 61 (ring_push 47 (ring_push 32 x))))));
          [unfold W1', x1; ds x; reflexivity|].
        apply twoback_push_push. repeat apply ring_push_wf. exact Wx. }
      exact cls_61. }
  destruct (lex_normal _ r) as [u|u]; destruct (lex_normal _ r) as [u'|u']; simpl in *; try contradiction; [exact HR|apply HR].
Qed.

Theorem op_spacing_slash_eq : forall a b s,
  lex_all init_lstate a = LOk s -> l_state s = LNormal ->
  lex_text (a ++ [47; 61] ++ b ++ [10]) = lex_text (a ++ [32; 47; 61; 32] ++ b ++ [10]).
Proof.
  intros a b s Ha Hst.
  destruct (b ++ [10]) as [|r rest] eqn:Eb; [destruct b; discriminate|].
  pose proof (lex_all_ring_wf a init_lstate ring_wf_init) as W. rewrite Ha in W. simpl in W.
  change (a ++ [47; 61] ++ r :: rest) with (a ++ ([47; 61] ++ [r]) ++ rest).
  change (a ++ [32; 47; 61; 32] ++ r :: rest) with (a ++ ([32; 47; 61; 32] ++ [r]) ++ rest).
  eapply frame; [exact Ha|]. apply junction_slash_eq; assumption.
Qed.

(* --- the fresh-assign-or-colon mode --- *)
Definition colon_eq (s : lstate) : lstate :=
  set_state LNormal (ring_push 61 (set_state LFreshAssignOrColon (ring_push 58 s))).

Lemma step_colon : forall s, l_state s = LNormal ->
  lex_rune s 58 = LOk (set_state LFreshAssignOrColon (ring_push 58 s)).
Proof.
  intros s H. rewrite lex_rune_body. unfold lex_body.
  replace (l_state (ring_push 58 s)) with LNormal by (ds s; simpl in *; congruence). reflexivity.
Qed.

Lemma dump_colon_eq : forall s,
  dump_buffer (colon_eq s) = match dump_buffer s with Some x => Some (colon_eq x) | None => None end.
Proof.
  intros s; ds s. unfold dump_buffer, colon_eq; simpl. destruct bf; [reflexivity|].
  destruct (decode_atom _); reflexivity.
Qed.

Lemma step_colon_eq : forall s,
  lex_rune (set_state LFreshAssignOrColon (ring_push 58 s)) 61 =
    match dump_buffer s with
    | Some x => LOk (append_token (mkTok TFreshAssign [58; 61]) (colon_eq x))
    | None => LErr (colon_eq s)
    end.
Proof.
  intros s. rewrite lex_rune_body. unfold lex_body.
  replace (l_state (ring_push 61 (set_state LFreshAssignOrColon (ring_push 58 s)))) with LFreshAssignOrColon by (ds s; reflexivity).
  unfold lex_freshassign. change (61 =? 61) with true. cbv iota. unfold with_dump.
  change (set_state LNormal (ring_push 61 (set_state LFreshAssignOrColon (ring_push 58 s)))) with (colon_eq s).
  rewrite dump_colon_eq. destruct (dump_buffer s); reflexivity.
Qed.

Lemma junction_fresh_assign : forall s r,
  l_state s = LNormal -> ring_wf s ->
  Junction (lex_all s ([58; 61] ++ [r])) (lex_all s ([32; 58; 61; 32] ++ [r])).
Proof.
  intros s r Hst W.
  simpl app. simpl lex_all.
  rewrite (step_colon s Hst), (step_colon_eq s), (step_space s Hst).
  destruct (dump_buffer s) as [x|] eqn:D; [|simpl; ds s; reflexivity].
  destruct (dump_result _ _ D) as (Bx & Sx & Px & Rx).
  assert (ring_wf x) as Wx by (eapply ring_wf_ringof; [symmetry; exact Rx|exact W]).
  assert (l_state x = LNormal) as Stx by congruence.
  set (W1 := append_token (mkTok TFreshAssign [58; 61]) (colon_eq x)).
  rewrite (step_normal W1 r) by (unfold W1; ds x; reflexivity).
  set (x1 := ring_push 32 x).
  assert (l_state x1 = LNormal) as S1 by (unfold x1; ds x; exact Stx).
  assert (l_buffer x1 = []) as B1 by (unfold x1; ds x; exact Bx).
  rewrite (step_colon x1 S1), (step_colon_eq x1), (dump_empty x1 B1).
  set (W1' := append_token (mkTok TFreshAssign [58; 61]) (colon_eq x1)).
  assert (lex_rune W1' 32 = LOk (ring_push 32 W1')) as E3.
  { rewrite (step_space W1') by (unfold W1'; ds x; reflexivity).
    rewrite dump_empty; [reflexivity|unfold W1', x1; ds x; exact Bx]. }
  rewrite E3. clear E3.
  rewrite (step_normal (ring_push 32 W1') r) by (unfold W1'; ds x; reflexivity).
  match goal with |- Junction (match ?a with _ => _ end) (match ?b with _ => _ end) => assert (Rres a b) as HR end.
  { apply lex_normal_R.
    - unfold W1; ds x; reflexivity.
    - unfold W1, W1', x1, R; ds x; simpl in *; subst. repeat split; intros; discriminate.
    - unfold T.
      assert (twoback (ring_push r W1) = 61) as ->.
      { transitivity (twoback (ring_push r (ring_push 61 (ring_push 58 x)))); [unfold W1; ds x; reflexivity|].
        apply twoback_push_push. apply ring_push_wf. exact Wx. }
      assert (twoback (ring_push r (ring_push 32 W1')) = 32) as ->.
      { transitivity (twoback (ring_push r (ring_push 32 (ring_push 61 (ring_push 58 (ring_push 32 x))))));
          [unfold W1', x1; ds x; reflexivity|].
        apply twoback_push_push. repeat apply ring_push_wf. exact Wx. }
      exact cls_61. }
  destruct (lex_normal _ r) as [u|u]; destruct (lex_normal _ r) as [u'|u']; simpl in *; try contradiction; [exact HR|apply HR].
Qed.

Theorem op_spacing_fresh_assign : forall a b s,
  lex_all init_lstate a = LOk s -> l_state s = LNormal ->
  lex_text (a ++ [58; 61] ++ b ++ [10]) = lex_text (a ++ [32; 58; 61; 32] ++ b ++ [10]).
Proof.
  intros a b s Ha Hst.
  destruct (b ++ [10]) as [|r rest] eqn:Eb; [destruct b; discriminate|].
  pose proof (lex_all_ring_wf a init_lstate ring_wf_init) as W. rewrite Ha in W. simpl in W.
  change (a ++ [58; 61] ++ r :: rest) with (a ++ ([58; 61] ++ [r]) ++ rest).
  change (a ++ [32; 58; 61; 32] ++ r :: rest) with (a ++ ([32; 58; 61; 32] ++ [r]) ++ rest).
  eapply frame; [exact Ha|]. apply junction_fresh_assign; assumption.
Qed.
