(* The lexer's token stream has the shape the parser relies on (Proofs/ReaderTotal.v wf_from):
   Comment* EndBlockComment after BeginBlockComment, BacktickString after BeginBacktickString,
   Uint64 tokens of at least 3 runes. *)
From Coq Require Import ZArith List Bool Lia.
From ZV Require Import Model.Regex Generated.LexTables Model.Lexer Model.Reader Model.TokScan
  Proofs.LexerProofs Proofs.RegexProofs Proofs.ReaderTotal.
Import ListNotations.
Open Scope Z_scope.

Lemma uint64_minlen : minlen re_Uint64Regex = Some 4%nat.
Proof. vm_compute. reflexivity. Qed.

Local Opaque re_match.

Lemma decode_atom_wstep : forall a t, decode_atom a = Some t -> wstep WFree t = Some WFree.
Proof.
  intros a t. unfold decode_atom.
  set (atom := if last_rune a =? 58 then removelast a else a).
  repeat match goal with
         | |- context [if ?c then _ else _] => let E := fresh "E" in destruct c eqn:E
         end;
    try (intros H; inversion H; subst; reflexivity); try discriminate.
  - (* Uint64 *)
    intros H; inversion H; subst. unfold wstep, kind_is; simpl.
    match goal with E : re_match re_Uint64Regex atom = true |- _ =>
      pose proof (re_match_minlen _ _ _ uint64_minlen E) as L end.
    destruct (length atom <? 3)%nat eqn:E3; [apply Nat.ltb_lt in E3; lia|reflexivity].
  - destruct (decode_char atom); intros H; inversion H; subst; reflexivity.
Qed.

Definition mode_auto (m : lmode) : wfa :=
  match m with LCommentBlock | LCommentBlockAsterisk => WBlock | LBacktickString => WRaw | _ => WFree end.

Definition LWa (s : lstate) (a : wfa) : Prop := wrun WFree (l_tokens s) = Some a.
Definition LW (s : lstate) : Prop := LWa s (mode_auto (l_state s)).

Lemma lwa_append : forall s a t a', LWa s a -> wstep a t = Some a' -> LWa (append_token t s) a'.
Proof.
  intros s a t a' H W. unfold LWa in *. destruct s; simpl in *. rewrite wrun_app, H. simpl. rewrite W. reflexivity.
Qed.

Lemma lwa_dump : forall s s', dump_buffer s = Some s' -> LWa s WFree -> LWa s' WFree /\ l_state s' = l_state s.
Proof.
  intros s s' D H. unfold dump_buffer in D. destruct (l_buffer s) eqn:B.
  - inversion D; subst; split; [exact H|reflexivity].
  - destruct (decode_atom (z :: l)) as [t|] eqn:E; [|discriminate]. inversion D; subst.
    split; [|destruct s; reflexivity].
    eapply lwa_append; [|eapply decode_atom_wstep; exact E]. destruct s; exact H.
Qed.

Lemma decode_brace_wstep : forall r, wstep WFree (decode_brace r) = Some WFree.
Proof. intros r. unfold decode_brace. repeat match goal with |- context [if ?c then _ else _] => destruct c end; reflexivity. Qed.

Ltac ds s := destruct s as [st pr tk bf pt ppt pb ln pi rg].

(* the state a lexing step leaves behind, error or not *)
Lemma lex_normal_lw : forall s r, l_state s = LNormal -> LWa s WFree -> LW (lres_state (lex_normal s r)).
Proof.
  intros s r Hst H. unfold lex_normal, with_dump.
  repeat match goal with
         | |- context [if ?c then _ else _] => destruct c
         | |- context [match dump_buffer ?x with _ => _ end] =>
             let D := fresh "D" in destruct (dump_buffer x) as [?s1|] eqn:D;
             [apply lwa_dump in D; [destruct D as [? ?]|try (ds s; exact H)]|]
         | |- context [match l_buffer ?x with _ => _ end] => destruct (l_buffer x)
         end; simpl lres_state; unfold LW;
    try (ds s; simpl in *; subst; exact H);
    try (match goal with H1 : LWa ?s1 WFree, H2 : l_state ?s1 = _ |- _ =>
           destruct s1; simpl in *; ds s; simpl in *; subst; simpl;
           first [exact H1 | eapply lwa_append; [exact H1|reflexivity]] end);
    try (ds s; simpl in *; subst; simpl; eapply lwa_append; [exact H|reflexivity]).
  destruct s1; simpl in *; ds s; simpl in *; subst; simpl. eapply lwa_append; [exact H0|apply decode_brace_wstep].
Qed.

Lemma lex_builtin_lw : forall s r, LWa s WFree -> LW (lres_state (lex_builtin s r)).
Proof.
  intros s r H. unfold lex_builtin.
  destruct (_ && _ && _).
  - simpl. unfold LW. ds s; exact H.
  - destruct (re_match re_BuiltinOpRegex _).
    + simpl. unfold LW. ds s; simpl in *. eapply lwa_append; [exact H|reflexivity].
    + apply lex_normal_lw; [ds s; reflexivity|]. ds s; simpl in *. eapply lwa_append; [exact H|reflexivity].
Qed.

Lemma lex_rune_lw : forall s r, LW s -> LW (lres_state (lex_rune s r)).
Proof.
  intros s r H. unfold lex_rune.
  assert (LW (ring_push r s)) as H1 by (ds s; exact H).
  set (s1 := ring_push r s) in *. clearbody s1. unfold LW in H1.
  destruct (l_state s1) eqn:Est; simpl in H1.
  - apply lex_normal_lw; assumption.
  - destruct (r =? 10); simpl; unfold LW; destruct s1; simpl in *; subst; simpl;
      [eapply lwa_append; [exact H1|reflexivity]|exact H1].
  - destruct (r =? 92); [|destruct (r =? 34)]; simpl; unfold LW; destruct s1; simpl in *; subst; simpl;
      try exact H1. eapply lwa_append; [exact H1|reflexivity].
  - destruct (escape_char r); simpl; unfold LW; destruct s1; simpl in *; subst; exact H1.
  - destruct (r =? 64).
    + simpl; unfold LW; destruct s1; simpl in *; subst; simpl. eapply lwa_append; [exact H1|reflexivity].
    + apply lex_normal_lw; [destruct s1; reflexivity|]. destruct s1; simpl in *. eapply lwa_append; [exact H1|reflexivity].
  - destruct (r =? 96); simpl; unfold LW; destruct s1; simpl in *; subst; simpl;
      [eapply lwa_append; [exact H1|reflexivity]|exact H1].
  - unfold lex_freshassign, with_dump.
    assert (LWa (set_state LNormal s1) WFree) as Hn by (destruct s1; exact H1).
    destruct (r =? 61).
    + destruct (dump_buffer _) as [s2|] eqn:D; simpl.
      * apply lwa_dump in D; [|exact Hn]. destruct D as [D1 D2]. unfold LW. destruct s2; simpl in *. rewrite D2. destruct s1; simpl.
        eapply lwa_append; [exact D1|reflexivity].
      * unfold LW. destruct s1; exact H1.
    + destruct (slice_bound _).
      * destruct (dump_buffer _) as [s2|] eqn:D; simpl.
        -- apply lwa_dump in D; [|exact Hn]. destruct D as [D1 D2].
           apply lex_normal_lw; [destruct s2; destruct s1; simpl in *; exact D2|].
           destruct s2; simpl in *. eapply lwa_append; [exact D1|reflexivity].
        -- unfold LW. destruct s1; exact H1.
      * destruct (dump_buffer _) as [s2|] eqn:D; simpl.
        -- apply lwa_dump in D; [|destruct s1; exact H1]. destruct D as [D1 D2].
           apply lex_normal_lw; [destruct s2; destruct s1; simpl in *; exact D2|exact D1].
        -- unfold LW. destruct s1; exact H1.
  - unfold lex_firstslash, with_dump.
    destruct (r =? 47); [|destruct (r =? 42)].
    + destruct (dump_buffer s1) as [s2|] eqn:D; simpl.
      * apply lwa_dump in D; [|exact H1]. destruct D as [D1 D2]. unfold LW. destruct s2; simpl in *. exact D1.
      * unfold LW. rewrite Est. exact H1.
    + destruct (dump_buffer s1) as [s2|] eqn:D; simpl.
      * apply lwa_dump in D; [|exact H1]. destruct D as [D1 D2]. unfold LW. destruct s2; simpl in *.
        eapply lwa_append; [exact D1|reflexivity].
      * unfold LW. rewrite Est. exact H1.
    + destruct (dump_buffer _) as [s2|] eqn:D; simpl.
      * apply lwa_dump in D; [|destruct s1; exact H1]. destruct D as [D1 D2]. apply lex_builtin_lw; exact D1.
      * unfold LW. destruct s1; exact H1.
  - destruct (r =? 10); [|destruct (r =? 42)]; simpl; unfold LW; destruct s1; simpl in *; subst; simpl;
      try exact H1. eapply lwa_append; [exact H1|reflexivity].
  - destruct (r =? 47); [|destruct (r =? 42)]; simpl; unfold LW; destruct s1; simpl in *; subst; simpl; try exact H1.
    eapply lwa_append; [eapply lwa_append; [exact H1|reflexivity]|reflexivity].
  - apply lex_builtin_lw; exact H1.
  - destruct (r =? 92); [|destruct (r =? 39)]; simpl.
    + unfold LW; destruct s1; simpl in *; subst; exact H1.
    + destruct (dump_buffer _) as [s2|] eqn:D; simpl.
      * apply lwa_dump in D; [|destruct s1; exact H1]. destruct D as [D1 D2]. unfold LW. destruct s2; simpl in *. exact D1.
      * unfold LW; destruct s1; simpl in *; exact H1.
    + unfold LW; destruct s1; simpl in *; subst; exact H1.
  - destruct (escape_char r); simpl; unfold LW; destruct s1; simpl in *; subst; exact H1.
Qed.

Lemma lex_all_lw : forall text s, LW s -> LW (lres_state (lex_all s text)).
Proof.
  induction text as [|r t IH]; intros s H; simpl; [exact H|].
  pose proof (lex_rune_lw s r H) as H1. destruct (lex_rune s r) as [s'|s']; simpl in *; [apply IH; exact H1|exact H1].
Qed.

Theorem lexer_tokens_wf : forall text, wf_from WFree (l_tokens (lres_state (lex_all init_lstate text))).
Proof.
  intros text. pose proof (lex_all_lw text init_lstate) as H. unfold wf_from.
  assert (LW init_lstate) as H0 by reflexivity. specialize (H H0). unfold LW, LWa in H. rewrite H. discriminate.
Qed.

(* ---- read_total: no panic site of parser.go is reachable ---- *)
From ZV Require Import Proofs.ReaderProofs.

Theorem whole_no_crash : forall b c fuel p text, is_crash (parse_after b c fuel p text) = false.
Proof.
  intros b c fuel p text. unfold parse_after, p_deliver, p_reset. cbn [ps_lex ps_out resume].
  rewrite reset_is_init. apply ptop_nc. unfold wfq. cbn [q_toks]. apply lexer_tokens_wf.
Qed.

Theorem pieces_no_crash : forall b c fuel pieces,
  match mark_last pieces with [] => True | first :: rest => pieces_ok b first rest end ->
  is_crash (parse_pieces b c fuel pieces) = false.
Proof.
  intros b c fuel pieces H. rewrite (pieces_is_whole b c fuel pieces H). apply whole_no_crash.
Qed.

Lemma is_crash_status : forall o, is_crash o = false -> fst (observe o) <> StCrash.
Proof. intros [] H; simpl in *; discriminate. Qed.
